#!/bin/bash
# Run once after a fresh restore, offline: builds the driver and warms the Go build cache.
set -eu
cd "$(dirname "$0")"
export GOFLAGS=-mod=mod GOPROXY=off GOSUMDB=off GOTOOLCHAIN=local
mkdir -p .work/bin evidence out
[ -f go/go.sum ] || cp /repo/go.sum go/go.sum
(cd go && go build -o ../.work/bin/vcheck ./cmd/vcheck && go vet ./internal/... >/dev/null 2>&1 || true)
(cd go && go test -tags verif -count=1 -run '^$' ./... >/dev/null 2>&1 || true)
echo "setup ok"
