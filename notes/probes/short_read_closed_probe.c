#include <stdio.h>
#include <stdlib.h>
#include <string.h>
#define WUFFS_IMPLEMENTATION
#include "root/release/c/wuffs-unsupported-snapshot.c"

static uint8_t dstbuf[1<<20];
static uint8_t workbuf[1<<22];

typedef wuffs_base__io_transformer* (*alloc_iot)(void);
typedef wuffs_base__image_decoder* (*alloc_img)(void);
typedef wuffs_base__token_decoder* (*alloc_tok)(void);

static int run_iot(const char* name, alloc_iot a, const uint8_t* p, size_t n) {
  wuffs_base__io_transformer* d = a();
  wuffs_base__io_buffer src = wuffs_base__ptr_u8__reader((uint8_t*)p, n, true);
  int bad = 0;
  for (int iter = 0; iter < 100000; iter++) {
    wuffs_base__io_buffer dst = wuffs_base__ptr_u8__writer(dstbuf, sizeof dstbuf);
    wuffs_base__status s = wuffs_base__io_transformer__transform_io(d, &dst, &src, wuffs_base__make_slice_u8(workbuf, sizeof workbuf));
    if (s.repr == wuffs_base__suspension__short_write) continue;
    if (s.repr == wuffs_base__suspension__short_read) { bad = 1; }
    break;
  }
  free(d);
  return bad;
}

static int run_img(const char* name, alloc_img a, const uint8_t* p, size_t n) {
  wuffs_base__image_decoder* d = a();
  wuffs_base__io_buffer src = wuffs_base__ptr_u8__reader((uint8_t*)p, n, true);
  wuffs_base__image_config ic = {0};
  wuffs_base__status s = wuffs_base__image_decoder__decode_image_config(d, &ic, &src);
  int bad = 0;
  if (s.repr == wuffs_base__suspension__short_read) bad = 1;
  if (!s.repr) {
    uint32_t w = wuffs_base__pixel_config__width(&ic.pixcfg), h = wuffs_base__pixel_config__height(&ic.pixcfg);
    if (w <= 2048 && h <= 2048) {
      wuffs_base__pixel_config__set(&ic.pixcfg, WUFFS_BASE__PIXEL_FORMAT__BGRA_NONPREMUL, 0, w, h);
      size_t len = (size_t)w * h * 4;
      uint8_t* pix = malloc(len ? len : 1);
      wuffs_base__pixel_buffer pb = {0};
      s = wuffs_base__pixel_buffer__set_from_slice(&pb, &ic.pixcfg, wuffs_base__make_slice_u8(pix, len));
      if (!s.repr) {
        for (int f = 0; f < 50; f++) {
          wuffs_base__frame_config fc = {0};
          s = wuffs_base__image_decoder__decode_frame_config(d, &fc, &src);
          if (s.repr == wuffs_base__suspension__short_read) { bad = 2; break; }
          if (s.repr) break;
          s = wuffs_base__image_decoder__decode_frame(d, &pb, &src, WUFFS_BASE__PIXEL_BLEND__SRC, wuffs_base__make_slice_u8(workbuf, sizeof workbuf), NULL);
          if (s.repr == wuffs_base__suspension__short_read) { bad = 3; break; }
          if (s.repr && wuffs_base__status__is_error(&s)) break;
        }
      }
      free(pix);
    }
  }
  free(d);
  return bad;
}

static uint8_t* readfile(const char* fn, size_t* n) {
  FILE* f = fopen(fn, "rb"); if (!f) return NULL;
  fseek(f, 0, SEEK_END); long m = ftell(f); fseek(f, 0, SEEK_SET);
  uint8_t* p = malloc(m + 1); *n = fread(p, 1, m, f); fclose(f); return p;
}

#define IOT(pkg) { #pkg, (alloc_iot)wuffs_##pkg##__decoder__alloc_as__wuffs_base__io_transformer }
#define IMG(pkg) { #pkg, (alloc_img)wuffs_##pkg##__decoder__alloc_as__wuffs_base__image_decoder }
struct { const char* name; alloc_iot a; } iots[] = { IOT(bzip2), IOT(deflate), IOT(gzip), IOT(lzip), IOT(lzma), IOT(lzw), IOT(xz), IOT(zlib) };
struct { const char* name; alloc_img a; } imgs[] = { IMG(bmp), IMG(etc2), IMG(gif), IMG(handsum), IMG(jpeg), IMG(netpbm), IMG(nie), IMG(png), IMG(qoi), IMG(targa), IMG(thumbhash), IMG(vp8), IMG(wbmp), IMG(webp) };

int main(int argc, char** argv) {
  const char* kind = argv[1];
  for (int i = 2; i < argc; i++) {
    size_t n; uint8_t* p = readfile(argv[i], &n); if (!p) continue;
    size_t step = n > 400 ? n / 200 : 1;
    int cnt = 0, total = 0;
    for (size_t k = 0; k <= n; k += step) {
      total++;
      int bad = 0;
      for (unsigned j = 0; j < sizeof iots / sizeof iots[0]; j++) if (!strcmp(kind, iots[j].name)) bad = run_iot(kind, iots[j].a, p, k);
      for (unsigned j = 0; j < sizeof imgs / sizeof imgs[0]; j++) if (!strcmp(kind, imgs[j].name)) bad = run_img(kind, imgs[j].a, p, k);
      if (bad) { if (cnt < 3) printf("  %s %s trunc=%zu/%zu bad=%d\n", kind, argv[i], k, n, bad); cnt++; }
    }
    printf("%s %s: %d/%d truncations gave $short read on closed src\n", kind, argv[i], cnt, total);
    free(p);
  }
  return 0;
}
