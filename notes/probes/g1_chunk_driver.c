#define WUFFS_IMPLEMENTATION
#define WUFFS_CONFIG__MODULES
#define WUFFS_CONFIG__MODULE__BASE__CORE
#define WUFFS_CONFIG__MODULE__DEMO
#include "g1gen.c"
#include <stdio.h>
#include <stdlib.h>
static void run(const uint8_t* in, size_t n, size_t chunk, size_t dchunk) {
  wuffs_demo__foo* p = malloc(sizeof__wuffs_demo__foo());
  wuffs_base__status s = wuffs_demo__foo__initialize(p, sizeof__wuffs_demo__foo(), WUFFS_VERSION, 0);
  uint8_t* out = malloc(4096); size_t fed = 0; size_t dcap = dchunk;
  uint8_t* inb = malloc(n ? n : 1); memcpy(inb, in, n);
  wuffs_base__io_buffer src = wuffs_base__ptr_u8__reader(inb, 0, false);
  wuffs_base__io_buffer dst = wuffs_base__ptr_u8__writer(out, dcap);
  int calls = 0;
  for (;;) {
    src.data.len = fed; src.meta.wi = fed; src.meta.closed = (fed == n);
    dst.data.len = dcap;
    s = wuffs_demo__foo__run(p, &dst, &src); calls++;
    if (s.repr == wuffs_base__suspension__short_read && fed < n) { fed += chunk; if (fed > n) fed = n; continue; }
    if (s.repr == wuffs_base__suspension__short_write && dcap < 4096) { dcap += dchunk; if (dcap > 4096) dcap = 4096; continue; }
    break;
  }
  printf("chunk=%zu dchunk=%zu calls=%d status=%s ri=%zu wi=%zu total=%u out=", chunk, dchunk, calls, s.repr ? s.repr : "ok", src.meta.ri, dst.meta.wi, wuffs_demo__foo__get_total(p));
  for (size_t i = 0; i < dst.meta.wi; i++) printf("%02x", out[i]);
  printf(" step=%u\n", wuffs_demo__foo__step(p, 0xFFFFFFFFu, 5));
  free(p); free(out); free(inb);
}
int main() {
  const uint8_t in[] = {1, 9,8,7,6, 2, 1,2,3, 4, 5, 3, 0xAA,0xBB,0xCC, 4, 7, 5, 1, 1,1,1,1, 0, 99};
  for (size_t c = 1; c <= sizeof in; c++) for (size_t d = 1; d <= 5; d++) run(in, sizeof in, c, d == 5 ? 4096 : d);
  return 0;
}
