#!/bin/bash
# tools/devcopy.sh NAME : make an isolated development copy for a builder sub-agent:
#   /var/tmp/dev-NAME/repo  = git worktree of /repo (HEAD)
#   /var/tmp/dev-NAME/verif = copy of /verif (committed + working files, no .git) whose go.mod replaces wuffs => that worktree
# Use with:  export VERIF_ROOT=/var/tmp/dev-NAME/verif VERIF_REPO=/var/tmp/dev-NAME/repo
set -eu
N=$1; D=/var/tmp/dev-$N
mkdir -p $D
git -C /repo worktree add --detach $D/repo HEAD >/dev/null 2>&1
rsync -a --exclude .git --exclude out --exclude .work --exclude evidence /verif/ $D/verif/
sed -i "s|=> /repo|=> $D/repo|" $D/verif/go/go.mod
mkdir -p $D/verif/evidence
echo "export VERIF_ROOT=$D/verif VERIF_REPO=$D/repo"
