#!/bin/bash
# tools/sens.sh ID [diff...] : apply each mutant (or seeded patch) to $R, run the quick check, expect exit 1, revert.
# Development tooling only (never used by a registered command). Serialises on a lock because it edits $R.
ID=$1; shift
R=${VERIF_REPO:-/repo}
cd ${VERIF_ROOT:-/verif}
exec 9>/var/tmp/verif-sens-$(echo $R | tr / _).lock; flock 9
if [ -n "$(git -C $R status --porcelain)" ]; then echo "$R not clean"; exit 3; fi
FILES=("$@"); [ ${#FILES[@]} -eq 0 ] && FILES=(mutants/$ID/*.diff)
for f in "${FILES[@]}"; do
  if ! git -C $R apply "$(realpath $f)"; then echo "SENS $ID $(basename $f): PATCH-FAILED"; continue; fi
  out=$(VERIF_SEED=${VERIF_SEED:-7} ./check.sh $ID ${TIER:-quick} 2>&1); rc=$?
  git -C $R checkout -- . ; git -C $R clean -fdq
  git checkout -q -- evidence/$ID.json 2>/dev/null   # the run's evidence describes a mutated tree: restore the committed file
  v=$(echo "$out" | grep -c '^VIOLATION')
  if [ $rc -eq 1 ] && [ $v -ge 1 ]; then echo "SENS $ID $(basename $f): CAUGHT"; else echo "SENS $ID $(basename $f): MISSED rc=$rc"; echo "$out" | tail -15 | sed 's/^/    /'; fi
  [ -n "${SENS_VERBOSE:-}" ] && echo "$out" | tail -30
done
