#!/usr/bin/env python3
"""integrate.py DEVNAME ID [ID...]: copy a builder's deliverables from /var/tmp/dev-DEVNAME/verif into /verif and
extract its reg(&prop{id: "ID"...}) blocks into go/cmd/vcheck/props_<id>.go."""
import sys, os, re, shutil, subprocess
dev, ids = sys.argv[1], sys.argv[2:]
src = f'/var/tmp/dev-{dev}/verif'
def cp(rel):
    s, d = os.path.join(src, rel), os.path.join('/verif', rel)
    if os.path.isdir(s):
        shutil.copytree(s, d, dirs_exist_ok=True)
        print('copied', rel)
for i in ids:
    cp(f'go/{i.lower()}'); cp(f'mutants/{i}'); cp(f'replay/{i}')
for extra in ['go/racspec']:
    if os.path.isdir(os.path.join(src, extra)): cp(extra)
# notes: copy new files only
for root, _, files in os.walk(os.path.join(src, 'notes')):
    for f in files:
        s = os.path.join(root, f); rel = os.path.relpath(s, src); d = os.path.join('/verif', rel)
        if not os.path.exists(d):
            os.makedirs(os.path.dirname(d), exist_ok=True); shutil.copy(s, d); print('copied', rel)
props = open(os.path.join(src, 'go/cmd/vcheck/props.go')).read()
for i in ids:
    m = re.search(r'\n\treg\(&prop\{\s*id:\s*"%s"' % i, props)
    assert m, f'no reg block for {i}'
    start = m.start() + 1
    # find matching close of reg( ... )
    depth = 0; j = props.index('reg(', start) + 3
    k = j
    while True:
        c = props[k]
        if c == '(': depth += 1
        elif c == ')':
            depth -= 1
            if depth == 0: break
        elif c == '"':
            k += 1
            while props[k] != '"':
                if props[k] == '\\': k += 1
                k += 1
        elif c == '`':
            k = props.index('`', k + 1)
        k += 1
    block = props[start:k + 1]
    out = 'package main\n\nimport "time"\n\nvar _ = time.Second\n\nfunc init() {\n' + block + '\n}\n'
    p = f'/verif/go/cmd/vcheck/props_{i.lower()}.go'
    open(p, 'w').write(out)
    subprocess.run(['gofmt', '-w', p])
    print('wrote', p)
