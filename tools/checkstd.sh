#!/bin/bash
# tools/checkstd.sh: with the CURRENT /repo working tree: run the Go test suite, rebuild the tools, regenerate std in a
# scratch root and compare the snapshot with the committed one. Used before every "fix:" commit.
export GOFLAGS=-mod=mod GOPROXY=off GOSUMDB=off GOTOOLCHAIN=local
S=$(mktemp -d /var/tmp/checkstd-XXXX); trap "rm -rf $S" EXIT
mkdir -p $S/bin $S/root
(cd /repo && go test -count=1 ./... 2>&1 | grep -v "no test files" | grep -v "^ok" ; echo "go test done")
(cd /verif/go && go build -o $S/bin/ github.com/google/wuffs/cmd/wuffs github.com/google/wuffs/cmd/wuffs-c) || exit 1
cp -r /repo/std /repo/wuffs-root-directory.txt $S/root/
(cd $S/root && PATH=$S/bin:$PATH wuffs gen 2>&1 | grep -v "^gen " | head -20)
if cmp -s $S/root/release/c/wuffs-unsupported-snapshot.c /repo/release/c/wuffs-unsupported-snapshot.c; then echo "SNAPSHOT IDENTICAL"; else echo "SNAPSHOT DIFFERS"; diff $S/root/release/c/wuffs-unsupported-snapshot.c /repo/release/c/wuffs-unsupported-snapshot.c | head -20; fi
git -C /repo status --short | head
