#!/usr/bin/env python3
"""seedprompt.py ID N: create a scratch worktree /tmp/seed/<ID>-<N> of /repo and print the prompt for an adversarial sub-agent."""
import json, sys, subprocess, os
pid, n = sys.argv[1], sys.argv[2]
wt = f'/tmp/seed/{pid}-{n}'
if not os.path.exists(wt):
    subprocess.run(['git','-C','/repo','worktree','add','--detach',wt,'HEAD'],check=True,capture_output=True)
p = [json.loads(l) for l in open('/verif/properties.jsonl') if json.loads(l)['id']==pid][0]
hint = sys.argv[3] if len(sys.argv) > 3 else ''
print(f'''You are a software engineer asked to play the adversary in a test of a verification setup for the open-source project google/wuffs (a memory-safe language whose compiler, written in Go, transpiles to C; plus Go codec libraries). You have your own scratch git worktree of the repository at {wt} (work ONLY there; do not look at or touch /repo, /verif or any other directory outside {wt} and /tmp/seed/{pid}-{n}-work which you may create for scratch files). There is no network.

Here is a semantic property that the project is supposed to satisfy:

  Title: {p['title']}
  Statement: {p['statement']}
  Quantifier: {p['quantifier']['text']}
  Code it is anchored in: {', '.join(p['anchors']['files'][:12])}

Your job: make ONE realistic change to the project's own code (a plausible bug a developer could introduce: an off-by-one, a dropped or weakened check, a wrong operator, a missed state reset, a reordered statement, two cooperating sites that each look fine alone) that BREAKS this property while
  (1) everything still compiles, and
  (2) the project's existing Go test suite still passes:  cd {wt} && GOFLAGS=-mod=mod GOPROXY=off go test -count=1 ./...   (takes about a minute; run it before and after), and
  (3) the breakage needs something SPECIFIC to manifest - a particular input shape, buffer split, interleaving, multi-step call sequence, unusual configuration - rather than showing up at once under ordinary use (a change that makes every input fail is useless).
{hint}
If your change touches the Wuffs compiler (lang/, internal/cgen/) or anything under std/, the generated release snapshot must stay consistent with the sources, as a maintainer would leave it: build the tools from your worktree and regenerate it, then include it in your patch:
    export GOFLAGS=-mod=mod GOPROXY=off; W=/tmp/seed/{pid}-{n}-work; mkdir -p $W/bin $W/root
    (cd {wt} && go build -o $W/bin/ ./cmd/wuffs ./cmd/wuffs-c)
    rm -rf $W/root/std; cp -r {wt}/std {wt}/wuffs-root-directory.txt $W/root/
    (cd $W/root && PATH=$W/bin:$PATH wuffs gen)        # writes $W/root/gen/c/*.c and $W/root/release/c/wuffs-unsupported-snapshot.c
    cp $W/root/release/c/wuffs-unsupported-snapshot.c {wt}/release/c/wuffs-unsupported-snapshot.c
(the scratch root must stay outside any git repository, as above). A generated C file for one package can be compiled together with the base, e.g. for a quick C demonstration: put '#define WUFFS_IMPLEMENTATION' and '#include "<path>/wuffs-unsupported-snapshot.c"' at the top of a small C program and compile it with gcc (optionally -fsanitize=address,undefined). A standalone Wuffs program foo.wuffs can be compiled with: $W/bin/wuffs-c gen -package_name foo foo.wuffs > foo.c ; and $W/bin/wuffs-c gen -package_name base > wuffs-base.c next to it; then a C file that does '#define WUFFS_IMPLEMENTATION' + '#include "foo.c"'.

Deliverables, all inside {wt}:
  - SEED/patch.diff : output of 'git diff' for your change to the project's code (including the regenerated snapshot when applicable; nothing else),
  - SEED/demo/ : a demonstration (a Go test file, a small Go or C program with a run.sh, or a .wuffs program plus driver) that FAILS / shows the wrong behaviour with your change and PASSES / shows the right behaviour on the unchanged code; state the exact commands,
  - SEED/README.md : what you changed and why it breaks the property, what exactly is needed for it to manifest, the commands you ran and their results (existing tests before/after; demo before/after).
Do not commit. Leave the worktree with your change applied. Keep it to one change (one root cause). Reply with a short summary when done.''')
