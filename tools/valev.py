#!/usr/bin/env python3
import json, sys, glob, jsonschema
sch = json.load(open('/root/.vp/EVIDENCE.schema.json'))
for f in sorted(glob.glob('/verif/evidence/*.json')):
    try:
        jsonschema.validate(json.load(open(f)), sch); print(f, "ok")
    except Exception as e:
        print(f, "INVALID", str(e)[:300])
