#!/bin/bash
# tools/seedverify.sh SEEDDIR: confirm a seeded change in a scratch worktree: the patch applies to /repo HEAD, everything
# builds, the pinned Go suite passes with it; then (best effort) the demonstration fails with the change and passes without.
# Writes SEEDDIR/verify.log. The worktree is removed afterwards.
SEED=$(realpath $1); N=$(basename $SEED); W=/tmp/seedv-$N
export GOFLAGS=-mod=mod GOPROXY=off GOSUMDB=off GOTOOLCHAIN=local
git -C /repo worktree remove --force $W 2>/dev/null; rm -rf $W
git -C /repo worktree add --detach $W HEAD >/dev/null 2>&1 || { echo "worktree failed"; exit 1; }
{
echo "== seed $N verified at /repo $(git -C /repo log --oneline | head -1)"
if git -C $W apply $SEED/patch.diff; then echo "patch applies: yes"; else echo "patch applies: NO"; fi
(cd $W && go build ./... 2>&1 | tail -3 && echo "go build: ok")
(cd $W && go test -count=1 ./... 2>&1 | grep -v "no test files" | grep -cv "^ok" | sed 's/^/go test: packages not ok = /')
if [ -x $SEED/demo/run.sh ]; then
  mkdir -p $W/SEED /tmp/seed/$N-work; cp -r $SEED/demo $W/SEED/   # some demos keep their scratch files under /tmp/seed/<seed>-work
  (cd $W && timeout 600 SEED/demo/run.sh > /tmp/seedv-$N-with.log 2>&1; echo "demo with change: exit $? ($(tail -1 /tmp/seedv-$N-with.log | cut -c1-100))")
  git -C $W checkout -- . >/dev/null 2>&1
  (cd $W && timeout 600 SEED/demo/run.sh > /tmp/seedv-$N-without.log 2>&1; echo "demo without change: exit $? ($(tail -1 /tmp/seedv-$N-without.log | cut -c1-100))")
fi
} > $SEED/verify.log 2>&1
git -C /repo worktree remove --force $W; rm -rf /tmp/seedv-$N-*.log /tmp/seed/$N-work; rmdir /tmp/seed 2>/dev/null
cat $SEED/verify.log
