#!/bin/bash
# tools/seedrun.sh SEEDDIR ID [ID...]: apply a seeded patch to /repo, run the quick checks of the given properties, revert.
# Prints one line per check: SEED <seed> <ID>: CAUGHT|MISSED rc=<n>. Serialised with tools/sens.sh through the same lock.
SEED=$1; shift
cd /verif
exec 9>/var/tmp/verif-sens-_repo.lock; flock 9
if [ -n "$(git -C /repo status --porcelain)" ]; then echo "/repo not clean"; exit 3; fi
if ! git -C /repo apply "$(realpath $SEED/patch.diff)"; then echo "SEED $(basename $SEED): PATCH-FAILED"; exit 4; fi
for ID in "$@"; do
  out=$(VERIF_SEED=${VERIF_SEED:-11} ./check.sh $ID ${TIER:-quick} 2>&1); rc=$?
  v=$(echo "$out" | grep -c '^VIOLATION')
  if [ $rc -eq 1 ] && [ $v -ge 1 ]; then echo "SEED $(basename $SEED) $ID: CAUGHT"; else echo "SEED $(basename $SEED) $ID: MISSED rc=$rc"; fi
  echo "$out" > /var/tmp/seedrun-$(basename $SEED)-$ID.log
  git checkout -q -- evidence/$ID.json 2>/dev/null   # the run's evidence describes a seeded tree: restore the committed file
done
git -C /repo checkout -- . ; git -C /repo clean -fdq
