#!/usr/bin/env python3
"""Regenerates /verif/MANIFEST.json from the table below and validates it (python3-vt has jsonschema)."""
import json, sys
CLAIMED = json.load(open('/verif/tools/claimed.json'))  # id -> [technique, level text, level note, design ref]
NA_REASON = "check not built yet (machinery under construction in build order DESIGN.md §8); will be claimed once its check runs green on the unchanged tree"
props = [json.loads(l)["id"] for l in open('/verif/properties.jsonl')]
checks = []
for pid in props:
    if pid not in CLAIMED: continue
    tech, text, note, ref = CLAIMED[pid]
    checks.append({
        "property_id": pid,
        "quick_cmd": f"./check.sh {pid} quick",
        "thorough_cmd": f"./check.sh {pid} thorough",
        "evidence_file": f"/verif/evidence/{pid}.json",
        "replay_cmd_template": f"./check.sh {pid} quick --replay {{path}}",
        "engine": "vcheck",
        "level_claimed": {"category": "exploration", "text": text, "design_ref": ref},
        "level_note": note,
        "technique": tech,
    })
m = {
 "version": 1,
 "setup_cmd": "./setup.sh",
 "hooks": {
   "guard": "verif",
   "enable": "go build/test -tags verif (done by go/cmd/vcheck for every check)",
   "baseline_off_cmd": "cd /repo && GOFLAGS=-mod=mod go test -vet=off -count=1 -timeout 25m ./...",
   "source_commits": json.load(open('/verif/tools/hook_commits.json')) if __import__('os').path.exists('/verif/tools/hook_commits.json') else [],
   "add_only": True,
 },
 "engines": [
   {"name": "vcheck", "path": "/verif/go/cmd/vcheck", "serves_properties": sorted(CLAIMED), "kind_free_text": "driver: rebuilds from /repo, shards rapid property binaries over 16 cores, replay tier, merges statistics into evidence"},
 ],
 "checks": checks,
 "not_applicable": [{"property_id": p, "reason": NA_REASON} for p in props if p not in CLAIMED],
 "notes": "All checks are property-based tests / fuzzers (pgregory.net/rapid, go native fuzzing, libFuzzer) with explicit oracles; see DESIGN.md. Known genuine defects are listed in KNOWN_FINDINGS.json.",
}
json.dump(m, open('/verif/MANIFEST.json', 'w'), indent=1)
try:
    import jsonschema
    jsonschema.validate(m, json.load(open('/root/.vp/MANIFEST.schema.json')))
    print("MANIFEST.json valid;", len(checks), "checks,", len(m["not_applicable"]), "not_applicable")
except ImportError:
    print("jsonschema missing (run with python3-vt)")
