#!/usr/bin/env python3
"""mkmut.py ID NAME FILE OLD NEW [FILE OLD NEW ...]: make a mutant diff of /repo (text replacement, must
match exactly once unless OLD starts with 'ALL:'), store it as /verif/mutants/ID/NAME.diff, revert /repo."""
import subprocess, sys, os
id_, name = sys.argv[1], sys.argv[2]
triples = sys.argv[3:]
assert len(triples) % 3 == 0 and triples
files = []
try:
    for i in range(0, len(triples), 3):
        f, old, new = triples[i:i+3]
        p = os.path.join(os.environ.get('VERIF_REPO','/repo'), f)
        s = open(p).read()
        if old.startswith('ALL:'):
            old = old[4:]
            assert old in s, f'no match in {f}'
            s = s.replace(old, new)
        else:
            assert s.count(old) == 1, f'{s.count(old)} matches in {f} for {old!r}'
            s = s.replace(old, new)
        open(p, 'w').write(s)
        files.append(f)
    d = subprocess.run(['git', '-C', os.environ.get('VERIF_REPO','/repo'), 'diff', '--'] + files, capture_output=True, text=True).stdout
    assert d.strip()
    os.makedirs(os.environ.get('VERIF_ROOT','/verif')+f'/mutants/{id_}', exist_ok=True)
    open(os.environ.get('VERIF_ROOT','/verif')+f'/mutants/{id_}/{name}.diff', 'w').write(d)
    print(f'wrote mutants/{id_}/{name}.diff ({len(d.splitlines())} lines)')
finally:
    subprocess.run(['git', '-C', os.environ.get('VERIF_REPO','/repo'), 'checkout', '--'] + files)
