#!/usr/bin/env python3
"""seedmeta.py: (re)write seeded/<seed>/meta.json from tools/seeds.json, the seed's README title and its verify.log."""
import json, os, re
root = os.path.dirname(os.path.dirname(os.path.abspath(__file__)))
tab = json.load(open(os.path.join(root, 'tools', 'seeds.json')))
for seed in sorted(os.listdir(os.path.join(root, 'seeded'))):
    d = os.path.join(root, 'seeded', seed)
    if not os.path.isfile(os.path.join(d, 'patch.diff')):
        continue
    t = tab.get(seed, {})
    title = open(os.path.join(d, 'README.md')).readline().lstrip('# ').strip() if os.path.exists(os.path.join(d, 'README.md')) else ''
    conf = []
    vl = os.path.join(d, 'verify.log')
    if os.path.exists(vl):
        conf = [l.rstrip() for l in open(vl) if l.strip()]
    files = sorted(set(re.findall(r'^\+\+\+ b/(\S+)', open(os.path.join(d, 'patch.diff')).read(), re.M)))
    meta = {
        'seed': seed,
        'breaks_property': seed.split('-')[0],
        'title': title,
        'files_changed': files,
        'needs_to_manifest': t.get('needs', ''),
        'source': 'independent sub-agent given only the property text and a scratch worktree of /repo',
        'confirmed': conf,
        'checks_run': t.get('checks', ''),
        'check_strengthened_because_of_it': t.get('strengthened', False),
        'how_to_rerun': 'tools/seedrun.sh seeded/%s %s' % (seed, seed.split('-')[0]),
    }
    json.dump(meta, open(os.path.join(d, 'meta.json'), 'w'), indent=1)
    print(seed, 'verified' if conf else 'NOT-VERIFIED', t.get('checks', '')[:60])
