// stdh.c — generic harness (engine E3) for every decoder and hasher of the
// Wuffs standard library, driven through the six base interfaces.
//
// It is compiled against the C that `wuffs gen` has just produced from
// /repo's working tree (never against the committed snapshot), in two
// translation units: stdh_lib.c (the library implementation, with the libc
// allocator #define'd to aborting stubs) and this file (declarations only).
//
// Protocol: length-prefixed requests on stdin, length-prefixed responses on
// stdout; one request = one session on one object. See go/stdh for the
// client. All integers little-endian.
#include <signal.h>
#include <sys/time.h>
#include <stdarg.h>
#include <stdint.h>
#include <stdio.h>
#include <stdlib.h>
#include <string.h>
#include <unistd.h>
#include <sys/mman.h>

#include STDH_SNAPSHOT

// ---------------------------------------------------------------- kinds

enum { IF_IOT = 0, IF_IMG = 1, IF_TOK = 2, IF_H32 = 3, IF_H64 = 4, IF_H256 = 5 };

typedef wuffs_base__status (*init_fn)(void*, size_t, uint64_t, uint32_t);
typedef size_t (*sizeof_fn)(void);
typedef void* (*upcast_fn)(void*);

typedef struct {
  const char* name;
  int iface;
  sizeof_fn size_of;
  init_fn init;
  upcast_fn upcast;
} kind_t;

#define KIND_IOT(pkg, st) {#pkg "." #st, IF_IOT, sizeof__wuffs_##pkg##__##st, (init_fn)wuffs_##pkg##__##st##__initialize, (upcast_fn)wuffs_##pkg##__##st##__upcast_as__wuffs_base__io_transformer},
#define KIND_IMG(pkg, st) {#pkg "." #st, IF_IMG, sizeof__wuffs_##pkg##__##st, (init_fn)wuffs_##pkg##__##st##__initialize, (upcast_fn)wuffs_##pkg##__##st##__upcast_as__wuffs_base__image_decoder},
#define KIND_TOK(pkg, st) {#pkg "." #st, IF_TOK, sizeof__wuffs_##pkg##__##st, (init_fn)wuffs_##pkg##__##st##__initialize, (upcast_fn)wuffs_##pkg##__##st##__upcast_as__wuffs_base__token_decoder},
#define KIND_H32(pkg, st) {#pkg "." #st, IF_H32, sizeof__wuffs_##pkg##__##st, (init_fn)wuffs_##pkg##__##st##__initialize, (upcast_fn)wuffs_##pkg##__##st##__upcast_as__wuffs_base__hasher_u32},
#define KIND_H64(pkg, st) {#pkg "." #st, IF_H64, sizeof__wuffs_##pkg##__##st, (init_fn)wuffs_##pkg##__##st##__initialize, (upcast_fn)wuffs_##pkg##__##st##__upcast_as__wuffs_base__hasher_u64},
#define KIND_H256(pkg, st) {#pkg "." #st, IF_H256, sizeof__wuffs_##pkg##__##st, (init_fn)wuffs_##pkg##__##st##__initialize, (upcast_fn)wuffs_##pkg##__##st##__upcast_as__wuffs_base__hasher_bitvec256},

static const kind_t g_kinds[] = {
#include STDH_KINDS
};
static const int g_nkinds = (int)(sizeof(g_kinds) / sizeof(g_kinds[0]));

// ---------------------------------------------------------------- response

static uint8_t* g_resp;
static size_t g_resplen, g_respcap;

static void resp_bytes(const void* p, size_t n) {
  if (g_resplen + n > g_respcap) {
    size_t nc = g_respcap ? g_respcap * 2 : 1 << 16;
    while (nc < g_resplen + n) nc *= 2;
    g_resp = (uint8_t*)realloc(g_resp, nc);
    if (!g_resp) abort();
    g_respcap = nc;
  }
  if (n) memcpy(g_resp + g_resplen, p, n);
  g_resplen += n;
}
static void resp_u8(uint8_t v) { resp_bytes(&v, 1); }
static void resp_u32(uint32_t v) {
  uint8_t b[4] = {(uint8_t)v, (uint8_t)(v >> 8), (uint8_t)(v >> 16), (uint8_t)(v >> 24)};
  resp_bytes(b, 4);
}
static void resp_u64(uint64_t v) {
  resp_u32((uint32_t)v);
  resp_u32((uint32_t)(v >> 32));
}
static void resp_str(const char* s) {
  uint32_t n = s ? (uint32_t)strlen(s) : 0;
  resp_u32(n);
  resp_bytes(s, n);
}
// A record: type byte, u32 body length, body. Records are built in place.
static size_t g_recstart;
static void rec_begin(uint8_t type) {
  resp_u8(type);
  resp_u32(0);
  g_recstart = g_resplen;
}
static void rec_end(void) {
  uint32_t n = (uint32_t)(g_resplen - g_recstart);
  uint8_t* p = g_resp + g_recstart - 4;
  p[0] = (uint8_t)n; p[1] = (uint8_t)(n >> 8); p[2] = (uint8_t)(n >> 16); p[3] = (uint8_t)(n >> 24);
}

static int g_nviol;
static void violation(const char* fmt, ...) {
  char buf[512];
  va_list ap;
  va_start(ap, fmt);
  vsnprintf(buf, sizeof buf, fmt, ap);
  va_end(ap);
  g_nviol++;
  if (g_nviol > 20) return;
  rec_begin('V');
  resp_str(buf);
  rec_end();
}

// ---------------------------------------------------------------- request

static const uint8_t* g_req;
static size_t g_reqlen, g_reqpos;
static int g_reqbad;

static uint8_t rq_u8(void) {
  if (g_reqpos + 1 > g_reqlen) { g_reqbad = 1; return 0; }
  return g_req[g_reqpos++];
}
static uint32_t rq_u32(void) {
  if (g_reqpos + 4 > g_reqlen) { g_reqbad = 1; g_reqpos = g_reqlen; return 0; }
  const uint8_t* p = g_req + g_reqpos;
  g_reqpos += 4;
  return (uint32_t)p[0] | ((uint32_t)p[1] << 8) | ((uint32_t)p[2] << 16) | ((uint32_t)p[3] << 24);
}
static uint64_t rq_u64(void) {
  uint64_t lo = rq_u32();
  uint64_t hi = rq_u32();
  return lo | (hi << 32);
}

// ---------------------------------------------------------------- session

typedef struct {
  const kind_t* k;
  void* obj;   // exactly size_of() (+delta) bytes
  void* iface; // upcast pointer
  size_t objsz;
  int inited;

  const uint8_t* pay;
  size_t paylen, fed;

  // source plan
  int src_mode;        // 0 one-shot, 1 fixed chunk, 2 list (cyclic)
  uint32_t src_chunk;
  uint32_t src_list[64];
  int src_nlist, src_listpos;
  int src_close;       // mark closed once everything is supplied
  int src_exact;       // 1: every supply builds an exact-size buffer (ri=0, len==wi)
  wuffs_base__io_buffer src;
  uint8_t* srcmem;
  size_t srccap;

  // destination plan
  int dst_mode;        // 0 ample, 1 growing window, 2 fresh windows
  uint32_t dst_cap, dst_step;
  uint8_t dst_fill;
  uint8_t dst_flush_on_read; // fresh-window mode: also start a fresh window after a $short read
  wuffs_base__io_buffer dst;
  uint8_t* dstmem;
  size_t dstlimit;

  // accumulated output
  uint8_t* out;
  size_t outlen, outcap;

  // work buffer
  int work_mode; // 0 min, 1 max(capped), 2 min-1, 3 empty
  uint8_t work_fill;
  uint8_t* workmem;
  wuffs_base__slice_u8 work;

  // image options
  uint32_t pixfmt;   // 0 = BGRA_NONPREMUL
  uint8_t pixblend;
  uint8_t pixfill;
  uint32_t max_pixels;
  uint8_t dump_pixels; // 0 none (hash only), 1 final, 2 every frame
  uint8_t pure_probe;  // call pure methods around every call and memcmp the object

  // token options
  uint32_t tok_cap;

  uint32_t ncalls;
  uint32_t nsusp_r, nsusp_w, nsusp_other;
} sess_t;

static sess_t S;

static void out_append(const uint8_t* p, size_t n) {
  if (S.outlen + n > S.outcap) {
    size_t nc = S.outcap ? S.outcap * 2 : 1 << 16;
    while (nc < S.outlen + n) nc *= 2;
    S.out = (uint8_t*)realloc(S.out, nc);
    if (!S.out) abort();
    S.outcap = nc;
  }
  if (n) memcpy(S.out + S.outlen, p, n);
  S.outlen += n;
}

static uint64_t g_rng;
static uint8_t rng_byte(void) {
  g_rng ^= g_rng << 13; g_rng ^= g_rng >> 7; g_rng ^= g_rng << 17;
  return (uint8_t)(g_rng >> 24);
}
static void fill_mem(uint8_t* p, size_t n, uint8_t fill) {
  if (fill == 0xFE) {
    for (size_t i = 0; i < n; i++) p[i] = rng_byte();
  } else if (n) {
    memset(p, fill, n);
  }
}


// ---------------------------------------------------------------- guarded buffers
//
// Byte buffers handed to the library (source pieces, destination windows, work
// buffer, pixel buffer) end exactly at an inaccessible page, so that an access
// past the end faults even when it is made by code the sanitizers do not
// instrument (SIMD load/store intrinsics are opaque builtins to gcc's ASan).
// Each role owns two persistent arenas (a new buffer is usually filled from the
// old one before that is released); the arena is poisoned for ASan except for
// the live buffer, so under-runs and use after release are still reported. The
// arenas are mapped once per process: no allocator or page-fault cost per request.
#if defined(__SANITIZE_ADDRESS__)
#define STDH_ASAN 1
#elif defined(__has_feature)
#if __has_feature(address_sanitizer)
#define STDH_ASAN 1
#endif
#endif
#ifdef STDH_ASAN
#include <sanitizer/asan_interface.h>
#define GA_POISON(p, n) __asan_poison_memory_region((p), (n))
#define GA_UNPOISON(p, n) __asan_unpoison_memory_region((p), (n))
#else
#define GA_POISON(p, n) ((void)0)
#define GA_UNPOISON(p, n) ((void)0)
#endif

typedef struct { uint8_t* lo; uint8_t* end; uint8_t* cur; size_t curlen; size_t cap; } garena;
enum { G_SRC, G_DST, G_WORK, G_PIX, G_NROLES };
static const size_t g_role_cap[G_NROLES] = {32u << 20, 16u << 20, 160u << 20, 48u << 20};
static garena g_ar[G_NROLES][2];
static int g_ar_next[G_NROLES];
static int g_nfallback;

static int ga_map(garena* a, size_t cap) {
  const size_t pg = 4096;
  uint8_t* m = (uint8_t*)mmap(NULL, cap + pg, PROT_READ | PROT_WRITE, MAP_PRIVATE | MAP_ANONYMOUS | MAP_NORESERVE, -1, 0);
  if (m == MAP_FAILED) return 0;
  if (mprotect(m + cap, pg, PROT_NONE)) { munmap(m, cap + pg); return 0; }
  a->lo = m; a->end = m + cap; a->cap = cap; a->cur = NULL; a->curlen = 0;
  GA_POISON(m, cap);
  return 1;
}

static void* gmalloc(int role, size_t n) {
  for (int t = 0; t < 2; t++) {
    int idx = (g_ar_next[role] + t) & 1;
    garena* a = &g_ar[role][idx];
    if (a->cur) continue;
    if (!a->lo && !ga_map(a, g_role_cap[role])) break;
    if (n > a->cap) break;
    uint8_t* p = a->end - n;
    GA_UNPOISON(p, n);
    a->cur = p; a->curlen = n;
    g_ar_next[role] = idx ^ 1;
    return p;
  }
  if (n <= g_role_cap[role] && g_ar[role][0].lo && g_ar[role][1].lo) {
    // both arenas of the role are live: a buffer was not released (harness bug, would silently lose the guard page)
    fprintf(stderr, "STDH-INTERNAL: no free arena for role %d\n", role);
    abort();
  }
  g_nfallback++;
  return malloc(n ? n : 1);
}

static void gfree(int role, void* p) {
  if (!p) return;
  for (int t = 0; t < 2; t++) {
    garena* a = &g_ar[role][t];
    if (a->lo && a->cur == (uint8_t*)p) { GA_POISON(a->cur, a->curlen); a->cur = NULL; a->curlen = 0; return; }
  }
  for (int r = 0; r < G_NROLES; r++) {
    for (int t = 0; t < 2; t++) {
      garena* a = &g_ar[r][t];
      if (a->lo && (uint8_t*)p >= a->lo && (uint8_t*)p <= a->end) {
        fprintf(stderr, "STDH-INTERNAL: release of an arena pointer that is not live (role %d)\n", role);
        abort();
      }
    }
  }
  free(p);
}

static void work_unmap(void);

static void sess_free(void) {
  work_unmap();
  free(S.obj); gfree(G_SRC, S.srcmem); gfree(G_DST, S.dstmem); free(S.out); gfree(G_WORK, S.workmem);
  memset(&S, 0, sizeof S);
}

// ---- FNV-1a for compact output identity
static uint64_t fnv(const uint8_t* p, size_t n) {
  uint64_t h = 1469598103934665603ull;
  for (size_t i = 0; i < n; i++) { h ^= p[i]; h *= 1099511628211ull; }
  return h;
}

// ---------------------------------------------------------------- source

static int g_zeros;
// src_next_size returns how many more payload bytes the plan hands out next.
static size_t src_next_size(void) {
  size_t left = S.paylen - S.fed;
  size_t n;
  switch (S.src_mode) {
    case 1: n = S.src_chunk ? S.src_chunk : 1; break;
    case 2:
      if (S.src_nlist == 0) { n = left; break; }
      n = S.src_list[S.src_listpos % S.src_nlist];
      S.src_listpos++;
      break;
    default: n = left; break;
  }
  // an empty supply is a legal edge case (the decoder must simply suspend
  // again), but two in a row would stall the driver: force progress.
  if (n == 0 && left > 0) {
    if (++g_zeros >= 2) { n = 1; g_zeros = 0; }
  } else {
    g_zeros = 0;
  }
  return n < left ? n : left;
}

// src_supply appends n payload bytes to the source buffer.
static void src_supply(size_t n) {
  size_t unread = S.src.meta.wi - S.src.meta.ri;
  int closed;
  if (S.src_exact) {
    uint8_t* nm = (uint8_t*)gmalloc(G_SRC, unread + n);
    if (unread) memcpy(nm, S.src.data.ptr + S.src.meta.ri, unread);
    if (n) memcpy(nm + unread, S.pay + S.fed, n);
    S.fed += n;
    closed = (S.src_close == 1) && (S.fed == S.paylen);
    uint64_t pos = S.src.meta.pos + S.src.meta.ri;
    gfree(G_SRC, S.srcmem);
    S.srcmem = nm;
    S.src.data.ptr = nm;
    S.src.data.len = unread + n;
    S.src.meta.ri = 0;
    S.src.meta.wi = unread + n;
    S.src.meta.pos = pos;
    S.src.meta.closed = closed;
  } else {
    if (!S.srcmem) {
      S.srcmem = (uint8_t*)gmalloc(G_SRC, S.paylen);
      memset(S.srcmem, 0xEE, S.paylen); // bytes beyond wi are undefined for the callee: poison them
      S.src.data.ptr = S.srcmem;
      S.src.data.len = S.paylen;
      S.src.meta.ri = S.src.meta.wi = 0;
      S.src.meta.pos = 0;
    }
    if (n) memcpy(S.srcmem + S.src.meta.wi, S.pay + S.fed, n);
    S.fed += n;
    S.src.meta.wi += n;
    S.src.meta.closed = (S.src_close == 1) && (S.fed == S.paylen);
  }
}

static int src_exhausted(void) { return S.fed == S.paylen; }

// late_close: src_close == 2 means the end of the stream is reported separately
// from the last byte (a zero-length read after the data, as a file or socket
// does): returns 1 if it just closed the source.
static int late_close(void) {
  if (S.src_close == 2 && src_exhausted() && !S.src.meta.closed) {
    src_supply(0);
    S.src.meta.closed = true;
    return 1;
  }
  return 0;
}

// ---------------------------------------------------------------- destination

static uint64_t g_hrl; // history retain length to honour (UINT64_MAX = all)

static void dst_setup(void) {
  gfree(G_DST, S.dstmem);
  S.dstmem = NULL;
  size_t cap = S.dst_cap;
  if (S.dst_mode == 2) cap = S.dst_step;
  S.dstmem = (uint8_t*)gmalloc(G_DST, cap);
  fill_mem(S.dstmem, cap, S.dst_fill);
  S.dst.data.ptr = S.dstmem;
  S.dst.data.len = (S.dst_mode == 1) ? (S.dst_step < cap ? S.dst_step : cap) : cap;
  S.dstlimit = S.dst.data.len;
  S.dst.meta.ri = S.dst.meta.wi = 0;
  S.dst.meta.pos = 0;
  S.dst.meta.closed = false;
}

// dst_flush moves freshly written bytes to the accumulator.
static void dst_flush(void) {
  if (S.dst.meta.wi > S.dst.meta.ri) {
    out_append(S.dst.data.ptr + S.dst.meta.ri, S.dst.meta.wi - S.dst.meta.ri);
    S.dst.meta.ri = S.dst.meta.wi;
  }
}

// dst_more makes more room after a short write. Returns 0 if it cannot.
static int dst_more(void) {
  dst_flush();
  switch (S.dst_mode) {
    case 1: {
      if (S.dst.data.len >= S.dst_cap) return 0;
      size_t nl = S.dst.data.len + (S.dst_step ? S.dst_step : 1);
      if (nl > S.dst_cap) nl = S.dst_cap;
      S.dst.data.len = nl;
      return 1;
    }
    case 2: {
      // fresh exact-size window holding only the retained history
      size_t h = S.dst.meta.wi;
      if (g_hrl < h) h = (size_t)g_hrl;
      size_t step = S.dst_step ? S.dst_step : 1;
      uint8_t* nm = (uint8_t*)gmalloc(G_DST, h + step);
      if (h) memcpy(nm, S.dst.data.ptr + S.dst.meta.wi - h, h);
      fill_mem(nm + h, step, S.dst_fill);
      uint64_t pos = S.dst.meta.pos + (S.dst.meta.wi - h);
      gfree(G_DST, S.dstmem);
      S.dstmem = nm;
      S.dst.data.ptr = nm;
      S.dst.data.len = h + step;
      S.dst.meta.ri = S.dst.meta.wi = h;
      S.dst.meta.pos = pos;
      return 1;
    }
    default:
      return 0;
  }
}

// ---------------------------------------------------------------- I/O contract

typedef struct {
  wuffs_base__io_buffer b;
  uint8_t* shadow; // copy of data[0..wi), in a persistent scratch block (no allocation per call)
} iosnap_t;

static uint8_t* g_shadow[2];
static size_t g_shadowcap[2];
static int g_shadowslot;

static void snap_take(iosnap_t* s, const wuffs_base__io_buffer* b) {
  s->b = *b;
  s->shadow = NULL;
  int slot = g_shadowslot++ & 1;
  if (b->data.ptr && b->meta.wi && b->meta.wi <= b->data.len) {
    if (g_shadowcap[slot] < b->meta.wi) {
      free(g_shadow[slot]);
      g_shadowcap[slot] = b->meta.wi * 2 + 4096;
      g_shadow[slot] = (uint8_t*)malloc(g_shadowcap[slot]);
    }
    s->shadow = g_shadow[slot];
    memcpy(s->shadow, b->data.ptr, b->meta.wi);
  }
}

// is_src: reader role (ri must not decrease, nothing in [0..wi) may change,
// wi fixed); writer role (wi must not decrease, [0..wi_before) unchanged, ri fixed).
static void snap_check(iosnap_t* s, const wuffs_base__io_buffer* b, int is_src, const char* what) {
  if (b->data.ptr != s->b.data.ptr || b->data.len != s->b.data.len)
    violation("%s: data ptr/len changed by the call", what);
  if (b->meta.pos != s->b.meta.pos) violation("%s: pos changed by the call (%llu -> %llu)", what, (unsigned long long)s->b.meta.pos, (unsigned long long)b->meta.pos);
  if (b->meta.closed != s->b.meta.closed) violation("%s: closed changed by the call", what);
  if (!(b->meta.ri <= b->meta.wi && b->meta.wi <= b->data.len))
    violation("%s: invariant 0<=ri<=wi<=len broken: ri=%zu wi=%zu len=%zu", what, b->meta.ri, b->meta.wi, b->data.len);
  if (is_src) {
    if (b->meta.ri < s->b.meta.ri) violation("%s: read index moved backwards %zu -> %zu", what, s->b.meta.ri, b->meta.ri);
    if (b->meta.wi != s->b.meta.wi) violation("%s: source write index changed %zu -> %zu", what, s->b.meta.wi, b->meta.wi);
  } else {
    if (b->meta.wi < s->b.meta.wi) violation("%s: write index moved backwards %zu -> %zu", what, s->b.meta.wi, b->meta.wi);
    if (b->meta.ri != s->b.meta.ri) violation("%s: destination read index changed %zu -> %zu", what, s->b.meta.ri, b->meta.ri);
  }
  if (s->shadow && b->data.ptr == s->b.data.ptr && memcmp(s->shadow, b->data.ptr, s->b.meta.wi) != 0)
    violation("%s: bytes in data[0..wi_before) were modified by the call", what);
  s->shadow = NULL;
}

static void status_check(wuffs_base__status st) {
  const char* r = st.repr;
  if (!r) return;
  if (r[0] != '@' && r[0] != '$' && r[0] != '#') violation("malformed status %.60s", r);
  if (strstr(r, "internal error")) violation("internal error status: %.100s", r);
}

// ---------------------------------------------------------------- pure probes (C10 dynamic clause)

static uint32_t g_npure;
static uint64_t g_probe_bytes;
static void pure_probe(void) {
  if (!S.pure_probe || !S.obj) return;
  // each probe copies and compares the whole object: bound the bytes moved per request
  if (g_probe_bytes + 2 * (uint64_t)S.objsz > (96ull << 20)) return;
  g_probe_bytes += 2 * (uint64_t)S.objsz;
  static uint8_t* copy;
  static size_t copycap;
  if (copycap < S.objsz) { free(copy); copycap = S.objsz; copy = (uint8_t*)malloc(copycap); }
  memcpy(copy, S.obj, S.objsz);
  wuffs_base__io_buffer src0 = S.src, dst0 = S.dst;
  switch (S.k->iface) {
    case IF_IOT: {
      const wuffs_base__io_transformer* t = (const wuffs_base__io_transformer*)S.iface;
      (void)wuffs_base__io_transformer__dst_history_retain_length(t);
      (void)wuffs_base__io_transformer__workbuf_len(t);
      (void)wuffs_base__io_transformer__get_quirk(t, 1);
      (void)wuffs_base__io_transformer__get_quirk(t, 0x7FFFFFFF);
      g_npure += 4;
      break;
    }
    case IF_IMG: {
      const wuffs_base__image_decoder* t = (const wuffs_base__image_decoder*)S.iface;
      (void)wuffs_base__image_decoder__frame_dirty_rect(t);
      (void)wuffs_base__image_decoder__num_animation_loops(t);
      (void)wuffs_base__image_decoder__num_decoded_frame_configs(t);
      (void)wuffs_base__image_decoder__num_decoded_frames(t);
      (void)wuffs_base__image_decoder__workbuf_len(t);
      (void)wuffs_base__image_decoder__get_quirk(t, 1);
      g_npure += 6;
      break;
    }
    case IF_TOK: {
      const wuffs_base__token_decoder* t = (const wuffs_base__token_decoder*)S.iface;
      (void)wuffs_base__token_decoder__workbuf_len(t);
      (void)wuffs_base__token_decoder__get_quirk(t, 1);
      g_npure += 2;
      break;
    }
    case IF_H32: {
      const wuffs_base__hasher_u32* t = (const wuffs_base__hasher_u32*)S.iface;
      (void)wuffs_base__hasher_u32__checksum_u32(t);
      (void)wuffs_base__hasher_u32__get_quirk(t, 1);
      g_npure += 2;
      break;
    }
    case IF_H64: {
      const wuffs_base__hasher_u64* t = (const wuffs_base__hasher_u64*)S.iface;
      (void)wuffs_base__hasher_u64__checksum_u64(t);
      (void)wuffs_base__hasher_u64__get_quirk(t, 1);
      g_npure += 2;
      break;
    }
    case IF_H256: {
      const wuffs_base__hasher_bitvec256* t = (const wuffs_base__hasher_bitvec256*)S.iface;
      (void)wuffs_base__hasher_bitvec256__checksum_bitvec256(t);
      (void)wuffs_base__hasher_bitvec256__get_quirk(t, 1);
      g_npure += 2;
      break;
    }
  }
  if (memcmp(copy, S.obj, S.objsz) != 0) violation("a pure method modified the receiver (%s)", S.k->name);
  if (memcmp(&src0, &S.src, sizeof src0) != 0 || memcmp(&dst0, &S.dst, sizeof dst0) != 0)
    violation("a pure method modified buffer metadata (%s)", S.k->name);
}

// ---------------------------------------------------------------- op: INIT

static void op_init(void) {
  uint32_t flags = rq_u32();
  uint8_t prefill = rq_u8();
  int8_t delta = (int8_t)rq_u8();
  uint8_t vermode = rq_u8();
  size_t sz = S.k->size_of();
  if (!S.obj) {
    S.objsz = sz;
    S.obj = malloc(sz);
    fill_mem((uint8_t*)S.obj, sz, prefill);
  } else if (prefill != 0xFD) {
    // re-initialisation over whatever the previous use left (prefill 0xFD) or over a new fill
    fill_mem((uint8_t*)S.obj, sz, prefill);
  }
  uint64_t ver = WUFFS_VERSION;
  if (vermode == 1) ver = ((uint64_t)WUFFS_VERSION_MAJOR << 32);                                            // same major, oldest minor: accepted
  else if (vermode == 2) ver = ((uint64_t)(WUFFS_VERSION_MAJOR + 1) << 32);                                 // other major: rejected
  else if (vermode == 3) ver = ((uint64_t)WUFFS_VERSION_MAJOR << 32) | ((uint64_t)(WUFFS_VERSION_MINOR + 1) << 16); // newer minor: rejected
  wuffs_base__status st = S.k->init(S.obj, (size_t)((long)sz + delta), ver, flags);
  status_check(st);
  S.iface = S.k->upcast(S.obj);
  // a failed initialize leaves the memory as it was: an earlier successful initialisation stays in force
  if (prefill == 0xFD) S.inited = S.inited || (st.repr == NULL);
  else S.inited = (st.repr == NULL);
  rec_begin('I');
  resp_str(st.repr);
  resp_u64((uint64_t)sz);
  rec_end();
}

// ---------------------------------------------------------------- work buffer

static int g_cli;
static void* g_workmap; // work buffer mapped directly (work mode 5 and the CLI mode)
static size_t g_workmaplen;

static void work_unmap(void) {
  if (g_workmap) munmap(g_workmap, g_workmaplen);
  g_workmap = NULL; g_workmaplen = 0;
}

static void work_setup(uint64_t wmin, uint64_t wmax) {
  gfree(G_WORK, S.workmem);
  S.workmem = NULL;
  work_unmap();
  uint64_t n = wmin;
  switch (S.work_mode) {
    case 1: n = wmax; if (n > (1u << 26)) n = wmin > (1u << 26) ? wmin : (1u << 26); break;
    case 2: n = wmin ? wmin - 1 : 0; break;
    case 3: n = 0; break;
    case 4: if (n < (64u << 20) + 273) n = (64u << 20) + 273; break; // ample: sized in advance like upstream's drivers (xz -9 uses a 64 MiB dictionary)
    case 5: if (n < (64u << 20) + 273) n = (64u << 20) + 273; break; // ample and mapped lazily (zero pages, untouched pages cost nothing)
  }
  if (n > (1ull << 30)) n = 1ull << 30;
  if (g_cli || S.work_mode == 5) {
    // mapped directly: no allocator (and no sanitizer shadow) work for pages that are never touched
    void* m = mmap(NULL, (size_t)(n ? n : 1), PROT_READ | PROT_WRITE, MAP_PRIVATE | MAP_ANONYMOUS | MAP_NORESERVE, -1, 0);
    if (m == MAP_FAILED) { fprintf(stderr, "stdh: mmap failed\n"); exit(2); }
    g_workmap = m; g_workmaplen = (size_t)(n ? n : 1);
    S.work.ptr = (uint8_t*)m;
    S.work.len = (size_t)n;
    return;
  }
  S.workmem = (uint8_t*)gmalloc(G_WORK, (size_t)n);
  if (n > (1u << 20)) { memset(S.workmem, 0x5A, (size_t)n); fill_mem(S.workmem, 1u << 16, S.work_fill); }
  else fill_mem(S.workmem, (size_t)n, S.work_fill);
  S.work.ptr = (S.work_mode == 3) ? NULL : S.workmem;
  S.work.len = (size_t)n;
}

// work_regrow: lzma, lzip and xz only know their history size (and with it
// workbuf_len) after the stream header has been parsed, so a driver has to ask
// again before each call and grow the buffer, keeping its contents.
static int work_regrow(uint64_t wmin) {
  uint64_t want = wmin;
  if (S.work_mode == 2) want = wmin ? wmin - 1 : 0;
  if (S.work_mode == 3 || want <= S.work.len) return 1;
  if (want > (1ull << 28)) return 0;
  if (g_workmap) {
    void* m = mmap(NULL, (size_t)want, PROT_READ | PROT_WRITE, MAP_PRIVATE | MAP_ANONYMOUS | MAP_NORESERVE, -1, 0);
    if (m == MAP_FAILED) return 0;
    if (S.work.len) memcpy(m, S.work.ptr, S.work.len);
    work_unmap();
    g_workmap = m; g_workmaplen = (size_t)want;
    S.work.ptr = (uint8_t*)m;
    S.work.len = (size_t)want;
    return 1;
  }
  uint8_t* nm = (uint8_t*)gmalloc(G_WORK, (size_t)want);
  if (S.work.len) memcpy(nm, S.workmem, S.work.len);
  fill_mem(nm + S.work.len, (size_t)want - S.work.len, S.work_fill);
  gfree(G_WORK, S.workmem);
  S.workmem = nm;
  S.work.ptr = nm;
  S.work.len = (size_t)want;
  return 1;
}

// ---------------------------------------------------------------- drive: io_transformer

static void call_record(const char* method, wuffs_base__status st, size_t sri0, size_t swi0, int scl0, size_t dri0, size_t dwi0) {
  if (S.ncalls > 48) return; // keep responses small: only the first calls are itemised
  rec_begin('C');
  resp_str(method);
  resp_str(st.repr);
  resp_u32((uint32_t)sri0); resp_u32((uint32_t)swi0); resp_u8((uint8_t)scl0);
  resp_u32((uint32_t)S.src.meta.ri); resp_u32((uint32_t)S.src.meta.wi);
  resp_u32((uint32_t)dri0); resp_u32((uint32_t)dwi0);
  resp_u32((uint32_t)S.dst.meta.ri); resp_u32((uint32_t)S.dst.meta.wi);
  rec_end();
}

static void summary(const char* final_status, int gaveup) {
  rec_begin('F');
  resp_str(final_status);
  resp_u32(S.ncalls);
  resp_u32(S.nsusp_r);
  resp_u32(S.nsusp_w);
  resp_u32(S.nsusp_other);
  resp_u64(S.src.meta.pos + S.src.meta.ri); // consumed
  resp_u8((uint8_t)gaveup);
  resp_u32(g_npure);
  rec_end();
}

// Bounded work: every call must consume, produce, or be answered by new
// supply, so the number of calls is bounded by a small multiple of the bytes
// supplied plus the destination windows handed out.
static uint32_t g_nwindows;
static int work_exceeded(void) {
  uint64_t bound = 8ull * ((uint64_t)S.fed + g_nwindows + 1) + 4096;
  if ((uint64_t)S.ncalls > bound) {
    violation("unbounded work: %u calls after supplying %zu source bytes and %u destination windows", S.ncalls, S.fed, g_nwindows);
    return 1;
  }
  return 0;
}

static void drive_iot(uint32_t maxcalls) {
  wuffs_base__io_transformer* t = (wuffs_base__io_transformer*)S.iface;
  wuffs_base__range_ii_u64 wl = wuffs_base__io_transformer__workbuf_len(t);
  wuffs_base__optional_u63 hrl = wuffs_base__io_transformer__dst_history_retain_length(t);
  g_hrl = wuffs_base__optional_u63__value_or(&hrl, UINT64_MAX);
  rec_begin('W');
  resp_u64(wl.min_incl); resp_u64(wl.max_incl); resp_u64(g_hrl);
  rec_end();
  work_setup(wl.min_incl, wl.max_incl);
  dst_setup();
  src_supply(src_next_size());
  const char* final = NULL;
  int gaveup = 0;
  int stuck = 0;
  while (1) {
    if (S.ncalls >= maxcalls) { gaveup = 1; break; }
    if (work_exceeded()) { gaveup = 1; break; }
    wl = wuffs_base__io_transformer__workbuf_len(t);
    if (!work_regrow(wl.min_incl)) { final = "@stdh: work buffer too large for the harness"; gaveup = 1; break; }
    iosnap_t ss, ds;
    snap_take(&ss, &S.src);
    snap_take(&ds, &S.dst);
    size_t sri0 = S.src.meta.ri, swi0 = S.src.meta.wi, dri0 = S.dst.meta.ri, dwi0 = S.dst.meta.wi;
    int scl0 = S.src.meta.closed;
    pure_probe();
    wuffs_base__status st = wuffs_base__io_transformer__transform_io(t, &S.dst, &S.src, S.work);
    pure_probe();
    S.ncalls++;
    snap_check(&ss, &S.src, 1, "src");
    snap_check(&ds, &S.dst, 0, "dst");
    status_check(st);
    call_record("transform_io", st, sri0, swi0, scl0, dri0, dwi0);
    int progressed = (S.src.meta.ri != sri0) || (S.dst.meta.wi != dwi0);
    if (st.repr == wuffs_base__suspension__short_read) {
      S.nsusp_r++;
      if (scl0) { violation("$short read returned although the source was closed (everything supplied)"); final = st.repr; break; }
      if (late_close()) continue;
      if (src_exhausted() && !S.src_close) { final = st.repr; break; } // nothing more to give, never closing: legitimately stuck
      src_supply(src_next_size());
      if (S.dst_flush_on_read && S.dst_mode == 2 && S.dst.meta.wi > 0) dst_more();
      continue;
    }
    if (st.repr == wuffs_base__suspension__short_write) {
      S.nsusp_w++;
      if (dwi0 == dri0 && S.dst.meta.wi == dwi0 && (S.dst.data.len - dwi0) >= 65536 && dwi0 == 0)
        violation("$short write with no byte written into an empty destination of %zu bytes", S.dst.data.len);
      if (!progressed) {
        // A decoder may need a minimum of contiguous destination space (std/lzma
        // wants 274 bytes before it copies a match), so a window that produced
        // no progress is answered with a larger one, up to the "ample" size above.
        if (++stuck > 40) { final = st.repr; gaveup = 1; break; }
        if (S.dst_step < (1u << 17)) S.dst_step = S.dst_step ? S.dst_step * 2 : 2;
      } else {
        stuck = 0;
        g_nwindows++;
      }
      if (!dst_more()) { final = st.repr; break; }
      continue;
    }
    if (wuffs_base__status__is_suspension(&st)) {
      S.nsusp_other++;
      if (!progressed && ++stuck > 8) { final = st.repr; gaveup = 1; break; }
      continue;
    }
    final = st.repr;
    break;
  }
  dst_flush();
  summary(final, gaveup);
  rec_begin('O');
  resp_u64(fnv(S.out, S.outlen));
  resp_u32((uint32_t)S.outlen);
  resp_bytes(S.out, S.outlen);
  rec_end();
}

// ---------------------------------------------------------------- drive: image_decoder

static uint32_t pixfmt_bpp(uint32_t f) { return (f >> 0 & 0xF) ? 0 : 0; }

static void drive_img(uint32_t maxcalls) {
  (void)pixfmt_bpp;
  wuffs_base__image_decoder* d = (wuffs_base__image_decoder*)S.iface;
  src_supply(src_next_size());
  wuffs_base__image_config ic;
  memset(&ic, 0, sizeof ic);
  const char* final = NULL;
  int gaveup = 0;
  wuffs_base__status st;
  memset(&S.dst, 0, sizeof S.dst);
  // ---- DIC
  while (1) {
    if (S.ncalls >= maxcalls || work_exceeded()) { gaveup = 1; goto done; }
    iosnap_t ss; snap_take(&ss, &S.src);
    size_t sri0 = S.src.meta.ri, swi0 = S.src.meta.wi; int scl0 = S.src.meta.closed;
    pure_probe();
    st = wuffs_base__image_decoder__decode_image_config(d, &ic, &S.src);
    pure_probe();
    S.ncalls++;
    snap_check(&ss, &S.src, 1, "src");
    status_check(st);
    call_record("decode_image_config", st, sri0, swi0, scl0, 0, 0);
    if (st.repr == wuffs_base__suspension__short_read) {
      S.nsusp_r++;
      if (scl0) { violation("$short read from decode_image_config although the source was closed"); final = st.repr; goto done; }
      if (late_close()) continue;
      if (src_exhausted() && !S.src_close) { final = st.repr; goto done; }
      src_supply(src_next_size());
      continue;
    }
    if (wuffs_base__status__is_suspension(&st)) { S.nsusp_other++; final = st.repr; goto done; }
    break;
  }
  if (st.repr) { final = st.repr; goto done; }
  {
    uint32_t w = wuffs_base__pixel_config__width(&ic.pixcfg);
    uint32_t h = wuffs_base__pixel_config__height(&ic.pixcfg);
    uint32_t nativefmt = wuffs_base__pixel_config__pixel_format(&ic.pixcfg).repr;
    rec_begin('G');
    resp_u32(w); resp_u32(h); resp_u32(nativefmt);
    resp_u64(wuffs_base__image_config__first_frame_io_position(&ic));
    resp_u8(wuffs_base__image_config__first_frame_is_opaque(&ic));
    rec_end();
    uint64_t npix = (uint64_t)w * (uint64_t)h;
    if (npix > (S.max_pixels ? S.max_pixels : (1u << 20))) { final = "@stdh: image too large for the harness"; goto done; }
    uint32_t fmt = S.pixfmt ? S.pixfmt : WUFFS_BASE__PIXEL_FORMAT__BGRA_NONPREMUL;
    if (fmt == 1) fmt = nativefmt;
    // A pixel buffer smaller than the image is legal (the frame is clipped): the high nibble of the dump option
    // selects one (1: one row short, 2: one column short, 3: half in both directions, 4: 1x1, 5: half the rows).
    switch (S.dump_pixels >> 4) {
      case 1: if (h > 1) h--; break;
      case 2: if (w > 1) w--; break;
      case 3: w = (w + 1) / 2; h = (h + 1) / 2; break;
      case 4: if (w) w = 1; if (h) h = 1; break;
      case 5: h = (h + 1) / 2; break;
    }
    S.dump_pixels &= 15;
    wuffs_base__pixel_config__set(&ic.pixcfg, fmt, WUFFS_BASE__PIXEL_SUBSAMPLING__NONE, w, h);
    uint64_t plen = wuffs_base__pixel_config__pixbuf_len(&ic.pixcfg);
    if (plen > (1ull << 28)) { final = "@stdh: pixel buffer too large for the harness"; goto done; }
    uint8_t* pix = (uint8_t*)gmalloc(G_PIX, (size_t)plen);
    fill_mem(pix, (size_t)plen, S.pixfill);
    wuffs_base__pixel_buffer pb;
    memset(&pb, 0, sizeof pb);
    st = wuffs_base__pixel_buffer__set_from_slice(&pb, &ic.pixcfg, wuffs_base__make_slice_u8(pix, (size_t)plen));
    if (st.repr) { final = "@stdh: pixel format not usable as a destination"; gfree(G_PIX, pix); goto done; }
    wuffs_base__range_ii_u64 wl = wuffs_base__image_decoder__workbuf_len(d);
    rec_begin('W'); resp_u64(wl.min_incl); resp_u64(wl.max_incl); resp_u64(0); rec_end();
    if (wl.min_incl > (1ull << 28)) { final = "@stdh: work buffer too large for the harness"; gfree(G_PIX, pix); goto done; }
    work_setup(wl.min_incl, wl.max_incl);
    // ---- frames
    for (int frame = 0; frame < 64; frame++) {
      wuffs_base__frame_config fc;
      memset(&fc, 0, sizeof fc);
      while (1) {
        if (S.ncalls >= maxcalls || work_exceeded()) { gaveup = 1; gfree(G_PIX, pix); goto done; }
        iosnap_t ss; snap_take(&ss, &S.src);
        size_t sri0 = S.src.meta.ri, swi0 = S.src.meta.wi; int scl0 = S.src.meta.closed;
        pure_probe();
        st = wuffs_base__image_decoder__decode_frame_config(d, &fc, &S.src);
        pure_probe();
        S.ncalls++;
        snap_check(&ss, &S.src, 1, "src");
        status_check(st);
        call_record("decode_frame_config", st, sri0, swi0, scl0, 0, 0);
        if (st.repr == wuffs_base__suspension__short_read) {
          S.nsusp_r++;
          if (scl0) { violation("$short read from decode_frame_config although the source was closed"); final = st.repr; gfree(G_PIX, pix); goto done; }
          if (late_close()) continue;
      if (src_exhausted() && !S.src_close) { final = st.repr; gfree(G_PIX, pix); goto done; }
          src_supply(src_next_size());
          continue;
        }
        break;
      }
      if (st.repr) { final = st.repr; break; }
      wuffs_base__rect_ie_u32 r = wuffs_base__frame_config__bounds(&fc);
      rec_begin('R');
      resp_u32((uint32_t)frame);
      resp_u32(r.min_incl_x); resp_u32(r.min_incl_y); resp_u32(r.max_excl_x); resp_u32(r.max_excl_y);
      resp_u64(wuffs_base__frame_config__duration(&fc));
      resp_u64(wuffs_base__frame_config__index(&fc));
      resp_u64(wuffs_base__frame_config__io_position(&fc));
      resp_u8(wuffs_base__frame_config__disposal(&fc));
      resp_u8(wuffs_base__frame_config__opaque_within_bounds(&fc));
      resp_u8(wuffs_base__frame_config__overwrite_instead_of_blend(&fc));
      resp_u32(wuffs_base__frame_config__background_color(&fc));
      rec_end();
      while (1) {
        if (S.ncalls >= maxcalls || work_exceeded()) { gaveup = 1; gfree(G_PIX, pix); goto done; }
        iosnap_t ss; snap_take(&ss, &S.src);
        size_t sri0 = S.src.meta.ri, swi0 = S.src.meta.wi; int scl0 = S.src.meta.closed;
        pure_probe();
        st = wuffs_base__image_decoder__decode_frame(d, &pb, &S.src, (wuffs_base__pixel_blend)S.pixblend, S.work, NULL);
        pure_probe();
        S.ncalls++;
        snap_check(&ss, &S.src, 1, "src");
        status_check(st);
        call_record("decode_frame", st, sri0, swi0, scl0, 0, 0);
        if (st.repr == wuffs_base__suspension__short_read) {
          S.nsusp_r++;
          if (scl0) { violation("$short read from decode_frame although the source was closed"); final = st.repr; gfree(G_PIX, pix); goto done; }
          if (late_close()) continue;
      if (src_exhausted() && !S.src_close) { final = st.repr; gfree(G_PIX, pix); goto done; }
          src_supply(src_next_size());
          continue;
        }
        break;
      }
      {
        wuffs_base__rect_ie_u32 dr = wuffs_base__image_decoder__frame_dirty_rect(d);
        rec_begin('D');
        resp_u32((uint32_t)frame);
        resp_str(st.repr);
        resp_u32(dr.min_incl_x); resp_u32(dr.min_incl_y); resp_u32(dr.max_excl_x); resp_u32(dr.max_excl_y);
        resp_u64(fnv(pix, (size_t)plen));
        if (S.dump_pixels == 2) { resp_u32((uint32_t)plen); resp_bytes(pix, (size_t)plen); } else { resp_u32(0); }
        rec_end();
      }
      if (st.repr && !wuffs_base__status__is_note(&st)) { final = st.repr; break; }
      if (st.repr) { final = st.repr; break; }
      final = NULL;
    }
    rec_begin('P');
    resp_u32(fmt);
    resp_u64(fnv(pix, (size_t)plen));
    if (S.dump_pixels >= 1) { resp_u32((uint32_t)plen); resp_bytes(pix, (size_t)plen); } else { resp_u32(0); }
    rec_end();
    gfree(G_PIX, pix);
  }
done:
  summary(final, gaveup);
}

// ---------------------------------------------------------------- drive: token_decoder

static void drive_tok(uint32_t maxcalls) {
  wuffs_base__token_decoder* d = (wuffs_base__token_decoder*)S.iface;
  wuffs_base__range_ii_u64 wl = wuffs_base__token_decoder__workbuf_len(d);
  work_setup(wl.min_incl, wl.max_incl);
  src_supply(src_next_size());
  size_t cap = S.tok_cap ? S.tok_cap : 256;
  const char* final = NULL;
  int gaveup = 0;
  uint64_t covered = 0;
  // accumulated, canonicalised token stream: merge adjacent tokens of one chain with identical value
  uint64_t lastval = 0; int have = 0; int lastcont = 0; uint64_t lastlen = 0; uint64_t lastpos = 0;
  rec_begin('T');
  size_t trec = g_recstart;
  (void)trec;
  uint32_t ntok = 0;
  size_t cntpos = g_resplen;
  resp_u32(0);
  while (1) {
    if (S.ncalls >= maxcalls || work_exceeded()) { gaveup = 1; break; }
    wuffs_base__token* tm = (wuffs_base__token*)malloc(cap * sizeof(wuffs_base__token));
    wuffs_base__token_buffer tb;
    tb.data.ptr = tm; tb.data.len = cap;
    tb.meta.ri = tb.meta.wi = 0; tb.meta.pos = 0; tb.meta.closed = false;
    iosnap_t ss; snap_take(&ss, &S.src);
    size_t sri0 = S.src.meta.ri; int scl0 = S.src.meta.closed;
    pure_probe();
    wuffs_base__status st = wuffs_base__token_decoder__decode_tokens(d, &tb, &S.src, S.work);
    pure_probe();
    S.ncalls++;
    snap_check(&ss, &S.src, 1, "src");
    status_check(st);
    if (!(tb.meta.ri <= tb.meta.wi && tb.meta.wi <= tb.data.len)) violation("token buffer invariant broken");
    if (tb.meta.ri != 0) violation("token buffer read index changed");
    for (size_t i = 0; i < tb.meta.wi; i++) {
      uint64_t r = tm[i].repr;
      uint64_t len = r & 0xFFFF;
      uint64_t val = r >> 17;
      int cont = (int)((r >> 16) & 1);
      uint64_t tpos = covered;
      covered += len;
      // How the bytes are partitioned into tokens depends on the buffers (a
      // long string or a run of white space may be cut anywhere), so the
      // stream is canonicalised: filler tokens (base VBC 0: "can generally be
      // ignored other than accumulating their length") only advance the
      // position, and adjacent tokens of one chain with the same value merge.
      if ((r >> 63) == 0 && ((r >> 42) & 0x1FFFFF) == 0 && ((r >> 38) & 0xF) == 0) continue;
      if (have && lastcont && lastval == val && lastpos + lastlen == tpos) {
        lastlen += len; lastcont = cont;
      } else {
        if (have) { resp_u64(lastval); resp_u64(lastlen); resp_u8((uint8_t)lastcont); resp_u64(lastpos); ntok++; }
        lastval = val; lastlen = len; lastcont = cont; lastpos = tpos; have = 1;
      }
    }
    int wrote = tb.meta.wi != 0;
    free(tm);
    if (st.repr == wuffs_base__suspension__short_read) {
      S.nsusp_r++;
      if (scl0) { violation("$short read from decode_tokens although the source was closed"); final = st.repr; break; }
      if (late_close()) continue;
      if (src_exhausted() && !S.src_close) { final = st.repr; break; }
      src_supply(src_next_size());
      continue;
    }
    if (st.repr == wuffs_base__suspension__short_write) {
      S.nsusp_w++;
      g_nwindows++;
      if (!wrote && cap >= 4096) violation("$short write with no token written into an empty token buffer of %zu", cap);
      if (!wrote && S.src.meta.ri == sri0) { cap *= 2; if (cap > (1u << 16)) { final = st.repr; gaveup = 1; break; } }
      continue;
    }
    if (wuffs_base__status__is_suspension(&st)) { S.nsusp_other++; final = st.repr; break; }
    final = st.repr;
    break;
  }
  if (have) { resp_u64(lastval); resp_u64(lastlen); resp_u8((uint8_t)lastcont); resp_u64(lastpos); ntok++; }
  g_resp[cntpos] = (uint8_t)ntok; g_resp[cntpos + 1] = (uint8_t)(ntok >> 8); g_resp[cntpos + 2] = (uint8_t)(ntok >> 16); g_resp[cntpos + 3] = (uint8_t)(ntok >> 24);
  resp_u64(covered);
  rec_end();
  uint64_t consumed = S.src.meta.pos + S.src.meta.ri;
  if (covered != consumed && !(final && final[0] == '#'))
    violation("token lengths sum to %llu but %llu source bytes were consumed", (unsigned long long)covered, (unsigned long long)consumed);
  summary(final, gaveup);
}

// ---------------------------------------------------------------- drive: hashers

// The payload is hashed in pieces given by the source plan; every piece is
// copied to an exact-size heap block at a varying misalignment so that
// over-reads and alignment assumptions of the SIMD paths are visible.
static void drive_hash(void) {
  size_t off = 0;
  int iter = 0;
  uint64_t r64 = 0; uint32_t r32 = 0; wuffs_base__bitvec256 r256; memset(&r256, 0, sizeof r256);
  uint8_t usecombined = S.tok_cap & 1; // last piece goes through update_uNN
  while (1) {
    S.fed = off;
    size_t n = src_next_size();
    int last = (off + n == S.paylen);
    size_t mis = (size_t)(iter * 7 + 3) & 15;
    uint8_t* m = (uint8_t*)gmalloc(G_SRC, mis + n);
    if (n) memcpy(m + mis, S.pay + off, n);
    wuffs_base__slice_u8 sl = wuffs_base__make_slice_u8(m + mis, n);
    pure_probe();
    switch (S.k->iface) {
      case IF_H32:
        if (last && usecombined) r32 = wuffs_base__hasher_u32__update_u32((wuffs_base__hasher_u32*)S.iface, sl);
        else wuffs_base__hasher_u32__update((wuffs_base__hasher_u32*)S.iface, sl);
        break;
      case IF_H64:
        if (last && usecombined) r64 = wuffs_base__hasher_u64__update_u64((wuffs_base__hasher_u64*)S.iface, sl);
        else wuffs_base__hasher_u64__update((wuffs_base__hasher_u64*)S.iface, sl);
        break;
      default:
        if (last && usecombined) r256 = wuffs_base__hasher_bitvec256__update_bitvec256((wuffs_base__hasher_bitvec256*)S.iface, sl);
        else wuffs_base__hasher_bitvec256__update((wuffs_base__hasher_bitvec256*)S.iface, sl);
        break;
    }
    pure_probe();
    S.ncalls++;
    gfree(G_SRC, m);
    off += n;
    iter++;
    if (last) break;
    if (iter > 1 << 20) break;
  }
  rec_begin('H');
  switch (S.k->iface) {
    case IF_H32: {
      uint32_t c = wuffs_base__hasher_u32__checksum_u32((const wuffs_base__hasher_u32*)S.iface);
      if (usecombined && c != r32) violation("update_u32 result differs from checksum_u32");
      resp_u32(8); resp_u64(c);
      break;
    }
    case IF_H64: {
      uint64_t c = wuffs_base__hasher_u64__checksum_u64((const wuffs_base__hasher_u64*)S.iface);
      if (usecombined && c != r64) violation("update_u64 result differs from checksum_u64");
      resp_u32(8); resp_u64(c);
      break;
    }
    default: {
      wuffs_base__bitvec256 c = wuffs_base__hasher_bitvec256__checksum_bitvec256((const wuffs_base__hasher_bitvec256*)S.iface);
      if (usecombined && memcmp(&c, &r256, sizeof c) != 0) violation("update_bitvec256 result differs from checksum_bitvec256");
      resp_u32(32);
      for (int i = 0; i < 4; i++) resp_u64(c.elements_u64[i]);
      break;
    }
  }
  rec_end();
  summary(NULL, 0);
}

// ---------------------------------------------------------------- raw calls (protocol histories, C08)

// One raw call on the current buffers. variant bits: 1 NULL dst, 2 NULL src,
// 4 work buffer one byte too small (when min > 0), 8 NULL receiver.
static void op_call(void) {
  uint8_t method = rq_u8();
  uint8_t variant = rq_u8();
  if (!S.obj) {
    rec_begin('c'); resp_str("?"); resp_str("@stdh: no object");
    resp_u32(0); resp_u32(0); resp_u8(0); resp_u32(0); resp_u32(0); resp_u32(0); resp_u32(0); resp_u32(0); resp_u32(0);
    rec_end();
    return;
  }
  if (!S.iface) S.iface = S.k->upcast(S.obj);
  wuffs_base__status st;
  st.repr = NULL;
  iosnap_t ss, ds;
  if (!S.src.data.ptr) { S.srcmem = (uint8_t*)gmalloc(G_SRC, 0); S.src.data.ptr = S.srcmem; S.src.data.len = 0; }
  snap_take(&ss, &S.src);
  snap_take(&ds, &S.dst);
  wuffs_base__io_buffer* srcp = (variant & 2) ? NULL : &S.src;
  wuffs_base__io_buffer* dstp = (variant & 1) ? NULL : &S.dst;
  void* self = (variant & 8) ? NULL : S.iface;
  if (S.inited && !(variant & 8)) {
    // raw histories: keep the work buffer at the length the decoder currently asks for
    uint64_t wmin = 0;
    if (S.k->iface == IF_IOT) wmin = wuffs_base__io_transformer__workbuf_len((const wuffs_base__io_transformer*)S.iface).min_incl;
    else if (S.k->iface == IF_TOK) wmin = wuffs_base__token_decoder__workbuf_len((const wuffs_base__token_decoder*)S.iface).min_incl;
    if (wmin && wmin <= (1u << 28)) { int wm = S.work_mode; S.work_mode = 0; work_regrow(wmin); S.work_mode = wm; }
  }
  wuffs_base__slice_u8 work = S.work;
  if ((variant & 4) && work.len > 0) work.len -= 1;
  size_t sri0 = S.src.meta.ri, swi0 = S.src.meta.wi, dri0 = S.dst.meta.ri, dwi0 = S.dst.meta.wi;
  int scl0 = S.src.meta.closed;
  const char* mname = "?";
  pure_probe();
  switch (S.k->iface) {
    case IF_IOT:
      if (method == 0) { mname = "transform_io"; st = wuffs_base__io_transformer__transform_io((wuffs_base__io_transformer*)self, dstp, srcp, work); }
      else { mname = "set_quirk"; st = wuffs_base__io_transformer__set_quirk((wuffs_base__io_transformer*)self, 1, 1); }
      break;
    case IF_IMG: {
      static wuffs_base__image_config ic;
      static wuffs_base__frame_config fc;
      static wuffs_base__pixel_buffer pb;
      static uint8_t* pix;
      wuffs_base__image_decoder* d = (wuffs_base__image_decoder*)self;
      switch (method) {
        case 0:
          mname = "decode_image_config";
          st = wuffs_base__image_decoder__decode_image_config(d, (variant & 1) ? NULL : &ic, srcp);
          if (!st.repr && !(variant & 1)) {
            uint32_t w = wuffs_base__pixel_config__width(&ic.pixcfg), h = wuffs_base__pixel_config__height(&ic.pixcfg);
            if ((uint64_t)w * h <= (1u << 20)) {
              wuffs_base__pixel_config__set(&ic.pixcfg, WUFFS_BASE__PIXEL_FORMAT__BGRA_NONPREMUL, 0, w, h);
              gfree(G_PIX, pix);
              size_t plen = (size_t)w * h * 4;
              pix = (uint8_t*)gmalloc(G_PIX, plen);
              memset(pix, 0, plen);
              wuffs_base__pixel_buffer__set_from_slice(&pb, &ic.pixcfg, wuffs_base__make_slice_u8(pix, plen));
              wuffs_base__range_ii_u64 wl = wuffs_base__image_decoder__workbuf_len(d);
              if (wl.min_incl < (1u << 28)) work_setup(wl.min_incl, wl.max_incl);
            }
          }
          break;
        case 1:
          mname = "decode_frame_config";
          st = wuffs_base__image_decoder__decode_frame_config(d, (variant & 1) ? NULL : &fc, srcp);
          break;
        case 2:
          mname = "decode_frame";
          if (!pix) { // a 1x1 buffer when no config was decoded: the image gets clipped, which is documented as valid
            wuffs_base__pixel_config pc; memset(&pc, 0, sizeof pc);
            wuffs_base__pixel_config__set(&pc, WUFFS_BASE__PIXEL_FORMAT__BGRA_NONPREMUL, 0, 1, 1);
            pix = (uint8_t*)gmalloc(G_PIX, 4); memset(pix, 0, 4);
            wuffs_base__pixel_buffer__set_from_slice(&pb, &pc, wuffs_base__make_slice_u8(pix, 4));
          }
          st = wuffs_base__image_decoder__decode_frame(d, (variant & 1) ? NULL : &pb, srcp, WUFFS_BASE__PIXEL_BLEND__SRC, work, NULL);
          break;
        case 3:
          mname = "restart_frame";
          st = wuffs_base__image_decoder__restart_frame(d, 0, (variant & 16) ? (wuffs_base__image_config__first_frame_io_position(&ic) | 13) : wuffs_base__image_config__first_frame_io_position(&ic));
          break;
        case 4:
          mname = "tell_me_more";
          { wuffs_base__more_information mi; memset(&mi, 0, sizeof mi);
            st = wuffs_base__image_decoder__tell_me_more(d, dstp, &mi, srcp); }
          break;
        case 6: {
          static const uint32_t fourccs[8] = {0x49434350, 0x584D5020, 0x45584946, 0x4348524D, 0x47414D41, 0x4B565020, 0x53524742, 0x4247434C};
          mname = "set_report_metadata";
          wuffs_base__image_decoder__set_report_metadata(d, fourccs[variant & 7], true);
          break;
        }
        default:
          mname = "set_quirk";
          st = wuffs_base__image_decoder__set_quirk(d, 1, 1);
          break;
      }
      break;
    }
    case IF_TOK: {
      static wuffs_base__token toks[64];
      wuffs_base__token_buffer tb;
      tb.data.ptr = toks; tb.data.len = 64; tb.meta.ri = tb.meta.wi = 0; tb.meta.pos = 0; tb.meta.closed = false;
      if (method == 0) { mname = "decode_tokens"; st = wuffs_base__token_decoder__decode_tokens((wuffs_base__token_decoder*)self, (variant & 1) ? NULL : &tb, srcp, work); }
      else { mname = "set_quirk"; st = wuffs_base__token_decoder__set_quirk((wuffs_base__token_decoder*)self, 1, 1); }
      break;
    }
    default: {
      mname = "set_quirk";
      if (S.k->iface == IF_H32) st = wuffs_base__hasher_u32__set_quirk((wuffs_base__hasher_u32*)self, 1, 1);
      else if (S.k->iface == IF_H64) st = wuffs_base__hasher_u64__set_quirk((wuffs_base__hasher_u64*)self, 1, 1);
      else st = wuffs_base__hasher_bitvec256__set_quirk((wuffs_base__hasher_bitvec256*)self, 1, 1);
      break;
    }
  }
  pure_probe();
  S.ncalls++;
  snap_check(&ss, &S.src, 1, "src");
  snap_check(&ds, &S.dst, 0, "dst");
  status_check(st);
  rec_begin('c');
  resp_str(mname);
  resp_str(st.repr);
  resp_u32((uint32_t)sri0); resp_u32((uint32_t)swi0); resp_u8((uint8_t)scl0);
  resp_u32((uint32_t)S.src.meta.ri); resp_u32((uint32_t)S.src.meta.wi);
  resp_u32((uint32_t)dri0); resp_u32((uint32_t)dwi0);
  resp_u32((uint32_t)S.dst.meta.ri); resp_u32((uint32_t)S.dst.meta.wi);
  rec_end();
}

// ---------------------------------------------------------------- main loop

static void on_alarm(int sig) {
  (void)sig;
  static const char msg[] = "\nSTDH-TIMEOUT\n";
  ssize_t r = write(2, msg, sizeof msg - 1);
  (void)r;
  _exit(97);
}

// The alarm counts CPU time of this process (ITIMER_PROF), not wall time, so a
// loaded machine cannot turn slowness into a "hang".
static void cpu_alarm(unsigned sec) {
  struct itimerval it;
  memset(&it, 0, sizeof it);
  it.it_value.tv_sec = sec;
  setitimer(ITIMER_PROF, &it, NULL);
}

static int read_full(int fd, void* p, size_t n) {
  uint8_t* b = (uint8_t*)p;
  while (n) {
    ssize_t r = read(fd, b, n);
    if (r <= 0) return 0;
    b += r; n -= (size_t)r;
  }
  return 1;
}
static int write_full(int fd, const void* p, size_t n) {
  const uint8_t* b = (const uint8_t*)p;
  while (n) {
    ssize_t r = write(fd, b, n);
    if (r <= 0) return 0;
    b += r; n -= (size_t)r;
  }
  return 1;
}

static void handle_request(void) {
  g_resplen = 0; g_nviol = 0; g_npure = 0; g_nwindows = 0; g_zeros = 0; g_probe_bytes = 0; g_reqpos = 0; g_reqbad = 0; g_hrl = 0;
  memset(&S, 0, sizeof S);
  uint8_t kind = rq_u8();
  uint32_t alarm_s = rq_u32();
  g_rng = 0x9E3779B97F4A7C15ull ^ rq_u64();
  if (!g_rng) g_rng = 1;
  if (kind >= g_nkinds) { violation("bad kind"); return; }
  S.k = &g_kinds[kind];
  S.paylen = rq_u32();
  if (g_reqpos + S.paylen > g_reqlen) { violation("bad request"); return; }
  S.pay = g_req + g_reqpos;
  g_reqpos += S.paylen;
  S.src_exact = 1;
  S.src_close = 1;
  S.dst_cap = 1 << 20;
  cpu_alarm(alarm_s ? alarm_s : 30);
  while (g_reqpos < g_reqlen && !g_reqbad) {
    uint8_t op = rq_u8();
    switch (op) {
      case 'I': op_init(); break;
      case 'Q': {
        uint32_t key = rq_u32(); uint64_t val = rq_u64();
        wuffs_base__status st; st.repr = "@stdh: no object";
        if (S.obj) switch (S.k->iface) {
          case IF_IOT: st = wuffs_base__io_transformer__set_quirk((wuffs_base__io_transformer*)S.iface, key, val); break;
          case IF_IMG: st = wuffs_base__image_decoder__set_quirk((wuffs_base__image_decoder*)S.iface, key, val); break;
          case IF_TOK: st = wuffs_base__token_decoder__set_quirk((wuffs_base__token_decoder*)S.iface, key, val); break;
          case IF_H32: st = wuffs_base__hasher_u32__set_quirk((wuffs_base__hasher_u32*)S.iface, key, val); break;
          case IF_H64: st = wuffs_base__hasher_u64__set_quirk((wuffs_base__hasher_u64*)S.iface, key, val); break;
          default: st = wuffs_base__hasher_bitvec256__set_quirk((wuffs_base__hasher_bitvec256*)S.iface, key, val); break;
        }
        status_check(st);
        rec_begin('q'); resp_str(st.repr); rec_end();
        break;
      }
      case 'S': { // source plan
        S.src_mode = rq_u8(); S.src_chunk = rq_u32(); S.src_close = rq_u8(); S.src_exact = rq_u8();
        S.src_nlist = rq_u8();
        if (S.src_nlist > 64) S.src_nlist = 64;
        for (int i = 0; i < S.src_nlist; i++) S.src_list[i] = rq_u32();
        S.src_listpos = 0;
        break;
      }
      case 'D': S.dst_mode = rq_u8(); S.dst_cap = rq_u32(); S.dst_step = rq_u32(); S.dst_fill = rq_u8(); S.dst_flush_on_read = rq_u8(); break;
      case 'B': S.work_mode = rq_u8(); S.work_fill = rq_u8(); break;
      case 'X': S.pixfmt = rq_u32(); S.pixblend = rq_u8(); S.pixfill = rq_u8(); S.max_pixels = rq_u32(); S.dump_pixels = rq_u8(); break;
      case 'T': S.tok_cap = rq_u32(); break;
      case 'U': S.pure_probe = rq_u8(); break;
      case 'R': { // run the canonical driver loop
        uint32_t maxcalls = rq_u32();
        if (!S.obj) { violation("drive without object"); break; }
        switch (S.k->iface) {
          case IF_IOT: drive_iot(maxcalls); break;
          case IF_IMG: drive_img(maxcalls); break;
          case IF_TOK: drive_tok(maxcalls); break;
          default: drive_hash(); break;
        }
        break;
      }
      case 'F': { // raw feed: n more payload bytes (exact buffer), optional close
        uint32_t n = rq_u32(); uint8_t cl = rq_u8();
        size_t left = S.paylen - S.fed;
        if (n > left) n = (uint32_t)left;
        int sc = S.src_close; S.src_close = 0;
        src_supply(n);
        S.src_close = sc;
        if (cl) S.src.meta.closed = true;
        break;
      }
      case 'W': { // raw destination window: n more writable bytes (exact fresh buffer keeping everything unread)
        uint32_t n = rq_u32();
        dst_flush();
        S.dst_mode = 2; S.dst_step = n; g_hrl = 0;
        if (!S.dstmem) dst_setup(); else dst_more();
        break;
      }
      case 'K': { // raw work buffer of n bytes
        uint32_t n = rq_u32();
        gfree(G_WORK, S.workmem);
        S.workmem = (uint8_t*)gmalloc(G_WORK, n);
        fill_mem(S.workmem, n, 0xFE);
        S.work.ptr = S.workmem; S.work.len = n;
        break;
      }
      case 'C': op_call(); break;
      case 'N': { // switch to a new payload (re-initialisation histories): resets source, output and counters
        uint32_t n = rq_u32();
        if (g_reqpos + n > g_reqlen) { g_reqbad = 1; break; }
        S.pay = g_req + g_reqpos; S.paylen = n; g_reqpos += n;
        S.fed = 0; S.src_listpos = 0; g_zeros = 0;
        gfree(G_SRC, S.srcmem); S.srcmem = NULL; memset(&S.src, 0, sizeof S.src);
        S.outlen = 0; S.ncalls = 0; S.nsusp_r = S.nsusp_w = S.nsusp_other = 0; g_nwindows = 0;
        rec_begin('X'); rec_end();
        break;
      }
      case 'O': { // dump accumulated output
        dst_flush();
        rec_begin('O'); resp_u64(fnv(S.out, S.outlen)); resp_u32((uint32_t)S.outlen); resp_bytes(S.out, S.outlen); rec_end();
        break;
      }
      default: violation("bad op %d", op); g_reqbad = 1; break;
    }
  }
  cpu_alarm(0);
  rec_begin('E');
  resp_u32((uint32_t)g_nviol);
  rec_end();
  sess_free();
}

int main(int argc, char** argv) {
  if (argc > 1 && !strcmp(argv[1], "--list")) {
    for (int i = 0; i < g_nkinds; i++) {
      printf("%d %s %d %zu\n", i, g_kinds[i].name, g_kinds[i].iface, g_kinds[i].size_of());
    }
    printf("cpu sse42=%d avx2=%d bmi2=%d\n", (int)wuffs_base__cpu_arch__have_x86_sse42(),
           (int)wuffs_base__cpu_arch__have_x86_avx2(), (int)wuffs_base__cpu_arch__have_x86_bmi2());
    return 0;
  }
  if (argc == 2) {
    // stdh <pkg> < file > decoded: one-shot decode with the named io_transformer (used by C17 for std/lzma, std/xz)
    int kind = -1;
    for (int i = 0; i < g_nkinds; i++) {
      size_t n = strlen(argv[1]);
      if (!strncmp(g_kinds[i].name, argv[1], n) && g_kinds[i].name[n] == '.' && g_kinds[i].iface == IF_IOT) kind = i;
    }
    if (kind < 0) { fprintf(stderr, "stdh: no io_transformer package %s\n", argv[1]); return 2; }
    size_t cap = 1 << 16, len = 0;
    uint8_t* in = (uint8_t*)malloc(cap);
    while (1) {
      if (len == cap) { cap *= 2; in = (uint8_t*)realloc(in, cap); }
      ssize_t r = read(0, in + len, cap - len);
      if (r <= 0) break;
      len += (size_t)r;
    }
    memset(&S, 0, sizeof S);
    S.k = &g_kinds[kind];
    S.pay = in; S.paylen = len;
    S.src_exact = 1; S.src_close = 1;
    // ample work buffer, like upstream's own drivers (example/mzcat): an xz stream whose first LZMA2 chunk is
    // uncompressed reaches add_history with the buffer of the call that parsed the header
    S.work_mode = 4; g_cli = 1;
    { uint64_t c = 64ull * len + 65536; S.dst_cap = (uint32_t)(c > (1u << 26) ? (1u << 26) : c); }
    S.objsz = S.k->size_of();
    S.obj = malloc(S.objsz);
    wuffs_base__status st = S.k->init(S.obj, S.objsz, WUFFS_VERSION, 0);
    if (st.repr) { fprintf(stderr, "stdh: initialize: %s\n", st.repr); return 3; }
    S.iface = S.k->upcast(S.obj);
    drive_iot(1u << 22);
    if (!write_full(1, S.out, S.outlen)) return 2;
    // the summary record sits in g_resp; the final status is the first string of the 'F' record
    const char* final = NULL;
    for (size_t p = 0; p + 5 <= g_resplen;) {
      uint8_t typ = g_resp[p];
      uint32_t n = (uint32_t)g_resp[p + 1] | ((uint32_t)g_resp[p + 2] << 8) | ((uint32_t)g_resp[p + 3] << 16) | ((uint32_t)g_resp[p + 4] << 24);
      if (typ == 'F') { uint32_t sl = (uint32_t)g_resp[p + 5] | ((uint32_t)g_resp[p + 6] << 8); if (sl) { static char buf[256]; memcpy(buf, g_resp + p + 9, sl < 255 ? sl : 255); final = buf; } }
      p += 5 + n;
    }
    if (final) { fprintf(stderr, "stdh: final status %s\n", final); return 3; }
    if (g_nviol) { fprintf(stderr, "stdh: %d contract violations\n", g_nviol); return 3; }
    if (S.src.meta.pos + S.src.meta.ri != len) { fprintf(stderr, "stdh: consumed %llu of %zu bytes\n", (unsigned long long)(S.src.meta.pos + S.src.meta.ri), len); return 3; }
    return 0;
  }
  signal(SIGPROF, on_alarm);
  while (1) {
    uint8_t hdr[4];
    if (!read_full(0, hdr, 4)) return 0;
    uint32_t n = (uint32_t)hdr[0] | ((uint32_t)hdr[1] << 8) | ((uint32_t)hdr[2] << 16) | ((uint32_t)hdr[3] << 24);
    uint8_t* req = (uint8_t*)malloc(n ? n : 1);
    if (!read_full(0, req, n)) return 0;
    g_req = req; g_reqlen = n;
    handle_request();
    free(req);
    uint8_t oh[4] = {(uint8_t)g_resplen, (uint8_t)(g_resplen >> 8), (uint8_t)(g_resplen >> 16), (uint8_t)(g_resplen >> 24)};
    if (!write_full(1, oh, 4) || !write_full(1, g_resp, g_resplen)) return 0;
  }
}
