// libFuzzer entry over the E3 harness (thorough tier of C03): the fuzz input is
//   byte 0: kind (mod the number of kinds)
//   byte 1: source plan  - 0 = everything at once, n = pieces of n bytes
//   byte 2: destination plan - 0 = ample, n = fresh exact-size windows of n bytes
//   byte 3: bit 0 = largest instead of smallest work buffer, bit 1 = probe the pure methods around every call
//   rest  : the payload given to the decoder (source closed after the last byte)
// with a 128 KiB destination buffer and images of at most 65536 pixels (speed),
// and is turned into the same request that go/stdrun.Request builds for the
// equivalent Case (go/c03 converts an artifact back with the same mapping and
// confirms it through the ordinary replay path). The lzma family is always
// driven unsplit (driver discipline of the known findings S1/S3). Any sanitizer
// report, allocation attempt or I/O-contract violation recorded by the harness
// aborts, which libFuzzer saves as a crash artifact.
#define main stdh_main
#include "stdh.c"
#undef main

static uint8_t* fz_req;
static size_t fz_len, fz_cap;

static void fz_put(const void* p, size_t n) {
  if (fz_len + n > fz_cap) {
    fz_cap = (fz_len + n) * 2 + 64;
    fz_req = (uint8_t*)realloc(fz_req, fz_cap);
  }
  memcpy(fz_req + fz_len, p, n);
  fz_len += n;
}
static void fz_u8(uint8_t v) { fz_put(&v, 1); }
static void fz_u32(uint32_t v) { uint8_t b[4] = {(uint8_t)v, (uint8_t)(v >> 8), (uint8_t)(v >> 16), (uint8_t)(v >> 24)}; fz_put(b, 4); }
static void fz_u64(uint64_t v) { fz_u32((uint32_t)v); fz_u32((uint32_t)(v >> 32)); }

static void fz_alarm(int sig) {
  (void)sig;
  static const char msg[] = "STDH-TIMEOUT: CPU budget of one input exhausted\n";
  if (write(2, msg, sizeof msg - 1) < 0) {}
  abort();
}

int LLVMFuzzerInitialize(int* argc, char*** argv) {
  (void)argc; (void)argv;
  signal(SIGPROF, fz_alarm);
  return 0;
}

int LLVMFuzzerTestOneInput(const uint8_t* data, size_t size) {
  if (size < 4) return 0;
  int kind = data[0] % g_nkinds;
  uint8_t srcc = data[1], dstc = data[2], flags = data[3];
  const char* name = g_kinds[kind].name;
  if (!strncmp(name, "lzma.", 5) || !strncmp(name, "lzip.", 5) || !strncmp(name, "xz.", 3)) srcc = dstc = 0;
  const uint8_t* pay = data + 4;
  size_t n = size - 4;
  fz_len = 0;
  fz_u8((uint8_t)kind); fz_u32(60); fz_u64(0); fz_u32((uint32_t)n); fz_put(pay, n);
  fz_u8('I'); fz_u32(0); fz_u8(0); fz_u8(0); fz_u8(0);
  fz_u8('S'); fz_u8(srcc ? 1 : 0); fz_u32(srcc); fz_u8(1); fz_u8(1); fz_u8(0);
  fz_u8('D'); fz_u8(dstc ? 2 : 0); fz_u32(1u << 17); fz_u32(dstc); fz_u8(0); fz_u8(0);
  fz_u8('B'); fz_u8(flags & 1); fz_u8(0);
  if (g_kinds[kind].iface == IF_IMG) { fz_u8('X'); fz_u32(0); fz_u8(0); fz_u8(0); fz_u32(1u << 16); fz_u8(0); }
  if (flags & 2) { fz_u8('U'); fz_u8(1); }
  fz_u8('R'); fz_u32(4u << 20);
  g_req = fz_req; g_reqlen = fz_len;
  handle_request();
  if (g_nviol) {
    fprintf(stderr, "STDH-FUZZ: %d harness violations for kind %s\n", g_nviol, name);
    for (size_t p = 0; p + 5 <= g_resplen;) {
      uint8_t typ = g_resp[p];
      uint32_t rn = (uint32_t)g_resp[p + 1] | ((uint32_t)g_resp[p + 2] << 8) | ((uint32_t)g_resp[p + 3] << 16) | ((uint32_t)g_resp[p + 4] << 24);
      if (typ == 'V' && rn >= 4) fprintf(stderr, "  %.*s\n", (int)(rn - 4), (const char*)(g_resp + p + 9));
      p += 5 + rn;
    }
    abort();
  }
  return 0;
}
