// stdh_lib.c — the library translation unit of the E3 harness: the whole
// freshly generated Wuffs standard library, with the C allocator replaced by
// aborting stubs so that "never allocates or frees" is a run-time oracle (the
// harness never calls the alloc convenience functions).
#include <stdint.h>
#include <stdio.h>
#include <stdlib.h>
#include <string.h>
#include <unistd.h>

static void* stdh_forbidden_alloc(const char* what) {
  fprintf(stderr, "\nSTDH-ALLOC: the generated library called %s\n", what);
  _exit(98);
  return NULL;
}
static void stdh_forbidden_free(void) {
  fprintf(stderr, "\nSTDH-ALLOC: the generated library called free\n");
  _exit(98);
}
#ifdef STDH_ALLOW_ALLOC_FUNCS
#define STDH_SELF_CHECK 1
#endif
#define malloc(n) stdh_forbidden_alloc("malloc")
#define calloc(a, b) stdh_forbidden_alloc("calloc")
#define realloc(p, n) stdh_forbidden_alloc("realloc")
#define free(p) stdh_forbidden_free()

#define WUFFS_IMPLEMENTATION
#include STDH_SNAPSHOT
