#!/bin/bash
# Entry point of every MANIFEST command: ./check.sh <ID> <quick|thorough> [--replay FILE]
set -u
cd "$(dirname "$0")"
export GOFLAGS=-mod=mod GOPROXY=off GOSUMDB=off GOTOOLCHAIN=local
export VERIF_TIER="${2:-quick}"
mkdir -p .work/bin
if ! (cd go && go build -o ../.work/bin/vcheck ./cmd/vcheck) ; then
  echo "INCONCLUSIVE: cannot build the driver" ; exit 2
fi
exec .work/bin/vcheck "$@"
