// Package c17 decides property C17: literal-only LZMA/XZ — lossless round
// trip, conformant output (independent decoders agree), total decoder.
package c17

import (
	"bytes"
	"encoding/binary"
	"encoding/json"
	"fmt"
	"hash/crc32"
	"os"
	"os/exec"
	"runtime"
	"strconv"
	"strings"
	"sync"
	"sync/atomic"
	"testing"
	"time"

	"github.com/google/wuffs/lib/litonlylzma"
	"pgregory.net/rapid"

	"verif/internal/ev"
)

func TestMain(m *testing.M) { ev.Main(m) }

// The headers of the supported subset, transcribed from the format
// specifications (lc=3 lp=0 pb=2, 4 KiB dictionary; XZ: CRC-32 check, one
// LZMA2 filter with a 4 KiB dictionary).
const (
	lzmaHdr5 = "\x5D\x00\x10\x00\x00"
	xzHdr24  = "\xFD\x37\x7A\x58\x5A\x00\x00\x01\x69\x22\xDE\x36\x02\x00\x21\x01\x00\x00\x00\x00\x37\x27\x97\xD6"
)

func fileFormat(s string) litonlylzma.FileFormat {
	if s == "xz" {
		return litonlylzma.FileFormatXz
	}
	return litonlylzma.FileFormatLZMA
}

// mkDst builds the dst argument: the prefix followed by `spare` bytes of
// capacity filled with a sentinel (append may legitimately overwrite them).
// A nil prefix with no spare capacity is passed as a nil slice.
func mkDst(prefix []byte, spare int) []byte {
	if len(prefix) == 0 && spare <= 0 {
		return nil
	}
	buf := make([]byte, len(prefix)+spare)
	copy(buf, prefix)
	for i := len(prefix); i < len(buf); i++ {
		buf[i] = 0xA5
	}
	return buf[:len(prefix)]
}

// ---------------------------------------------------------------- watchdog

// The code under test cannot be interrupted from the outside. A mutated (or
// defective) decoder that ignores the end of its input would loop / allocate
// without bound, so a watchdog observes the amount of work done while a case
// is running, measured as live heap (the output is appended to a slice), with
// a very generous wall-clock backstop. On overflow it records the running case
// as a failure and exits; the driver confirms it by replaying the case.
type armed struct {
	kind  string
	c     any
	since time.Time
}

var (
	wdCur   atomic.Pointer[armed]
	wdOnce  sync.Once
	wdHeap  = uint64(ev.EnvInt("VERIF_C17_HEAP_MIB", 768)) << 20
	wdClock = time.Duration(ev.EnvInt("VERIF_C17_WALL_S", 120)) * time.Second
)

func wdStart() {
	wdOnce.Do(func() {
		go func() {
			var ms runtime.MemStats
			for {
				time.Sleep(20 * time.Millisecond)
				a := wdCur.Load()
				if a == nil {
					continue
				}
				runtime.ReadMemStats(&ms)
				why := ""
				if ms.HeapAlloc > wdHeap {
					why = fmt.Sprintf("heap grew to %d MiB while processing one case (unbounded output / work)", ms.HeapAlloc>>20)
				} else if time.Since(a.since) > wdClock {
					why = fmt.Sprintf("one case still running after %v (expected milliseconds)", wdClock)
				}
				if why == "" {
					continue
				}
				if wdCur.Load() != a {
					continue
				}
				ev.Fail("C17", a.kind, a.c, "watchdog: "+why)
				fmt.Fprintf(os.Stderr, "C17 violated: watchdog: %s\n", why)
				ev.Flush()
				os.Exit(1)
			}
		}()
	})
}

func wdArm(kind string, c any) {
	wdStart()
	wdCur.Store(&armed{kind: kind, c: c, since: time.Now()})
}
func wdDisarm() { wdCur.Store(nil) }

// ---------------------------------------------------------------- external decoders

const inconclusive = "INCONCLUSIVE: "

var xzPath = func() string {
	for _, p := range []string{"/usr/bin/xz"} {
		if st, err := os.Stat(p); err == nil && !st.IsDir() {
			return p
		}
	}
	if p, err := exec.LookPath("xz"); err == nil {
		return p
	}
	return ""
}()

// runTool feeds file to an external decoder on stdin and returns its stdout.
// tooling problems (cannot start, killed by a signal) are reported as
// inconclusive, never as a violation.
func runTool(path string, args []string, file []byte) (out []byte, msg string) {
	var lastErr error
	for attempt := 0; attempt < 3; attempt++ {
		cmd := exec.Command(path, args...)
		cmd.Env = []string{"LC_ALL=C", "PATH=/usr/bin:/bin"}
		cmd.Stdin = bytes.NewReader(file)
		var so, se bytes.Buffer
		cmd.Stdout, cmd.Stderr = &so, &se
		err := cmd.Run()
		if err == nil {
			return so.Bytes(), ""
		}
		if ee, ok := err.(*exec.ExitError); ok && ee.ExitCode() > 0 {
			return so.Bytes(), fmt.Sprintf("exit status %d, stderr %q", ee.ExitCode(), strings.TrimSpace(se.String()))
		}
		lastErr = err
		time.Sleep(50 * time.Millisecond)
	}
	return nil, inconclusive + fmt.Sprintf("cannot run %s: %v", path, lastErr)
}

// ---------------------------------------------------------------- round trip

// RTCase fully determines one round-trip check.
type RTCase struct {
	Format   string `json:"format"` // "lzma" | "xz"
	Segs     []Seg  `json:"segs"`
	EncDst   []byte `json:"enc_dst,omitempty"`   // dst prefix passed to Encode
	EncSpare int    `json:"enc_spare,omitempty"` // spare capacity behind that prefix
	DecDst   []byte `json:"dec_dst,omitempty"`
	DecSpare int    `json:"dec_spare,omitempty"`
	Trailer  []byte `json:"trailer,omitempty"` // bytes after the encoded file given to Decode
	Xz       bool   `json:"xz,omitempty"`      // also decode with the external decoders
}

func sizeClass(n int) string {
	switch {
	case n == 0:
		return "size:0"
	case n == 1:
		return "size:1"
	case n < 256:
		return "size:2..255"
	case n < 4096:
		return "size:256..4095"
	case n < 65535:
		return "size:4096..65534"
	case n <= 65537:
		return "size:65535..65537"
	case n < 131071:
		return "size:65538..131070"
	case n <= 131073:
		return "size:131071..131073"
	case n < 512<<10:
		return "size:131074..512K"
	}
	return "size:512K..1M"
}

func chainClass(prefix string, n uint64) string {
	switch {
	case n == 0:
		return prefix + ":0"
	case n == 1:
		return prefix + ":1"
	case n < 4:
		return prefix + ":2..3"
	case n < 16:
		return prefix + ":4..15"
	case n < 256:
		return prefix + ":16..255"
	}
	return prefix + ":256+"
}

// xzChunkKinds walks the LZMA2 chunk sequence of an XZ file made by Encode.
func xzChunkKinds(file []byte) (raw, lz int, ok bool) {
	if len(file) < 24 {
		return 0, 0, false
	}
	p := file[24:]
	for {
		if len(p) == 0 {
			return raw, lz, false
		}
		switch {
		case p[0] == 0:
			return raw, lz, true
		case p[0] == 1 || p[0] == 2:
			if len(p) < 3 {
				return raw, lz, false
			}
			n := 3 + (int(p[1])<<8 | int(p[2])) + 1
			if n > len(p) {
				return raw, lz, false
			}
			raw++
			p = p[n:]
		case p[0] >= 0x80:
			h := 5
			if p[0] >= 0xC0 {
				h = 6
			}
			if len(p) < h {
				return raw, lz, false
			}
			n := h + (int(p[3])<<8 | int(p[4])) + 1
			if n > len(p) {
				return raw, lz, false
			}
			lz++
			p = p[n:]
		default:
			return raw, lz, false
		}
	}
}

func short(b []byte) string {
	if len(b) <= 48 {
		return fmt.Sprintf("%d bytes % x", len(b), b)
	}
	return fmt.Sprintf("%d bytes % x … % x", len(b), b[:24], b[len(b)-16:])
}

func firstDiff(a, b []byte) int {
	n := len(a)
	if len(b) < n {
		n = len(b)
	}
	for i := 0; i < n; i++ {
		if a[i] != b[i] {
			return i
		}
	}
	return n
}

// checkRT is the round-trip oracle.
func checkRT(c RTCase) (msg string, nontrivial bool, classes []string) {
	if c.Format != "lzma" && c.Format != "xz" {
		return "bad case: format " + c.Format, false, nil
	}
	f := fileFormat(c.Format)
	x := expand(c.Format, c.Segs)
	xOrig := append([]byte(nil), x...)

	enc, err := f.Encode(mkDst(c.EncDst, c.EncSpare), x)
	if err != nil {
		return fmt.Sprintf("%v.Encode(%d bytes) returned error %v", f, len(x), err), false, nil
	}
	if !bytes.Equal(x, xOrig) {
		return "Encode modified its src argument", false, nil
	}
	if len(enc) < len(c.EncDst) || !bytes.Equal(enc[:len(c.EncDst)], c.EncDst) {
		return fmt.Sprintf("Encode did not preserve the %d-byte dst prefix: got %s", len(c.EncDst), short(enc)), false, nil
	}
	file := append([]byte(nil), enc[len(c.EncDst):]...)

	// (1) Decode(Encode(x)) == x, nothing left over (but the trailer), nil error.
	src := append(append(make([]byte, 0, len(file)+len(c.Trailer)), file...), c.Trailer...)
	srcOrig := append([]byte(nil), src...)
	dec, rem, err := f.Decode(mkDst(c.DecDst, c.DecSpare), src)
	if !bytes.Equal(src, srcOrig) {
		return "Decode modified its src argument", false, nil
	}
	if err != nil {
		return fmt.Sprintf("%v.Decode(Encode(x)) returned error %q (payload %s; file %s; %d bytes decoded)", f, err, short(x), short(file), len(dec)-len(c.DecDst)), false, nil
	}
	if len(dec) < len(c.DecDst) || !bytes.Equal(dec[:len(c.DecDst)], c.DecDst) {
		return fmt.Sprintf("Decode did not preserve the %d-byte dst prefix", len(c.DecDst)), false, nil
	}
	if got := dec[len(c.DecDst):]; !bytes.Equal(got, x) {
		return fmt.Sprintf("%v round trip differs: payload %s, decoded %s, first difference at %d", f, short(x), short(got), firstDiff(got, x)), false, nil
	}
	if !bytes.Equal(rem, c.Trailer) {
		return fmt.Sprintf("%v.Decode left %d bytes of source, want exactly the %d-byte trailer (file is %d bytes)", f, len(rem), len(c.Trailer), len(file)), false, nil
	}

	classes = append(classes, "fmt:"+c.Format, sizeClass(len(x)))
	switch len(x) {
	case 127, 128, 129, 16383, 16384, 16385:
		classes = append(classes, "size:varint-edge")
	}
	st := analyse(c.Format, x)
	classes = append(classes, chainClass("chain", st.maxChain), chainClass("chain-resolved-by-carry", st.chainCarry),
		chainClass("chain-resolved-plain", st.chainPlain))
	if st.carries > 0 {
		classes = append(classes, "carry:some")
	} else {
		classes = append(classes, "carry:none")
	}
	if c.Format == "xz" {
		if raw, lz, ok := xzChunkKinds(file); ok {
			switch {
			case raw > 0 && lz > 0:
				classes = append(classes, "xz:raw+lzma-chunks")
			case raw > 0:
				classes = append(classes, "xz:raw-chunks-only")
			case lz > 0:
				classes = append(classes, "xz:lzma-chunks-only")
			}
			if raw+lz >= 2 {
				classes = append(classes, "xz:multi-chunk")
			}
		}
		if st.chunks > 0 {
			switch {
			case st.minMargin <= 2:
				classes = append(classes, "xz:choice-margin<=2")
			case st.minMargin <= 16:
				classes = append(classes, "xz:choice-margin<=16")
			}
		}
		if st.rawOver {
			classes = append(classes, "xz:lzma-stream>64KiB(raw-forced)")
		}
	}
	if len(c.EncDst) > 0 {
		classes = append(classes, "prefix:enc")
		if len(c.EncDst)%4 != 0 {
			classes = append(classes, "prefix:enc-unaligned")
		}
	}
	if len(c.DecDst) > 0 {
		classes = append(classes, "prefix:dec")
	}
	if len(c.Trailer) > 0 {
		classes = append(classes, "trailer")
	}

	// (2) the xz tool, (3) the Wuffs std/lzma | std/xz decoders.
	if c.Xz {
		if xzPath == "" {
			return inconclusive + "no xz tool found", false, nil
		}
		out, m := runTool(xzPath, []string{"-dc", "--format=" + c.Format}, file)
		if strings.HasPrefix(m, inconclusive) {
			return m, false, nil
		}
		if m != "" {
			return fmt.Sprintf("xz -dc --format=%s rejects the encoding of %s: %s (file %s)", c.Format, short(x), m, short(file)), false, nil
		}
		if !bytes.Equal(out, x) {
			return fmt.Sprintf("xz -dc --format=%s decodes to different bytes: payload %s, xz gives %s, first difference at %d", c.Format, short(x), short(out), firstDiff(out, x)), false, nil
		}
		classes = append(classes, "xz-subprocess-checked")

		// The Wuffs std/lzma and std/xz decoders are reached through the E3 harness
		// (VERIF_STDH_DECODE names its sanitizer-built executable, see wuffsdec_test.go).
		if h := os.Getenv("VERIF_STDH_DECODE"); h != "" {
			out, m := wuffsDecode(h, c.Format, file)
			if strings.HasPrefix(m, inconclusive) {
				return m, false, nil
			}
			if m != "" {
				return fmt.Sprintf("Wuffs std/%s decoder rejects the encoding of %s: %s", c.Format, short(x), m), false, nil
			}
			if !bytes.Equal(out, x) {
				return fmt.Sprintf("Wuffs std/%s decodes to different bytes: payload %s, got %s", c.Format, short(x), short(out)), false, nil
			}
			classes = append(classes, "wuffs-decoder-checked")
		} else {
			classes = append(classes, "wuffs-decoder-skipped")
		}
	}
	return "", len(x) >= 256, classes
}

// ---------------------------------------------------------------- robustness

// Mut is one mutation of the file bytes.
type Mut struct {
	Op  string `json:"op"`
	Sub int    `json:"sub,omitempty"`
	Pos int    `json:"pos,omitempty"`
	N   int    `json:"n,omitempty"`
	Val uint64 `json:"val,omitempty"`
	B   []byte `json:"b,omitempty"`
}

// RobCase fully determines one robustness check.
type RobCase struct {
	Format   string `json:"format"`         // format of the valid base file
	As       string `json:"as"`             // format given to Decode
	Segs     []Seg  `json:"segs,omitempty"` // payload of the base file (Encode'd) when UseRaw is false
	UseRaw   bool   `json:"use_raw,omitempty"`
	Raw      []byte `json:"raw,omitempty"` // base bytes, given directly
	Muts     []Mut  `json:"muts,omitempty"`
	DecDst   []byte `json:"dec_dst,omitempty"`
	DecSpare int    `json:"dec_spare,omitempty"`
}

// xzLayout locates the fields of an XZ file with one block (as produced by
// Encode), leniently: ok reports how far the walk got.
type xzLayout struct {
	chunks  [][3]int // offset, header length, data length
	end     int      // offset of the 0x00 end-of-chunks marker (-1: not found)
	pad     [2]int   // block padding offset, length
	crc     int      // block check offset
	index   int      // index offset (indicator byte)
	v1, v2  [2]int   // the two varints of the index record: offset, length
	idxPad  [2]int
	idxCrc  int
	footer  int
	haveIdx bool
	haveAll bool
}

func varintLen(p []byte) int {
	for i := 0; i < len(p) && i < 10; i++ {
		if p[i]&0x80 == 0 {
			return i + 1
		}
	}
	return 0
}

func parseXz(b []byte) (l xzLayout) {
	l.end = -1
	if len(b) < 24 {
		return
	}
	o := 24
	for {
		if o >= len(b) {
			return
		}
		ctl := b[o]
		if ctl == 0 {
			l.end = o
			o++
			break
		}
		h := 0
		switch {
		case ctl == 1 || ctl == 2:
			h = 3
		case ctl >= 0xC0:
			h = 6
		case ctl >= 0x80:
			h = 5
		default:
			return
		}
		if o+h > len(b) {
			return
		}
		d := 0
		if h == 3 {
			d = (int(b[o+1])<<8 | int(b[o+2])) + 1
		} else {
			d = (int(b[o+3])<<8 | int(b[o+4])) + 1
		}
		if o+h+d > len(b) {
			return
		}
		l.chunks = append(l.chunks, [3]int{o, h, d})
		o += h + d
	}
	padLen := (4 - (o-12)&3) & 3
	l.pad = [2]int{o, padLen}
	o += padLen
	l.crc = o
	o += 4
	if o+2 > len(b) {
		return
	}
	l.index = o
	o += 2
	n := varintLen(b[o:])
	if n == 0 {
		return
	}
	l.v1 = [2]int{o, n}
	o += n
	n = varintLen(b[o:])
	if n == 0 {
		return
	}
	l.v2 = [2]int{o, n}
	o += n
	l.haveIdx = true
	padLen = (4 - (o-l.index)&3) & 3
	l.idxPad = [2]int{o, padLen}
	o += padLen
	l.idxCrc = o
	o += 4
	l.footer = o
	if o+12 <= len(b) {
		l.haveAll = true
	}
	return
}

func putUvarint(x uint64) []byte {
	var out []byte
	for ; x >= 0x80; x >>= 7 {
		out = append(out, byte(x)|0x80)
	}
	return append(out, byte(x))
}

func splice(b []byte, off, n int, repl []byte) []byte {
	out := make([]byte, 0, len(b)-n+len(repl))
	out = append(out, b[:off]...)
	out = append(out, repl...)
	return append(out, b[off+n:]...)
}

func setAt(b []byte, off int, v []byte) {
	for i := 0; i < len(v) && off+i < len(b); i++ {
		if off+i >= 0 {
			b[off+i] = v[i]
		}
	}
}

func be16(v uint64) []byte { return []byte{byte(v >> 8), byte(v)} }
func le32(v uint32) []byte { return []byte{byte(v), byte(v >> 8), byte(v >> 16), byte(v >> 24)} }

// applyMut applies one mutation; structured mutations that do not find their
// field in the current bytes degrade to a byte overwrite at Pos.
func applyMut(b []byte, m Mut) []byte {
	b = append([]byte(nil), b...)
	pos := func(n int) int {
		if n <= 0 {
			return 0
		}
		p := m.Pos % n
		if p < 0 {
			p += n
		}
		return p
	}
	fallback := func() []byte {
		if len(b) > 0 {
			v := m.B
			if len(v) == 0 {
				v = []byte{byte(m.Val)}
			}
			setAt(b, pos(len(b)), v)
		}
		return b
	}
	nn := m.N
	if nn < 0 {
		nn = 0
	}
	switch m.Op {
	case "set":
		return fallback()
	case "xor":
		if len(b) > 0 {
			v := byte(m.Val)
			if v == 0 {
				v = 1
			}
			b[pos(len(b))] ^= v
		}
		return b
	case "ins":
		return splice(b, pos(len(b)+1), 0, m.B)
	case "del":
		if len(b) == 0 {
			return b
		}
		p := pos(len(b))
		if p+nn > len(b) {
			nn = len(b) - p
		}
		return splice(b, p, nn, nil)
	case "trunc":
		return b[:pos(len(b)+1)]
	case "dup":
		if len(b) == 0 {
			return b
		}
		p := pos(len(b))
		if p+nn > len(b) {
			nn = len(b) - p
		}
		return splice(b, p+nn, 0, b[p:p+nn])
	case "append":
		return append(b, m.B...)
	case "lzsize": // the 8-byte uncompressed-size field of the 13-byte LZMA header
		if len(b) < 13 {
			return fallback()
		}
		cur := binary.LittleEndian.Uint64(b[5:13])
		v := m.Val
		switch m.Sub {
		case 1:
			v = cur + m.Val
		case 2:
			v = cur - m.Val
		}
		binary.LittleEndian.PutUint64(b[5:13], v)
		return b
	case "chunk": // an LZMA2 chunk header
		l := parseXz(b)
		if len(l.chunks) == 0 {
			return fallback()
		}
		ch := l.chunks[pos(len(l.chunks))]
		o, h := ch[0], ch[1]
		switch m.Sub {
		case 0: // control byte
			b[o] = byte(m.Val)
		case 1: // uncompressed size field
			setAt(b, o+1, be16(m.Val))
		case 2: // uncompressed size, relative
			cur := uint64(b[o+1])<<8 | uint64(b[o+2])
			setAt(b, o+1, be16(cur+m.Val-4))
		case 3: // compressed size field
			if h < 5 {
				return fallback()
			}
			setAt(b, o+3, be16(m.Val))
		case 4: // compressed size, relative
			if h < 5 {
				return fallback()
			}
			cur := uint64(b[o+3])<<8 | uint64(b[o+4])
			setAt(b, o+3, be16(cur+m.Val-4))
		case 5: // properties byte
			if h < 6 {
				return fallback()
			}
			b[o+5] = byte(m.Val)
		case 6: // first byte of the chunk data (the range coder's 0x00)
			if o+h < len(b) {
				b[o+h] = byte(m.Val)
			}
		default: // last byte of the chunk data
			if e := o + h + ch[2] - 1; e < len(b) {
				b[e] ^= byte(m.Val) | 1
			}
		}
		return b
	case "end": // end marker, block padding, block check
		l := parseXz(b)
		if l.end < 0 {
			return fallback()
		}
		switch m.Sub {
		case 0:
			b[l.end] = byte(m.Val)
		case 1:
			if l.pad[1] == 0 || l.pad[0] >= len(b) {
				return fallback()
			}
			b[l.pad[0]+pos(l.pad[1])%max(1, len(b)-l.pad[0])] = byte(m.Val) | 1
		case 2: // extra padding
			return splice(b, min(l.pad[0], len(b)), 0, make([]byte, 1+nn%8))
		case 3: // missing padding
			if l.pad[1] == 0 || l.pad[0]+1 > len(b) {
				return fallback()
			}
			return splice(b, l.pad[0], 1, nil)
		default:
			if l.crc+4 > len(b) {
				return fallback()
			}
			b[l.crc+pos(4)] ^= byte(m.Val) | 1
		}
		return b
	case "index":
		l := parseXz(b)
		if !l.haveIdx {
			return fallback()
		}
		switch m.Sub {
		case 0:
			b[l.index] = byte(m.Val)
		case 1:
			b[l.index+1] = byte(m.Val)
		case 2, 3, 4, 5: // replace a varint by the encoding of Val / by raw bytes
			v := l.v1
			if m.Sub&1 == 1 {
				v = l.v2
			}
			repl := putUvarint(m.Val)
			if m.Sub >= 4 {
				repl = m.B
			}
			return splice(b, v[0], v[1], repl)
		case 6:
			if l.idxPad[1] == 0 || l.idxPad[0] >= len(b) {
				return fallback()
			}
			b[l.idxPad[0]] = byte(m.Val) | 1
		default:
			if l.idxCrc+4 > len(b) {
				return fallback()
			}
			b[l.idxCrc+pos(4)] ^= byte(m.Val) | 1
		}
		return b
	case "footer":
		l := parseXz(b)
		if !l.haveAll {
			return fallback()
		}
		o := l.footer
		switch m.Sub {
		case 0:
			b[o+pos(4)] ^= byte(m.Val) | 1
		case 1:
			setAt(b, o+4, le32(uint32(m.Val)))
		case 2:
			setAt(b, o+8, be16(m.Val))
		default:
			setAt(b, o+10, be16(m.Val))
		}
		return b
	case "fix": // recompute index padding + index CRC (1), footer backward size + CRC (2)
		l := parseXz(b)
		if !l.haveIdx {
			return b
		}
		if m.Sub&1 != 0 {
			// re-pad the index, rewrite its CRC
			body := append([]byte(nil), b[l.index:l.idxPad[0]]...)
			for len(body)&3 != 0 {
				body = append(body, 0)
			}
			rest := []byte(nil)
			if l.footer <= len(b) {
				rest = append(rest, b[l.footer:]...)
			}
			nb := append(append([]byte(nil), b[:l.index]...), body...)
			nb = append(nb, le32(crc32.ChecksumIEEE(body))...)
			b = append(nb, rest...)
			l = parseXz(b)
		}
		if m.Sub&2 != 0 && l.haveAll {
			o := l.footer
			setAt(b, o+4, le32(uint32((l.idxCrc-l.index)>>2)))
			setAt(b, o, le32(crc32.ChecksumIEEE(b[o+4:o+10])))
		}
		return b
	}
	return fallback()
}

func (c RobCase) build() (src []byte, msg string) {
	if c.UseRaw {
		src = append([]byte(nil), c.Raw...)
	} else {
		x := expand(c.Format, c.Segs)
		enc, err := fileFormat(c.Format).Encode(nil, x)
		if err != nil {
			return nil, fmt.Sprintf("Encode(%d bytes) returned error %v", len(x), err)
		}
		src = enc
	}
	for _, m := range c.Muts {
		src = applyMut(src, m)
	}
	return src, ""
}

func headerParses(as string, src []byte) bool {
	if as == "xz" {
		return len(src) >= 24 && string(src[:24]) == xzHdr24
	}
	return len(src) >= 18 && string(src[:5]) == lzmaHdr5 && int64(binary.LittleEndian.Uint64(src[5:13])) >= 0
}

// checkRob is the robustness oracle: Decode is total (the caller's recover
// turns a panic into a violation), its output is bounded by a fixed multiple
// of the input size, the dst prefix is preserved and the returned remaining
// source is a suffix of src.
func checkRob(c RobCase) (msg string, nontrivial bool, classes []string) {
	if (c.Format != "lzma" && c.Format != "xz") || (c.As != "lzma" && c.As != "xz") {
		return "bad case: format", false, nil
	}
	src, m := c.build()
	if m != "" {
		return m, false, nil
	}
	srcOrig := append([]byte(nil), src...)
	dec, rem, err := fileFormat(c.As).Decode(mkDst(c.DecDst, c.DecSpare), src)
	if !bytes.Equal(src, srcOrig) {
		return "Decode modified its src argument", false, nil
	}
	if len(dec) < len(c.DecDst) || !bytes.Equal(dec[:len(c.DecDst)], c.DecDst) {
		return fmt.Sprintf("Decode did not preserve the %d-byte dst prefix (returned %d bytes, err %v)", len(c.DecDst), len(dec), err), false, nil
	}
	out := len(dec) - len(c.DecDst)
	if bound := 64*len(src) + 64; out > bound {
		return fmt.Sprintf("Decode(%s, %d-byte source) appended %d bytes > 64*len(src)+64 = %d (err %v)", c.As, len(src), out, bound, err), false, nil
	}
	if len(rem) > len(src) || !bytes.Equal(rem, src[len(src)-len(rem):]) {
		return fmt.Sprintf("Decode returned a remaining source (%s) that is not a suffix of src (%s)", short(rem), short(src)), false, nil
	}

	classes = append(classes, "rob:as:"+c.As)
	if c.As != c.Format {
		classes = append(classes, "rob:cross-format")
	}
	if c.UseRaw {
		classes = append(classes, "rob:base:raw-bytes")
	} else {
		classes = append(classes, "rob:base:valid-file")
	}
	for _, mu := range c.Muts {
		classes = append(classes, "rob:op:"+mu.Op)
	}
	hp := headerParses(c.As, src)
	if hp {
		classes = append(classes, "rob:header-parses")
		if c.As == "lzma" && binary.LittleEndian.Uint64(src[5:13]) >= 1<<32 {
			classes = append(classes, "rob:lzma-size>=2^32")
		}
	}
	switch {
	case err == nil:
		classes = append(classes, "rob:err:nil")
	case err == litonlylzma.ErrUnsupportedLZMAData || err == litonlylzma.ErrUnsupportedXzData:
		classes = append(classes, "rob:err:unsupported")
	case strings.Contains(err.Error(), "EOF"):
		classes = append(classes, "rob:err:unexpected-eof")
	case strings.Contains(err.Error(), "invalid"):
		classes = append(classes, "rob:err:invalid")
	default:
		classes = append(classes, "rob:err:other")
	}
	if err != nil && out > 0 {
		classes = append(classes, "rob:partial-output-with-error")
	}
	switch {
	case out >= 32*len(src) && out > 0:
		classes = append(classes, "rob:expansion>=32x")
	case out >= 8*len(src) && out > 0:
		classes = append(classes, "rob:expansion>=8x")
	case out > len(src):
		classes = append(classes, "rob:expansion>1x")
	}
	if len(rem) > 0 {
		classes = append(classes, "rob:rem-nonempty")
	}
	return "", hp && (c.UseRaw || len(c.Muts) > 0), classes
}

// ---------------------------------------------------------------- generators

var spicy = []byte{0xFF, 0x00, 0x7F, 0x80, 0xFE, 0x01, 0x3F, 0xC0}

func genByte() *rapid.Generator[byte] {
	return rapid.OneOf(rapid.SampledFrom(spicy), rapid.SampledFrom(spicy[:4]), rapid.Byte())
}

func genSeed(t *rapid.T, label string) uint64 { return rapid.Uint64().Draw(t, label) }

// uniform draws an (almost exactly) uniform integer in [0, n): rapid's integer
// generators are deliberately biased towards small values, which is unwanted
// when choosing between weighted alternatives. It shrinks towards 0.
func uniform(t *rapid.T, n int, label string) int {
	v := 0
	for _, b := range rapid.SliceOfN(rapid.Bool(), 24, 24).Draw(t, label) {
		v <<= 1
		if b {
			v |= 1
		}
	}
	return v % n
}

// genSeg draws a segment of exactly n bytes.
func genSeg(t *rapid.T, n int, label string) Seg {
	kinds := []string{"run", "rand", "text", "bias", "bias"}
	if n <= 600 {
		kinds = append(kinds, "lit", "lit")
	}
	if n <= 3000 {
		kinds = append(kinds, "adv", "adv")
	}
	k := kinds[uniform(t, len(kinds), label+"_kind")]
	sg := Seg{K: k, N: n}
	switch k {
	case "lit":
		sg.N = 0
		sg.B = rapid.SliceOfN(genByte(), n, n).Draw(t, label+"_bytes")
	case "run":
		sg.B = []byte{rapid.OneOf(rapid.SampledFrom([]byte{0x00, 0xFF, 0xFF}), genByte()).Draw(t, label+"_byte")}
	case "rand", "text":
		sg.Seed = genSeed(t, label+"_seed")
	case "bias":
		sg.Seed = genSeed(t, label+"_seed")
		sg.B = rapid.SliceOfN(genByte(), 1, 5).Draw(t, label+"_alphabet")
	case "adv":
		sg.Seed = genSeed(t, label+"_seed")
		sg.Mode = rapid.SampledFrom([]int{0, 0, 0, 4, 4, 8, 1, 2, 5, 9}).Draw(t, label+"_mode")
		sg.Cand = rapid.SampledFrom([]int{256, 256, 256, 64, 16, 4}).Draw(t, label+"_cand")
		if n > 1500 && sg.Cand == 256 {
			sg.Cand = 64
		}
	}
	return sg
}

// genSegsTotal draws 1..k segments whose lengths sum to total.
func genSegsTotal(t *rapid.T, total, k int, label string) []Seg {
	if total == 0 {
		return nil
	}
	n := rapid.IntRange(1, k).Draw(t, label+"_nseg")
	cuts := []int{0, total}
	for i := 1; i < n; i++ {
		cuts = append(cuts, rapid.IntRange(0, total).Draw(t, label+"_cut"))
	}
	for i := range cuts { // insertion sort
		for j := i; j > 0 && cuts[j] < cuts[j-1]; j-- {
			cuts[j], cuts[j-1] = cuts[j-1], cuts[j]
		}
	}
	var segs []Seg
	for i := 1; i < len(cuts); i++ {
		if cuts[i] > cuts[i-1] {
			segs = append(segs, genSeg(t, cuts[i]-cuts[i-1], fmt.Sprintf("%s_s%d", label, i)))
		}
	}
	return segs
}

func genPrefix(t *rapid.T, label string) ([]byte, int) {
	switch uniform(t, 10, label+"_kind") {
	case 0, 1, 2, 3:
		return nil, 0
	case 4:
		return nil, rapid.IntRange(1, 100).Draw(t, label+"_spare")
	case 5, 6:
		return rapid.SliceOfN(genByte(), 1, 9).Draw(t, label), 0
	case 7:
		return rapid.SliceOfN(genByte(), 1, 40).Draw(t, label), rapid.SampledFrom([]int{0, 1, 13, 24, 100, 70000}).Draw(t, label+"_spare")
	}
	return rapid.SliceOfN(genByte(), 1, 40).Draw(t, label), 0
}

func genRT(t *rapid.T) RTCase {
	c := RTCase{Format: rapid.SampledFrom([]string{"lzma", "xz"}).Draw(t, "format")}
	shape := uniform(t, 1000, "shape")
	xzPct := 10
	switch {
	case shape < 10: // empty
	case shape < 20: // one byte
		c.Segs = []Seg{{K: "lit", B: []byte{genByte().Draw(t, "byte")}}}
	case shape < 80: // tiny
		c.Segs = genSegsTotal(t, rapid.IntRange(2, 255).Draw(t, "size"), 2, "p")
	case shape < 560: // small mixes (the bulk)
		c.Segs = genSegsTotal(t, rapid.IntRange(256, 4096).Draw(t, "size"), 4, "p")
	case shape < 700: // an adversarial segment after a short lead-in, then a short tail
		lead := rapid.IntRange(0, 300).Draw(t, "lead")
		if lead > 0 {
			c.Segs = append(c.Segs, genSeg(t, lead, "lead"))
		}
		adv := Seg{K: "adv", N: rapid.IntRange(256, 1200).Draw(t, "adv_n"), Seed: genSeed(t, "adv_seed"),
			Mode: rapid.SampledFrom([]int{0, 0, 4, 4, 8, 1}).Draw(t, "adv_mode"), Cand: rapid.SampledFrom([]int{256, 256, 64}).Draw(t, "adv_cand")}
		c.Segs = append(c.Segs, adv)
		if tail := rapid.IntRange(0, 64).Draw(t, "tail"); tail > 0 {
			c.Segs = append(c.Segs, Seg{K: "lit", B: rapid.SliceOfN(genByte(), tail, tail).Draw(t, "tail_bytes")})
		}
	case shape < 760: // sizes on the varint / power-of-two edges
		size := rapid.SampledFrom([]int{127, 128, 129, 255, 256, 257, 4095, 4096, 4097, 16383, 16384, 16385}).Draw(t, "size")
		c.Segs = genSegsTotal(t, size, 2, "p")
	case shape < 830: // chunk framing edges
		size := rapid.SampledFrom([]int{65535, 65536, 65537, 131071, 131072, 131073, 196608, 196609}).Draw(t, "size")
		c.Segs = genSegsTotal(t, size, 3, "p")
		xzPct = 50
	case shape < 850: // a 64 KiB chunk sitting on the raw-vs-LZMA decision edge
		c.Segs = []Seg{{K: "edge", N: 65536, Seed: genSeed(t, "edge_seed"), Mode: rapid.IntRange(-4, 6).Draw(t, "edge_delta")}}
		if tail := rapid.IntRange(0, 2).Draw(t, "tail_kind"); tail > 0 {
			c.Segs = append(c.Segs, genSeg(t, rapid.IntRange(1, 3000).Draw(t, "tail"), "tail"))
		}
		xzPct = 50
	case shape < 900: // smaller chunks on the decision edge
		c.Segs = []Seg{{K: "edge", N: rapid.IntRange(8, 6000).Draw(t, "edge_n"), Seed: genSeed(t, "edge_seed"), Mode: rapid.IntRange(-6, 8).Draw(t, "edge_delta")}}
	case shape < 950: // long runs
		b := rapid.SampledFrom([]byte{0x00, 0xFF}).Draw(t, "run_byte")
		c.Segs = []Seg{{K: "run", N: rapid.IntRange(1000, 200000).Draw(t, "run_n"), B: []byte{b}}}
		if rapid.Bool().Draw(t, "run_tail") {
			c.Segs = append(c.Segs, genSeg(t, rapid.IntRange(1, 600).Draw(t, "tail"), "tail"))
		}
	case shape < 994: // medium
		c.Segs = genSegsTotal(t, rapid.IntRange(4097, 70000).Draw(t, "size"), 3, "p")
	default: // up to 1 MiB (few)
		c.Segs = genSegsTotal(t, rapid.IntRange(70001, 1<<20).Draw(t, "size"), 4, "p")
		xzPct = 100
	}
	c.EncDst, c.EncSpare = genPrefix(t, "enc_dst")
	c.DecDst, c.DecSpare = genPrefix(t, "dec_dst")
	if uniform(t, 6, "trailer_kind") == 0 {
		c.Trailer = rapid.SliceOfN(genByte(), 1, 20).Draw(t, "trailer")
	}
	c.Xz = uniform(t, 100, "xz_sample") < xzPct
	return c
}

var bigVals = []uint64{0, 1, 2, 255, 256, 65535, 65536, 65537, 1 << 20, 1 << 24, 1<<31 - 1, 1 << 31, 1<<32 - 1, 1 << 32,
	1 << 40, 1 << 62, 1<<63 - 1, 1 << 63, 1<<64 - 2, 1<<64 - 1}

func genU64(t *rapid.T, label string) uint64 {
	switch rapid.IntRange(0, 3).Draw(t, label+"_k") {
	case 0:
		return rapid.Uint64Range(0, 300).Draw(t, label)
	case 1:
		return rapid.Uint64().Draw(t, label)
	}
	return rapid.SampledFrom(bigVals).Draw(t, label)
}

func genMut(t *rapid.T, format string, label string) Mut {
	generic := []string{"set", "xor", "ins", "del", "trunc", "dup", "append"}
	var ops []string
	if format == "lzma" {
		ops = append(generic, "lzsize", "lzsize", "lzsize", "lzsize", "xor", "set")
	} else {
		ops = append(generic, "chunk", "chunk", "chunk", "end", "end", "index", "index", "index", "footer", "fix", "fix")
	}
	m := Mut{Op: ops[uniform(t, len(ops), label+"_op")]}
	m.Pos = rapid.OneOf(rapid.IntRange(0, 40), rapid.IntRange(0, 1<<20), rapid.IntRange(-30, -1)).Draw(t, label+"_pos")
	switch m.Op {
	case "set", "ins", "append":
		m.B = rapid.SliceOfN(genByte(), 1, 12).Draw(t, label+"_b")
	case "xor":
		m.Val = uint64(rapid.SampledFrom([]byte{1, 2, 4, 8, 16, 32, 64, 128, 0xFF}).Draw(t, label+"_bit"))
	case "del", "dup":
		m.N = rapid.IntRange(1, 300).Draw(t, label+"_n")
	case "lzsize":
		m.Sub = rapid.IntRange(0, 2).Draw(t, label+"_sub")
		if m.Sub == 0 {
			m.Val = genU64(t, label+"_val")
		} else {
			m.Val = rapid.OneOf(rapid.Uint64Range(1, 16), rapid.SampledFrom(bigVals)).Draw(t, label+"_val")
		}
	case "chunk":
		m.Sub = rapid.IntRange(0, 7).Draw(t, label+"_sub")
		switch m.Sub {
		case 0:
			m.Val = uint64(rapid.OneOf(rapid.SampledFrom([]byte{0x00, 0x01, 0x02, 0x03, 0x7F, 0x80, 0xA0, 0xC0, 0xE0, 0xE1, 0xFF}), rapid.Byte()).Draw(t, label+"_val"))
		case 2, 4:
			m.Val = rapid.Uint64Range(0, 8).Draw(t, label+"_val")
		default:
			m.Val = rapid.OneOf(rapid.SampledFrom([]uint64{0, 1, 0x5D, 0xFF, 0xFFFE, 0xFFFF}), rapid.Uint64Range(0, 0xFFFF)).Draw(t, label+"_val")
		}
	case "end", "index", "footer":
		m.Sub = rapid.IntRange(0, 7).Draw(t, label+"_sub")
		m.N = rapid.IntRange(0, 7).Draw(t, label+"_n")
		m.Val = genU64(t, label+"_val")
		if m.Op == "index" && m.Sub >= 4 && m.Sub <= 5 {
			m.B = rapid.SliceOfN(rapid.SampledFrom([]byte{0x80, 0xFF, 0x81, 0x00, 0x7F, 0x01}), 1, 11).Draw(t, label+"_b")
		}
	case "fix":
		m.Sub = rapid.IntRange(1, 3).Draw(t, label+"_sub")
	}
	return m
}

func genRob(t *rapid.T) RobCase {
	c := RobCase{Format: rapid.SampledFrom([]string{"lzma", "xz"}).Draw(t, "format")}
	c.As = c.Format
	if uniform(t, 25, "cross") == 0 {
		c.As = map[string]string{"lzma": "xz", "xz": "lzma"}[c.Format]
	}
	base := uniform(t, 100, "base")
	switch {
	case base < 62: // a valid file of a small payload, mutated
		c.Segs = genSegsTotal(t, rapid.IntRange(0, 1500).Draw(t, "size"), 3, "p")
	case base < 66: // a valid multi-chunk file, mutated
		c.Segs = genSegsTotal(t, rapid.IntRange(65530, 70000).Draw(t, "size"), 2, "p")
	case base < 72: // arbitrary bytes
		c.UseRaw = true
		c.Raw = rapid.SliceOfN(genByte(), 0, 200).Draw(t, "raw")
	case base < 86: // a valid header followed by arbitrary bytes
		c.UseRaw = true
		body := rapid.SliceOfN(genByte(), 0, 300).Draw(t, "body")
		if c.Format == "lzma" {
			var sz [8]byte
			binary.LittleEndian.PutUint64(sz[:], genU64(t, "size"))
			c.Raw = append(append([]byte(lzmaHdr5), sz[:]...), body...)
			if rapid.Bool().Draw(t, "rc0") {
				c.Raw = append(c.Raw[:13:13], append([]byte{0}, body...)...)
			}
		} else {
			c.Raw = append([]byte(xzHdr24), body...)
		}
	default: // a valid header and a body of zero bytes: the range decoder's best case (maximal expansion)
		c.UseRaw = true
		n := rapid.IntRange(5, 3000).Draw(t, "zeros")
		if c.Format == "lzma" {
			var sz [8]byte
			binary.LittleEndian.PutUint64(sz[:], rapid.SampledFrom(bigVals[6:17]).Draw(t, "size"))
			c.Raw = append(append([]byte(lzmaHdr5), sz[:]...), make([]byte, n)...)
		} else {
			// LZMA chunks claiming 64 KiB each over a zero body
			c.Raw = []byte(xzHdr24)
			k := rapid.IntRange(1, 4).Draw(t, "nchunks")
			for i := 0; i < k; i++ {
				us := rapid.SampledFrom([]uint64{0xFFFF, 0xFFFF, 0x1000, 0}).Draw(t, "usize")
				cs := rapid.OneOf(rapid.SampledFrom([]uint64{0xFFFF, 0, 4, 5}), rapid.Uint64Range(0, uint64(n))).Draw(t, "csize")
				c.Raw = append(c.Raw, 0xE0, byte(us>>8), byte(us), byte(cs>>8), byte(cs), 0x5D)
				c.Raw = append(c.Raw, make([]byte, n)...)
			}
		}
	}
	nm := rapid.IntRange(1, 4).Draw(t, "nmut")
	if c.UseRaw {
		nm = rapid.IntRange(0, 2).Draw(t, "nmut_raw")
	}
	for i := 0; i < nm; i++ {
		c.Muts = append(c.Muts, genMut(t, c.Format, fmt.Sprintf("m%d", i)))
	}
	c.DecDst, c.DecSpare = genPrefix(t, "dec_dst")
	return c
}

// ---------------------------------------------------------------- drivers

type fataler interface {
	Fatalf(string, ...any)
}

func guarded(kind string, c any, f func() (string, bool, []string)) (msg string, nt bool, cl []string) {
	wdArm(kind, c)
	defer wdDisarm()
	defer func() {
		if r := recover(); r != nil {
			buf := make([]byte, 4096)
			buf = buf[:runtime.Stack(buf, false)]
			msg = fmt.Sprintf("panic: %v\n%s", r, buf)
		}
	}()
	return f()
}

func finish(t fataler, kind string, c any, msg string, nt bool, classes []string, hash func() uint64) {
	if strings.HasPrefix(msg, inconclusive) {
		// tooling trouble: fail the shard without a reproducer => the driver reports "inconclusive".
		t.Fatalf("%s", msg)
	}
	if msg != "" {
		ev.Fail("C17", kind, c, msg)
		js, _ := json.Marshal(c)
		if len(js) > 2000 {
			js = append(js[:2000], "…"...)
		}
		t.Fatalf("C17 violated: %s\ncase: %s", msg, js)
	}
	for _, cl := range classes {
		ev.Class(cl)
	}
	if nt {
		ev.Nontrivial(hash(), func() any { return c })
	}
}

func runRT(t fataler, c RTCase) {
	ev.Eval()
	msg, nt, cl := guarded("roundtrip", c, func() (string, bool, []string) { return checkRT(c) })
	finish(t, "roundtrip", c, msg, nt, cl, func() uint64 { return ev.Hash(c.Format, expand(c.Format, c.Segs)) })
}

func runRob(t fataler, c RobCase) {
	ev.Eval()
	msg, nt, cl := guarded("robust", c, func() (string, bool, []string) { return checkRob(c) })
	finish(t, "robust", c, msg, nt, cl, func() uint64 {
		src, _ := c.build()
		return ev.Hash(c.As, src)
	})
}

func TestPropRoundTrip(t *testing.T) {
	if xzPath == "" {
		t.Fatalf("%sno xz tool found (looked for /usr/bin/xz and $PATH)", inconclusive)
	}
	rapid.Check(t, func(t *rapid.T) { runRT(t, genRT(t)) })
}

func TestPropRobust(t *testing.T) {
	rapid.Check(t, func(t *rapid.T) { runRob(t, genRob(t)) })
}

// FuzzDecode (thorough tier only): native fuzzing of Decode on raw bytes.
func FuzzDecode(f *testing.F) {
	for _, fm := range []litonlylzma.FileFormat{litonlylzma.FileFormatLZMA, litonlylzma.FileFormatXz} {
		for _, p := range [][]byte{nil, []byte("a"), bytes.Repeat([]byte{0xFF}, 300), textBytes(500, 1)} {
			enc, _ := fm.Encode(nil, p)
			f.Add(enc, fm == litonlylzma.FileFormatXz)
		}
	}
	f.Add(append(append([]byte(lzmaHdr5), 0, 0, 0, 0, 0, 0, 0, 0x40), make([]byte, 64)...), false)
	f.Fuzz(func(t *testing.T, data []byte, xz bool) {
		if len(data) > 1<<16 {
			return
		}
		runRob(t, fuzzCase(data, xz))
	})
}

func fuzzCase(data []byte, xz bool) RobCase {
	c := RobCase{Format: "lzma", As: "lzma", UseRaw: true, Raw: data}
	if xz {
		c.Format, c.As = "xz", "xz"
	}
	return c
}

// parseFuzzCorpus decodes a "go test fuzz v1" corpus file holding ([]byte, bool).
func parseFuzzCorpus(text string) (data []byte, xz bool, err error) {
	lines := strings.Split(strings.TrimSpace(text), "\n")
	if len(lines) < 3 || !strings.HasPrefix(lines[0], "go test fuzz v1") {
		return nil, false, fmt.Errorf("not a fuzz corpus file")
	}
	l := strings.TrimSpace(lines[1])
	if !strings.HasPrefix(l, "[]byte(") || !strings.HasSuffix(l, ")") {
		return nil, false, fmt.Errorf("bad []byte line %q", l)
	}
	s, err := strconv.Unquote(l[len("[]byte(") : len(l)-1])
	if err != nil {
		return nil, false, err
	}
	return []byte(s), strings.TrimSpace(lines[2]) == "bool(true)", nil
}

func TestReplay(t *testing.T) {
	path := ev.ReplayPath()
	if path == "" {
		t.Skip("no VERIF_REPLAY")
	}
	r, err := ev.LoadReplay(path)
	if err != nil {
		t.Fatalf("load %s: %v", path, err)
	}
	switch {
	case r.Kind == "roundtrip":
		var c RTCase
		if err := json.Unmarshal(r.Case, &c); err != nil {
			t.Fatalf("bad case: %v", err)
		}
		runRT(t, c)
	case r.Kind == "robust":
		var c RobCase
		if err := json.Unmarshal(r.Case, &c); err != nil {
			t.Fatalf("bad case: %v", err)
		}
		runRob(t, c)
	case r.Kind == "fuzz:FuzzDecode":
		var text string
		if err := json.Unmarshal(r.Case, &text); err != nil {
			t.Fatalf("bad case: %v", err)
		}
		data, xz, err := parseFuzzCorpus(text)
		if err != nil {
			t.Fatalf("bad corpus file: %v", err)
		}
		runRob(t, fuzzCase(data, xz))
	default:
		t.Fatalf("unknown replay kind %q", r.Kind)
	}
}
