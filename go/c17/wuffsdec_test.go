package c17

import (
	"fmt"
	"sync"

	"verif/stdh"
)

// wuffsDecode decodes file with the tree's std/lzma or std/xz decoder through
// the E3 harness (one persistent sanitizer-built process per test process;
// starting one per case costs seconds on this machine). The driver is the
// plain compliant one: whole source, closed, ample destination, ample work
// buffer (as upstream's own drivers use).
var (
	wdMu    sync.Mutex
	wdProc  *stdh.Proc
	wdKinds map[string]stdh.Kind
)

func wuffsDecode(bin, format string, file []byte) (out []byte, msg string) {
	wdMu.Lock()
	defer wdMu.Unlock()
	if wdKinds == nil {
		ks, _, err := stdh.List(bin)
		if err != nil {
			return nil, inconclusive + fmt.Sprintf("cannot list harness kinds: %v", err)
		}
		wdKinds = map[string]stdh.Kind{}
		for _, k := range ks {
			if k.Iface == stdh.IOT {
				wdKinds[k.Pkg()] = k
			}
		}
	}
	k, ok := wdKinds[format]
	if !ok {
		return nil, inconclusive + "the harness has no io_transformer for " + format
	}
	for attempt := 0; attempt < 2; attempt++ {
		if wdProc == nil {
			p, err := stdh.Start(bin)
			if err != nil {
				return nil, inconclusive + fmt.Sprintf("cannot start %s: %v", bin, err)
			}
			wdProc = p
		}
		r := stdh.NewReq(k.Index, file, 120, 1)
		r.Init(0, 0, 0, 0)
		r.Src(0, 0, true, true, nil)
		dcap := uint32(64*len(file) + 65536)
		if dcap > 1<<26 {
			dcap = 1 << 26
		}
		r.Dst(0, dcap, 0, 0, false)
		r.Work(5, 0)
		r.Drive(1 << 22)
		resp, err := wdProc.Run(r.Bytes())
		if err != nil {
			wdProc.Close()
			wdProc = nil
			if ce, isCrash := stdh.IsCrash(err); isCrash && !ce.Timeout && !ce.Alloc {
				return nil, fmt.Sprintf("the decoder crashed under ASan/UBSan: %v", err)
			}
			if attempt == 0 {
				continue
			}
			return nil, inconclusive + fmt.Sprintf("harness: %v", err)
		}
		if resp.Final != "" {
			return resp.Out, fmt.Sprintf("final status %q", resp.Final)
		}
		if resp.GaveUp {
			return resp.Out, "the driver gave up (no progress)"
		}
		if resp.NViol > 0 {
			return resp.Out, fmt.Sprintf("I/O contract violations: %v", resp.Violations)
		}
		if resp.Consumed != uint64(len(file)) {
			return resp.Out, fmt.Sprintf("consumed %d of %d bytes", resp.Consumed, len(file))
		}
		return resp.Out, ""
	}
	return nil, inconclusive + "harness unavailable"
}
