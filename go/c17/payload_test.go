package c17

import "sort"

// Seg is one segment of a payload recipe. A payload is the concatenation of
// the expansions of its segments; the expansion is a pure function of
// (format, segments), so a Case stays small even for 1 MiB payloads.
type Seg struct {
	K    string `json:"k"`              // lit | run | rand | text | bias | adv | edge
	N    int    `json:"n,omitempty"`    // length (every kind but lit)
	B    []byte `json:"b,omitempty"`    // lit: the bytes; run: B[0] is the byte; bias: the alphabet
	Seed uint64 `json:"seed,omitempty"` // rand/text/bias/adv/edge: seed of the deterministic expansion
	Mode int    `json:"mode,omitempty"` // adv: objective (see advSeg); edge: target delta
	Cand int    `json:"cand,omitempty"` // adv: candidates examined per byte (1..256)
}

// prng is splitmix64: the deterministic expander of a rapid-drawn seed.
type prng struct{ s uint64 }

func (p *prng) next() uint64 {
	p.s += 0x9E3779B97F4A7C15
	z := p.s
	z = (z ^ (z >> 30)) * 0xBF58476D1CE4E5B9
	z = (z ^ (z >> 27)) * 0x94D049BB133111EB
	return z ^ (z >> 31)
}

func (p *prng) bytes(n int) []byte {
	out := make([]byte, n)
	for i := 0; i < n; i += 8 {
		v := p.next()
		for j := 0; j < 8 && i+j < n; j++ {
			out[i+j] = byte(v >> (8 * uint(j)))
		}
	}
	return out
}

var words = []string{"the", "of", "and", "to", "in", "a", "is", "that", "for", "it", "as", "was", "with", "be", "by",
	"on", "not", "he", "this", "are", "or", "his", "from", "at", "which", "but", "have", "an", "had", "they", "you",
	"were", "their", "one", "all", "we", "can", "her", "has", "there", "been", "if", "more", "when", "will", "would",
	"who", "so", "no", "Wuffs", "decoder", "Romeo", "Juliet", "wherefore", "art", "thou", "range", "coder", "literal",
	"LZMA", "0xFF", "carry", "3.14159265358979"}

func textBytes(n int, seed uint64) []byte {
	p := prng{seed}
	out := make([]byte, 0, n+16)
	for len(out) < n {
		v := p.next()
		out = append(out, words[v%uint64(len(words))]...)
		switch (v >> 32) % 16 {
		case 0:
			out = append(out, '.', '\n')
		case 1:
			out = append(out, ',', ' ')
		default:
			out = append(out, ' ')
		}
	}
	return out[:n]
}

func biasBytes(n int, seed uint64, alphabet []byte) []byte {
	if len(alphabet) == 0 {
		alphabet = []byte{0xFF, 0x00, 0x7F, 0x80}
	}
	p := prng{seed}
	out := make([]byte, n)
	for i := range out {
		v := p.next()
		if v&1 == 0 {
			out[i] = alphabet[0] // the first letter gets half of the mass: long runs
		} else {
			out[i] = alphabet[(v>>8)%uint64(len(alphabet))]
		}
	}
	return out
}

// advSeg extends the payload by n bytes chosen greedily on the simulated
// encoder state s (which must be in sync with what the real encoder's state
// will be at this offset). Mode&3: 0 = maximise the pending 0xFF chain (keep
// `low` in 0xFF00_0000..0xFFFF_FFFF at every shiftLow), 1 = maximise the
// number of carries, 2 = keep low as small as possible (no carries at all).
// Mode&4: finish with up to 8 bytes that force a carry through the pending
// chain; Mode&8: finish with bytes that resolve the chain without carry.
func advSeg(s *sim, n int, seg Seg, xz bool, total int, emit func(byte)) {
	p := prng{seg.Seed}
	cand := seg.Cand
	if cand <= 0 || cand > 256 {
		cand = 256
	}
	obj := seg.Mode & 3
	tail := 0
	if seg.Mode&12 != 0 {
		tail = 8
		if tail > n {
			tail = n
		}
	}
	done := false
	for k := 0; k < n; k++ {
		if xz && total > 0 && total&0xFFFF == 0 {
			s.reset()
		}
		o := obj
		if k >= n-tail {
			if done {
				o = 3 // the chain has been resolved as requested: random filler
			} else if seg.Mode&4 != 0 {
				o = 4
			} else {
				o = 5
			}
		}
		best, bestScore := byte(p.next()), -1.0
		if o != 3 {
			base := byte(p.next())
			for c := 0; c < cand; c++ {
				b := base + byte(c)
				if cand < 256 {
					b = byte(p.next())
				}
				low, _, cs, car := s.trial(b)
				var score float64
				switch o {
				case 0:
					score = float64(cs) * 1e12
					if low>>32 == 0 {
						score += float64(low)
					}
				case 1:
					score = float64(car)*1e12 + float64(uint32(low))
				case 2:
					score = 1e12 - float64(car)*1e11 - float64(uint32(low))/16
				case 4: // force a carry: prefer an overflowed low, else the highest low
					score = float64(car)*1e13 + float64(low>>32)*1e12 + float64(uint32(low))
				case 5: // resolve without carry: chain broken and no carry
					if car == 0 && low>>32 == 0 {
						score = 1e12
						if cs == 1 {
							score = 2e12
						}
						score -= float64(uint32(low))
					}
				}
				if score > bestScore {
					best, bestScore = b, score
				}
			}
		}
		before, chainBefore := s.carries, s.cacheSize
		s.encodeByte(best)
		if o == 4 && s.carries > before {
			done = true
		}
		if o == 5 && s.cacheSize == 1 && chainBefore > 1 {
			done = true
		}
		emit(best)
		total++
	}
}

// edgeChunk builds n bytes (one XZ chunk when n <= 65536 and the segment
// starts on a chunk boundary) whose raw LZMA stream length minus n is as close
// as possible to delta: a random prefix followed by compressible filler, the
// split point found by bisection on the simulator.
func edgeChunk(n int, seed uint64, delta int) []byte {
	p := prng{seed}
	rnd := p.bytes(n)
	var fill []byte
	switch seed % 3 {
	case 0:
		fill = textBytes(n, seed>>8)
	case 1:
		fill = make([]byte, n)
	default:
		fill = biasBytes(n, seed>>8, []byte{0xFF, 0xFE})
	}
	buf := make([]byte, n)
	build := func(r int) []byte {
		copy(buf, rnd[:r])
		copy(buf[r:], fill[r:])
		return buf
	}
	f := func(r int) int { return rawLen(build(r)) - n }
	r := sort.Search(n+1, func(r int) bool { return f(r) >= delta })
	bestR, bestD := -1, 1<<30
	for d := 0; d <= 4; d++ {
		for _, rr := range []int{r + d, r - d} {
			if rr < 0 || rr > n {
				continue
			}
			v := f(rr) - delta
			if v < 0 {
				v = -v
			}
			if v < bestD {
				bestR, bestD = rr, v
			}
		}
		if bestD == 0 {
			break
		}
	}
	if bestR < 0 {
		bestR = n
	}
	return append([]byte(nil), build(bestR)...)
}

// expand turns a recipe into the payload bytes.
func expand(format string, segs []Seg) []byte {
	xz := format == "xz"
	var out []byte
	for _, sg := range segs {
		n := sg.N
		if n < 0 {
			n = 0
		}
		switch sg.K {
		case "lit":
			out = append(out, sg.B...)
		case "run":
			b := byte(0)
			if len(sg.B) > 0 {
				b = sg.B[0]
			}
			for i := 0; i < n; i++ {
				out = append(out, b)
			}
		case "rand":
			p := prng{sg.Seed}
			out = append(out, p.bytes(n)...)
		case "text":
			out = append(out, textBytes(n, sg.Seed)...)
		case "bias":
			out = append(out, biasBytes(n, sg.Seed, sg.B)...)
		case "edge":
			out = append(out, edgeChunk(n, sg.Seed, sg.Mode)...)
		case "adv":
			start := 0
			if xz {
				start = len(out) &^ 0xFFFF
			}
			s := newSim()
			s.encode(out[start:])
			advSeg(s, n, sg, xz, len(out), func(b byte) { out = append(out, b) })
		}
	}
	return out
}

// payloadStats classifies a payload the way the encoder will see it.
type payloadStats struct {
	maxChain, chainCarry, chainPlain uint64
	carries                          int
	chunks                           int
	minMargin                        int // min over XZ chunks of |(rawLen+6) - (len+3)|
	rawOver                          bool
}

func analyse(format string, x []byte) payloadStats {
	st := payloadStats{minMargin: 1 << 30}
	s := newSim()
	if format != "xz" {
		s.encode(x)
		s.flushedLen()
	} else {
		for off := 0; off < len(x); off += 0x10000 {
			end := off + 0x10000
			if end > len(x) {
				end = len(x)
			}
			s.reset()
			s.encode(x[off:end])
			l := s.flushedLen()
			st.chunks++
			m := (l + 6) - (end - off + 3)
			if l > 0x10000 {
				st.rawOver = true
			}
			if m < 0 {
				m = -m
			}
			if m < st.minMargin {
				st.minMargin = m
			}
		}
	}
	st.maxChain, st.chainCarry, st.chainPlain, st.carries = s.maxChain, s.chainCarry, s.chainPlain, s.carries
	return st
}
