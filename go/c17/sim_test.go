package c17

// sim is a local, independent re-implementation of the literal-only LZMA
// range encoder (written in the LZMA-SDK "cache/cacheSize" style). It is NOT
// an oracle: it is used (a) by generators that search for payloads keeping the
// encoder's `low` register near 0xFF…, or that sit on the raw-vs-LZMA chunk
// decision edge, and (b) to classify generated cases (carry chains, carries).
type sim struct {
	low       uint64
	rng       uint32
	cache     byte
	cacheSize uint64
	n         int // bytes emitted so far

	posProbs [4]uint16
	litProbs [8][256]uint16
	pos      uint32
	prev     byte

	// statistics
	shifts     int
	carries    int
	maxChain   uint64 // max number of pending 0xFF bytes (cacheSize-1)
	chainCarry uint64 // longest pending chain resolved by a carry
	chainPlain uint64 // longest pending chain resolved without carry
}

func newSim() *sim {
	s := &sim{}
	s.reset()
	return s
}

// reset starts a new independent range-coded stream (keeps statistics).
func (s *sim) reset() {
	s.low, s.rng, s.cache, s.cacheSize, s.n = 0, 0xFFFFFFFF, 0, 1, 0
	for i := range s.posProbs {
		s.posProbs[i] = 1024
	}
	for i := range s.litProbs {
		for j := range s.litProbs[i] {
			s.litProbs[i][j] = 1024
		}
	}
	s.pos, s.prev = 0, 0
}

func (s *sim) shiftLow() {
	s.shifts++
	if uint32(s.low) < 0xFF000000 || (s.low>>32) != 0 {
		chain := s.cacheSize - 1
		if s.low>>32 != 0 {
			s.carries++
			if chain > s.chainCarry {
				s.chainCarry = chain
			}
		} else if chain > s.chainPlain {
			s.chainPlain = chain
		}
		s.n += int(s.cacheSize)
		s.cacheSize = 0
		s.cache = byte(s.low >> 24)
	}
	s.cacheSize++
	if s.cacheSize-1 > s.maxChain {
		s.maxChain = s.cacheSize - 1
	}
	s.low = (s.low & 0x00FFFFFF) << 8
}

func (s *sim) bit(p *uint16, b uint32) {
	bound := (s.rng >> 11) * uint32(*p)
	if b == 0 {
		s.rng = bound
		*p += (2048 - *p) >> 5
	} else {
		s.low += uint64(bound)
		s.rng -= bound
		*p -= *p >> 5
	}
	if s.rng < 1<<24 {
		s.rng <<= 8
		s.shiftLow()
	}
}

func (s *sim) encodeByte(b byte) {
	s.bit(&s.posProbs[s.pos&3], 0)
	probs := &s.litProbs[s.prev>>5]
	idx := uint32(1)
	for i := 7; i >= 0; i-- {
		v := uint32(b>>uint(i)) & 1
		s.bit(&probs[idx], v)
		idx = idx<<1 | v
	}
	s.pos++
	s.prev = b
}

func (s *sim) encode(p []byte) {
	for _, b := range p {
		s.encodeByte(b)
	}
}

// flushedLen is the stream length if the encoder were flushed now.
func (s *sim) flushedLen() int {
	t := *s
	for i := 0; i < 5; i++ {
		t.shiftLow()
	}
	// propagate the flush's statistics (a chain may be resolved by the flush)
	s.carries, s.chainCarry, s.chainPlain, s.maxChain = t.carries, t.chainCarry, t.chainPlain, t.maxChain
	return t.n
}

// trial returns the range-coder registers after encoding b, without changing s.
func (s *sim) trial(b byte) (low uint64, rng uint32, cacheSize uint64, carries int) {
	low, rng, cacheSize = s.low, s.rng, s.cacheSize
	step := func(p uint16, v uint32) {
		bound := (rng >> 11) * uint32(p)
		if v == 0 {
			rng = bound
		} else {
			low += uint64(bound)
			rng -= bound
		}
		if rng < 1<<24 {
			rng <<= 8
			if uint32(low) < 0xFF000000 || (low>>32) != 0 {
				if low>>32 != 0 {
					carries++
				}
				cacheSize = 0
			}
			cacheSize++
			low = (low & 0x00FFFFFF) << 8
		}
	}
	step(s.posProbs[s.pos&3], 0)
	probs := &s.litProbs[s.prev>>5]
	idx := uint32(1)
	for i := 7; i >= 0; i-- {
		v := uint32(b>>uint(i)) & 1
		step(probs[idx], v)
		idx = idx<<1 | v
	}
	return
}

// rawLen is the length of the raw LZMA stream for p (fresh state).
func rawLen(p []byte) int {
	s := newSim()
	s.encode(p)
	return s.flushedLen()
}
