// Package c19 decides property C19: lib/uncompng's Encoder.Encode emits valid
// PNGs (chunk framing, CRC-32, zlib stored blocks, Adler-32) that decode to
// exactly the input pixels, wherever rows fall in the encoder's fixed 64 KiB
// buffer, and one Encoder can be reused for further images.
package c19

import (
	"bytes"
	"encoding/binary"
	"encoding/json"
	"errors"
	"fmt"
	"hash/adler32"
	"hash/crc32"
	"image"
	"image/png"
	"runtime"
	"sort"
	"testing"

	"github.com/google/wuffs/lib/uncompng"
	"pgregory.net/rapid"

	"verif/internal/ev"
)

func TestMain(m *testing.M) { ev.Main(m) }

// ---------------------------------------------------------------- the Case

// Img is one Encode call. Every field is passed to Encode verbatim, so the
// same struct describes valid calls, documented-invalid calls and calls the
// documentation says nothing about (zero sizes, short buffers).
type Img struct {
	W      int `json:"w"`
	H      int `json:"h"`
	Depth  int `json:"depth"`  // 8 or 16 (anything else: invalid argument)
	CT     int `json:"ct"`     // 1 gray, 2 RGBX, 3 NRGBA (anything else: invalid argument)
	Stride int `json:"stride"` // bytes
	PixLen int `json:"pixlen"` // length of the pix slice handed to Encode

	// Content selects how the pixel bytes are produced:
	//  "zero" / "ff": every pixel byte 0x00 / 0xFF (padding and the X channel are junk)
	//  "rand":        splitmix64 stream of Seed
	//  "adler":       0xFF everywhere, except a short run of bytes just before raw
	//                 offset AdlerQ chosen so that the Adler-32 "a" sum equals
	//                 AdlerA at that offset (worst case for the deferred modulo)
	//  "explicit":    Pix (small images; lets rapid shrink pixel values)
	Content string `json:"content"`
	Seed    uint64 `json:"seed"`
	Pix     []byte `json:"pix,omitempty"`
	AdlerQ  int    `json:"adler_q,omitempty"`
	AdlerA  int    `json:"adler_a,omitempty"`

	FailAt   int    `json:"fail_at,omitempty"`   // k >= 1: the k-th Write call returns an error
	FailOnce bool   `json:"fail_once,omitempty"` // later Write calls succeed again (transient fault)
	Alloc    bool   `json:"alloc,omitempty"`     // also measure allocations (statistic only)
	Shape    string `json:"shape,omitempty"`     // generator family, histogram only
}

// Case is a history of Encode calls on ONE Encoder.
type Case struct {
	Imgs []Img `json:"imgs"`
}

// ---------------------------------------------------------------- geometry

// bytes per pixel in the caller's buffer and in the PNG scanline.
func bpp(depth, ct int) (in, enc int, ok bool) {
	switch {
	case depth == 8 && ct == 1:
		return 1, 1, true
	case depth == 8 && ct == 2:
		return 4, 3, true
	case depth == 8 && ct == 3:
		return 4, 4, true
	case depth == 16 && ct == 1:
		return 2, 2, true
	case depth == 16 && ct == 2:
		return 8, 6, true
	case depth == 16 && ct == 3:
		return 8, 8, true
	}
	return 0, 0, false
}

func comboName(depth, ct int) string {
	n := map[int]string{1: "gray", 2: "rgbx", 3: "nrgba"}[ct]
	if n == "" {
		n = fmt.Sprintf("ct%d", ct)
	}
	return fmt.Sprintf("%s%d", n, depth)
}

type combo struct{ depth, ct int }

var combos = []combo{{8, 1}, {8, 2}, {8, 3}, {16, 1}, {16, 2}, {16, 3}}

// ---------------------------------------------------------------- buffer model
//
// Constants read off lib/uncompng/uncompng.go. The model is used ONLY to aim
// the generator at flush boundaries and to label cases for the histogram and
// the non-trivial rule; the oracle never compares the output with it (any
// chunking that yields a valid PNG satisfies the property).
const (
	mEiFirst = 0x0030
	mEiLater = 0x000D
	mEjMax   = 0xFFF8
	mBufLen  = 0x10000
	capFirst = mEjMax - mEiFirst // 65480 raw bytes in the first IDAT
	capLater = mEjMax - mEiLater // 65515 raw bytes in every later IDAT
	// final flush appends Adler-32 (4) + CRC (4) + IEND (12): IEND shares the
	// Write iff ej+20 <= 65536, i.e. ej <= 0xFFEC.
	mEjFitsIEND = mBufLen - 20
)

type flushInfo struct {
	filter bool // flush happened in front of a filter byte (row start)
	slack  int  // ejMax - ej when flushing (0: buffer exactly full)
}

type modelResult struct {
	blocks       []int // raw bytes per IDAT/deflate block, in order
	flushes      []flushInfo
	finalEj      int
	separateIEND bool
}

func model(w, h, be int) modelResult {
	var r modelResult
	ej, ei := mEiFirst, mEiFirst
	flush := func(filter bool) {
		r.flushes = append(r.flushes, flushInfo{filter, mEjMax - ej})
		r.blocks = append(r.blocks, ej-ei)
		ej, ei = mEiLater, mEiLater
	}
	for y := 0; y < h; y++ {
		if ej+1 > mEjMax {
			flush(true)
		}
		ej++
		rem := w
		for rem > 0 {
			n := (mEjMax - ej) / be
			if n >= rem {
				ej += rem * be
				rem = 0
			} else {
				ej += n * be
				rem -= n
				flush(false)
			}
		}
	}
	r.blocks = append(r.blocks, ej-ei)
	r.finalEj = ej
	r.separateIEND = ej > mEjFitsIEND
	return r
}

// ---------------------------------------------------------------- pixel buffers

type splitmix struct{ s uint64 }

func (p *splitmix) next() uint64 {
	p.s += 0x9E3779B97F4A7C15
	z := p.s
	z = (z ^ (z >> 30)) * 0xBF58476D1CE4E5B9
	z = (z ^ (z >> 27)) * 0x94D049BB133111EB
	return z ^ (z >> 31)
}

func fillJunk(b []byte, seed uint64) {
	p := splitmix{seed}
	i := 0
	for ; i+8 <= len(b); i += 8 {
		binary.LittleEndian.PutUint64(b[i:], p.next())
	}
	if i < len(b) {
		var t [8]byte
		binary.LittleEndian.PutUint64(t[:], p.next())
		copy(b[i:], t[:])
	}
}

const maxPixLen = 64 << 20

// scratch buffers reused from case to case (one goroutine per process); they
// only save allocation work and carry no information between cases.
var scratch struct {
	pix, zs, raw []byte
	out          bytes.Buffer
}

// geometryOK reports whether (W,H,Stride,PixLen) is inside the property's
// quantifier: positive sizes, stride >= row bytes, buffer holding every row.
func (g Img) geometryOK() bool {
	in, _, ok := bpp(g.Depth, g.CT)
	if !ok || g.W <= 0 || g.H <= 0 || g.W > 0xFFFFFF || g.H > 0xFFFFFF {
		return false
	}
	row := g.W * in
	return g.Stride >= row && g.PixLen >= (g.H-1)*g.Stride+row
}

// rawToPix maps a raw scanline-stream offset to the pix offset it is copied
// from; ok=false for filter bytes.
func (g Img) rawToPix(off int) (int, bool) {
	in, enc, _ := bpp(g.Depth, g.CT)
	rl := g.W*enc + 1
	y, c := off/rl, off%rl
	if c == 0 {
		return 0, false
	}
	c--
	return y*g.Stride + (c/enc)*in + c%enc, true
}

func buildPix(g Img) []byte {
	n := g.PixLen
	if n < 0 {
		n = 0
	}
	if cap(scratch.pix) < n {
		scratch.pix = make([]byte, n+n/4)
	}
	pix := scratch.pix[:n:n] // cap == len: a short buffer really is short
	if g.Content == "explicit" {
		fillJunk(pix, g.Seed)
		copy(pix, g.Pix)
		return pix
	}
	fillJunk(pix, g.Seed^0xC19C19C19)
	if !g.geometryOK() || g.Content == "rand" {
		return pix
	}
	in, enc, _ := bpp(g.Depth, g.CT)
	v := byte(0x00)
	if g.Content == "ff" || g.Content == "adler" {
		v = 0xFF
	}
	for y := 0; y < g.H; y++ {
		row := pix[y*g.Stride : y*g.Stride+g.W*in]
		if in == enc {
			for i := range row {
				row[i] = v
			}
		} else {
			for i := range row {
				if i%in < enc {
					row[i] = v
				}
			}
		}
	}
	if g.Content == "adler" {
		total := (g.W*enc + 1) * g.H
		q := g.AdlerQ
		if q > total {
			q = total
		}
		// the last (up to) 300 controllable raw positions before q
		var win []int
		for o := q - 1; o >= 0 && len(win) < 300; o-- {
			if p, ok := g.rawToPix(o); ok {
				win = append(win, p)
			}
		}
		for _, p := range win {
			pix[p] = 0
		}
		// a just before the window's contribution
		a := uint64(1)
		for o := 0; o < q; o++ {
			if p, ok := g.rawToPix(o); ok {
				a += uint64(pix[p])
			}
		}
		a %= 65521
		need := (uint64(((g.AdlerA%65521)+65521)%65521) + 65521 - a) % 65521
		for _, p := range win {
			if need >= 255 {
				pix[p] = 255
				need -= 255
			} else {
				pix[p] = byte(need)
				need = 0
			}
		}
	}
	return pix
}

// compareRaw checks raw (the decoded scanline stream, already known to have
// the right length and zero filter bytes) against what the property demands:
// per row one filter byte and the pixels' channels in order (RGBX drops the
// 4th channel). It returns the first differing raw offset, or -1.
func compareRaw(g Img, pix, raw []byte) (off int, got, want byte) {
	in, enc, _ := bpp(g.Depth, g.CT)
	rl := g.W*enc + 1
	for y := 0; y < g.H; y++ {
		row := pix[y*g.Stride : y*g.Stride+g.W*in]
		line := raw[y*rl+1 : (y+1)*rl]
		if in == enc {
			if !bytes.Equal(row, line) {
				for k := range row {
					if row[k] != line[k] {
						return y*rl + 1 + k, line[k], row[k]
					}
				}
			}
			continue
		}
		for x := 0; x < g.W; x++ {
			for k := 0; k < enc; k++ {
				if line[x*enc+k] != row[x*in+k] {
					return y*rl + 1 + x*enc + k, line[x*enc+k], row[x*in+k]
				}
			}
		}
	}
	return -1, 0, 0
}

// ---------------------------------------------------------------- writers

var errInjected = errors.New("c19: injected write failure")

type recWriter struct {
	buf     *bytes.Buffer
	writes  []int
	failAt  int
	once    bool
	failed  bool
	afterwr int // Write calls made after the injected failure
}

func (w *recWriter) Write(b []byte) (int, error) {
	if w.failed {
		w.afterwr++
		if !w.once {
			return 0, errInjected
		}
		return len(b), nil
	}
	w.writes = append(w.writes, len(b))
	if w.failAt > 0 && len(w.writes) == w.failAt {
		w.failed = true
		return 0, errInjected
	}
	return w.buf.Write(b)
}

type countWriter struct{ n int }

func (w *countWriter) Write(b []byte) (int, error) { w.n += len(b); return len(b), nil }

// ---------------------------------------------------------------- the PNG walker

type walked struct {
	nIDAT      int
	idatLens   []int
	blockLens  []int
	raw        []byte
	blockPerCh bool // every IDAT holds exactly one whole stored block
}

// walkPNG is an independent reader of exactly the PNG subset the property
// describes. It returns a non-empty message on the first deviation.
func walkPNG(b []byte, wantW, wantH, wantDepth, wantPNGColour, rowLen int) (walked, string) {
	var wk walked
	if len(b) < 8 || string(b[:8]) != "\x89PNG\r\n\x1a\n" {
		return wk, "bad PNG signature"
	}
	p := 8
	zs := scratch.zs[:0]
	wk.raw = scratch.raw[:0]
	defer func() { scratch.zs, scratch.raw = zs[:0], wk.raw[:0] }()
	state := 0 // 0 want IHDR, 1 IDATs, 2 after IEND
	for p < len(b) {
		if state == 2 {
			return wk, fmt.Sprintf("%d trailing bytes after IEND", len(b)-p)
		}
		if len(b)-p < 12 {
			return wk, fmt.Sprintf("truncated chunk header at offset %d (%d bytes left)", p, len(b)-p)
		}
		n := int(binary.BigEndian.Uint32(b[p:]))
		typ := string(b[p+4 : p+8])
		if n < 0 || n > 0x7FFFFFFF || n > len(b)-p-12 {
			return wk, fmt.Sprintf("chunk %q at offset %d: length %d exceeds the %d bytes left", typ, p, n, len(b)-p-12)
		}
		data := b[p+8 : p+8+n]
		got := binary.BigEndian.Uint32(b[p+8+n:])
		if want := crc32.ChecksumIEEE(b[p+4 : p+8+n]); got != want {
			return wk, fmt.Sprintf("chunk %q at offset %d (length %d): CRC %08x, want %08x", typ, p, n, got, want)
		}
		switch {
		case state == 0 && typ == "IHDR":
			if n != 13 {
				return wk, fmt.Sprintf("IHDR length %d", n)
			}
			w, h := int(binary.BigEndian.Uint32(data[0:])), int(binary.BigEndian.Uint32(data[4:]))
			if w != wantW || h != wantH || int(data[8]) != wantDepth || int(data[9]) != wantPNGColour ||
				data[10] != 0 || data[11] != 0 || data[12] != 0 {
				return wk, fmt.Sprintf("IHDR = %dx%d depth %d colour %d comp %d filter %d interlace %d, want %dx%d depth %d colour %d 0 0 0",
					w, h, data[8], data[9], data[10], data[11], data[12], wantW, wantH, wantDepth, wantPNGColour)
			}
			state = 1
		case state == 1 && typ == "IDAT":
			wk.nIDAT++
			wk.idatLens = append(wk.idatLens, n)
			zs = append(zs, data...)
		case state == 1 && typ == "IEND" && wk.nIDAT > 0:
			if n != 0 {
				return wk, fmt.Sprintf("IEND length %d", n)
			}
			state = 2
		default:
			return wk, fmt.Sprintf("chunk %q at offset %d out of order (want IHDR IDAT+ IEND; state %d, %d IDAT so far)", typ, p, state, wk.nIDAT)
		}
		p += 12 + n
	}
	if state != 2 {
		return wk, "no IEND chunk"
	}
	// zlib container
	if len(zs) < 6 {
		return wk, fmt.Sprintf("zlib stream of %d bytes", len(zs))
	}
	cmf, flg := zs[0], zs[1]
	if cmf&0x0F != 8 || cmf>>4 > 7 || (uint(cmf)<<8|uint(flg))%31 != 0 || flg&0x20 != 0 {
		return wk, fmt.Sprintf("bad zlib header %02x %02x", cmf, flg)
	}
	q := 2
	final := false
	// byte offsets (in zs) where IDAT payloads end, to see how blocks sit in chunks
	wk.blockPerCh = true
	ends := map[int]bool{}
	acc := 0
	for _, l := range wk.idatLens {
		acc += l
		ends[acc] = true
	}
	for !final {
		if len(zs)-q < 5 {
			return wk, fmt.Sprintf("deflate stream ends inside a block header at offset %d of %d (no final block seen)", q, len(zs))
		}
		hdr := zs[q]
		if hdr>>1&3 != 0 {
			return wk, fmt.Sprintf("deflate block %d at offset %d: BTYPE %d, want 0 (stored)", len(wk.blockLens), q, hdr>>1&3)
		}
		final = hdr&1 == 1
		l, nl := int(binary.LittleEndian.Uint16(zs[q+1:])), int(binary.LittleEndian.Uint16(zs[q+3:]))
		if l^nl != 0xFFFF {
			return wk, fmt.Sprintf("deflate block %d at offset %d: LEN %04x NLEN %04x are not complements", len(wk.blockLens), q, l, nl)
		}
		if len(zs)-q-5 < l {
			return wk, fmt.Sprintf("deflate block %d at offset %d: LEN %d but only %d bytes follow", len(wk.blockLens), q, l, len(zs)-q-5)
		}
		wk.raw = append(wk.raw, zs[q+5:q+5+l]...)
		wk.blockLens = append(wk.blockLens, l)
		q += 5 + l
		if !final && !ends[q] {
			wk.blockPerCh = false
		}
	}
	if len(zs)-q != 4 {
		return wk, fmt.Sprintf("%d bytes after the final deflate block, want exactly the 4-byte Adler-32", len(zs)-q)
	}
	if len(wk.blockLens) != wk.nIDAT {
		wk.blockPerCh = false
	}
	if got, want := binary.BigEndian.Uint32(zs[q:]), adler32.Checksum(wk.raw); got != want {
		return wk, fmt.Sprintf("Adler-32 %08x, want %08x (over %d raw bytes in %d blocks)", got, want, len(wk.raw), len(wk.blockLens))
	}
	if len(wk.raw) != rowLen*wantH {
		return wk, fmt.Sprintf("raw size %d, want (bpp*w+1)*h = %d", len(wk.raw), rowLen*wantH)
	}
	for y := 0; y < wantH; y++ {
		if f := wk.raw[y*rowLen]; f != 0 {
			return wk, fmt.Sprintf("row %d has filter byte %d, want 0", y, f)
		}
	}
	return wk, ""
}

// comparePNGDecode checks image/png's view of the file against the input.
func comparePNGDecode(b []byte, g Img, pix []byte) string {
	img, err := png.Decode(bytes.NewReader(b))
	if err != nil {
		return fmt.Sprintf("image/png.Decode rejects the output: %v", err)
	}
	if r := img.Bounds(); r != image.Rect(0, 0, g.W, g.H) {
		return fmt.Sprintf("image/png.Decode bounds %v, want %dx%d", r, g.W, g.H)
	}
	in, enc, _ := bpp(g.Depth, g.CT)
	var dpix []byte
	var dstride int
	typeOK := false
	switch m := img.(type) {
	case *image.Gray:
		dpix, dstride, typeOK = m.Pix, m.Stride, g.Depth == 8 && g.CT == 1
	case *image.Gray16:
		dpix, dstride, typeOK = m.Pix, m.Stride, g.Depth == 16 && g.CT == 1
	case *image.RGBA: // PNG colour type 2, depth 8: opaque
		dpix, dstride, typeOK = m.Pix, m.Stride, g.Depth == 8 && g.CT == 2
	case *image.RGBA64: // PNG colour type 2, depth 16: opaque
		dpix, dstride, typeOK = m.Pix, m.Stride, g.Depth == 16 && g.CT == 2
	case *image.NRGBA:
		dpix, dstride, typeOK = m.Pix, m.Stride, g.Depth == 8 && g.CT == 3
	case *image.NRGBA64:
		dpix, dstride, typeOK = m.Pix, m.Stride, g.Depth == 16 && g.CT == 3
	}
	if !typeOK {
		return fmt.Sprintf("image/png.Decode returned %T for %s", img, comboName(g.Depth, g.CT))
	}
	for y := 0; y < g.H; y++ {
		src := pix[y*g.Stride : y*g.Stride+g.W*in]
		dst := dpix[y*dstride : y*dstride+g.W*in]
		if in == enc {
			if !bytes.Equal(src, dst) {
				for i := range src {
					if src[i] != dst[i] {
						return fmt.Sprintf("decoded pixel (%d,%d) byte %d = %02x, want %02x", i/in, y, i%in, dst[i], src[i])
					}
				}
			}
			continue
		}
		for i := range src {
			want := src[i]
			if i%in >= enc {
				want = 0xFF // RGBX: alpha forced opaque
			}
			if dst[i] != want {
				return fmt.Sprintf("decoded pixel (%d,%d) byte %d = %02x, want %02x", i/in, y, i%in, dst[i], want)
			}
		}
	}
	return ""
}

// ---------------------------------------------------------------- the oracle

type ntItem struct {
	hash uint64
	img  Img
}

type result struct {
	msg     string
	classes []string
	nt      []ntItem
}

func contentClass(g Img) string { return g.Content }

// encodeGuarded calls Encode and converts a panic into (panicked, value).
func encodeGuarded(e *uncompng.Encoder, w interface{ Write([]byte) (int, error) }, pix []byte, g Img) (err error, panicked bool, pv any) {
	defer func() {
		if r := recover(); r != nil {
			panicked, pv = true, r
		}
	}()
	err = e.Encode(w, pix, g.W, g.H, g.Stride, uncompng.Depth(g.Depth), uncompng.ColorType(g.CT))
	return
}

func describe(i int, g Img) string {
	return fmt.Sprintf("call #%d %dx%d %s stride %d pixlen %d content %s failAt %d", i, g.W, g.H, comboName(g.Depth, g.CT), g.Stride, g.PixLen, g.Content, g.FailAt)
}

func checkCaseFull(c Case) (res result) {
	cl := func(s string) { res.classes = append(res.classes, s) }
	enc := &uncompng.Encoder{}
	cl(fmt.Sprintf("seq-len-%d", len(c.Imgs)))
	prevFault := false
	for i, g := range c.Imgs {
		if g.PixLen > maxPixLen || g.PixLen < 0 {
			res.msg = "ORACLE: case too large (not a wuffs defect)"
			return
		}
		if i > 0 {
			cl("reuse-call")
		}
		bin, be, comboOK := bpp(g.Depth, g.CT)
		pix := buildPix(g)
		scratch.out.Reset()
		w := &recWriter{buf: &scratch.out, failAt: g.FailAt, once: g.FailOnce}
		err, panicked, pv := encodeGuarded(enc, w, pix, g)

		documentedInvalid := g.W < 0 || g.H < 0 || !comboOK || (g.Depth != 8 && g.Depth != 16) ||
			(g.CT < 1 || g.CT > 3) || g.W > 0xFFFFFF || g.H > 0xFFFFFF
		switch {
		case documentedInvalid:
			// Encode's own argument validation: error, no panic.
			if panicked {
				res.msg = fmt.Sprintf("%s: Encode panicked on an argument it documents as invalid: %v", describe(i, g), pv)
				return
			}
			if err == nil {
				res.msg = fmt.Sprintf("%s: Encode accepted an invalid argument (nil error, %d bytes written)", describe(i, g), w.buf.Len())
				return
			}
			cl("invalid-arg-error")
			continue
		case !g.geometryOK():
			// Outside the property's quantifier and not covered by the docs
			// (zero sizes, stride < row bytes, short buffer): whatever Encode
			// does is recorded, never judged.
			kind := "outside-short-geometry"
			if g.W == 0 || g.H == 0 {
				kind = "outside-zero-size"
			}
			switch {
			case panicked:
				cl(kind + "-panic")
			case err != nil:
				cl(kind + "-error")
			default:
				cl(kind + "-accepted")
			}
			prevFault = true
			continue
		}

		// ---- a call the property speaks about.
		if panicked {
			res.msg = fmt.Sprintf("%s: Encode panicked: %v", describe(i, g), pv)
			return
		}
		m := model(g.W, g.H, be)
		cl("combo-" + comboName(g.Depth, g.CT))
		if g.Shape != "" {
			cl("shape-" + g.Shape)
		}
		if w.failed {
			if err == nil {
				res.msg = fmt.Sprintf("%s: the writer failed at Write call %d but Encode returned nil", describe(i, g), g.FailAt)
				return
			}
			cl("writer-fault-hit")
			if g.FailOnce {
				cl("writer-fault-transient")
			}
			if g.FailAt < len(m.blocks) {
				cl("writer-fault-mid-image")
			}
			if w.afterwr > 0 {
				cl("writer-called-after-fault")
			}
			prevFault = true
			continue
		}
		if g.FailAt > 0 {
			cl("writer-fault-beyond-last-write")
		}
		if err != nil {
			res.msg = fmt.Sprintf("%s: Encode returned %v", describe(i, g), err)
			return
		}
		out := w.buf.Bytes()
		pngColour := map[int]int{1: 0, 2: 2, 3: 6}[g.CT]
		wk, msg := walkPNG(out, g.W, g.H, g.Depth, pngColour, g.W*be+1)
		if msg != "" {
			res.msg = fmt.Sprintf("%s: %s", describe(i, g), msg)
			return
		}
		if o, got, want := compareRaw(g, pix, wk.raw); o >= 0 {
			rl := g.W*be + 1
			res.msg = fmt.Sprintf("%s: scanline byte at raw offset %d (row %d, column byte %d) = %02x, want %02x", describe(i, g), o, o/rl, o%rl-1, got, want)
			return
		}
		if msg := comparePNGDecode(out, g, pix); msg != "" {
			res.msg = fmt.Sprintf("%s: %s", describe(i, g), msg)
			return
		}

		// ---- statistics and classes.
		cl("img-valid")
		cl("content-" + contentClass(g))
		switch extra := g.Stride - g.W*bin; extra {
		case 0, 1, 7, 4096:
			cl(fmt.Sprintf("stride+%d", extra))
		default:
			cl("stride+other")
		}
		if g.PixLen == (g.H-1)*g.Stride+g.W*bin && g.Stride > g.W*bin {
			cl("pix-ends-at-last-pixel")
		}
		if i > 0 {
			cl("reuse-valid")
			if prevFault {
				cl("reuse-valid-after-fault-or-odd-call")
			}
		}
		switch {
		case wk.nIDAT == 1:
			cl("idat-1")
		case wk.nIDAT == 2:
			cl("idat-2")
		default:
			cl("idat-3plus")
		}
		if g.W*be+1 > capLater {
			cl("row-longer-than-buffer")
		}
		agree := len(wk.blockLens) == len(m.blocks) && wk.blockPerCh
		if agree {
			for k := range m.blocks {
				if m.blocks[k] != wk.blockLens[k] {
					agree = false
				}
			}
		}
		lastIsIEND := len(w.writes) >= 2 && w.writes[len(w.writes)-1] == 12
		if agree && lastIsIEND == m.separateIEND {
			cl("model-agrees")
		} else {
			cl("model-disagrees")
			ev.Note(fmt.Sprintf("chunking differs from the test's model for %dx%d %s (not a violation)", g.W, g.H, comboName(g.Depth, g.CT)))
		}
		nontrivial := false
		for _, f := range m.flushes {
			nontrivial = true
			switch {
			case f.filter:
				cl("flush-before-filter-byte")
			case f.slack == 0:
				cl("flush-exactly-at-ejmax")
			default:
				cl("flush-pixel-would-straddle")
			}
		}
		if m.separateIEND {
			nontrivial = true
			cl("separate-iend")
			if m.finalEj == mEjMax {
				cl("separate-iend-final-ej-eq-ejmax")
			}
			if m.finalEj == mEjFitsIEND+1 {
				cl("separate-iend-by-one-byte")
			}
		} else if m.finalEj == mEjFitsIEND {
			cl("iend-fits-exactly")
		} else if m.finalEj >= mEjFitsIEND-9 {
			cl("iend-fits-within-9")
		}
		if m.finalEj >= mEjFitsIEND-9 {
			cl(fmt.Sprintf("final-ej-%04X", m.finalEj)) // 0xFFE3..0xFFF8: the whole window around the IEND decision
		}
		if len(m.blocks) > 1 && m.blocks[len(m.blocks)-1] <= 9 {
			cl("last-block-le-9-bytes")
		}
		if g.Alloc {
			var ms0, ms1 runtime.MemStats
			cw := &countWriter{}
			runtime.ReadMemStats(&ms0)
			aerr, apanicked, _ := encodeGuarded(enc, cw, pix, g)
			runtime.ReadMemStats(&ms1)
			if aerr != nil || apanicked || cw.n != len(out) {
				res.msg = fmt.Sprintf("%s: a second Encode of the same image on the same Encoder gave err=%v panic=%v %d bytes (first: %d bytes)", describe(i, g), aerr, apanicked, cw.n, len(out))
				return
			}
			if d := ms1.Mallocs - ms0.Mallocs; d == 0 {
				cl("alloc-0")
			} else {
				cl("alloc-nonzero")
			}
		}
		if nontrivial {
			res.nt = append(res.nt, ntItem{ev.Hash(g.W, g.H, g.Stride, g.Depth, g.CT, contentClass(g)), g})
		}
		prevFault = false
	}
	return
}

// checkCase is the oracle: "" when the property holds on c.
func checkCase(c Case) (msg string, nontrivial bool, classes []string) {
	r := checkCaseFull(c)
	return r.msg, len(r.nt) > 0, r.classes
}

// ---------------------------------------------------------------- generators

// filterHits[be] lists (w, y): with width w the model flushes in front of the
// filter byte of row y. Found by running the model, not by formula.
type filterHit struct{ w, y int }

var filterHits = map[int][]filterHit{}

func init() {
	for _, be := range []int{1, 2, 3, 4, 6, 8} {
		ws := map[int]bool{}
		for w := 1; w <= 48; w++ {
			ws[w] = true
		}
		// rows that tile the first block exactly: (be*w+1) divides capFirst
		for d := 2; d <= capFirst; d++ {
			if capFirst%d == 0 && (d-1)%be == 0 && (d-1)/be >= 1 {
				ws[(d-1)/be] = true
			}
		}
		var wl []int
		for w := range ws {
			wl = append(wl, w)
		}
		sort.Ints(wl)
		for _, w := range wl {
			rl := be*w + 1
			h := (capFirst+3*capLater)/rl + 2
			if h > 140000 {
				h = 140000
			}
			// replay the model row by row, noting filter flushes
			ej := mEiFirst
			found := 0
			for y := 0; y < h && found < 3; y++ {
				if ej+1 > mEjMax {
					filterHits[be] = append(filterHits[be], filterHit{w, y})
					found++
					ej = mEiLater
				}
				ej++
				rem := w
				for rem > 0 {
					n := (mEjMax - ej) / be
					if n >= rem {
						ej += rem * be
						rem = 0
					} else {
						ej += n * be
						rem -= n
						ej = mEiLater
					}
				}
			}
		}
	}
}

// pick draws a uniform index in [0,n): rapid's IntRange is deliberately biased
// towards small values, which would starve the later generator families, so
// the choice is a hash of a rapid-drawn word (still a recorded, shrinkable draw).
func pick(t *rapid.T, label string, n int) int {
	p := splitmix{rapid.Uint64().Draw(t, label)}
	return int(p.next() % uint64(n))
}

func cumCap(k int) int { return capFirst + (k-1)*capLater }

func clamp(v, lo, hi int) int {
	if v < lo {
		return lo
	}
	if v > hi {
		return hi
	}
	return v
}

// genShape draws (w, h, family) for a given encoded bytes-per-pixel.
func genShape(t *rapid.T, be int, allowHuge bool) (w, h int, shape string) {
	fam := pick(t, "family", 100)
	switch {
	case fam < 22: // small exhaustive-ish grid
		return rapid.IntRange(1, 40).Draw(t, "w"), rapid.IntRange(1, 40).Draw(t, "h"), "grid"
	case fam < 70: // solved for a flush boundary
		k := 1 + pick(t, "k", 4)
		// anchors: the cumulative block capacity (where the k-th block is
		// exactly full), the point where the trailer stops fitting, and the
		// literal k*65528 of the property text.
		var anchor int
		switch pick(t, "anchor", 6) {
		case 0, 1, 2:
			anchor = cumCap(k)
		case 3, 4:
			anchor = cumCap(k) - 11
		default:
			anchor = k * 65528
		}
		delta := pick(t, "delta", 19) - 9
		T := anchor + delta
		switch pick(t, "orient", 6) {
		case 0, 1: // N x 1
			h = 1
			w = (T - 1 + rapid.IntRange(0, be-1).Draw(t, "round")) / be
			shape = "solved-Nx1"
		case 2: // 1 x N
			w = 1
			h = (T + rapid.IntRange(0, be).Draw(t, "round")) / (be + 1)
			shape = "solved-1xN"
		case 3: // few long rows
			h = rapid.IntRange(2, 12).Draw(t, "h")
			w = (T/h - 1 + rapid.IntRange(0, be-1).Draw(t, "round")) / be
			shape = "solved-few-rows"
		case 4: // narrow and tall
			w = rapid.IntRange(2, 40).Draw(t, "w")
			h = (T + rapid.IntRange(0, be*w).Draw(t, "round")) / (be*w + 1)
			shape = "solved-narrow"
		default: // arbitrary aspect
			w = rapid.IntRange(41, 2000).Draw(t, "w")
			h = (T + rapid.IntRange(0, be*w).Draw(t, "round")) / (be*w + 1)
			shape = "solved-any"
		}
		// slack left at earlier flushes shifts the real boundary by up to
		// (be-1) bytes per block: walk a few pixels/rows towards it.
		adj := pick(t, "adjust", 5) - 2
		if h == 1 || shape == "solved-few-rows" {
			w += adj
		} else {
			h += adj
		}
		return clamp(w, 1, 1<<20), clamp(h, 1, 1<<20), shape
	case fam < 80: // flush in front of a filter byte
		hits := filterHits[be]
		hit := hits[pick(t, "hit", len(hits))]
		return hit.w, hit.y + rapid.IntRange(1, 3).Draw(t, "extra_rows"), "filter-boundary"
	case fam < 87: // single rows longer than the buffer
		h = rapid.IntRange(1, 3).Draw(t, "h")
		w = (capLater + rapid.IntRange(1, 70000).Draw(t, "over")) / be
		return clamp(w, 1, 1<<20), h, "long-rows"
	default: // 1xN and Nx1 up to 200000
		maxN := 200000
		if !allowHuge {
			maxN = 20000
		}
		var n int
		switch pick(t, "nclass", 4) {
		case 0:
			n = rapid.IntRange(1, 300).Draw(t, "n")
		case 1:
			n = rapid.IntRange(300, 20000).Draw(t, "n")
		case 2:
			n = rapid.IntRange(20000, maxN).Draw(t, "n")
		default:
			n = maxN - rapid.IntRange(0, 40).Draw(t, "n")
		}
		if rapid.Bool().Draw(t, "vertical") {
			return 1, n, "1xN"
		}
		return n, 1, "Nx1"
	}
}

func genValidImg(t *rapid.T, allowHuge bool) Img {
	cb := combos[pick(t, "combo", len(combos))]
	in, be, _ := bpp(cb.depth, cb.ct)
	w, h, shape := genShape(t, be, allowHuge)
	g := Img{W: w, H: h, Depth: cb.depth, CT: cb.ct, Shape: shape}
	row := w * in
	// stride = row bytes + {0, 1, 7, 4096}, the larger ones only while the
	// buffer stays below 4 MiB.
	extras := []int{0}
	for _, e := range []int{1, 7, 4096} {
		if (row+e)*h <= 4<<20 {
			extras = append(extras, e)
		}
	}
	g.Stride = row + extras[pick(t, "stride_extra", len(extras))]
	g.PixLen = (h-1)*g.Stride + row
	if rapid.Bool().Draw(t, "full_last_row") {
		g.PixLen = h * g.Stride
	}
	total := (w*be + 1) * h
	ck := pick(t, "content", 10)
	switch {
	case shape == "grid" && g.PixLen <= 96 && ck < 5:
		g.Content = "explicit"
		g.Pix = rapid.SliceOfN(rapid.Byte(), g.PixLen, g.PixLen).Draw(t, "pix")
	case ck < 4:
		g.Content = "rand"
	case ck < 6:
		g.Content = "zero"
	case ck < 8 || total < 12000:
		g.Content = "ff"
	default:
		// Adler-32 worst case: "a" at its maximum when a 5552-byte
		// deferred-modulo run of 0xFF bytes starts.
		g.Content = "adler"
		m := model(w, h, be)
		j := pick(t, "adler_block", len(m.blocks))
		start := 0
		for _, b := range m.blocks[:j] {
			start += b
		}
		run := []int{5552, 5552, 5553, 5553, 5551, 5554}[pick(t, "adler_run", 6)]
		mult := 1 + pick(t, "adler_mult", 10)
		g.AdlerQ = clamp(start+mult*run, 1, total)
		g.AdlerA = []int{65520, 65520, 65520, 65519, 65400, 0}[pick(t, "adler_a", 6)]
	}
	g.Seed = rapid.Uint64().Draw(t, "seed")
	// failing writer: the k-th Write fails; k around the number of writes.
	if pick(t, "fault", 10) == 0 {
		nw := len(model(w, h, be).blocks) + 1
		g.FailAt = rapid.IntRange(1, nw+1).Draw(t, "fail_at")
		g.FailOnce = rapid.Bool().Draw(t, "fail_once")
	}
	g.Alloc = pick(t, "alloc", 8) == 0
	return g
}

func genOddImg(t *rapid.T) Img {
	cb := combos[pick(t, "combo", len(combos))]
	in, _, _ := bpp(cb.depth, cb.ct)
	w, h := rapid.IntRange(1, 40).Draw(t, "w"), rapid.IntRange(1, 40).Draw(t, "h")
	g := Img{W: w, H: h, Depth: cb.depth, CT: cb.ct, Stride: w * in, PixLen: w * in * h, Content: "rand", Shape: "odd",
		Seed: rapid.Uint64().Draw(t, "seed")}
	switch pick(t, "odd", 12) {
	case 0:
		g.W = -rapid.IntRange(1, 1<<30).Draw(t, "neg")
	case 1:
		g.H = -rapid.IntRange(1, 1<<30).Draw(t, "neg")
	case 2:
		g.Depth = rapid.SampledFrom([]int{0, 1, 2, 4, 7, 9, 15, 17, 24, 32, 255}).Draw(t, "depth")
	case 3:
		g.CT = rapid.SampledFrom([]int{0, 4, 5, 6, 7, 8, 16, 24, 255}).Draw(t, "ct")
	case 4:
		g.W = 0x1000000 + rapid.IntRange(0, 1<<20).Draw(t, "big")
		g.PixLen, g.Stride = 0, 0
	case 5:
		g.H = 0x1000000 + rapid.IntRange(0, 1<<20).Draw(t, "big")
	case 6: // zero width
		g.W, g.Stride = 0, rapid.IntRange(0, 8).Draw(t, "stride")
		g.PixLen = g.Stride * h
	case 7: // zero height
		g.H, g.PixLen = 0, 0
	case 8: // short buffer
		g.PixLen -= rapid.IntRange(1, g.PixLen).Draw(t, "short")
	case 9: // stride below the row size (buffer still h*stride)
		g.Stride -= rapid.IntRange(1, g.Stride).Draw(t, "small")
		g.PixLen = g.Stride * h
	case 10: // negative stride
		g.Stride = -rapid.IntRange(1, 64).Draw(t, "neg")
	default: // empty buffer
		g.PixLen = 0
	}
	return g
}

func genCase(t *rapid.T) Case {
	n := 1
	if pick(t, "sequence", 10) >= 5 {
		n = rapid.IntRange(2, 5).Draw(t, "calls")
	}
	var c Case
	for i := 0; i < n; i++ {
		// in sequences, at most the first image may be one of the very
		// long ones (cost); later ones stay below ~4 blocks.
		if pick(t, "odd_call", 100) < 8 {
			c.Imgs = append(c.Imgs, genOddImg(t))
		} else {
			c.Imgs = append(c.Imgs, genValidImg(t, i == 0 || ev.Thorough()))
		}
	}
	return c
}

// ---------------------------------------------------------------- drivers

func runCase(t interface {
	Fatalf(string, ...any)
}, c Case) {
	ev.Eval()
	r := func() (r result) {
		defer func() {
			if p := recover(); p != nil {
				r.msg = fmt.Sprintf("panic outside Encode (oracle bug?): %v", p)
			}
		}()
		return checkCaseFull(c)
	}()
	if r.msg != "" {
		ev.Fail("C19", "uncompng", c, r.msg)
		t.Fatalf("C19 violated: %s\ncase: %s", r.msg, summary(c))
	}
	for _, cl := range r.classes {
		ev.Class(cl)
	}
	for _, it := range r.nt {
		g := it.img
		g.Pix = nil
		ev.Nontrivial(it.hash, func() any { return g })
	}
}

func summary(c Case) string {
	cc := Case{}
	for _, g := range c.Imgs {
		if len(g.Pix) > 64 {
			g.Pix = g.Pix[:64]
		}
		cc.Imgs = append(cc.Imgs, g)
	}
	b, _ := json.Marshal(cc)
	return string(b)
}

func TestProp(t *testing.T) {
	rapid.Check(t, func(t *rapid.T) {
		runCase(t, genCase(t))
	})
}

// TestGrid walks the whole small grid 1..40 x 1..40 for the six combinations
// once per process (cheap: 9600 tiny images), shard-split.
func TestGrid(t *testing.T) {
	shard, nsh := ev.EnvInt("VERIF_SHARD", 0), ev.EnvInt("VERIF_NSHARDS", 1)
	seed := uint64(ev.Seed())
	idx := 0
	for _, cb := range combos {
		in, _, _ := bpp(cb.depth, cb.ct)
		for w := 1; w <= 40; w++ {
			for h := 1; h <= 40; h++ {
				idx++
				if idx%nsh != shard {
					continue
				}
				extra := []int{0, 1, 7, 4096}[(idx/nsh)%4]
				g := Img{W: w, H: h, Depth: cb.depth, CT: cb.ct, Stride: w*in + extra, Content: []string{"rand", "zero", "ff"}[(idx/nsh/4)%3],
					Seed: seed*1000003 + uint64(idx), Shape: "grid-exhaustive"}
				g.PixLen = (h-1)*g.Stride + w*in
				runCase(t, Case{Imgs: []Img{g}})
			}
		}
	}
}

func TestReplay(t *testing.T) {
	p := ev.ReplayPath()
	if p == "" {
		t.Skip("no VERIF_REPLAY")
	}
	r, err := ev.LoadReplay(p)
	if err != nil {
		t.Fatalf("load: %v", err)
	}
	var c Case
	if err := json.Unmarshal(r.Case, &c); err != nil {
		t.Fatalf("decode: %v", err)
	}
	runCase(t, c)
}
