package stdh

import (
	"bytes"
	"compress/flate"
	"compress/gzip"
	"os"
	"testing"
)

func TestSmoke(t *testing.T) {
	bin := os.Getenv("STDH_SAN")
	if bin == "" {
		t.Skip("STDH_SAN not set")
	}
	ks, cpu, err := List(bin)
	if err != nil {
		t.Fatal(err)
	}
	t.Logf("%d kinds cpu=%+v", len(ks), cpu)
	kidx := map[string]int{}
	for _, k := range ks {
		kidx[k.Name] = k.Index
	}
	p, err := Start(bin)
	if err != nil {
		t.Fatal(err)
	}
	defer p.Close()
	payload := bytes.Repeat([]byte("hello wuffs, hello world. "), 400)
	var zb bytes.Buffer
	zw, _ := flate.NewWriter(&zb, 6)
	zw.Write(payload)
	zw.Close()
	for _, mode := range []int{0, 1, 2} {
		rq := NewReq(kidx["deflate.decoder"], zb.Bytes(), 20, 1).Init(0, 0, 0, 0).PureProbe(true)
		switch mode {
		case 1:
			rq.Src(1, 1, true, true, nil).Dst(2, 0, 7, 0xAA, false)
		case 2:
			rq.Src(2, 0, true, false, []uint32{3, 1, 100}).Dst(1, 1<<20, 13, 0, false)
		}
		rq.Drive(1 << 20)
		r, err := p.Run(rq.Bytes())
		if err != nil {
			t.Fatalf("mode %d: %v", mode, err)
		}
		t.Logf("mode %d: final=%q calls=%d sr=%d sw=%d consumed=%d out=%d viol=%v pure=%d", mode, r.Final, r.NCalls, r.NShortRead, r.NShortWrite, r.Consumed, len(r.Out), r.Violations, r.NPure)
		if !bytes.Equal(r.Out, payload) {
			t.Fatalf("mode %d: output mismatch", mode)
		}
	}
	var gb bytes.Buffer
	gw := gzip.NewWriter(&gb)
	gw.Write(payload)
	gw.Close()
	r, err := p.Run(NewReq(kidx["gzip.decoder"], gb.Bytes()[:len(gb.Bytes())-3], 20, 1).Init(0, 0, 0, 0).Src(1, 5, true, true, nil).Drive(1 << 20).Bytes())
	if err != nil {
		t.Fatal(err)
	}
	t.Logf("truncated gzip: final=%q viol=%v", r.Final, r.Violations)
	// an image
	for _, f := range []string{"/repo/test/data/bricks-color.png", "/repo/test/data/animated-red-blue.gif", "/repo/test/data/bricks-color.jpeg"} {
		b, _ := os.ReadFile(f)
		kind := "png.decoder"
		if f[len(f)-3:] == "gif" {
			kind = "gif.decoder"
		} else if f[len(f)-4:] == "jpeg" {
			kind = "jpeg.decoder"
		}
		for _, chunk := range []uint32{0, 977} {
			rq := NewReq(kidx[kind], b, 20, 1).Init(0, 0, 0, 0)
			if chunk > 0 {
				rq.Src(1, chunk, true, true, nil)
			}
			r, err := p.Run(rq.Drive(1 << 20).Bytes())
			if err != nil {
				t.Fatal(err)
			}
			t.Logf("%s chunk=%d: %dx%d fmt=%x frames=%d final=%q pixhash=%x calls=%d viol=%v", f, chunk, r.W, r.H, r.NativeFmt, len(r.Frames), r.Final, r.PixHash, r.NCalls, r.Violations)
		}
	}
	// json tokens
	js := []byte(`{"a": [1, 2.5, "str\né", true, null], "long": "` + string(bytes.Repeat([]byte("x"), 300)) + `"}`)
	for _, chunk := range []uint32{0, 3} {
		rq := NewReq(kidx["json.decoder"], js, 20, 1).Init(0, 0, 0, 0)
		if chunk > 0 {
			rq.Src(1, chunk, true, true, nil).Tok(2)
		}
		r, err := p.Run(rq.Drive(1 << 20).Bytes())
		if err != nil {
			t.Fatal(err)
		}
		t.Logf("json chunk=%d: tokens=%d covered=%d final=%q viol=%v", chunk, len(r.Tokens), r.Covered, r.Final, r.Violations)
	}
	// hash
	r, err = p.Run(NewReq(kidx["crc32.ieee_hasher"], payload, 20, 1).Init(0, 0, 0, 0).Src(1, 37, true, true, nil).Tok(1).Drive(0).Bytes())
	if err != nil {
		t.Fatal(err)
	}
	t.Logf("crc32=%x viol=%v", r.Hash, r.Violations)
}
