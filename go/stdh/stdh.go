// Package stdh is the Go client of the E3 harness (c/stdh.c): it builds
// requests (op scripts), talks to a persistent harness subprocess and parses
// the response records.
package stdh

import (
	"bufio"
	"bytes"
	"encoding/binary"
	"errors"
	"fmt"
	"io"
	"os"
	"os/exec"
	"strings"
	"sync"
)

// Interface kinds.
const (
	IOT  = 0
	IMG  = 1
	TOK  = 2
	H32  = 3
	H64  = 4
	H256 = 5
)

// Kind describes one std decoder/hasher as listed by `stdh --list`.
type Kind struct {
	Index int
	Name  string // e.g. "deflate.decoder"
	Iface int
	Size  int
}

// Pkg returns the package part of the kind name.
func (k Kind) Pkg() string { return strings.SplitN(k.Name, ".", 2)[0] }

// CPU features reported by the harness build.
type CPU struct{ SSE42, AVX2, BMI2 bool }

// List runs `bin --list`.
func List(bin string) ([]Kind, CPU, error) {
	out, err := exec.Command(bin, "--list").Output()
	if err != nil {
		return nil, CPU{}, err
	}
	var ks []Kind
	var cpu CPU
	for _, l := range strings.Split(strings.TrimSpace(string(out)), "\n") {
		if strings.HasPrefix(l, "cpu ") {
			cpu.SSE42 = strings.Contains(l, "sse42=1")
			cpu.AVX2 = strings.Contains(l, "avx2=1")
			cpu.BMI2 = strings.Contains(l, "bmi2=1")
			continue
		}
		var k Kind
		if _, err := fmt.Sscanf(l, "%d %s %d %d", &k.Index, &k.Name, &k.Iface, &k.Size); err != nil {
			return nil, cpu, fmt.Errorf("bad list line %q", l)
		}
		ks = append(ks, k)
	}
	return ks, cpu, nil
}

// Req builds one request.
type Req struct {
	buf bytes.Buffer
}

// NewReq starts a request for kind index k with the given payload. alarmS is
// the per-request CPU alarm (seconds); seed feeds the garbage generator.
func NewReq(k int, payload []byte, alarmS int, seed uint64) *Req {
	r := &Req{}
	r.u8(uint8(k))
	r.u32(uint32(alarmS))
	r.u64(seed)
	r.u32(uint32(len(payload)))
	r.buf.Write(payload)
	return r
}

func (r *Req) u8(v uint8)   { r.buf.WriteByte(v) }
func (r *Req) u32(v uint32) { binary.Write(&r.buf, binary.LittleEndian, v) }
func (r *Req) u64(v uint64) { binary.Write(&r.buf, binary.LittleEndian, v) }

// Init flags.
const (
	FlagAlreadyZeroed             = 1
	FlagLeaveInternalBuffersUninit = 2
)

// Prefill bytes with special meaning.
const (
	PrefillRandom = 0xFE // pseudo-random garbage
	PrefillKeep   = 0xFD // re-initialise over whatever is there
)

// Init appends an initialize op. verMode: 0 right version, 1 zero, 2 other major, 3 newer minor.
func (r *Req) Init(flags uint32, prefill uint8, sizeDelta int8, verMode uint8) *Req {
	r.u8('I')
	r.u32(flags)
	r.u8(prefill)
	r.u8(uint8(sizeDelta))
	r.u8(verMode)
	return r
}

// Quirk appends set_quirk.
func (r *Req) Quirk(key uint32, val uint64) *Req { r.u8('Q'); r.u32(key); r.u64(val); return r }

// Src sets the source plan. mode 0 one-shot, 1 fixed chunk, 2 cyclic list.
func (r *Req) Src(mode uint8, chunk uint32, closeAtEnd, exact bool, list []uint32) *Req {
	return r.SrcClose(mode, chunk, b2u(closeAtEnd), exact, list)
}

// SrcClose is Src with an explicit close mode: 0 never closed, 1 closed together
// with the last byte, 2 closed by a separate empty supply after the last byte.
func (r *Req) SrcClose(mode uint8, chunk uint32, closeMode uint8, exact bool, list []uint32) *Req {
	r.u8('S')
	r.u8(mode)
	r.u32(chunk)
	r.u8(closeMode)
	r.u8(b2u(exact))
	if len(list) > 64 {
		list = list[:64]
	}
	r.u8(uint8(len(list)))
	for _, v := range list {
		r.u32(v)
	}
	return r
}

// Dst sets the destination plan. mode 0 ample(cap), 1 growing window (cap, step), 2 fresh windows (step).
func (r *Req) Dst(mode uint8, cap, step uint32, fill uint8, flushOnRead bool) *Req {
	r.u8('D')
	r.u8(mode)
	r.u32(cap)
	r.u32(step)
	r.u8(fill)
	r.u8(b2u(flushOnRead))
	return r
}

// Work sets the work buffer plan: 0 min, 1 max, 2 min-1, 3 NULL/empty.
func (r *Req) Work(mode, fill uint8) *Req { r.u8('B'); r.u8(mode); r.u8(fill); return r }

// Pix sets image options. fmt 0 = BGRA_NONPREMUL, 1 = the decoder's native format.
func (r *Req) Pix(fmt uint32, blend, fill uint8, maxPixels uint32, dump uint8) *Req {
	r.u8('X')
	r.u32(fmt)
	r.u8(blend)
	r.u8(fill)
	r.u32(maxPixels)
	r.u8(dump)
	return r
}

// Tok sets the token buffer capacity (for hashers: bit 0 = use update_uNN for the last piece).
func (r *Req) Tok(cap uint32) *Req { r.u8('T'); r.u32(cap); return r }

// PureProbe turns on calling every pure method around every call, with a memcmp of the object.
func (r *Req) PureProbe(on bool) *Req { r.u8('U'); r.u8(b2u(on)); return r }

// Drive runs the canonical driver loop.
func (r *Req) Drive(maxCalls uint32) *Req { r.u8('R'); r.u32(maxCalls); return r }

// Feed (raw mode) supplies n more payload bytes.
func (r *Req) Feed(n uint32, closed bool) *Req { r.u8('F'); r.u32(n); r.u8(b2u(closed)); return r }

// Window (raw mode) offers n more writable destination bytes.
func (r *Req) Window(n uint32) *Req { r.u8('W'); r.u32(n); return r }

// WorkLen (raw mode) sets a work buffer of n bytes.
func (r *Req) WorkLen(n uint32) *Req { r.u8('K'); r.u32(n); return r }

// Call (raw mode) makes one call. variant bits: 1 NULL dst, 2 NULL src, 4 short workbuf, 8 NULL receiver.
func (r *Req) Call(method, variant uint8) *Req { r.u8('C'); r.u8(method); r.u8(variant); return r }

// NewPayload switches the session to another payload (source, output and counters are reset).
func (r *Req) NewPayload(p []byte) *Req { r.u8('N'); r.u32(uint32(len(p))); r.buf.Write(p); return r }

// Dump emits the accumulated output.
func (r *Req) Dump() *Req { r.u8('O'); return r }

// Bytes returns the encoded request.
func (r *Req) Bytes() []byte { return r.buf.Bytes() }

func b2u(b bool) uint8 {
	if b {
		return 1
	}
	return 0
}

// CallRec is one itemised call.
type CallRec struct {
	Method, Status               string
	SrcRi0, SrcWi0               uint32
	SrcClosed0                   bool
	SrcRi1, SrcWi1               uint32
	DstRi0, DstWi0, DstRi1, DstWi1 uint32
}

// Frame is one decoded frame.
type Frame struct {
	Index                          uint32
	Bounds                         [4]uint32
	Duration, FIndex, IOPos        uint64
	Disposal, Opaque, Overwrite    uint8
	Background                     uint32
	Status                         string
	Dirty                          [4]uint32
	PixHash                        uint64
	Pix                            []byte
	HaveConfig, HaveDecode         bool
}

// Token is one canonicalised token.
type Token struct {
	Value, Length uint64
	Continued     bool
	Pos           uint64
}

// Resp is a parsed response.
type Resp struct {
	Inits      []string // status of each INIT
	ObjSize    uint64
	Quirks     []string
	Calls      []CallRec // first 48 calls of drive loops
	Raw        []CallRec // raw calls ('c')
	HaveFinal  bool
	Final      string
	NCalls     uint32
	NShortRead uint32
	NShortWrite uint32
	NOtherSusp uint32
	Consumed   uint64
	GaveUp     bool
	NPure      uint32
	WorkMin, WorkMax, HRL uint64
	HaveOut    bool
	Out        []byte
	OutHash    uint64
	HaveImage  bool
	W, H, NativeFmt uint32
	FirstFrameIOPos uint64
	FirstOpaque bool
	Frames     []Frame
	PixFmt     uint32
	PixHash    uint64
	Pix        []byte
	HavePix    bool
	Tokens     []Token
	Covered    uint64
	HaveTokens bool
	Hash       []byte
	Violations []string
	NViol      uint32
}

type rd struct {
	b   []byte
	err error
}

func (r *rd) u8() uint8 {
	if len(r.b) < 1 {
		r.err = io.ErrUnexpectedEOF
		return 0
	}
	v := r.b[0]
	r.b = r.b[1:]
	return v
}
func (r *rd) u32() uint32 {
	if len(r.b) < 4 {
		r.err = io.ErrUnexpectedEOF
		r.b = nil
		return 0
	}
	v := binary.LittleEndian.Uint32(r.b)
	r.b = r.b[4:]
	return v
}
func (r *rd) u64() uint64 {
	if len(r.b) < 8 {
		r.err = io.ErrUnexpectedEOF
		r.b = nil
		return 0
	}
	v := binary.LittleEndian.Uint64(r.b)
	r.b = r.b[8:]
	return v
}
func (r *rd) bytes(n int) []byte {
	if n < 0 || len(r.b) < n {
		r.err = io.ErrUnexpectedEOF
		r.b = nil
		return nil
	}
	v := r.b[:n]
	r.b = r.b[n:]
	return v
}
func (r *rd) str() string { return string(r.bytes(int(r.u32()))) }

func parseCall(r *rd) CallRec {
	var c CallRec
	c.Method = r.str()
	c.Status = r.str()
	c.SrcRi0, c.SrcWi0 = r.u32(), r.u32()
	c.SrcClosed0 = r.u8() != 0
	c.SrcRi1, c.SrcWi1 = r.u32(), r.u32()
	c.DstRi0, c.DstWi0, c.DstRi1, c.DstWi1 = r.u32(), r.u32(), r.u32(), r.u32()
	return c
}

// Parse decodes a response body.
func Parse(body []byte) (*Resp, error) {
	p := &Resp{}
	r := &rd{b: body}
	for len(r.b) > 0 && r.err == nil {
		typ := r.u8()
		n := int(r.u32())
		rec := &rd{b: r.bytes(n)}
		if r.err != nil {
			break
		}
		switch typ {
		case 'I':
			p.Inits = append(p.Inits, rec.str())
			p.ObjSize = rec.u64()
		case 'q':
			p.Quirks = append(p.Quirks, rec.str())
		case 'C':
			p.Calls = append(p.Calls, parseCall(rec))
		case 'c':
			p.Raw = append(p.Raw, parseCall(rec))
		case 'W':
			p.WorkMin, p.WorkMax, p.HRL = rec.u64(), rec.u64(), rec.u64()
		case 'F':
			p.HaveFinal = true
			p.Final = rec.str()
			p.NCalls, p.NShortRead, p.NShortWrite, p.NOtherSusp = rec.u32(), rec.u32(), rec.u32(), rec.u32()
			p.Consumed = rec.u64()
			p.GaveUp = rec.u8() != 0
			p.NPure = rec.u32()
		case 'O':
			p.HaveOut = true
			p.OutHash = rec.u64()
			p.Out = append([]byte(nil), rec.bytes(int(rec.u32()))...)
		case 'G':
			p.HaveImage = true
			p.W, p.H, p.NativeFmt = rec.u32(), rec.u32(), rec.u32()
			p.FirstFrameIOPos = rec.u64()
			p.FirstOpaque = rec.u8() != 0
		case 'R':
			var f Frame
			f.Index = rec.u32()
			for i := range f.Bounds {
				f.Bounds[i] = rec.u32()
			}
			f.Duration, f.FIndex, f.IOPos = rec.u64(), rec.u64(), rec.u64()
			f.Disposal, f.Opaque, f.Overwrite = rec.u8(), rec.u8(), rec.u8()
			f.Background = rec.u32()
			f.HaveConfig = true
			p.Frames = append(p.Frames, f)
		case 'D':
			idx := rec.u32()
			var f *Frame
			if len(p.Frames) > 0 && p.Frames[len(p.Frames)-1].Index == idx {
				f = &p.Frames[len(p.Frames)-1]
			} else {
				p.Frames = append(p.Frames, Frame{Index: idx})
				f = &p.Frames[len(p.Frames)-1]
			}
			f.HaveDecode = true
			f.Status = rec.str()
			for i := range f.Dirty {
				f.Dirty[i] = rec.u32()
			}
			f.PixHash = rec.u64()
			f.Pix = append([]byte(nil), rec.bytes(int(rec.u32()))...)
		case 'P':
			p.HavePix = true
			p.PixFmt = rec.u32()
			p.PixHash = rec.u64()
			p.Pix = append([]byte(nil), rec.bytes(int(rec.u32()))...)
		case 'T':
			p.HaveTokens = true
			n := int(rec.u32())
			for i := 0; i < n && rec.err == nil; i++ {
				p.Tokens = append(p.Tokens, Token{Value: rec.u64(), Length: rec.u64(), Continued: rec.u8() != 0, Pos: rec.u64()})
			}
			p.Covered = rec.u64()
		case 'H':
			p.Hash = append([]byte(nil), rec.bytes(int(rec.u32()))...)
		case 'V':
			p.Violations = append(p.Violations, rec.str())
		case 'X': // a new payload starts: results of the earlier decode are dropped, violations kept
			*p = Resp{Inits: p.Inits, ObjSize: p.ObjSize, Violations: p.Violations}
		case 'E':
			p.NViol = rec.u32()
		default:
			return nil, fmt.Errorf("unknown record type %q", typ)
		}
		if rec.err != nil {
			return nil, fmt.Errorf("short record %q", typ)
		}
	}
	if r.err != nil {
		return nil, r.err
	}
	return p, nil
}

// Proc is a persistent harness subprocess.
type Proc struct {
	bin    string
	cmd    *exec.Cmd
	in     io.WriteCloser
	out    *bufio.Reader
	stderr *bytes.Buffer
	mu     sync.Mutex
	nreq   int
}

// Start launches the harness binary.
func Start(bin string) (*Proc, error) {
	p := &Proc{bin: bin}
	if err := p.start(); err != nil {
		return nil, err
	}
	return p, nil
}

func (p *Proc) start() error {
	p.cmd = exec.Command(p.bin)
	p.cmd.Env = append(os.Environ(),
		"ASAN_OPTIONS=detect_leaks=0:abort_on_error=0:allocator_may_return_null=1:malloc_context_size=8:exitcode=99",
		"UBSAN_OPTIONS=print_stacktrace=1:halt_on_error=1:exitcode=99")
	var err error
	p.in, err = p.cmd.StdinPipe()
	if err != nil {
		return err
	}
	so, err := p.cmd.StdoutPipe()
	if err != nil {
		return err
	}
	p.out = bufio.NewReaderSize(so, 1<<20)
	p.stderr = &bytes.Buffer{}
	p.cmd.Stderr = p.stderr
	p.nreq = 0
	return p.cmd.Start()
}

// Close stops the subprocess.
func (p *Proc) Close() {
	p.mu.Lock()
	defer p.mu.Unlock()
	if p.cmd != nil {
		p.in.Close()
		p.cmd.Process.Kill()
		p.cmd.Wait()
		p.cmd = nil
	}
}

// CrashError is returned when the harness process died while serving a
// request: a sanitizer report, an allocator-stub abort, or the alarm.
type CrashError struct {
	Stderr  string
	Timeout bool
	Alloc   bool
}

func (e *CrashError) Error() string {
	s := e.Stderr
	if len(s) > 3000 {
		s = s[:3000] + "…"
	}
	switch {
	case e.Timeout:
		return "harness alarm expired (possible non-termination): " + s
	case e.Alloc:
		return "generated library called the allocator: " + s
	}
	return "harness crashed: " + s
}

// Run executes one request. On a crash the process is restarted for the next request.
func (p *Proc) Run(req []byte) (*Resp, error) {
	p.mu.Lock()
	defer p.mu.Unlock()
	if p.cmd == nil {
		if err := p.start(); err != nil {
			return nil, err
		}
	}
	// restart periodically so that a leak in the harness cannot accumulate.
	if p.nreq > 4000 {
		p.in.Close()
		p.cmd.Wait()
		if err := p.start(); err != nil {
			return nil, err
		}
	}
	p.nreq++
	var hdr [4]byte
	binary.LittleEndian.PutUint32(hdr[:], uint32(len(req)))
	_, werr := p.in.Write(append(hdr[:], req...))
	var body []byte
	var rerr error
	if werr == nil {
		if _, rerr = io.ReadFull(p.out, hdr[:]); rerr == nil {
			n := binary.LittleEndian.Uint32(hdr[:])
			body = make([]byte, n)
			_, rerr = io.ReadFull(p.out, body)
		}
	}
	if werr != nil || rerr != nil {
		p.in.Close()
		p.cmd.Wait()
		se := p.stderr.String()
		p.cmd = nil
		return nil, &CrashError{Stderr: se, Timeout: strings.Contains(se, "STDH-TIMEOUT"), Alloc: strings.Contains(se, "STDH-ALLOC")}
	}
	return Parse(body)
}

// IsCrash reports whether err is a harness crash.
func IsCrash(err error) (*CrashError, bool) {
	var ce *CrashError
	if errors.As(err, &ce) {
		return ce, true
	}
	return nil, false
}
