package winterp

import (
	"fmt"
	"math/big"
	"sort"

	a "github.com/google/wuffs/lang/ast"
	t "github.com/google/wuffs/lang/token"
)

// Result of one public call.
type Result struct {
	HasValue bool
	Value    *big.Int // numeric return value
	IsStatus bool
	Status   string // full C string, "" = ok
	Aborted  string // non-empty: a monitor violation or fuel exhaustion ended the history
}

func (r Result) String() string {
	switch {
	case r.Aborted != "":
		return "X " + r.Aborted
	case r.IsStatus:
		return r.Status
	case r.HasValue:
		return r.Value.String()
	}
	return "-"
}

// Num makes a numeric argument value.
func Num(v uint64) Value { return numBig(new(big.Int).SetUint64(v)) }

// IOArg wraps an IOBuf as an argument value.
func IOArg(b *IOBuf) Value { return Value{K: KIO, IO: b} }

// PublicFuncs lists the public functions in declaration order.
func (p *Program) PublicFuncs() []*a.Func {
	var out []*a.Func
	for _, f := range p.Order {
		if f.Public() {
			out = append(out, f)
		}
	}
	return out
}

// Call invokes a public method the way a C caller does, modelling the
// generated prologue (magic checks, run-time argument checks, interleaved
// coroutine check) and epilogue (disable on error, remember the suspended
// coroutine).
func (in *Interp) Call(name string, args map[string]Value) (res Result, err error) {
	fu := in.P.Funcs[name]
	if fu == nil || !fu.Public() {
		return res, fmt.Errorf("no public function %s", name)
	}
	returnsStatus := fu.Effect().Coroutine() || (fu.Out() != nil && fu.Out().IsStatus())
	zero := func() Result {
		if returnsStatus {
			return Result{IsStatus: true}
		}
		if fu.Out() != nil && fu.Out().IsNumType() {
			return Result{HasValue: true, Value: new(big.Int)}
		}
		return Result{}
	}
	res = zero()
	// magic
	switch {
	case in.Obj.Magic == 1:
	case in.Obj.Magic == 2 && fu.Effect().Pure():
	default:
		if returnsStatus {
			res.Status = "#base: initialize not called"
			if in.Obj.Magic == 2 {
				res.Status = "#base: disabled by previous error"
			}
		}
		return res, nil
	}
	// run-time argument checks of public functions
	am := map[t.ID]Value{}
	for _, o := range fu.In().Fields() {
		f := o.AsField()
		v, ok := args[in.str(f.Name())]
		if !ok {
			return res, fmt.Errorf("missing argument %s", in.str(f.Name()))
		}
		if v.K == KNum {
			if lo, hi, _ := in.P.typeBounds(f.XType()); hi != nil && (v.N.Cmp(lo) < 0 || v.N.Cmp(hi) > 0) {
				if !f.XType().IsRefined() {
					return res, fmt.Errorf("argument %s does not fit its C type", in.str(f.Name()))
				}
				in.Obj.Magic = 2
				if returnsStatus {
					res.Status = "#base: bad argument"
				}
				return res, nil
			}
		}
		am[f.Name()] = v
	}
	if fu.Effect().Coroutine() {
		if in.Obj.Active != "" && in.Obj.Active != name {
			in.Obj.Magic = 2
			res.Status = "#base: interleaved coroutine calls"
			return res, nil
		}
		in.Obj.Active = ""
	}
	defer func() {
		if r := recover(); r != nil {
			switch x := r.(type) {
			case *abortSignal:
				res = Result{Aborted: x.reason}
				in.Drop()
			case *Unsupported:
				err = x
				in.Drop()
			default:
				panic(r)
			}
		}
	}()
	in.stack = in.stack[:0]
	if fu.Effect().Coroutine() {
		v := in.runInstance(name, fu, am)
		res.Status = v.S
		if isError(v.S) {
			in.Obj.Magic = 2
		}
		if isSuspension(v.S) {
			in.Obj.Active = name
		}
		return res, nil
	}
	before := ""
	if fu.Effect().Pure() && in.Monitors {
		before = in.stateDump()
	}
	fr := &frame{fn: fu, locals: map[t.ID]Value{}, args: am}
	v := in.execFunc(fr)
	if before != "" {
		// C10: a method declared pure leaves the receiver bit-for-bit unchanged
		if after := in.stateDump(); after != before {
			in.Viol = append(in.Viol, Violation{Prop: "C10", Kind: "pure-method-wrote-receiver", Func: name,
				Msg: fmt.Sprintf("the pure method %s changed the receiver: before {%s} after {%s}", name, before, after)})
			return Result{Aborted: "C10/pure-method-wrote-receiver in " + name}, nil
		}
	}
	switch v.K {
	case KNum:
		res.HasValue, res.Value = true, v.N
	case KStatus:
		res.IsStatus, res.Status = true, v.S
	case KBool:
		res.HasValue = true
		res.Value = big.NewInt(0)
		if v.B {
			res.Value = big.NewInt(1)
		}
	}
	return res, nil
}

// Getters returns the names of the public pure methods without arguments that
// return a number or a bool, in declaration order: the observable state.
func (p *Program) Getters() []string {
	var out []string
	for _, f := range p.Order {
		if f.Public() && f.Effect().Pure() && len(f.In().Fields()) == 0 && f.Out() != nil && (f.Out().IsNumType() || f.Out().IsBool()) {
			out = append(out, p.FuncName(f))
		}
	}
	return out
}

// stateDump renders every field of the object (all array elements).
func (in *Interp) stateDump() string {
	var names []string
	byName := map[string]Value{}
	for k, v := range in.Obj.Fields {
		n := in.str(k)
		names = append(names, n)
		byName[n] = v
	}
	sort.Strings(names)
	var sb []byte
	var dump func(v Value)
	dump = func(v Value) {
		switch v.K {
		case KArray:
			sb = append(sb, '[')
			for _, e := range v.Elems {
				dump(e)
				sb = append(sb, ' ')
			}
			sb = append(sb, ']')
		default:
			sb = append(sb, v.String()...)
		}
	}
	for _, n := range names {
		sb = append(sb, n...)
		sb = append(sb, '=')
		dump(byName[n])
		sb = append(sb, ' ')
	}
	return string(sb)
}

// FieldNames lists the struct's fields (sorted) for diagnostics.
func (in *Interp) FieldDump() string {
	var names []string
	for k := range in.Obj.Fields {
		names = append(names, in.str(k))
	}
	sort.Strings(names)
	s := ""
	for _, n := range names {
		for k, v := range in.Obj.Fields {
			if in.str(k) == n {
				s += fmt.Sprintf("%s=%s ", n, v)
			}
		}
	}
	return s
}
