package winterp

import (
	"fmt"
	"os"
	"strings"
	"testing"

	a "github.com/google/wuffs/lang/ast"
	"github.com/google/wuffs/lang/check"
	"github.com/google/wuffs/lang/parse"
	t "github.com/google/wuffs/lang/token"
)

func dumpExpr(tm *t.Map, e *a.Expr, depth int) string {
	if e == nil {
		return "nil"
	}
	var sb strings.Builder
	fmt.Fprintf(&sb, "(%s|%s", tm.ByID(e.Operator()), tm.ByID(e.Ident()))
	if e.ConstValue() != nil {
		fmt.Fprintf(&sb, " cv=%v", e.ConstValue())
	}
	if e.MType() != nil {
		fmt.Fprintf(&sb, " ty=%s", e.MType().Str(tm))
	}
	if b := e.MBounds(); b[0] != nil || b[1] != nil {
		fmt.Fprintf(&sb, " mb=%v", b)
	}
	if e.GlobalIdent() {
		sb.WriteString(" global")
	}
	for _, n := range []*a.Node{e.LHS(), e.MHS(), e.RHS()} {
		if n != nil {
			if n.Kind() == a.KExpr {
				sb.WriteString(" " + dumpExpr(tm, n.AsExpr(), depth+1))
			} else {
				fmt.Fprintf(&sb, " <%v %s>", n.Kind(), n.AsTypeExpr().Str(tm))
			}
		}
	}
	for _, n := range e.Args() {
		if n.Kind() == a.KArg {
			fmt.Fprintf(&sb, " arg[%s]=%s", tm.ByID(n.AsArg().Name()), dumpExpr(tm, n.AsArg().Value(), depth+1))
		} else {
			sb.WriteString(" item=" + dumpExpr(tm, n.AsExpr(), depth+1))
		}
	}
	sb.WriteString(")")
	return sb.String()
}

func TestDump(tt *testing.T) {
	fn := os.Getenv("DUMP")
	if fn == "" {
		tt.Skip()
	}
	src, _ := os.ReadFile(fn)
	tm := &t.Map{}
	toks, _, err := t.Tokenize(tm, fn, src)
	if err != nil {
		tt.Fatal(err)
	}
	f, err := parse.Parse(tm, fn, toks, nil)
	if err != nil {
		tt.Fatal(err)
	}
	check.VerifObserver = func(fn *a.Func, stmt *a.Node, facts []*a.Expr) {
		if len(facts) > 0 {
			_, line := stmt.AsRaw().FilenameLine()
			fs := []string{}
			for _, x := range facts {
				fs = append(fs, x.Str(tm))
			}
			fmt.Printf("FACTS line %d: %s\n", line, strings.Join(fs, " ; "))
		}
	}
	if _, err := check.Check(tm, []*a.File{f}, nil); err != nil {
		tt.Fatal(err)
	}
	for _, d := range f.TopLevelDecls() {
		if d.Kind() != a.KFunc {
			fmt.Printf("DECL %v\n", d.Kind())
			continue
		}
		fu := d.AsFunc()
		fmt.Printf("FUNC %s effect=%v pub=%v\n", fu.QQID().Str(tm), fu.Effect(), fu.Public())
		var walk func(ns []*a.Node, ind string)
		walk = func(ns []*a.Node, ind string) {
			for _, n := range ns {
				switch n.Kind() {
				case a.KAssign:
					as := n.AsAssign()
					fmt.Printf("%sASSIGN op=%q lhs=%s rhs=%s\n", ind, tm.ByID(as.Operator()), dumpExpr(tm, as.LHS(), 0), dumpExpr(tm, as.RHS(), 0))
				case a.KIf:
					for i := n.AsIf(); i != nil; i = i.ElseIf() {
						fmt.Printf("%sIF %s\n", ind, dumpExpr(tm, i.Condition(), 0))
						walk(i.BodyIfTrue(), ind+"  ")
						if len(i.BodyIfFalse()) > 0 {
							fmt.Printf("%sELSE\n", ind)
							walk(i.BodyIfFalse(), ind+"  ")
						}
					}
				case a.KWhile:
					w := n.AsWhile()
					fmt.Printf("%sWHILE.%s %s\n", ind, tm.ByID(w.Label()), dumpExpr(tm, w.Condition(), 0))
					for _, as := range w.Asserts() {
						fmt.Printf("%s  %s %s\n", ind, tm.ByID(as.AsAssert().Keyword()), dumpExpr(tm, as.AsAssert().Condition(), 0))
					}
					walk(w.Body(), ind+"  ")
				case a.KRet:
					fmt.Printf("%sRET %s %s\n", ind, tm.ByID(n.AsRet().Keyword()), dumpExpr(tm, n.AsRet().Value(), 0))
				case a.KVar:
					fmt.Printf("%sVAR %s %s\n", ind, tm.ByID(n.AsVar().Name()), n.AsVar().XType().Str(tm))
				case a.KJump:
					fmt.Printf("%sJUMP %s.%s\n", ind, tm.ByID(n.AsJump().Keyword()), tm.ByID(n.AsJump().Label()))
				default:
					fmt.Printf("%s%v\n", ind, n.Kind())
				}
			}
		}
		walk(fu.Body(), "  ")
	}
}
