package winterp

import (
	"fmt"
	"math/big"
	"regexp"
	"strconv"
	"strings"

	a "github.com/google/wuffs/lang/ast"
	t "github.com/google/wuffs/lang/token"
)

// Violation is a monitor failure.
type Violation struct {
	Prop string `json:"prop"` // "C01" or "C02"
	Kind string `json:"kind"`
	Msg  string `json:"msg"`
	Func string `json:"func"`
	Line uint32 `json:"line"`
}

func (v Violation) String() string {
	return fmt.Sprintf("%s/%s in %s line %d: %s", v.Prop, v.Kind, v.Func, v.Line, v.Msg)
}

// Unsupported is raised (as a panic inside the interpreter, returned as an
// error by the entry points) when a program uses something the interpreter
// does not model; such cases are discarded, never judged.
type Unsupported struct{ What string }

func (u Unsupported) Error() string { return "unsupported: " + u.What }

type abortSignal struct{ reason string }

// Object is one instance of the program's struct.
type Object struct {
	Fields map[t.ID]Value
	Magic  int // 0 raw, 1 ok, 2 disabled
	Active string
	coros  map[string]*coro
}

type coroMsg struct {
	done   bool
	status Value
	abort  *abortSignal
	unsup  *Unsupported
}

type coro struct {
	name   string
	resume chan bool // true = continue, false = abandon
	out    chan coroMsg
	top    *frame
	stack  []string // call stack of this instance while it is suspended
	dead   bool     // abandoned: its goroutine unwinds without touching shared interpreter state
}

type frame struct {
	parent *frame // the caller's frame when this function runs inline inside the caller's coroutine
	fn     *a.Func
	locals map[t.ID]Value
	args   map[t.ID]Value
	co     *coro
	ret    Value
	target a.Loop // jump target
	facts  bool   // evaluating facts: monitors and fuel off, errors returned as evalError
}

type evalError struct{ msg string }

// Stats counts what the monitors evaluated.
type Stats struct {
	Index, Slice, Arith, Assign, MBounds, Facts, Asserts, Invs int
	FactsNonConst                                              int
	Suspensions                                                int
	Steps                                                      int
	FactKinds                                                  map[string]int
}

// Interp executes one history on one object.
type Interp struct {
	P     *Program
	Obj   *Object
	Viol  []Violation
	Fuel  int
	Stats Stats
	// CheckMBounds etc. can be switched off by callers that only need the trace.
	Monitors bool
	// Judge names the property whose check is running ("" = both abort).
	Judge     string
	Other     []Violation
	curLine   uint32
	curFunc   string
	stack     []string
	noMBounds bool
}

// New creates an interpreter with an uninitialised object.
func New(p *Program) *Interp {
	in := &Interp{P: p, Fuel: 200000, Monitors: true}
	in.Stats.FactKinds = map[string]int{}
	in.Obj = &Object{Fields: map[t.ID]Value{}, coros: map[string]*coro{}}
	return in
}

// Initialize models wuffs_foo__bar__initialize with valid arguments.
func (in *Interp) Initialize() {
	in.Drop()
	in.Obj = &Object{Fields: map[t.ID]Value{}, coros: map[string]*coro{}, Magic: 1}
	if len(in.P.Structs) > 0 {
		for _, f := range in.P.Structs[0].Fields() {
			in.Obj.Fields[f.AsField().Name()] = in.P.zeroValue(f.AsField().XType())
		}
	}
}

// Drop abandons suspended coroutines (their goroutines exit).
func (in *Interp) Drop() {
	if in.Obj == nil {
		return
	}
	for _, c := range in.Obj.coros {
		select {
		case c.resume <- false:
		default:
			go func(c *coro) { c.resume <- false }(c)
		}
	}
	in.Obj.coros = map[string]*coro{}
}

func (in *Interp) violate(prop, kind, format string, args ...any) {
	v := Violation{Prop: prop, Kind: kind, Msg: fmt.Sprintf(format, args...), Func: in.curFunc, Line: in.curLine}
	if in.Judge != "" && in.Judge != "C02" && prop == "C02" {
		// The C01 check judges safety only: a false fact is recorded for the
		// statistics (C02's own check judges it) and execution goes on, so
		// that the unsafe access the false fact allows is reached and seen.
		if len(in.Other) < 8 {
			in.Other = append(in.Other, v)
		}
		return
	}
	in.Viol = append(in.Viol, v)
	panic(&abortSignal{reason: v.String()})
}

func (in *Interp) unsupported(what string) {
	panic(&Unsupported{What: what})
}

func (in *Interp) burn() {
	in.Fuel--
	in.Stats.Steps++
	if in.Fuel <= 0 {
		panic(&abortSignal{reason: "fuel"})
	}
}

func (in *Interp) str(id t.ID) string { return in.P.TM.ByID(id) }

// ---------------------------------------------------------------- statuses

func (in *Interp) statusString(pkg string, lit string) string {
	msg := strings.Trim(lit, "\"")
	if msg == "" {
		return ""
	}
	return msg[:1] + pkg + ": " + msg[1:]
}

func isError(s string) bool      { return s != "" && s[0] == '#' }
func isSuspension(s string) bool { return s != "" && s[0] == '$' }
func isNote(s string) bool       { return s != "" && s[0] == '@' }

// ---------------------------------------------------------------- expressions

var (
	readRE  = regexp.MustCompile(`^read_u(\d+)(le|be)?(?:_as_u(\d+))?$`)
	peekRE  = regexp.MustCompile(`^peek_u(\d+)(le|be)?(?:_as_u(\d+))?$`)
	writeRE = regexp.MustCompile(`^write_u(\d+)(le|be)?(_fast)?$`)
)

func (in *Interp) eval(fr *frame, e *a.Expr) Value {
	if !fr.facts {
		in.burn()
	}
	v := in.eval1(fr, e)
	if in.Monitors && !fr.facts && v.K == KNum {
		// C01: every value lies inside the range the compiler derived for that use.
		if b := e.MBounds(); b[0] != nil && b[1] != nil && fr.fn != nil && !in.noMBounds {
			in.Stats.MBounds++
			if v.N.Cmp(b[0]) < 0 || v.N.Cmp(b[1]) > 0 {
				in.violate("C01", "value-outside-compiler-bounds", "expression %s evaluates to %s but the compiler derived the range [%s ..= %s] for it", e.Str(in.P.TM), v.N, b[0], b[1])
			}
		}
	}
	return v
}

func (in *Interp) fail(fr *frame, prop, kind, format string, args ...any) {
	if fr.facts {
		panic(&evalError{fmt.Sprintf(format, args...)})
	}
	in.violate(prop, kind, format, args...)
}

func (in *Interp) eval1(fr *frame, e *a.Expr) Value {
	tm := in.P.TM
	if cv := e.ConstValue(); cv != nil {
		mt := e.MType()
		switch {
		case mt != nil && mt.IsBool():
			return boolean(cv.Sign() != 0)
		case mt != nil && mt.IsStatus():
			return status("")
		}
		return numBig(new(big.Int).Set(cv))
	}
	switch op := e.Operator(); op {
	case 0:
		id := e.Ident()
		if id.IsDQStrLiteral(tm) {
			return status(in.statusString(in.P.Pkg, tm.ByID(id)))
		}
		if id == t.IDOk {
			return status("")
		}
		if id == t.IDTrue || id == t.IDFalse {
			return boolean(id == t.IDTrue)
		}
		if e.GlobalIdent() {
			c := in.P.Consts[id]
			if c == nil {
				in.unsupported("global " + tm.ByID(id))
			}
			return in.constValue(c.XType(), c.Value())
		}
		if v, ok := fr.locals[id]; ok {
			return v
		}
		in.unsupported("identifier " + tm.ByID(id))
	case t.IDDot:
		lhs := e.LHS().AsExpr()
		if lhs.Operator() == 0 {
			switch lhs.Ident() {
			case t.IDThis:
				v, ok := in.Obj.Fields[e.Ident()]
				if !ok {
					in.unsupported("field " + tm.ByID(e.Ident()))
				}
				return v
			case t.IDArgs:
				v, ok := fr.args[e.Ident()]
				if !ok {
					in.unsupported("arg " + tm.ByID(e.Ident()))
				}
				return v
			}
			if e.Ident().IsDQStrLiteral(tm) {
				return status(in.statusString(tm.ByID(lhs.Ident()), tm.ByID(e.Ident())))
			}
		}
		in.unsupported("selector " + e.Str(tm))
	case t.IDOpenBracket:
		c := in.eval(fr, e.LHS().AsExpr())
		i := in.eval(fr, e.RHS().AsExpr())
		elems, lo, hi := in.elements(c)
		n := hi - lo
		in.Stats.Index++
		if i.N.Sign() < 0 || i.N.Cmp(big.NewInt(int64(n))) >= 0 {
			in.fail(fr, "C01", "index-out-of-bounds", "%s: index %s is outside [0, %d)", e.Str(tm), i.N, n)
		}
		return (*elems)[lo+int(i.N.Int64())]
	case t.IDDotDot:
		c := in.eval(fr, e.LHS().AsExpr())
		elems, lo, hi := in.elements(c)
		n := hi - lo
		i, j := 0, n
		if e.MHS() != nil {
			i = in.smallInt(fr, in.eval(fr, e.MHS().AsExpr()), e, n)
		}
		if e.RHS() != nil {
			j = in.smallInt(fr, in.eval(fr, e.RHS().AsExpr()), e, n)
		}
		in.Stats.Slice++
		if i > j || j > n {
			in.fail(fr, "C01", "slice-out-of-bounds", "%s: slice bounds [%d .. %d] are outside a length of %d", e.Str(tm), i, j, n)
		}
		return Value{K: KSlice, Back: elems, Lo: lo + i, Hi: lo + j}
	case t.IDOpenParen:
		return in.call(fr, e, false)
	case t.IDXUnaryPlus:
		return in.eval(fr, e.RHS().AsExpr())
	case t.IDXUnaryMinus:
		v := in.eval(fr, e.RHS().AsExpr())
		return in.arithResult(fr, e, new(big.Int).Neg(v.N))
	case t.IDXUnaryNot:
		return boolean(!in.eval(fr, e.RHS().AsExpr()).B)
	case t.IDXBinaryAs:
		v := in.eval(fr, e.LHS().AsExpr())
		return in.arithResult(fr, e, new(big.Int).Set(v.N))
	case t.IDXBinaryAnd:
		if !in.eval(fr, e.LHS().AsExpr()).B {
			return boolean(false)
		}
		return boolean(in.eval(fr, e.RHS().AsExpr()).B)
	case t.IDXBinaryOr:
		if in.eval(fr, e.LHS().AsExpr()).B {
			return boolean(true)
		}
		return boolean(in.eval(fr, e.RHS().AsExpr()).B)
	case t.IDXAssociativeAnd, t.IDXAssociativeOr:
		for _, o := range e.Args() {
			b := in.eval(fr, o.AsExpr()).B
			if op == t.IDXAssociativeAnd && !b {
				return boolean(false)
			}
			if op == t.IDXAssociativeOr && b {
				return boolean(true)
			}
		}
		return boolean(op == t.IDXAssociativeAnd)
	case t.IDXAssociativePlus, t.IDXAssociativeStar, t.IDXAssociativeAmp, t.IDXAssociativePipe, t.IDXAssociativeHat:
		acc := in.eval(fr, e.Args()[0].AsExpr())
		bin := map[t.ID]t.ID{t.IDXAssociativePlus: t.IDXBinaryPlus, t.IDXAssociativeStar: t.IDXBinaryStar, t.IDXAssociativeAmp: t.IDXBinaryAmp, t.IDXAssociativePipe: t.IDXBinaryPipe, t.IDXAssociativeHat: t.IDXBinaryHat}[op]
		for _, o := range e.Args()[1:] {
			r := in.eval(fr, o.AsExpr())
			acc = in.binop(fr, e, bin, acc, r)
		}
		return acc
	default:
		if e.LHS() != nil && e.RHS() != nil && e.RHS().Kind() == a.KExpr {
			l := in.eval(fr, e.LHS().AsExpr())
			r := in.eval(fr, e.RHS().AsExpr())
			return in.binop(fr, e, op, l, r)
		}
	}
	in.unsupported("expression " + e.Str(tm))
	return Value{}
}

func (in *Interp) smallInt(fr *frame, v Value, e *a.Expr, n int) int {
	if v.N.Sign() < 0 || !v.N.IsInt64() || v.N.Int64() > int64(n)+1 {
		in.Stats.Slice++
		in.fail(fr, "C01", "slice-out-of-bounds", "%s: slice bound %s is outside a length of %d", e.Str(in.P.TM), v.N, n)
	}
	return int(v.N.Int64())
}

func (in *Interp) elements(c Value) (*[]Value, int, int) {
	switch c.K {
	case KArray:
		el := c.Elems
		return &el, 0, len(el)
	case KSlice:
		return c.Back, c.Lo, c.Hi
	}
	in.unsupported("indexing a " + c.String())
	return nil, 0, 0
}

func (in *Interp) constValue(typ *a.TypeExpr, e *a.Expr) Value {
	if args, ok := e.IsList(); ok {
		v := Value{K: KArray}
		for _, o := range args {
			v.Elems = append(v.Elems, in.constValue(typ.Inner(), o.AsExpr()))
		}
		return v
	}
	if cv := e.ConstValue(); cv != nil {
		return numBig(new(big.Int).Set(cv))
	}
	in.unsupported("const " + e.Str(in.P.TM))
	return Value{}
}

// arithResult applies C01(b): the result of a non-modular operation or
// conversion must lie in the range of the expression's type.
func (in *Interp) arithResult(fr *frame, e *a.Expr, r *big.Int) Value {
	if lo, hi, _ := in.P.typeBounds(e.MType()); hi != nil && in.Monitors && !fr.facts {
		in.Stats.Arith++
		if r.Cmp(lo) < 0 || r.Cmp(hi) > 0 {
			in.violate("C01", "overflow", "%s = %s does not fit its type %s", e.Str(in.P.TM), r, e.MType().Str(in.P.TM))
		}
	}
	return numBig(r)
}

func (in *Interp) binop(fr *frame, e *a.Expr, op t.ID, l, r Value) Value {
	tm := in.P.TM
	switch op {
	case t.IDXBinaryNotEq, t.IDXBinaryEqEq:
		eq := false
		switch l.K {
		case KNum:
			eq = l.N.Cmp(r.N) == 0
		case KBool:
			eq = l.B == r.B
		case KStatus:
			eq = l.S == r.S
		default:
			in.unsupported("comparison of " + l.String())
		}
		return boolean(eq == (op == t.IDXBinaryEqEq))
	case t.IDXBinaryLessThan:
		return boolean(l.N.Cmp(r.N) < 0)
	case t.IDXBinaryLessEq:
		return boolean(l.N.Cmp(r.N) <= 0)
	case t.IDXBinaryGreaterEq:
		return boolean(l.N.Cmp(r.N) >= 0)
	case t.IDXBinaryGreaterThan:
		return boolean(l.N.Cmp(r.N) > 0)
	}
	if l.K != KNum || r.K != KNum {
		in.unsupported("operator on " + l.String())
	}
	z := new(big.Int)
	// width of the operation for ~mod / ~sat: the type of the expression
	_, thi, width := in.P.typeBounds(e.MType().Unrefined())
	switch op {
	case t.IDXBinaryPlus:
		return in.arithResult(fr, e, z.Add(l.N, r.N))
	case t.IDXBinaryMinus:
		return in.arithResult(fr, e, z.Sub(l.N, r.N))
	case t.IDXBinaryStar:
		return in.arithResult(fr, e, z.Mul(l.N, r.N))
	case t.IDXBinarySlash, t.IDXBinaryPercent:
		if r.N.Sign() == 0 {
			in.fail(fr, "C01", "division-by-zero", "%s divides by zero", e.Str(tm))
		}
		if op == t.IDXBinarySlash {
			return in.arithResult(fr, e, z.Quo(l.N, r.N))
		}
		return in.arithResult(fr, e, z.Rem(l.N, r.N))
	case t.IDXBinaryShiftL, t.IDXBinaryShiftR, t.IDXBinaryTildeModShiftL:
		_, _, lw := in.P.typeBounds(e.LHS().AsExpr().MType().Unrefined())
		if lw == 0 {
			lw = width
		}
		if r.N.Sign() < 0 || (lw > 0 && r.N.Cmp(big.NewInt(int64(lw))) >= 0) {
			in.fail(fr, "C01", "invalid-shift", "%s shifts a %d-bit value by %s", e.Str(tm), lw, r.N)
		}
		if !r.N.IsInt64() || r.N.Int64() > 4096 {
			in.fail(fr, "C01", "invalid-shift", "%s shifts by %s", e.Str(tm), r.N)
		}
		s := uint(r.N.Int64())
		switch op {
		case t.IDXBinaryShiftL:
			return in.arithResult(fr, e, z.Lsh(l.N, s))
		case t.IDXBinaryShiftR:
			return in.arithResult(fr, e, z.Rsh(l.N, s))
		default:
			z.Lsh(l.N, s)
			if width == 0 {
				in.unsupported("~mod<< on ideal")
			}
			return numBig(z.And(z, thi))
		}
	case t.IDXBinaryAmp:
		return in.arithResult(fr, e, z.And(l.N, r.N))
	case t.IDXBinaryPipe:
		return in.arithResult(fr, e, z.Or(l.N, r.N))
	case t.IDXBinaryHat:
		return in.arithResult(fr, e, z.Xor(l.N, r.N))
	case t.IDXBinaryTildeModPlus, t.IDXBinaryTildeModMinus, t.IDXBinaryTildeModStar:
		if width == 0 {
			in.unsupported("~mod on ideal")
		}
		switch op {
		case t.IDXBinaryTildeModPlus:
			z.Add(l.N, r.N)
		case t.IDXBinaryTildeModMinus:
			z.Sub(l.N, r.N)
		default:
			z.Mul(l.N, r.N)
		}
		mod := new(big.Int).Add(thi, one)
		z.Mod(z, mod)
		return numBig(z)
	case t.IDXBinaryTildeSatPlus, t.IDXBinaryTildeSatMinus:
		if width == 0 {
			in.unsupported("~sat on ideal")
		}
		if op == t.IDXBinaryTildeSatPlus {
			z.Add(l.N, r.N)
			if z.Cmp(thi) > 0 {
				z.Set(thi)
			}
		} else {
			z.Sub(l.N, r.N)
			if z.Sign() < 0 {
				z.SetInt64(0)
			}
		}
		return numBig(z)
	}
	in.unsupported("operator " + tm.ByID(op))
	return Value{}
}

// ---------------------------------------------------------------- calls

func (in *Interp) argMap(fr *frame, args []*a.Node) map[t.ID]Value {
	m := map[t.ID]Value{}
	for _, o := range args {
		m[o.AsArg().Name()] = in.eval(fr, o.AsArg().Value())
	}
	return m
}

func (in *Interp) argByName(m map[t.ID]Value, name string) Value {
	for k, v := range m {
		if in.str(k) == name {
			return v
		}
	}
	in.unsupported("missing argument " + name)
	return Value{}
}

// call evaluates a call expression. capture is true for "x =? f?()": a
// suspension or error of the callee is returned as a status value instead of
// propagating.
func (in *Interp) call(fr *frame, e *a.Expr, capture bool) Value {
	tm := in.P.TM
	recvE, methID, argNodes, ok := e.IsMethodCall()
	if !ok {
		in.unsupported("call " + e.Str(tm))
	}
	meth := tm.ByID(methID)
	// user-defined method on this
	if recvE.Operator() == 0 && recvE.Ident() == t.IDThis {
		recvName := in.str(fr.fn.Receiver()[1])
		callee := in.P.Funcs[recvName+"."+meth]
		if callee == nil {
			in.unsupported("method " + meth)
		}
		args := in.argMap(fr, argNodes)
		return in.callUser(fr, callee, args, capture)
	}
	recv := in.eval(fr, recvE)
	args := in.argMap(fr, argNodes)
	switch recv.K {
	case KNum:
		switch meth {
		case "min":
			o := in.argByName(args, "no_more_than")
			if recv.N.Cmp(o.N) < 0 {
				return recv
			}
			return o
		case "max":
			o := in.argByName(args, "no_less_than")
			if recv.N.Cmp(o.N) > 0 {
				return recv
			}
			return o
		case "low_bits", "high_bits":
			n := in.argByName(args, "n")
			_, _, w := in.P.typeBounds(recvE.MType().Unrefined())
			if w == 0 || n.N.Sign() < 0 || n.N.Cmp(big.NewInt(int64(w))) > 0 {
				in.fail(fr, "C01", "invalid-shift", "%s: bit count %s for a %d-bit value", e.Str(tm), n.N, w)
			}
			k := uint(n.N.Int64())
			if meth == "low_bits" {
				mask := new(big.Int).Sub(new(big.Int).Lsh(one, k), one)
				return numBig(mask.And(mask, recv.N))
			}
			return numBig(new(big.Int).Rsh(recv.N, uint(w)-k))
		}
	case KStatus:
		switch meth {
		case "is_ok":
			return boolean(recv.S == "")
		case "is_error":
			return boolean(isError(recv.S))
		case "is_suspension":
			return boolean(isSuspension(recv.S))
		case "is_note":
			return boolean(isNote(recv.S))
		case "is_complete":
			return boolean(recv.S == "" || isNote(recv.S))
		}
	case KSlice, KArray:
		elems, lo, hi := in.elements(recv)
		switch meth {
		case "length":
			return num(int64(hi - lo))
		default:
			if m := peekRE.FindStringSubmatch(meth); m != nil || strings.HasPrefix(meth, "poke_u") {
				return in.slicePeekPoke(fr, e, elems, lo, hi, meth, args)
			}
		case "copy_from_slice":
			s := in.argByName(args, "s")
			se, slo, shi := in.elements(s)
			n := min(hi-lo, shi-slo)
			tmp := make([]Value, n)
			for i := 0; i < n; i++ {
				tmp[i] = copyValue((*se)[slo+i])
			}
			for i := 0; i < n; i++ {
				(*elems)[lo+i] = tmp[i]
			}
			return num(int64(n))
		}
	case KIO:
		return in.callIO(fr, e, recv.IO, meth, args)
	}
	in.unsupported("built-in " + meth + " on " + recv.String())
	return Value{}
}

var pokeRE = regexp.MustCompile(`^poke_u(\d+)(le|be)?$`)

// slicePeekPoke implements the unchecked-in-C slice methods peek_uNN[le|be][_as_uMM]() and
// poke_uNN[le|be]!(a: v): their pre-condition (the slice holds at least NN/8 elements) is a C01 obligation.
func (in *Interp) slicePeekPoke(fr *frame, e *a.Expr, elems *[]Value, lo, hi int, meth string, args map[t.ID]Value) Value {
	bits, be, poke := 0, false, false
	if m := peekRE.FindStringSubmatch(meth); m != nil {
		bits, _ = strconv.Atoi(m[1])
		be = m[2] == "be"
	} else if m := pokeRE.FindStringSubmatch(meth); m != nil {
		bits, _ = strconv.Atoi(m[1])
		be = m[2] == "be"
		poke = true
	} else {
		in.unsupported("built-in " + meth + " on a slice")
	}
	n := bits / 8
	in.Stats.Slice++
	if hi-lo < n {
		in.fail(fr, "C01", "slice-peek-out-of-bounds", "%s needs %d elements, the slice has %d", e.Str(in.P.TM), n, hi-lo)
		return num(0)
	}
	if poke {
		v := new(big.Int).Set(in.argByName(args, "a").N)
		mask := big.NewInt(0xFF)
		for i := 0; i < n; i++ {
			k := i
			if be {
				k = n - 1 - i
			}
			b := new(big.Int).And(new(big.Int).Rsh(v, uint(8*i)), mask)
			(*elems)[lo+k] = numBig(b)
		}
		return Value{K: KEmpty}
	}
	r := new(big.Int)
	for i := 0; i < n; i++ {
		k := i
		if be {
			k = n - 1 - i
		}
		r.Or(r, new(big.Int).Lsh((*elems)[lo+k].N, uint(8*i)))
	}
	return numBig(r)
}

func (in *Interp) callIO(fr *frame, e *a.Expr, b *IOBuf, meth string, args map[t.ID]Value) Value {
	tm := in.P.TM
	avail := func() int {
		if b.Writer {
			return len(b.Data) - b.Wi
		}
		return b.Wi - b.Ri
	}
	switch meth {
	case "length":
		return num(int64(avail()))
	case "is_closed":
		return boolean(b.Closed)
	case "position":
		if b.Writer {
			return numBig(new(big.Int).SetUint64(b.Pos + uint64(b.Wi)))
		}
		return numBig(new(big.Int).SetUint64(b.Pos + uint64(b.Ri)))
	case "history_length":
		return num(int64(b.Wi))
	case "can_undo_byte":
		return boolean(b.Ri > b.mark)
	}
	if m := readRE.FindStringSubmatch(meth); m != nil && !b.Writer {
		nbits, _ := strconv.Atoi(m[1])
		n := nbits / 8
		if fr.facts {
			panic(&evalError{"effectful call inside a fact"})
		}
		// bytes are consumed one at a time; an exhausted buffer suspends
		got := make([]byte, 0, n)
		for len(got) < n {
			if b.Ri >= b.Wi {
				in.suspend(fr, "$base: short read")
				continue
			}
			got = append(got, b.Data[b.Ri])
			b.Ri++
		}
		return numBig(assemble(got, m[2] != "be"))
	}
	if m := peekRE.FindStringSubmatch(meth); m != nil && !b.Writer {
		nbits, _ := strconv.Atoi(m[1])
		n := nbits / 8
		if avail() < n {
			in.fail(fr, "C01", "io-precondition", "%s needs %d readable bytes, the buffer has %d", e.Str(tm), n, avail())
		}
		return numBig(assemble(b.Data[b.Ri:b.Ri+n], m[2] != "be"))
	}
	switch meth {
	case "skip_u32_fast":
		n := in.argByName(args, "actual")
		if n.N.Cmp(big.NewInt(int64(avail()))) > 0 {
			in.fail(fr, "C01", "io-precondition", "%s skips %s bytes, the buffer has %d", e.Str(tm), n.N, avail())
		}
		b.Ri += int(n.N.Int64())
		return Value{K: KEmpty}
	case "skip", "skip_u32":
		n := in.argByName(args, "n")
		left := new(big.Int).Set(n.N)
		for left.Sign() > 0 {
			if b.Ri >= b.Wi {
				in.suspend(fr, "$base: short read")
				continue
			}
			k := int64(b.Wi - b.Ri)
			if left.IsInt64() && left.Int64() < k {
				k = left.Int64()
			}
			b.Ri += int(k)
			left.Sub(left, big.NewInt(k))
		}
		return status("")
	case "undo_byte":
		if b.Ri <= b.mark {
			in.fail(fr, "C01", "io-precondition", "%s with nothing to undo", e.Str(tm))
		}
		b.Ri--
		return Value{K: KEmpty}
	}
	if m := writeRE.FindStringSubmatch(meth); m != nil && b.Writer {
		nbits, _ := strconv.Atoi(m[1])
		n := nbits / 8
		v := in.argByName(args, "a")
		bytes := disassemble(v.N, n, m[2] != "be")
		if m[3] == "_fast" {
			if avail() < n {
				in.fail(fr, "C01", "io-precondition", "%s needs %d writable bytes, the buffer has %d", e.Str(tm), n, avail())
			}
			copy(b.Data[b.Wi:], bytes)
			b.Wi += n
			return Value{K: KEmpty}
		}
		if n != 1 {
			in.unsupported("multi-byte coroutine write " + meth + " (known finding T3)")
		}
		for avail() < 1 {
			in.suspend(fr, "$base: short write")
		}
		b.Data[b.Wi] = bytes[0]
		b.Wi++
		return status("")
	}
	in.unsupported("I/O built-in " + meth)
	return Value{}
}

func assemble(b []byte, le bool) *big.Int {
	z := new(big.Int)
	for i := range b {
		var x byte
		if le {
			x = b[len(b)-1-i]
		} else {
			x = b[i]
		}
		z.Lsh(z, 8)
		z.Or(z, big.NewInt(int64(x)))
	}
	return z
}

func disassemble(v *big.Int, n int, le bool) []byte {
	out := make([]byte, n)
	x := new(big.Int).Set(v)
	for i := 0; i < n; i++ {
		by := byte(new(big.Int).And(x, big.NewInt(255)).Int64())
		if le {
			out[i] = by
		} else {
			out[n-1-i] = by
		}
		x.Rsh(x, 8)
	}
	return out
}

// suspend hands control back to whoever called the enclosing coroutine
// instance and blocks until it is resumed.
func (in *Interp) suspend(fr *frame, st string) {
	if fr.co == nil {
		in.unsupported("suspension outside a coroutine")
	}
	in.Stats.Suspensions++
	// Pointer-typed locals (slices) do not survive a suspension: the compiler drops every fact that involves them at
	// a potential suspension point (lang/check updateFactsForSuspension) because the resumed function starts with
	// them zeroed. They are emptied here, in every frame of the suspending call chain.
	for f := fr; f != nil; f = f.parent {
		for id, v := range f.locals {
			if v.K == KSlice {
				empty := []Value{}
				f.locals[id] = Value{K: KSlice, Back: &empty}
			}
		}
	}
	line, fn := in.curLine, in.curFunc
	fr.co.stack = in.stack
	fr.co.out <- coroMsg{status: status(st)}
	if !<-fr.co.resume {
		fr.co.dead = true
		panic(&abortSignal{reason: "abandoned"})
	}
	in.curLine, in.curFunc, in.stack = line, fn, fr.co.stack
}

// callUser calls a function of the program.
func (in *Interp) callUser(fr *frame, callee *a.Func, args map[t.ID]Value, capture bool) Value {
	name := in.P.FuncName(callee)
	for _, s := range in.stack {
		if s == name && !callee.Effect().Coroutine() {
			in.violate("C01", "recursion", "%s is re-entered while active", name)
		}
	}
	if fr.facts && !callee.Effect().Pure() {
		panic(&evalError{"effectful call inside a fact"})
	}
	if callee.Effect().Coroutine() && capture {
		return in.runInstance(name, callee, args)
	}
	if callee.Effect().Coroutine() && in.Obj.coros[name] != nil {
		// The callee was left suspended by an earlier "=?" call: a coroutine's resumption state belongs to the
		// function (it lives in the receiver), not to the call site, so this plain call resumes it. Its
		// suspensions suspend the caller, as for any plain "?" call.
		for {
			st := in.runInstance(name, callee, args)
			if st.K == KStatus && isSuspension(st.S) {
				in.suspend(fr, st.S)
				continue
			}
			return st
		}
	}
	nf := &frame{fn: callee, locals: map[t.ID]Value{}, args: args, co: fr.co, facts: fr.facts, parent: fr}
	return in.execFunc(nf)
}

// runInstance starts or resumes the coroutine instance of callee and returns
// the status it suspended or completed with.
func (in *Interp) runInstance(name string, callee *a.Func, args map[t.ID]Value) Value {
	callerStack, callerFunc, callerLine := in.stack, in.curFunc, in.curLine
	defer func() { in.stack, in.curFunc, in.curLine = callerStack, callerFunc, callerLine }()
	c := in.Obj.coros[name]
	if c == nil {
		c = &coro{name: name, resume: make(chan bool), out: make(chan coroMsg)}
		nf := &frame{fn: callee, locals: map[t.ID]Value{}, args: args, co: c}
		c.top = nf
		in.Obj.coros[name] = c
		saved := append([]string(nil), in.stack...)
		go func() {
			var msg coroMsg
			defer func() {
				if r := recover(); r != nil {
					switch x := r.(type) {
					case *abortSignal:
						msg = coroMsg{done: true, abort: x}
					case *Unsupported:
						msg = coroMsg{done: true, unsup: x}
					default:
						panic(r)
					}
				}
				if c.dead {
					return
				}
				c.out <- msg
			}()
			in.stack = saved
			v := in.execFunc(nf)
			msg = coroMsg{done: true, status: v}
		}()
	} else {
		c.top.args = args
		c.resume <- true
	}
	msg := <-c.out
	if msg.done {
		delete(in.Obj.coros, name)
	}
	_ = fmt.Sprint
	if msg.abort != nil {
		if msg.abort.reason == "abandoned" {
			return status("")
		}
		panic(msg.abort)
	}
	if msg.unsup != nil {
		panic(msg.unsup)
	}
	return msg.status
}

func (in *Interp) execFunc(fr *frame) Value {
	name := in.P.FuncName(fr.fn)
	in.stack = append(in.stack, name)
	savedFunc, savedLine := in.curFunc, in.curLine
	in.curFunc = name
	defer func() {
		if fr.co != nil && fr.co.dead {
			return
		}
		if len(in.stack) > 0 {
			in.stack = in.stack[:len(in.stack)-1]
		}
		in.curFunc, in.curLine = savedFunc, savedLine
	}()
	// locals are zero-initialised
	var decl func(ns []*a.Node)
	decl = func(ns []*a.Node) {
		for _, n := range ns {
			if n.Kind() == a.KVar {
				fr.locals[n.AsVar().Name()] = in.P.zeroValue(n.AsVar().XType())
			}
		}
	}
	decl(fr.fn.Body())
	if fr.fn.Effect().Coroutine() {
		for _, v := range fr.args {
			if v.K == KIO && !v.IO.Writer {
				v.IO.mark = v.IO.Ri
			}
		}
	}
	c := in.execBlock(fr, fr.fn.Body())
	if c == ctlReturn {
		return fr.ret
	}
	if fr.fn.Effect().Coroutine() {
		return status("")
	}
	if out := fr.fn.Out(); out != nil {
		return in.P.zeroValue(out)
	}
	return Value{K: KEmpty}
}

// ---------------------------------------------------------------- statements

type ctl int

const (
	ctlNone ctl = iota
	ctlBreak
	ctlContinue
	ctlReturn
)

func (in *Interp) checkCond(fr *frame, cond *a.Expr, prop, kind, what string) {
	ff := *fr
	ff.facts = true
	ok, evalErr := in.evalFact(&ff, cond)
	if evalErr != "" {
		in.violate(prop, kind, "%s %s cannot be evaluated in the current state: %s", what, cond.Str(in.P.TM), evalErr)
	}
	if !ok {
		in.violate(prop, kind, "%s %s is false here (%s)", what, cond.Str(in.P.TM), in.describeVars(fr, cond))
	}
}

func (in *Interp) evalFact(fr *frame, cond *a.Expr) (ok bool, evalErr string) {
	saved := in.Monitors
	in.Monitors = false
	defer func() {
		in.Monitors = saved
		if r := recover(); r != nil {
			if ee, is := r.(*evalError); is {
				evalErr = ee.msg
				return
			}
			panic(r)
		}
	}()
	v := in.eval(fr, cond)
	return v.K == KBool && v.B, ""
}

// describeVars lists the values of the identifiers a condition mentions.
func (in *Interp) describeVars(fr *frame, cond *a.Expr) string {
	seen := map[string]bool{}
	var parts []string
	cond.AsNode().Walk(func(n *a.Node) error {
		if n.Kind() != a.KExpr {
			return nil
		}
		e := n.AsExpr()
		var name string
		var v Value
		ok := false
		switch {
		case e.Operator() == 0 && e.ConstValue() == nil:
			if lv, has := fr.locals[e.Ident()]; has {
				name, v, ok = in.str(e.Ident()), lv, true
			}
		case e.IsThisDotFoo() != 0:
			if fv, has := in.Obj.Fields[e.Ident()]; has {
				name, v, ok = "this."+in.str(e.Ident()), fv, true
			}
		case e.IsArgsDotFoo() != 0:
			if av, has := fr.args[e.Ident()]; has {
				name, v, ok = "args."+in.str(e.Ident()), av, true
			}
		}
		if ok && !seen[name] {
			seen[name] = true
			parts = append(parts, name+"="+v.String())
		}
		return nil
	})
	return strings.Join(parts, ", ")
}

func (in *Interp) execBlock(fr *frame, block []*a.Node) ctl {
	for _, n := range block {
		if c := in.execStmt(fr, n); c != ctlNone {
			return c
		}
	}
	return ctlNone
}

func (in *Interp) execStmt(fr *frame, n *a.Node) ctl {
	in.burn()
	in.curLine = Line(n)
	// C02: every fact the compiler holds before this statement is true now.
	if in.Monitors {
		for _, f := range in.P.Facts[n] {
			in.Stats.Facts++
			if f.ConstValue() == nil {
				in.Stats.FactsNonConst++
			}
			in.checkCond(fr, f, "C02", "false-fact", "the compiler's fact")
		}
	}
	switch n.Kind() {
	case a.KVar:
		return ctlNone
	case a.KAssert:
		as := n.AsAssert()
		if as.IsChooseCPUArch() {
			in.unsupported("choose")
		}
		if in.Monitors {
			in.Stats.Asserts++
			in.checkCond(fr, as.Condition(), "C02", "false-assert", "assert")
		}
		return ctlNone
	case a.KAssign:
		return in.execAssign(fr, n.AsAssign())
	case a.KIf:
		for i := n.AsIf(); i != nil; i = i.ElseIf() {
			if in.eval(fr, i.Condition()).B {
				return in.execBlock(fr, i.BodyIfTrue())
			}
			if i.ElseIf() == nil {
				return in.execBlock(fr, i.BodyIfFalse())
			}
		}
		return ctlNone
	case a.KWhile:
		return in.execWhile(fr, n.AsWhile())
	case a.KJump:
		j := n.AsJump()
		fr.target = j.JumpTarget()
		if j.Keyword() == t.IDBreak {
			return ctlBreak
		}
		return ctlContinue
	case a.KRet:
		r := n.AsRet()
		var v Value
		if r.Value() != nil {
			v = in.eval(fr, r.Value())
		}
		if r.Keyword() == t.IDYield {
			in.suspend(fr, v.S)
			return ctlNone
		}
		if out := fr.fn.Out(); out != nil && v.K == KNum && in.Monitors {
			lo, hi, _ := in.P.typeBounds(out)
			in.Stats.Assign++
			if hi != nil && (v.N.Cmp(lo) < 0 || v.N.Cmp(hi) > 0) {
				in.violate("C01", "return-out-of-range", "returned value %s is outside the return type %s", v.N, out.Str(in.P.TM))
			}
		}
		fr.ret = copyValue(v)
		return ctlReturn
	case a.KIOManip:
		return in.execIOManip(fr, n.AsIOManip())
	case a.KIterate:
		return in.execIterate(fr, n.AsIterate())
	}
	in.unsupported(fmt.Sprintf("statement kind %v", n.Kind()))
	return ctlNone
}

// execIOManip implements io_bind for a local io_reader / io_writer: inside the
// block the variable is a fresh buffer over the given slice (ri = 0, wi = len
// for a reader; wi = 0 for a writer), afterwards it is what it was before.
func (in *Interp) execIOManip(fr *frame, m *a.IOManip) ctl {
	if m.Keyword() == t.IDIOLimit {
		return in.execIOLimit(fr, m)
	}
	if m.Keyword() != t.IDIOBind {
		in.unsupported("io manipulation " + in.str(m.Keyword()))
	}
	io := m.IO()
	if io.Operator() != 0 {
		in.unsupported("io_bind of " + io.Str(in.P.TM))
	}
	old, ok := fr.locals[io.Ident()]
	if !ok || old.K != KIO {
		in.unsupported("io_bind of " + io.Str(in.P.TM))
	}
	data := in.eval(fr, m.Arg1())
	pos := in.eval(fr, m.HistoryPosition())
	elems, lo, hi := in.elements(data)
	nb := &IOBuf{Writer: old.IO.Writer, Data: make([]byte, hi-lo)}
	for i := lo; i < hi; i++ {
		nb.Data[i-lo] = byte((*elems)[i].N.Int64())
	}
	if !nb.Writer {
		nb.Wi = hi - lo
	}
	if pos.N.IsUint64() {
		nb.Pos = pos.N.Uint64()
	}
	fr.locals[io.Ident()] = Value{K: KIO, IO: nb}
	c := in.execBlock(fr, m.Body())
	if nb.Writer {
		for i := 0; i < nb.Wi; i++ {
			(*elems)[lo+i] = num(int64(nb.Data[i]))
		}
	}
	fr.locals[io.Ident()] = old
	return c
}

// execIOLimit implements io_limit for an io_reader: inside the block at most
// 'limit' more bytes are visible; the limited view counts as closed only if the
// underlying reader is closed and the limit hides nothing. Afterwards the
// reader has its own end and closed-ness again (what was consumed stays consumed).
func (in *Interp) execIOLimit(fr *frame, m *a.IOManip) ctl {
	v := in.eval(fr, m.IO())
	if v.K != KIO || v.IO == nil || v.IO.Writer {
		in.unsupported("io_limit of " + m.IO().Str(in.P.TM))
	}
	b := v.IO
	lim := in.eval(fr, m.Arg1())
	wi0, closed0 := b.Wi, b.Closed
	if lim.N.IsInt64() && lim.N.Int64() < int64(b.Wi-b.Ri) {
		b.Wi = b.Ri + int(lim.N.Int64())
	}
	b.Closed = closed0 && wi0 <= b.Wi
	c := in.execBlock(fr, m.Body())
	b.Wi, b.Closed = wi0, closed0
	return c
}

// execIterate implements doc/note/iterate-loops.md: the assigned slices (cut to
// the shortest one) are partitioned into windows of the clause's length, placed
// 'advance' apart; each clause's body runs while a whole window remains, then
// the next (else) clause continues from where the previous one stopped. The
// unroll count does not affect semantics. Afterwards the variables are empty.
func (in *Interp) execIterate(fr *frame, it *a.Iterate) ctl {
	type win struct {
		id     t.ID
		back   *[]Value
		lo, hi int
	}
	var ws []win
	total := -1
	for _, o := range it.Assigns() {
		as := o.AsAssign()
		if as.LHS().Operator() != 0 {
			in.unsupported("iterate over " + as.LHS().Str(in.P.TM))
		}
		v := in.eval(fr, as.RHS())
		elems, lo, hi := in.elements(v)
		ws = append(ws, win{as.LHS().Ident(), elems, lo, hi})
		if total < 0 || hi-lo < total {
			total = hi - lo
		}
	}
	if len(ws) == 0 {
		return ctlNone
	}
	off := 0
	finish := func() {
		for _, w := range ws {
			fr.locals[w.id] = Value{K: KSlice, Back: w.back, Lo: w.lo + off, Hi: w.lo + off}
		}
	}
	for cl := it; cl != nil; cl = cl.ElseIterate() {
		length, err1 := strconv.Atoi(in.str(cl.Length()))
		advance, err2 := strconv.Atoi(in.str(cl.Advance()))
		if err1 != nil || err2 != nil || length <= 0 || advance <= 0 {
			in.unsupported("iterate clause parameters")
		}
		for total-off >= length {
			in.burn()
			for _, w := range ws {
				fr.locals[w.id] = Value{K: KSlice, Back: w.back, Lo: w.lo + off, Hi: w.lo + off + length}
			}
			switch in.execBlock(fr, cl.Body()) {
			case ctlBreak, ctlContinue:
				// the language leaves jumps out of iterate bodies unspecified (TODO in lang/check/type.go)
				in.unsupported("jump inside an iterate body")
			case ctlReturn:
				return ctlReturn
			}
			off += advance
		}
	}
	finish()
	return ctlNone
}

func (in *Interp) loopConds(fr *frame, w *a.While, keys ...t.ID) {
	if !in.Monitors {
		return
	}
	for _, o := range w.Asserts() {
		as := o.AsAssert()
		for _, k := range keys {
			if as.Keyword() == k {
				in.Stats.Invs++
				in.checkCond(fr, as.Condition(), "C02", "false-loop-"+in.str(k), "loop "+in.str(k))
			}
		}
	}
}

func (in *Interp) execWhile(fr *frame, w *a.While) ctl {
	in.loopConds(fr, w, t.IDPre, t.IDInv)
	for {
		in.burn()
		// The loop condition is one proving site evaluated on every iteration:
		// its cached bounds belong to the first one (see DESIGN, K3), so only
		// the index/overflow monitors apply to it.
		in.noMBounds = true
		c := in.eval(fr, w.Condition()).B
		in.noMBounds = false
		if !c {
			break
		}
		switch in.execBlock(fr, w.Body()) {
		case ctlBreak:
			if fr.target == a.Loop(w) {
				in.loopConds(fr, w, t.IDInv, t.IDPost)
				return ctlNone
			}
			return ctlBreak
		case ctlContinue:
			if fr.target != a.Loop(w) {
				return ctlContinue
			}
		case ctlReturn:
			return ctlReturn
		}
		in.loopConds(fr, w, t.IDPre, t.IDInv)
	}
	in.loopConds(fr, w, t.IDInv, t.IDPost)
	return ctlNone
}

func (in *Interp) execAssign(fr *frame, as *a.Assign) ctl {
	tm := in.P.TM
	op := as.Operator()
	lhs, rhs := as.LHS(), as.RHS()
	var v Value
	if op == t.IDEqQuestion {
		v = in.call(fr, rhs, true)
	} else if rhs.Operator() == t.IDOpenParen && rhs.Effect().Coroutine() {
		// a plain "?" call: a suspension of the callee suspends this coroutine
		// (inline execution), an error status propagates out of the caller.
		v = in.call(fr, rhs, false)
		if v.K == KStatus && v.S != "" {
			// the callee completed with a non-ok status: it propagates out of the caller
			fr.ret = v
			return ctlReturn
		}
	} else {
		v = in.eval(fr, rhs)
	}
	if lhs == nil {
		return ctlNone
	}
	if op != t.IDEq && op != t.IDEqQuestion {
		cur := in.eval(fr, lhs)
		bin := op.BinaryForm()
		if bin == 0 {
			in.unsupported("assignment operator " + tm.ByID(op))
		}
		// the compound assignment "x op= e" means "x = x op e" in the type of x
		fake := a.NewExpr(0, bin, 0, lhs.AsNode(), nil, rhs.AsNode(), nil)
		fake.SetMType(lhs.MType())
		v = in.binop(fr, fake, bin, cur, v)
	}
	in.store(fr, lhs, v)
	return ctlNone
}

func (in *Interp) store(fr *frame, lhs *a.Expr, v Value) {
	tm := in.P.TM
	if v.K == KNum && in.Monitors {
		if lo, hi, _ := in.P.typeBounds(lhs.MType()); hi != nil {
			in.Stats.Assign++
			if v.N.Cmp(lo) < 0 || v.N.Cmp(hi) > 0 {
				in.violate("C01", "store-out-of-range", "%s is assigned %s, outside its type %s", lhs.Str(tm), v.N, lhs.MType().Str(tm))
			}
		}
	}
	v = copyValue(v)
	into := func(old Value) Value {
		// arrays live in place: slices that alias the old storage must see the new elements
		if old.K == KArray && v.K == KArray && len(old.Elems) == len(v.Elems) {
			copy(old.Elems, v.Elems)
			return old
		}
		return v
	}
	switch lhs.Operator() {
	case 0:
		old, ok := fr.locals[lhs.Ident()]
		if !ok {
			in.unsupported("assignment to " + lhs.Str(tm))
		}
		fr.locals[lhs.Ident()] = into(old)
		return
	case t.IDDot:
		if lhs.IsThisDotFoo() != 0 {
			in.Obj.Fields[lhs.Ident()] = into(in.Obj.Fields[lhs.Ident()])
			return
		}
	case t.IDOpenBracket:
		// find the storage of the container: a local, a field, or a nested element
		c := in.lvalueContainer(fr, lhs.LHS().AsExpr())
		i := in.eval(fr, lhs.RHS().AsExpr())
		elems, lo, hi := in.elements(*c)
		in.Stats.Index++
		if i.N.Sign() < 0 || i.N.Cmp(big.NewInt(int64(hi-lo))) >= 0 {
			in.violate("C01", "index-out-of-bounds", "%s: store index %s is outside [0, %d)", lhs.Str(tm), i.N, hi-lo)
		}
		if c.K == KArray {
			c.Elems[int(i.N.Int64())] = v
		} else {
			(*elems)[lo+int(i.N.Int64())] = v
		}
		return
	}
	in.unsupported("assignment to " + lhs.Str(tm))
}

// lvalueContainer returns a pointer to the stored array/slice value that an
// element store goes to.
func (in *Interp) lvalueContainer(fr *frame, e *a.Expr) *Value {
	switch e.Operator() {
	case 0:
		if v, ok := fr.locals[e.Ident()]; ok {
			p := v // Elems / Back share their backing array with the stored value
			return &p
		}
	case t.IDDot:
		if e.IsThisDotFoo() != 0 {
			v := in.Obj.Fields[e.Ident()]
			return &v // Elems slice header shares the backing array with the stored value
		}
	case t.IDOpenBracket:
		c := in.lvalueContainer(fr, e.LHS().AsExpr())
		i := in.eval(fr, e.RHS().AsExpr())
		elems, lo, hi := in.elements(*c)
		if i.N.Sign() < 0 || i.N.Cmp(big.NewInt(int64(hi-lo))) >= 0 {
			in.violate("C01", "index-out-of-bounds", "%s: index %s is outside [0, %d)", e.Str(in.P.TM), i.N, hi-lo)
		}
		return &(*elems)[lo+int(i.N.Int64())]
	}
	in.unsupported("element store into " + e.Str(in.P.TM))
	return nil
}
