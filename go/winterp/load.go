// Package winterp is the reference interpreter of engine E2: it executes the
// checked AST produced by /repo's own tokenizer, parser and checker under the
// documented Wuffs semantics (ideal integers with proved ranges, named
// modular/saturating operators, zero-initialised variables, coroutines that
// keep their locals across suspension), independently of internal/cgen, and
// evaluates the monitors of C01 (no out-of-range index, no overflow, values
// inside the compiler's bounds) and C02 (every fact, assert and invariant is
// true when execution reaches it) while it runs.
package winterp

import (
	"fmt"
	"math/big"
	"strings"
	"sync"

	a "github.com/google/wuffs/lang/ast"
	"github.com/google/wuffs/lang/check"
	"github.com/google/wuffs/lang/parse"
	t "github.com/google/wuffs/lang/token"
)

// Program is a parsed and checked single-file package.
type Program struct {
	TM      *t.Map
	Pkg     string
	File    *a.File
	Structs []*a.Struct
	Funcs   map[string]*a.Func // "foo.step"
	Order   []*a.Func          // declaration order
	Consts  map[t.ID]*a.Const
	// Facts[stmt] are the facts the checker held before bounds-checking stmt.
	Facts map[*a.Node][]*a.Expr
	// FuncOf maps a statement to its function (for reports).
	Source string
}

var loadMu sync.Mutex

// Load tokenizes, parses and checks src as package pkg. A rejection by any
// stage is returned as an error (stage name prefixed).
func Load(pkg string, src []byte) (p *Program, err error) {
	loadMu.Lock()
	defer loadMu.Unlock()
	defer func() {
		if r := recover(); r != nil {
			err = fmt.Errorf("panic: %v", r)
		}
	}()
	tm := &t.Map{}
	fn := pkg + ".wuffs"
	toks, _, err := t.Tokenize(tm, fn, src)
	if err != nil {
		return nil, fmt.Errorf("tokenize: %v", err)
	}
	f, err := parse.Parse(tm, fn, toks, nil)
	if err != nil {
		return nil, fmt.Errorf("parse: %v", err)
	}
	p = &Program{TM: tm, Pkg: pkg, File: f, Funcs: map[string]*a.Func{}, Consts: map[t.ID]*a.Const{}, Facts: map[*a.Node][]*a.Expr{}, Source: string(src)}
	check.VerifObserver = func(fn *a.Func, stmt *a.Node, facts []*a.Expr) {
		p.Facts[stmt] = facts
	}
	defer func() { check.VerifObserver = nil }()
	if _, err := check.Check(tm, []*a.File{f}, nil); err != nil {
		return nil, fmt.Errorf("check: %v", err)
	}
	for _, d := range f.TopLevelDecls() {
		switch d.Kind() {
		case a.KFunc:
			fu := d.AsFunc()
			name := tm.ByID(fu.Receiver()[1]) + "." + tm.ByID(fu.FuncName())
			p.Funcs[name] = fu
			p.Order = append(p.Order, fu)
		case a.KStruct:
			p.Structs = append(p.Structs, d.AsStruct())
		case a.KConst:
			p.Consts[d.AsConst().QID()[1]] = d.AsConst()
		}
	}
	return p, nil
}

// FuncName returns "recv.name" of fu.
func (p *Program) FuncName(fu *a.Func) string {
	return p.TM.ByID(fu.Receiver()[1]) + "." + p.TM.ByID(fu.FuncName())
}

// Line returns the source line of a node.
func Line(n *a.Node) uint32 {
	_, l := n.AsRaw().FilenameLine()
	return l
}

// ---------------------------------------------------------------- values

// Kind of a Value.
type Kind uint8

const (
	KNum Kind = iota
	KBool
	KStatus
	KArray
	KSlice
	KIO
	KEmpty
)

// Value is a run-time value.
type Value struct {
	K     Kind
	N     *big.Int // KNum
	B     bool     // KBool
	S     string   // KStatus: "" is ok, else the full C string ("#pkg: msg")
	Elems []Value  // KArray (value semantics: copied on assignment)
	Back  *[]Value // KSlice backing store (aliases an array's Elems)
	Lo    int      // KSlice window
	Hi    int
	IO    *IOBuf // KIO
}

// IOBuf is an io_buffer as seen by the callee.
type IOBuf struct {
	Data   []byte
	Ri, Wi int
	Pos    uint64
	Closed bool
	Writer bool
	// scratch of a multi-byte read in progress (bytes consumed so far)
	mark int
}

func num(i int64) Value          { return Value{K: KNum, N: big.NewInt(i)} }
func numBig(b *big.Int) Value    { return Value{K: KNum, N: b} }
func boolean(b bool) Value       { return Value{K: KBool, B: b} }
func status(s string) Value      { return Value{K: KStatus, S: s} }
func (v Value) isOKStatus() bool { return v.K == KStatus && v.S == "" }

func (v Value) String() string {
	switch v.K {
	case KNum:
		return v.N.String()
	case KBool:
		if v.B {
			return "true"
		}
		return "false"
	case KStatus:
		if v.S == "" {
			return "ok"
		}
		return fmt.Sprintf("%q", v.S)
	case KArray:
		var sb strings.Builder
		sb.WriteString("[")
		for i, e := range v.Elems {
			if i > 0 {
				sb.WriteString(" ")
			}
			if i >= 16 {
				sb.WriteString("…")
				break
			}
			sb.WriteString(e.String())
		}
		sb.WriteString("]")
		return sb.String()
	case KSlice:
		return fmt.Sprintf("slice[%d..%d]", v.Lo, v.Hi)
	case KIO:
		return fmt.Sprintf("io{ri=%d wi=%d len=%d closed=%v}", v.IO.Ri, v.IO.Wi, len(v.IO.Data), v.IO.Closed)
	}
	return "{}"
}

func copyValue(v Value) Value {
	if v.K == KArray {
		n := Value{K: KArray, Elems: make([]Value, len(v.Elems))}
		for i, e := range v.Elems {
			n.Elems[i] = copyValue(e)
		}
		return n
	}
	if v.K == KNum {
		return Value{K: KNum, N: new(big.Int).Set(v.N)}
	}
	return v
}

// zeroValue builds the zero value of a type.
func (p *Program) zeroValue(typ *a.TypeExpr) Value {
	switch {
	case typ.IsBool():
		return boolean(false)
	case typ.IsStatus():
		return status("")
	case typ.IsNumType():
		return num(0)
	case typ.IsEitherArrayType():
		n := int(typ.ArrayLength().ConstValue().Int64())
		v := Value{K: KArray, Elems: make([]Value, n)}
		for i := range v.Elems {
			v.Elems[i] = p.zeroValue(typ.Inner())
		}
		return v
	case typ.IsEitherSliceType():
		empty := []Value{}
		return Value{K: KSlice, Back: &empty}
	case typ.IsIOType():
		return Value{K: KIO, IO: &IOBuf{Writer: p.TM.ByID(typ.QID()[1]) == "io_writer"}}
	}
	return Value{K: KEmpty}
}

var (
	one  = big.NewInt(1)
	zero = big.NewInt(0)
)

var numMax = map[string]*big.Int{}

func init() {
	for _, w := range []int{8, 16, 32, 64} {
		m := new(big.Int).Lsh(one, uint(w))
		numMax[fmt.Sprintf("u%d", w)] = m.Sub(m, one)
	}
}

// typeBounds returns the inclusive range of a (possibly refined) numeric type
// and its bit width (0 for ideal / non-numeric).
func (p *Program) typeBounds(typ *a.TypeExpr) (lo, hi *big.Int, width int) {
	if typ == nil || !typ.IsNumType() {
		return nil, nil, 0
	}
	name := p.TM.ByID(typ.QID()[1])
	hi = numMax[name]
	if hi == nil {
		return nil, nil, 0
	}
	lo = zero
	width = hi.BitLen()
	if typ.IsRefined() {
		if m := typ.Min(); m != nil && m.ConstValue() != nil {
			lo = m.ConstValue()
		}
		if m := typ.Max(); m != nil && m.ConstValue() != nil {
			hi = m.ConstValue()
		}
	}
	return lo, hi, width
}
