// Package c07 decides property C07: std codecs agree with independent
// implementations on valid data (round trips through reference encoders,
// hashes against Go's standard library under arbitrary update partitions).
package c07

import (
	"bytes"
	"crypto/sha256"
	"encoding/binary"
	"encoding/json"
	"fmt"
	"hash/adler32"
	"hash/crc32"
	"hash/crc64"
	"image"
	"image/color"
	"testing"

	"pgregory.net/rapid"

	"verif/internal/ev"
	"verif/stdgen"
	"verif/stdh"
	"verif/stdrun"
)

func TestMain(m *testing.M) { ev.Main(m) }

// Case is one replayable round trip: Encoded was produced by an independent
// encoder from Want (bytes, or BGRA pixels of Width x Height).
type Case struct {
	Kind     string      `json:"kind"`
	Encoded  []byte      `json:"encoded"`
	Want     []byte      `json:"want"`
	Width    int         `json:"width,omitempty"`
	Height   int         `json:"height,omitempty"`
	PixFmt   uint32      `json:"pixfmt,omitempty"`
	Features []string    `json:"features"`
	Plan     stdgen.Plan `json:"plan"`
	Quirks   [][2]uint64 `json:"quirks,omitempty"`
	Encoder  string      `json:"encoder"`
}

const (
	fmtBGRA8  = 0x81008888 // WUFFS_BASE__PIXEL_FORMAT__BGRA_NONPREMUL
	fmtBGRA16 = 0x8100BBBB // WUFFS_BASE__PIXEL_FORMAT__BGRA_NONPREMUL_4X16LE
)

// pixels converts a Go image to Wuffs BGRA_NONPREMUL (8 bit) or ..._4X16LE (16 bit), exactly.
func pixels(m image.Image, sixteen bool) []byte {
	b := m.Bounds()
	var out []byte
	for y := b.Min.Y; y < b.Max.Y; y++ {
		for x := b.Min.X; x < b.Max.X; x++ {
			var r, g, bl, a uint16
			switch im := m.(type) {
			case *image.Gray:
				v := uint16(im.GrayAt(x, y).Y) * 0x101
				r, g, bl, a = v, v, v, 0xFFFF
			case *image.Gray16:
				v := im.Gray16At(x, y).Y
				r, g, bl, a = v, v, v, 0xFFFF
			case *image.RGBA: // generated opaque
				c := im.RGBAAt(x, y)
				r, g, bl, a = uint16(c.R)*0x101, uint16(c.G)*0x101, uint16(c.B)*0x101, 0xFFFF
			case *image.NRGBA:
				c := im.NRGBAAt(x, y)
				r, g, bl, a = uint16(c.R)*0x101, uint16(c.G)*0x101, uint16(c.B)*0x101, uint16(c.A)*0x101
			case *image.NRGBA64:
				c := im.NRGBA64At(x, y)
				r, g, bl, a = c.R, c.G, c.B, c.A
			case *image.RGBA64: // generated opaque
				c := im.RGBA64At(x, y)
				r, g, bl, a = c.R, c.G, c.B, 0xFFFF
			case *image.Paletted:
				c := im.Palette[im.ColorIndexAt(x, y)].(color.NRGBA)
				r, g, bl, a = uint16(c.R)*0x101, uint16(c.G)*0x101, uint16(c.B)*0x101, uint16(c.A)*0x101
			}
			if sixteen {
				var p [8]byte
				binary.LittleEndian.PutUint16(p[0:], bl)
				binary.LittleEndian.PutUint16(p[2:], g)
				binary.LittleEndian.PutUint16(p[4:], r)
				binary.LittleEndian.PutUint16(p[6:], a)
				out = append(out, p[:]...)
			} else {
				out = append(out, byte(bl>>8), byte(g>>8), byte(r>>8), byte(a>>8))
			}
		}
	}
	return out
}

func genCase(t *rapid.T) Case {
	var c Case
	switch rapid.IntRange(0, 11).Draw(t, "family") {
	case 0, 1, 2, 3: // Go compression encoders
		payload := stdgen.Payload(t, "pl", 90000)
		e := stdgen.Compressed(t, payload, "enc")
		c = Case{Kind: e.Pkg + ".decoder", Encoded: e.Data, Want: e.Original, Features: e.Features, Quirks: e.Quirks, Encoder: "go/compress/" + e.Pkg}
	case 4: // bzip2 tool
		payload := stdgen.Payload(t, "pl", 90000)
		lvl := rapid.IntRange(1, 9).Draw(t, "level")
		enc, err := stdgen.ToolCompress([]string{"bzip2", fmt.Sprintf("-%d", lvl), "-c"}, payload)
		if err != nil {
			t.Skip("bzip2 tool unavailable")
		}
		c = Case{Kind: "bzip2.decoder", Encoded: enc, Want: payload, Features: []string{fmt.Sprintf("level%d", lvl)}, Encoder: "bzip2"}
	case 5, 6: // xz tool, both container formats
		payload := stdgen.Payload(t, "pl", 90000)
		lvl := rapid.IntRange(0, 9).Draw(t, "level")
		args := []string{"xz", fmt.Sprintf("-%d", lvl), "-c", "-T1"}
		feats := []string{fmt.Sprintf("level%d", lvl)}
		if rapid.Bool().Draw(t, "extreme") {
			args = append(args, "-e")
			feats = append(feats, "extreme")
		}
		kind := "xz.decoder"
		if rapid.Bool().Draw(t, "lzma") {
			args = append(args, "--format=lzma")
			kind = "lzma.decoder"
		} else {
			chk := rapid.SampledFrom([]string{"none", "crc32", "crc64", "sha256"}).Draw(t, "check")
			args = append(args, "--format=xz", "--check="+chk)
			feats = append(feats, "check-"+chk)
		}
		enc, err := stdgen.ToolCompress(args, payload)
		if err != nil {
			t.Skip("xz tool unavailable")
		}
		c = Case{Kind: kind, Encoded: enc, Want: payload, Features: feats, Encoder: "xz"}
	case 7, 8: // PNG
		m, model := stdgen.Image(t, "img", 70)
		sixteen := model == "gray16" || model == "nrgba64" || model == "rgba64"
		c = Case{Kind: "png.decoder", Encoded: stdgen.PNG(t, m, "png"), Want: pixels(m, sixteen), Width: m.Bounds().Dx(), Height: m.Bounds().Dy(),
			Features: []string{"model-" + model}, Encoder: "go/image/png"}
		c.PixFmt = fmtBGRA8
		if sixteen {
			c.PixFmt = fmtBGRA16
		}
	case 9: // GIF, single or multi frame; expected = frames painted over each other (blend SRC, no disposal)
		enc, g := stdgen.GIF(t, "gif", 40)
		if g == nil {
			t.Skip("gif encode failed")
		}
		w, h := g.Config.Width, g.Config.Height
		canvas := make([]byte, w*h*4)
		for _, fr := range g.Image {
			b := fr.Bounds()
			for y := b.Min.Y; y < b.Max.Y; y++ {
				for x := b.Min.X; x < b.Max.X; x++ {
					r, gg, bl, a := fr.Palette[fr.ColorIndexAt(x, y)].RGBA()
					o := (y*w + x) * 4
					if a == 0 {
						canvas[o], canvas[o+1], canvas[o+2], canvas[o+3] = 0, 0, 0, 0
					} else {
						canvas[o], canvas[o+1], canvas[o+2], canvas[o+3] = byte(bl>>8), byte(gg>>8), byte(r>>8), 0xFF
					}
				}
			}
		}
		feats := []string{fmt.Sprintf("frames%d", len(g.Image))}
		c = Case{Kind: "gif.decoder", Encoded: enc, Want: canvas, Width: w, Height: h, PixFmt: fmtBGRA8, Features: feats, Encoder: "go/image/gif"}
	case 10: // BMP
		m, model := stdgen.Image(t, "img", 60)
		if model == "nrgba64" || model == "gray16" || model == "rgba64" || model == "nrgba" {
			m2 := image.NewRGBA(m.Bounds())
			for y := 0; y < m.Bounds().Dy(); y++ {
				for x := 0; x < m.Bounds().Dx(); x++ {
					r, g, b, _ := m.At(x, y).RGBA()
					m2.SetRGBA(x, y, color.RGBA{uint8(r >> 8), uint8(g >> 8), uint8(b >> 8), 0xFF})
				}
			}
			m, model = m2, "rgba"
		}
		if pm, ok := m.(*image.Paletted); ok { // bmp has no palette alpha
			for i, e := range pm.Palette {
				n := e.(color.NRGBA)
				n.A = 0xFF
				pm.Palette[i] = n
			}
		}
		c = Case{Kind: "bmp.decoder", Encoded: stdgen.BMP(m), Want: pixels(m, false), Width: m.Bounds().Dx(), Height: m.Bounds().Dy(), PixFmt: fmtBGRA8,
			Features: []string{"model-" + model}, Encoder: "x/image/bmp"}
	default: // hashers
		payload := stdgen.Payload(t, "pl", 200000)
		kind := rapid.SampledFrom([]string{"crc32.ieee_hasher", "crc64.ecma_hasher", "adler32.hasher", "sha256.hasher"}).Draw(t, "hasher")
		var want []byte
		switch kind {
		case "crc32.ieee_hasher":
			want = binary.LittleEndian.AppendUint64(nil, uint64(crc32.ChecksumIEEE(payload)))
		case "crc64.ecma_hasher":
			want = binary.LittleEndian.AppendUint64(nil, crc64.Checksum(payload, crc64.MakeTable(crc64.ECMA)))
		case "adler32.hasher":
			want = binary.LittleEndian.AppendUint64(nil, uint64(adler32.Checksum(payload)))
		default:
			s := sha256.Sum256(payload)
			// bitvec256: elements_u64[0] holds the least significant 64 bits of the big-endian digest
			for i := 3; i >= 0; i-- {
				want = binary.LittleEndian.AppendUint64(want, binary.BigEndian.Uint64(s[i*8:]))
			}
		}
		c = Case{Kind: kind, Encoded: payload, Want: want, Encoder: "go/hash", Features: []string{"hash"}}
		c.Plan = stdgen.Plan{SrcExact: true, Closed: true}
		switch rapid.IntRange(0, 4).Draw(t, "partition") {
		case 0:
		case 1:
			c.Plan.SrcMode, c.Plan.SrcChunk = 1, uint32(rapid.SampledFrom([]int{1, 15, 16, 17, 31, 32, 33, 63, 64, 65, 5551, 5552, 5553}).Draw(t, "chunk"))
			if len(payload) > 4000 && c.Plan.SrcChunk < 16 {
				c.Plan.SrcChunk = 64
			}
		default:
			c.Plan.SrcMode = 2
			n := rapid.IntRange(2, 10).Draw(t, "n")
			for i := 0; i < n; i++ {
				c.Plan.SrcList = append(c.Plan.SrcList, uint32(rapid.SampledFrom([]int{0, 1, 3, 15, 16, 17, 31, 32, 33, 64, 65, 100, 1000, 5552, 5553}).Draw(t, "piece")))
			}
		}
		c.Plan.TokCap = uint32(rapid.IntRange(0, 1).Draw(t, "combined"))
		return c
	}
	if rapid.IntRange(0, 2).Draw(t, "chunked") == 0 {
		c.Plan = stdgen.DrawPlan(t, "plan", len(c.Encoded))
		c.Plan.Closed = true
		c.Plan.WorkMode = 0
	} else {
		c.Plan = stdgen.OneShot
	}
	return c
}

func checkCase(env *stdrun.Env, c Case) (msg string, nontrivial bool, classes []string) {
	k, ok := env.Kind(c.Kind)
	if !ok {
		return "", false, []string{"unknown-kind"}
	}
	o := stdrun.Opts{Quirks: c.Quirks, PixFmt: c.PixFmt, Dump: 1, Seed: 1}
	resp, err := env.Run("san", k, c.Encoded, c.Plan, o)
	if err != nil {
		if ce, ok := stdh.IsCrash(err); ok {
			return fmt.Sprintf("%s crashed on a valid %s file from %s: %v", c.Kind, c.Kind, c.Encoder, ce), false, nil
		}
		return "", false, []string{"harness-error"}
	}
	if resp.GaveUp {
		return "", false, []string{"gave-up"}
	}
	where := fmt.Sprintf("%s, %d encoded bytes from %s %v, plan %+v", c.Kind, len(c.Encoded), c.Encoder, c.Features, c.Plan)
	switch k.Iface {
	case stdh.IOT:
		if resp.Final != "" {
			return fmt.Sprintf("%s: final status %q on a valid file (decoded %d of %d bytes)", where, resp.Final, len(resp.Out), len(c.Want)), false, nil
		}
		if !bytes.Equal(resp.Out, c.Want) {
			i := 0
			for i < len(resp.Out) && i < len(c.Want) && resp.Out[i] == c.Want[i] {
				i++
			}
			return fmt.Sprintf("%s: decoded %d bytes, original has %d, first difference at %d", where, len(resp.Out), len(c.Want), i), false, nil
		}
		if resp.Consumed != uint64(len(c.Encoded)) {
			return fmt.Sprintf("%s: consumed %d of %d encoded bytes with status OK", where, resp.Consumed, len(c.Encoded)), false, nil
		}
	case stdh.IMG:
		if resp.Final != "@base: end of data" {
			return fmt.Sprintf("%s: final status %q, want \"@base: end of data\" after the last frame", where, resp.Final), false, nil
		}
		if int(resp.W) != c.Width || int(resp.H) != c.Height {
			return fmt.Sprintf("%s: decoded size %dx%d, original %dx%d", where, resp.W, resp.H, c.Width, c.Height), false, nil
		}
		if !bytes.Equal(resp.Pix, c.Want) {
			i := 0
			for i < len(resp.Pix) && i < len(c.Want) && resp.Pix[i] == c.Want[i] {
				i++
			}
			bpp := 4
			if c.PixFmt == fmtBGRA16 {
				bpp = 8
			}
			return fmt.Sprintf("%s: pixels differ (%d vs %d bytes), first at byte %d = pixel (%d,%d)", where, len(resp.Pix), len(c.Want), i, (i/bpp)%max(c.Width, 1), (i/bpp)/max(c.Width, 1)), false, nil
		}
		if resp.Consumed != uint64(len(c.Encoded)) {
			return fmt.Sprintf("%s: consumed %d of %d bytes", where, resp.Consumed, len(c.Encoded)), false, nil
		}
	default:
		if !bytes.Equal(resp.Hash, c.Want) {
			return fmt.Sprintf("%s: hash %x, reference %x", where, resp.Hash, c.Want), false, nil
		}
	}
	classes = append(classes, "codec-"+k.Pkg())
	for _, f := range c.Features {
		classes = append(classes, "feat-"+f)
	}
	if !c.Plan.Trivial() {
		classes = append(classes, "chunked")
	}
	size := len(c.Want)
	if k.Iface >= stdh.H32 {
		size = len(c.Encoded)
		nontrivial = size >= 64 && c.Plan.SrcMode != 0
	} else {
		nontrivial = size >= 64
	}
	if size > 65536 {
		classes = append(classes, "over-64KiB")
	}
	if size > 32768 {
		classes = append(classes, "over-32KiB")
	}
	return "", nontrivial, classes
}

func runCase(t interface{ Fatalf(string, ...any) }, env *stdrun.Env, c Case) {
	ev.Eval()
	msg, nt, classes := checkCase(env, c)
	if msg != "" {
		ev.Fail("C07", "roundtrip", c, msg)
		t.Fatalf("C07 violated: %s", msg)
	}
	for _, cl := range classes {
		ev.Class(cl)
	}
	if nt {
		ev.Nontrivial(ev.Hash(c.Kind, c.Encoded, fmt.Sprintf("%+v", c.Plan)), func() any {
			s := c
			if len(s.Encoded) > 48 {
				s.Encoded = s.Encoded[:48]
			}
			if len(s.Want) > 48 {
				s.Want = s.Want[:48]
			}
			s.Encoder += fmt.Sprintf(" (sample truncated: %d encoded, %d decoded bytes)", len(c.Encoded), len(c.Want))
			return s
		})
	}
}

func TestProp(t *testing.T) {
	env, err := stdrun.Get()
	if err != nil {
		t.Fatal(err)
	}
	defer env.Close()
	rapid.Check(t, func(t *rapid.T) {
		runCase(t, env, genCase(t))
	})
}

func TestReplay(t *testing.T) {
	p := ev.ReplayPath()
	if p == "" {
		t.Skip("no VERIF_REPLAY")
	}
	env, err := stdrun.Get()
	if err != nil {
		t.Fatal(err)
	}
	defer env.Close()
	r, err := ev.LoadReplay(p)
	if err != nil {
		t.Fatal(err)
	}
	var c Case
	if err := json.Unmarshal(r.Case, &c); err != nil {
		t.Fatal(err)
	}
	runCase(t, env, c)
}
