// Package c08 decides property C08 for the standard library: generated
// objects enforce their call protocol (a 3-variable reference model predicts
// every protocol status) and every call keeps the I/O buffer contract (checked
// by the harness after each call, including calls that fail).
package c08

import (
	"bytes"
	"encoding/json"
	"fmt"
	"strings"
	"testing"

	"pgregory.net/rapid"

	"verif/internal/ev"
	"verif/stdgen"
	"verif/stdh"
	"verif/stdrun"
)

func TestMain(m *testing.M) { ev.Main(m) }

// Step is one operation of a history.
type Step struct {
	Op      string `json:"op"` // init | feed | window | call
	Flags   uint32 `json:"flags,omitempty"`
	Prefill uint8  `json:"prefill,omitempty"`
	Delta   int8   `json:"delta,omitempty"`
	VerMode uint8  `json:"ver_mode,omitempty"`
	N       uint32 `json:"n,omitempty"`
	Close   bool   `json:"close,omitempty"`
	Method  uint8  `json:"method,omitempty"`
	Variant uint8  `json:"variant,omitempty"`
}

// Case is a replayable history on one object.
type Case struct {
	Kind    string `json:"kind"`
	Payload []byte `json:"payload"`
	Source  string `json:"source"`
	Steps   []Step `json:"steps"`
}

// methods per interface: name, is coroutine, has dst, has src.
type meth struct {
	name            string
	coro, dst, src  bool
	statusReturning bool
}

var methods = map[int][]meth{
	stdh.IOT:  {{"transform_io", true, true, true, true}, {"set_quirk", false, false, false, true}},
	stdh.IMG:  {{"decode_image_config", true, true, true, true}, {"decode_frame_config", true, true, true, true}, {"decode_frame", true, true, true, true}, {"restart_frame", false, false, false, true}, {"tell_me_more", true, true, true, true}, {"set_quirk", false, false, false, true}, {"set_report_metadata", false, false, false, false}},
	stdh.TOK:  {{"decode_tokens", true, true, true, true}, {"set_quirk", false, false, false, true}},
	stdh.H32:  {{"set_quirk", false, false, false, true}},
	stdh.H64:  {{"set_quirk", false, false, false, true}},
	stdh.H256: {{"set_quirk", false, false, false, true}},
}

func genCase(t *rapid.T, env *stdrun.Env) Case {
	k := env.Kinds[rapid.IntRange(0, len(env.Kinds)-1).Draw(t, "kind")]
	if rapid.IntRange(0, 7).Draw(t, "metakind") == 0 {
		// a history about metadata reports: one of the decoders that have metadata to report
		if mk, ok := env.Kind(rapid.SampledFrom([]string{"gif.decoder", "png.decoder", "gif.decoder", "png.decoder", "jpeg.decoder", "webp.decoder"}).Draw(t, "metapkg")); ok {
			k = mk
		}
	}
	c := Case{Kind: k.Name}
	corp := stdgen.LoadCorpus(ev.RepoRoot())
	files := corp.Small(k.Pkg(), 8<<10)
	if len(files) > 0 && rapid.IntRange(0, 4).Draw(t, "valid") > 0 {
		f := files[rapid.IntRange(0, len(files)-1).Draw(t, "file")]
		c.Payload, c.Source = f.Data, "corpus:"+f.Name
		if rapid.IntRange(0, 3).Draw(t, "mutate") == 0 {
			var name string
			c.Payload, name = stdgen.Mutate(t, "m", k.Pkg(), c.Payload)
			c.Source += "+" + name
		}
	} else {
		c.Payload, c.Source = rapid.SliceOfN(rapid.Byte(), 0, 200).Draw(t, "raw"), "raw-bytes"
	}
	ms := methods[k.Iface]
	// image decoders: a third of the histories ask for metadata reports on a file that carries metadata, so that
	// decode_image_config stops with "@base: metadata reported" before the configuration is complete
	wantMeta := k.Iface == stdh.IMG && rapid.IntRange(0, 2).Draw(t, "meta") > 0
	if wantMeta {
		var withMeta []stdgen.File
		for _, f := range files {
			for _, mark := range []string{"iCCP", "eXIf", "gAMA", "cHRM", "sRGB", "tEXt", "XMP DataXMP", "ICCRGBG1012"} {
				if bytes.Contains(f.Data, []byte(mark)) {
					withMeta = append(withMeta, f)
					break
				}
			}
		}
		if len(withMeta) > 0 {
			f := withMeta[rapid.IntRange(0, len(withMeta)-1).Draw(t, "metafile")]
			c.Payload, c.Source = f.Data, "corpus:"+f.Name
		}
	}
	n := rapid.IntRange(3, 40).Draw(t, "nsteps")
	// most histories start with a good initialize so that deeper states are reached
	if rapid.IntRange(0, 5).Draw(t, "startinit") > 0 {
		c.Steps = append(c.Steps, Step{Op: "init", Prefill: rapid.SampledFrom([]uint8{0, 0xA5, stdh.PrefillRandom}).Draw(t, "pf0")})
		c.Steps = append(c.Steps, Step{Op: "feed", N: uint32(rapid.IntRange(0, len(c.Payload)).Draw(t, "n0")), Close: rapid.Bool().Draw(t, "close0")})
		c.Steps = append(c.Steps, Step{Op: "window", N: uint32(rapid.SampledFrom([]int{0, 1, 64, 4096, 70000}).Draw(t, "w0"))})
		if wantMeta {
			for fc := uint8(0); fc < 8; fc++ {
				if fc < 3 || rapid.Bool().Draw(t, "fourcc-on") {
					c.Steps = append(c.Steps, Step{Op: "call", Method: 6, Variant: fc})
				}
			}
			if rapid.IntRange(0, 3).Draw(t, "feedall") > 0 {
				c.Steps = append(c.Steps, Step{Op: "feed", N: uint32(len(c.Payload)), Close: rapid.Bool().Draw(t, "closeall")})
				if rapid.IntRange(0, 3).Draw(t, "dicnow") > 0 {
					c.Steps = append(c.Steps, Step{Op: "call", Method: 0})
				}
			}
		}
	} else if rapid.Bool().Draw(t, "zeromem") {
		// an object that was never initialised lives in memory we control: allocate it through a failing initialize
		c.Steps = append(c.Steps, Step{Op: "init", Delta: 1, Prefill: rapid.SampledFrom([]uint8{0, 0xA5}).Draw(t, "pfz")})
	}
	for len(c.Steps) < n {
		switch rapid.IntRange(0, 9).Draw(t, "op") {
		case 0:
			s := Step{Op: "init"}
			switch rapid.IntRange(0, 7).Draw(t, "initkind") {
			case 0:
				s.Delta = rapid.SampledFrom([]int8{-1, 1, -8, 8}).Draw(t, "delta")
			case 1:
				s.VerMode = uint8(rapid.IntRange(1, 3).Draw(t, "ver"))
			case 2:
				s.Flags = stdh.FlagAlreadyZeroed // over used memory: must be refused unless the memory is zero
				s.Prefill = stdh.PrefillKeep
			case 3:
				s.Flags = stdh.FlagAlreadyZeroed
				s.Prefill = 0
			case 4:
				s.Flags = stdh.FlagLeaveInternalBuffersUninit
				s.Prefill = rapid.SampledFrom([]uint8{stdh.PrefillKeep, 0xA5, stdh.PrefillRandom}).Draw(t, "pf")
			default:
				s.Prefill = rapid.SampledFrom([]uint8{stdh.PrefillKeep, 0, 0xA5}).Draw(t, "pf")
			}
			c.Steps = append(c.Steps, s)
		case 1, 2:
			c.Steps = append(c.Steps, Step{Op: "feed", N: uint32(rapid.SampledFrom([]int{0, 1, 3, 64, 1000, 100000}).Draw(t, "n")), Close: rapid.IntRange(0, 3).Draw(t, "close") == 0})
		case 3:
			c.Steps = append(c.Steps, Step{Op: "window", N: uint32(rapid.SampledFrom([]int{0, 1, 7, 300, 70000}).Draw(t, "w"))})
		default:
			s := Step{Op: "call", Method: uint8(rapid.IntRange(0, len(ms)-1).Draw(t, "method"))}
			if rapid.IntRange(0, 4).Draw(t, "odd") == 0 {
				s.Variant = rapid.SampledFrom([]uint8{1, 2, 3, 4, 8}).Draw(t, "variant")
			}
			switch ms[s.Method].name {
			case "set_report_metadata": // variant&7 selects the FourCC (ICCP, XMP, EXIF, CHRM, GAMA, KVP, SRGB, BGCL)
				s.Variant = uint8(rapid.IntRange(0, 7).Draw(t, "fourcc"))
			case "restart_frame": // variant&16: a non-zero io_position (some decoders reject zero as a bad argument)
				if rapid.Bool().Draw(t, "rfpos") {
					s.Variant |= 16
				}
			}
			c.Steps = append(c.Steps, s)
		}
	}
	return c
}

const (
	stRaw = iota
	stOK
	stDisabled
)

func isErr(s string) bool  { return s != "" && s[0] == '#' }
func isSusp(s string) bool { return s != "" && s[0] == '$' }

func checkCase(env *stdrun.Env, c Case) (msg string, nontrivial bool, classes []string) {
	k, ok := env.Kind(c.Kind)
	if !ok {
		return "", false, []string{"unknown-kind"}
	}
	ms := methods[k.Iface]
	r := stdh.NewReq(k.Index, c.Payload, 30, 7)
	r.PureProbe(true)
	for _, s := range c.Steps {
		switch s.Op {
		case "init":
			r.Init(s.Flags, s.Prefill, s.Delta, s.VerMode)
		case "feed":
			r.Feed(s.N, s.Close)
		case "window":
			r.Window(s.N)
		case "call":
			if int(s.Method) < len(ms) {
				r.Call(s.Method, s.Variant)
			}
		}
	}
	resp, err := env.Exec("san", r.Bytes())
	if err != nil {
		if ce, ok := stdh.IsCrash(err); ok {
			if ce.Timeout {
				return "", false, []string{"timeout"}
			}
			return fmt.Sprintf("%s: history crashed the harness: %v", c.Kind, ce), false, nil
		}
		return "", false, []string{"harness-error:" + err.Error()}
	}
	if len(resp.Violations) > 0 {
		return fmt.Sprintf("%s (%s): I/O contract broken during the history: %v", c.Kind, c.Source, resp.Violations), false, nil
	}
	// ---- reference model
	state := stRaw     // magic: raw (never initialised / garbage), ok, disabled
	memZero := false   // the object memory is known to be all zero (magic == 0)
	active := -1       // suspended coroutine (method index) or -1
	dicDone := false   // image decoders: decode_image_config returned OK since the last initialize
	imgCalled := false // image decoders: the image configuration may have been decoded since the last initialize (DIC returned ok, or DFC/DF - which call DIC implicitly - were called)
	haveObj := false
	ii, ci := 0, 0
	sawProtoErr, afterProto, interleaved, outOfOrder, metaReported := false, false, false, false, false
	for si, s := range c.Steps {
		where := func() string { return fmt.Sprintf("%s step %d %+v", c.Kind, si, s) }
		switch s.Op {
		case "init":
			if ii >= len(resp.Inits) {
				return "", false, []string{"short-response"}
			}
			got := resp.Inits[ii]
			ii++
			// memory fill happens before the call
			if !haveObj || s.Prefill != stdh.PrefillKeep {
				state, active, dicDone, imgCalled = stRaw, -1, false, false
				memZero = s.Prefill == 0
			}
			haveObj = true
			want := ""
			switch {
			case s.Delta != 0:
				want = "#base: bad sizeof receiver"
			case s.VerMode >= 2:
				want = "#base: bad wuffs version"
			case s.Flags&stdh.FlagAlreadyZeroed != 0 && !(state == stRaw && memZero):
				if state == stRaw {
					// garbage memory: magic is almost surely non-zero, but 0xFE-random or 0xA5 fills never produce a zero word
					want = "#base: initialize falsely claimed already zeroed"
				} else {
					want = "#base: initialize falsely claimed already zeroed"
				}
			}
			if got != want {
				return fmt.Sprintf("%s: initialize returned %q, the model says %q", where(), got, want), false, nil
			}
			if want == "" {
				state, active, dicDone, imgCalled, memZero = stOK, -1, false, false, false
			} else {
				sawProtoErr = true
			}
		case "call":
			if int(s.Method) >= len(ms) {
				continue
			}
			if !haveObj {
				ci++ // harness answered "@stdh: no object"
				continue
			}
			if ci >= len(resp.Raw) {
				return "", false, []string{"short-response"}
			}
			got := resp.Raw[ci].Status
			ci++
			m := ms[s.Method]
			if !m.statusReturning {
				continue
			}
			if sawProtoErr {
				afterProto = true
			}
			want, decoderDefined := "", false
			nullDst := s.Variant&1 != 0 && m.dst
			nullSrc := s.Variant&2 != 0 && m.src
			switch {
			case s.Variant&8 != 0:
				want = "#base: bad receiver"
			case state == stRaw:
				want = "#base: initialize not called"
			case state == stDisabled:
				want = "#base: disabled by previous error"
			case (nullDst && m.name != "decode_image_config" && m.name != "decode_frame_config") || nullSrc:
				// decode_image_config/decode_frame_config declare their dst as optional (nptr)
				want = "#base: bad argument"
			case m.coro && active >= 0 && active != int(s.Method):
				want = "#base: interleaved coroutine calls"
				interleaved = true
			default:
				decoderDefined = true
			}
			if !decoderDefined {
				if got != want {
					return fmt.Sprintf("%s (%s): status %q, the protocol model says %q (state=%d active=%d)", where(), m.name, got, want, state, active), false, nil
				}
				sawProtoErr = true
				if want == "#base: bad argument" || want == "#base: interleaved coroutine calls" {
					state, active = stDisabled, -1
				}
				continue
			}
			// decoder-defined status: the protocol statuses must not appear out of thin air
			switch got {
			case "#base: initialize not called", "#base: disabled by previous error", "#base: bad receiver", "#base: interleaved coroutine calls", "#base: bad sizeof receiver", "#base: bad wuffs version":
				return fmt.Sprintf("%s (%s): protocol status %q although the model says the object is initialised, enabled and not suspended elsewhere", where(), m.name, got), false, nil
			}
			if k.Iface == stdh.IMG {
				if m.name == "decode_image_config" && dicDone && active != int(s.Method) {
					outOfOrder = true
					if got != "#base: bad call sequence" {
						return fmt.Sprintf("%s: decode_image_config called again after it completed returned %q, want \"#base: bad call sequence\"", where(), got), false, nil
					}
				}
				if m.name == "restart_frame" && !imgCalled {
					outOfOrder = true
					if got != "#base: bad call sequence" {
						return fmt.Sprintf("%s: restart_frame before decode_image_config completed returned %q, want \"#base: bad call sequence\"", where(), got), false, nil
					}
				}
				if m.name == "decode_image_config" && got == "" {
					dicDone = true
				}
				// the configuration is decoded for certain only when DIC returned ok; DFC/DF call DIC implicitly, so after
				// them it may be; a DIC that suspended or returned a note ("@metadata reported") and tell_me_more have not
				// completed it (doc/std/image-decoders-call-sequence.md: restart_frame needs the state reached by DIC)
				if (m.name == "decode_image_config" && got == "") || m.name == "decode_frame_config" || m.name == "decode_frame" {
					imgCalled = true
				}
				if m.name == "decode_image_config" && got == "@base: metadata reported" {
					metaReported = true
				}
			}
			if m.coro {
				switch {
				case isErr(got):
					state, active = stDisabled, -1
				case isSusp(got):
					active = int(s.Method)
				default:
					active = -1
				}
			}
		}
	}
	classes = append(classes, "iface-"+[]string{"io_transformer", "image_decoder", "token_decoder", "hasher_u32", "hasher_u64", "hasher_bitvec256"}[k.Iface])
	if afterProto {
		classes = append(classes, "call-after-protocol-error")
	}
	if interleaved {
		classes = append(classes, "interleaved-coroutines")
	}
	if outOfOrder {
		classes = append(classes, "out-of-order-image-call")
	}
	if metaReported {
		classes = append(classes, "metadata-reported")
		if outOfOrder {
			classes = append(classes, "out-of-order-image-call-with-metadata-pending-or-reported")
		}
	}
	if resp.NPure > 0 || true {
		classes = append(classes, "history")
	}
	nontrivial = afterProto || interleaved || outOfOrder
	return "", nontrivial, classes
}

func runCase(t interface{ Fatalf(string, ...any) }, env *stdrun.Env, c Case) {
	ev.Eval()
	msg, nt, classes := checkCase(env, c)
	if msg != "" {
		ev.Fail("C08", "protocol", c, msg)
		t.Fatalf("C08 violated: %s", msg)
	}
	for _, cl := range classes {
		ev.Class(cl)
	}
	if nt {
		var sb strings.Builder
		for _, s := range c.Steps {
			fmt.Fprintf(&sb, "%s/%d/%d/%d/%d/%d/%d;", s.Op, s.Flags, s.Prefill, s.Delta, s.VerMode, s.Method, s.Variant)
		}
		ev.Nontrivial(ev.Hash(c.Kind, sb.String()), func() any {
			s := c
			if len(s.Payload) > 32 {
				s.Payload = s.Payload[:32]
			}
			return s
		})
	}
}

func TestProp(t *testing.T) {
	env, err := stdrun.Get()
	if err != nil {
		t.Fatal(err)
	}
	defer env.Close()
	rapid.Check(t, func(t *rapid.T) {
		runCase(t, env, genCase(t, env))
	})
}

func TestReplay(t *testing.T) {
	p := ev.ReplayPath()
	if p == "" {
		t.Skip("no VERIF_REPLAY")
	}
	env, err := stdrun.Get()
	if err != nil {
		t.Fatal(err)
	}
	defer env.Close()
	r, err := ev.LoadReplay(p)
	if err != nil {
		t.Fatal(err)
	}
	var c Case
	if err := json.Unmarshal(r.Case, &c); err != nil {
		t.Fatal(err)
	}
	runCase(t, env, c)
}
