// Package c15 decides property C15: RAC readers survive hostile files —
// bounded (measured) work, no panic, in-file ranges, repeatable decodes.
package c15

import (
	"bytes"
	"compress/zlib"
	"encoding/json"
	"errors"
	"fmt"
	"io"
	"os"
	"runtime"
	"strconv"
	"strings"
	"sync/atomic"
	"testing"
	"time"

	"github.com/google/wuffs/lib/rac"
	"github.com/google/wuffs/lib/raczlib"
	"pgregory.net/rapid"

	"verif/internal/ev"
	"verif/racspec"
)

func TestMain(m *testing.M) { ev.Main(m) }

// ---------------------------------------------------------------- the Case

type Seg = racspec.Seg

// TElem / TNode describe a hand-assembled file (see racspec.Build).
type TElem struct {
	K        string `json:"k"`           // leaf | branch | res | codec | empty
	D        int    `json:"d,omitempty"` // leaf: DRange size
	S        uint32 `json:"s,omitempty"` // leaf / res: content seed
	V        int    `json:"v,omitempty"` // leaf: 0 full data, 1 data covers only a prefix (implicit zero tail), 2 no data
	Res      int    `json:"res,omitempty"`
	CLenZero bool   `json:"clen0,omitempty"`
	Share    int    `json:"share,omitempty"`
	Long     string `json:"long,omitempty"`
	Child    *TNode `json:"child,omitempty"`
}

type TNode struct {
	Elems  []TElem  `json:"elems"`
	Codec  uint8    `json:"codec"` // 0 zeroes, 1 zlib, 0x80 long (needs a codec element first)
	Region bool     `json:"region,omitempty"`
	AtEnd  bool     `json:"at_end,omitempty"`
	Tight  bool     `json:"tight,omitempty"`
	Order  []uint32 `json:"order,omitempty"`
	Gaps   []uint8  `json:"gaps,omitempty"`
}

// Base says how the valid starting file is made.
type Base struct {
	Kind string `json:"kind"` // writer | builder | raw
	// writer (rac.Writer + raczlib):
	Payload    []Seg  `json:"payload,omitempty"`
	DChunk     uint64 `json:"dchunk,omitempty"`
	CChunk     uint64 `json:"cchunk,omitempty"`
	CPage      uint64 `json:"cpage,omitempty"`
	IndexStart bool   `json:"index_start,omitempty"`
	Dict       []Seg  `json:"dict,omitempty"`
	// builder:
	Tree *TNode `json:"tree,omitempty"`
	// raw:
	Raw []byte `json:"raw,omitempty"`
}

// Seek is one random access on the Reader: position = Pos (absolute) and N
// bytes to read.
type Seek struct {
	Pos int64 `json:"pos"`
	N   int   `json:"n"`
}

// Variant is one hostile file derived from the base.
type Variant struct {
	Muts       []racspec.Mutation `json:"muts,omitempty"`
	Trunc      int                `json:"trunc,omitempty"`       // >0: truncate at TruncPoints[(Trunc-1) % len]
	KeepClaim  bool               `json:"keep_claim,omitempty"`  // after truncation, still claim the old size
	ClaimDelta int64              `json:"claim_delta,omitempty"` // CompressedSize = len + delta
	ReaderAt   bool               `json:"reader_at,omitempty"`   // the source also implements io.ReaderAt
	Seeks      []Seek             `json:"seeks,omitempty"`
}

// Case = one base file and several hostile variants of it.
type Case struct {
	Base     Base      `json:"base"`
	Variants []Variant `json:"variants"`
}

// ---------------------------------------------------------------- base files

func zl(b, dict []byte) []byte {
	var out bytes.Buffer
	w, _ := zlib.NewWriterLevelDict(&out, zlib.DefaultCompression, dict)
	w.Write(b)
	w.Close()
	return out.Bytes()
}

func nodeMixed(n *TNode, codec uint8) bool {
	for i := range n.Elems {
		if c := n.Elems[i].Child; n.Elems[i].K == "branch" && c != nil {
			if c.Codec&0xBF != codec&0xBF || nodeMixed(c, codec) {
				return true
			}
			if c.Codec&0x80 != 0 && longOf(c) != longOfParent(n) {
				return true
			}
		}
	}
	return false
}

func longOf(n *TNode) string {
	if n.Codec&0x80 == 0 {
		return ""
	}
	for _, e := range n.Elems {
		if e.K == "codec" {
			return (e.Long + "\x00\x00\x00\x00\x00\x00\x00")[:7]
		}
	}
	return ""
}

func longOfParent(n *TNode) string { return longOf(n) }

func toBNode(n *TNode, depth int) *racspec.BNode {
	b := &racspec.BNode{CodecByte: n.Codec &^ 0x40, Region: n.Region && depth > 0, NodeAtEnd: n.AtEnd, TightMax: n.Tight, Order: n.Order, Gaps: n.Gaps}
	if nodeMixed(n, n.Codec) {
		b.CodecByte |= 0x40
	}
	elems := n.Elems
	if n.Codec&0x80 != 0 && (len(elems) == 0 || elems[0].K != "codec") {
		elems = append([]TElem{{K: "codec"}}, elems...)
	}
	dict := func(s uint32) []byte { return racspec.Materialize([]Seg{{K: "t", N: 40 + int(s%200), S: s}}) }
	for i, e := range elems {
		switch e.K {
		case "branch":
			if e.Child != nil && len(e.Child.Elems) > 0 && depth < 6 {
				b.Elems = append(b.Elems, racspec.BElem{Kind: racspec.EBranch, Child: toBNode(e.Child, depth+1)})
				continue
			}
			b.Elems = append(b.Elems, racspec.BElem{Kind: racspec.ELeaf, DSize: 1, Res: -1})
		case "res":
			b.Elems = append(b.Elems, racspec.BElem{Kind: racspec.EResource, Data: racspec.WrapDict(dict(e.S)), Res: -1, CLenZero: e.CLenZero})
		case "codec":
			var l [7]byte
			copy(l[:], e.Long)
			b.Elems = append(b.Elems, racspec.BElem{Kind: racspec.ECodec, Long: l})
		case "empty":
			b.Elems = append(b.Elems, racspec.BElem{Kind: racspec.ELeaf, DSize: 0, Res: -1})
		default: // leaf
			d := e.D
			if d < 0 {
				d = 0
			}
			be := racspec.BElem{Kind: racspec.ELeaf, DSize: int64(d), Res: -1, CLenZero: e.CLenZero, ShareOf: e.Share}
			if n.Codec&0xBF == 1 && e.V != 2 {
				content := racspec.Materialize([]Seg{{K: []string{"t", "s", "p", "r"}[e.S%4], N: d, S: e.S}})
				if e.V == 1 {
					content = content[:len(content)/2]
				}
				var dd []byte
				if e.Res >= 0 && e.Res < len(elems) && elems[e.Res].K == "res" && e.Res != i {
					dd = dict(elems[e.Res].S)
					be.Res = e.Res
				}
				be.Data = zl(content, dd)
			} else if n.Codec&0x80 != 0 && longOf(n) != "\x00\x00\x00\x00\x00\x00\x00" && e.V != 2 {
				be.Data = racspec.Materialize([]Seg{{K: "r", N: 1 + d%50, S: e.S}})
			}
			b.Elems = append(b.Elems, be)
		}
	}
	if len(b.Elems) > 250 {
		b.Elems = b.Elems[:250]
	}
	// Every node needs a child, and (anti-loop rule) a branch child must cover
	// strictly less than its parent unless it lies before it in the file: keep
	// it simple and make DPtrMax strictly decreasing along every path.
	hasChild, spanning := false, false
	total := b.DTotal()
	for _, e := range b.Elems {
		if e.Kind == racspec.ELeaf || e.Kind == racspec.EBranch {
			hasChild = true
		}
		if e.Kind == racspec.EBranch && e.Child.DTotal() == total {
			spanning = true
		}
	}
	if !hasChild || spanning {
		extra := racspec.BElem{Kind: racspec.ELeaf, DSize: 1, Res: -1}
		if n.Codec&0xBF == 1 {
			extra.Data = zl([]byte{'x'}, nil)
		}
		b.Elems = append(b.Elems, extra)
	}
	return b
}

var errBase = errors.New("c15: cannot make the base file")

// makeBase returns the valid starting file.
func (b Base) make() ([]byte, error) {
	switch b.Kind {
	case "raw":
		return b.Raw, nil
	case "builder":
		if b.Tree == nil {
			return nil, errBase
		}
		return racspec.Build(toBNode(b.Tree, 0))
	default:
		payload := racspec.Materialize(b.Payload)
		var out bytes.Buffer
		w := &rac.Writer{Writer: &out, CodecWriter: &raczlib.CodecWriter{}, DChunkSize: b.DChunk, CChunkSize: b.CChunk, CPageSize: b.CPage}
		if d := racspec.Materialize(b.Dict); len(d) > 0 {
			w.ResourcesData = [][]byte{d}
		}
		if b.IndexStart {
			w.IndexLocation = rac.IndexLocationAtStart
			w.TempFile = &bytes.Buffer{}
		}
		if _, err := w.Write(payload); err != nil {
			return nil, err
		}
		if err := w.Close(); err != nil {
			return nil, err
		}
		return out.Bytes(), nil
	}
}

// ---------------------------------------------------------------- measured source

var errBudget = errors.New("c15: work budget exceeded")

// source is the io.ReadSeeker handed to the code under test. It counts calls
// and bytes; once the budget is exceeded every call fails.
type source struct {
	data     []byte
	pos      int64
	ops      atomic.Int64
	bytes    atomic.Int64
	budget   int64
	exceeded atomic.Bool
}

func (s *source) spend() error {
	if s.ops.Add(1) > s.budget {
		s.exceeded.Store(true)
		return errBudget
	}
	return nil
}

func (s *source) Read(p []byte) (int, error) {
	if err := s.spend(); err != nil {
		return 0, err
	}
	if s.pos >= int64(len(s.data)) {
		return 0, io.EOF
	}
	n := copy(p, s.data[s.pos:])
	s.pos += int64(n)
	s.bytes.Add(int64(n))
	return n, nil
}

func (s *source) Seek(offset int64, whence int) (int64, error) {
	if err := s.spend(); err != nil {
		return 0, err
	}
	abs := offset
	switch whence {
	case io.SeekStart:
	case io.SeekCurrent:
		abs += s.pos
	case io.SeekEnd:
		abs += int64(len(s.data))
	default:
		return 0, errors.New("c15: bad whence")
	}
	if abs < 0 {
		return 0, errors.New("c15: negative position")
	}
	s.pos = abs
	return abs, nil
}

// sourceAt additionally implements io.ReaderAt (safe for concurrent use).
type sourceAt struct{ source }

func (s *sourceAt) ReadAt(p []byte, off int64) (int, error) {
	if err := s.spend(); err != nil {
		return 0, err
	}
	if off < 0 {
		return 0, errors.New("c15: negative offset")
	}
	if off >= int64(len(s.data)) {
		return 0, io.EOF
	}
	n := copy(p, s.data[off:])
	s.bytes.Add(int64(n))
	if n < len(p) {
		return n, io.EOF
	}
	return n, nil
}

type counted interface {
	io.ReadSeeker
	used() (ops int64, exceeded bool)
}

func (s *source) used() (int64, bool) { return s.ops.Load(), s.exceeded.Load() }

func newSource(data []byte, budget int64, at bool) counted {
	if at {
		return &sourceAt{source{data: data, budget: budget}}
	}
	return &source{data: data, budget: budget}
}

// ---------------------------------------------------------------- the oracle

const decodeCap = 1 << 20 // at most this many decompressed bytes are read per Reader

type outcome struct {
	classes []string
}

func (o *outcome) cl(s string) { o.classes = append(o.classes, s) }

func guard(what string, f func() string) (msg string) {
	defer func() {
		if r := recover(); r != nil {
			buf := make([]byte, 2048)
			buf = buf[:runtime.Stack(buf, false)]
			msg = fmt.Sprintf("panic in %s: %v\n%s", what, r, buf)
		}
	}()
	return f()
}

func chunkEq(c rac.Chunk, l racspec.Leaf) bool {
	r := func(a rac.Range, b racspec.Range) bool { return a[0] == b[0] && a[1] == b[1] }
	return r(c.DRange, l.DRange) && r(c.CPrimary, l.CPrimary) && r(c.CSecondary, l.CSecondary) &&
		r(c.CTertiary, l.CTertiary) && c.STag == l.STag && c.TTag == l.TTag && uint64(c.Codec) == l.Codec
}

// readCapped reads up to decodeCap bytes from r. iters counts Read calls.
func readCapped(r io.Reader, limit int64) (out []byte, iters int64, err error) {
	buf := make([]byte, 32*1024)
	idle := 0
	for int64(len(out)) < limit {
		p := buf
		if rem := limit - int64(len(out)); rem < int64(len(p)) {
			p = p[:rem]
		}
		n, e := r.Read(p)
		iters++
		out = append(out, p[:n]...)
		if e == io.EOF {
			return out, iters, nil
		}
		if e != nil {
			return out, iters, e
		}
		if n == 0 {
			idle++
			if idle > 100 {
				return out, iters, errors.New("c15: 100 consecutive Read calls returned (0, nil)")
			}
		} else {
			idle = 0
		}
	}
	return out, iters, nil
}

// walkOpts bounds the independent walker's own work: beyond 8x the file's
// 16-byte slots the file is an index bomb.
func walkOpts(size int64) racspec.Options {
	return racspec.Options{MaxVisits: int(8*(size/16) + 4096)}
}

// checkFile runs every oracle on one hostile file.
func checkFile(data []byte, claimed int64, v Variant, o *outcome) string {
	size := int64(len(data))
	// The independent walker gives (a) the spec verdict and (b) the number of
	// index entries any reader is obliged to visit, which can exceed size/16
	// when sub-trees are shared (the format allows chunk counts exponential in
	// the file size); the budget grows with it, so only genuinely unbounded
	// work is flagged.
	// (The walker's own work is bounded too: beyond 8x the file's slots the
	// file is an index bomb and work is not judged.)
	wres := racspec.Walk(data, claimed, walkOpts(size))
	units := size/16 + 256
	if int64(wres.Visits)+256 > units {
		units = int64(wres.Visits) + 256
		o.cl("amplifying-index")
	}
	budget := 64 * units
	judgeWork := !wres.Truncated
	if wres.Valid() {
		o.cl("spec-valid")
	} else {
		o.cl("spec-invalid")
	}
	overrun := func(phase string, ops int64) string {
		return fmt.Sprintf("%s: work budget exceeded: more than %d operations (Read/Seek calls + loop iterations) on a %d-byte file claiming %d bytes (budget 64*(max(size/16, index entries)+256)); used %d", phase, budget, size, claimed, ops)
	}

	// ---- phase A: ChunkReader walk.
	var dsize int64
	var openErr, walkErr error
	var chunks []rac.Chunk
	walkDone := false
	if m := guard("ChunkReader", func() string {
		s := newSource(data, budget, v.ReaderAt)
		cr := &rac.ChunkReader{ReadSeeker: s, CompressedSize: claimed}
		dsize, openErr = cr.DecompressedSize()
		prevEnd := int64(0)
		checkChunk := func(c rac.Chunk, after string) string {
			if c.CPrimary[0] > c.CPrimary[1] || c.CPrimary[0] < 0 || c.CPrimary[1] > claimed {
				return fmt.Sprintf("NextChunk%s returned CPrimary [%d,%d) not inside the file [0,%d) (chunk #%d, DRange %v)", after, c.CPrimary[0], c.CPrimary[1], claimed, len(chunks), c.DRange)
			}
			if c.DRange[0] >= c.DRange[1] {
				return fmt.Sprintf("NextChunk%s returned an empty or inverted DRange %v (chunk #%d)", after, c.DRange, len(chunks))
			}
			if c.DRange[0] != prevEnd {
				return fmt.Sprintf("NextChunk%s returned DRange %v, not contiguous with the previous end %d (chunk #%d)", after, c.DRange, prevEnd, len(chunks))
			}
			if openErr == nil && c.DRange[1] > dsize {
				return fmt.Sprintf("NextChunk%s returned DRange %v beyond DecompressedSize %d", after, c.DRange, dsize)
			}
			return ""
		}
		iters := int64(0)
		for {
			iters++
			if ops, _ := s.used(); ops+iters > budget {
				if judgeWork {
					return overrun("ChunkReader.NextChunk loop", ops+iters)
				}
				o.cl("work-not-judged")
				return ""
			}
			c, err := cr.NextChunk()
			if err == io.EOF {
				if openErr == nil && prevEnd != dsize {
					return fmt.Sprintf("NextChunk returned io.EOF after chunks ending at %d, but DecompressedSize is %d", prevEnd, dsize)
				}
				walkDone = openErr == nil
				break
			}
			if err != nil {
				walkErr = err
				break
			}
			after := ""
			if openErr != nil {
				after = fmt.Sprintf(" (after DecompressedSize failed with %q)", openErr)
			}
			if m := checkChunk(c, after); m != "" {
				return m
			}
			prevEnd = c.DRange[1]
			chunks = append(chunks, c)
		}
		if _, ex := s.used(); ex {
			if judgeWork {
				ops, _ := s.used()
				return overrun("ChunkReader", ops)
			}
			o.cl("work-not-judged")
			return ""
		}
		// A failed walk stays failed or keeps yielding well-formed chunks.
		if walkErr != nil {
			if c, err := cr.NextChunk(); err == nil {
				if m := checkChunk(c, fmt.Sprintf(" (called again after it failed with %q)", walkErr)); m != "" {
					return m
				}
			}
		}
		// ---- phase B: SeekToChunkContaining.
		if openErr == nil && walkErr == nil {
			for _, sk := range v.Seeks {
				pos := sk.Pos
				if err := cr.SeekToChunkContaining(pos); err != nil {
					break
				}
				c, err := cr.NextChunk()
				if err != nil {
					if err != io.EOF && pos >= 0 && pos < dsize && walkDone {
						// the complete walk succeeded, so every position has a chunk
						return fmt.Sprintf("SeekToChunkContaining(%d)+NextChunk fails with %q although a complete NextChunk walk succeeded", pos, err)
					}
					break
				}
				if c.CPrimary[0] > c.CPrimary[1] || c.CPrimary[0] < 0 || c.CPrimary[1] > claimed {
					return fmt.Sprintf("after SeekToChunkContaining(%d): CPrimary %v not inside the file [0,%d)", pos, c.CPrimary, claimed)
				}
				if pos < c.DRange[0] || pos >= c.DRange[1] {
					return fmt.Sprintf("SeekToChunkContaining(%d) then NextChunk returned DRange %v, which does not contain it", pos, c.DRange)
				}
			}
			if _, ex := s.used(); ex && judgeWork {
				ops, _ := s.used()
				return overrun("ChunkReader seeks", ops)
			}
		}
		return ""
	}); m != "" {
		return m
	}
	switch {
	case openErr != nil:
		o.cl("open-error")
	case walkErr != nil:
		o.cl("walk-error")
	default:
		o.cl("walk-ok")
	}
	// Differential against the spec: a spec-valid file that the ChunkReader
	// walks to the end must yield exactly the spec's leaves.
	// (statistic, not judged: C15 does not promise it) a spec-valid file that
	// the ChunkReader walks to the end should yield exactly the spec's leaves.
	if wres.Valid() && walkDone {
		diff := ""
		if len(chunks) != len(wres.Leaves) {
			diff = fmt.Sprintf("spec-valid file: ChunkReader yields %d chunks, the spec walker %d leaves", len(chunks), len(wres.Leaves))
		}
		for i := 0; diff == "" && i < len(chunks); i++ {
			if !chunkEq(chunks[i], wres.Leaves[i]) {
				diff = fmt.Sprintf("spec-valid file: chunk #%d is %+v, the spec says %+v", i, chunks[i], wres.Leaves[i])
			}
		}
		if diff == "" && dsize != wres.DFileSize {
			diff = fmt.Sprintf("spec-valid file: DecompressedSize %d, spec says %d", dsize, wres.DFileSize)
		}
		if diff != "" {
			o.cl("spec-valid-chunks-differ")
			mixed := false
			for _, c := range chunks {
				if c.TTag == 0xFE {
					mixed = true
				}
			}
			if mixed {
				ev.Note("not judged by C15: on spec-valid files whose nodes mix leaf and branch children, ChunkReader.NextChunk yields the branch element (TTag 0xFE) as a chunk")
			} else {
				ev.Note("not judged by C15: " + diff)
			}
		} else {
			o.cl("spec-valid-chunks-agree")
		}
	}
	if !wres.Valid() && walkDone {
		for _, r := range wres.Rules() {
			o.cl("reader-lenient:" + r)
		}
	}
	if wres.Valid() && !walkDone {
		o.cl("spec-valid-but-rejected")
		e := openErr
		if e == nil {
			e = walkErr
		}
		ev.Note(fmt.Sprintf("not judged by C15: a spec-valid file is rejected by ChunkReader with %q", e))
	}

	// ---- phase C: rac.Reader sequential decode (capped).
	newReader := func(s io.ReadSeeker, conc int) *rac.Reader {
		return &rac.Reader{ReadSeeker: s, CompressedSize: claimed, CodecReaders: []rac.CodecReader{&raczlib.CodecReader{}}, Concurrency: conc}
	}
	decode := func(what string, at bool, conc int) (out []byte, err error, msg string) {
		msg = guard(what, func() string {
			s := newSource(data, budget, at)
			r := newReader(s, conc)
			var iters int64
			out, iters, err = readCapped(r, decodeCap)
			r.Close()
			ops, ex := s.used()
			if (ex || ops+iters > budget) && judgeWork {
				return overrun(what, ops+iters)
			}
			if ex {
				o.cl("work-not-judged")
			}
			return ""
		})
		return
	}
	first, err1, m := decode("rac.Reader sequential read", v.ReaderAt, 0)
	if m != "" {
		return m
	}
	if err1 != nil {
		o.cl("decode-error")
	} else {
		o.cl("decode-ok")
		if openErr == nil && int64(len(first)) != min(dsize, decodeCap) {
			return fmt.Sprintf("rac.Reader read %d bytes without error, DecompressedSize is %d", len(first), dsize)
		}
		// ---- phase D: same bytes every time.
		second, err2, m := decode("second rac.Reader", !v.ReaderAt, 0)
		if m != "" {
			return m
		}
		if err2 != nil {
			return fmt.Sprintf("the file decoded without error once (%d bytes) but a second Reader fails: %v", len(first), err2)
		}
		if !bytes.Equal(first, second) {
			return fmt.Sprintf("the file decodes to different bytes on a second Reader (lengths %d and %d)", len(first), len(second))
		}
		// ---- phase E: Concurrency = 2 (under a generous watchdog).
		type res struct {
			out []byte
			err error
			msg string
		}
		ch := make(chan res, 1)
		go func() {
			out, err, m := decode("rac.Reader with Concurrency=2", true, 2)
			ch <- res{out, err, m}
		}()
		select {
		case r := <-ch:
			if r.msg != "" {
				return r.msg
			}
			if r.err != nil {
				return fmt.Sprintf("the file decoded without error sequentially but fails with Concurrency=2: %v", r.err)
			}
			if !bytes.Equal(first, r.out) {
				return fmt.Sprintf("the file decodes to different bytes with Concurrency=2 (lengths %d and %d)", len(first), len(r.out))
			}
		case <-time.After(60 * time.Second):
			return "rac.Reader with Concurrency=2 did not finish reading within 60 s although the sequential read of the same file succeeded"
		}
	}

	// ---- phase F: random seeks + reads on a fresh Reader.
	if len(v.Seeks) > 0 {
		if m := guard("rac.Reader seeks", func() string {
			s := newSource(data, budget, v.ReaderAt)
			r := newReader(s, 0)
			defer r.Close()
			iters := int64(0)
			complete := err1 == nil && openErr == nil && dsize <= decodeCap
			for _, sk := range v.Seeks {
				pos, n := sk.Pos, sk.N
				if n > 4096 {
					n = 4096
				}
				if n < 0 {
					n = 0
				}
				// Keep the cost of a hostile huge chunk bounded: the reader has to
				// decompress (or zero-fill) from the chunk start up to pos.
				if !complete && (pos > decodeCap || pos < 0) {
					continue
				}
				got, e := r.Seek(pos, io.SeekStart)
				iters++
				if e != nil {
					if complete && pos >= 0 {
						return fmt.Sprintf("Seek(%d) fails with %q on a file that decoded completely without error", pos, e)
					}
					break
				}
				if got != pos {
					return fmt.Sprintf("Seek(%d, SeekStart) returned %d", pos, got)
				}
				buf := make([]byte, n)
				k, e := io.ReadFull(r, buf)
				iters += int64(k/1 + 1)
				if complete {
					want := []byte{}
					if pos < int64(len(first)) {
						want = first[pos:min(int64(len(first)), pos+int64(n))]
					}
					if e != nil && e != io.EOF && e != io.ErrUnexpectedEOF {
						return fmt.Sprintf("Seek(%d)+Read(%d) fails with %q on a file that decoded completely without error", pos, n, e)
					}
					if !bytes.Equal(buf[:k], want) {
						return fmt.Sprintf("Seek(%d)+Read(%d) returned %d bytes that differ from the sequential decode (%d bytes expected)", pos, n, k, len(want))
					}
				} else if e != nil && e != io.EOF && e != io.ErrUnexpectedEOF {
					break
				}
			}
			if ops, ex := s.used(); ex && judgeWork {
				return overrun("rac.Reader seeks", ops)
			}
			return ""
		}); m != "" {
			return m
		}
	}
	return ""
}

// derive builds the hostile file of a variant from the base.
func derive(base []byte, bres *racspec.Result, v Variant) (data []byte, claimed int64, descs []string) {
	data = base
	for _, m := range v.Muts {
		var d string
		data, d = racspec.Apply(data, bres.Nodes, bres.Leaves, m)
		descs = append(descs, m.Kind+": "+d)
	}
	claimed = int64(len(data))
	if v.Trunc > 0 {
		pts := racspec.TruncPoints(bres.Nodes, int64(len(data)))
		if len(pts) > 0 {
			p := pts[(v.Trunc-1)%len(pts)]
			data = data[:p]
			if !v.KeepClaim {
				claimed = p
			}
			descs = append(descs, fmt.Sprintf("truncated to %d bytes (claimed %d)", p, claimed))
		}
	}
	claimed += v.ClaimDelta
	if claimed < 0 {
		claimed = 0
	}
	return data, claimed, descs
}

// checkCase is the oracle over all variants. failing is the index of the
// variant that broke the property (-1: none).
func checkCase(c Case) (msg string, failing int, nontrivial []uint64, classes []string) {
	base, err := c.Base.make()
	if err != nil {
		return "", -1, nil, []string{"base-error"}
	}
	bres := racspec.Walk(base, int64(len(base)), walkOpts(int64(len(base))))
	if c.Base.Kind != "raw" && !bres.Valid() {
		return fmt.Sprintf("the base file (%s) is not spec-valid before any mutation: %v", c.Base.Kind, bres.Violations), -1, nil, nil
	}
	classes = append(classes, "base-"+c.Base.Kind)
	if bres.MaxDepth >= 1 {
		classes = append(classes, "base-multi-level")
	}
	for i, v := range c.Variants {
		data, claimed, _ := derive(base, bres, v)
		o := &outcome{}
		if len(v.Muts) == 0 && v.Trunc == 0 && v.ClaimDelta == 0 {
			o.cl("mut-none")
		}
		for _, m := range v.Muts {
			o.cl("mut-" + m.Kind)
		}
		if v.Trunc > 0 {
			o.cl("mut-truncate")
		}
		if v.ClaimDelta != 0 {
			o.cl("mut-claimed-size")
		}
		if m := checkFile(data, claimed, v, o); m != "" {
			return m, i, nil, nil
		}
		classes = append(classes, o.classes...)
		// non-trivial: the root still validates and an index byte differs.
		if len(data) > 0 {
			w := racspec.Walk(data, claimed, racspec.Options{MaxVisits: 4})
			if w.RootFound {
				differs := len(data) != len(base)
				for _, n := range bres.Nodes {
					lo, hi := n.COffset, n.COffset+n.Size()
					if hi > int64(len(data)) {
						differs = true
						break
					}
					if !bytes.Equal(data[lo:hi], base[lo:hi]) {
						differs = true
						break
					}
				}
				if differs || c.Base.Kind == "raw" {
					nontrivial = append(nontrivial, ev.Hash(data, claimed))
					classes = append(classes, "reached-root-valid")
				}
			}
		}
	}
	return "", -1, nontrivial, classes
}

// ---------------------------------------------------------------- generator

func uniform(t *rapid.T, label string, n int) int {
	bits := rapid.SliceOfN(rapid.Bool(), 12, 12).Draw(t, label)
	v := 0
	for _, b := range bits {
		v <<= 1
		if b {
			v |= 1
		}
	}
	return v % n
}

func pick[T any](t *rapid.T, label string, xs []T) T { return xs[uniform(t, label, len(xs))] }

func genTree(t *rapid.T, depth int) *TNode {
	n := &TNode{}
	n.Codec = pick(t, "codec", []uint8{1, 1, 1, 1, 0, 0x80})
	if n.Codec == 0x80 {
		n.Elems = append(n.Elems, TElem{K: "codec", Long: pick(t, "long", []string{"", "", "mdo2"})})
	}
	if depth > 0 {
		n.Region = uniform(t, "region", 3) == 0
	}
	n.AtEnd = rapid.Bool().Draw(t, "at_end")
	n.Tight = rapid.Bool().Draw(t, "tight")
	ne := rapid.IntRange(1, 7).Draw(t, "nelems")
	if uniform(t, "wide", 40) == 0 {
		ne = rapid.IntRange(60, 240).Draw(t, "nelems_wide")
	}
	for i := 0; i < ne; i++ {
		k := pick(t, "ekind", []string{"leaf", "leaf", "leaf", "leaf", "leaf", "branch", "branch", "res", "empty"})
		if depth >= 3 && k == "branch" {
			k = "leaf"
		}
		e := TElem{K: k, Res: -1}
		switch k {
		case "leaf":
			e.D = rapid.IntRange(1, 300).Draw(t, "d")
			e.S = rapid.Uint32().Draw(t, "s")
			e.V = pick(t, "v", []int{0, 0, 0, 1, 2})
			e.Res = rapid.IntRange(-1, ne).Draw(t, "res")
			e.CLenZero = uniform(t, "clen0", 4) == 0
			if uniform(t, "share", 8) == 0 {
				e.Share = rapid.IntRange(1, ne).Draw(t, "share_of")
			}
		case "res":
			e.S = rapid.Uint32().Draw(t, "s")
		case "branch":
			e.Child = genTree(t, depth+1)
		}
		n.Elems = append(n.Elems, e)
	}
	if uniform(t, "shuffle", 2) == 0 {
		n.Order = rapid.SliceOfN(rapid.Uint32Range(0, 50), 0, 12).Draw(t, "order")
	}
	if uniform(t, "gaps", 4) == 0 {
		n.Gaps = rapid.SliceOfN(rapid.Uint8Range(0, 40), 0, 6).Draw(t, "gapsv")
	}
	return n
}

func genBase(t *rapid.T) Base {
	switch pick(t, "base", []string{"writer", "writer", "writer", "builder", "builder", "raw"}) {
	case "builder":
		if uniform(t, "deep", 32) == 0 {
			// Known finding R10: index trees of depth d cost the ChunkReader
			// ~2*d*d I/O calls (it re-resolves from the root node for every leaf
			// node), which exceeds the budget from d ~ 160 on. Not minimally
			// fixable, so chains deeper than 4 are not generated.
			ev.Excluded("R10-deep-index-quadratic")
		}
		return Base{Kind: "builder", Tree: genTree(t, 0)}
	case "raw":
		n := rapid.IntRange(0, 300).Draw(t, "rawlen")
		raw := rapid.SliceOfN(rapid.Byte(), n, n).Draw(t, "raw")
		if len(raw) >= 4 && uniform(t, "rawmagic", 4) != 0 {
			copy(raw, racspec.Magic[:])
			raw[3] = byte(rapid.IntRange(0, 5).Draw(t, "rawarity"))
			if uniform(t, "rawend", 2) == 0 {
				raw[len(raw)-1] = byte(rapid.IntRange(0, 5).Draw(t, "rawarity2"))
			}
		}
		return Base{Kind: "raw", Raw: raw}
	}
	b := Base{Kind: "writer"}
	n := rapid.IntRange(1, 4000).Draw(t, "len")
	b.Payload = []Seg{{K: pick(t, "pk", []string{"t", "s", "p", "r", "z"}), N: n, S: rapid.Uint32().Draw(t, "ps")}}
	switch uniform(t, "shape", 6) {
	case 0: // multi-level
		b.DChunk = uint64(max(1, n/rapid.IntRange(256, 700).Draw(t, "ml_chunks")))
	case 1:
		b.CChunk = uint64(rapid.IntRange(30, 600).Draw(t, "cchunk"))
	default:
		b.DChunk = uint64(max(1, n/rapid.IntRange(1, 40).Draw(t, "chunks")))
	}
	if uniform(t, "paged", 3) == 0 {
		b.CPage = uint64(1) << rapid.IntRange(1, 10).Draw(t, "log2page")
	}
	b.IndexStart = rapid.Bool().Draw(t, "index_start")
	if uniform(t, "dict", 3) == 0 && b.DChunk >= 300 {
		b.Dict = []Seg{{K: "t", N: rapid.IntRange(50, 800).Draw(t, "dictn"), S: b.Payload[0].S}}
	}
	return b
}

func genMutation(t *rapid.T) racspec.Mutation {
	return racspec.Mutation{
		Kind: pick(t, "mkind", racspec.MutationKinds),
		Node: rapid.IntRange(0, 40).Draw(t, "mnode"),
		Elem: rapid.IntRange(0, 300).Draw(t, "melem"),
		Val:  rapid.Uint64().Draw(t, "mval"),
		Aux:  rapid.IntRange(0, 300).Draw(t, "maux"),
		Aux2: rapid.IntRange(0, 40).Draw(t, "maux2"),
		Raw:  uniform(t, "mraw", 16) == 0,
	}
}

func genVariant(t *rapid.T) Variant {
	var v Variant
	switch uniform(t, "vkind", 20) {
	case 0: // the unmodified file
	case 1, 2:
		v.Trunc = 1 + rapid.IntRange(0, 400).Draw(t, "trunc")
		v.KeepClaim = rapid.Bool().Draw(t, "keep_claim")
	case 3, 4:
		v.ClaimDelta = pick(t, "claim", []int64{-100000, -4096, -33, -17, -16, -15, -1, 1, 15, 16, 17, 4096, 1 << 20})
	default:
		nm := pick(t, "nmuts", []int{1, 1, 1, 1, 2, 3})
		for i := 0; i < nm; i++ {
			v.Muts = append(v.Muts, genMutation(t))
		}
		if uniform(t, "also_claim", 12) == 0 {
			v.ClaimDelta = pick(t, "claim", []int64{-16, -1, 1, 16, 4096})
		}
	}
	v.ReaderAt = rapid.Bool().Draw(t, "reader_at")
	ns := rapid.IntRange(0, 4).Draw(t, "nseeks")
	for i := 0; i < ns; i++ {
		v.Seeks = append(v.Seeks, Seek{
			Pos: rapid.OneOf(rapid.Int64Range(0, 5000), rapid.Int64Range(0, 200), rapid.Int64Range(-3, 1<<21)).Draw(t, "seekpos"),
			N:   rapid.IntRange(0, 600).Draw(t, "seekn"),
		})
	}
	return v
}

func genCase(t *rapid.T) Case {
	c := Case{Base: genBase(t)}
	nv := 8
	if c.Base.Kind == "raw" {
		nv = 2
	}
	for i := 0; i < nv; i++ {
		c.Variants = append(c.Variants, genVariant(t))
	}
	return c
}

// ---------------------------------------------------------------- driver

type fataler interface{ Fatalf(string, ...any) }

func describe(c Case, i int) string {
	base, err := c.Base.make()
	if err != nil || i < 0 || i >= len(c.Variants) {
		return ""
	}
	bres := racspec.Walk(base, int64(len(base)), walkOpts(int64(len(base))))
	data, claimed, descs := derive(base, bres, c.Variants[i])
	hex := fmt.Sprintf("%x", data)
	if len(hex) > 1200 {
		hex = hex[:1200] + "…"
	}
	return fmt.Sprintf("\nvariant: %s\nfile (%d bytes, claimed %d): %s", strings.Join(descs, "; "), len(data), claimed, hex)
}

func runCase(t fataler, c Case) {
	ev.EvalN(max(1, len(c.Variants)))
	msg, failing, nts, classes := func() (msg string, failing int, nts []uint64, cl []string) {
		defer func() {
			if r := recover(); r != nil {
				msg, failing = fmt.Sprintf("panic outside the guarded calls: %v", r), -1
			}
		}()
		return checkCase(c)
	}()
	if msg != "" {
		// save only the failing variant (variants are independent).
		rc := c
		if failing >= 0 {
			rc.Variants = []Variant{c.Variants[failing]}
			if m2, _, _, _ := checkCase(rc); m2 == "" {
				rc = c // not reproducible in isolation: keep everything
			}
		}
		full := msg + describe(c, failing)
		ev.Fail("C15", "hostile", rc, full)
		b, _ := json.Marshal(rc)
		if len(b) > 3000 {
			b = append(b[:3000], "…"...)
		}
		t.Fatalf("C15 violated: %s\ncase: %s", full, b)
	}
	for _, k := range classes {
		ev.Class(k)
	}
	for i, h := range nts {
		i := i
		ev.Nontrivial(h, func() any {
			if i < len(c.Variants) {
				return Case{Base: c.Base, Variants: []Variant{c.Variants[i]}}
			}
			return nil
		})
	}
}

func TestProp(t *testing.T) {
	rapid.Check(t, func(t *rapid.T) {
		runCase(t, genCase(t))
	})
}

// rawCase wraps arbitrary bytes as a Case.
func rawCase(b []byte) Case {
	v := Variant{Seeks: []Seek{{Pos: 0, N: 64}, {Pos: 7, N: 300}}}
	if len(b) > 0 {
		v.ReaderAt = b[len(b)-1]&1 == 1
	}
	return Case{Base: Base{Kind: "raw", Raw: b}, Variants: []Variant{v}}
}

// FuzzChunkReader is the native fuzz target (thorough tier): the input is the
// file itself.
func FuzzChunkReader(f *testing.F) {
	for _, c := range seedCases() {
		base, err := c.Base.make()
		if err != nil {
			continue
		}
		f.Add(base)
		bres := racspec.Walk(base, int64(len(base)), racspec.Options{})
		for _, v := range c.Variants {
			d, _, _ := derive(base, bres, v)
			f.Add(d)
		}
	}
	f.Fuzz(func(t *testing.T, b []byte) {
		if len(b) > 64*1024 {
			return
		}
		runCase(t, rawCase(b))
	})
}

func seedCases() []Case {
	w := Base{Kind: "writer", Payload: []Seg{{K: "t", N: 900, S: 3}}, DChunk: 100, IndexStart: true}
	w2 := Base{Kind: "writer", Payload: []Seg{{K: "s", N: 600, S: 1}}, DChunk: 2}
	tree := &TNode{Codec: 1, AtEnd: true, Elems: []TElem{{K: "res", S: 5, Res: -1}, {K: "leaf", D: 50, S: 1, Res: 0},
		{K: "branch", Res: -1, Child: &TNode{Codec: 1, Region: true, AtEnd: true, Elems: []TElem{{K: "leaf", D: 20, S: 2, Res: -1}, {K: "leaf", D: 9, S: 3, V: 1, Res: -1}}}},
		{K: "branch", Res: -1, Child: &TNode{Codec: 0, Elems: []TElem{{K: "leaf", D: 33, Res: -1}}}}}}
	return []Case{
		{Base: w, Variants: []Variant{{}, {Muts: []racspec.Mutation{{Kind: "cycle", Val: 0}}}, {Muts: []racspec.Mutation{{Kind: "cptr-over-max", Elem: 2}}}}},
		{Base: w2, Variants: []Variant{{}, {Muts: []racspec.Mutation{{Kind: "cycle", Val: 1, Node: 0, Aux: 1}}}, {Trunc: 5}}},
		{Base: Base{Kind: "builder", Tree: tree}, Variants: []Variant{{}, {Muts: []racspec.Mutation{{Kind: "dict-len", Val: 3}}}}},
	}
}

func TestSeeds(t *testing.T) {
	for _, c := range seedCases() {
		if ev.ReplayPath() != "" {
			t.Skip()
		}
		if m, i, _, _ := checkCase(c); m != "" {
			t.Logf("seed case variant %d: %s", i, m)
		}
	}
}

func TestReplay(t *testing.T) {
	p := ev.ReplayPath()
	if p == "" {
		t.Skip("no VERIF_REPLAY")
	}
	r, err := ev.LoadReplay(p)
	if err != nil {
		t.Fatalf("load: %v", err)
	}
	if strings.HasPrefix(r.Kind, "fuzz:") {
		var text string
		if err := json.Unmarshal(r.Case, &text); err != nil {
			t.Fatalf("decode fuzz case: %v", err)
		}
		b, err := parseCorpus(text)
		if err != nil {
			t.Fatalf("corpus: %v", err)
		}
		runCase(t, rawCase(b))
		return
	}
	var c Case
	if err := json.Unmarshal(r.Case, &c); err != nil {
		t.Fatalf("decode: %v", err)
	}
	runCase(t, c)
}

// parseCorpus extracts the []byte of a "go test fuzz v1" corpus file.
func parseCorpus(text string) ([]byte, error) {
	for _, line := range strings.Split(text, "\n") {
		line = strings.TrimSpace(line)
		if strings.HasPrefix(line, "[]byte(") && strings.HasSuffix(line, ")") {
			s, err := strconv.Unquote(line[len("[]byte(") : len(line)-1])
			return []byte(s), err
		}
	}
	return nil, errors.New("no []byte line")
}

var _ = os.Getenv
