// Package c11 decides property C11: the Wuffs toolchain never crashes or
// hangs, whatever source text it is given, and the C emitted for every
// accepted program is accepted by the C compiler.
//
// The oracle runs the real pipeline of cmd/wuffs-c (token.Tokenize ->
// parse.Parse -> check.Check with use-resolution -> cgen) and of cmd/wuffsfmt
// (Tokenize -> Parse{AllowDoubleUnderscoreNames} -> render.Render) in-process
// with recover() around every stage, and the freshly built tools as
// subprocesses where a failure cannot be recovered (fatal stack overflow,
// non-termination).
package c11

import (
	"bytes"
	"crypto/sha256"
	"encoding/base64"
	"encoding/hex"
	"encoding/json"
	"fmt"
	"os"
	"os/exec"
	"path/filepath"
	"regexp"
	"runtime/debug"
	"sort"
	"strconv"
	"strings"
	"sync"
	"syscall"
	"testing"
	"time"
	"unicode/utf8"

	"github.com/google/wuffs/lang/check"
	"github.com/google/wuffs/lang/parse"
	"github.com/google/wuffs/lang/render"
	"pgregory.net/rapid"

	a "github.com/google/wuffs/lang/ast"
	t "github.com/google/wuffs/lang/token"

	"verif/internal/ev"
)

func TestMain(m *testing.M) {
	code := m.Run()
	cleanupProcess()
	ev.Flush()
	os.Exit(code)
}

// ---------------------------------------------------------------- the Case

// Case is the replayable form of one check. It fully determines the input
// presented to the toolchain.
type Case struct {
	// Kind: "src" (in-process pipeline, optionally also subprocesses and gcc)
	// or "bomb" (text built from Shape/Depth, subprocesses only).
	Kind string `json:"kind"`
	// Pkg is the package name given to wuffs-c. When File is not empty, Pkg
	// names a std package: std/<Pkg>/<File> is replaced by the case's text
	// and the package's other files are taken from the tree unchanged.
	Pkg  string `json:"pkg"`
	File string `json:"file,omitempty"`
	// The source text: Text, or Bytes when it is not valid UTF-8.
	Text  string `json:"text,omitempty"`
	Bytes []byte `json:"bytes,omitempty"`
	// Bombs.
	Shape string `json:"shape,omitempty"`
	Depth int    `json:"depth,omitempty"`
	// Sub: also run $VERIF_BIN/wuffs-c gen and $VERIF_BIN/wuffsfmt on it.
	Sub bool `json:"sub,omitempty"`
	// CC: if the checker accepts, wuffs-c gen runs and the emitted C goes
	// through gcc.
	CC bool `json:"cc,omitempty"`
	// Gen documents how the generator made the text (not used by the oracle).
	Gen string `json:"gen,omitempty"`
	// Known marks the reproducer of a known finding (documentation only: the
	// oracle still fails on it).
	Known string `json:"known,omitempty"`
}

func (c *Case) setSrc(b []byte) {
	if utf8.Valid(b) {
		c.Text, c.Bytes = string(b), nil
	} else {
		c.Text, c.Bytes = "", b
	}
}

func (c *Case) src() []byte {
	if c.Kind == "bomb" {
		return buildBomb(c.Shape, c.Depth)
	}
	if c.Bytes != nil {
		return c.Bytes
	}
	return []byte(c.Text)
}

// ---------------------------------------------------------------- environment

const (
	// The budget of the property: 10 s of CPU per input of at most 256 KiB. A
	// tool run that exceeds it is repeated at once with confirmBudget, and
	// only reported if it exceeds that too (the machine may be loaded: a
	// time-out alone is never reported). TestReplay uses confirmBudget from
	// the start.
	cpuBudget     = 10 * time.Second
	confirmBudget = 60 * time.Second
	// The in-process pipeline cannot be stopped and restarted, so it gets one
	// generous budget; its inputs are at most 64 KiB and take milliseconds.
	inprocBudget = 20 * time.Second
	bigInput     = 256 << 10
	// Inputs above 256 KiB (bombs up to 2 MiB) have no stated budget: they
	// are watched for crashes only, and stopped after bigBudget of CPU.
	bigBudget = 30 * time.Second
	// A formatter output above this size for an input of at most 256 KiB is
	// reported like a time-out (see the report: work is counted, not only
	// time).
	maxFmtOutput = 1 << 30
)

var (
	envOnce   sync.Once
	envErr    error
	wuffsRoot string // scratch Wuffs root: wuffs-root-directory.txt, gen/wuffs/std/*.wuffs
	workDir   string // per-process directory for case files
	ccDir     string // shared: wuffs-base.c (+ .gch), dependency C
	ownsRoot  bool
	binDir    = os.Getenv("VERIF_BIN")
	inReplay  = ev.ReplayPath() != ""
	inflight  string
	caseSeq   int
)

func inprocBudgetFor(n int) time.Duration {
	if inReplay || n > bigInput {
		return confirmBudget
	}
	return inprocBudget
}

// setupEnv builds (once per process, shared between the shards of one vcheck
// run) a scratch Wuffs root in which `use "std/xxx"` resolves exactly like it
// does for the real compiler: gen/wuffs/std/xxx.wuffs holds the public
// declarations of std/xxx (what `wuffs gen` writes; see cmd/wuffs/gen.go).
func setupEnv() error {
	envOnce.Do(func() {
		base := os.Getenv("VERIF_SCRATCH")
		if base == "" {
			d, err := os.MkdirTemp("/var/tmp", "c11-")
			if err != nil {
				envErr = err
				return
			}
			base, ownsRoot = d, true
		}
		gopath := filepath.Join(base, "c11root")
		wuffsRoot = filepath.Join(gopath, "src", "github.com", "google", "wuffs")
		if err := os.MkdirAll(filepath.Join(wuffsRoot, "gen", "wuffs", "std"), 0o755); err != nil {
			envErr = err
			return
		}
		// lang/wuffsroot looks for wuffs-root-directory.txt in the working
		// directory's ancestors: the tools run inside wuffsRoot.
		if err := writeFileAtomic(filepath.Join(wuffsRoot, "wuffs-root-directory.txt"), []byte("c11 scratch root\n")); err != nil {
			envErr = err
			return
		}
		workDir = filepath.Join(wuffsRoot, "work", strconv.Itoa(os.Getpid()))
		if err := os.MkdirAll(workDir, 0o755); err != nil {
			envErr = err
			return
		}
		ccDir = filepath.Join(wuffsRoot, "cc")
		os.MkdirAll(ccDir, 0o755)
		if err := loadStd(); err != nil {
			envErr = err
			return
		}
		for _, p := range stdPkgNames {
			txt, err := useInterface(p)
			if err != nil {
				// The unchanged std must parse; if it does not the tree is
				// broken in a way that C11's other cases will show. Keep going.
				ev.Note("cannot derive the use-interface of std/" + p + ": " + err.Error())
				continue
			}
			if err := writeFileAtomic(filepath.Join(wuffsRoot, "gen", "wuffs", "std", p+".wuffs"), txt); err != nil {
				envErr = err
				return
			}
		}
		if out := os.Getenv("VERIF_OUT"); out != "" && !inReplay {
			inflight = filepath.Join(out, "fail-inflight-"+strconv.Itoa(os.Getpid())+".json")
		}
	})
	return envErr
}

func cleanupProcess() {
	if inflight != "" {
		if inflightFile != nil {
			inflightFile.Close()
		}
		os.Remove(inflight)
	}
	if workDir != "" {
		os.RemoveAll(workDir)
	}
	if ownsRoot && wuffsRoot != "" {
		os.RemoveAll(filepath.Dir(filepath.Dir(filepath.Dir(filepath.Dir(filepath.Dir(wuffsRoot))))))
	}
}

func writeFileAtomic(path string, data []byte) error {
	if old, err := os.ReadFile(path); err == nil && bytes.Equal(old, data) {
		return nil
	}
	tmp := fmt.Sprintf("%s.tmp%d", path, os.Getpid())
	if err := os.WriteFile(tmp, data, 0o644); err != nil {
		return err
	}
	return os.Rename(tmp, path)
}

// useInterface mirrors genHelper.genWuffs of cmd/wuffs/gen.go.
func useInterface(pkg string) (out []byte, err error) {
	defer func() {
		if r := recover(); r != nil {
			err = fmt.Errorf("panic: %v", r)
		}
	}()
	tm := &t.Map{}
	buf := &bytes.Buffer{}
	fmt.Fprintf(buf, "// Code generated by running \"wuffs gen\". DO NOT EDIT.\n\n")
	for _, f := range stdPkgs[pkg] {
		tokens, _, err := t.Tokenize(tm, f.name, f.src)
		if err != nil {
			return nil, err
		}
		file, err := parse.Parse(tm, f.name, tokens, &parse.Options{AllowDoubleUnderscoreNames: true})
		if err != nil {
			return nil, err
		}
		for _, n := range file.TopLevelDecls() {
			switch n.Kind() {
			case a.KConst:
				n := n.AsConst()
				if !n.Public() {
					continue
				}
				fmt.Fprintf(buf, "pub const %s : %s = %v\n", n.QID().Str(tm), n.XType().Str(tm), n.Value().Str(tm))
			case a.KFunc:
				n := n.AsFunc()
				if !n.Public() {
					continue
				}
				if n.Receiver().IsZero() {
					return nil, fmt.Errorf("free-standing function")
				}
				fmt.Fprintf(buf, "pub func %s.%s%v(", n.Receiver().Str(tm), n.FuncName().Str(tm), n.Effect())
				for i, field := range n.In().Fields() {
					field := field.AsField()
					if i > 0 {
						fmt.Fprintf(buf, ", ")
					}
					fmt.Fprintf(buf, "%s: %s", field.Name().Str(tm), field.XType().Str(tm))
				}
				fmt.Fprintf(buf, ") ")
				if o := n.Out(); o != nil {
					fmt.Fprintf(buf, "%s ", o.Str(tm))
				}
				fmt.Fprintf(buf, "{ }\n")
			case a.KStatus:
				n := n.AsStatus()
				if !n.Public() {
					continue
				}
				fmt.Fprintf(buf, "pub status %s\n", n.QID().Str(tm))
			case a.KStruct:
				n := n.AsStruct()
				if !n.Public() {
					continue
				}
				fmt.Fprintf(buf, "pub struct %s", n.QID().Str(tm))
				if n.Classy() {
					fmt.Fprintf(buf, "?")
				}
				if imps := n.Implements(); len(imps) > 0 {
					fmt.Fprintf(buf, " implements ")
					for i, imp := range imps {
						if i > 0 {
							fmt.Fprintf(buf, ", ")
						}
						fmt.Fprintf(buf, "%s", imp.AsTypeExpr().Str(tm))
					}
				}
				fmt.Fprintf(buf, "()\n")
			}
		}
	}
	return buf.Bytes(), nil
}

// resolveUse is generate.resolveUse with the scratch root.
func resolveUse(usePath string) ([]byte, error) {
	return os.ReadFile(filepath.Join(wuffsRoot, "gen", "wuffs", filepath.FromSlash(usePath)))
}

// ---------------------------------------------------------------- std corpus

type srcFile struct {
	name string // base name
	src  []byte
}

var (
	stdPkgs     = map[string][]srcFile{}
	stdPkgNames []string
	stdUses     = map[string][]string{} // direct `use "std/x"` dependencies
)

var useRE = regexp.MustCompile(`(?m)^use "std/([a-z0-9]+)"`)

func loadStd() error {
	dirs, err := os.ReadDir(filepath.Join(ev.RepoRoot(), "std"))
	if err != nil {
		return err
	}
	for _, d := range dirs {
		if !d.IsDir() {
			continue
		}
		files, _ := filepath.Glob(filepath.Join(ev.RepoRoot(), "std", d.Name(), "*.wuffs"))
		sort.Strings(files)
		for _, f := range files {
			b, err := os.ReadFile(f)
			if err != nil {
				return err
			}
			stdPkgs[d.Name()] = append(stdPkgs[d.Name()], srcFile{filepath.Base(f), b})
			for _, m := range useRE.FindAllSubmatch(b, -1) {
				dep := string(m[1])
				dup := false
				for _, x := range stdUses[d.Name()] {
					dup = dup || x == dep
				}
				if !dup {
					stdUses[d.Name()] = append(stdUses[d.Name()], dep)
				}
			}
		}
		if len(files) > 0 {
			stdPkgNames = append(stdPkgNames, d.Name())
		}
	}
	sort.Strings(stdPkgNames)
	if len(stdPkgNames) == 0 {
		return fmt.Errorf("no std packages under %s", ev.RepoRoot())
	}
	return nil
}

// caseFiles returns the files of the package the case presents.
func caseFiles(c Case) ([]srcFile, int, error) {
	src := c.src()
	if c.File == "" {
		return []srcFile{{"input.wuffs", src}}, 0, nil
	}
	fs, ok := stdPkgs[c.Pkg]
	if !ok {
		return nil, 0, fmt.Errorf("unknown std package %q", c.Pkg)
	}
	out := make([]srcFile, len(fs))
	copy(out, fs)
	for i := range out {
		if out[i].name == c.File {
			out[i].src = src
			return out, i, nil
		}
	}
	return nil, 0, fmt.Errorf("std/%s has no file %q", c.Pkg, c.File)
}

// ---------------------------------------------------------------- CPU clock

func procCPU() time.Duration {
	var ru syscall.Rusage
	if syscall.Getrusage(syscall.RUSAGE_SELF, &ru) != nil {
		return 0
	}
	return time.Duration(ru.Utime.Nano() + ru.Stime.Nano())
}

// The in-process pipeline runs on the test's own goroutine (a hand-over to
// another goroutine per case costs more than the pipeline itself). A watchdog
// goroutine looks twice a second at the CPU time the process has burnt since
// the current case began; when that exceeds the budget the case is recorded
// as a failure and the process ends (a runaway pipeline cannot be stopped; the
// driver replays the recorded case with the confirmation budget).
var wd struct {
	sync.Mutex
	active bool
	start  time.Duration
	budget time.Duration
	onHang func(used time.Duration)
	once   sync.Once
}

func watched(budget time.Duration, onHang func(used time.Duration), f func()) {
	wd.once.Do(func() {
		go func() {
			for {
				time.Sleep(500 * time.Millisecond)
				wd.Lock()
				if wd.active {
					if used := procCPU() - wd.start; used > wd.budget {
						wd.onHang(used) // does not return
					}
				}
				wd.Unlock()
			}
		}()
	})
	wd.Lock()
	wd.active, wd.start, wd.budget, wd.onHang = true, procCPU(), budget, onHang
	wd.Unlock()
	defer func() {
		wd.Lock()
		wd.active = false
		wd.Unlock()
	}()
	f()
}

// hangExit records an in-process hang and ends the process.
func hangExit(c Case, msg string) {
	ev.Fail("C11", c.Kind, c, msg)
	fmt.Printf("C11 violated: %s\n", msg)
	cleanupProcess()
	ev.Flush()
	os.Exit(1)
}

// ---------------------------------------------------------------- in-process pipeline

type stageErr struct {
	stage string
	msg   string // panic text + stack, "" if none
}

func protect(stage string, f func()) (se *stageErr) {
	defer func() {
		if r := recover(); r != nil {
			st := string(debug.Stack())
			se = &stageErr{stage, fmt.Sprintf("%s panicked: %v\n%s", stage, r, firstFrames(st, 14))}
		}
	}()
	f()
	return nil
}

func firstFrames(st string, n int) string {
	lines := strings.Split(st, "\n")
	// drop the frames of debug.Stack / the deferred func / runtime.gopanic
	out := []string{}
	skipping := true
	for i := 0; i < len(lines); i++ {
		l := lines[i]
		if skipping {
			if strings.HasPrefix(l, "panic(") || strings.Contains(l, "runtime.gopanic") || strings.Contains(l, "runtime.sigpanic") {
				skipping = false
				i++ // its file:line
			}
			continue
		}
		out = append(out, l)
		if len(out) >= n {
			break
		}
	}
	if len(out) == 0 {
		if len(lines) > n {
			lines = lines[:n]
		}
		return strings.Join(lines, "\n")
	}
	return strings.Join(out, "\n")
}

type pipeResult struct {
	viol      string // violation text, "" if none
	stage     string // deepest stage reached: tokenize, parse, check, cgen, accepted
	errMsg    string // the ordinary error that ended the pipeline ("" if accepted)
	tokenized bool   // every file tokenized (the parser was reached)
	accepted  bool   // check.Check returned nil
	fmtOK     bool   // the formatter pipeline produced output
}

// runPipeline is the in-process oracle body: every stage under recover().
func runPipeline(files []srcFile, mutated int) (r pipeResult) {
	tm := &t.Map{}
	asts := make([]*a.File, 0, len(files))
	r.stage = "tokenize"
	toks := make([][]t.Token, len(files))
	var mutComments []string
	for i, f := range files {
		var err error
		var comments []string
		if se := protect("token.Tokenize", func() { toks[i], comments, err = t.Tokenize(tm, f.name, f.src) }); se != nil {
			r.viol = se.msg
			return r
		}
		if err != nil {
			r.errMsg = err.Error()
			return r
		}
		if i == mutated {
			mutComments = comments
		}
	}
	r.tokenized = true

	// The formatter: Parse with wuffsfmt's options, then Render. Render is
	// also fed token streams the parser rejects (it is an exported function
	// taking tokens, not an AST); its result then only has to be a value or
	// an error.
	{
		ftm := &t.Map{}
		var ftoks []t.Token
		var fcomments []string
		var err error
		f := files[mutated]
		if se := protect("token.Tokenize", func() { ftoks, fcomments, err = t.Tokenize(ftm, f.name, f.src) }); se != nil {
			r.viol = se.msg
			return r
		}
		_ = mutComments
		if err == nil {
			var perr error
			if se := protect("parse.Parse(wuffsfmt options)", func() {
				_, perr = parse.Parse(ftm, f.name, ftoks, &parse.Options{AllowDoubleUnderscoreNames: true})
			}); se != nil {
				r.viol = se.msg
				return r
			}
			var rerr error
			w := &cappedWriter{cap: 64 << 20}
			if se := protect("render.Render", func() { rerr = render.Render(w, ftm, ftoks, fcomments) }); se != nil {
				r.viol = se.msg
				return r
			}
			r.fmtOK = perr == nil && rerr == nil
		}
	}

	r.stage = "parse"
	for i, f := range files {
		var file *a.File
		var err error
		if se := protect("parse.Parse", func() { file, err = parse.Parse(tm, f.name, toks[i], nil) }); se != nil {
			r.viol = se.msg
			return r
		}
		if err != nil {
			r.errMsg = err.Error()
			return r
		}
		asts = append(asts, file)
	}

	r.stage = "check"
	var err error
	if se := protect("check.Check", func() { _, err = check.Check(tm, asts, resolveUse) }); se != nil {
		r.viol = se.msg
		return r
	}
	if err != nil {
		r.errMsg = err.Error()
		return r
	}
	r.accepted = true

	r.stage = "accepted"
	return r
}

type cappedWriter struct {
	n, cap int64
}

func (w *cappedWriter) Write(p []byte) (int, error) {
	w.n += int64(len(p))
	if w.n > w.cap {
		return 0, fmt.Errorf("c11: output cap reached")
	}
	return len(p), nil
}

func writeCaseFiles(files []srcFile) ([]string, error) {
	caseSeq++
	dir := filepath.Join(workDir, "case")
	os.RemoveAll(dir)
	if err := os.MkdirAll(dir, 0o755); err != nil {
		return nil, err
	}
	paths := make([]string, len(files))
	for i, f := range files {
		paths[i] = filepath.Join(dir, f.name)
		if err := os.WriteFile(paths[i], f.src, 0o644); err != nil {
			return nil, err
		}
	}
	return paths, nil
}

// cgenTool runs the C generator: internal/cgen cannot be imported from
// outside its module, so the stage is `$VERIF_BIN/wuffs-c gen` (cgen.Do), whose
// panics show as exit status 2 with a Go traceback on stderr.
func cgenTool(pkg string, paths []string, n int) (out []byte, r subResult, viol string) {
	tmp := filepath.Join(workDir, "cgen.out")
	r, viol = tool("wuffs-c gen", n, nil, tmp, "wuffs-c", append([]string{"gen", "-package_name", pkg}, paths...)...)
	if viol != "" {
		return nil, r, viol
	}
	if r.exit == 0 {
		b, err := os.ReadFile(tmp)
		if err != nil {
			return nil, r, "HARNESS: " + err.Error()
		}
		out = b
	}
	return out, r, ""
}

// tool runs one of the built tools under the property's budget and judges the
// result. r.exit is -2 when the run was not judged (stopped although no budget
// applies: inputs above 256 KiB, or the wall-clock safety net).
func tool(what string, n int, stdin []byte, stdoutPath string, name string, args ...string) (r subResult, viol string) {
	if binDir == "" {
		return r, "HARNESS: VERIF_BIN is not set (the driver's prepTools builds wuffs-c and wuffsfmt from the tree)"
	}
	budget := cpuBudget
	if n > bigInput && inReplay {
		budget = 10 * bigBudget
	} else if n > bigInput {
		budget = bigBudget
	} else if inReplay {
		budget = confirmBudget
	}
	r = runTool(budget, stdin, stdoutPath, name, args...)
	if strings.HasPrefix(r.killed, "CPU budget") && n <= bigInput && budget < confirmBudget {
		ev.Class("slow:" + name + "-repeated-with-60s")
		r = runTool(confirmBudget, stdin, stdoutPath, name, args...)
	}
	viol, note := judgeTool(what, n, r)
	if viol == "" && note == "" && name == "wuffsfmt" && n <= bigInput && r.stdoutN > maxFmtOutput {
		viol = fmt.Sprintf("wuffsfmt wrote %d bytes for an input of %d bytes (CPU %v): the work is out of all proportion to the input", r.stdoutN, n, r.cpu)
	}
	if note != "" {
		ev.Note(note)
		r.exit = -2
	}
	return r, viol
}

// ---------------------------------------------------------------- subprocesses

type subResult struct {
	exit    int // exit status (-1: killed)
	stderr  string
	cpu     time.Duration
	killed  string // "" or why the harness killed it
	stdoutN int64
}

type headBuf struct {
	b   []byte
	cap int
}

func (h *headBuf) Write(p []byte) (int, error) {
	if room := h.cap - len(h.b); room > 0 {
		if len(p) < room {
			room = len(p)
		}
		h.b = append(h.b, p[:room]...)
	}
	return len(p), nil
}

type countWriter struct{ n int64 }

func (w *countWriter) Write(p []byte) (int, error) { w.n += int64(len(p)); return len(p), nil }

func pidCPU(pid int) time.Duration {
	b, err := os.ReadFile("/proc/" + strconv.Itoa(pid) + "/stat")
	if err != nil {
		return 0
	}
	s := string(b)
	i := strings.LastIndexByte(s, ')')
	if i < 0 {
		return 0
	}
	f := strings.Fields(s[i+1:])
	if len(f) < 13 {
		return 0
	}
	ut, _ := strconv.ParseInt(f[11], 10, 64)
	st, _ := strconv.ParseInt(f[12], 10, 64)
	return time.Duration(ut+st) * (time.Second / 100)
}

// runTool runs one of the built tools inside the scratch root, with a CPU
// budget (measured from /proc, enforced by killing) and a generous wall-clock
// safety net (a wall time-out alone is never a violation).
func runTool(budget time.Duration, stdin []byte, stdoutPath string, name string, args ...string) subResult {
	cmd := exec.Command(filepath.Join(binDir, name), args...)
	cmd.Dir = wuffsRoot
	cmd.Env = append(os.Environ(), "GOMAXPROCS=2", "GOTRACEBACK=single")
	if stdin != nil {
		cmd.Stdin = bytes.NewReader(stdin)
	}
	eb := &headBuf{cap: 16 << 10}
	cmd.Stderr = eb
	cw := &countWriter{}
	var of *os.File
	if stdoutPath != "" {
		var err error
		of, err = os.Create(stdoutPath)
		if err != nil {
			return subResult{exit: -1, killed: "HARNESS: " + err.Error()}
		}
		defer of.Close()
		cmd.Stdout = of
	} else {
		cmd.Stdout = cw
	}
	if err := cmd.Start(); err != nil {
		return subResult{exit: -1, killed: "HARNESS: cannot start " + name + ": " + err.Error()}
	}
	done := make(chan error, 1)
	go func() { done <- cmd.Wait() }()
	tick := time.NewTicker(100 * time.Millisecond)
	defer tick.Stop()
	wallLimit := time.Now().Add(20*time.Minute + 20*budget)
	res := subResult{}
	for {
		select {
		case <-done:
			ps := cmd.ProcessState
			res.exit = ps.ExitCode()
			res.cpu = ps.UserTime() + ps.SystemTime()
			res.stderr = string(eb.b)
			res.stdoutN = cw.n
			return res
		case <-tick.C:
			if u := pidCPU(cmd.Process.Pid); u > budget && res.killed == "" {
				res.killed = fmt.Sprintf("CPU budget of %v exceeded", budget)
				cmd.Process.Kill()
			} else if time.Now().After(wallLimit) && res.killed == "" {
				res.killed = "wall-clock safety net"
				cmd.Process.Kill()
			}
		}
	}
}

var crashRE = regexp.MustCompile(`(?m)^(panic: |fatal error: |goroutine \d+ \[|runtime: goroutine stack exceeds|SIG[A-Z]+: )`)

// judgeTool turns a subprocess result into a violation text ("" = fine).
func judgeTool(what string, n int, r subResult) (viol string, note string) {
	if strings.HasPrefix(r.killed, "HARNESS") {
		return r.killed, ""
	}
	if r.killed == "wall-clock safety net" {
		return "", what + ": wall-clock safety net hit (CPU " + r.cpu.String() + "); not judged"
	}
	if r.killed != "" {
		if n > bigInput {
			return "", fmt.Sprintf("%s: input of %d bytes (> 256 KiB, no stated budget) stopped after %v CPU", what, n, r.cpu)
		}
		return fmt.Sprintf("%s did not terminate: %s (input %d bytes <= 256 KiB, CPU used %v)", what, r.killed, n, r.cpu), ""
	}
	if crashRE.MatchString(r.stderr) || r.exit == 2 || r.exit < 0 || r.exit > 2 {
		return fmt.Sprintf("%s crashed: exit status %d, stderr:\n%s", what, r.exit, headLines(r.stderr, 24)), ""
	}
	if r.exit == 1 && strings.TrimSpace(r.stderr) == "" {
		return fmt.Sprintf("%s: exit status 1 without an error message", what), ""
	}
	return "", ""
}

func headLines(s string, n int) string {
	lines := strings.Split(s, "\n")
	if len(lines) > n {
		lines = lines[:n]
	}
	return strings.Join(lines, "\n")
}

// ---------------------------------------------------------------- gcc

var (
	ccOnce  sync.Once
	ccErr   error
	ccSeen  = map[[32]byte]bool{}
	depOnce = map[string]error{}
)

const ccDefs = "-DWUFFS_IMPLEMENTATION -DWUFFS_CONFIG__MODULES -DWUFFS_CONFIG__MODULE__BASE__CORE"

// setupCC writes wuffs-base.c (the output of `wuffs-c gen -package_name
// base`, produced by the tree's own cgen) and a precompiled header of it into
// the shared directory. The PCH only saves time; ccNoPCH holds a plain copy
// used to re-confirm every rejection without it.
func setupCC() error {
	ccOnce.Do(func() {
		out, r, viol := cgenTool("base", nil, 0)
		if viol != "" || r.exit != 0 {
			ccErr = fmt.Errorf("generating the base C with wuffs-c gen -package_name base: exit %d %s %s", r.exit, viol, headLines(r.stderr, 5))
			return
		}
		h := sha256.Sum256(out)
		ccDir = filepath.Join(wuffsRoot, "cc-"+hex.EncodeToString(h[:6]))
		plain := filepath.Join(ccDir, "plain")
		if _, err := os.Stat(filepath.Join(ccDir, "ready")); err == nil {
			return
		}
		// Build in a private directory, then publish atomically.
		tmp := fmt.Sprintf("%s.tmp%d", ccDir, os.Getpid())
		os.RemoveAll(tmp)
		if err := os.MkdirAll(filepath.Join(tmp, "plain"), 0o755); err != nil {
			ccErr = err
			return
		}
		os.WriteFile(filepath.Join(tmp, "wuffs-base.c"), out, 0o644)
		os.WriteFile(filepath.Join(tmp, "plain", "wuffs-base.c"), out, 0o644)
		args := append([]string{"-std=c99"}, strings.Fields(ccDefs)...)
		args = append(args, "-x", "c-header", "wuffs-base.c", "-o", "wuffs-base.c.gch")
		cmd := exec.Command("gcc", args...)
		cmd.Dir = tmp
		if o, err := cmd.CombinedOutput(); err != nil {
			// No PCH: slower, still correct.
			ev.Note("gcc could not precompile wuffs-base.c: " + headLines(string(o), 3))
			os.Remove(filepath.Join(tmp, "wuffs-base.c.gch"))
		}
		os.WriteFile(filepath.Join(tmp, "ready"), []byte("ok\n"), 0o644)
		if err := os.Rename(tmp, ccDir); err != nil {
			os.RemoveAll(tmp) // another shard was faster
		}
		_ = plain
		if _, err := os.Stat(filepath.Join(ccDir, "ready")); err != nil {
			ccErr = fmt.Errorf("cannot publish %s", ccDir)
		}
	})
	return ccErr
}

// depsOf returns the transitive std dependencies of a std package, deepest
// first.
func depsOf(pkg string) []string {
	var out []string
	seen := map[string]bool{}
	var visit func(p string)
	visit = func(p string) {
		for _, d := range stdUses[p] {
			if !seen[d] {
				seen[d] = true
				visit(d)
				out = append(out, d)
			}
		}
	}
	visit(pkg)
	return out
}

// depC makes sure cc/wuffs-std-<pkg>.c exists: the C of the UNCHANGED std/<pkg>.
func depC(pkg string) error {
	if err, ok := depOnce[pkg]; ok {
		return err
	}
	var err error
	for _, dir := range []string{ccDir, filepath.Join(ccDir, "plain")} {
		dst := filepath.Join(dir, "wuffs-std-"+pkg+".c")
		if _, serr := os.Stat(dst); serr == nil {
			continue
		}
		paths, werr := writeCaseFiles(stdPkgs[pkg])
		if werr != nil {
			err = werr
			break
		}
		out, r, viol := cgenTool(pkg, paths, 0)
		if viol != "" || r.exit != 0 {
			err = fmt.Errorf("exit %d %s %s", r.exit, viol, headLines(r.stderr, 5))
			break
		}
		if werr := writeFileAtomic(dst, out); werr != nil {
			err = werr
			break
		}
	}
	depOnce[pkg] = err
	return err
}

var usedPkgRE = regexp.MustCompile(`(?m)^\s*use\s+"std/([a-z0-9]+)"`)

// ccCheck runs `gcc -fsyntax-only -std=c99` on the emitted C. deps are std
// packages whose (unchanged) C must precede it.
func ccCheck(pkg string, csrc []byte, deps []string) (viol string, cached bool) {
	if err := setupCC(); err != nil {
		return "HARNESS: " + err.Error(), false
	}
	h := sha256.Sum256(append([]byte(pkg+"\x00"+strings.Join(deps, ",")+"\x00"), csrc...))
	if ccSeen[h] {
		return "", true
	}
	var all []string
	seen := map[string]bool{}
	for _, d := range deps {
		for _, dd := range append(depsOf(d), d) {
			if !seen[dd] && dd != pkg {
				seen[dd] = true
				all = append(all, dd)
			}
		}
	}
	for _, d := range all {
		if _, ok := stdPkgs[d]; !ok {
			return "", true // a `use` of something that is not a std package cannot have been accepted
		}
		if err := depC(d); err != nil {
			return "HARNESS: generating C for the unchanged std/" + d + ": " + err.Error(), false
		}
	}
	// The emitted C includes "./wuffs-base.c" and "./wuffs-std-<dep>.c"
	// itself, exactly like the files `wuffs gen` puts into gen/c.
	buf := bytes.NewBuffer(csrc)
	name := fmt.Sprintf("p%d.c", os.Getpid())
	defs := strings.Fields(ccDefs)
	defs = append(defs, "-DWUFFS_CONFIG__MODULE__"+strings.ToUpper(pkg))
	for _, d := range all {
		defs = append(defs, "-DWUFFS_CONFIG__MODULE__"+strings.ToUpper(d))
	}
	run := func(dir string) (string, error) {
		p := filepath.Join(dir, name)
		if err := os.WriteFile(p, buf.Bytes(), 0o644); err != nil {
			return "", err
		}
		defer os.Remove(p)
		args := append([]string{"-fsyntax-only", "-std=c99", "-Werror=implicit-function-declaration"}, defs...)
		args = append(args, name)
		cmd := exec.Command("gcc", args...)
		cmd.Dir = dir
		o, err := cmd.CombinedOutput()
		return string(o), err
	}
	out, err := run(ccDir)
	if err != nil {
		// Re-confirm without the precompiled header.
		out, err = run(filepath.Join(ccDir, "plain"))
	}
	if err != nil {
		if _, isExit := err.(*exec.ExitError); !isExit {
			return "HARNESS: cannot run gcc: " + err.Error(), false
		}
		return "the checker accepted the program but gcc -fsyntax-only -std=c99 rejects the emitted C:\n" + headLines(out, 16), false
	}
	ccSeen[h] = true
	return "", false
}

// ---------------------------------------------------------------- the oracle

var (
	errSiteRE = regexp.MustCompile(`[0-9]+|"[^"]*"|'[^']*'`)
	proseRE   = regexp.MustCompile(`^[a-zA-Z-]+[:,;]?$|^_[:,;]?$|^[?!]$`)
)

// errPrefix is the histogram key of an error message: its first three words,
// with quoted names and numbers blanked.
func errPrefix(msg string) string {
	if i := strings.IndexByte(msg, '\n'); i >= 0 {
		msg = msg[:i]
	}
	if i := strings.Index(msg, " at "); i > 0 {
		msg = msg[:i]
	}
	msg = errSiteRE.ReplaceAllString(msg, "_")
	w := strings.Fields(msg)
	if len(w) > 4 {
		w = w[:4] // "check:" + three words
	}
	for i, s := range w {
		// names and expressions quoted without quotes ("this.x[i] is an
		// array") are blanked, so that the key identifies the error site
		if !proseRE.MatchString(s) {
			w[i] = "_"
		}
	}
	s := strings.Join(w, " ")
	if len(s) > 48 {
		s = s[:48]
	}
	return s
}

// checkCase is the oracle. msg == "" when the property holds on c.
func checkCase(c Case) (msg string, nontrivial bool, classes []string) {
	if err := setupEnv(); err != nil {
		return "HARNESS: " + err.Error(), false, nil
	}
	switch c.Kind {
	case "src":
		return checkSrc(c)
	case "bomb":
		return checkBomb(c)
	}
	return "HARNESS: unknown case kind " + c.Kind, false, nil
}

func checkSrc(c Case) (msg string, nontrivial bool, classes []string) {
	files, mutated, err := caseFiles(c)
	if err != nil {
		return "HARNESS: " + err.Error(), false, nil
	}
	total := 0
	for _, f := range files {
		total += len(f.src)
	}
	var r pipeResult
	watched(inprocBudgetFor(len(files[mutated].src)), func(used time.Duration) {
		hangExit(c, fmt.Sprintf("the in-process pipeline did not terminate: %v of CPU used on an input of %d bytes", used, len(files[mutated].src)))
	}, func() { r = runPipeline(files, mutated) })
	if r.viol != "" {
		return r.viol, false, nil
	}
	n := len(files[mutated].src)
	var cOut []byte
	cgenRan := false
	var cgenRes subResult
	if r.accepted && (c.CC || c.Sub) {
		// The C generator.
		paths, err := writeCaseFiles(files)
		if err != nil {
			return "HARNESS: " + err.Error(), false, nil
		}
		var viol string
		cOut, cgenRes, viol = cgenTool(c.Pkg, paths, n)
		if viol != "" {
			return viol, false, nil
		}
		cgenRan = cgenRes.exit >= 0
		switch {
		case cgenRes.exit == 0:
			r.stage = "emitted"
		case cgenRes.exit == 1:
			r.stage, r.errMsg = "cgen", strings.TrimSpace(cgenRes.stderr)
			if strings.HasPrefix(r.errMsg, "check:") || strings.HasPrefix(r.errMsg, "parse:") || strings.HasPrefix(r.errMsg, "token:") {
				return fmt.Sprintf("HARNESS: the in-process checker accepted but wuffs-c gen says %q", headLines(r.errMsg, 2)), false, nil
			}
		default:
			r.stage = "cgen-not-judged"
		}
	}
	switch {
	case !r.tokenized:
		classes = append(classes, "stage:1-tokenize-error")
	case r.stage == "parse":
		classes = append(classes, "stage:2-parse-error", "perr:"+errPrefix(r.errMsg))
	case r.stage == "check":
		classes = append(classes, "stage:3-check-error", "cerr:"+errPrefix(r.errMsg))
	case r.stage == "cgen":
		classes = append(classes, "stage:4-cgen-error", "gerr:"+errPrefix(r.errMsg))
	case r.stage == "accepted":
		classes = append(classes, "stage:5-accepted")
	case r.stage == "emitted":
		classes = append(classes, "stage:5-accepted", "stage:6-C-emitted")
	default:
		classes = append(classes, "stage:"+r.stage)
	}
	if r.fmtOK {
		classes = append(classes, "fmt:rendered")
	}
	nontrivial = r.tokenized

	if r.stage == "emitted" && c.CC {
		deps := []string{}
		for _, f := range files {
			for _, m := range usedPkgRE.FindAllSubmatch(f.src, -1) {
				deps = append(deps, string(m[1]))
			}
		}
		viol, cached := ccCheck(c.Pkg, cOut, deps)
		if viol != "" {
			return viol, false, nil
		}
		if cached {
			classes = append(classes, "cc:same-C-as-before")
		} else {
			classes = append(classes, "cc:gcc-ok")
		}
	}

	if c.Sub {
		if binDir == "" {
			classes = append(classes, "sub:skipped-no-VERIF_BIN")
			return "", nontrivial, classes
		}
		if !cgenRan {
			// wuffs-c also on what the in-process pipeline rejected.
			paths, err := writeCaseFiles(files)
			if err != nil {
				return "HARNESS: " + err.Error(), false, nil
			}
			_, sr, viol := cgenTool(c.Pkg, paths, n)
			if viol != "" {
				return viol, false, nil
			}
			if sr.exit == 0 {
				return fmt.Sprintf("HARNESS: the in-process pipeline stopped at stage %s (%q) but wuffs-c gen accepts", r.stage, r.errMsg), false, nil
			}
			if sr.exit == 1 && !r.accepted && errPrefix(sr.stderr) != errPrefix(r.errMsg) {
				return fmt.Sprintf("HARNESS: the in-process pipeline (stage %s, %q) and wuffs-c gen (%q) give different errors", r.stage, r.errMsg, headLines(sr.stderr, 2)), false, nil
			}
			classes = append(classes, fmt.Sprintf("sub:wuffs-c-exit%d", sr.exit))
		}
		fr, viol := tool("wuffsfmt", n, files[mutated].src, "", "wuffsfmt")
		if viol != "" {
			return viol, false, nil
		}
		if fr.exit >= 0 && (fr.exit == 0) != r.fmtOK && r.tokenized {
			return fmt.Sprintf("HARNESS: the in-process formatter (ok=%v) and wuffsfmt (exit %d, %q) disagree", r.fmtOK, fr.exit, headLines(fr.stderr, 2)), false, nil
		}
		classes = append(classes, fmt.Sprintf("sub:wuffsfmt-exit%d", fr.exit))
	}
	return "", nontrivial, classes
}

func checkBomb(c Case) (msg string, nontrivial bool, classes []string) {
	if binDir == "" {
		return "", false, []string{"sub:skipped-no-VERIF_BIN"}
	}
	src := c.src()
	n := len(src)
	paths, err := writeCaseFiles([]srcFile{{"bomb.wuffs", src}})
	if err != nil {
		return "HARNESS: " + err.Error(), false, nil
	}
	cOut := filepath.Join(workDir, "sub.c")
	sr, viol := tool("wuffs-c gen", n, nil, cOut, "wuffs-c", "gen", "-package_name", c.Pkg, paths[0])
	if viol != "" {
		return viol, false, nil
	}
	if sr.exit == -2 {
		classes = append(classes, "bomb:over-256KiB-stopped")
	}
	classes = append(classes, "bomb:"+c.Shape, fmt.Sprintf("sub:wuffs-c-exit%d", sr.exit))
	nontrivial = sr.exit == 0 || !strings.HasPrefix(sr.stderr, "token:")
	if sr.exit == 0 {
		classes = append(classes, "stage:5-accepted")
		if c.CC {
			out, err := os.ReadFile(cOut)
			if err != nil {
				return "HARNESS: " + err.Error(), false, nil
			}
			if viol, _ := ccCheck(c.Pkg, out, nil); viol != "" {
				return viol, false, nil
			}
			classes = append(classes, "cc:gcc-ok")
		}
	} else {
		switch {
		case strings.HasPrefix(sr.stderr, "token:"):
			classes = append(classes, "stage:1-tokenize-error")
		case strings.HasPrefix(sr.stderr, "parse:"):
			classes = append(classes, "stage:2-parse-error", "perr:"+errPrefix(sr.stderr))
		case strings.HasPrefix(sr.stderr, "check:"):
			classes = append(classes, "stage:3-check-error", "cerr:"+errPrefix(sr.stderr))
		default:
			classes = append(classes, "stage:4-cgen-error", "gerr:"+errPrefix(sr.stderr))
		}
	}
	fr, viol := tool("wuffsfmt", n, src, "", "wuffsfmt")
	if viol != "" {
		return viol, false, nil
	}
	if fr.exit == -2 {
		classes = append(classes, "bomb:over-256KiB-stopped")
	}
	classes = append(classes, fmt.Sprintf("sub:wuffsfmt-exit%d", fr.exit))
	return "", nontrivial, classes
}

// ---------------------------------------------------------------- running cases

type fataler interface {
	Fatalf(string, ...any)
}

// markInflight leaves the running case on disk (as a replay file written by
// hand: one write per case has to be cheap) so that a death of the whole
// process - a fatal stack overflow cannot be recovered - still has a
// reproducer; the file is removed when the process ends normally.
func markInflight(c Case) {
	if inflight == "" {
		return
	}
	q := func(s string) string { b, _ := json.Marshal(s); return string(b) }
	buf := make([]byte, 0, 512+len(c.Text)*4/3+len(c.Bytes)*4/3)
	buf = append(buf, `{"property":"C11","kind":`...)
	buf = append(buf, q(c.Kind)...)
	buf = append(buf, `,"message":"the test process died while this case was running (fatal error such as a stack overflow, or killed)","case":{"kind":`...)
	buf = append(buf, q(c.Kind)...)
	buf = append(buf, `,"pkg":`...)
	buf = append(buf, q(c.Pkg)...)
	buf = append(buf, `,"file":`...)
	buf = append(buf, q(c.File)...)
	buf = append(buf, `,"gen":`...)
	buf = append(buf, q(c.Gen)...)
	if c.Kind == "bomb" {
		buf = append(buf, fmt.Sprintf(`,"shape":%s,"depth":%d`, q(c.Shape), c.Depth)...)
	} else {
		src := c.src()
		buf = append(buf, `,"bytes":"`...)
		n := len(buf)
		buf = append(buf, make([]byte, base64.StdEncoding.EncodedLen(len(src)))...)
		base64.StdEncoding.Encode(buf[n:], src)
		buf = append(buf, '"')
	}
	buf = append(buf, fmt.Sprintf(`,"sub":%v,"cc":%v}}`, c.Sub, c.CC)...)
	if inflightFile == nil {
		f, err := os.Create(inflight)
		if err != nil {
			return
		}
		inflightFile = f
	}
	inflightFile.WriteAt(buf, 0)
	inflightFile.Truncate(int64(len(buf)))
}

var inflightFile *os.File

func runCase(tb fataler, c Case) {
	ev.Eval()
	if err := setupEnv(); err != nil {
		tb.Fatalf("HARNESS: %v", err)
	}
	markInflight(c)
	msg, nt, classes := checkCase(c)
	if msg != "" && c.Kind == "src" && !inReplay && !strings.HasPrefix(msg, "HARNESS") && !strings.Contains(msg, "did not terminate") {
		// Text-level shrinking, once per violation signature; while rapid
		// goes on shrinking its draws the smallest text seen so far is what
		// stays recorded.
		sig := violSig(msg)
		if b, ok := smallest[sig]; !ok {
			c, msg = shrinkText(c, msg)
			smallest[sig] = shrunk{c, msg}
		} else if len(b.c.src()) <= len(c.src()) {
			c, msg = b.c, b.msg
		} else {
			smallest[sig] = shrunk{c, msg}
		}
	}
	if msg != "" {
		ev.Fail("C11", c.Kind, c, msg)
		// the violation comes last: the driver shows the tail of the output
		tb.Fatalf("case: %s\nC11 violated: %s", caseSummary(c), msg)
	}
	for _, cl := range classes {
		ev.Class(cl)
	}
	if c.Gen != "" {
		g := c.Gen
		if i := strings.IndexByte(g, ':'); i > 0 {
			g = g[:i]
		}
		ev.Class("gen:" + g)
	}
	if nt {
		ev.Nontrivial(ev.Hash(c.Pkg, c.File, c.src()), func() any {
			s := c
			if len(s.Text) > 400 {
				s.Text = s.Text[:400] + "…"
			}
			if len(s.Bytes) > 200 {
				s.Bytes = s.Bytes[:200]
			}
			return s
		})
	}
}

type shrunk struct {
	c   Case
	msg string
}

var smallest = map[string]shrunk{}

var sigRE2 = regexp.MustCompile(`0x[0-9a-fA-F]+|[0-9]+`)

// violSig is the identity of a violation for the shrinker: its first line (for
// gcc: the first "error:" line) without numbers.
func violSig(msg string) string {
	l := msg
	if i := strings.Index(l, "error: "); i >= 0 && strings.Contains(msg, "gcc") {
		l = l[i:]
	}
	if i := strings.IndexByte(l, '\n'); i >= 0 {
		l = l[:i]
	}
	l = sigRE2.ReplaceAllString(l, "#")
	if len(l) > 90 {
		l = l[:90]
	}
	return l
}

// shrinkText is a bounded delta-debugging pass over the case's text (rapid
// shrinks the draws, which cannot make a 100 KB mutant of a std file small):
// remove chunks of lines, then chunks of tokens, as long as the same violation
// remains.
func shrinkText(c Case, msg string) (Case, string) {
	sig := violSig(msg)
	deadline := time.Now().Add(90 * time.Second)
	calls := 0
	try := func(src []byte) (string, bool) {
		if calls >= 400 || time.Now().After(deadline) {
			return "", false
		}
		calls++
		d := c
		d.setSrc(src)
		m, _, _ := checkCase(d)
		return m, m != "" && violSig(m) == sig
	}
	best := c.src()
	bestMsg := msg
	reduce := func(units [][]byte, glue func([][]byte) []byte) [][]byte {
		for chunk := (len(units) + 1) / 2; chunk >= 1; chunk /= 2 {
			for i := 0; i < len(units); {
				j := i + chunk
				if j > len(units) {
					j = len(units)
				}
				cand := append(append([][]byte{}, units[:i]...), units[j:]...)
				if m, ok := try(glue(cand)); ok {
					units, bestMsg = cand, m
					best = glue(units)
				} else {
					i = j
				}
				if calls >= 400 || time.Now().After(deadline) {
					return units
				}
			}
		}
		return units
	}
	lines := bytes.SplitAfter(best, []byte("\n"))
	reduce(lines, func(u [][]byte) []byte { return bytes.Join(u, nil) })
	var toks [][]byte
	for _, s := range lex(best) {
		toks = append(toks, []byte(s))
	}
	if len(toks) <= 4000 {
		reduce(toks, func(u [][]byte) []byte {
			ss := make([]string, len(u))
			for i := range u {
				ss[i] = string(u[i])
			}
			return join(ss)
		})
	}
	d := c
	d.setSrc(best)
	if c.Gen != "" {
		d.Gen = c.Gen + " (text shrunk)"
	}
	return d, bestMsg
}

func caseSummary(c Case) string {
	s := c.src()
	if len(s) > 1500 {
		s = append(append([]byte{}, s[:1500]...), "…"...)
	}
	return fmt.Sprintf("kind=%s pkg=%s file=%s gen=%s shape=%s depth=%d sub=%v cc=%v\n%s", c.Kind, c.Pkg, c.File, c.Gen, c.Shape, c.Depth, c.Sub, c.CC, s)
}

// ---------------------------------------------------------------- properties

// TestProp: the main in-process campaign (all generators).
func TestProp(tt *testing.T) {
	if err := setupEnv(); err != nil {
		tt.Fatalf("HARNESS: %v", err)
	}
	rapid.Check(tt, func(rt *rapid.T) {
		runCase(rt, genCase(rt, false))
	})
}

// TestPropCC: mutations biased towards programs the checker still accepts;
// every accepted one goes through gcc.
func TestPropCC(tt *testing.T) {
	if err := setupEnv(); err != nil {
		tt.Fatalf("HARNESS: %v", err)
	}
	rapid.Check(tt, func(rt *rapid.T) {
		runCase(rt, genCase(rt, true))
	})
}

// TestPropSub: depth bombs, size bombs and a sample of everything else
// through the built tools.
func TestPropSub(tt *testing.T) {
	if err := setupEnv(); err != nil {
		tt.Fatalf("HARNESS: %v", err)
	}
	rapid.Check(tt, func(rt *rapid.T) {
		runCase(rt, genSubCase(rt))
	})
}

// TestCorpus: every unmutated corpus program and std package once (sharded):
// in-process, through the tools, and through gcc.
func TestCorpus(tt *testing.T) {
	if err := setupEnv(); err != nil {
		tt.Fatalf("HARNESS: %v", err)
	}
	shard, nshards := ev.EnvInt("VERIF_SHARD", 0), ev.EnvInt("VERIF_NSHARDS", 1)
	i := 0
	for _, c := range corpusCases() {
		i++
		if i%nshards != shard {
			continue
		}
		runCase(tt, c)
	}
}

func TestReplay(tt *testing.T) {
	p := ev.ReplayPath()
	if p == "" {
		tt.Skip("no VERIF_REPLAY")
	}
	r, err := ev.LoadReplay(p)
	if err != nil {
		tt.Fatalf("load: %v", err)
	}
	if strings.HasPrefix(r.Kind, "fuzz:") {
		var corpus string
		if err := json.Unmarshal(r.Case, &corpus); err != nil {
			tt.Fatalf("decode fuzz corpus: %v", err)
		}
		data, err := parseCorpus(corpus)
		if err != nil {
			tt.Fatalf("corpus: %v", err)
		}
		runFuzz(tt, strings.TrimPrefix(r.Kind, "fuzz:"), data)
		return
	}
	var c Case
	if err := json.Unmarshal(r.Case, &c); err != nil {
		tt.Fatalf("decode: %v", err)
	}
	if c.Kind == "" {
		c.Kind = r.Kind
	}
	runCase(tt, c)
}

// parseCorpus reads a "go test fuzz v1" corpus file holding one []byte value.
func parseCorpus(s string) ([]byte, error) {
	lines := strings.Split(strings.TrimSpace(s), "\n")
	if len(lines) < 2 || !strings.HasPrefix(lines[0], "go test fuzz v1") {
		return nil, fmt.Errorf("not a go fuzz corpus file")
	}
	l := strings.TrimSpace(lines[1])
	if !strings.HasPrefix(l, "[]byte(") || !strings.HasSuffix(l, ")") {
		return nil, fmt.Errorf("unsupported corpus value %q", l)
	}
	q, err := strconv.Unquote(l[len("[]byte(") : len(l)-1])
	if err != nil {
		return nil, err
	}
	return []byte(q), nil
}

// ---------------------------------------------------------------- native fuzzing

func fuzzSeeds(f *testing.F) {
	if err := setupEnv(); err != nil {
		f.Fatalf("HARNESS: %v", err)
	}
	for _, p := range smallPrograms {
		f.Add([]byte(p.src))
	}
	for _, p := range stdPkgNames {
		for _, sf := range stdPkgs[p] {
			if len(sf.src) <= 20<<10 {
				f.Add(sf.src)
			}
		}
	}
	files, _ := filepath.Glob(filepath.Join(ev.VerifRoot(), "replay", "C11", "*.json"))
	for _, p := range files {
		r, err := ev.LoadReplay(p)
		if err != nil {
			continue
		}
		var c Case
		if json.Unmarshal(r.Case, &c) == nil && c.Kind == "src" && c.File == "" {
			f.Add(c.src())
		}
	}
}

// runFuzz is the oracle of the native fuzz targets: one stage (and the stages
// it needs) on raw bytes, in-process.
func runFuzz(tb fataler, target string, data []byte) {
	if len(data) > 64<<10 {
		return
	}
	ev.Eval()
	if err := setupEnv(); err != nil {
		tb.Fatalf("HARNESS: %v", err)
	}
	var viol string
	stage := ""
	fc := Case{Kind: "src", Pkg: "fuzz", Gen: "native:" + target}
	fc.setSrc(data)
	watched(inprocBudgetFor(len(data)), func(used time.Duration) {
		hangExit(fc, fmt.Sprintf("%s: the in-process pipeline did not terminate: %v of CPU used on an input of %d bytes (stage %s)", target, used, len(data), stage))
	}, func() {
		tm := &t.Map{}
		var toks []t.Token
		var comments []string
		var err error
		stage = "tokenize"
		if se := protect("token.Tokenize", func() { toks, comments, err = t.Tokenize(tm, "fuzz.wuffs", data) }); se != nil {
			viol = se.msg
			return
		}
		if err != nil || target == "FuzzTokenize" {
			return
		}
		if target == "FuzzRender" {
			stage = "render"
			w := &cappedWriter{cap: 64 << 20}
			if se := protect("render.Render", func() { render.Render(w, tm, toks, comments) }); se != nil {
				viol = se.msg
			}
			return
		}
		stage = "parse"
		var file *a.File
		opts := (*parse.Options)(nil)
		if target == "FuzzParse" && len(data)%2 == 1 {
			opts = &parse.Options{AllowDoubleUnderscoreNames: true}
		}
		if se := protect("parse.Parse", func() { file, err = parse.Parse(tm, "fuzz.wuffs", toks, opts) }); se != nil {
			viol = se.msg
			return
		}
		if err != nil || target == "FuzzParse" {
			return
		}
		stage = "check"
		if se := protect("check.Check", func() { _, err = check.Check(tm, []*a.File{file}, resolveUse) }); se != nil {
			viol = se.msg
			return
		}
		if err != nil {
			return
		}
		stage = "cgen"
		paths, werr := writeCaseFiles([]srcFile{{"fuzz.wuffs", data}})
		if werr != nil {
			return
		}
		_, _, viol = cgenTool("fuzz", paths, len(data))
	})
	if viol != "" {
		ev.Fail("C11", "src", fc, viol)
		tb.Fatalf("C11 violated: %s\ninput: %q", viol, data)
	}
	ev.Class("fuzz-stage:" + stage)
}

func FuzzTokenize(f *testing.F) {
	fuzzSeeds(f)
	f.Fuzz(func(tt *testing.T, data []byte) { runFuzz(tt, "FuzzTokenize", data) })
}

func FuzzParse(f *testing.F) {
	fuzzSeeds(f)
	f.Fuzz(func(tt *testing.T, data []byte) { runFuzz(tt, "FuzzParse", data) })
}

func FuzzCheck(f *testing.F) {
	fuzzSeeds(f)
	f.Fuzz(func(tt *testing.T, data []byte) { runFuzz(tt, "FuzzCheck", data) })
}

func FuzzRender(f *testing.F) {
	fuzzSeeds(f)
	f.Fuzz(func(tt *testing.T, data []byte) { runFuzz(tt, "FuzzRender", data) })
}
