package c11

import (
	"fmt"
	"os"
	"path/filepath"
	"sort"
	"strings"
	"testing"
	"time"
)

// TestExploreBuiltins (development aid, C11_EXPLORE=1): every built-in
// signature x 6 variants; prints which ones the checker accepts and whether
// gcc accepts the C.
func TestExploreBuiltins(tt *testing.T) {
	if os.Getenv("C11_EXPLORE") == "" {
		tt.Skip("development aid")
	}
	if err := setupEnv(); err != nil {
		tt.Fatal(err)
	}
	loadBuiltins()
	res := map[string]string{}
	for _, sig := range builtinSigs {
		key := sig.generic + ":" + sig.recv + "." + sig.name + sig.effect
		best := ""
		for k := 0; k < 4; k++ {
			c := Case{Kind: "src", Pkg: "foo", CC: true, Text: builtinProgram(sig, k)}
			msg, _, classes := checkCase(c)
			st := ""
			for _, cl := range classes {
				if strings.HasPrefix(cl, "stage:") {
					st = cl
				}
				if strings.HasPrefix(cl, "cerr:") || strings.HasPrefix(cl, "perr:") || strings.HasPrefix(cl, "gerr:") {
					st += " " + cl
				}
			}
			if msg != "" {
				first := msg
				if i := strings.Index(first, "error:"); i >= 0 {
					first = first[i:]
				}
				if j := strings.IndexByte(first, '\n'); j >= 0 {
					first = first[:j]
				}
				best = "VIOLATION " + first
				break
			}
			if strings.Contains(st, "stage:5") {
				best = st
				break
			}
			if best == "" || strings.Contains(st, "stage:4") {
				best = st
			}
		}
		res[key] = best
	}
	keys := make([]string, 0, len(res))
	for k := range res {
		keys = append(keys, k)
	}
	sort.Strings(keys)
	for _, k := range keys {
		fmt.Printf("BUILTIN %-70s %s\n", k, res[k])
	}
}

// TestExploreBombs (development aid): CPU cost of every bomb shape at its
// largest depth within 256 KiB.
func TestExploreBombs(tt *testing.T) {
	if os.Getenv("C11_EXPLORE") == "" {
		tt.Skip("development aid")
	}
	if err := setupEnv(); err != nil {
		tt.Fatal(err)
	}
	for _, s := range bombShapes {
		d := maxDepthFor(&s, bigInput)
		src := []byte(s.f(d))
		paths, _ := writeCaseFiles([]srcFile{{"bomb.wuffs", src}})
		r1 := runTool(5*time.Minute, nil, filepath.Join(workDir, "x.c"), "wuffs-c", "gen", "-package_name", "foo", paths[0])
		r2 := runTool(5*time.Minute, src, "", "wuffsfmt")
		fmt.Printf("BOMB %-28s d=%-7d len=%-7d wuffs-c exit=%d cpu=%-8v wuffsfmt exit=%d cpu=%-8v out=%d  %s\n", s.name, d, len(src), r1.exit, r1.cpu.Round(10*time.Millisecond), r2.exit, r2.cpu.Round(10*time.Millisecond), r2.stdoutN, headLines(r1.stderr, 1)[:min(len(headLines(r1.stderr, 1)), 70)])
	}
}
