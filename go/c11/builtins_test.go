package c11

import (
	"fmt"
	"regexp"
	"strings"
	"sync"

	"github.com/google/wuffs/lang/builtin"
	"pgregory.net/rapid"

	"verif/internal/ev"
)

// Directed tree-level generator: a well-typed call of one built-in method,
// synthesized from the signature tables of lang/builtin. The checker knows
// every one of these methods; for each call it accepts, cgen must have a
// lowering that the C compiler accepts (known finding T3 is the family where
// it has none).

type builtinSig struct {
	recv, name, effect string
	args               [][2]string // name, type
	ret                string
	generic            string // "", "slice", "slice-u8", "table"
}

var (
	builtinSigs []builtinSig
	builtinOnce sync.Once
	sigRE       = regexp.MustCompile(`^(GENERIC )?([A-Za-z0-9_]+)\.([a-z0-9_]+)([!?]?)\((.*)\)\s*(.*)$`)
)

func splitTop(s string) []string {
	var out []string
	depth, start := 0, 0
	for i := 0; i < len(s); i++ {
		switch s[i] {
		case '[', '(':
			depth++
		case ']', ')':
			depth--
		case ',':
			if depth == 0 {
				out = append(out, strings.TrimSpace(s[start:i]))
				start = i + 1
			}
		}
	}
	if r := strings.TrimSpace(s[start:]); r != "" {
		out = append(out, r)
	}
	return out
}

func loadBuiltins() {
	builtinOnce.Do(func() {
		add := func(list []string, generic string) {
			for _, s := range list {
				m := sigRE.FindStringSubmatch(s)
				if m == nil {
					continue
				}
				if strings.Contains(s, "x86_") || strings.Contains(s, "arm_") {
					continue // needs a `choose cpu_arch` function
				}
				sig := builtinSig{recv: m[2], name: m[3], effect: m[4], ret: strings.TrimSpace(m[6]), generic: generic}
				for _, a := range splitTop(m[5]) {
					if i := strings.IndexByte(a, ':'); i > 0 {
						sig.args = append(sig.args, [2]string{strings.TrimSpace(a[:i]), strings.TrimSpace(a[i+1:])})
					}
				}
				builtinSigs = append(builtinSigs, sig)
			}
		}
		// funcsOther only: the ARM/x86 intrinsics need `choose cpu_arch`
		// functions and target-specific headers.
		if len(builtin.Funcs) > 0 {
			add(builtin.Funcs[0], "")
		}
		add(builtin.SliceFuncs, "slice")
		add(builtin.SliceU8Funcs, "slice-u8")
		add(builtin.TableFuncs, "table")
	})
}

// qualify turns a built-in type as written in lang/builtin ("u32[..= 7]",
// "slice u8", "nptr image_config") into source syntax ("base.u32[..= 7]").
var bareTypeRE = regexp.MustCompile(`\b([a-z][a-z0-9_]*)\b`)

func qualify(ty string) string {
	return bareTypeRE.ReplaceAllStringFunc(ty, func(w string) string {
		switch w {
		case "slice", "roslice", "table", "rotable", "array", "roarray", "ptr", "nptr":
			return w
		}
		return "base." + w
	})
}

// valueFor returns an expression of (roughly) the given built-in type and the
// declarations it needs.
func valueFor(ty string, k int, vars *[]string) string {
	ty = strings.TrimSpace(ty)
	num := regexp.MustCompile(`^[ui](8|16|32|64)(\[.*\])?$`)
	switch {
	case num.MatchString(ty):
		return []string{"1", "0", "3", "args.n8 as base." + ty[:strings.IndexAny(ty+"[", "[")], "7"}[k%5]
	case ty == "bool":
		return []string{"true", "false", "args.b"}[k%3]
	case ty == "slice u8" || ty == "T1":
		return []string{"args.s", "this.buf[..]", "args.s[1 ..]"}[k%3]
	case ty == "roslice u8" || ty == "R1":
		return []string{"args.r", "args.s", "this.buf[..]"}[k%3]
	case ty == "T2":
		return "args.t"
	case ty == "status":
		return []string{"ok", "base.\"#bad argument\"", "base.\"$short read\""}[k%3]
	case ty == "io_reader":
		return "args.src"
	case ty == "io_writer":
		return "args.dst"
	case ty == "token_reader":
		return "args.tsrc"
	case ty == "token_writer":
		return "args.tdst"
	case strings.HasPrefix(ty, "nptr "):
		return "nullptr"
	case strings.HasPrefix(ty, "ptr "):
		name := "args.p_" + strings.TrimPrefix(ty, "ptr ")
		return name
	}
	// any other built-in struct: a local variable of that type.
	name := "v_" + strings.NewReplacer(" ", "_", "[", "", "]", "", ".", "").Replace(ty)
	decl := "    var " + name + " : " + qualify(ty) + "\n"
	for _, v := range *vars {
		if v == decl {
			return name
		}
	}
	*vars = append(*vars, decl)
	return name
}

func genBuiltinCall(t *rapid.T) (string, string) {
	loadBuiltins()
	if len(builtinSigs) == 0 {
		return structFoo, "builtin:none"
	}
	sig := builtinSigs[uni(t, "builtin", len(builtinSigs))]
	if t3RE.MatchString(sig.name) && (sig.effect == "?" || !strings.HasPrefix(sig.name, "write_")) {
		// Known finding T3: not generated.
		ev.Excluded("T3-builtin-without-C-lowering")
		sig = builtinSigs[0]
	}
	k := uni(t, "builtin_v", 1000)
	return builtinProgram(sig, k), fmt.Sprintf("builtin:%s.%s%s:v=%d", sig.recv, sig.name, sig.effect, k)
}

func builtinProgram(sig builtinSig, k int) string {
	var vars []string
	var recv string
	switch sig.generic {
	case "slice":
		recv = []string{"args.s", "this.buf[..]", "args.r"}[k%3]
	case "slice-u8":
		recv = []string{"args.s", "this.buf[2 ..]", "args.r"}[k%3]
	case "table":
		recv = "args.t"
	default:
		switch sig.recv {
		case "utility":
			recv = "this.util"
		case "io_reader":
			recv = "args.src"
		case "io_writer":
			recv = "args.dst"
		case "token_reader":
			recv = "args.tsrc"
		case "token_writer":
			recv = "args.tdst"
		case "u8", "u16", "u32", "u64":
			recv = "args.n" + sig.recv[1:]
		default:
			recv = valueFor(sig.recv, k, &vars)
			if strings.HasPrefix(recv, "nullptr") {
				recv = "args.p_" + sig.recv
			}
		}
	}
	var args []string
	for i, a := range sig.args {
		args = append(args, a[0]+": "+valueFor(a[1], k/(3*(i+1)), &vars))
	}
	call := fmt.Sprintf("%s.%s%s(%s)", recv, sig.name, sig.effect, strings.Join(args, ", "))

	// the enclosing function has the callee's effect (or, one time in four, a
	// stronger one).
	eff := sig.effect
	if k%4 == 3 && eff == "" {
		eff = "!"
	}
	var b strings.Builder
	b.WriteString("pub struct foo?(\n    a    : base.u8,\n    util : base.utility,\n    buf  : array[64] base.u8,\n)\n\n")
	params := "n8: base.u8, n16: base.u16, n32: base.u32, n64: base.u64, b: base.bool, s: slice base.u8, r: roslice base.u8, t: table base.u8"
	if eff == "?" || strings.Contains(call, "args.src") || strings.Contains(call, "args.dst") || strings.Contains(call, "args.tsrc") || strings.Contains(call, "args.tdst") {
		params = "src: base.io_reader, dst: base.io_writer, tsrc: base.token_reader, tdst: base.token_writer, " + params
	}
	for _, p := range []string{"image_config", "frame_config", "pixel_buffer", "pixel_swizzler", "more_information", "decode_frame_options"} {
		if strings.Contains(call, "args.p_"+p) {
			params += ", p_" + p + ": ptr base." + p
		}
	}
	retDecl, stmt := "", ""
	if sig.ret != "" {
		vars = append(vars, "    var res : "+qualify(sig.ret)+"\n")
		stmt = "    res = " + call + "\n"
	} else {
		stmt = "    " + call + "\n"
	}
	// an optional guard establishing the usual pre-conditions
	guard := ""
	switch k % 3 {
	case 1:
		if strings.Contains(call, "args.src") {
			guard = "args.src.length() >= 8"
		} else if strings.Contains(call, "args.dst") {
			guard = "args.dst.length() >= 8"
		} else if sig.generic == "slice-u8" {
			guard = recv + ".length() >= 8"
		}
	}
	fmt.Fprintf(&b, "pub func foo.f%s(%s)%s {\n", eff, params, retDecl)
	for _, v := range vars {
		b.WriteString(v)
	}
	if guard != "" {
		b.WriteString("    if " + guard + " {\n    " + stmt + "    }\n")
	} else {
		b.WriteString(stmt)
	}
	b.WriteString("}\n")
	return b.String()
}
