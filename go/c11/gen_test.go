package c11

import (
	"bytes"
	"fmt"
	"math/big"
	"os"
	"path/filepath"
	"regexp"
	"sort"
	"strings"
	"sync"

	"pgregory.net/rapid"

	"verif/internal/ev"
)

// ---------------------------------------------------------------- lexer used by the mutators
//
// An independent, forgiving splitter (it never fails): newlines are tokens
// (they carry the implicit semicolons), other white space is dropped and
// tokens are re-joined with single blanks.

var opTokens = []string{
	"~mod<<=", "~mod<<", "~mod+=", "~mod-=", "~mod*=", "~sat+=", "~sat-=", "~mod+", "~mod-", "~mod*", "~sat+", "~sat-",
	"<<=", ">>=", "..=", "{{", "}}", "+=", "-=", "*=", "/=", "&=", "|=", "^=", "%=", "=?", "==", "<>", "<=", ">=", "<<", ">>", "..",
}

func isAlpha(c byte) bool { return c == '_' || ('a' <= c && c <= 'z') || ('A' <= c && c <= 'Z') }
func isDigit(c byte) bool { return '0' <= c && c <= '9' }

func lex(src []byte) []string {
	var out []string
	for i := 0; i < len(src); {
		c := src[i]
		switch {
		case c == '\n':
			out = append(out, "\n")
			i++
		case c <= ' ':
			i++
		case c == '/' && i+1 < len(src) && src[i+1] == '/':
			j := i
			for j < len(src) && src[j] != '\n' {
				j++
			}
			out = append(out, string(src[i:j]))
			i = j
		case c == '"' || c == '\'':
			j := i + 1
			for j < len(src) && src[j] != c && src[j] != '\n' {
				j++
			}
			if j < len(src) && src[j] == c {
				j++
				if c == '\'' && j+1 < len(src) && (src[j] == 'b' || src[j] == 'l') && src[j+1] == 'e' {
					j += 2
				}
			}
			out = append(out, string(src[i:j]))
			i = j
		case isAlpha(c) || isDigit(c):
			j := i + 1
			for j < len(src) && (isAlpha(src[j]) || isDigit(src[j])) {
				j++
			}
			out = append(out, string(src[i:j]))
			i = j
		default:
			matched := false
			for _, op := range opTokens {
				if len(src)-i >= len(op) && string(src[i:i+len(op)]) == op {
					out = append(out, op)
					i += len(op)
					matched = true
					break
				}
			}
			if !matched {
				out = append(out, string(src[i:i+1]))
				i++
			}
		}
	}
	return out
}

func join(toks []string) []byte {
	var b []byte
	for i, s := range toks {
		if s == "\n" {
			b = append(b, '\n')
			continue
		}
		if i > 0 && toks[i-1] != "\n" {
			b = append(b, ' ')
		}
		b = append(b, s...)
	}
	if len(b) > 0 && b[len(b)-1] != '\n' {
		b = append(b, '\n')
	}
	return b
}

func isComment(s string) bool { return strings.HasPrefix(s, "//") }

// token classes for same-class replacement.
const (
	clOther = iota
	clIdent
	clNumber
	clString
	clBinOp
	clAssignOp
	clOpen
	clClose
	clEffect
	clStmtKw
	clTypeName
	clDecorator
	clLiteralKw
	clVisibility
	clDeclKw
	clAssertKw
)

var (
	binOps      = []string{"+", "-", "*", "/", "<<", ">>", "&", "|", "^", "%", "~mod+", "~mod-", "~mod*", "~mod<<", "~sat+", "~sat-", "<>", "<", "<=", "==", ">=", ">", "and", "or", "as"}
	assignOps   = []string{"=", "=?", "+=", "-=", "*=", "/=", "<<=", ">>=", "&=", "|=", "^=", "%=", "~mod+=", "~mod-=", "~mod*=", "~mod<<=", "~sat+=", "~sat-="}
	openToks    = []string{"(", "[", "{", "{{"}
	closeToks   = []string{")", "]", "}", "}}"}
	effectToks  = []string{"!", "?"}
	stmtKws     = []string{"if", "while", "return", "break", "continue", "yield", "assert", "var", "choose", "iterate", "io_bind", "io_limit", "io_forget_history", "else"}
	typeNames   = []string{"u8", "u16", "u32", "u64", "i8", "i16", "i32", "i64", "bool", "status", "io_reader", "io_writer", "token_reader", "token_writer", "utility", "empty_struct", "range_ii_u32", "range_ie_u64", "rect_ie_u32", "pixel_format", "pixel_buffer", "frame_config", "image_config", "more_information", "bitvec256", "optional_u63", "hasher_u32", "io_transformer", "image_decoder", "token_decoder", "slice_u8", "x86_m128i", "x86_sse42_utility"}
	decorators  = []string{"array", "roarray", "slice", "roslice", "table", "rotable", "ptr", "nptr"}
	literalKws  = []string{"true", "false", "nothing", "nullptr", "ok", "this", "args", "coroutine_resumed", "base"}
	visibility  = []string{"pub", "pri"}
	declKws     = []string{"func", "struct", "const", "status", "use", "implements", "choosy"}
	assertKws   = []string{"pre", "inv", "post", "assert", "via", "choose"}
	unaryOps    = []string{"-", "+", "not"}
	numberPool  = []string{"0", "1", "2", "3", "7", "8", "15", "16", "31", "32", "63", "64", "255", "256", "257", "0xFF", "0xFFFF", "65535", "65536", "0xFFFF_FFFF", "0x1_0000_0000", "0x7FFF_FFFF_FFFF_FFFF", "0xFFFF_FFFF_FFFF_FFFF", "0x1_0000_0000_0000_0000", "340282366920938463463374607431768211456", "0b101", "0B1111_0000", "0X0", "1_000", "000", "0x", "0b", "1__2", "1_", "012", "0b2", "9999999999999999999999999999999999999999999999999999999999999999999999999"}
	stringPool  = []string{`"#"`, `"$"`, `"@"`, `"#!?"`, `"# "`, `"#a b"`, `"#a-b"`, `"#A  B"`, `"#bad"`, `"#bad input"`, `"$short read"`, `"@note"`, `"#foo: bar"`, `""`, `"x"`, `"std/crc32"`, `"std/nonesuch"`, `"a < b: a < c; c <= b"`, `"a < (b + c): a < c; 0 <= b"`, `'a'`, `'ab'be`, `'abcd'le`, `'ab'`, `'\x00'`, `'ሴ'be`, `'\z'`, `'abcdefghi'be`, `''`, `'a'be`, `'a'b`, `'xy'l`, `"back\slash"`, `'\xFF\xFF'le`}
	identPool   = []string{"x", "y", "i", "n", "foo", "bar", "a", "b", "c", "src", "dst", "s", "length", "min", "max", "read_u8", "write_u8", "peek_u8", "skip_u32_fast", "write_u32le_fast", "copy_from_slice", "is_ok", "is_error", "update", "initialize", "reset", "up", "up_alt", "util", "cpu_arch", "x86_sse42", "arm_neon", "__double", "LIMIT", "TABLE", "MASKS", "likely", "unlikely", "data", "limit", "io", "history_position", "advance", "unroll", "low_bits", "high_bits", "position", "mark", "since", "length_le", "decoder", "hasher", "get_quirk", "set_quirk"}
	vocabulary  []string
	classOf     = map[string]int{}
	classTokens = map[int][]string{}
	vocabOnce   sync.Once
)

// t3RE matches the method names of known finding T3: built-in methods that
// lang/builtin declares and the checker accepts but for which the C side has
// nothing (the multi-byte coroutine writers write_u16be? ... write_u64le?, the
// range getters get_min_incl() etc., frame_config.blend()). They are in no
// pool and in no corpus file, so no mutation can introduce a call of them.
var t3RE = regexp.MustCompile(`^(write_u(16|24|32|40|48|56|64)(be|le)|get_min_incl|get_max_incl|get_max_excl|blend)$`)

// isT3Call reports whether toks[i] is such a name used as a method call.
func isT3Call(toks []string, i int) bool {
	if !t3RE.MatchString(toks[i]) || i == 0 || toks[i-1] != "." {
		return false
	}
	k := i + 1
	for k < len(toks) && toks[k] == "\n" {
		k++
	}
	if k >= len(toks) {
		return false
	}
	if strings.HasPrefix(toks[i], "write_") {
		return toks[k] == "?"
	}
	return toks[k] == "("
}

func initVocab() {
	vocabOnce.Do(func() {
		add := func(cl int, ss []string) {
			for _, s := range ss {
				if _, ok := classOf[s]; !ok {
					classOf[s] = cl
				}
				classTokens[cl] = append(classTokens[cl], s)
				vocabulary = append(vocabulary, s)
			}
		}
		add(clBinOp, binOps)
		add(clAssignOp, assignOps)
		add(clOpen, openToks)
		add(clClose, closeToks)
		add(clEffect, effectToks)
		add(clStmtKw, stmtKws)
		add(clTypeName, typeNames)
		add(clDecorator, decorators)
		add(clLiteralKw, literalKws)
		add(clVisibility, visibility)
		add(clDeclKw, declKws)
		add(clAssertKw, assertKws)
		add(clNumber, numberPool)
		add(clString, stringPool)
		add(clIdent, identPool)
		vocabulary = append(vocabulary, ".", ",", ":", ";", "\n", "\n", "..", "..=", "not", "-", "//c", "\x00", "\x7f", "\xff", "@", "#", "$", "`", "\\", "~", "~mod", "~sat")
	})
}

func classify(s string) int {
	if c, ok := classOf[s]; ok {
		return c
	}
	if s == "" {
		return clOther
	}
	switch {
	case isDigit(s[0]):
		return clNumber
	case s[0] == '"' || s[0] == '\'':
		return clString
	case isAlpha(s[0]):
		return clIdent
	}
	return clOther
}

// ---------------------------------------------------------------- corpus

type prog struct {
	name string
	pkg  string
	src  string
}

// smallPrograms are single-file programs the checker accepts (checked by
// TestCorpus: each must get through the whole pipeline including gcc).
var smallPrograms = []prog{
	{"counter", "foo", progCounter},
	{"reader", "foo", progReader},
	{"summer", "foo", progSummer},
	{"framed", "foo", progFramed},
	{"bits", "foo", progBits},
	{"idioms", "foo", progIdioms},
	{"ptrarr", "foo", progPtrArr},
	{"minimal", "foo", "pub struct foo?(\n    a : base.u8,\n)\n\npub func foo.f!(i: base.u32) base.u32 {\n    return args.i\n}\n"},
	{"refined-arg", "foo", "pub struct foo?(\n    a : base.u8,\n)\n\npub func foo.f!(i: base.u32[..= 7]) base.u32 {\n    return args.i\n}\n"},
	{"writer", "foo", "pub struct foo?(\n    a : base.u8,\n)\n\npub func foo.f?(dst: base.io_writer) {\n    args.dst.write_u8?(a: 0x12)\n    if args.dst.length() >= 8 {\n        args.dst.write_u64le_fast!(a: 0x1234)\n    }\n}\n"},
	{"empty", "foo", ""},
	{"only-status", "foo", "pub status \"#x\"\n"},
}

type corpusFile struct {
	pkg  string // package name
	file string // "" for a single-file program, else the file inside std/<pkg>
	name string
	toks []string
	size int
	// total size of the package: the cost of checking one mutant.
	pkgSize int
}

var (
	corpus      []*corpusFile
	corpusSmall []*corpusFile
	corpusStd   []*corpusFile
	stdWeights  []int
	corpusOnce  sync.Once
)

func loadCorpus() {
	corpusOnce.Do(func() {
		initVocab()
		if hello, err := os.ReadFile(filepath.Join(ev.RepoRoot(), "hello-wuffs-c", "parse.wuffs")); err == nil {
			smallPrograms = append(smallPrograms, prog{"hello-parse", "parse", string(hello)})
		}
		for _, p := range smallPrograms {
			cf := &corpusFile{pkg: p.pkg, name: p.name, toks: lex([]byte(p.src)), size: len(p.src), pkgSize: len(p.src)}
			corpusSmall = append(corpusSmall, cf)
		}
		for _, pkg := range stdPkgNames {
			total := 0
			for _, f := range stdPkgs[pkg] {
				total += len(f.src)
			}
			for _, f := range stdPkgs[pkg] {
				cf := &corpusFile{pkg: pkg, file: f.name, name: "std/" + pkg + "/" + f.name, toks: lex(f.src), size: len(f.src), pkgSize: total}
				corpusStd = append(corpusStd, cf)
				// Small packages are cheap to check: prefer them, but every
				// file keeps a non-zero weight.
				w := 4_000_000 / (total + 8000)
				if w < 4 {
					w = 4
				}
				stdWeights = append(stdWeights, w)
			}
		}
		corpus = append(append([]*corpusFile{}, corpusSmall...), corpusStd...)
	})
}

// corpusCases lists the unmutated corpus: every small program and every std
// package as a whole.
func corpusCases() []Case {
	loadCorpus()
	var out []Case
	for _, p := range smallPrograms {
		out = append(out, Case{Kind: "src", Pkg: p.pkg, Text: p.src, Sub: true, CC: true, Gen: "corpus:" + p.name})
	}
	for _, pkg := range stdPkgNames {
		f := stdPkgs[pkg][0]
		c := Case{Kind: "src", Pkg: pkg, File: f.name, Sub: true, CC: true, Gen: "corpus:std/" + pkg}
		c.setSrc(f.src)
		out = append(out, c)
	}
	return out
}

// uni draws an index in [0, n) uniformly. rapid's integer generators favour
// small values (good for shrinking, bad for choosing a token position in a
// 100 KB file), so the drawn value is passed through a bijective mixer first;
// the Case stays a pure function of the draws.
func uni(t *rapid.T, label string, n int) int {
	if n <= 1 {
		return 0
	}
	x := rapid.Uint64().Draw(t, label)
	x ^= x >> 30
	x *= 0xbf58476d1ce4e5b9
	x ^= x >> 27
	x *= 0x94d049bb133111eb
	x ^= x >> 31
	return int(x % uint64(n))
}

func pickFrom[T any](t *rapid.T, label string, list []T) T {
	return list[uni(t, label, len(list))]
}

func pickWeighted(t *rapid.T, weights []int, label string) int {
	total := 0
	for _, w := range weights {
		total += w
	}
	x := uni(t, label, total)
	for i, w := range weights {
		if x < w {
			return i
		}
		x -= w
	}
	return len(weights) - 1
}

func pickCorpus(t *rapid.T, label string, smallBias int) *corpusFile {
	loadCorpus()
	if uni(t, label+"_small", 100) < smallBias {
		return corpusSmall[uni(t, label+"_i", len(corpusSmall))]
	}
	return corpusStd[pickWeighted(t, stdWeights, label+"_w")]
}

// ---------------------------------------------------------------- mutators

// mutable positions: everything except newlines and comments.
func positions(toks []string) []int {
	var out []int
	for i, s := range toks {
		if s != "\n" && !isComment(s) {
			out = append(out, i)
		}
	}
	return out
}

func pickPos(t *rapid.T, toks []string, label string) int {
	ps := positions(toks)
	if len(ps) == 0 {
		return -1
	}
	return ps[uni(t, label, len(ps))]
}

func pickWhere(t *rapid.T, toks []string, label string, pred func(i int) bool) int {
	var ps []int
	for i := range toks {
		if pred(i) {
			ps = append(ps, i)
		}
	}
	if len(ps) == 0 {
		return -1
	}
	return ps[uni(t, label, len(ps))]
}

func splice(toks []string, i, j int, repl ...string) []string {
	out := make([]string, 0, len(toks)-(j-i)+len(repl))
	out = append(out, toks[:i]...)
	out = append(out, repl...)
	out = append(out, toks[j:]...)
	return out
}

func sameClassToken(t *rapid.T, s string, toks []string, label string) string {
	cl := classify(s)
	switch cl {
	case clIdent:
		// half the time another identifier of the same file, else the pool.
		if rapid.Bool().Draw(t, label+"_local") {
			i := pickWhere(t, toks, label+"_li", func(i int) bool { return classify(toks[i]) == clIdent })
			if i >= 0 {
				return toks[i]
			}
		}
		return pickFrom(t, label+"_p", identPool)
	case clOther:
		return pickFrom(t, label+"_v", vocabulary)
	}
	pool := classTokens[cl]
	if len(pool) == 0 {
		return pickFrom(t, label+"_v", vocabulary)
	}
	return pickFrom(t, label+"_c", pool)
}

// acceptingMutations often survive the checker.
var acceptingMutations = []string{"tweak-number", "replace-same-class", "swap-adjacent", "drop-operand", "duplicate", "flip-effect"}

var tokenMutations = []string{"delete", "duplicate", "swap-adjacent", "swap-far", "replace-same-class", "replace-same-class", "replace-same-class", "replace-any", "insert", "drop-close", "drop-lhs", "drop-operand", "drop-open", "tweak-number", "flip-effect"}

// mutateTokens applies one token-level mutation; it returns the new tokens
// and a short description.
func mutateTokens(t *rapid.T, toks []string, label string, ops []string) ([]string, string) {
	op := pickFrom(t, label+"_op", ops)
	switch op {
	case "delete":
		if i := pickPos(t, toks, label+"_i"); i >= 0 {
			return splice(toks, i, i+1), op
		}
	case "duplicate":
		if i := pickPos(t, toks, label+"_i"); i >= 0 {
			return splice(toks, i, i+1, toks[i], toks[i]), op
		}
	case "swap-adjacent":
		ps := positions(toks)
		if len(ps) >= 2 {
			k := uni(t, label+"_k", (len(ps)-2)+1)
			out := append([]string{}, toks...)
			out[ps[k]], out[ps[k+1]] = out[ps[k+1]], out[ps[k]]
			return out, op
		}
	case "swap-far":
		ps := positions(toks)
		if len(ps) >= 2 {
			k1 := uni(t, label+"_k1", len(ps))
			k2 := uni(t, label+"_k2", len(ps))
			out := append([]string{}, toks...)
			out[ps[k1]], out[ps[k2]] = out[ps[k2]], out[ps[k1]]
			return out, op
		}
	case "replace-same-class":
		if i := pickPos(t, toks, label+"_i"); i >= 0 {
			return splice(toks, i, i+1, sameClassToken(t, toks[i], toks, label+"_r")), op + ":" + fmt.Sprint(classify(toks[i]))
		}
	case "replace-any":
		if i := pickPos(t, toks, label+"_i"); i >= 0 {
			return splice(toks, i, i+1, pickFrom(t, label+"_v", vocabulary)), op
		}
	case "insert":
		if i := pickPos(t, toks, label+"_i"); i >= 0 {
			return splice(toks, i, i, pickFrom(t, label+"_v", vocabulary)), op
		}
	case "drop-close":
		if i := pickWhere(t, toks, label+"_i", func(i int) bool { return classify(toks[i]) == clClose }); i >= 0 {
			return splice(toks, i, i+1), op
		}
	case "drop-open":
		if i := pickWhere(t, toks, label+"_i", func(i int) bool { return classify(toks[i]) == clOpen }); i >= 0 {
			return splice(toks, i, i+1), op
		}
	case "drop-lhs":
		// remove the tokens between the start of the line and an assignment
		// operator; with or without the operator itself.
		if i := pickWhere(t, toks, label+"_i", func(i int) bool { return classify(toks[i]) == clAssignOp }); i >= 0 {
			// the LHS starts after the previous newline, "(" or ","
			j := i
			for j > 0 && toks[j-1] != "\n" && toks[j-1] != "(" && toks[j-1] != "," {
				j--
			}
			if rapid.Bool().Draw(t, label+"_keep_op") {
				return splice(toks, j, i), op + ":keep-op"
			}
			return splice(toks, j, i+1), op
		}
	case "drop-operand":
		if i := pickWhere(t, toks, label+"_i", func(i int) bool { c := classify(toks[i]); return c == clBinOp || toks[i] == "not" }); i >= 0 {
			if rapid.Bool().Draw(t, label+"_left") && i > 0 && toks[i-1] != "\n" {
				return splice(toks, i-1, i), op + ":left"
			}
			if i+1 < len(toks) && toks[i+1] != "\n" {
				return splice(toks, i+1, i+2), op + ":right"
			}
		}
	case "tweak-number":
		if i := pickWhere(t, toks, label+"_i", func(i int) bool { return classify(toks[i]) == clNumber }); i >= 0 {
			return splice(toks, i, i+1, pickFrom(t, label+"_n", numberPool)), op
		}
	case "flip-effect":
		if i := pickWhere(t, toks, label+"_i", func(i int) bool { return classify(toks[i]) == clEffect }); i >= 0 {
			switch uni(t, label+"_how", 3) {
			case 0:
				return splice(toks, i, i+1), op + ":drop"
			case 1:
				if toks[i] == "!" {
					return splice(toks, i, i+1, "?"), op
				}
				return splice(toks, i, i+1, "!"), op
			default:
				return splice(toks, i, i+1, toks[i], toks[i]), op + ":double"
			}
		}
		// no effect mark: add one after an identifier followed by "("
		if i := pickWhere(t, toks, label+"_j", func(i int) bool { return toks[i] == "(" && i > 0 && classify(toks[i-1]) == clIdent }); i >= 0 {
			return splice(toks, i, i, pickFrom(t, label+"_e", effectToks)), op + ":add"
		}
	}
	// fall back: delete
	if i := pickPos(t, toks, label+"_fi"); i >= 0 {
		return splice(toks, i, i+1), "delete"
	}
	return toks, "none"
}

// lines splits tokens into lines (each without its "\n").
func splitLines(toks []string) [][]string {
	var out [][]string
	var cur []string
	for _, s := range toks {
		if s == "\n" {
			out = append(out, cur)
			cur = nil
			continue
		}
		cur = append(cur, s)
	}
	if len(cur) > 0 {
		out = append(out, cur)
	}
	return out
}

func joinLines(ls [][]string) []string {
	var out []string
	for _, l := range ls {
		out = append(out, l...)
		out = append(out, "\n")
	}
	return out
}

func codeLines(ls [][]string) []int {
	var out []int
	for i, l := range ls {
		if len(l) > 0 && !isComment(l[0]) {
			out = append(out, i)
		}
	}
	return out
}

var lineMutations = []string{"delete", "delete", "duplicate", "swap", "move", "delete-range"}

func mutateLines(t *rapid.T, toks []string, label string) ([]string, string) {
	ls := splitLines(toks)
	cl := codeLines(ls)
	if len(cl) < 2 {
		return toks, "none"
	}
	op := pickFrom(t, label+"_op", lineMutations)
	i := cl[uni(t, label+"_i", len(cl))]
	j := cl[uni(t, label+"_j", len(cl))]
	out := make([][]string, 0, len(ls)+1)
	switch op {
	case "delete":
		out = append(append(out, ls[:i]...), ls[i+1:]...)
	case "duplicate":
		out = append(append(append(out, ls[:i+1]...), ls[i]), ls[i+1:]...)
	case "swap":
		out = append(out, ls...)
		out[i], out[j] = out[j], out[i]
	case "move":
		l := ls[i]
		rest := append(append([][]string{}, ls[:i]...), ls[i+1:]...)
		if j > len(rest) {
			j = len(rest)
		}
		out = append(append(append(out, rest[:j]...), l), rest[j:]...)
	case "delete-range":
		n := rapid.IntRange(2, 6).Draw(t, label+"_n")
		e := i + n
		if e > len(ls) {
			e = len(ls)
		}
		out = append(append(out, ls[:i]...), ls[e:]...)
	}
	return joinLines(out), "line-" + op
}

// matching returns the index of the bracket closing the one at i, or -1.
func matching(toks []string, i int) int {
	open := toks[i]
	var close string
	switch open {
	case "(":
		close = ")"
	case "[":
		close = "]"
	case "{":
		close = "}"
	case "{{":
		close = "}}"
	default:
		return -1
	}
	depth := 0
	for j := i; j < len(toks); j++ {
		if toks[j] == open {
			depth++
		} else if toks[j] == close {
			depth--
			if depth == 0 {
				return j
			}
		}
	}
	return -1
}

// exprSpans returns [i, j) spans that look like complete sub-expressions: a
// bracketed group, or a single operand token.
func pickExprSpan(t *rapid.T, toks []string, label string) (int, int) {
	if uni(t, label+"_kind", 3) == 0 {
		i := pickWhere(t, toks, label+"_o", func(i int) bool {
			c := classify(toks[i])
			return c == clNumber || c == clLiteralKw || (c == clIdent && i > 0 && toks[i-1] != "." && toks[i-1] != "func" && toks[i-1] != "struct")
		})
		if i >= 0 {
			return i, i + 1
		}
	}
	i := pickWhere(t, toks, label+"_b", func(i int) bool { return toks[i] == "(" || toks[i] == "[" })
	if i < 0 {
		return -1, -1
	}
	j := matching(toks, i)
	if j < 0 {
		return -1, -1
	}
	return i, j + 1
}

var typePool = []string{
	"base . u8", "base . u16", "base . u32", "base . u64", "base . i32", "base . bool", "base . status",
	"base . u32 [ ..= 5 ]", "base . u8 [ 1 ..= 2 ]", "base . u8 [ 5 ..= 2 ]", "base . u64 [ ..= 0xFFFF_FFFF_FFFF_FFFF ]", "base . u8 [ ..= 256 ]",
	"base . i8 [ -200 ..= 5 ]", "base . bool [ ..= 1 ]", "base . u32 [ 1 + 1 ..= 7 ]", "base . u32 [ .. 5 ]", "base . u32 [ ..= LIMIT ]",
	"array [ 4 ] base . u8", "array [ 0 ] base . u8", "array [ 0xFFFF_FFFF_FFFF ] base . u8", "array [ 2 ] array [ 3 ] base . u16",
	"array [ 2 ] slice base . u8", "roarray [ 2 ] base . u8", "array [ 1 + 2 ] base . u32 [ ..= 9 ]", "array [ x ] base . u8", "array [ - 1 ] base . u8",
	"slice base . u8", "slice base . u32", "roslice base . u8", "slice slice base . u8", "slice array [ 4 ] base . u8",
	"table base . u8", "rotable base . u32", "table slice base . u8", "ptr foo", "nptr foo", "nptr array [ 8 ] base . u16", "ptr array [ 4 ] array [ 8 ] base . u16", "nptr roarray [ 2 ] array [ 3 ] base . u8", "ptr array [ 2 ] foo", "ptr base . u8", "nptr base . io_reader", "ptr ptr foo",
	"base . io_reader", "base . io_writer", "base . utility", "base . range_ii_u32", "base . rect_ie_u32", "base . pixel_format", "base . empty_struct",
	"base . more_information", "base . image_config", "nptr base . image_config", "base . nonesuch", "foo", "nonesuch", "crc32 . ieee_hasher", "base . hasher_u32", "base . bitvec256", "base . optional_u63",
	"base . u8 [ ..= 5 ] [ ..= 3 ]", "array base . u8", "base . base . u8", "base", "slice", "array [ 4 ]",
}

// pickTypeSpan: the type of a `var`/field/parameter: the tokens after a ":"
// up to the end of the line, a "," or a ")" at depth 0.
func pickTypeSpan(t *rapid.T, toks []string, label string) (int, int) {
	i := pickWhere(t, toks, label+"_c", func(i int) bool {
		return toks[i] == ":" && i >= 2 && classify(toks[i-1]) == clIdent && (toks[i-2] == "var" || toks[i-2] == "\n" || toks[i-2] == "(" || toks[i-2] == "," || toks[i-2] == "const")
	})
	if i < 0 {
		return -1, -1
	}
	depth := 0
	j := i + 1
	for ; j < len(toks); j++ {
		s := toks[j]
		if s == "\n" || s == "=" || s == "{" {
			break
		}
		if s == "[" || s == "(" {
			depth++
		} else if s == "]" {
			depth--
		} else if s == ")" {
			if depth == 0 {
				break
			}
			depth--
		} else if s == "," && depth == 0 {
			break
		}
	}
	if j == i+1 {
		return -1, -1
	}
	return i + 1, j
}

// statement spans: whole lines inside a function body: either one line that
// neither opens nor closes a block, or a block from its opening line to the
// line of its closing bracket.
func pickStmtLines(t *rapid.T, ls [][]string, label string) (int, int) {
	depth := 0
	type cand struct{ i, j int }
	var cands []cand
	depths := make([]int, len(ls))
	for i, l := range ls {
		depths[i] = depth
		for _, s := range l {
			switch s {
			case "{", "{{", "(", "[":
				depth++
			case "}", "}}", ")", "]":
				depth--
			}
		}
	}
	for i, l := range ls {
		if len(l) == 0 || isComment(l[0]) || depths[i] < 1 {
			continue
		}
		last := l[len(l)-1]
		first := l[0]
		if first == "}" || first == "}}" || first == ")" || first == "]" || first == "pub" || first == "pri" {
			continue
		}
		if last == "{" || last == "{{" {
			// find the line where depth returns
			for j := i + 1; j < len(ls); j++ {
				if depths[j] == depths[i]+1 && len(ls[j]) > 0 && (ls[j][0] == "}" || ls[j][0] == "}}") {
					tail := ls[j]
					if tail[len(tail)-1] == "{" || tail[len(tail)-1] == "{{" {
						continue // "} else {"
					}
					cands = append(cands, cand{i, j + 1})
					break
				}
			}
			continue
		}
		if last == "," || last == "(" || last == "[" {
			continue
		}
		cands = append(cands, cand{i, i + 1})
	}
	if len(cands) == 0 {
		return -1, -1
	}
	c := cands[uni(t, label, len(cands))]
	return c.i, c.j
}

var treeMutations = []string{"const-fold", "const-fold", "subexpr-from-corpus", "subexpr-from-corpus", "subexpr-swap", "type-from-pool", "type-from-corpus", "graft-statement", "graft-statement", "wrap-statement", "hoist-statement", "dup-decl", "graft-decl", "unparen"}

var (
	foldConsts = []string{"0", "1", "2", "7", "8", "31", "32", "63", "64", "65", "255", "256", "0xFFFF", "0xFFFF_FFFF", "0x1_0000_0000",
		"0x7FFF_FFFF_FFFF_FFFF", "0xFFFF_FFFF_FFFF_FFFF", "0x1_0000_0000_0000_0000", "0xFFFF_FFFF_FFFF_FFFF_FFFF_FFFF_FFFF_FFFF", "(0 - 1)", "(1 - 2)", "(1 - 1)"}
	foldOps = []string{"+", "-", "*", "/", "%", "<<", ">>", "&", "|", "^", "~mod+", "~mod-", "~mod*", "~mod<<", "~sat+", "~sat-", "<", "<=", "==", "<>", ">=", ">", "and", "or"}
)

// constFoldExpr builds the tokens of "(A op B)" over edge constants, nested up to depth.
func constFoldExpr(t *rapid.T, label string, depth int) []string {
	operand := func(side string) []string {
		if depth > 0 && uni(t, label+side+"_nest", 3) == 0 {
			return constFoldExpr(t, label+side, depth-1)
		}
		return lexStrings(pickFrom(t, label+side, foldConsts))
	}
	out := []string{"("}
	out = append(out, operand("_l")...)
	out = append(out, pickFrom(t, label+"_op", foldOps))
	out = append(out, operand("_r")...)
	if uni(t, label+"_as", 4) == 0 {
		out = append(out, ")", "as", "base", ".", pickFrom(t, label+"_ty", []string{"u8", "u16", "u32", "u64"}))
		return append([]string{"("}, append(out, ")")...)
	}
	return append(out, ")")
}

func lexStrings(s string) []string { return lex([]byte(s)) }

func mutateTree(t *rapid.T, toks []string, label string) ([]string, string) {
	op := pickFrom(t, label+"_op", treeMutations)
	switch op {
	case "const-fold":
		// an expression (or one operand of an operator) is replaced by an operator applied to two edge constants:
		// the checker folds constant operands at compile time (division and modulus by zero, shifts by huge or
		// negative counts, results beyond 64 bits, every operator incl. the modular / saturating ones)
		i, j := pickExprSpan(t, toks, label+"_a")
		if i >= 0 {
			return splice(toks, i, j, constFoldExpr(t, label+"_cf", uni(t, label+"_cfd", 3))...), op
		}
	case "subexpr-from-corpus":
		i, j := pickExprSpan(t, toks, label+"_a")
		d := pickCorpus(t, label+"_donor", 60)
		di, dj := pickExprSpan(t, d.toks, label+"_b")
		if i >= 0 && di >= 0 {
			return splice(toks, i, j, d.toks[di:dj]...), op
		}
	case "subexpr-swap":
		i, j := pickExprSpan(t, toks, label+"_a")
		di, dj := pickExprSpan(t, toks, label+"_b")
		if i >= 0 && di >= 0 {
			return splice(toks, i, j, toks[di:dj]...), op
		}
	case "unparen":
		i := pickWhere(t, toks, label+"_b", func(i int) bool { return toks[i] == "(" })
		if i >= 0 {
			if j := matching(toks, i); j > i {
				out := splice(toks, j, j+1)
				return splice(out, i, i+1), op
			}
		}
	case "type-from-pool":
		i, j := pickTypeSpan(t, toks, label+"_a")
		if i >= 0 {
			return splice(toks, i, j, strings.Fields(pickFrom(t, label+"_ty", typePool))...), op
		}
	case "type-from-corpus":
		i, j := pickTypeSpan(t, toks, label+"_a")
		d := pickCorpus(t, label+"_donor", 40)
		di, dj := pickTypeSpan(t, d.toks, label+"_b")
		if i >= 0 && di >= 0 {
			return splice(toks, i, j, d.toks[di:dj]...), op
		}
	case "graft-statement", "hoist-statement":
		ls := splitLines(toks)
		donor := ls
		if op == "graft-statement" && rapid.Bool().Draw(t, label+"_other") {
			donor = splitLines(pickCorpus(t, label+"_donor", 60).toks)
		}
		di, dj := pickStmtLines(t, donor, label+"_s")
		ti, _ := pickStmtLines(t, ls, label+"_t")
		if di >= 0 && ti >= 0 {
			out := append([][]string{}, ls[:ti]...)
			out = append(out, donor[di:dj]...)
			out = append(out, ls[ti:]...)
			return joinLines(out), op
		}
	case "wrap-statement":
		ls := splitLines(toks)
		i, j := pickStmtLines(t, ls, label+"_s")
		if i >= 0 {
			heads := [][]string{
				{"if", "true", "{"}, {"while", "true", "{"}, {"if", "false", "{"}, {"while", "true", "{{"},
				{"io_limit", "(", "io", ":", "args", ".", "src", ",", "limit", ":", "4", ")", "{"},
				{"while", ".", "lbl", "true", ",", "inv", "true", ",", "{"},
				{"if", ".", "likely", "1", "==", "1", "{"},
			}
			h := uni(t, label+"_h", len(heads))
			tail := []string{"}"}
			if h == 3 {
				tail = []string{"}}"}
			} else if h == 5 {
				tail = []string{"}", ".", "lbl"}
			}
			out := append([][]string{}, ls[:i]...)
			out = append(out, heads[h])
			out = append(out, ls[i:j]...)
			out = append(out, tail)
			out = append(out, ls[j:]...)
			return joinLines(out), op
		}
	case "dup-decl", "graft-decl":
		// top-level declarations: from a line starting with pub/pri at depth
		// 0 to the line before the next one.
		ls := splitLines(toks)
		donor := ls
		if op == "graft-decl" {
			donor = splitLines(pickCorpus(t, label+"_donor", 70).toks)
		}
		starts := func(ls [][]string) []int {
			var out []int
			for i, l := range ls {
				if len(l) > 0 && (l[0] == "pub" || l[0] == "pri" || l[0] == "use") {
					out = append(out, i)
				}
			}
			return out
		}
		ds, ts := starts(donor), starts(ls)
		if len(ds) > 0 && len(ts) > 0 {
			k := uni(t, label+"_k", len(ds))
			e := len(donor)
			if k+1 < len(ds) {
				e = ds[k+1]
			}
			at := ts[uni(t, label+"_at", len(ts))]
			out := append([][]string{}, ls[:at]...)
			out = append(out, donor[ds[k]:e]...)
			out = append(out, ls[at:]...)
			return joinLines(out), op
		}
	}
	return mutateLines(t, toks, label+"_fb")
}

// ---------------------------------------------------------------- synthesized programs (tree level)

const structFoo = "pub struct foo?(\n    a : base.u8,\n)\n\n"

func rep(s string, n int) string { return strings.Repeat(s, n) }

type synth struct {
	name string
	max  int // largest useful n in the quick tier
	f    func(n, v int) string
}

var synths = []synth{
	{"cyclic-structs", 12, func(n, v int) string {
		// a ring of n structs; v chooses how the field refers to the next.
		var b strings.Builder
		for i := 0; i < n; i++ {
			next := fmt.Sprintf("s%d", (i+1)%n)
			ty := next
			switch v % 5 {
			case 1:
				ty = "array[2] " + next
			case 2:
				ty = "ptr " + next
			case 3:
				ty = "nptr " + next
			case 4:
				ty = "slice " + next
			}
			fmt.Fprintf(&b, "pub struct s%d?(\n    f : %s,\n)\n\n", i, ty)
		}
		return b.String()
	}},
	{"recursive-funcs", 12, func(n, v int) string {
		var b strings.Builder
		b.WriteString(structFoo)
		eff := []string{"", "!", "?"}[v%3]
		for i := 0; i < n; i++ {
			vis := "pri"
			if i == 0 {
				vis = "pub"
			}
			if v%7 == 3 && eff != "?" && i == 1 {
				fmt.Fprintf(&b, "%s func foo.f%d%s(x: base.u32) base.u32,\n    choosy,\n{\n    var r : base.u32\n    r = this.f%d%s(x: args.x)\n    return r\n}\n\n", vis, i, eff, (i+1)%n, eff)
				continue
			}
			if eff == "?" {
				fmt.Fprintf(&b, "%s func foo.f%d?(x: base.u32) {\n    this.f%d?(x: args.x)\n}\n\n", vis, i, (i+1)%n)
			} else {
				fmt.Fprintf(&b, "%s func foo.f%d%s(x: base.u32) base.u32 {\n    var r : base.u32\n    r = this.f%d%s(x: args.x)\n    return r\n}\n\n", vis, i, eff, (i+1)%n, eff)
			}
		}
		return b.String()
	}},
	{"choose-incompatible", 40, func(n, v int) string {
		sigs := []string{
			"(x: base.u32) base.u32", "(x: base.u8) base.u32", "(x: base.u32) base.u8", "(y: base.u32) base.u32", "(x: base.u32, y: base.u32) base.u32",
			"() base.u32", "(x: base.u32)", "(x: base.u32[..= 5]) base.u32", "(x: base.u32) base.u32[..= 5]", "(x: slice base.u8) base.u32",
		}
		effs := []string{"!", "", "?"}
		alt := sigs[n%len(sigs)]
		altEff := effs[(n/len(sigs))%len(effs)]
		ret := func(sig string) string {
			if strings.HasSuffix(sig, ")") {
				return ""
			}
			return "    return 0\n"
		}
		var b strings.Builder
		b.WriteString(structFoo)
		names := []string{"up_alt", "up_alt", "up", "nonesuch", "a", "f", "up_alt , up_alt", "up_alt , up_two", ""}
		fmt.Fprintf(&b, "pub func foo.f!() {\n    choose up = [%s]\n}\n\n", names[v%len(names)])
		choosy := ",\n    choosy,\n"
		if v%11 == 5 {
			choosy = " "
		}
		fmt.Fprintf(&b, "pri func foo.up!(x: base.u32) base.u32%s{\n    return 0\n}\n\n", choosy)
		fmt.Fprintf(&b, "pri func foo.up_alt%s%s {\n%s}\n\n", altEff, alt, ret(alt))
		fmt.Fprintf(&b, "pri func foo.up_two!(x: base.u32) base.u32 {\n    return 1\n}\n")
		return b.String()
	}},
	{"arity-args", 400, func(n, v int) string {
		var b strings.Builder
		b.WriteString(structFoo)
		b.WriteString("pri func foo.g!(")
		for i := 0; i < n; i++ {
			fmt.Fprintf(&b, "a%d: base.u32, ", i)
		}
		b.WriteString(") base.u32 {\n    return 0\n}\n\npub func foo.f!() base.u32 {\n    return this.g!(")
		m := n
		if v%4 == 1 {
			m = n + 1
		} else if v%4 == 2 && n > 0 {
			m = n - 1
		}
		for i := 0; i < m; i++ {
			fmt.Fprintf(&b, "a%d: %d, ", i, i)
		}
		b.WriteString(")\n}\n")
		return b.String()
	}},
	{"arity-fields", 600, func(n, v int) string {
		var b strings.Builder
		b.WriteString("pub struct foo?(\n")
		for i := 0; i < n; i++ {
			fmt.Fprintf(&b, "    f%d : %s,\n", i, []string{"base.u8", "base.u32[..= 5]", "array[3] base.u16", "base.bool"}[(i+v)%4])
		}
		b.WriteString(")")
		if v%2 == 1 {
			b.WriteString(" + (\n")
			for i := 0; i < n; i++ {
				fmt.Fprintf(&b, "    g%d : array[%d] base.u8,\n", i, i+1)
			}
			b.WriteString(")")
		}
		b.WriteString("\n\npub func foo.f!() base.u32 {\n    return 0\n}\n")
		return b.String()
	}},
	{"arity-const-list", 3000, func(n, v int) string {
		var b strings.Builder
		m := n
		if v%5 == 1 {
			m = n + 1
		}
		fmt.Fprintf(&b, "pri const T : roarray[%d] base.u%d = [", n, []int{8, 16, 32, 64}[v%4])
		for i := 0; i < m; i++ {
			if i%16 == 0 {
				b.WriteString("\n    ")
			}
			fmt.Fprintf(&b, "%d, ", i%251)
		}
		b.WriteString("\n]\n\n" + structFoo)
		fmt.Fprintf(&b, "pub func foo.f!(i: base.u32) base.u32 {\n    return T[args.i %% %d] as base.u32\n}\n", n+(v%3)-1)
		return b.String()
	}},
	{"arity-vars", 600, func(n, v int) string {
		var b strings.Builder
		b.WriteString(structFoo + "pub func foo.f!(i: base.u32) base.u32 {\n")
		for i := 0; i < n; i++ {
			fmt.Fprintf(&b, "    var v%d : base.u32\n", i)
		}
		for i := 0; i < n; i++ {
			fmt.Fprintf(&b, "    v%d = args.i & %d\n", i, i)
		}
		if n > 0 && v%2 == 0 {
			b.WriteString("    return v0")
			for i := 1; i < n && i < 200; i++ {
				fmt.Fprintf(&b, " | v%d", i)
			}
			b.WriteString("\n}\n")
		} else {
			b.WriteString("    return 0\n}\n")
		}
		return b.String()
	}},
	{"arity-assoc-chain", 3000, func(n, v int) string {
		op := []string{"|", "&", "^", "+", "*", "and", "or"}[v%7]
		operand, ty := "args.i", "base.u32"
		if op == "and" || op == "or" {
			operand, ty = "args.b", "base.bool"
		}
		if op == "+" || op == "*" {
			operand = "1"
		}
		return structFoo + "pub func foo.f!(i: base.u32, b: base.bool) " + ty + " {\n    return " + operand + rep(" "+op+" "+operand, n) + "\n}\n"
	}},
	{"arity-elseif", 1200, func(n, v int) string {
		var b strings.Builder
		b.WriteString(structFoo + "pub func foo.f!(i: base.u32) base.u32 {\n    if args.i == 0 {\n        return 1\n    }")
		for i := 1; i <= n; i++ {
			fmt.Fprintf(&b, " else if args.i == %d {\n        return %d\n    }", i, i%7)
		}
		b.WriteString("\n    return 0\n}\n")
		return b.String()
	}},
	{"arity-funcs", 400, func(n, v int) string {
		var b strings.Builder
		b.WriteString(structFoo)
		for i := 0; i < n; i++ {
			eff := []string{"", "!", "?"}[(i+v)%3]
			if eff == "?" {
				fmt.Fprintf(&b, "pub func foo.f%d?(src: base.io_reader) {\n    var c : base.u8\n    c = args.src.read_u8?()\n    this.a = c\n}\n\n", i)
			} else {
				fmt.Fprintf(&b, "pub func foo.f%d%s(i: base.u32) base.u32 {\n    return args.i\n}\n\n", i, eff)
			}
		}
		return b.String()
	}},
	{"arity-consts-statuses", 1500, func(n, v int) string {
		var b strings.Builder
		for i := 0; i < n; i++ {
			fmt.Fprintf(&b, "pub const C%d : base.u32 = %d\n", i, i)
			fmt.Fprintf(&b, "pub status \"#error%s%d\"\n", []string{" ", " ", " ", "-", "_", ": ", "  "}[(i*7+v)%7], i/(1+v%2))
		}
		b.WriteString(structFoo + "pub func foo.f!(i: base.u32) base.status {\n    if args.i == C0 {\n        return \"#error 0\"\n    }\n    return ok\n}\n")
		if n == 0 {
			return structFoo
		}
		return b.String()
	}},
	{"arity-statements", 3000, func(n, v int) string {
		var b strings.Builder
		b.WriteString(structFoo + "pub func foo.f!(i: base.u32) base.u32 {\n    var x : base.u32\n")
		for i := 0; i < n; i++ {
			switch (i + v) % 4 {
			case 0:
				fmt.Fprintf(&b, "    x = (x & 0xFF) + %d\n", i%200)
			case 1:
				b.WriteString("    x ~mod+= args.i\n")
			case 2:
				b.WriteString("    if x > 5 {\n        x = 5\n    }\n")
			default:
				b.WriteString("    assert x <= 0xFFFF_FFFF\n")
			}
		}
		b.WriteString("    return x\n}\n")
		return b.String()
	}},
	{"arity-implements", 40, func(n, v int) string {
		ifs := []string{"base.hasher_u32", "base.hasher_u64", "base.io_transformer", "base.image_decoder", "base.token_decoder", "base.hasher_bitvec256", "base.nonesuch", "foo"}
		var l []string
		for i := 0; i < n; i++ {
			l = append(l, ifs[(i+v)%len(ifs)])
		}
		return "pub struct foo? implements " + strings.Join(l, ", ") + "(\n    a : base.u8,\n)\n"
	}},
	{"arity-call-args-nested", 60, func(n, v int) string {
		// f(a: f(a: f(a: ...))) with pure min/max
		e := "args.i"
		for i := 0; i < n; i++ {
			e = e + []string{".min(no_more_than: 7)", ".max(no_less_than: 3)", ".low_bits(n: 4)", ".high_bits(n: 4)"}[(i+v)%4]
		}
		return structFoo + "pub func foo.f!(i: base.u32) base.u32 {\n    return " + e + "\n}\n"
	}},
	{"arity-iterate", 64, func(n, v int) string {
		var b strings.Builder
		b.WriteString(structFoo + "pub func foo.f!(s: slice base.u8, r: roslice base.u8) base.u32 {\n    var x : base.u32\n")
		for i := 0; i < n+1; i++ {
			fmt.Fprintf(&b, "    var p%d : slice base.u8\n", i)
		}
		b.WriteString("    iterate (")
		for i := 0; i < n+1; i++ {
			if i > 0 {
				b.WriteString(", ")
			}
			if (v/7)%4 == 3 && i == (v/28)%(n+1) {
				fmt.Fprintf(&b, "p%d", i) // no initial value
			} else {
				fmt.Fprintf(&b, "p%d = %s", i, []string{"args.s", "args.s", "args.r", "args.s[1 ..]", "x"}[(v/3+i)%5])
			}
		}
		l := 1 + v%9
		adv := 1 + (v/9)%l
		fmt.Fprintf(&b, ")(length: %d, advance: %d, unroll: %d) {\n        x ~mod+= p0[0] as base.u32\n    }", l, adv, 1+(v/81)%5)
		if v%2 == 1 {
			b.WriteString(" else (length: 1, advance: 1, unroll: 1) {\n        x ~mod+= p0[0] as base.u32\n    }")
		}
		b.WriteString("\n    return x\n}\n")
		return b.String()
	}},
	{"arity-dims", 12, func(n, v int) string {
		ty := "base.u8"
		idx := ""
		for i := 0; i < n; i++ {
			ty = fmt.Sprintf("array[%d] ", 1+(i+v)%3) + ty
			idx += "[0]"
		}
		return "pub struct foo?(\n    a : " + ty + ",\n)\n\npub func foo.f!() base.u8 {\n    this.a" + idx + " = 1\n    return this.a" + idx + "\n}\n"
	}},
}

// builtin-call programs: see builtins_test.go (genBuiltinCall).

// ---------------------------------------------------------------- bombs

type bombShape struct {
	name string
	per  int // approximate bytes per nesting level (documentation)
	f    func(d int) string
}

// bombCaps: largest depth generated for a shape when the size limit alone
// would make the UNCHANGED tools spend more than about 2 s of CPU (see
// notes/C11-report.md, limits): the budget must never be approached on a
// correct tree, however loaded the machine.
var bombCaps = map[string]int{
	"paren": 60000, "paren-unclosed": 60000, "bracket-unclosed": 60000, "neg": 60000, "not": 60000,
	"list": 40000, "dot": 40000, "ptr-type": 40000, "slice-type": 20000,
	"if": 12000, "if-unclosed": 20000, // check walks the remaining nesting at every level (ast.Terminates)
	"else-if-chain":            3000,  // known finding T11: the checker needs time quadratic in the number of branches
	"size-assoc-mul":           12000, // bounds of 32*d bits
	"size-lines-at-indent-500": 20000, // 2000 bytes of indentation per line
}

func funcWith(pre, body string) string {
	return structFoo + pre + "pub func foo.f!(s: slice base.u8, i: base.u32) base.u32 {\n    var x : base.u32\n" + body + "\n    return x\n}\n"
}

var bombShapes = []bombShape{
	{"paren", 2, func(d int) string { return funcWith("", "    x = "+rep("(", d)+"1"+rep(")", d)) }},
	{"paren-unclosed", 1, func(d int) string { return funcWith("", "    x = "+rep("(", d)+"1") }},
	{"bracket", 4, func(d int) string { return funcWith("", "    x = "+rep("args.s[", d)+"0"+rep("]", d)+" as base.u32") }},
	{"bracket-unclosed", 2, func(d int) string { return funcWith("", "    x = "+rep("s[", d)) }},
	{"not", 4, func(d int) string { return funcWith("", "    if "+rep("not ", d)+"true {\n    }") }},
	{"neg", 2, func(d int) string { return funcWith("", "    x = "+rep("- ", d)+"1") }},
	{"plus-paren", 5, func(d int) string { return funcWith("", "    x = 1"+rep(" + (1", d)+rep(")", d)) }},
	{"if", 8, func(d int) string { return funcWith("", rep("if x<1{\n", d)+rep("}\n", d)) }},
	{"if-undeclared", 7, func(d int) string { return funcWith("", rep("if q{\n", d)+rep("}\n", d)) }},
	{"if-unclosed", 6, func(d int) string { return funcWith("", rep("if x<1{\n", d)) }},
	{"while", 8, func(d int) string { return funcWith("", rep("while x<1{\n", d)+rep("}\n", d)) }},
	{"while-dcurly", 24, func(d int) string { return funcWith("", rep("while true{{\n", d)+"x=1\n"+rep("break\n}}\n", d)) }},
	{"else-if-chain", 22, func(d int) string {
		var b strings.Builder
		b.WriteString("if args.i==0{\n}")
		for i := 1; i <= d; i++ {
			fmt.Fprintf(&b, "else if args.i==%d{\n}", i)
		}
		return funcWith("", b.String())
	}},
	{"else-if-chain-full", 22, func(d int) string { return bombByName["else-if-chain"].f(d) }},
	{"array-type", 9, func(d int) string { return structFoo + "pri const X : " + rep("array[2] ", d) + "base.u8 = 0\n" }},
	{"ptr-type", 4, func(d int) string { return structFoo + "pri func foo.g!(p: " + rep("ptr ", d) + "base.u8) {\n}\n" }},
	{"slice-type", 6, func(d int) string { return bombText(funcWith("", "")).replaceVarType(rep("slice ", d) + "base.u8") }},
	{"list", 2, func(d int) string {
		return structFoo + "pri const X : array[2] base.u8 = " + rep("[", d) + "0" + rep("]", d) + "\n"
	}},
	{"call", 12, func(d int) string {
		return funcWith("", "    x = "+rep("args.i.min(no_more_than: ", d)+"1"+rep(")", d))
	}},
	{"dot", 2, func(d int) string { return funcWith("", "    x = this"+rep(".a", d)) }},
	{"method-chain", 24, func(d int) string { return funcWith("", "    x = args.i"+rep(".min(no_more_than: 9)", d)) }},
	{"as-chain", 12, func(d int) string { return funcWith("", "    x = "+rep("(", d)+"args.i"+rep(" as base.u32)", d)) }},
	{"io-limit", 30, func(d int) string {
		return structFoo + "pub func foo.f?(src: base.io_reader) {\n" + rep("io_limit (io: args.src, limit: 4) {\n", d) + rep("}\n", d) + "}\n"
	}},
	{"refinement", 20, func(d int) string {
		// base.u32[..= (base.u32[..= ...])] is not valid, but nests via array lengths in refinements
		return structFoo + "pri const X : base.u32[..= " + rep("(1 + ", d) + "1" + rep(")", d) + "] = 0\n"
	}},
	{"dcurly-tokens", 2, func(d int) string { return funcWith("", rep("{{", d)+rep("}}", d)) }},
	{"curly-tokens", 1, func(d int) string { return rep("{", d) }},
	{"close-tokens", 1, func(d int) string { return funcWith("", rep("}", d)) }},
	// size bombs (flat)
	{"size-statements", 12, func(d int) string { return funcWith("", rep("    x ~mod+= 1\n", d)) }},
	{"size-assoc", 4, func(d int) string { return funcWith("", "    x = 1"+rep(" | 1", d)) }},
	{"size-list", 2, func(d int) string {
		return fmt.Sprintf("pri const T : roarray[%d] base.u8 = [", d) + rep("0,", d) + "]\n" + structFoo
	}},
	{"size-assoc-mul", 9, func(d int) string { return funcWith("", "    x = args.i"+rep(" * args.i", d)) }},
	{"size-lines-at-indent-500", 2, func(d int) string { return funcWith("", rep("if x<1{\n", 500)+rep("x\n", d)+rep("}\n", 500)) }},
	{"size-long-line-comment", 1, func(d int) string { return "//" + rep("x", d) + "\n" + structFoo }},
	{"size-blank-lines", 1, func(d int) string { return rep("\n", d) + structFoo }},
	{"size-idents", 8, func(d int) string {
		var b strings.Builder
		b.WriteString(structFoo + "pub func foo.f!() {\n")
		for i := 0; i < d; i++ {
			fmt.Fprintf(&b, "v%d\n", i)
		}
		b.WriteString("}\n")
		return b.String()
	}},
	{"size-long-ident", 1, func(d int) string { return structFoo + "pri const " + rep("A", d) + " : base.u8 = 0\n" }},
	{"size-long-number", 1, func(d int) string { return structFoo + "pri const A : base.u8 = 1" + rep("0", d) + "\n" }},
	{"size-long-string", 1, func(d int) string { return "pub status \"#" + rep("a", d) + "\"\n" }},
	{"size-fields", 16, func(d int) string {
		var b strings.Builder
		b.WriteString("pub struct foo?(\n")
		for i := 0; i < d; i++ {
			fmt.Fprintf(&b, "f%d:base.u8,\n", i)
		}
		b.WriteString(")\n")
		return b.String()
	}},
}

type bombText string

func (s bombText) replaceVarType(ty string) string {
	return strings.Replace(string(s), "var x : base.u32", "var x : base.u32\n    var z : "+ty, 1)
}

var bombByName = map[string]*bombShape{}

func init() {
	for i := range bombShapes {
		bombByName[bombShapes[i].name] = &bombShapes[i]
	}
}

func buildBomb(shape string, depth int) []byte {
	s := bombByName[shape]
	if s == nil || depth < 0 {
		return nil
	}
	return []byte(s.f(depth))
}

// ---------------------------------------------------------------- case generators

// sanitizeT7 keeps known finding T7 out of the campaign: cgen supports structs
// without the "?" mark only partially (public methods, coroutines and fields
// of such a struct type make it emit C that refers to a magic field or an
// initializer that does not exist). Every struct declaration the generators
// produce carries the "?"; a mutation that removes it is undone and counted.
func sanitizeT7(toks []string) []string {
	for i := 0; i+2 < len(toks); i++ {
		if toks[i] == "struct" && classify(toks[i+1]) == clIdent && toks[i+2] != "?" {
			ev.Excluded("T7-struct-without-question-mark")
			toks = splice(toks, i+2, i+2, "?")
		}
	}
	return toks
}

// sanitizeT10 keeps known finding T10 out of the campaign: the checker puts
// no upper limit on array lengths (`array[0xFFFF_FFFF_FFFF_FFFF] base.u16`,
// even 10^73, is accepted) and cgen copies the number into a C declarator
// that no C compiler accepts. A numeric literal above 2^24 between "array ["
// and its "]" is replaced by 8 and counted.
func sanitizeT10(toks []string) []string {
	limit := big.NewInt(1 << 24)
	for i := 0; i+2 < len(toks); i++ {
		if (toks[i] != "array" && toks[i] != "roarray") || toks[i+1] != "[" {
			continue
		}
		j := matching(toks, i+1)
		if j < 0 {
			continue
		}
		for k := i + 2; k < j; k++ {
			if classify(toks[k]) != clNumber {
				continue
			}
			if v, ok := new(big.Int).SetString(strings.ReplaceAll(toks[k], "_", ""), 0); ok && v.Cmp(limit) > 0 {
				ev.Excluded("T10-huge-array-length")
				toks = splice(toks, k, k+1, "8")
			}
		}
	}
	return toks
}

func sanitizeT3(toks []string) []string {
	for i := range toks {
		if isT3Call(toks, i) {
			// Known finding T3: never generated. (No pool holds these names,
			// so this is reachable only if a corpus file starts using them.)
			ev.Excluded("T3-builtin-without-C-lowering")
			out := append([]string{}, toks...)
			if strings.HasPrefix(toks[i], "write_") {
				out[i] = "write_u8"
			} else {
				out[i] = "unite"
			}
			toks = out
		}
	}
	return toks
}

func soup(t *rapid.T) []string {
	initVocab()
	n := rapid.IntRange(1, 60).Draw(t, "soup_n")
	var toks []string
	switch uni(t, "soup_frame", 4) {
	case 1:
		toks = lex([]byte("pub struct foo?(\na : base.u8,\n)\npub func foo.f!(i: base.u32) base.u32 {\nvar x : base.u32\n"))
	case 2:
		toks = lex([]byte("pri const X : base.u32 = "))
	case 3:
		toks = lex([]byte("pub struct foo?(\n"))
	}
	for i := 0; i < n; i++ {
		toks = append(toks, pickFrom(t, "soup_t", vocabulary))
	}
	if rapid.Bool().Draw(t, "soup_close") {
		toks = append(toks, "\n", "}", "\n")
	}
	return toks
}

// genCase draws one in-process case. accepting biases the mutations towards
// programs that the checker still accepts and turns gcc on.
func genCase(t *rapid.T, accepting bool) Case {
	loadCorpus()
	c := Case{Kind: "src", Pkg: "foo"}
	roll := uni(t, "generator", 100)
	if accepting {
		// 0..69 mutations, 70..84 synth, 85..99 builtin calls
		switch {
		case roll < 70:
			roll = 30 + roll%50 // tokmut / linemut / treemut
		case roll < 85:
			roll = 90
		default:
			roll = 96
		}
		c.CC = true
	} else {
		c.CC = uni(t, "cc", 100) == 0
	}
	switch {
	case roll < 3:
		b := rapid.SliceOfN(rapid.Byte(), 0, 200).Draw(t, "bytes")
		c.setSrc(b)
		c.Gen = "bytes"
	case roll < 15:
		b := join(sanitizeT10(sanitizeT7(sanitizeT3(soup(t)))))
		// the end of the input is a place of its own: with or without the
		// final newline, sometimes with the last blank removed as well
		switch uni(t, "soup_end", 4) {
		case 1:
			b = bytes.TrimRight(b, "\n")
		case 2:
			b = bytes.TrimRight(b, "\n")
			if i := bytes.LastIndexByte(b, ' '); i >= 0 {
				b = append(b[:i:i], b[i+1:]...)
			}
		}
		c.setSrc(b)
		c.Gen = "soup"
	case roll < 90:
		smallBias := 55
		if accepting {
			smallBias = 70
		}
		cf := pickCorpus(t, "base", smallBias)
		toks := cf.toks
		var desc []string
		kind := "tokmut"
		switch {
		case roll < 55:
			n := pickFrom(t, "nmut", []int{1, 1, 1, 2, 2, 3, 4})
			if accepting {
				n = 1
			}
			for i := 0; i < n; i++ {
				var d string
				if accepting {
					// mutations that often survive the checker
					toks, d = mutateTokens(t, toks, fmt.Sprintf("m%d", i), acceptingMutations)
				} else {
					toks, d = mutateTokens(t, toks, fmt.Sprintf("m%d", i), tokenMutations)
				}
				desc = append(desc, d)
			}
		case roll < 70:
			kind = "linemut"
			n := pickFrom(t, "nmut", []int{1, 1, 2, 3})
			for i := 0; i < n; i++ {
				var d string
				toks, d = mutateLines(t, toks, fmt.Sprintf("l%d", i))
				desc = append(desc, d)
			}
		default:
			kind = "treemut"
			n := pickFrom(t, "nmut", []int{1, 1, 2})
			for i := 0; i < n; i++ {
				var d string
				toks, d = mutateTree(t, toks, fmt.Sprintf("t%d", i))
				desc = append(desc, d)
			}
		}
		toks = sanitizeT10(sanitizeT7(sanitizeT3(toks)))
		c.Pkg, c.File = cf.pkg, cf.file
		c.setSrc(join(toks))
		c.Gen = kind + ":" + cf.name + ":" + strings.Join(desc, ",")
	case roll < 96:
		s := synths[uni(t, "synth", len(synths))]
		max := s.max
		if !ev.Thorough() && max > 300 {
			// keep the quick tier's cases small; the big arities are in the
			// size bombs and the thorough tier
			if uni(t, "synth_big", 10) != 0 {
				max = 300
			}
		}
		n := uni(t, "synth_n", (max)+1)
		v := uni(t, "synth_v", 1000)
		c.Text = s.f(n, v)
		c.Gen = fmt.Sprintf("synth:%s:n=%d,v=%d", s.name, n, v)
	default:
		c.Text, c.Gen = genBuiltinCall(t)
	}
	return c
}

// maxDepthFor is the largest depth whose text fits into limit bytes (and,
// for nesting shapes, at most 200 000).
func maxDepthFor(s *bombShape, limit int) int {
	lo, hi := 1, limit // invariant: len(f(lo)) <= limit
	if !strings.HasPrefix(s.name, "size-") && hi > 200000 {
		hi = 200000
	}
	if c := bombCaps[s.name]; c > 0 && hi > c {
		hi = c
	}
	if len(s.f(hi)) <= limit {
		return hi
	}
	for lo+1 < hi {
		mid := (lo + hi) / 2
		if len(s.f(mid)) <= limit {
			lo = mid
		} else {
			hi = mid
		}
	}
	return lo
}

// genSubCase draws a subprocess case: bombs (2/3) and a sample of the other
// generators (1/3).
func genSubCase(t *rapid.T) Case {
	loadCorpus()
	if uni(t, "sub_kind", 3) == 0 {
		c := genCase(t, false)
		c.Sub = true
		return c
	}
	s := bombShapes[uni(t, "shape", len(bombShapes))]
	if s.name == "else-if-chain-full" { // only for the replay file of known finding T11
		ev.Excluded("T11-long-else-if-chain")
		s = *bombByName["else-if-chain"]
	}
	// depths 10 … 200 000, log-uniform-ish; the text stays <= 256 KiB except
	// for one case in 12 (<= 2 MiB), which is only watched for crashes.
	limit := bigInput
	if uni(t, "over", 20) == 0 {
		limit = 2 << 20
	}
	maxDepth := maxDepthFor(&s, limit)
	class := uni(t, "depth_class", 10)
	lo, hi := 10, 300
	switch class {
	case 1:
		lo, hi = 200, 300 // around MaxExprDepth / MaxBodyDepth (255)
	case 2:
		lo, hi = 300, 5000
	case 3:
		lo, hi = 5000, 40000
	case 4, 5:
		lo, hi = maxDepth, maxDepth // the deepest that fits
	case 6, 7:
		lo, hi = 300, 5000
	case 8, 9:
		lo, hi = 10, 300
	}
	if hi > maxDepth {
		hi = maxDepth
	}
	if lo > hi {
		lo = hi
	}
	d := rapid.IntRange(lo, hi).Draw(t, "depth")
	return Case{Kind: "bomb", Pkg: "foo", Shape: s.name, Depth: d, CC: true, Gen: "bomb:" + s.name}
}

var _ = sort.Strings
