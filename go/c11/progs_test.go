package c11

// Small single-file programs accepted by the checker (TestCorpus verifies it).

const progCounter = `pub status "#bad input"
pub status "@done"
pri status "$wait"

pub const LIMIT : base.u32 = 1000
pri const TABLE : roarray[8] base.u16 = [
        1, 2, 4, 8, 0x10, 0x20, 0x40, 0xFFFF,
]
pri const GRID : roarray[2] roarray[3] base.u8 = [
        [1, 2, 3],
        [4, 5, 6],
]

pub struct counter?(
        n     : base.u32[..= 1000],
        flags : array[4] base.bool,
        st    : base.status,
) + (
        scratch : array[256] base.u8,
)

pub func counter.get() base.u32 {
    return this.n
}

pub func counter.bump!(by: base.u32[..= 10]) base.u32 {
    var x : base.u32[..= 1010]
    x = this.n + args.by
    if x <= 1000 {
        this.n = x
    } else {
        this.n = 1000
    }
    this.flags[args.by & 3] = true
    return (TABLE[args.by & 7] as base.u32) + (GRID[1][2] as base.u32)
}

pub func counter.fill!(v: base.u8, s: slice base.u8) base.u64 {
    var i : base.u64
    var n : base.u64
    n = args.s.length().min(no_more_than: 256)
    i = 0
    while.fill i < n,
            inv n <= 256,
            post i >= n,
    {
        assert i < 256 via "a < b: a < c; c <= b"(c: n)
        this.scratch[i] = args.v
        i += 1
    }.fill
    n = args.s.copy_from_slice!(s: this.scratch[.. n])
    return n
}

pub func counter.classify(x: base.u32) base.status {
    if args.x == 0 {
        return ok
    } else if args.x < LIMIT {
        return "@done"
    }
    return "#bad input"
}
`

const progReader = `pub status "#truncated"

pub struct reader?(
        total  : base.u64,
        last   : base.u8,
        window : array[16] base.u8,
)

pri func reader.one?(src: base.io_reader) {
    var c : base.u8
    c = args.src.read_u8?()
    this.last = c
    this.total ~mod+= c as base.u64
}

pub func reader.run?(dst: base.io_writer, src: base.io_reader) {
    var c      : base.u8
    var n      : base.u32
    var status : base.status
    var w      : base.u64
    var r      : base.io_reader

    while true {
        c = args.src.read_u8?()
        if c == 0 {
            break
        } else if c == 1 {
            this.one?(src: args.src)
        } else if c == 2 {
            n = args.src.read_u16le_as_u32?()
            while n > 0 {
                args.dst.write_u8?(a: this.last)
                n -= 1
            }
        } else if c == 3 {
            io_limit (io: args.src, limit: 4 as base.u64) {
                status =? this.one?(src: args.src)
            }
            if status.is_error() {
                return status
            } else if status.is_suspension() {
                yield? status
            }
        } else if c == 4 {
            io_bind (io: r, data: this.window[.. 8], history_position: 0) {
                status =? this.one?(src: r)
            }
            if not status.is_ok() {
                return "#truncated"
            }
        } else if c == 5 {
            w = args.dst.length()
            if args.dst.length() >= 4 {
                args.dst.write_u32le_fast!(a: 0x1234_5678)
            }
        } else {
            yield? base."$short write"
        }
    }
    return ok
}
`

const progSummer = `pub struct summer? implements base.hasher_u32(
        state   : base.u32,
        started : base.bool,
)

pub func summer.get_quirk(key: base.u32) base.u64 {
    return 0
}

pub func summer.set_quirk!(key: base.u32, value: base.u64) base.status {
    return base."#unsupported option"
}

pub func summer.update!(x: roslice base.u8) {
    if not this.started {
        this.started = true
        choose up = [up_alt]
    }
    this.up!(x: args.x)
}

pub func summer.update_u32!(x: roslice base.u8) base.u32 {
    this.update!(x: args.x)
    return this.state
}

pub func summer.checksum_u32() base.u32 {
    return this.state
}

pri func summer.up!(x: roslice base.u8),
        choosy,
{
    var p : roslice base.u8
    var s : base.u32
    s = this.state
    iterate (p = args.x)(length: 4, advance: 4, unroll: 2) {
        s ~mod+= p.peek_u32le()
    } else (length: 1, advance: 1, unroll: 1) {
        s ~mod+= p[0] as base.u32
    }
    this.state = s
}

pri func summer.up_alt!(x: roslice base.u8) {
    var i : base.u64
    while i < args.x.length() {
        assert i < 0xFFFF_FFFF_FFFF_FFFF via "a < b: a < c; c <= b"(c: args.x.length())
        this.state ~mod+= args.x[i] as base.u32
        i += 1
    }
}
`

const progFramed = `use "std/crc32"

pub status "#bad checksum"

pub struct framed?(
        checksum : crc32.ieee_hasher,
        want     : base.u32,
        util     : base.utility,
)

pub func framed.check?(src: base.io_reader) {
    var got  : base.u32
    var mark : base.u64
    var r    : base.range_ii_u32
    this.want = args.src.read_u32be?()
    while true {
        mark = args.src.mark()
        if args.src.length() > 0 {
            args.src.skip_u32_fast!(actual: 1, worst_case: 1)
        }
        got = this.checksum.update_u32!(x: args.src.since(mark: mark))
        if got == this.want {
            break
        } else if args.src.is_closed() {
            return "#bad checksum"
        }
        yield? base."$short read"
    }
    r = this.util.make_range_ii_u32(min_incl: 1, max_incl: got)
    r = r.unite(r: this.util.empty_range_ii_u32())
    r = r.intersect(r: r)
}
`

const progBits = `pri const MASKS : roarray[4] base.u32 = [0x0F, 0xFF, 0xFFF, 0xFFFF]

pub struct bits?(
        acc  : base.u64,
        n    : base.u32[..= 63],
        grid : array[4] array[8] base.u16,
)

pub func bits.push!(v: base.u8) {
    if this.n <= 55 {
        this.acc |= (args.v as base.u64) << this.n
        this.n += 8
    }
}

pub func bits.pop!(k: base.u32[..= 3]) base.u32 {
    var m : base.u32
    var r : base.u32
    var i : base.u32
    m = MASKS[args.k]
    r = (this.acc & 0xFFFF_FFFF) as base.u32
    r = r & m
    this.acc >>= 4
    if this.n >= 4 {
        this.n -= 4
    }
    i = 0
    while i < 8 {
        assert i < 8 via "a < b: a < c; c <= b"(c: 8)
        this.grid[args.k][i] = (r & 0xFFFF) as base.u16
        i += 1
    }
    while true {{
        if r > 100 {
            r = r ~mod- 100
            break
        }
        r = r ~sat+ 1
        break
    }}
    return r.max(no_less_than: 3).min(no_more_than: 0xFFFF)
}

pub func bits.tab!(t: table base.u8, y: base.u32) base.u64 {
    var row : slice base.u8
    if (args.y as base.u64) < args.t.height() {
        row = args.t.row_u32(y: args.y)
        if row.length() > 0 {
            row[0] = 7
        }
    }
    return args.t.width() ~mod+ args.t.stride()
}
`

const progIdioms = `pub status "#bad"

pri const TBL : roarray[4] base.u8 = [1, 2, 3, 4]

pub struct foo?(
    total : base.u32,
    n : base.u32[..= 16],
    buf : array[16] base.u8,
    w : array[8] base.u16,
) + (
    big : array[64] base.u8,
)

pub func foo.get_total() base.u32 {
    return this.total
}

pri func foo.p0(a: base.u32) base.u32 {
    return (args.a & 0xFF) + 1
}

pri func foo.h0!(a: base.u8) {
    this.buf[args.a & 15] = args.a
}

pri func foo.c0?(src: base.io_reader) {
    var v : base.u32
    v = args.src.read_u24le_as_u32?()
    this.total ~mod+= v
}

pub func foo.step!(a: base.u32, b: base.u8) base.u32 {
    var i : base.u32
    var j : base.u64
    var x : base.u32
    var s : slice base.u8
    var acc : base.u32
    var m : base.u32
    x = args.a & 7
    if x < 7 {
        x += 1
    }
    this.w[x] = (args.a & 0xFFFF) as base.u16
    s = this.buf[2 .. 9]
    j = ((args.b & 3) as base.u64)
    if j < s.length() {
        acc = s[j] as base.u32
    }
    acc = acc & 0xFFFF
    i = 0
    while i < 16,
            inv acc <= 0xFFFF,
    {
        acc = (acc + (this.buf[i] as base.u32)) & 0xFFFF
        i += 1
    }
    m = args.a.min(no_more_than: 15)
    acc = acc ~sat+ (this.buf[m] as base.u32)
    acc = acc ~mod+ this.p0(a: args.a)
    this.h0!(a: args.b)
    x = TBL[args.b & 3] as base.u32
    return (acc & 0xFFFF) + x
}

pub func foo.run?(dst: base.io_writer, src: base.io_reader) {
    var c : base.u8
    var v : base.u32
    var st : base.status
    var k : base.u32
    while.outer true {
        c = args.src.read_u8?()
        if c == 0 {
            return ok
        } else if c == 1 {
            if args.src.length() >= 4 {
                v = args.src.peek_u32le()
                args.src.skip_u32_fast!(actual: 4, worst_case: 4)
                this.total ~mod+= v
            } else {
                v = args.src.read_u32le?()
                this.total ~mod+= v
            }
        } else if c == 2 {
            this.c0?(src: args.src)
        } else if c == 3 {
            while true {
                st =? this.c0?(src: args.src)
                if st.is_ok() {
                    break
                } else if st.is_error() {
                    return st
                }
                yield? st
            }
        } else if c == 4 {
            if args.dst.length() >= 2 {
                args.dst.write_u16le_fast!(a: (this.total & 0xFFFF) as base.u16)
            } else {
                args.dst.write_u8?(a: (this.total & 0xFF) as base.u8)
                args.dst.write_u8?(a: ((this.total >> 8) & 0xFF) as base.u8)
            }
        } else if c == 5 {
            k = 0
            while k < 3 {
                args.dst.write_u8?(a: c)
                k += 1
                if this.total == 77 {
                    break.outer
                }
            }
        } else if c == 0xFF {
            return "#bad"
        } else {
            this.total ~mod+= 1
        }
    }.outer
    return ok
}
`

const progPtrArr = `pub struct foo?(
    grid : array[4] array[8] base.u16,
    cube : array[2] array[4] array[8] base.u16,
)

pub func foo.f!(k: base.u32[..= 3]) base.u32 {
    var p  : nptr array[8] base.u16
    var q  : nptr roarray[8] base.u16
    var pp : nptr array[4] array[8] base.u16
    var x  : base.u32

    p = this.grid[args.k][..] as ptr array[8] base.u16
    q = this.grid[0][..] as ptr array[8] base.u16
    pp = this.cube[1][..] as ptr array[4] array[8] base.u16
    if p <> nullptr {
        x = p[3] as base.u32
        p[2] = 7
    }
    if q <> nullptr {
        x ~mod+= q[1] as base.u32
    }
    if pp <> nullptr {
        x ~mod+= pp[1][2] as base.u32
    }
    return x
}
`
