package c20

import (
	"fmt"
	"sort"
	"strings"

	"pgregory.net/rapid"
)

// Generator of small valid multi-file Wuffs packages. What varies is what an
// order dependence of the compiler could show up in: the number and names of
// the files, which file holds which declaration and in which order, statuses
// (pub/pri, error/suspension/note), scalar and table consts, several structs
// referencing each other (so that the topological sort has work to do, and in
// general contradicts source order), pub/pri pure, impure and coroutine
// methods calling each other.

type gStatus struct {
	pub  bool
	text string // including the sigil
}

type gConst struct {
	pub   bool
	name  string
	typ   string // scalar: "base.u8".. ; table: "roarray[N] base.u8"
	elem  string // element/scalar type
	n     int    // 0 = scalar
	value string
}

type gMethod struct {
	pub    bool
	name   string
	effect string // "", "!", "?"
}

type gStruct struct {
	pub, classy bool
	name        string
	rank        int
	deps        []int  // indices of structs used as field types (all of lower rank)
	depArr      []bool // field is array[2] dep
	extra       []string
	private     bool
	methods     []gMethod
}

var (
	statusWords = []string{"bad header", "bad checksum", "truncated input", "unsupported option", "too much data",
		"bad block", "inconsistent size", "zero length", "bad magic", "overflow", "not yet", "more please", "half way", "fine print", "side note"}
	constNames  = []string{"ALPHA", "MAX_LEN", "K_TABLE", "ZED", "MASK", "LIMIT", "QUUX", "BIAS", "DELTA_0", "B2"}
	structNames = []string{"node", "leaf", "tree", "alpha", "zip", "mid", "hub", "aux", "b0", "yak"}
	methodNames = []string{"get", "peek", "bump", "clear", "mix", "step", "run", "load", "scan", "fill", "a1", "zz"}
	extraFields = []string{"a : base.u8", "b : base.u16", "len : base.u64", "pos : base.u32[..= 1000]", "buf : array[4] base.u8",
		"tab : array[3] base.u16", "on : base.bool", "w : base.u32", "lo : base.u8[..= 7]"}
	fileStems = []string{"a", "b", "zz", "m", "decode", "decode_x", "tables", "0", "10", "2", "9z", "util", "common", "aa", "ab", "z", "y_1", "k"}
)

func drawGenerated(t *rapid.T) Case {
	pkg := "g" + rapid.StringOfN(rapid.RuneFrom([]rune("abcdefghijklmnopqrstuvwxyz0123456789")), 1, 5, -1).Draw(t, "pkgname")

	// ---- declarations
	nStatus := rapid.IntRange(0, 8).Draw(t, "nstatus")
	words := rapid.Permutation(statusWords).Draw(t, "status_words")
	var statuses []gStatus
	for i := 0; i < nStatus; i++ {
		sig := rapid.SampledFrom([]string{"#", "#", "#", "$", "@"}).Draw(t, "sigil")
		statuses = append(statuses, gStatus{pub: rapid.Bool().Draw(t, "pub"), text: sig + words[i]})
	}

	nConst := rapid.IntRange(0, 6).Draw(t, "nconst")
	cnames := rapid.Permutation(constNames).Draw(t, "const_names")
	var consts []gConst
	for i := 0; i < nConst; i++ {
		k := gConst{pub: rapid.Bool().Draw(t, "pub"), name: cnames[i]}
		bits := rapid.SampledFrom([]int{8, 16, 32, 64}).Draw(t, "bits")
		k.elem = fmt.Sprintf("base.u%d", bits)
		lim := uint64(1)<<uint(min(bits, 63)) - 1
		val := func() string {
			v := rapid.Uint64Range(0, lim).Draw(t, "val")
			if rapid.Bool().Draw(t, "hex") {
				return fmt.Sprintf("0x%X", v)
			}
			return fmt.Sprint(v)
		}
		if rapid.IntRange(0, 2).Draw(t, "table") == 0 {
			k.n = rapid.IntRange(1, 5).Draw(t, "n")
			var vs []string
			for j := 0; j < k.n; j++ {
				vs = append(vs, val())
			}
			k.typ = fmt.Sprintf("roarray[%d] %s", k.n, k.elem)
			k.value = "[" + strings.Join(vs, ", ") + "]"
		} else {
			k.typ = k.elem
			k.value = val()
		}
		consts = append(consts, k)
	}

	nStruct := rapid.IntRange(1, 5).Draw(t, "nstruct")
	snames := rapid.Permutation(structNames).Draw(t, "struct_names")
	ranks := rapid.Permutation(seq(nStruct)).Draw(t, "ranks")
	structs := make([]gStruct, nStruct)
	for i := range structs {
		s := &structs[i]
		s.name, s.rank = snames[i], ranks[i]
		s.pub = rapid.Bool().Draw(t, "pub")
		s.classy = rapid.IntRange(0, 2).Draw(t, "classy") > 0
		s.private = rapid.IntRange(0, 3).Draw(t, "private") == 0
		ne := rapid.IntRange(0, 3).Draw(t, "nextra")
		ef := rapid.Permutation(extraFields).Draw(t, "extra_fields")
		s.extra = ef[:ne]
	}
	for i := range structs {
		for j := range structs {
			if structs[j].rank < structs[i].rank && rapid.IntRange(0, 2).Draw(t, "dep") == 0 {
				structs[i].deps = append(structs[i].deps, j)
				structs[i].depArr = append(structs[i].depArr, rapid.IntRange(0, 3).Draw(t, "dep_array") == 0)
			}
		}
	}
	for i := range structs {
		s := &structs[i]
		nm := rapid.IntRange(1, 4).Draw(t, "nmethods")
		mn := rapid.Permutation(methodNames).Draw(t, "method_names")
		for j := 0; j < nm; j++ {
			eff := rapid.SampledFrom([]string{"", "!", "!", "?"}).Draw(t, "effect")
			if eff == "?" && !s.classy {
				eff = "!"
			}
			s.methods = append(s.methods, gMethod{pub: rapid.Bool().Draw(t, "pub"), name: mn[j], effect: eff})
		}
	}

	// ---- render every declaration
	var decls []string
	for _, z := range statuses {
		decls = append(decls, fmt.Sprintf("%s status %q\n", vis(z.pub), z.text))
	}
	for _, k := range consts {
		decls = append(decls, fmt.Sprintf("%s const %s : %s = %s\n", vis(k.pub), k.name, k.typ, k.value))
	}
	for i := range structs {
		decls = append(decls, renderStruct(structs, i))
		for j := range structs[i].methods {
			decls = append(decls, renderMethod(t, structs, i, j, statuses, consts))
		}
	}

	// ---- distribute over files
	nFiles := rapid.SampledFrom([]int{1, 2, 2, 3, 3, 4, 5, 6}).Draw(t, "nfiles")
	stems := rapid.Permutation(fileStems).Draw(t, "file_names")[:nFiles]
	bodies := make([]strings.Builder, nFiles)
	for _, d := range rapid.Permutation(decls).Draw(t, "decl_order") {
		k := rapid.IntRange(0, nFiles-1).Draw(t, "file_of_decl")
		if bodies[k].Len() > 0 {
			bodies[k].WriteString("\n")
		}
		bodies[k].WriteString(d)
	}
	c := Case{Pkg: pkg}
	for i := 0; i < nFiles; i++ {
		src := bodies[i].String()
		if src == "" {
			src = "// This file is intentionally empty.\n"
		}
		c.Files = append(c.Files, FileSpec{Name: stems[i] + ".wuffs", Src: src})
	}
	// a decoy that the build tool must not pick up (wrong suffix)
	switch rapid.IntRange(0, 5).Draw(t, "decoy") {
	case 0:
		pos := rapid.IntRange(0, len(c.Files)).Draw(t, "decoy_pos")
		d := FileSpec{Name: "0decoy.wuffs~", Src: "pub status \"#decoy\"\n"}
		c.Files = append(c.Files[:pos], append([]FileSpec{d}, c.Files[pos:]...)...)
	case 1:
		c.Files = append(c.Files, FileSpec{Name: "README.md", Src: "not wuffs\n"})
	}
	// the ordered list handed to wuffs-c: mostly sorted (= what the tool passes), sometimes another order
	if nFiles >= 2 && rapid.IntRange(0, 3).Draw(t, "permute_order") == 0 {
		var idx []int
		for i, f := range c.Files {
			if strings.HasSuffix(f.Name, ".wuffs") {
				idx = append(idx, i)
			}
		}
		c.Order = rapid.Permutation(idx).Draw(t, "order")
		sorted := append([]int{}, idx...)
		sort.Slice(sorted, func(a, b int) bool { return c.Files[sorted[a]].Name < c.Files[sorted[b]].Name })
		same := true
		for i := range sorted {
			same = same && sorted[i] == c.Order[i]
		}
		if same {
			c.Order = nil
		}
	}
	return c
}

func seq(n int) []int {
	s := make([]int, n)
	for i := range s {
		s[i] = i
	}
	return s
}

func vis(pub bool) string {
	if pub {
		return "pub"
	}
	return "pri"
}

func renderStruct(ss []gStruct, i int) string {
	s := ss[i]
	var b strings.Builder
	q := ""
	if s.classy {
		q = "?"
	}
	fmt.Fprintf(&b, "%s struct %s%s(\n    v : base.u32,\n", vis(s.pub), s.name, q)
	for _, f := range s.extra {
		fmt.Fprintf(&b, "    %s,\n", f)
	}
	for k, d := range s.deps {
		if s.depArr[k] {
			fmt.Fprintf(&b, "    s_%s : array[2] %s,\n", ss[d].name, ss[d].name)
		} else {
			fmt.Fprintf(&b, "    s_%s : %s,\n", ss[d].name, ss[d].name)
		}
	}
	if s.private {
		b.WriteString(") + (\n    big : array[64] base.u8,\n)\n")
	} else {
		b.WriteString(")\n")
	}
	return b.String()
}

func constExpr(t *rapid.T, consts []gConst) string {
	if len(consts) == 0 || rapid.Bool().Draw(t, "literal") {
		return fmt.Sprint(rapid.IntRange(0, 255).Draw(t, "lit"))
	}
	k := consts[rapid.IntRange(0, len(consts)-1).Draw(t, "const")]
	e := k.name
	if k.n > 0 {
		e = fmt.Sprintf("%s[%d]", k.name, rapid.IntRange(0, k.n-1).Draw(t, "index"))
	}
	switch k.elem {
	case "base.u32":
		return "(" + e + " & 0xFFFF)"
	case "base.u64":
		return "((" + e + " & 0xFFFF) as base.u32)"
	}
	return "(" + e + " as base.u32)"
}

func renderMethod(t *rapid.T, ss []gStruct, si, mi int, statuses []gStatus, consts []gConst) string {
	s := ss[si]
	m := s.methods[mi]
	var b strings.Builder
	pick := func(sigil byte) string {
		var c []string
		for _, z := range statuses {
			if z.text[0] == sigil {
				c = append(c, z.text)
			}
		}
		if len(c) == 0 {
			return ""
		}
		return c[rapid.IntRange(0, len(c)-1).Draw(t, "status")]
	}
	// callees: earlier methods of the same struct and methods of directly embedded structs
	type callee struct{ recv, name, effect string }
	var callees []callee
	for j := 0; j < mi; j++ {
		callees = append(callees, callee{"this", s.methods[j].name, s.methods[j].effect})
	}
	for k, d := range s.deps {
		if s.depArr[k] {
			continue
		}
		for _, dm := range ss[d].methods {
			callees = append(callees, callee{"this.s_" + ss[d].name, dm.name, dm.effect})
		}
	}
	call := func(effects string) *callee {
		var c []callee
		for _, x := range callees {
			if strings.Contains(effects, "["+x.effect+"]") {
				c = append(c, x)
			}
		}
		if len(c) == 0 || rapid.IntRange(0, 2).Draw(t, "call") == 0 {
			return nil
		}
		return &c[rapid.IntRange(0, len(c)-1).Draw(t, "callee")]
	}
	switch m.effect {
	case "":
		fmt.Fprintf(&b, "%s func %s.%s() base.u32 {\n", vis(m.pub), s.name, m.name)
		if c := call("[]"); c != nil {
			fmt.Fprintf(&b, "    return (%s.%s() & 0xFFFF) + %s\n", c.recv, c.name, constExpr(t, consts))
		} else {
			fmt.Fprintf(&b, "    return (this.v & 0xFFFF) + %s\n", constExpr(t, consts))
		}
	case "!":
		fmt.Fprintf(&b, "%s func %s.%s!(x: base.u32) {\n", vis(m.pub), s.name, m.name)
		fmt.Fprintf(&b, "    this.v = (args.x & 0xFFFF) + %s\n", constExpr(t, consts))
		if c := call("[][!]"); c != nil {
			if c.effect == "" {
				fmt.Fprintf(&b, "    this.v = %s.%s()\n", c.recv, c.name)
			} else {
				fmt.Fprintf(&b, "    %s.%s!(x: %s)\n", c.recv, c.name, constExpr(t, consts))
			}
		}
		if rapid.Bool().Draw(t, "loop") {
			b.WriteString("    while this.v > 10 {\n        this.v -= 10\n    }\n")
		}
	case "?":
		fmt.Fprintf(&b, "%s func %s.%s?(src: base.io_reader) {\n", vis(m.pub), s.name, m.name)
		b.WriteString("    var c : base.u8\n\n    c = args.src.read_u8?()\n")
		n := 1
		if z := pick('#'); z != "" {
			fmt.Fprintf(&b, "    if c == %d {\n        return %q\n    }\n", n, z)
			n++
		}
		if z := pick('@'); z != "" && rapid.Bool().Draw(t, "note") {
			fmt.Fprintf(&b, "    if c == %d {\n        return %q\n    }\n", n, z)
			n++
		}
		if z := pick('$'); z != "" && rapid.Bool().Draw(t, "susp") {
			fmt.Fprintf(&b, "    if c == %d {\n        yield? %q\n    }\n", n, z)
			n++
		}
		fmt.Fprintf(&b, "    this.v = (c as base.u32) + %s\n", constExpr(t, consts))
		if c := call("[][!][?]"); c != nil {
			switch c.effect {
			case "":
				fmt.Fprintf(&b, "    this.v = %s.%s()\n", c.recv, c.name)
			case "!":
				fmt.Fprintf(&b, "    %s.%s!(x: %s)\n", c.recv, c.name, constExpr(t, consts))
			case "?":
				fmt.Fprintf(&b, "    %s.%s?(src: args.src)\n", c.recv, c.name)
			}
		}
	}
	b.WriteString("}\n")
	return b.String()
}
