// Package c20 decides property C20: compilation is deterministic and the
// committed release is what the sources generate.
//
// Oracles:
//
//	(i)   `wuffs-c gen -package_name X file...` (and `wuffs-c genrelease`) yields
//	      the same exit status and byte-identical C for the same ordered file
//	      list across repeated runs under environment variation (TestStdSweep
//	      for every std package + base, TestPropPkg for generated multi-file
//	      packages);
//	(ii)  `wuffs gen` on a scratch root whose package directory enumerates its
//	      files in a non-sorted raw order produces what `wuffs-c gen` produces
//	      for the SORTED list (TestPropPkg, Case.Tool);
//	(iii) the snapshot regenerated from the tree's std/ with the tree's tools
//	      equals release/c/wuffs-unsupported-snapshot.c (TestSnapshot);
//	(iv)  lang/check/gen.go + axioms.md reproduce lang/check/data.go
//	      (TestAxioms).
//
// The tools come from vcheck's prepGen: $VERIF_BIN (wuffs, wuffs-c built from
// the tree) and $VERIF_GEN_ROOT (copy of std/ + everything `wuffs gen` made).
package c20

import (
	"bytes"
	"context"
	"crypto/sha256"
	"encoding/json"
	"fmt"
	"os"
	"os/exec"
	"path/filepath"
	"regexp"
	"sort"
	"strings"
	"sync"
	"sync/atomic"
	"syscall"
	"testing"
	"time"

	"pgregory.net/rapid"

	"verif/internal/ev"
	"verif/wgen"
)

func TestMain(m *testing.M) { ev.Main(m) }

// FileSpec is one source file of a package: generated text (Src) or a copy of
// a file of the repository (From, relative to the repository root).
type FileSpec struct {
	Name string `json:"name"`
	Src  string `json:"src,omitempty"`
	From string `json:"from,omitempty"`
}

// RunEnv is the process environment of one compiler run. "-" means unset.
type RunEnv struct {
	Procs int    `json:"gomaxprocs"`
	Cwd   string `json:"cwd"` // root | pkg | std | link | outside
	Abs   bool   `json:"abs"` // absolute file arguments (else relative to cwd)
	TZ    string `json:"tz"`
	Lang  string `json:"lang"`
	Home  string `json:"home"` // "-", "scratch" or a literal path
}

// Case fully determines one check.
//
//	which=pkg      Files are created (in the listed order) as std/<Pkg>/ of a
//	               fresh scratch root; `wuffs-c gen` runs once per Runs entry on
//	               the ordered list Order (indices into Files; empty = sorted by
//	               name); Tool adds `wuffs gen std/<Pkg>` in that root.
//	which=std      Pkg is "base" or "std/<name>" inside $VERIF_GEN_ROOT; the file
//	               list is the sorted directory listing; every run is also
//	               compared with the gen/c file that prepGen's `wuffs gen` wrote.
//	which=release  `wuffs-c genrelease` over $VERIF_GEN_ROOT/gen/c/*.c, compared
//	               with the release file `wuffs gen` wrote there.
//	which=snapshot oracle (iii); which=axioms oracle (iv).
type Case struct {
	Which    string     `json:"which"`
	Pkg      string     `json:"package,omitempty"`
	Files    []FileSpec `json:"files,omitempty"`
	Order    []int      `json:"order,omitempty"`
	Runs     []RunEnv   `json:"runs,omitempty"`
	Parallel bool       `json:"parallel,omitempty"`
	Tool     bool       `json:"tool,omitempty"`
	// Repeat > 1 executes the run list that many times. Set in the reproducer
	// of a failure found by sampling: the failure is a sample of a random event
	// (map iteration order of a fresh process), so the replay must re-sample it
	// often enough (>= 64 runs) to confirm it.
	Repeat int `json:"repeat,omitempty"`
}

// ---------------------------------------------------------------- environment

const infra = "INFRA: " // prefix of messages that are not verdicts about the property

func binDir() string  { return os.Getenv("VERIF_BIN") }
func genRoot() string { return os.Getenv("VERIF_GEN_ROOT") }

func needTools() string {
	if binDir() == "" || genRoot() == "" {
		return infra + "VERIF_BIN / VERIF_GEN_ROOT are not set (run through check.sh C20, whose prepGen builds the tools and regenerates std from the tree)"
	}
	for _, p := range []string{filepath.Join(binDir(), "wuffs"), filepath.Join(binDir(), "wuffs-c"), filepath.Join(genRoot(), "gen", "c", "wuffs-base.c")} {
		if _, err := os.Stat(p); err != nil {
			return infra + "missing " + p
		}
	}
	return ""
}

var scratchCounter int64

func newScratch() (string, error) {
	base := os.Getenv("VERIF_SCRATCH")
	if base == "" {
		base = "/var/tmp"
	}
	n := atomic.AddInt64(&scratchCounter, 1)
	dir := filepath.Join(base, fmt.Sprintf("c20-%d-%d", os.Getpid(), n))
	if err := os.MkdirAll(dir, 0o755); err != nil {
		return "", err
	}
	return dir, nil
}

// maxPar bounds the number of child processes of this test process.
var procSem = make(chan struct{}, 2)

type result struct {
	exit   int // 0 ok, 1 the tool reported an error, -1 infrastructure problem
	out    []byte
	sum    [32]byte
	stderr string
	what   string
}

func runProc(dir string, env []string, name string, args ...string) result {
	procSem <- struct{}{}
	defer func() { <-procSem }()
	ctx, cancel := context.WithTimeout(context.Background(), 5*time.Minute)
	defer cancel()
	cmd := exec.CommandContext(ctx, name, args...)
	cmd.Dir = dir
	cmd.Env = env
	cmd.SysProcAttr = &syscall.SysProcAttr{Setpgid: true}
	cmd.Cancel = func() error { return syscall.Kill(-cmd.Process.Pid, syscall.SIGKILL) }
	var so, se bytes.Buffer
	cmd.Stdout, cmd.Stderr = &so, &se
	err := cmd.Run()
	r := result{out: so.Bytes(), stderr: se.String()}
	r.sum = sha256.Sum256(r.out)
	switch e := err.(type) {
	case nil:
	case *exec.ExitError:
		if ctx.Err() != nil || !e.Exited() {
			r.exit = -1
			r.stderr = "killed/time-out: " + err.Error() + "\n" + r.stderr
		} else {
			r.exit = e.ExitCode()
		}
	default:
		r.exit = -1
		r.stderr = err.Error()
	}
	return r
}

func (e RunEnv) environ(scratch string) []string {
	env := []string{"PATH=" + binDir() + ":/usr/local/bin:/usr/bin:/bin", fmt.Sprintf("GOMAXPROCS=%d", e.Procs)}
	if e.TZ != "-" && e.TZ != "" {
		env = append(env, "TZ="+e.TZ)
	}
	if e.Lang != "-" && e.Lang != "" {
		env = append(env, "LANG="+e.Lang, "LC_ALL="+e.Lang)
	}
	switch e.Home {
	case "-", "":
	case "scratch":
		env = append(env, "HOME="+scratch)
	default:
		env = append(env, "HOME="+e.Home)
	}
	return env
}

func (e RunEnv) String() string {
	b, _ := json.Marshal(e)
	return string(b)
}

// layout describes where one package lives.
type layout struct {
	scratch string // a directory outside root, without a wuffs root above it
	root    string
	link    string // symlink to root ("" if none)
	pkgDir  string // root-relative directory of the package ("" for base)
	hasUse  bool
}

func (l layout) cwd(kind string) (dir, rootSeenFromCwd string) {
	switch kind {
	case "pkg":
		if l.pkgDir != "" {
			return filepath.Join(l.root, l.pkgDir), l.root
		}
	case "std":
		return filepath.Join(l.root, "std"), l.root
	case "link":
		if l.link != "" {
			return l.link, l.link
		}
	case "outside":
		if !l.hasUse { // `use` is resolved through the root found from the working directory
			return l.scratch, l.root
		}
	}
	return l.root, l.root
}

// fileArgs turns root-relative names into command line arguments.
func fileArgs(l layout, e RunEnv, rel []string) (dir string, args []string, err error) {
	dir, root := l.cwd(e.Cwd)
	for _, r := range rel {
		abs := filepath.Join(root, r)
		if e.Abs {
			args = append(args, abs)
			continue
		}
		p, err := filepath.Rel(dir, abs)
		if err != nil {
			return "", nil, err
		}
		args = append(args, p)
	}
	return dir, args, nil
}

func firstDiff(a, b []byte) string {
	la, lb := bytes.Split(a, []byte("\n")), bytes.Split(b, []byte("\n"))
	n := min(len(la), len(lb))
	ndiff, first := 0, -1
	for i := 0; i < n; i++ {
		if !bytes.Equal(la[i], lb[i]) {
			if first < 0 {
				first = i
			}
			ndiff++
		}
	}
	clip := func(s []byte) string {
		if len(s) > 160 {
			return string(s[:160]) + "…"
		}
		return string(s)
	}
	if first < 0 {
		if len(la) == len(lb) {
			return "identical"
		}
		return fmt.Sprintf("one is a prefix of the other: %d vs %d lines", len(la), len(lb))
	}
	return fmt.Sprintf("first difference at line %d (%d of the first %d lines differ; %d vs %d lines)\n  A: %s\n  B: %s",
		first+1, ndiff, n, len(la), len(lb), clip(la[first]), clip(lb[first]))
}

var declRE = regexp.MustCompile(`(?m)^(pub|pri) (status|const|struct) `)
var useRE = regexp.MustCompile(`(?m)^use "`)

// compare judges a set of results of the same command line (up to environment).
func compare(what string, ref *result, refName string, rs []result, envs []RunEnv) string {
	for i, r := range rs {
		if r.exit < 0 {
			return infra + what + " run " + envs[i].String() + ": " + r.stderr
		}
	}
	base, baseName := ref, refName
	if base == nil {
		base, baseName = &rs[0], "run 0 "+envs[0].String()
	}
	for i := range rs {
		r := &rs[i]
		if r.exit != base.exit {
			return fmt.Sprintf("%s: exit status differs between runs of the same ordered file list: %d (%s) vs %d (run %d %s)\nstderr A: %s\nstderr B: %s",
				what, base.exit, baseName, r.exit, i, envs[i], tailStr(base.stderr), tailStr(r.stderr))
		}
		if r.sum != base.sum {
			return fmt.Sprintf("%s: output differs between runs of the same ordered file list: sha256 %x (%s) vs %x (run %d %s)\n%s",
				what, base.sum[:8], baseName, r.sum[:8], i, envs[i], firstDiff(base.out, r.out))
		}
	}
	return ""
}

func tailStr(s string) string {
	if len(s) > 600 {
		s = "…" + s[len(s)-600:]
	}
	return strings.TrimSpace(s)
}

// runAll executes f for every run, serially or two at a time.
func runAll(n int, parallel bool, f func(i int) result) []result {
	rs := make([]result, n)
	if !parallel {
		for i := 0; i < n; i++ {
			rs[i] = f(i)
		}
		return rs
	}
	var wg sync.WaitGroup
	for i := 0; i < n; i++ {
		wg.Add(1)
		go func(i int) { defer wg.Done(); rs[i] = f(i) }(i)
	}
	wg.Wait()
	return rs
}

// ---------------------------------------------------------------- the oracle

func (c Case) runList() []RunEnv {
	out := append([]RunEnv{}, c.Runs...)
	for i := 1; i < c.Repeat && len(out) < 4096; i++ {
		out = append(out, c.Runs...)
	}
	return out
}

// checkCase is the oracle. msg == "" means the property held on this case.
func checkCase(c Case) (msg string, nontrivial bool, classes []string) {
	defer func() {
		if r := recover(); r != nil {
			msg = infra + fmt.Sprint("harness panic: ", r)
		}
	}()
	switch c.Which {
	case "snapshot":
		return checkSnapshot(), false, []string{"oracle:snapshot"}
	case "axioms":
		return checkAxioms(), false, []string{"oracle:axioms"}
	}
	if m := needTools(); m != "" {
		return m, false, nil
	}
	switch c.Which {
	case "std":
		return checkStd(c)
	case "release":
		return checkRelease(c)
	case "pkg":
		return checkPkg(c)
	}
	return infra + "unknown case kind " + c.Which, false, nil
}

func envClasses(prefix string, l layout, runs []RunEnv, parallel bool) []string {
	var cl []string
	for _, e := range runs {
		cwd := e.Cwd // the effective kind (see layout.cwd)
		if d, _ := l.cwd(e.Cwd); d == l.root {
			cwd = "root"
		}
		cl = append(cl, fmt.Sprintf("env:gomaxprocs=%d", e.Procs), "env:cwd="+cwd, "env:tz="+e.TZ, "env:lang="+e.Lang)
		if e.Abs {
			cl = append(cl, "env:paths=abs")
		} else {
			cl = append(cl, "env:paths=rel")
		}
		if e.Home == "-" {
			cl = append(cl, "env:home=unset")
		} else {
			cl = append(cl, "env:home=set")
		}
		if parallel {
			cl = append(cl, "env:invocation=parallel")
		} else {
			cl = append(cl, "env:invocation=serial")
		}
		cl = append(cl, prefix+":runs")
	}
	return cl
}

func stdFiles(pkg string) (rel []string, src [][]byte, err error) {
	if pkg == "base" {
		return nil, nil, nil
	}
	dir := filepath.Join(genRoot(), filepath.FromSlash(pkg))
	ents, err := os.ReadDir(dir) // sorted by name
	if err != nil {
		return nil, nil, err
	}
	for _, e := range ents {
		if e.IsDir() || !strings.HasSuffix(e.Name(), ".wuffs") {
			continue
		}
		b, err := os.ReadFile(filepath.Join(dir, e.Name()))
		if err != nil {
			return nil, nil, err
		}
		rel = append(rel, pkg+"/"+e.Name())
		src = append(src, b)
	}
	return rel, src, nil
}

func pkgStats(srcs [][]byte) (files, decls int, hasUse bool) {
	for _, s := range srcs {
		files++
		decls += len(declRE.FindAll(s, -1))
		if useRE.Match(s) {
			hasUse = true
		}
	}
	return
}

var linkOnce sync.Once
var genRootLink, genRootScratch string

func stdLayout() (string, string) {
	linkOnce.Do(func() {
		d, err := newScratch()
		if err != nil {
			return
		}
		genRootScratch = d
		l := filepath.Join(d, "rootlink")
		if os.Symlink(genRoot(), l) == nil {
			genRootLink = l
		}
	})
	return genRootScratch, genRootLink
}

func checkStd(c Case) (msg string, nontrivial bool, classes []string) {
	rel, srcs, err := stdFiles(c.Pkg)
	if err != nil {
		return infra + err.Error(), false, nil
	}
	if c.Pkg != "base" && len(rel) == 0 {
		return infra + "no .wuffs files in " + c.Pkg, false, nil
	}
	nf, nd, hasUse := pkgStats(srcs)
	scratch, link := stdLayout()
	if scratch == "" {
		return infra + "cannot make scratch directory", false, nil
	}
	l := layout{scratch: scratch, root: genRoot(), link: link, pkgDir: c.Pkg, hasUse: hasUse}
	if c.Pkg == "base" {
		l.pkgDir = ""
	}
	name := filepath.Base(c.Pkg)
	runs := c.runList()
	rs := runAll(len(runs), c.Parallel, func(i int) result {
		dir, fa, err := fileArgs(l, runs[i], rel)
		if err != nil {
			return result{exit: -1, stderr: err.Error()}
		}
		args := append([]string{"gen", "-package_name", name}, fa...)
		return runProc(dir, runs[i].environ(scratch), filepath.Join(binDir(), "wuffs-c"), args...)
	})
	refPath := filepath.Join(genRoot(), "gen", "c", "wuffs-"+strings.ReplaceAll(c.Pkg, "/", "-")+".c")
	rb, err := os.ReadFile(refPath)
	if err != nil {
		return infra + err.Error(), false, nil
	}
	ref := &result{out: rb, sum: sha256.Sum256(rb)}
	if m := compare("wuffs-c gen "+c.Pkg, ref, "what `wuffs gen` wrote to gen/c when the tree was prepared", rs, runs); m != "" {
		return m, false, nil
	}
	classes = append(envClasses("std", l, runs, c.Parallel), "kind:std-package")
	return "", nf >= 2 && nd >= 3, classes
}

func checkRelease(c Case) (msg string, nontrivial bool, classes []string) {
	dir := filepath.Join(genRoot(), "gen", "c")
	ents, err := os.ReadDir(dir)
	if err != nil {
		return infra + err.Error(), false, nil
	}
	var rel []string
	for _, e := range ents {
		if strings.HasSuffix(e.Name(), ".c") {
			rel = append(rel, "gen/c/"+e.Name())
		}
	}
	scratch, link := stdLayout()
	l := layout{scratch: scratch, root: genRoot(), link: link, pkgDir: "gen"}
	runs := c.runList()
	rs := runAll(len(runs), c.Parallel, func(i int) result {
		dir, fa, err := fileArgs(l, runs[i], rel)
		if err != nil {
			return result{exit: -1, stderr: err.Error()}
		}
		// exactly what cmd/wuffs/release.go passes outside a git repository
		args := append([]string{"genrelease", "-revision", "", "-commitdate", "", "-version", "0.0.0"}, fa...)
		return runProc(dir, runs[i].environ(scratch), filepath.Join(binDir(), "wuffs-c"), args...)
	})
	rb, err := os.ReadFile(filepath.Join(genRoot(), "release", "c", "wuffs-unsupported-snapshot.c"))
	if err != nil {
		return infra + err.Error(), false, nil
	}
	ref := &result{out: rb, sum: sha256.Sum256(rb)}
	if m := compare("wuffs-c genrelease", ref, "the release file `wuffs gen` wrote when the tree was prepared", rs, runs); m != "" {
		return m, false, nil
	}
	return "", false, append(envClasses("release", l, runs, c.Parallel), "kind:release-assembly")
}

func validFileName(s string) bool {
	if s == "" || s == "." || s == ".." || len(s) > 64 {
		return false
	}
	for _, r := range s {
		if !(r >= 'a' && r <= 'z' || r >= 'A' && r <= 'Z' || r >= '0' && r <= '9' || r == '_' || r == '-' || r == '.' || r == '~') {
			return false
		}
	}
	return true
}

func checkPkg(c Case) (msg string, nontrivial bool, classes []string) {
	if len(c.Pkg) == 0 || len(c.Pkg) > 20 {
		return infra + "bad package name", false, nil
	}
	for _, r := range c.Pkg {
		if !(r >= 'a' && r <= 'z' || r >= '0' && r <= '9') {
			return infra + "bad package name", false, nil
		}
	}
	scratch, err := newScratch()
	if err != nil {
		return infra + err.Error(), false, nil
	}
	defer os.RemoveAll(scratch)
	root := filepath.Join(scratch, "root")
	pkgRel := "std/" + c.Pkg
	pkgDir := filepath.Join(root, "std", c.Pkg)
	if err := os.MkdirAll(pkgDir, 0o755); err != nil {
		return infra + err.Error(), false, nil
	}
	if err := os.WriteFile(filepath.Join(root, "wuffs-root-directory.txt"), []byte("scratch root\n"), 0o644); err != nil {
		return infra + err.Error(), false, nil
	}
	link := filepath.Join(scratch, "rootlink")
	if os.Symlink(root, link) != nil {
		link = ""
	}
	// create the files in the listed order
	seen := map[string]bool{}
	var srcIdx []int // indices of .wuffs files
	contents := make([][]byte, len(c.Files))
	for i, f := range c.Files {
		if !validFileName(f.Name) || seen[f.Name] {
			return infra + "bad or duplicate file name " + f.Name, false, nil
		}
		seen[f.Name] = true
		b := []byte(f.Src)
		if f.From != "" {
			if b, err = os.ReadFile(filepath.Join(ev.RepoRoot(), filepath.FromSlash(f.From))); err != nil {
				return infra + err.Error(), false, nil
			}
		}
		contents[i] = b
		if err := os.WriteFile(filepath.Join(pkgDir, f.Name), b, 0o644); err != nil {
			return infra + err.Error(), false, nil
		}
		if strings.HasSuffix(f.Name, ".wuffs") {
			srcIdx = append(srcIdx, i)
		}
	}
	if len(srcIdx) == 0 {
		return infra + "no source files", false, nil
	}
	sorted := append([]int{}, srcIdx...)
	sort.Slice(sorted, func(a, b int) bool { return c.Files[sorted[a]].Name < c.Files[sorted[b]].Name })
	order := sorted
	permuted := false
	if len(c.Order) > 0 {
		order = nil
		used := map[int]bool{}
		for _, k := range c.Order {
			if k < 0 || k >= len(c.Files) || used[k] || !strings.HasSuffix(c.Files[k].Name, ".wuffs") {
				return infra + "bad order", false, nil
			}
			used[k] = true
			order = append(order, k)
		}
		if len(order) != len(srcIdx) {
			return infra + "order is not a permutation of the source files", false, nil
		}
		for i := range order {
			if order[i] != sorted[i] {
				permuted = true
			}
		}
	}
	relOf := func(idx []int) (rel []string, srcs [][]byte) {
		for _, k := range idx {
			rel = append(rel, pkgRel+"/"+c.Files[k].Name)
			srcs = append(srcs, contents[k])
		}
		return
	}
	rel, srcs := relOf(order)
	nf, nd, hasUse := pkgStats(srcs)
	if hasUse {
		return infra + "which=pkg does not support `use`", false, nil
	}
	l := layout{scratch: scratch, root: root, link: link, pkgDir: pkgRel}
	wuffsc := filepath.Join(binDir(), "wuffs-c")

	// (i) repeated runs on the ordered list
	runs := c.runList()
	if len(runs) == 0 {
		return infra + "no runs", false, nil
	}
	rs := runAll(len(runs), c.Parallel, func(i int) result {
		dir, fa, err := fileArgs(l, runs[i], rel)
		if err != nil {
			return result{exit: -1, stderr: err.Error()}
		}
		return runProc(dir, runs[i].environ(scratch), wuffsc, append([]string{"gen", "-package_name", c.Pkg}, fa...)...)
	})
	if m := compare("wuffs-c gen (package "+c.Pkg+", "+fmt.Sprint(rel)+")", nil, "", rs, runs); m != "" {
		return m, false, nil
	}
	classes = envClasses("pkg", l, runs, c.Parallel)
	wgenProgram := len(c.Files) == 1 && c.Files[0].Name == "foo.wuffs" && c.Pkg == "foo"
	if c.Files[srcIdx[0]].From != "" {
		classes = append(classes, "kind:std-copy")
	} else if wgenProgram {
		classes = append(classes, "kind:wgen-program")
	} else {
		classes = append(classes, "kind:generated")
	}
	if permuted {
		classes = append(classes, "order:permuted")
	} else {
		classes = append(classes, "order:sorted")
	}
	if rs[0].exit != 0 {
		// the compiler rejects the program (consistently): discard
		rejectNote(rs[0].stderr)
		return "", false, append(classes, "gen:rejected")
	}
	classes = append(classes, "gen:accepted", fmt.Sprintf("files:%d", min(nf, 6)), fmt.Sprintf("decls:%s", bucket(nd)))
	classes = append(classes, shapeClasses(srcs, rs[0].out, c.Pkg)...)
	nontrivial = (nf >= 2 || wgenProgram) && nd >= 3

	if !c.Tool {
		return "", nontrivial, classes
	}
	// (ii) the build tool: raw directory order vs sorted order
	f, err := os.Open(pkgDir)
	if err != nil {
		return infra + err.Error(), false, nil
	}
	raw, err := f.Readdirnames(-1)
	f.Close()
	if err != nil {
		return infra + err.Error(), false, nil
	}
	var rawSrc, sortedNames []string
	for _, n := range raw {
		if strings.HasSuffix(n, ".wuffs") {
			rawSrc = append(rawSrc, n)
		}
	}
	for _, k := range sorted {
		sortedNames = append(sortedNames, c.Files[k].Name)
	}
	if len(rawSrc) != len(sortedNames) {
		return infra + "directory listing lost files", false, nil
	}
	if strings.Join(rawSrc, "/") == strings.Join(sortedNames, "/") {
		classes = append(classes, "dir:raw-order-equals-sorted(vacuous)")
	} else {
		classes = append(classes, "dir:raw-order-differs-from-sorted")
	}
	want := rs[0]
	if permuted {
		relS, _ := relOf(sorted)
		dir, fa, err := fileArgs(l, runs[0], relS)
		if err != nil {
			return infra + err.Error(), false, nil
		}
		want = runProc(dir, runs[0].environ(scratch), wuffsc, append([]string{"gen", "-package_name", c.Pkg}, fa...)...)
		if want.exit != 0 {
			if want.exit < 0 {
				return infra + want.stderr, false, nil
			}
			rejectNote(want.stderr)
			return "", false, append(classes, "gen:sorted-order-rejected")
		}
	}
	te := runs[len(runs)-1]
	tdir, _ := l.cwd(te.Cwd)
	if te.Cwd == "outside" {
		tdir = root
	}
	tr := runProc(tdir, te.environ(scratch), filepath.Join(binDir(), "wuffs"), "gen", pkgRel)
	if tr.exit < 0 {
		return infra + "wuffs gen: " + tr.stderr, false, nil
	}
	if tr.exit != 0 {
		return fmt.Sprintf("`wuffs gen %s` fails (exit %d) on a package that `wuffs-c gen` accepts for the sorted file list %v; raw directory order %v\nstderr: %s",
			pkgRel, tr.exit, sortedNames, rawSrc, tailStr(tr.stderr)), false, nil
	}
	got, err := os.ReadFile(filepath.Join(root, "gen", "c", "wuffs-std-"+c.Pkg+".c"))
	if err != nil {
		return "`wuffs gen` succeeded but wrote no gen/c file: " + err.Error(), false, nil
	}
	if !bytes.Equal(got, want.out) {
		return fmt.Sprintf("`wuffs gen %s` (raw directory order %v) does not produce what `wuffs-c gen` produces for the sorted file list %v\n%s",
			pkgRel, rawSrc, sortedNames, firstDiff(want.out, got)), false, nil
	}
	classes = append(classes, "tool:wuffs-gen-runs")
	return "", nontrivial, classes
}

func bucket(n int) string {
	switch {
	case n < 3:
		return "0-2"
	case n < 6:
		return "3-5"
	case n < 10:
		return "6-9"
	case n < 20:
		return "10-19"
	}
	return "20+"
}

var (
	structRE  = regexp.MustCompile(`(?m)^(pub|pri) struct `)
	statusRE  = regexp.MustCompile(`(?m)^(pub|pri) status `)
	constRE   = regexp.MustCompile(`(?m)^(pub|pri) const `)
	funcRE    = regexp.MustCompile(`(?m)^(pub|pri) func `)
	structDef = regexp.MustCompile(`(?m)^struct wuffs_[a-z0-9]+__([a-z0-9_]+)__struct \{`)
	structSrc = regexp.MustCompile(`(?m)^(?:pub|pri) struct ([a-z0-9_]+)`)
)

// shapeClasses measures what could be order sensitive; "topo:reordered" means
// the generated C defines the structs in an order different from source order.
func shapeClasses(srcs [][]byte, out []byte, pkg string) []string {
	all := bytes.Join(srcs, []byte("\n"))
	ns, nst, nc, nfn := len(structRE.FindAll(all, -1)), len(statusRE.FindAll(all, -1)), len(constRE.FindAll(all, -1)), len(funcRE.FindAll(all, -1))
	cl := []string{fmt.Sprintf("structs:%d", min(ns, 6)), "statuses:" + bucket(nst), "consts:" + bucket(nc), "funcs:" + bucket(nfn)}
	var srcOrder, cOrder []string
	for _, m := range structSrc.FindAllSubmatch(all, -1) {
		srcOrder = append(srcOrder, string(m[1]))
	}
	for _, m := range structDef.FindAllSubmatch(out, -1) {
		cOrder = append(cOrder, string(m[1]))
	}
	if len(srcOrder) >= 2 && len(srcOrder) == len(cOrder) {
		if strings.Join(srcOrder, ",") != strings.Join(cOrder, ",") {
			cl = append(cl, "topo:reordered-by-dependencies")
		} else {
			cl = append(cl, "topo:source-order")
		}
	}
	return cl
}

var rejectMu sync.Mutex
var rejectSeen = map[string]bool{}

func rejectNote(stderr string) {
	s := strings.TrimSpace(stderr)
	if i := strings.LastIndexByte(s, '\n'); i >= 0 {
		s = s[i+1:]
	}
	s = regexp.MustCompile(` at [^ ]*:[0-9]+.*$`).ReplaceAllString(s, "")
	s = regexp.MustCompile(`/[^ ]*/`).ReplaceAllString(s, "")
	if len(s) > 200 {
		s = s[:200]
	}
	rejectMu.Lock()
	defer rejectMu.Unlock()
	if !rejectSeen[s] && len(rejectSeen) < 8 {
		rejectSeen[s] = true
		ev.Note("generated package rejected by wuffs-c: " + s)
	}
}

// ---------------------------------------------------------------- (iii), (iv)

func checkSnapshot() string {
	if genRoot() == "" {
		return infra + "VERIF_GEN_ROOT is not set"
	}
	gen, err := os.ReadFile(filepath.Join(genRoot(), "release", "c", "wuffs-unsupported-snapshot.c"))
	if err != nil {
		return infra + err.Error()
	}
	committed, err := os.ReadFile(filepath.Join(ev.RepoRoot(), "release", "c", "wuffs-unsupported-snapshot.c"))
	if err != nil {
		return "the committed release file cannot be read: " + err.Error()
	}
	if bytes.Equal(gen, committed) {
		return ""
	}
	return fmt.Sprintf("regenerating std/ with the tree's own wuffs/wuffs-c does not reproduce release/c/wuffs-unsupported-snapshot.c (A = regenerated, %d bytes, sha256 %x; B = committed, %d bytes, sha256 %x)\n%s",
		len(gen), sha256.Sum256(gen), len(committed), sha256.Sum256(committed), firstDiff(gen, committed))
}

func hostEnv(extra ...string) []string {
	env := []string{}
	for _, e := range os.Environ() {
		if strings.HasPrefix(e, "GOFLAGS=") || strings.HasPrefix(e, "GOPROXY=") || strings.HasPrefix(e, "GO111MODULE=") {
			continue
		}
		env = append(env, e)
	}
	return append(append(env, "GOFLAGS=-mod=mod", "GOPROXY=off", "GOSUMDB=off", "GOTOOLCHAIN=local"), extra...)
}

func checkAxioms() string {
	scratch, err := newScratch()
	if err != nil {
		return infra + err.Error()
	}
	defer os.RemoveAll(scratch)
	src := filepath.Join(ev.RepoRoot(), "lang", "check")
	committed, err := os.ReadFile(filepath.Join(src, "data.go"))
	if err != nil {
		return "lang/check/data.go cannot be read: " + err.Error()
	}
	genGo, err := os.ReadFile(filepath.Join(src, "gen.go"))
	if err != nil {
		return "lang/check/gen.go cannot be read: " + err.Error()
	}
	axioms, err := os.ReadFile(filepath.Join(src, "axioms.md"))
	if err != nil {
		return "lang/check/axioms.md cannot be read: " + err.Error()
	}
	build := filepath.Join(scratch, "build")
	os.MkdirAll(build, 0o755)
	os.WriteFile(filepath.Join(build, "gen.go"), genGo, 0o644)
	exe := filepath.Join(scratch, "axiomgen")
	// `go run gen.go` (the go:generate line of lang/check/check.go) = build + run in the package directory.
	if r := runProc(build, hostEnv(), "go", "build", "-o", exe, "gen.go"); r.exit != 0 {
		if r.exit < 0 {
			return infra + "go build gen.go: " + r.stderr
		}
		return "lang/check/gen.go does not build: " + tailStr(r.stderr)
	}
	for i, procs := range []int{1, 4, 16} {
		dir := filepath.Join(scratch, fmt.Sprintf("run%d", i))
		os.MkdirAll(dir, 0o755)
		os.WriteFile(filepath.Join(dir, "axioms.md"), axioms, 0o644)
		r := runProc(dir, []string{"PATH=/usr/bin:/bin", fmt.Sprintf("GOMAXPROCS=%d", procs)}, exe)
		if r.exit < 0 {
			return infra + "axiom generator: " + r.stderr
		}
		if r.exit != 0 {
			return fmt.Sprintf("lang/check/gen.go fails on lang/check/axioms.md (exit %d): %s", r.exit, tailStr(r.stderr))
		}
		got, err := os.ReadFile(filepath.Join(dir, "data.go"))
		if err != nil {
			return "lang/check/gen.go wrote no data.go: " + err.Error()
		}
		ev.Class("axioms:generator-runs")
		if !bytes.Equal(got, committed) {
			return fmt.Sprintf("lang/check/data.go is not what lang/check/gen.go generates from lang/check/axioms.md (run %d, GOMAXPROCS=%d; A = generated, %d bytes; B = committed, %d bytes)\n%s",
				i, procs, len(got), len(committed), firstDiff(got, committed))
		}
	}
	return ""
}

// ---------------------------------------------------------------- generators

var (
	procsPool = []int{1, 4, 16}
	cwdPool   = []string{"root", "pkg", "std", "link", "outside"}
	tzPool    = []string{"-", "UTC", "Asia/Kolkata", "America/Los_Angeles", "Pacific/Chatham"}
	langPool  = []string{"-", "C", "en_US.UTF-8", "de_DE.UTF-8", "tr_TR.UTF-8"}
	homePool  = []string{"-", "scratch", "/nonexistent", "/"}
)

// drawRuns draws n environments; GOMAXPROCS and the working directory kind
// cycle (from a drawn offset) so that every value occurs once n >= 5.
func drawRuns(t *rapid.T, n int) []RunEnv {
	po := rapid.IntRange(0, len(procsPool)-1).Draw(t, "procs_offset")
	co := rapid.IntRange(0, len(cwdPool)-1).Draw(t, "cwd_offset")
	runs := make([]RunEnv, n)
	for i := range runs {
		runs[i] = RunEnv{
			Procs: procsPool[(po+i)%len(procsPool)],
			Cwd:   cwdPool[(co+i)%len(cwdPool)],
			Abs:   rapid.Bool().Draw(t, "abs"),
			TZ:    rapid.SampledFrom(tzPool).Draw(t, "tz"),
			Lang:  rapid.SampledFrom(langPool).Draw(t, "lang"),
			Home:  rapid.SampledFrom(homePool).Draw(t, "home"),
		}
	}
	return runs
}

// drawParallel: three in four run lists are executed two processes at a time.
func drawParallel(t *rapid.T) bool { return rapid.IntRange(0, 3).Draw(t, "parallel") > 0 }

func stdPackages() ([]string, error) {
	ents, err := os.ReadDir(filepath.Join(genRoot(), "std"))
	if err != nil {
		return nil, err
	}
	pk := []string{"base"}
	for _, e := range ents {
		if !e.IsDir() {
			continue
		}
		m, _ := filepath.Glob(filepath.Join(genRoot(), "std", e.Name(), "*.wuffs"))
		if len(m) > 0 {
			pk = append(pk, "std/"+e.Name())
		}
	}
	return pk, nil
}

func caseHash(c Case) uint64 {
	parts := []any{c.Which, c.Pkg}
	switch c.Which {
	case "std":
		rel, srcs, _ := stdFiles(c.Pkg)
		for i := range rel {
			parts = append(parts, rel[i], srcs[i])
		}
	case "pkg":
		idx := c.Order
		if len(idx) == 0 {
			for i, f := range c.Files {
				if strings.HasSuffix(f.Name, ".wuffs") {
					idx = append(idx, i)
				}
			}
			sort.Slice(idx, func(a, b int) bool { return c.Files[idx[a]].Name < c.Files[idx[b]].Name })
		}
		for _, k := range idx {
			if k >= 0 && k < len(c.Files) {
				parts = append(parts, c.Files[k].Name, c.Files[k].Src, c.Files[k].From)
			}
		}
	}
	return ev.Hash(parts...)
}

func sample(c Case) any {
	s := map[string]any{"which": c.Which, "package": c.Pkg, "runs": len(c.Runs)}
	var names []string
	for _, f := range c.Files {
		names = append(names, f.Name)
	}
	if c.Which == "std" {
		rel, _, _ := stdFiles(c.Pkg)
		names = rel
	}
	s["files"] = names
	return s
}

func runCase(t interface {
	Fatalf(string, ...any)
}, c Case) {
	msg, nontrivial, classes := checkCase(c)
	ev.EvalN(max(1, len(c.Runs)))
	if strings.HasPrefix(msg, infra) {
		t.Fatalf("%s", msg) // no reproducer: vcheck reports the shard as inconclusive
	}
	if msg != "" {
		fc := c
		if n := len(c.Runs); n > 0 && c.Repeat <= 1 {
			fc.Repeat = (64 + n - 1) / n
		}
		ev.Fail("C20", c.Which, fc, msg)
		t.Fatalf("C20 violated (%s %s): %s", c.Which, c.Pkg, msg)
	}
	for _, cl := range classes {
		ev.Class(cl)
	}
	if nontrivial {
		ev.Nontrivial(caseHash(c), func() any { return sample(c) })
	}
}

// TestStdSweep: oracle (i) for every std package, base and the release
// assembly: VERIF_C20_REPS runs per package in this shard, each compared with
// the shard-independent reference that prepGen's `wuffs gen` produced.
func TestStdSweep(t *testing.T) {
	if m := needTools(); m != "" {
		t.Fatalf("%s", m)
	}
	pkgs, err := stdPackages()
	if err != nil {
		t.Fatalf("%s%v", infra, err)
	}
	reps := ev.EnvInt("VERIF_C20_REPS", 4)
	rapid.Check(t, func(rt *rapid.T) {
		for _, p := range pkgs {
			c := Case{Which: "std", Pkg: p, Runs: drawRuns(rt, reps), Parallel: drawParallel(rt)}
			runCase(rt, c)
		}
		c := Case{Which: "release", Runs: drawRuns(rt, reps), Parallel: drawParallel(rt)}
		for i := range c.Runs {
			if c.Runs[i].Cwd == "pkg" { // genrelease needs a directory component in front of wuffs-base.c
				c.Runs[i].Cwd = "root"
			}
		}
		runCase(rt, c)
	})
}

// TestPropPkg: oracles (i) and (ii) on generated multi-file packages and on
// shuffled-creation copies of std packages that have no `use`.
func TestPropPkg(t *testing.T) {
	if m := needTools(); m != "" {
		t.Fatalf("%s", m)
	}
	reps := ev.EnvInt("VERIF_C20_GRUNS", 6)
	stdNoUse, err := stdNoUsePackages()
	if err != nil {
		t.Fatalf("%s%v", infra, err)
	}
	rapid.Check(t, func(rt *rapid.T) {
		var c Case
		switch src := rapid.IntRange(0, 9).Draw(rt, "source"); {
		case len(stdNoUse) > 0 && src == 0:
			c = drawStdCopy(rt, stdNoUse)
		case src <= 3:
			// a program of the E2 generator (go/wgen): one struct, but every statement and expression shape the other
			// checks use - coroutines, I/O helpers with several stream arguments, iterate, io_bind/io_limit, labelled
			// loops, constants - so that output paths of the code generator that declaration-only packages never reach
			// are compiled repeatedly too (a rejected program must be rejected with the same message every time)
			pr := wgen.Gen(rt, "foo", &wgen.Options{})
			c = Case{Pkg: "foo", Files: []FileSpec{{Name: "foo.wuffs", Src: pr.Src}}}
		default:
			c = drawGenerated(rt)
		}
		c.Which = "pkg"
		c.Runs = drawRuns(rt, reps)
		c.Parallel = drawParallel(rt)
		c.Tool = rapid.IntRange(0, 9).Draw(rt, "tool") < 6
		runCase(rt, c)
	})
}

func TestSnapshot(t *testing.T) { runCase(t, Case{Which: "snapshot"}) }
func TestAxioms(t *testing.T)   { runCase(t, Case{Which: "axioms"}) }

func TestReplay(t *testing.T) {
	path := ev.ReplayPath()
	if path == "" {
		t.Skip("no VERIF_REPLAY")
	}
	r, err := ev.LoadReplay(path)
	if err != nil {
		t.Fatalf("%v", err)
	}
	var c Case
	if err := json.Unmarshal(r.Case, &c); err != nil {
		t.Fatalf("bad case: %v", err)
	}
	if c.Which == "" {
		c.Which = r.Kind
	}
	msg, nontrivial, classes := checkCase(c)
	if msg != "" {
		t.Fatalf("C20 violated (%s %s): %s", c.Which, c.Pkg, msg)
	}
	t.Logf("property holds; non-trivial=%v classes=%v", nontrivial, dedup(classes))
}

func dedup(s []string) []string {
	seen := map[string]bool{}
	var out []string
	for _, x := range s {
		if !seen[x] {
			seen[x] = true
			out = append(out, x)
		}
	}
	sort.Strings(out)
	return out
}

type stdPkg struct {
	name  string
	files []string
}

func stdNoUsePackages() ([]stdPkg, error) {
	pkgs, err := stdPackages()
	if err != nil {
		return nil, err
	}
	var out []stdPkg
	for _, p := range pkgs {
		if p == "base" {
			continue
		}
		rel, srcs, err := stdFiles(p)
		if err != nil {
			return nil, err
		}
		if _, _, use := pkgStats(srcs); use || len(rel) < 2 {
			continue
		}
		sp := stdPkg{name: filepath.Base(p)}
		for _, r := range rel {
			sp.files = append(sp.files, filepath.Base(r))
		}
		out = append(out, sp)
	}
	return out, nil
}

func drawStdCopy(t *rapid.T, pool []stdPkg) Case {
	p := pool[rapid.IntRange(0, len(pool)-1).Draw(t, "stdpkg")]
	perm := rapid.Permutation(p.files).Draw(t, "creation_order")
	c := Case{Pkg: p.name}
	for _, f := range perm {
		c.Files = append(c.Files, FileSpec{Name: f, From: "std/" + p.name + "/" + f})
	}
	return c
}
