package wgen

import (
	"fmt"
	"os"
	"regexp"
	"sort"
	"testing"

	"pgregory.net/rapid"
	"verif/winterp"
)

func TestAcceptance(t *testing.T) {
	if os.Getenv("WGEN_DEV") == "" {
		t.Skip()
	}
	errs := map[string]int{}
	ex := map[string]string{}
	n, ok := 0, 0
	lineRE := regexp.MustCompile(`at [^ ]*:(\d+)`)
	rapid.Check(t, func(t *rapid.T) {
		p := Gen(t, "foo", &Options{})
		n++
		_, err := winterp.Load("foo", []byte(p.Src))
		if err == nil {
			ok++
			return
		}
		msg := err.Error()
		key := regexp.MustCompile(`"[^"]*"|\d+|at .*`).ReplaceAllString(msg, "_")
		if len(key) > 90 {
			key = key[:90]
		}
		errs[key]++
		if _, has := ex[key]; !has {
			line := ""
			if m := lineRE.FindStringSubmatch(msg); m != nil {
				var ln int
				fmt.Sscan(m[1], &ln)
				ls := regexp.MustCompile("\n").Split(p.Src, -1)
				if ln-1 < len(ls) && ln >= 1 {
					line = ls[ln-1]
				}
			}
			ex[key] = msg + "\n      LINE: " + line
		}
	})
	fmt.Printf("accepted %d of %d\n", ok, n)
	var keys []string
	for k := range errs {
		keys = append(keys, k)
	}
	sort.Slice(keys, func(i, j int) bool { return errs[keys[i]] > errs[keys[j]] })
	for i, k := range keys {
		if i < 14 {
			fmt.Printf("%4d %s\n      e.g. %s\n", errs[k], k, ex[k])
		}
	}
}
