// Package wgen generates Wuffs programs for engine E2. Generation is
// proof-aware: expressions are built together with an interval estimate so
// that constants just fit (or, for near-miss mutants, just do not), and the
// idioms the checker needs (mask-then-index, guarded increment, counted loops,
// length-guarded fast paths with an equal slow path) come from templates taken
// from std/. Every choice is a rapid draw. The result is plain source text;
// whether the tree's checker accepts it is decided by the caller.
package wgen

import (
	"fmt"
	"math/big"
	"regexp"
	"strings"

	"pgregory.net/rapid"
)

// Options steer generation.
type Options struct {
	// ChunkOblivious restricts coroutines to the availability-oblivious subset
	// (DESIGN C05): length() only guards a fast path whose else branch is the
	// equal slow path; "=?" only inside the retry idiom.
	ChunkOblivious bool
	// NoModShl etc. are excluders of known findings (set by the campaign).
	Exclude map[string]bool
	// Excluded counts candidates removed by an excluder.
	Excluded map[string]int
}

func (o *Options) excluded(name string) bool {
	if o.Exclude[name] {
		if o.Excluded == nil {
			o.Excluded = map[string]int{}
		}
		o.Excluded[name]++
		return true
	}
	return false
}

type variable struct {
	name  string // source spelling: "x", "this.f", "args.a"
	width int    // 8, 16, 32, 64
	max   *big.Int
	local bool
	field bool
	arg   bool
}

type array struct {
	name  string // "this.buf" or "T0"
	n     int
	width int
	ro    bool
	emax  *big.Int // maximum of the (possibly refined) element type
}

type gen struct {
	t     *rapid.T
	o     *Options
	label int
	b     strings.Builder
	// struct
	fields  []variable
	arrays  []array
	tables  []array
	consts  []variable // named scalar constants: pri const K0 : base.u64 = 1 (max holds the value)
	labels  int        // loop labels handed out
	pures   []string   // private pure helpers: p0(a: base.u32) base.u32
	helps   []string   // private impure helpers: h0!(a: base.u32)
	coros   []string   // private coroutines: c0?(src: base.io_reader)
	coroArg []bool     // whether coroutine i takes the extra "w: base.u32" argument
	// current function
	locals   []variable
	args     []variable
	impure   bool
	coro     bool
	hasDst   bool
	retZero  string          // "return 0" / "return nothing": an early exit usable inside io_bind blocks ("" = none)
	loopVars map[string]bool // counted-loop indexes must not be assigned
	nlocal   int
	depth    int
	inIter   bool // inside an iterate body: no suspension points, no nested iterate
	hasHio   bool // the package has the two-stream helper hio!(dst, src)
}

func (g *gen) draw(lo, hi int, what string) int {
	g.label++
	return rapid.IntRange(lo, hi).Draw(g.t, fmt.Sprintf("%s_%d", what, g.label))
}

func (g *gen) chance(pct int, what string) bool { return g.draw(0, 99, what) < pct }

// rare is a fair coin with probability pct/100 (rapid's integer ranges favour
// small values, which makes chance() fire more often than its number says: fine
// for shapes, not for near misses that cost an accepted program). It shrinks
// towards "no".
func (g *gen) rare(pct int, what string) bool {
	g.label++
	v := 0
	for i := 0; i < 7; i++ {
		if rapid.Bool().Draw(g.t, fmt.Sprintf("%s_%d_%d", what, g.label, i)) {
			v |= 1 << i
		}
	}
	return v >= 128-(pct*128+99)/100
}

func pow2(k int) *big.Int { return new(big.Int).Lsh(big.NewInt(1), uint(k)) }

func typeMax(width int) *big.Int { return new(big.Int).Sub(pow2(width), big.NewInt(1)) }

func typeName(width int) string { return fmt.Sprintf("base.u%d", width) }

func hex(v *big.Int) string {
	if v.BitLen() <= 4 {
		return v.String()
	}
	return "0x" + strings.ToUpper(v.Text(16))
}

// constant draws a constant in [0, max], biased to edges.
func (g *gen) constant(max *big.Int) *big.Int {
	switch g.draw(0, 7, "ck") {
	case 0:
		return big.NewInt(0)
	case 1:
		return big.NewInt(1)
	case 2:
		return new(big.Int).Set(max)
	case 3:
		if max.Sign() > 0 {
			return new(big.Int).Sub(max, big.NewInt(1))
		}
		return big.NewInt(0)
	case 4: // power of two (minus one) below max
		if max.BitLen() > 1 {
			k := g.draw(0, max.BitLen()-1, "cp")
			v := pow2(k)
			if g.chance(50, "cm") {
				v.Sub(v, big.NewInt(1))
			}
			if v.Cmp(max) <= 0 {
				return v
			}
		}
		return big.NewInt(1)
	default:
		lim := max
		if lim.BitLen() > 20 && g.chance(70, "csmall") {
			lim = big.NewInt(1000)
		}
		if lim.IsInt64() && lim.Int64() <= 1<<30 {
			return big.NewInt(int64(g.draw(0, int(lim.Int64()), "cv")))
		}
		k := g.draw(0, lim.BitLen()-1, "cb")
		v := pow2(k)
		v.Add(v, big.NewInt(int64(g.draw(0, 1000, "co"))))
		if v.Cmp(max) > 0 {
			return new(big.Int).Set(max)
		}
		return v
	}
}

func minBig(a, b *big.Int) *big.Int {
	if a.Cmp(b) < 0 {
		return a
	}
	return b
}

// maskFor returns the largest 2^k-1 <= max.
func maskFor(max *big.Int) *big.Int {
	k := new(big.Int).Add(max, big.NewInt(1)).BitLen() - 1
	return new(big.Int).Sub(pow2(k), big.NewInt(1))
}

func (g *gen) varsOfWidth(width int) []variable {
	var out []variable
	for _, v := range g.locals {
		if v.width == width {
			out = append(out, v)
		}
	}
	for _, v := range g.args {
		if v.width == width {
			out = append(out, v)
		}
	}
	for _, v := range g.fields {
		if v.width == width {
			out = append(out, v)
		}
	}
	return out
}

func (g *gen) anyVar() (variable, bool) {
	all := append(append(append([]variable{}, g.locals...), g.args...), g.fields...)
	if len(all) == 0 {
		return variable{}, false
	}
	return all[g.draw(0, len(all)-1, "anyvar")], true
}

// conv converts an expression of width from to width to, given its max.
func conv(e string, from, to int) string {
	if from == to {
		return e
	}
	return fmt.Sprintf("(%s as %s)", e, typeName(to))
}

// expr builds an expression of the given width whose value the checker can
// bound by limit (limit <= typeMax(width)). It returns the text and an upper
// estimate of its value.
func (g *gen) expr(width int, limit *big.Int, depth int) (string, *big.Int) {
	tm := typeMax(width)
	if limit.Cmp(tm) > 0 {
		limit = tm
	}
	leaf := depth <= 0 || g.chance(30, "leaf")
	if leaf {
		return g.leaf(width, limit)
	}
	switch g.draw(0, 17, "op") {
	case 16: // shifts by a non-constant amount
		left, ok := g.simpleRecv(width)
		lmax := tm
		if n, v, okc := g.namedConst(width, tm); okc && g.chance(50, "shlconst") {
			left, lmax, ok = n, v, true
		}
		if !ok {
			break
		}
		if sh0, _ := g.shiftAmount(width); sh0 == "0" {
			break
		}
		switch g.draw(0, 2, "vshift") {
		case 0: // a >> s
			sh, _ := g.shiftAmount(width)
			if lmax.Cmp(limit) <= 0 {
				return fmt.Sprintf("(%s >> %s)", left, sh), lmax
			}
			return fmt.Sprintf("((%s >> %s) & %s)", left, sh, hex(maskFor(limit))), maskFor(limit)
		case 1: // a ~mod<< s
			if g.o.excluded("K4-modshl") {
				break
			}
			sh, _ := g.shiftAmount(width)
			if limit.Cmp(tm) == 0 {
				return fmt.Sprintf("(%s ~mod<< %s)", left, sh), tm
			}
			return fmt.Sprintf("((%s ~mod<< %s) & %s)", left, sh, hex(maskFor(limit))), maskFor(limit)
		default: // (a & small) << s with room
			if limit.BitLen() > 4 {
				room := limit.BitLen() - 1 // result < 2^room <= limit
				sb := g.draw(1, min(room-1, 6), "vshlbits")
				sh, smax := g.shiftAmount(1 << uint(sb))
				ab := room - smax
				if ab >= 1 {
					m := new(big.Int).Sub(pow2(ab), big.NewInt(1))
					r := new(big.Int).Lsh(m, uint(smax))
					return fmt.Sprintf("((%s & %s) << %s)", left, hex(m), sh), r
				}
			}
		}
	case 17: // a named constant as an operand of a modular operator
		if n, _, ok := g.namedConst(width, tm); ok {
			b, okb := g.simpleRecv(width)
			if !okb {
				break
			}
			op := []string{"~mod+", "~mod-", "~mod*", "^", "|", "~sat+", "~sat-"}[g.draw(0, 6, "kmodop")]
			m := maskFor(limit)
			if g.chance(50, "kswap") {
				return fmt.Sprintf("((%s %s %s) & %s)", b, op, n, hex(m)), m
			}
			return fmt.Sprintf("((%s %s %s) & %s)", n, op, b, hex(m)), m
		}
	case 0: // a + b with room
		if limit.Sign() > 0 {
			la := new(big.Int).Rsh(limit, 1)
			a, ma := g.expr(width, la, depth-1)
			b, mb := g.expr(width, new(big.Int).Sub(limit, ma), depth-1)
			return fmt.Sprintf("(%s + %s)", a, b), new(big.Int).Add(ma, mb)
		}
	case 1: // a * c
		if limit.BitLen() > 2 {
			c := big.NewInt(int64(g.draw(2, 9, "mulc")))
			a, ma := g.expr(width, new(big.Int).Quo(limit, c), depth-1)
			return fmt.Sprintf("(%s * %s)", a, c), new(big.Int).Mul(ma, c)
		}
	case 2: // (a op b) & mask
		a, ok := g.simpleRecv(width)
		if !ok {
			break
		}
		b, _ := g.expr(width, tm, depth-1)
		op := []string{"~mod+", "~mod-", "~mod*", "^", "|", "~sat+", "~sat-"}[g.draw(0, 6, "modop")]
		m := maskFor(limit)
		if g.chance(15, "oddmask") {
			m = g.constant(limit)
		}
		return fmt.Sprintf("((%s %s %s) & %s)", a, op, b, hex(m)), m
	case 3: // a >> k
		k := g.draw(0, width-1, "shr")
		a, ma := g.expr(width, minBig(tm, new(big.Int).Lsh(new(big.Int).Add(limit, big.NewInt(1)), uint(k))), depth-1)
		r := new(big.Int).Rsh(ma, uint(k))
		if r.Cmp(limit) <= 0 {
			return fmt.Sprintf("(%s >> %d)", a, k), r
		}
	case 4: // a << k with room
		if limit.BitLen() > 3 {
			k := g.draw(1, min(limit.BitLen()-2, width-1), "shl")
			a, ma := g.expr(width, new(big.Int).Rsh(limit, uint(k)), depth-1)
			return fmt.Sprintf("(%s << %d)", a, k), new(big.Int).Lsh(ma, uint(k))
		}
	case 5: // a & b
		a, ma := g.expr(width, tm, depth-1)
		b, mb := g.expr(width, limit, depth-1)
		return fmt.Sprintf("(%s & %s)", a, b), minBig(ma, mb)
	case 6: // a % c, a / c
		c := g.constant(minBig(new(big.Int).Add(limit, big.NewInt(1)), tm))
		if c.Sign() == 0 {
			c = big.NewInt(1)
		}
		a, ma := g.expr(width, tm, depth-1)
		if g.chance(60, "modnotdiv") {
			return fmt.Sprintf("(%s %% %s)", a, hex(c)), minBig(ma, new(big.Int).Sub(c, big.NewInt(1)))
		}
		q := new(big.Int).Quo(ma, c)
		if q.Cmp(limit) <= 0 {
			return fmt.Sprintf("(%s / %s)", a, hex(c)), q
		}
	case 7: // min
		if a, ok := g.simpleRecv(width); ok {
			c := g.constant(limit)
			return fmt.Sprintf("%s.min(no_more_than: %s)", a, hex(c)), c
		}
	case 8: // low_bits / high_bits
		if a, ok := g.simpleRecv(width); ok {
			k := g.draw(0, min(width-1, maskFor(limit).BitLen()), "lowbits")
			fn := "low_bits"
			if g.chance(30, "highbits") {
				fn = "high_bits"
			}
			return fmt.Sprintf("%s.%s(n: %d)", a, fn, k), new(big.Int).Sub(pow2(k), big.NewInt(1))
		}
	case 9: // widen a narrower expression
		if width > 8 {
			w2 := []int{8, 16, 32}[g.draw(0, 2, "narrow")]
			if w2 < width {
				a, ma := g.expr(w2, minBig(limit, typeMax(w2)), depth-1)
				return conv(a, w2, width), ma
			}
		}
	case 10: // narrow a wider expression
		if width < 64 {
			w2 := []int{16, 32, 64}[g.draw(0, 2, "wide")]
			if w2 > width {
				a, ma := g.expr(w2, limit, depth-1)
				return conv(a, w2, width), ma
			}
		}
	case 11: // pure helper call
		if len(g.pures) > 0 && width == 32 && limit.Cmp(tm) == 0 {
			a, _ := g.expr(32, tm, depth-1)
			return fmt.Sprintf("this.%s(a: %s)", g.pures[g.draw(0, len(g.pures)-1, "pure")], a), tm
		}
	case 12: // array / table element
		if e, m, ok := g.element(width, limit, depth-1); ok {
			return e, m
		}
	case 13: // a ~mod<< k (known-finding shape K4 unless excluded)
		if a, ok := g.simpleRecv(width); ok && limit.Cmp(tm) == 0 && !g.o.excluded("K4-modshl") {
			return fmt.Sprintf("(%s ~mod<< %d)", a, g.draw(0, width-1, "modshl")), tm
		}
	case 14: // a - b, provable because b <= lower... only with constants: (a | c) - c' is not provable; use max
		if a, ok := g.simpleRecv(width); ok {
			c := g.constant(limit)
			return fmt.Sprintf("((%s.max(no_less_than: %s) - %s) & %s)", a, hex(c), hex(c), hex(maskFor(limit))), maskFor(limit)
		}
	}
	return g.leaf(width, limit)
}

// simpleRecv returns a variable of the width usable as a method receiver
// (method calls need an operand, not a parenthesised expression).
func (g *gen) simpleRecv(width int) (string, bool) {
	vs := g.varsOfWidth(width)
	if len(vs) == 0 {
		return "", false
	}
	return vs[g.draw(0, len(vs)-1, "recv")].name, true
}

func paren(e string) string {
	if strings.HasPrefix(e, "(") || !strings.ContainsAny(e, " ") {
		return e
	}
	return "(" + e + ")"
}

// namedConst returns a named constant of the width whose value fits the limit.
func (g *gen) namedConst(width int, limit *big.Int) (string, *big.Int, bool) {
	var fit []variable
	for _, c := range g.consts {
		if c.width == width && c.max.Cmp(limit) <= 0 {
			fit = append(fit, c)
		}
	}
	if len(fit) == 0 {
		return "", nil, false
	}
	c := fit[g.draw(0, len(fit)-1, "kconst")]
	return c.name, c.max, true
}

// shiftAmount builds a non-constant shift count provably below bound.
func (g *gen) shiftAmount(bound int) (string, int) {
	m := maskFor(big.NewInt(int64(bound - 1)))
	for _, w := range [][]int{{8, 32, 64, 16}, {32, 8, 16, 64}, {64, 32, 8, 16}}[g.draw(0, 2, "shw")] {
		if v, ok := g.simpleRecv(w); ok {
			return fmt.Sprintf("(%s & %s)", v, hex(m)), int(m.Int64())
		}
	}
	return "0", 0
}

var varRE = regexp.MustCompile(`(this\.|args\.|\b[a-z][a-z]?[0-9])`)

// hasVar reports whether an expression mentions a variable (an expression of
// constants only is an ideal number: tilde operators and conditions reject it).
func hasVar(e string) bool { return varRE.MatchString(e) }

func (g *gen) leaf(width int, limit *big.Int) (string, *big.Int) {
	if len(g.consts) > 0 && g.chance(8, "leafconst") {
		if n, v, ok := g.namedConst(width, limit); ok {
			return n, v
		}
	}
	vs := g.varsOfWidth(width)
	if len(vs) > 0 && g.chance(75, "usevar") {
		v := vs[g.draw(0, len(vs)-1, "var")]
		if v.max.Cmp(limit) <= 0 {
			return v.name, v.max
		}
		m := maskFor(limit)
		return fmt.Sprintf("(%s & %s)", v.name, hex(m)), m
	}
	// a variable of another width, converted
	if v, ok := g.anyVar(); ok && g.chance(40, "convvar") {
		if v.width < width && v.max.Cmp(limit) <= 0 {
			return conv(v.name, v.width, width), v.max
		}
		if v.width != width {
			m := maskFor(minBig(limit, typeMax(min(v.width, width))))
			return conv(fmt.Sprintf("(%s & %s)", v.name, hex(m)), v.width, width), m
		}
	}
	c := g.constant(limit)
	return hex(c), c
}

// element builds arr[index] with a provably in-range index.
func (g *gen) element(width int, limit *big.Int, depth int) (string, *big.Int, bool) {
	cands := append(append([]array{}, g.arrays...), g.tables...)
	if len(cands) == 0 {
		return "", nil, false
	}
	ar := cands[g.draw(0, len(cands)-1, "arr")]
	idx := g.index(ar.n, depth)
	e := fmt.Sprintf("%s[%s]", ar.name, idx)
	em := ar.emax
	if ar.width == width && em.Cmp(limit) <= 0 {
		return e, em, true
	}
	if ar.width < width && em.Cmp(limit) <= 0 {
		return conv(e, ar.width, width), em, true
	}
	m := maskFor(minBig(limit, typeMax(min(ar.width, width))))
	return conv(fmt.Sprintf("(%s & %s)", e, hex(m)), ar.width, width), m, true
}

// index builds an index expression provably below n.
func (g *gen) index(n int, depth int) string {
	if depth > 0 && g.chance(20, "idxelem") {
		// an element of an array whose refined element type already fits
		for _, ar := range g.arrays {
			if ar.emax.Cmp(big.NewInt(int64(n-1))) <= 0 {
				return fmt.Sprintf("%s[%s]", ar.name, g.index(ar.n, 0))
			}
		}
	}
	w := []int{8, 32, 32, 64}[g.draw(0, 3, "idxw")]
	e, _ := g.expr(w, big.NewInt(int64(n-1)), depth)
	return e
}

// ---------------------------------------------------------------- statements

func (g *gen) ind() string { return strings.Repeat("    ", g.depth) }

func (g *gen) line(format string, a ...any) {
	g.b.WriteString(g.ind())
	fmt.Fprintf(&g.b, format, a...)
	g.b.WriteString("\n")
}

func (g *gen) assignable() []variable {
	var out []variable
	for _, v := range g.locals {
		if !g.loopVars[v.name] {
			out = append(out, v)
		}
	}
	if g.impure {
		out = append(out, g.fields...)
	}
	return out
}

func (g *gen) cond() string {
	w := []int{8, 16, 32, 64}[g.draw(0, 3, "condw")]
	a, _ := g.expr(w, typeMax(w), 2)
	for try := 0; try < 4 && !hasVar(a); try++ {
		a, _ = g.expr(w, typeMax(w), 2)
	}
	b, _ := g.expr(w, typeMax(w), 1)
	op := []string{"<", "<=", "==", "<>", ">=", ">"}[g.draw(0, 5, "cmp")]
	c := fmt.Sprintf("%s %s %s", a, op, b)
	if g.chance(15, "andor") {
		a2, _ := g.expr(w, typeMax(w), 1)
		for try := 0; try < 4 && !hasVar(a2); try++ {
			a2, _ = g.expr(w, typeMax(w), 1)
		}
		b2, _ := g.expr(w, typeMax(w), 1)
		c = fmt.Sprintf("(%s) %s (%s %s %s)", c, []string{"and", "or"}[g.draw(0, 1, "ao")], a2, []string{"<", "=="}[g.draw(0, 1, "cmp2")], b2)
	}
	return c
}

func (g *gen) stmts(n int, budget int) {
	for i := 0; i < n; i++ {
		g.stmt(budget)
	}
}

func (g *gen) stmt(budget int) {
	kind := g.draw(0, 25, "stmt")
	as := g.assignable()
	switch {
	case kind <= 5 && len(as) > 0: // plain assignment
		v := as[g.draw(0, len(as)-1, "lhs")]
		e, _ := g.expr(v.width, v.max, 3)
		if g.o.Exclude["K5-self-assign-fact"] && mentions(e, v.name) {
			// known finding K5: "x = f(x)" records the false fact x == f(x); route through a fresh read instead
			g.o.excluded("K5-self-assign-fact")
			e2, _ := g.exprAvoiding(v, 3)
			e = e2
		}
		g.line("%s = %s", v.name, e)
	case kind <= 8 && len(as) > 0: // compound assignment
		v := as[g.draw(0, len(as)-1, "lhs")]
		tm := typeMax(v.width)
		unrefined := v.max.Cmp(tm) == 0
		ops := []string{"~mod+=", "~mod-=", "~sat+=", "~sat-=", "&=", ">>="}
		if unrefined {
			ops = append(ops, "|=", "^=", "~mod*=")
		}
		op := ops[g.draw(0, len(ops)-1, "cop")]
		if !unrefined && (op == "~mod+=" || op == "~mod-=" || op == "~sat+=") {
			op = "&="
		}
		if g.o.Exclude["K5-self-assign-fact"] {
			g.o.excluded("K5-self-assign-fact")
			break
		}
		if op == ">>=" {
			g.line("%s >>= %d", v.name, g.draw(0, v.width-1, "shrk"))
		} else {
			e, _ := g.exprAvoiding(v, 2)
			if g.chance(40, "copself") {
				// "x op= f(x)": facts must not be rewritten through the new value (fixed finding K5)
				e, _ = g.expr(v.width, typeMax(v.width), 2)
			}
			g.line("%s %s %s", v.name, op, e)
		}
	case kind == 9 && g.impure && len(g.arrays) > 0: // element store
		ar := g.arrays[g.draw(0, len(g.arrays)-1, "starr")]
		if g.o.excluded("K2-element-store") {
			break
		}
		idx := g.index(ar.n, 2)
		e, _ := g.expr(ar.width, ar.emax, 2)
		g.line("%s[%s] = %s", ar.name, idx, e)
	case kind == 10 && len(as) > 0: // guarded increment
		v := as[g.draw(0, len(as)-1, "lhs")]
		k := g.constant(v.max)
		if k.Sign() == 0 {
			k = big.NewInt(1)
		}
		if g.o.Exclude["K5-self-assign-fact"] {
			g.o.excluded("K5-self-assign-fact")
			break
		}
		switch m := int64([]int{1, 3, 7, 15}[g.draw(0, 3, "gim")]); g.draw(0, 4, "giself") {
		case 4: // an equality fact, then "x += f(x)" / "x -= f(x)"
			if lim := new(big.Int).Sub(v.max, big.NewInt(m)); lim.Sign() > 0 {
				k2 := g.constant(lim)
				g.line("%s = %s", v.name, hex(k2))
				if g.chance(50, "gieqsub") && k2.Cmp(big.NewInt(m)) >= 0 {
					g.line("%s -= (%s & %d)", v.name, v.name, m)
				} else {
					g.line("%s += (%s & %d)", v.name, v.name, m)
				}
				break
			}
			fallthrough
		case 0: // "x += f(x)" under a fact about x (plain += / -= rewrite the facts about their lhs)
			if lim := new(big.Int).Sub(v.max, big.NewInt(m)); lim.Sign() > 0 {
				k2 := g.constant(lim)
				if k2.Sign() == 0 {
					k2 = big.NewInt(1)
				}
				g.line("if %s < %s {", v.name, hex(k2))
				g.depth++
				g.line("%s += (%s & %d)", v.name, v.name, m)
				g.depth--
				g.line("}")
				break
			}
			fallthrough
		case 1:
			if v.max.Cmp(big.NewInt(m)) >= 0 {
				g.line("if %s >= %d {", v.name, m)
				g.depth++
				g.line("%s -= (%s & %d)", v.name, v.name, m)
				g.depth--
				g.line("}")
				break
			}
			fallthrough
		default:
			g.line("if %s < %s {", v.name, hex(k))
			g.depth++
			g.line("%s += 1", v.name)
			g.depth--
			g.line("}")
		}
	case kind <= 12 && budget > 0: // if / else
		g.line("if %s {", g.cond())
		g.depth++
		g.stmts(g.draw(1, 3, "nif"), budget-1)
		g.depth--
		if g.chance(40, "elseif") {
			g.line("} else if %s {", g.cond())
			g.depth++
			g.stmts(g.draw(1, 2, "nelif"), budget-1)
			g.depth--
		}
		if g.chance(50, "else") {
			g.line("} else {")
			g.depth++
			g.stmts(g.draw(1, 2, "nelse"), budget-1)
			g.depth--
		}
		g.line("}")
	case kind == 13 && budget > 0: // counted loop over an array
		g.countedLoop(budget - 1)
	case (kind == 16 || kind == 20) && g.impure && len(g.arrays) > 1: // whole-array assignment
		a1 := g.arrays[g.draw(0, len(g.arrays)-1, "cpdst")]
		for _, a2 := range g.arrays {
			if a2.name == a1.name || a2.n != a1.n || a2.width != a1.width {
				continue
			}
			// sound when the source's element range fits the destination's; the other
			// direction is the known-finding shape K1 (accepted by an unsound checker)
			if a2.emax.Cmp(a1.emax) > 0 && (g.o.excluded("K1-container-assign-across-refinements") || !g.rare(35, "k1")) {
				continue
			}
			g.line("%s = %s", a1.name, a2.name)
			break
		}
	case (kind == 21 || kind == 22) && g.impure && !g.coro && g.retZero != "" && g.depth == 1:
		g.ioBindStmt()
	case kind == 18 && g.impure && !g.coro && !g.inIter && len(g.byteArrays()) > 0: // iterate loop over a byte array
		g.iterateStmt()
	case kind == 19 && len(g.arrays) > 0:
		if g.impure && !g.coro && !g.inIter && len(g.byteArrays()) > 0 && g.chance(35, "slicewin") {
			g.sliceWindow()
			break
		}
		if !g.inIter && len(g.byteArrays()) > 0 && g.chance(25, "slicepeek") {
			g.slicePeek()
			break
		}
		if g.impure && !g.coro && !g.inIter && len(g.byteArrays()) > 0 && g.chance(25, "elemdisturb") {
			g.elementFactDisturb()
			break
		}
		g.guardedIndex()
	case kind == 25 && len(g.consts) > 0:
		g.constOpStmt()
	case kind == 23 && budget > 0 && !g.inIter:
		g.deepBreakLoop(budget - 1)
	case kind == 24 && !g.impure && len(g.helps) > 0 && g.rare(10, "pureimpure"):
		// near miss: a bare impure call inside a pure function must be rejected by the tree
		e, _ := g.expr(32, typeMax(32), 1)
		g.line("this.%s!(a: %s)", g.helps[g.draw(0, len(g.helps)-1, "help")], e)
	case kind == 17 && budget > 0 && len(g.arrays) > 0: // loop whose condition indexes with a variable the body changes
		g.indexedWhile()
	case kind == 14 && g.impure && len(g.helps) > 0:
		h := g.helps[g.draw(0, len(g.helps)-1, "help")]
		e, _ := g.expr(32, typeMax(32), 2)
		g.line("this.%s!(a: %s)", h, e)
	case kind == 15 && len(as) > 0 && len(g.pures) > 0:
		for _, v := range as {
			if v.width == 32 && v.max.Cmp(typeMax(32)) == 0 {
				e, _ := g.expr(32, typeMax(32), 2)
				g.line("%s = this.%s(a: %s)", v.name, g.pures[g.draw(0, len(g.pures)-1, "pure")], e)
				break
			}
		}
	default:
		if g.coro && !g.inIter {
			g.ioStmt()
		} else if len(as) > 0 {
			v := as[g.draw(0, len(as)-1, "lhs")]
			e, _ := g.expr(v.width, v.max, 2)
			if !(g.o.Exclude["K5-self-assign-fact"] && mentions(e, v.name)) {
				g.line("%s = %s", v.name, e)
			}
		}
	}
}

func mentions(e, name string) bool {
	re := regexp.MustCompile(`(^|[^A-Za-z0-9_.])` + regexp.QuoteMeta(name) + `($|[^A-Za-z0-9_])`)
	return re.MatchString(e)
}

// exprAvoiding builds an expression that does not mention v.
func (g *gen) exprAvoiding(v variable, depth int) (string, *big.Int) {
	for i := 0; i < 6; i++ {
		e, m := g.expr(v.width, v.max, depth)
		if !mentions(e, v.name) {
			return e, m
		}
	}
	c := g.constant(v.max)
	return hex(c), c
}

func (g *gen) newLocal(width int) variable {
	v := variable{name: fmt.Sprintf("v%d", g.nlocal), width: width, max: typeMax(width), local: true}
	g.nlocal++
	return v
}

func (g *gen) countedLoop(budget int) {
	var idx *variable
	for i := range g.locals {
		if g.locals[i].width == 32 && !g.loopVars[g.locals[i].name] && strings.HasPrefix(g.locals[i].name, "i") {
			idx = &g.locals[i]
			break
		}
	}
	if idx == nil {
		return
	}
	n := []int{2, 3, 4, 8, 16}[g.draw(0, 4, "loopn")]
	// arrays at least n long can be indexed by the loop variable
	g.line("%s = 0", idx.name)
	g.line("while %s < %d {", idx.name, n)
	g.depth++
	g.loopVars[idx.name] = true
	saved := g.locals
	// inside the body the index is known to be < n
	for i := range g.locals {
		if g.locals[i].name == idx.name {
			cp := append([]variable{}, g.locals...)
			cp[i].max = big.NewInt(int64(n - 1))
			g.locals = cp
		}
	}
	nb := g.draw(1, 3, "nloop")
	for i := 0; i < nb; i++ {
		if g.impure && len(g.arrays) > 0 && g.chance(40, "loopstore") && !g.o.excluded("K2-element-store") {
			var fit []array
			for _, ar := range g.arrays {
				if ar.n >= n {
					fit = append(fit, ar)
				}
			}
			if len(fit) > 0 {
				ar := fit[g.draw(0, len(fit)-1, "looparr")]
				e, _ := g.expr(ar.width, ar.emax, 2)
				g.line("%s[%s] = %s", ar.name, idx.name, e)
				continue
			}
		}
		g.stmt(budget)
	}
	if g.chance(15, "loopbreak") {
		g.line("if %s {", g.cond())
		g.depth++
		g.line("break")
		g.depth--
		g.line("}")
	}
	if g.chance(20, "loopcontinue") {
		// "continue" after the increment: the rest of the body is skipped, the loop condition is judged again
		g.line("if %s {", g.cond())
		g.depth++
		g.line("%s += 1", idx.name)
		g.line("continue")
		g.depth--
		g.line("}")
		g.stmt(0)
	}
	g.locals = saved
	g.line("%s += 1", idx.name)
	delete(g.loopVars, idx.name)
	g.depth--
	g.line("}")
}

// constOpStmt assigns "K op x" or "x op K" for a named typed constant K and every
// binary operator that accepts it (the code generator treats constant operands
// specially: literal suffixes, casts, folded shifts).
func (g *gen) constOpStmt() {
	// the destination first (fields preferred: they are observable through the getters), then a constant of its width
	var fields, locals []variable
	for _, v := range g.assignable() {
		if v.max.Cmp(typeMax(v.width)) == 0 {
			if strings.HasPrefix(v.name, "this.") {
				fields = append(fields, v)
			} else {
				locals = append(locals, v)
			}
		}
	}
	dst := fields
	if len(dst) == 0 || (len(locals) > 0 && g.chance(30, "colocal")) {
		dst = locals
	}
	if len(dst) == 0 {
		return
	}
	v := dst[g.draw(0, len(dst)-1, "codst")]
	var ks []variable
	for _, k := range g.consts {
		if k.width == v.width {
			ks = append(ks, k)
		}
	}
	x, ok := g.simpleRecv(v.width)
	if len(ks) == 0 || !ok {
		return
	}
	k := ks[g.draw(0, len(ks)-1, "cok")]
	sh, _ := g.shiftAmount(k.width)
	if sh == "0" {
		return
	}
	var forms []string
	forms = append(forms,
		fmt.Sprintf("%s ~mod+ %s", k.name, x), fmt.Sprintf("%s ~mod- %s", k.name, x), fmt.Sprintf("%s ~mod- %s", x, k.name),
		fmt.Sprintf("%s ~mod* %s", k.name, x), fmt.Sprintf("%s ~sat+ %s", k.name, x), fmt.Sprintf("%s ~sat- %s", k.name, x),
		fmt.Sprintf("%s ~sat- %s", x, k.name), fmt.Sprintf("%s & %s", k.name, x), fmt.Sprintf("%s | %s", k.name, x), fmt.Sprintf("%s ^ %s", x, k.name),
		fmt.Sprintf("%s >> %s", k.name, sh))
	if !g.o.excluded("K4-modshl") {
		forms = append(forms, fmt.Sprintf("%s ~mod<< %s", k.name, sh), fmt.Sprintf("%s ~mod<< %s", k.name, sh))
	}
	if k.max.Sign() > 0 {
		forms = append(forms, fmt.Sprintf("%s %% %s", x, k.name), fmt.Sprintf("%s / %s", x, k.name))
	}
	e := forms[g.draw(0, len(forms)-1, "coform")]
	if mentions(e, v.name) && g.o.Exclude["K5-self-assign-fact"] {
		return
	}
	g.line("%s = %s", v.name, e)
}

// guardedIndex emits an array access whose index is in range only because of
// the fact an if-condition establishes, spelled in one of several equivalent
// ways (variable-first, constant-first, negated with the access in the else
// branch or after an early exit). With some probability the bound is off by one:
// a shape that only an unsound checker accepts.
func (g *gen) guardedIndex() {
	var cand []variable
	for _, v := range g.locals {
		if !g.loopVars[v.name] && v.max.Cmp(typeMax(v.width)) == 0 && (strings.HasPrefix(v.name, "v") || strings.HasPrefix(v.name, "i")) {
			cand = append(cand, v)
		}
	}
	for _, v := range g.args {
		if v.max.Cmp(typeMax(v.width)) == 0 {
			cand = append(cand, v)
		}
	}
	if len(cand) == 0 {
		return
	}
	v := cand[g.draw(0, len(cand)-1, "giv")]
	ar := g.arrays[g.draw(0, len(g.arrays)-1, "giarr")]
	n := ar.n
	if typeMax(v.width).Cmp(big.NewInt(int64(n))) <= 0 {
		return
	}
	off := 0
	if g.rare(15, "ginear") {
		off = 1 // near miss: admits v == n
	}
	use := func() {
		as := g.assignable()
		if g.impure && g.chance(50, "gistore") && !g.o.excluded("K2-element-store") {
			for try := 0; try < 4; try++ {
				e, _ := g.expr(ar.width, ar.emax, 1)
				if !mentions(e, v.name) {
					g.line("%s[%s] = %s", ar.name, v.name, e)
					return
				}
			}
		}
		for _, a := range as {
			if a.name != v.name && a.width == ar.width && a.max.Cmp(ar.emax) >= 0 {
				g.line("%s = %s[%s]", a.name, ar.name, v.name)
				return
			}
		}
		for _, a := range as {
			if a.name != v.name && a.width > ar.width && a.max.Cmp(ar.emax) >= 0 {
				g.line("%s = %s", a.name, conv(fmt.Sprintf("%s[%s]", ar.name, v.name), ar.width, a.width))
				return
			}
		}
	}
	other := func() {
		if as := g.assignable(); len(as) > 0 {
			a := as[g.draw(0, len(as)-1, "gioth")]
			if a.name != v.name {
				g.line("%s = %s", a.name, hex(g.constant(a.max)))
			}
		}
	}
	hi, hi1 := n+off, n-1+off
	form := g.draw(0, 7, "giform")
	if form == 7 && (g.retZero == "" || g.depth != 1 || g.inIter) {
		form = g.draw(0, 6, "giform2")
	}
	switch form {
	case 0:
		g.line("if %s < %d {", v.name, hi)
	case 1:
		g.line("if %s <= %d {", v.name, hi1)
	case 2:
		g.line("if %d > %s {", hi, v.name)
	case 3:
		g.line("if %d >= %s {", hi1, v.name)
	case 4:
		g.line("if %s >= %d {", v.name, hi)
	case 5:
		g.line("if %d <= %s {", hi, v.name)
	case 6:
		g.line("if %d < %s {", hi1, v.name)
	case 7:
		g.line("if %s {", []string{fmt.Sprintf("%d <= %s", hi, v.name), fmt.Sprintf("%s > %d", v.name, hi1), fmt.Sprintf("%d < %s", hi1, v.name)}[g.draw(0, 2, "giexit")])
		g.line("    %s", g.retZero)
		g.line("}")
		use()
		return
	}
	g.depth++
	if form <= 3 {
		use()
		g.depth--
	} else {
		other()
		g.depth--
		g.line("} else {")
		g.depth++
		use()
		g.depth--
	}
	g.line("}")
}

// deepBreakLoop emits a labelled "while.L true" loop that is left only through
// "break.L" inside an inner loop (a deep break), as the last statement of an
// if-branch: after the if, only the facts that hold on every path may survive.
func (g *gen) deepBreakLoop(budget int) {
	g.labels++
	lab := fmt.Sprintf("lab%d", g.labels)
	loop := func() {
		if g.chance(35, "dbdouble") {
			// "execute once" blocks: while.L true {{ ... break.L }}.L, here two of them nested (goto-like early exits)
			g.line("while.%s true {{", lab)
			g.depth++
			g.line("while.%sin true {{", lab)
			g.depth++
			if g.chance(60, "dbbody") {
				g.stmt(0)
			}
			g.line("if %s {", g.cond())
			g.line("    break.%s", lab)
			g.line("}")
			if g.chance(50, "dbbody2") {
				g.stmt(0)
			}
			g.line("break.%sin", lab)
			g.depth--
			g.line("}}.%sin", lab)
			if g.chance(50, "dbbody3") {
				g.stmt(0)
			}
			g.line("break.%s", lab)
			g.depth--
			g.line("}}.%s", lab)
			return
		}
		g.line("while.%s true {", lab)
		g.depth++
		if g.chance(40, "dbpre") {
			g.stmt(0)
		}
		g.line("while true {")
		g.depth++
		if g.chance(60, "dbbody") {
			g.stmt(0)
		}
		if g.chance(30, "dbearly") {
			g.line("if %s {", g.cond())
			g.line("    break.%s", lab)
			g.line("}")
		}
		g.line("break.%s", lab)
		g.depth--
		g.line("}")
		g.depth--
		g.line("}.%s", lab)
	}
	g.line("if %s {", g.cond())
	g.depth++
	if g.chance(50, "dbthen") {
		if g.chance(50, "dbpre2") {
			g.stmt(0)
		}
		loop()
		g.depth--
	} else {
		g.stmt(budget)
		g.depth--
		g.line("} else {")
		g.depth++
		loop()
		g.depth--
	}
	g.line("}")
}

// byteArrays are the struct's arrays of unrefined base.u8, which can be viewed as "slice base.u8".
func (g *gen) byteArrays() []array {
	var out []array
	for _, ar := range g.arrays {
		if ar.width == 8 && ar.emax.Cmp(typeMax(8)) == 0 && strings.HasPrefix(ar.name, "this.a") {
			out = append(out, ar)
		}
	}
	return out
}

// elementFactDisturb stores a value into an element of a byte array (the checker records the fact), then overwrites
// the array by a route other than an element store - copy_from_slice on a slice of it, a write through an io_writer
// bound to it, an impure helper - and continues: no fact about the element may survive (fixed findings K2d-K2g).
func (g *gen) elementFactDisturb() {
	bytes := g.byteArrays()
	ar := bytes[g.draw(0, len(bytes)-1, "edarr")]
	c := g.draw(0, ar.n-1, "edc")
	e, _ := g.expr(8, typeMax(8), 1)
	g.line("%s[%d] = %s", ar.name, c, e)
	switch g.draw(0, 2, "edkind") {
	case 0:
		src := bytes[g.draw(0, len(bytes)-1, "edsrc")]
		lo := g.draw(0, src.n, "edlo")
		g.line("%s[..].copy_from_slice!(s: %s[%d ..])", ar.name, src.name, lo)
	case 1:
		e2, _ := g.expr(8, typeMax(8), 1)
		g.line("io_bind (io: w, data: %s[..], history_position: 0) {", ar.name)
		g.line("    if w.length() >= %d {", c+1)
		for i := 0; i <= c; i++ {
			g.line("        w.write_u8_fast!(a: %s)", e2)
		}
		g.line("    }")
		g.line("}")
	default:
		if len(g.helps) == 0 {
			g.line("%s[..].copy_from_slice!(s: %s[1 ..])", ar.name, ar.name)
			break
		}
		a, _ := g.expr(32, typeMax(32), 1)
		g.line("this.%s!(a: %s)", g.helps[g.draw(0, len(g.helps)-1, "edh")], a)
	}
	g.stmt(0)
}

// slicePeek applies the slice methods peek_uNN / poke_uNN (lowered to unchecked C) to a sub-slice expression of a
// byte array whose bounds are constants (its length is then known syntactically). With a small probability the
// lower bound is a masked variable instead: a shape only an unsound checker accepts.
func (g *gen) slicePeek() {
	bytes := g.byteArrays()
	ar := bytes[g.draw(0, len(bytes)-1, "sparr")]
	type meth struct {
		name  string
		bytes int
		width int
	}
	ms := []meth{{"u8", 1, 8}, {"u16le", 2, 16}, {"u16be", 2, 16}, {"u24le_as_u32", 3, 32}, {"u24be_as_u32", 3, 32}, {"u32le", 4, 32}, {"u32be", 4, 32},
		{"u40le_as_u64", 5, 64}, {"u48be_as_u64", 6, 64}, {"u56le_as_u64", 7, 64}, {"u64le", 8, 64}, {"u64be", 8, 64}}
	var fit []meth
	for _, m := range ms {
		if m.bytes <= ar.n {
			fit = append(fit, m)
		}
	}
	m := fit[g.draw(0, len(fit)-1, "spm")]
	c2 := g.draw(m.bytes, ar.n, "spc2")
	c1 := g.draw(0, c2-m.bytes, "spc1")
	lo := fmt.Sprintf("%d", c1)
	if g.rare(12, "spnear") {
		if v, ok := g.simpleRecv([]int{8, 32, 64}[g.draw(0, 2, "spw")]); ok {
			lo = fmt.Sprintf("(%s & %s)", v, hex(maskFor(big.NewInt(int64(c2)))))
		}
	}
	recv := fmt.Sprintf("%s[%s .. %d]", ar.name, lo, c2)
	if g.impure && g.chance(40, "sppoke") {
		e, _ := g.expr(m.width, typeMax(8*m.bytes), 1)
		g.line("%s.poke_%s!(a: %s)", recv, strings.TrimSuffix(strings.TrimSuffix(m.name, "_as_u32"), "_as_u64"), e)
		return
	}
	for _, a := range g.assignable() {
		if a.width == m.width && a.max.Cmp(typeMax(8*m.bytes)) >= 0 {
			g.line("%s = %s.peek_%s()", a.name, recv, m.name)
			if g.impure && g.chance(40, "spdisturb") {
				// the recorded fact "a == ar[c1 .. c2].peek()" must not survive a store into ar (fixed finding K2h)
				e, _ := g.expr(8, typeMax(8), 1)
				g.line("%s[%d] = %s", ar.name, g.draw(c1, c2-1, "spdk"), e)
				g.stmt(0)
			}
			return
		}
	}
}

// sliceWindow binds the local slice s0 to a window of a byte array whose lower
// bound is a masked variable, then reads and writes elements under a guard on
// the window's length (several spellings), optionally cuts the window shorter
// and uses its length. With a small probability the guarded index is one too
// large: a shape only an unsound checker accepts.
func (g *gen) sliceWindow() {
	bytes := g.byteArrays()
	ar := bytes[g.draw(0, len(bytes)-1, "swarr")]
	v, ok := g.simpleRecv([]int{8, 32, 64}[g.draw(0, 2, "sww")])
	if !ok || ar.n < 2 {
		return
	}
	hi := g.draw(1, ar.n, "swhi")
	m := maskFor(big.NewInt(int64(hi)))
	g.line("s0 = %s[(%s & %s) .. %d]", ar.name, v, hex(m), hi)
	k := g.draw(0, hi-1, "swk")
	idx := k
	if g.rare(12, "swnear") {
		idx = k + 1
	}
	switch g.draw(0, 3, "swform") {
	case 0:
		g.line("if %d < s0.length() {", k)
	case 1:
		g.line("if s0.length() > %d {", k)
	case 2:
		g.line("if s0.length() >= %d {", k+1)
	default:
		g.line("if %d <= s0.length() {", k+1)
	}
	g.depth++
	wrote := false
	for _, a := range g.assignable() {
		if a.width >= 8 && a.max.Cmp(typeMax(8)) >= 0 {
			if a.width == 8 {
				g.line("%s = s0[%d]", a.name, idx)
			} else {
				g.line("%s = (s0[%d] as %s)", a.name, idx, typeName(a.width))
			}
			wrote = true
			break
		}
	}
	if !wrote || g.chance(50, "swstore") {
		e, _ := g.expr(8, typeMax(8), 1)
		g.line("s0[%d] = %s", g.draw(0, k, "swk2"), e)
		// ... then something that may overwrite the storage s0 aliases, then more statements: no fact about an
		// element of s0 may survive it (fixed findings K2d / K2e)
		if g.chance(45, "swdisturb") {
			done := false
			if len(g.helps) > 0 && g.chance(50, "swhelp") {
				a, _ := g.expr(32, typeMax(32), 1)
				g.line("this.%s!(a: %s)", g.helps[g.draw(0, len(g.helps)-1, "swh")], a)
				done = true
			}
			if !done {
				for _, o := range bytes {
					if o.name != ar.name && o.n == ar.n {
						g.line("%s = %s", ar.name, o.name)
						done = true
						break
					}
				}
			}
			if done {
				g.stmt(0)
			}
		}
	}
	g.depth--
	g.line("}")
	if g.chance(40, "swcut") {
		c := g.draw(0, hi, "swc")
		g.line("if %d <= s0.length() {", c)
		g.line("    s0 = s0[.. %d]", c)
		g.line("}")
		for _, a := range g.assignable() {
			if a.width == 32 && a.max.Cmp(typeMax(32)) == 0 {
				g.line("%s = ((s0.length() & 0xFF) as base.u32)", a.name)
				break
			}
		}
	}
}

// iterateStmt emits an iterate loop (doc/note/iterate-loops.md) over one or two
// byte arrays of the struct: windows of a constant length, read and written
// with constant indexes (in bounds only because of the window's length fact),
// an advance that may be smaller than the length (overlapping windows), an
// unroll count, and optionally an else clause for the remainder.
func (g *gen) iterateStmt() {
	bytes := g.byteArrays()
	a0 := bytes[g.draw(0, len(bytes)-1, "itarr")]
	two := len(bytes) > 1 && g.chance(35, "ittwo")
	a1 := bytes[g.draw(0, len(bytes)-1, "itarr2")]
	if a1.name == a0.name {
		two = false
	}
	window := func(ar array) string {
		if g.chance(60, "itwhole") {
			return ar.name + "[..]"
		}
		lo := g.draw(0, ar.n, "itlo")
		hi := g.draw(lo, ar.n, "ithi")
		return fmt.Sprintf("%s[%d .. %d]", ar.name, lo, hi)
	}
	length := []int{1, 2, 3, 4, 8}[g.draw(0, 4, "itlen")]
	advance := length
	if g.chance(35, "itadv") {
		advance = g.draw(1, length, "itadvn")
	}
	unroll := []int{1, 1, 2, 4}[g.draw(0, 3, "itunroll")]
	head := "s0 = " + window(a0)
	if two {
		head += ", s1 = " + window(a1)
	}
	saved := g.locals
	// the body is checked without the enclosing facts: loop indexes lose what an enclosing loop knew
	cp := append([]variable{}, g.locals...)
	for i := range cp {
		if g.loopVars[cp[i].name] {
			cp[i].max = typeMax(cp[i].width)
		}
	}
	g.locals = cp
	g.inIter = true
	body := func(length int) {
		g.depth++
		n := g.draw(1, 3, "itbody")
		for i := 0; i < n; i++ {
			k := g.draw(0, length-1, "itk")
			as := g.assignable()
			switch kind := g.draw(0, 5, "itstmt"); {
			case kind <= 1 && len(as) > 0: // read an element
				v := as[g.draw(0, len(as)-1, "itlhs")]
				src := "s0"
				if two && g.chance(50, "its1") {
					src = "s1"
				}
				elem := fmt.Sprintf("%s[%d]", src, k)
				if v.width != 8 {
					elem = fmt.Sprintf("(%s as %s)", elem, typeName(v.width))
				}
				if v.max.Cmp(typeMax(8)) < 0 {
					g.line("%s = (%s & %s)", v.name, elem, hex(maskFor(v.max)))
				} else if g.chance(50, "itacc") && v.max.Cmp(typeMax(v.width)) == 0 && !g.o.Exclude["K5-self-assign-fact"] {
					g.line("%s ~mod+= %s", v.name, elem)
				} else {
					g.line("%s = %s", v.name, elem)
				}
			case kind <= 3: // write an element
				e, _ := g.expr(8, typeMax(8), 2)
				if two && g.chance(50, "itmix") {
					e = fmt.Sprintf("(s1[%d] ~mod+ %s)", g.draw(0, length-1, "itk2"), e)
				}
				g.line("s0[%d] = %s", k, e)
			default:
				g.stmt(0)
			}
		}
		g.depth--
	}
	g.line("iterate (%s)(length: %d, advance: %d, unroll: %d) {", head, length, advance, unroll)
	body(length)
	if length > 1 && g.chance(60, "itelse") {
		l2 := g.draw(1, length-1, "itlen2")
		g.line("} else (length: %d, advance: %d, unroll: 1) {", l2, g.draw(1, l2, "itadv2"))
		body(l2)
	}
	g.line("}")
	g.inIter = false
	g.locals = saved
}

// indexedWhile emits "while arr[x] <> k { x = (x ~mod+ 1) & M }": with the
// invariant "x <= M" it is provable; without it only a checker that judges the
// condition under the loop's entry facts accepts it (known-finding shape K3).
func (g *gen) indexedWhile() {
	var idx *variable
	for i := range g.locals {
		if g.locals[i].width == 32 && !g.loopVars[g.locals[i].name] && strings.HasPrefix(g.locals[i].name, "v") {
			idx = &g.locals[i]
			break
		}
	}
	if idx == nil {
		return
	}
	ar := g.arrays[g.draw(0, len(g.arrays)-1, "iwarr")]
	m := maskFor(big.NewInt(int64(ar.n - 1)))
	withInv := g.chance(70, "iwinv")
	if !withInv && g.o.excluded("K3-loop-condition-under-entry-facts") {
		withInv = true
	}
	if !withInv && g.chance(50, "iwbig") {
		m = new(big.Int).Add(new(big.Int).Lsh(m, 1), big.NewInt(1)) // a mask that does not fit the array
	}
	g.line("%s = %s", idx.name, hex(g.constant(minBig(m, big.NewInt(int64(ar.n-1))))))
	k := g.constant(ar.emax)
	if withInv {
		g.line("while %s[%s] <> %s,", ar.name, idx.name, hex(k))
		g.line("        inv %s <= %s,", idx.name, hex(m))
		g.line("{")
	} else {
		g.line("while %s[%s] <> %s {", ar.name, idx.name, hex(k))
	}
	g.depth++
	g.loopVars[idx.name] = true
	if g.impure && g.chance(50, "iwstore") && !g.o.excluded("K2-element-store") {
		e, _ := g.expr(ar.width, ar.emax, 1)
		g.line("%s[%s & %s] = %s", ar.name, idx.name, hex(maskFor(big.NewInt(int64(ar.n-1)))), e)
	}
	g.line("%s = ((%s ~mod+ 1) & %s)", idx.name, idx.name, hex(m))
	delete(g.loopVars, idx.name)
	g.depth--
	g.line("}")
}

// ioBindStmt binds the local reader r to a byte array of the struct and peeks
// from it under a length guard. With some probability an inner io_bind to
// another array establishes a length fact first; the peek that follows the
// inner block is then either guarded again (sound) or not (a shape that only a
// checker which lets the inner fact leak would accept).
func (g *gen) ioBindStmt() {
	var bytes []array
	for _, ar := range g.arrays {
		if ar.width == 8 {
			bytes = append(bytes, ar)
		}
	}
	if len(bytes) == 0 {
		return
	}
	outer := bytes[g.draw(0, len(bytes)-1, "bindouter")]
	var targets []variable
	for _, v := range g.assignable() {
		if v.local && v.max.Cmp(typeMax(v.width)) == 0 && (v.width == 32 || v.width == 64) && !g.loopVars[v.name] {
			targets = append(targets, v)
		}
	}
	if len(targets) == 0 {
		return
	}
	tv := targets[g.draw(0, len(targets)-1, "bindtarget")]
	nbytes := []int{1, 2, 3, 4}[g.draw(0, 3, "bindn")]
	if tv.width == 64 {
		nbytes = []int{1, 2, 4, 5, 7, 8}[g.draw(0, 5, "bindn64")]
	}
	// prefer the shape where an inner binding to a LARGER array proves a length the outer one does not have
	innerIdx := -1
	if len(bytes) > 1 && g.chance(50, "bindinner") {
		small, large := 0, 0
		for i, ar := range bytes {
			if ar.n < bytes[small].n {
				small = i
			}
			if ar.n > bytes[large].n {
				large = i
			}
		}
		if bytes[small].n < bytes[large].n && g.chance(70, "bindadversarial") {
			outer, innerIdx = bytes[small], large
			for _, k := range []int{8, 7, 5, 4, 3, 2} {
				if k > outer.n && k <= bytes[large].n && (k <= 4 || tv.width == 64) && k != 6 {
					nbytes = k
					break
				}
			}
		} else {
			innerIdx = g.draw(0, len(bytes)-1, "bindinnerarr")
		}
	}
	peek := fmt.Sprintf("r.peek_u%d%s_as_u%d()", 8*nbytes, []string{"le", "be"}[g.draw(0, 1, "bindend")], tv.width)
	if nbytes == 1 {
		peek = fmt.Sprintf("r.peek_u8_as_u%d()", tv.width)
	} else if 8*nbytes == tv.width {
		peek = fmt.Sprintf("r.peek_u%d%s()", tv.width, []string{"le", "be"}[g.draw(0, 1, "bindend2")])
	}
	g.line("io_bind (io: r, data: %s[..], history_position: 0) {", outer.name)
	g.depth++
	leaked := false
	if innerIdx >= 0 {
		inner := bytes[innerIdx]
		g.line("io_bind (io: r, data: %s[..], history_position: 0) {", inner.name)
		g.depth++
		g.line("if r.length() < %d {", nbytes)
		g.line("    %s", g.retZero)
		g.line("}")
		g.depth--
		g.line("}")
		leaked = true
	}
	guarded := !(leaked && g.chance(35, "bindunguarded"))
	if guarded {
		g.line("if r.length() >= %d {", nbytes)
		g.depth++
	}
	g.line("%s = %s", tv.name, peek)
	if g.chance(40, "bindskip") {
		g.line("r.skip_u32_fast!(actual: %d, worst_case: %d)", nbytes, nbytes)
	}
	if guarded {
		g.depth--
		g.line("}")
	}
	g.depth--
	g.line("}")
}

// fastSeq emits a run of unchecked fast I/O calls under one length guard
// ("length() >= K" or the strict "length() > K-1"), whose sizes add up to
// exactly what the guard proves, with the equal checked slow path in the else
// branch (so that the result does not depend on buffer availability).
func (g *gen) fastSeq() {
	parts := []int{}
	total := 0
	for n := g.draw(1, 4, "fsn"); n > 0; n-- {
		p := []int{1, 1, 2, 2, 3, 4}[g.draw(0, 5, "fsp")]
		parts = append(parts, p)
		total += p
	}
	strict := g.chance(50, "fsstrict")
	guard := fmt.Sprintf(">= %d", total)
	if strict {
		guard = fmt.Sprintf("> %d", total-1)
	}
	if g.hasDst && g.chance(50, "fswrite") {
		g.line("if args.dst.length() %s {", guard)
		g.depth++
		for _, p := range parts {
			switch p {
			case 1:
				g.line("args.dst.write_u8_fast!(a: c8)")
			case 2:
				g.line("args.dst.write_u16be_fast!(a: w16)")
			case 3:
				g.line("args.dst.write_u24le_fast!(a: (r32 & 0xFFFFFF))")
			default:
				g.line("args.dst.write_u32le_fast!(a: r32)")
			}
		}
		g.depth--
		g.line("} else {")
		g.depth++
		for _, p := range parts {
			switch p {
			case 1:
				g.line("args.dst.write_u8?(a: c8)")
			case 2:
				g.line("args.dst.write_u8?(a: (w16 >> 8) as base.u8)")
				g.line("args.dst.write_u8?(a: (w16 & 0xFF) as base.u8)")
			case 3:
				g.line("args.dst.write_u8?(a: (r32 & 0xFF) as base.u8)")
				g.line("args.dst.write_u8?(a: ((r32 >> 8) & 0xFF) as base.u8)")
				g.line("args.dst.write_u8?(a: ((r32 >> 16) & 0xFF) as base.u8)")
			default:
				g.line("args.dst.write_u8?(a: (r32 & 0xFF) as base.u8)")
				g.line("args.dst.write_u8?(a: ((r32 >> 8) & 0xFF) as base.u8)")
				g.line("args.dst.write_u8?(a: ((r32 >> 16) & 0xFF) as base.u8)")
				g.line("args.dst.write_u8?(a: (r32 >> 24) as base.u8)")
			}
		}
		g.depth--
		g.line("}")
		return
	}
	g.line("if args.src.length() %s {", guard)
	g.depth++
	for _, p := range parts {
		switch p {
		case 1:
			g.line("c8 = args.src.peek_u8()")
		case 2:
			g.line("w16 = args.src.peek_u16be()")
		case 3:
			g.line("r32 = args.src.peek_u24le_as_u32()")
		default:
			g.line("r32 = args.src.peek_u32le()")
		}
		g.line("args.src.skip_u32_fast!(actual: %d, worst_case: %d)", p, p)
	}
	g.depth--
	g.line("} else {")
	g.depth++
	for _, p := range parts {
		switch p {
		case 1:
			g.line("c8 = args.src.read_u8?()")
		case 2:
			g.line("w16 = args.src.read_u16be?()")
		case 3:
			g.line("r32 = args.src.read_u24le_as_u32?()")
		default:
			g.line("r32 = args.src.read_u32le?()")
		}
	}
	g.depth--
	g.line("}")
}

// ioStmt emits one I/O idiom inside a coroutine.
func (g *gen) ioStmt() {
	var u8s, u32s, u64s []variable
	for _, v := range g.assignable() {
		if v.max.Cmp(typeMax(v.width)) != 0 {
			continue
		}
		switch v.width {
		case 8:
			u8s = append(u8s, v)
		case 32:
			u32s = append(u32s, v)
		case 64:
			u64s = append(u64s, v)
		}
	}
	pick := func(vs []variable, what string) (variable, bool) {
		if len(vs) == 0 {
			return variable{}, false
		}
		return vs[g.draw(0, len(vs)-1, what)], true
	}
	if bs := g.byteArrays(); g.coro && len(bs) > 0 && g.rare(5, "slicesusp") {
		// near miss: a fact about a local slice used after a suspension point (pointer-typed locals do not survive one)
		ar := bs[g.draw(0, len(bs)-1, "ssarr")]
		n := g.draw(1, ar.n, "ssn")
		g.line("s2 = %s[0 .. %d]", ar.name, n)
		g.line("c8 = args.src.read_u8?()")
		if g.chance(50, "ssstore") {
			g.line("s2[%d] = c8", g.draw(0, n-1, "ssk"))
		} else {
			g.line("c8 = s2[%d]", g.draw(0, n-1, "ssk"))
		}
		return
	}
	switch g.draw(0, 14, "io") {
	case 13, 14:
		if g.o.ChunkOblivious {
			break
		}
		if g.hasHio && g.hasDst && len(u32s) > 0 && g.chance(50, "usehio") {
			v := u32s[g.draw(0, len(u32s)-1, "hiov")]
			g.line("%s = this.hio!(dst: args.dst, src: args.src)", v.name)
			break
		}
		g.ioLimitStmt(u32s)
	case 10, 11, 12:
		g.fastSeq()
	case 0:
		if v, ok := pick(u8s, "io8"); ok {
			g.line("%s = args.src.read_u8?()", v.name)
		}
	case 1, 2:
		if v, ok := pick(u32s, "io32"); ok {
			m := []string{"read_u8_as_u32", "read_u16le_as_u32", "read_u16be_as_u32", "read_u24le_as_u32", "read_u24be_as_u32", "read_u32le", "read_u32be"}[g.draw(0, 6, "rd32")]
			g.line("%s = args.src.%s?()", v.name, m)
		}
	case 3:
		if v, ok := pick(u64s, "io64"); ok {
			m := []string{"read_u8_as_u64", "read_u16le_as_u64", "read_u32be_as_u64", "read_u40le_as_u64", "read_u48be_as_u64", "read_u56le_as_u64", "read_u64le", "read_u64be"}[g.draw(0, 7, "rd64")]
			g.line("%s = args.src.%s?()", v.name, m)
		}
	case 4, 5:
		if !g.hasDst {
			g.ioRead()
			break
		}
		e, _ := g.expr(8, typeMax(8), 2)
		g.line("args.dst.write_u8?(a: %s)", e)
	case 6: // fast path with the equal slow path (chunk-oblivious)
		if v, ok := pick(u32s, "io32"); ok {
			g.line("if args.src.length() >= 4 {")
			g.depth++
			g.line("%s = args.src.peek_u32le()", v.name)
			g.line("args.src.skip_u32_fast!(actual: 4, worst_case: 4)")
			g.depth--
			g.line("} else {")
			g.depth++
			g.line("%s = args.src.read_u32le?()", v.name)
			g.depth--
			g.line("}")
		}
	case 7:
		if !g.hasDst {
			g.ioRead()
			break
		}
		e, _ := g.expr(16, typeMax(16), 2)
		tmp := "w16"
		g.line("%s = %s", tmp, e)
		g.line("if args.dst.length() >= 2 {")
		g.depth++
		g.line("args.dst.write_u16le_fast!(a: %s)", tmp)
		g.depth--
		g.line("} else {")
		g.depth++
		g.line("args.dst.write_u8?(a: (%s & 0xFF) as base.u8)", tmp)
		g.line("args.dst.write_u8?(a: (%s >> 8) as base.u8)", tmp)
		g.depth--
		g.line("}")
	case 8:
		if len(g.coros) > 0 {
			ci := g.draw(0, len(g.coros)-1, "subco")
			c := g.coros[ci]
			callArgs := "src: args.src"
			if ci < len(g.coroArg) && g.coroArg[ci] {
				// a local assigned since the last suspension point and used only as this argument
				// cw is assigned after the last suspension point and used only as this argument
				g.line("r32 = args.src.read_u16le_as_u32?()")
				g.line("cw = (r32 ~mod* 3) ~mod+ 1")
				callArgs += ", w: cw"
			}
			if g.o.ChunkOblivious || g.chance(70, "plaincall") {
				g.line("this.%s?(%s)", c, callArgs)
			} else {
				g.line("while true {")
				g.depth++
				g.line("st =? this.%s?(%s)", c, callArgs)
				g.line("if st.is_ok() {")
				g.line("    break")
				g.line("} else if st.is_error() {")
				g.line("    return st")
				g.line("}")
				g.line("yield? st")
				g.depth--
				g.line("}")
			}
		}
	default:
		if !g.o.ChunkOblivious {
			// availability flows into data: legal, but chunk dependent
			if v, ok := pick(u32s, "io32"); ok {
				g.line("%s = (args.src.length() & 0xFFFF) as base.u32", v.name)
			}
		}
	}
}

// ioLimitStmt emits an io_limit block over args.src: under a small (variable or
// constant) limit the block looks at the visible length, peeks under a length
// guard, or runs a private coroutine whose status is captured (a suspension at
// the limit is not an error: the callee resumes at the next call).
func (g *gen) ioLimitStmt(u32s []variable) {
	lim := fmt.Sprintf("(%d as base.u64)", g.draw(0, 9, "limc"))
	if g.chance(60, "limvar") {
		w := []int{8, 32, 64}[g.draw(0, 2, "limw")]
		if v, ok := g.simpleRecv(w); ok {
			m := []int{1, 3, 7, 15}[g.draw(0, 3, "limm")]
			if w == 64 {
				lim = fmt.Sprintf("(%s & %d)", v, m)
			} else {
				lim = fmt.Sprintf("((%s & %d) as base.u64)", v, m)
			}
		}
	}
	kind := g.draw(0, 2, "limkind")
	if kind == 2 && len(g.coros) == 0 {
		kind = 0
	}
	if len(u32s) == 0 {
		kind = 2
		if len(g.coros) == 0 {
			return
		}
	}
	g.line("io_limit (io: args.src, limit: %s) {", lim)
	g.depth++
	switch kind {
	case 0:
		v := u32s[g.draw(0, len(u32s)-1, "limv")]
		g.line("%s = (args.src.length() & 0xFFFF) as base.u32", v.name)
	case 1:
		v := u32s[g.draw(0, len(u32s)-1, "limv")]
		g.line("if args.src.length() >= 2 {")
		g.line("    %s = args.src.peek_u16le_as_u32()", v.name)
		g.line("    args.src.skip_u32_fast!(actual: 2, worst_case: 2)")
		g.line("}")
	default:
		ci := g.draw(0, len(g.coros)-1, "limco")
		callArgs := "src: args.src"
		if ci < len(g.coroArg) && g.coroArg[ci] {
			callArgs += ", w: cw"
		}
		g.line("st =? this.%s?(%s)", g.coros[ci], callArgs)
	}
	g.depth--
	g.line("}")
	if kind == 2 {
		g.line("if st.is_error() {")
		g.line("    return st")
		g.line("}")
	}
}

// ---------------------------------------------------------------- program

// Prog is a generated program.
type Prog struct {
	Pkg string `json:"pkg"`
	Src string `json:"src"`
}

func (g *gen) declLocals() {
	for _, v := range g.locals {
		g.line("var %s : %s", v.name, typeName(v.width))
	}
}

func (g *gen) startFunc(impure, coro bool, args []variable) {
	g.locals, g.args, g.impure, g.coro = nil, args, impure, coro
	g.loopVars = map[string]bool{}
	g.nlocal = 0
	g.depth = 1
	n := g.draw(1, 5, "nlocals")
	g.locals = append(g.locals, variable{name: "i0", width: 32, max: typeMax(32), local: true})
	for i := 0; i < n; i++ {
		g.locals = append(g.locals, g.newLocal([]int{8, 16, 32, 32, 64}[g.draw(0, 4, "lw")]))
	}
	if coro {
		// the I/O idioms need unrefined targets of these widths
		g.locals = append(g.locals, variable{name: "c8", width: 8, max: typeMax(8), local: true},
			variable{name: "r32", width: 32, max: typeMax(32), local: true}, variable{name: "r64", width: 64, max: typeMax(64), local: true},
			variable{name: "w16", width: 16, max: typeMax(16), local: true})
	}
	g.declLocals()
	if coro {
		g.line("var st : base.status")
		g.line("var cw : base.u32")
		g.line("var s2 : slice base.u8")
	} else if impure {
		g.line("var r : base.io_reader")
	}
	if impure && !coro { // the parser rejects iterate inside coroutines
		g.line("var w : base.io_writer")
		g.line("var s0 : slice base.u8")
		g.line("var s1 : slice base.u8")
	}
	g.retZero = ""
}

// Gen draws a program.
func Gen(t *rapid.T, pkg string, o *Options) Prog {
	g := &gen{t: t, o: o}
	w := &g.b
	fmt.Fprintf(w, "pub status \"#bad\"\n\n")
	// named scalar constants: one per width (most of the time), plus up to two more
	{
		var widths []int
		if g.chance(75, "kall") {
			widths = []int{8, 16, 32, 64}
		}
		for i, nk := 0, g.draw(0, 2, "nconsts"); i < nk; i++ {
			widths = append(widths, []int{8, 16, 32, 64, 64}[g.draw(0, 4, "kw")])
		}
		for i, width := range widths {
			lim := typeMax(width)
			if g.chance(60, "ksmall") {
				lim = minBig(lim, big.NewInt(0xFFFF))
			}
			v := g.constant(lim)
			name := fmt.Sprintf("K%d", i)
			fmt.Fprintf(w, "pri const %s : %s = %s\n\n", name, typeName(width), hex(v))
			g.consts = append(g.consts, variable{name: name, width: width, max: v})
		}
	}
	// tables
	for i := 0; i < g.draw(0, 2, "ntables"); i++ {
		n := []int{2, 3, 4, 8, 16}[g.draw(0, 4, "tn")]
		width := []int{8, 8, 16, 32}[g.draw(0, 3, "tw")]
		var vals []string
		for k := 0; k < n; k++ {
			vals = append(vals, hex(g.constant(typeMax(width))))
		}
		name := fmt.Sprintf("T%d", i)
		fmt.Fprintf(w, "pri const %s : roarray[%d] %s = [%s]\n\n", name, n, typeName(width), strings.Join(vals, ", "))
		g.tables = append(g.tables, array{name: name, n: n, width: width, ro: true, emax: typeMax(width)})
	}
	// struct
	fmt.Fprintf(w, "pub struct foo?(\n")
	nf := g.draw(2, 5, "nfields")
	for i := 0; i < nf; i++ {
		width := []int{8, 16, 32, 32, 64}[g.draw(0, 4, "fw")]
		v := variable{name: fmt.Sprintf("this.f%d", i), width: width, max: typeMax(width), field: true}
		typ := typeName(width)
		if g.chance(25, "refined") {
			v.max = g.constant(typeMax(width))
			if v.max.Sign() == 0 {
				v.max = big.NewInt(1)
			}
			typ = fmt.Sprintf("%s[..= %s]", typ, hex(v.max))
		}
		fmt.Fprintf(w, "    f%d : %s,\n", i, typ)
		g.fields = append(g.fields, v)
	}
	na := g.draw(1, 4, "narrays")
	second := g.chance(40, "secondpart")
	for i := 0; i < na; i++ {
		if second && i == na-1 {
			fmt.Fprintf(w, ") + (\n")
		}
		n := []int{3, 4, 8, 10, 16, 32, 64}[g.draw(0, 6, "an")]
		width := []int{8, 8, 16, 32}[g.draw(0, 3, "aw")]
		if i > 0 && g.chance(40, "twin") { // same shape as the previous array: whole-array assignments become possible
			n, width = g.arrays[i-1].n, g.arrays[i-1].width
		}
		emax, et := typeMax(width), typeName(width)
		if g.chance(30, "refelem") && !(second && i == na-1) {
			emax = big.NewInt(int64([]int{1, 2, 3, 7, 9, 15, 63}[g.draw(0, 6, "refemax")]))
			et = fmt.Sprintf("%s[..= %s]", et, hex(emax))
		}
		fmt.Fprintf(w, "    a%d : array[%d] %s,\n", i, n, et)
		g.arrays = append(g.arrays, array{name: fmt.Sprintf("this.a%d", i), n: n, width: width, emax: emax})
	}
	nested := 0
	if g.chance(25, "nested") && !second {
		nested = []int{2, 4, 8}[g.draw(0, 2, "nestn")]
		fmt.Fprintf(w, "    g0 : array[4] array[%d] base.u8,\n", nested)
	}
	fmt.Fprintf(w, ")\n\n")
	if nested > 0 {
		// a pure method that reads a row through a local slice; storing through that
		// slice is a shape only a checker with a hole in its read-only types accepts
		fmt.Fprintf(w, "pub func foo.peek_g0() base.u64 {\n    var s : roslice base.u8\n    var i : base.u32\n    var t : base.u64\n    while i < 4 {\n        s = this.g0[i][0 .. %d]\n        t = ((t ~mod* 257) ~mod+ (s[0] as base.u64))\n        i += 1\n    }\n    return t\n}\n\n", nested)
		if g.rare(12, "nestedwrite") {
			if g.chance(50, "pokecompound") {
				// ... or a compound assignment through a correctly typed read-only alias
				fmt.Fprintf(w, "pub func foo.poke_g0() base.u64 {\n    var s : roslice base.u8\n    s = this.g0[%d][0 .. %d]\n    s[%d] %s %d\n    return s[0] as base.u64\n}\n\n", g.draw(0, 3, "pokerow"), nested, g.draw(0, nested-1, "pokecol"),
					[]string{"~mod+=", "^=", "|=", "~sat+=", "~mod-="}[g.draw(0, 4, "pokeop")], g.draw(1, 255, "pokeval"))
			} else {
				fmt.Fprintf(w, "pub func foo.poke_g0() base.u64 {\n    var s : slice base.u8\n    s = this.g0[%d][0 .. %d]\n    s[%d] = %d\n    return s[0] as base.u64\n}\n\n", g.draw(0, 3, "pokerow"), nested, g.draw(0, nested-1, "pokecol"), g.draw(1, 255, "pokeval"))
			}
		}
		fmt.Fprintf(w, "pub func foo.fill_g0!(v: base.u8) {\n    var i : base.u32\n    while i < 4 {\n        this.g0[i][0] = args.v\n        this.g0[i][%d] = args.v ~mod+ (i as base.u8)\n        i += 1\n    }\n}\n\n", nested-1)
	}
	// getters: the observable state
	for i, f := range g.fields {
		fmt.Fprintf(w, "pub func foo.get_f%d() %s {\n    return this.f%d\n}\n\n", i, typeName(f.width), i)
	}
	for i, ar := range g.arrays {
		fmt.Fprintf(w, "pub func foo.sum_a%d() base.u64 {\n    var i : base.u32\n    var s : base.u64\n    while i < %d {\n        s = ((s ~mod* 31) ~mod+ (this.a%d[i] as base.u64))\n        i += 1\n    }\n    return s\n}\n\n", i, ar.n, i)
	}
	// private pure helpers
	for i := 0; i < g.draw(0, 2, "npure"); i++ {
		g.locals, g.impure, g.coro = nil, false, false
		g.args = []variable{{name: "args.a", width: 32, max: typeMax(32), arg: true}}
		e, _ := g.expr(32, typeMax(32), 3)
		fmt.Fprintf(w, "pri func foo.p%d(a: base.u32) base.u32 {\n    return %s\n}\n\n", i, e)
		g.pures = append(g.pures, fmt.Sprintf("p%d", i))
	}
	// private impure helpers
	for i := 0; i < g.draw(0, 2, "nhelp"); i++ {
		fmt.Fprintf(w, "pri func foo.h%d!(a: base.u32) {\n", i)
		g.startFunc(true, false, []variable{{name: "args.a", width: 32, max: typeMax(32), arg: true}})
		g.retZero = "return nothing"
		g.stmts(g.draw(1, 4, "nh"), 1)
		fmt.Fprintf(w, "}\n\n")
		g.helps = append(g.helps, fmt.Sprintf("h%d", i))
	}
	// a private impure (not coroutine, not status-returning) helper over both streams, with explicit returns:
	// the generated C must save the derived pointers of both arguments before each return
	if !g.o.ChunkOblivious && g.chance(40, "hio") {
		g.hasHio = true
		fmt.Fprintf(w, "pri func foo.hio!(dst: base.io_writer, src: base.io_reader) base.u32 {\n")
		fmt.Fprintf(w, "    var x : base.u32\n")
		n := g.draw(1, 3, "hion")
		fmt.Fprintf(w, "    if args.src.length() >= %d {\n", n)
		fmt.Fprintf(w, "        x = args.src.peek_u8_as_u32()\n")
		fmt.Fprintf(w, "        args.src.skip_u32_fast!(actual: %d, worst_case: %d)\n", n, n)
		fmt.Fprintf(w, "        if args.dst.length() >= 1 {\n")
		fmt.Fprintf(w, "            args.dst.write_u8_fast!(a: (x & 0xFF) as base.u8)\n")
		if g.chance(50, "hioearly") {
			fmt.Fprintf(w, "            return x ~mod+ %d\n", g.draw(1, 1000, "hiok"))
		}
		fmt.Fprintf(w, "        }\n")
		fmt.Fprintf(w, "        return x\n")
		fmt.Fprintf(w, "    }\n")
		fmt.Fprintf(w, "    return 0x%X\n", g.draw(256, 70000, "hiod"))
		fmt.Fprintf(w, "}\n\n")
	}
	// private coroutines
	for i := 0; i < g.draw(0, 2, "ncoro"); i++ {
		withArg := g.chance(50, "coroarg")
		if withArg {
			fmt.Fprintf(w, "pri func foo.c%d?(src: base.io_reader, w: base.u32) {\n", i)
			g.startFunc(true, true, []variable{{name: "args.w", width: 32, max: typeMax(32), arg: true}})
		} else {
			fmt.Fprintf(w, "pri func foo.c%d?(src: base.io_reader) {\n", i)
			g.startFunc(true, true, nil)
		}
		g.coroArg = append(g.coroArg, withArg)
		g.hasDst = false
		saved := g.coros
		g.coros = nil // no nesting beyond one level from private coroutines
		n := g.draw(1, 4, "nc")
		for k := 0; k < n; k++ {
			if g.chance(60, "coroio") {
				g.ioRead()
			} else {
				g.stmt(1)
			}
		}
		if g.chance(20, "corobad") {
			g.line("if %s {", g.cond())
			g.line("    return \"#bad\"")
			g.line("}")
		}
		if withArg && len(g.fields) > 0 {
			// the argument is used after the callee's own suspension points
			for _, f := range g.fields {
				if f.max.Cmp(typeMax(f.width)) == 0 && f.width >= 32 {
					g.line("%s ~mod+= %s", f.name, conv("args.w", 32, f.width))
					break
				}
			}
		}
		g.coros = saved
		fmt.Fprintf(w, "}\n\n")
		g.coros = append(g.coros, fmt.Sprintf("c%d", i))
	}
	// public impure methods
	for i := 0; i < g.draw(1, 2, "nstep"); i++ {
		fmt.Fprintf(w, "pub func foo.step_%d!(a: base.u32, b: base.u8) base.u32 {\n", i)
		g.startFunc(true, false, []variable{{name: "args.a", width: 32, max: typeMax(32), arg: true}, {name: "args.b", width: 8, max: typeMax(8), arg: true}})
		g.retZero = "return 0"
		g.stmts(g.draw(2, 8, "nstep"), 2)
		e, _ := g.expr(32, typeMax(32), 3)
		g.line("return %s", e)
		fmt.Fprintf(w, "}\n\n")
	}
	// a public setter with a refined parameter (run-time argument check)
	var setters []string
	for i, f := range g.fields {
		if f.max.Cmp(typeMax(f.width)) != 0 && g.chance(60, "setter") {
			fmt.Fprintf(w, "pub func foo.set_f%d!(v: %s[..= %s]) {\n    this.f%d = args.v\n}\n\n", i, typeName(f.width), hex(f.max), i)
			setters = append(setters, fmt.Sprintf("set_f%d", i))
		}
	}
	// public pure methods with a body (observable state must not change when they are called); with some
	// probability one contains a bare call of an impure method: a near miss that the tree must reject
	for i, nc := 0, g.draw(0, 2, "ncalc"); i < nc; i++ {
		fmt.Fprintf(w, "pub func foo.calc_%d() base.u32 {\n", i)
		g.startFunc(false, false, nil)
		g.retZero = "return 0"
		g.stmts(g.draw(1, 5, "ncalcst"), 1)
		if g.rare(8, "calcimpure") {
			switch {
			case len(g.helps) > 0 && g.chance(60, "calchelp"):
				e, _ := g.expr(32, typeMax(32), 1)
				g.line("this.%s!(a: %s)", g.helps[g.draw(0, len(g.helps)-1, "calch")], e)
			case len(setters) > 0:
				g.line("this.%s!(v: 0)", setters[g.draw(0, len(setters)-1, "calcs")])
			}
		}
		e, _ := g.expr(32, typeMax(32), 3)
		g.line("return %s", e)
		fmt.Fprintf(w, "}\n\n")
	}
	// the public coroutine: an opcode interpreter over the source
	fmt.Fprintf(w, "pub func foo.run?(dst: base.io_writer, src: base.io_reader) {\n")
	g.startFunc(true, true, nil)
	g.hasDst = true
	nops := g.draw(2, 6, "nops")
	g.line("while true {")
	g.depth++
	g.line("c8 = args.src.read_u8?()")
	g.line("if c8 == 0 {")
	g.line("    return ok")
	for op := 1; op <= nops; op++ {
		g.line("} else if c8 == %d {", op)
		g.depth++
		n := g.draw(1, 4, "nbody")
		for k := 0; k < n; k++ {
			if g.chance(55, "runio") {
				g.ioStmt()
			} else {
				g.stmt(1)
			}
		}
		g.depth--
	}
	g.line("} else if c8 == 0xFF {")
	g.line("    return \"#bad\"")
	g.line("}")
	g.depth--
	g.line("}")
	fmt.Fprintf(w, "}\n")
	// sometimes a second public coroutine, so that call histories can interleave two of them
	if g.chance(40, "second-coroutine") {
		fmt.Fprintf(w, "\npub func foo.drain?(dst: base.io_writer, src: base.io_reader) {\n")
		g.startFunc(true, true, nil)
		g.hasDst = true
		g.line("while true {")
		g.depth++
		g.line("c8 = args.src.read_u8?()")
		g.line("if c8 == 0 {")
		g.line("    return ok")
		g.line("} else if c8 == 0xFE {")
		g.line("    return \"#bad\"")
		g.line("}")
		g.ioStmt()
		g.line("args.dst.write_u8?(a: c8)")
		g.depth--
		g.line("}")
		fmt.Fprintf(w, "}\n")
	}
	return Prog{Pkg: pkg, Src: g.b.String()}
}

// ioRead emits a read inside a private coroutine.
func (g *gen) ioRead() {
	switch g.draw(0, 3, "cr") {
	case 0:
		g.line("c8 = args.src.read_u8?()")
	case 1:
		g.line("r32 = args.src.%s?()", []string{"read_u16le_as_u32", "read_u24be_as_u32", "read_u32le"}[g.draw(0, 2, "cr32")])
	case 2:
		g.line("r64 = args.src.%s?()", []string{"read_u40be_as_u64", "read_u64le", "read_u16be_as_u64"}[g.draw(0, 2, "cr64")])
	default:
		if len(g.fields) > 0 {
			f := g.fields[g.draw(0, len(g.fields)-1, "crf")]
			if f.max.Cmp(typeMax(f.width)) == 0 {
				switch f.width {
				case 8:
					g.line("%s = args.src.read_u8?()", f.name)
				case 32:
					g.line("%s = args.src.read_u24le_as_u32?()", f.name)
				case 64:
					g.line("%s = args.src.read_u48le_as_u64?()", f.name)
				}
			}
		}
	}
}

// ---------------------------------------------------------------- near-miss mutation

var (
	numRE  = regexp.MustCompile(`\b(0x[0-9A-F]+|[0-9]+)\b`)
	cmpRE  = regexp.MustCompile(` (<=|<|>=|>) `)
	maskRE = regexp.MustCompile(` & (0x[0-9A-F]+|[0-9]+)\)`)
)

// Mutate applies one near-miss mutation to a program text: the result is
// unsafe by design; whichever mutants the checker still accepts are run like
// any other program.
func Mutate(t *rapid.T, src string, label string) (string, string) {
	lines := strings.Split(src, "\n")
	// candidate lines: inside function bodies
	var cand []int
	for i, l := range lines {
		if strings.HasPrefix(l, "    ") && !strings.Contains(l, "var ") {
			cand = append(cand, i)
		}
	}
	if len(cand) == 0 {
		return src, "none"
	}
	li := cand[rapid.IntRange(0, len(cand)-1).Draw(t, label+"_line")]
	l := lines[li]
	kind := rapid.IntRange(0, 5).Draw(t, label+"_kind")
	name := "none"
	switch kind {
	case 0, 1: // change a numeric literal
		locs := numRE.FindAllStringIndex(l, -1)
		if len(locs) > 0 {
			loc := locs[rapid.IntRange(0, len(locs)-1).Draw(t, label+"_num")]
			old := l[loc[0]:loc[1]]
			v, _ := new(big.Int).SetString(strings.TrimPrefix(old, "0x"), map[bool]int{true: 16, false: 10}[strings.HasPrefix(old, "0x")])
			if v != nil {
				switch rapid.IntRange(0, 4).Draw(t, label+"_how") {
				case 0:
					v.Add(v, big.NewInt(1))
				case 1:
					if v.Sign() > 0 {
						v.Sub(v, big.NewInt(1))
					}
				case 2:
					v.Lsh(v, 1)
				case 3:
					v.Lsh(v, 1).Add(v, big.NewInt(1))
				default:
					v.Rsh(v, 1)
				}
				l = l[:loc[0]] + hex(v) + l[loc[1]:]
				name = "literal"
			}
		}
	case 2: // swap a comparison
		if loc := cmpRE.FindStringSubmatchIndex(l); loc != nil {
			old := l[loc[2]:loc[3]]
			nw := map[string]string{"<": "<=", "<=": "<", ">": ">=", ">=": ">"}[old]
			l = l[:loc[2]] + nw + l[loc[3]:]
			name = "comparison"
		}
	case 3: // drop a mask
		if loc := maskRE.FindStringIndex(l); loc != nil {
			l = l[:loc[0]] + ")" + l[loc[1]:]
			name = "drop-mask"
		}
	case 4: // modular operator back to the plain one
		for _, pr := range [][2]string{{" ~mod+ ", " + "}, {" ~mod- ", " - "}, {" ~mod* ", " * "}, {" ~sat+ ", " + "}, {" ~sat- ", " - "}, {" ~mod+= ", " += "}, {" ~sat+= ", " += "}, {" ~mod-= ", " -= "}} {
			if strings.Contains(l, pr[0]) {
				l = strings.Replace(l, pr[0], pr[1], 1)
				name = "unmod"
				break
			}
		}
	default: // retarget an array
		re := regexp.MustCompile(`this\.a([0-9])\[`)
		if loc := re.FindStringSubmatchIndex(l); loc != nil {
			d := l[loc[2]:loc[3]]
			nd := fmt.Sprint((int(d[0]-'0') + 1) % 3)
			l = l[:loc[2]] + nd + l[loc[3]:]
			name = "retarget-array"
		}
	}
	lines[li] = l
	return strings.Join(lines, "\n"), name
}
