// Package c10 decides property C10 for the standard library: compiled Wuffs
// code is hermetic (static inspection of the object compiled from the C
// regenerated from the tree) and pure methods leave the receiver and all
// buffers bit-for-bit unchanged (dynamic probes in every receiver state).
package c10

import (
	"bufio"
	"bytes"
	"encoding/json"
	"fmt"
	"os"
	"os/exec"
	"path/filepath"
	"regexp"
	"sort"
	"strconv"
	"strings"
	"testing"

	"pgregory.net/rapid"

	"verif/internal/ev"
	"verif/stdgen"
	"verif/stdh"
	"verif/stdrun"
)

func TestMain(m *testing.M) { ev.Main(m) }

var (
	pubStructRE = regexp.MustCompile(`(?m)^pub struct ([a-z0-9_]+)`)
	pubFuncRE   = regexp.MustCompile(`(?m)^pub func ([a-z0-9_]+)\.([a-z0-9_]+)[!?]?\(`)
	priFuncRE   = regexp.MustCompile(`(?m)^pri func ([a-z0-9_]+)\.([a-z0-9_]+)[!?]?\(`)
	constRE     = regexp.MustCompile(`(?m)^(pub|pri) const `)
)

type pkgInfo struct {
	name                  string
	expected              map[string]bool
	private               map[string]bool
	npub, npri, nconst    int
}

// scanSources computes, independently of the compiler, the set of function
// symbols each std package may export.
func scanSources(root string) (map[string]*pkgInfo, error) {
	dirs, err := os.ReadDir(filepath.Join(root, "std"))
	if err != nil {
		return nil, err
	}
	out := map[string]*pkgInfo{}
	for _, d := range dirs {
		if !d.IsDir() {
			continue
		}
		p := &pkgInfo{name: d.Name(), expected: map[string]bool{}, private: map[string]bool{}}
		files, _ := filepath.Glob(filepath.Join(root, "std", d.Name(), "*.wuffs"))
		for _, f := range files {
			b, err := os.ReadFile(f)
			if err != nil {
				return nil, err
			}
			s := string(b)
			for _, m := range pubStructRE.FindAllStringSubmatch(s, -1) {
				p.expected["wuffs_"+p.name+"__"+m[1]+"__initialize"] = true
				p.expected["wuffs_"+p.name+"__"+m[1]+"__alloc"] = true
				p.expected["sizeof__wuffs_"+p.name+"__"+m[1]] = true
			}
			for _, m := range pubFuncRE.FindAllStringSubmatch(s, -1) {
				p.expected["wuffs_"+p.name+"__"+m[1]+"__"+m[2]] = true
				p.npub++
			}
			for _, m := range priFuncRE.FindAllStringSubmatch(s, -1) {
				p.private["wuffs_"+p.name+"__"+m[1]+"__"+m[2]] = true
				p.npri++
			}
			p.nconst += len(constRE.FindAllString(s, -1))
		}
		if len(files) > 0 {
			out[p.name] = p
		}
	}
	return out, nil
}

func tool(name string, args ...string) (string, error) {
	out, err := exec.Command(name, args...).CombinedOutput()
	return string(out), err
}

var allowedUndefined = map[string]bool{"memcpy": true, "memmove": true, "memset": true, "memcmp": true, "calloc": true, "free": true}

// StaticCase names the object under inspection (for replay).
type StaticCase struct {
	Which string `json:"which"`
}

func checkStatic() (msgs []string, pkgs map[string]*pkgInfo, stats map[string]int) {
	obj := os.Getenv("VERIF_SNAP_OBJ")
	root := os.Getenv("VERIF_GEN_ROOT")
	stats = map[string]int{}
	if obj == "" || root == "" {
		return []string{"INTERNAL: VERIF_SNAP_OBJ / VERIF_GEN_ROOT not set"}, nil, stats
	}
	pkgs, err := scanSources(root)
	if err != nil {
		return []string{"INTERNAL: " + err.Error()}, nil, stats
	}
	// sections
	sz, err := tool("size", "-A", obj)
	if err != nil {
		return []string{"INTERNAL: size: " + sz}, pkgs, stats
	}
	for _, l := range strings.Split(sz, "\n") {
		f := strings.Fields(l)
		if len(f) < 2 {
			continue
		}
		n, _ := strconv.Atoi(f[1])
		switch {
		case f[0] == ".data" || f[0] == ".bss" || f[0] == ".tdata" || f[0] == ".tbss" || strings.HasPrefix(f[0], ".data.") && !strings.HasPrefix(f[0], ".data.rel.ro") || strings.HasPrefix(f[0], ".bss."):
			if n != 0 {
				msgs = append(msgs, fmt.Sprintf("writable section %s has %d bytes (the library must have no writable global or thread-local data)", f[0], n))
			}
			stats["writable-sections-inspected"]++
		}
	}
	// symbols
	nm, err := tool("nm", "-S", obj)
	if err != nil {
		return []string{"INTERNAL: nm: " + nm}, pkgs, stats
	}
	type fn struct {
		addr, size uint64
		name       string
	}
	var funcs []fn
	globalT := map[string]bool{}
	sc := bufio.NewScanner(strings.NewReader(nm))
	for sc.Scan() {
		f := strings.Fields(sc.Text())
		switch len(f) {
		case 2: // undefined / common without size: "U name"
			if f[0] == "U" {
				stats["undefined-symbols"]++
				if !allowedUndefined[f[1]] {
					msgs = append(msgs, fmt.Sprintf("undefined external symbol %s (only memcpy/memmove/memset/memcmp, and calloc/free from the alloc functions, are allowed)", f[1]))
				}
			}
		case 3: // "addr type name" (no size)
			if f[1] == "C" || f[1] == "B" || f[1] == "b" {
				msgs = append(msgs, fmt.Sprintf("writable global %s (%s)", f[2], f[1]))
			}
		case 4:
			addr, _ := strconv.ParseUint(f[0], 16, 64)
			size, _ := strconv.ParseUint(f[1], 16, 64)
			typ, name := f[2], f[3]
			switch typ {
			case "T", "t":
				funcs = append(funcs, fn{addr, size, name})
				if typ == "T" {
					globalT[name] = true
				}
			case "B", "b", "C", "S", "s", "G", "g":
				msgs = append(msgs, fmt.Sprintf("writable global %s (%s, %d bytes)", name, typ, size))
			case "D", "d":
				// allowed only when the symbol lives in a read-only-after-relocation section (checked through objdump -t below)
				stats["data-symbols"]++
			}
		}
	}
	ot, _ := tool("objdump", "-t", obj)
	for _, l := range strings.Split(ot, "\n") {
		f := strings.Fields(l)
		if len(f) >= 5 {
			sec := f[len(f)-3]
			if (sec == ".data" || sec == ".bss" || sec == "*COM*" || sec == ".tdata" || sec == ".tbss") && f[len(f)-1] != sec {
				msgs = append(msgs, fmt.Sprintf("symbol %s lives in writable section %s", f[len(f)-1], sec))
			}
		}
	}
	// exported functions per package == the set computed from the sources
	names := make([]string, 0, len(pkgs))
	for n := range pkgs {
		names = append(names, n)
	}
	sort.Strings(names)
	for _, n := range names {
		p := pkgs[n]
		pre1, pre2 := "wuffs_"+n+"__", "sizeof__wuffs_"+n+"__"
		for g := range globalT {
			if strings.HasPrefix(g, pre1) || strings.HasPrefix(g, pre2) {
				stats["exported-functions"]++
				if !p.expected[g] {
					why := "is not a pub method, initialize, alloc or sizeof of that package"
					if p.private[g] {
						why = "is declared pri in the Wuffs source"
					}
					msgs = append(msgs, fmt.Sprintf("package %s exports function %s, which %s", n, g, why))
				}
			}
		}
		for e := range p.expected {
			if !globalT[e] {
				msgs = append(msgs, fmt.Sprintf("package %s: expected exported function %s is missing from the object", n, e))
			}
		}
	}
	// calloc/free only from the alloc convenience functions
	sort.Slice(funcs, func(i, j int) bool { return funcs[i].addr < funcs[j].addr })
	rel, _ := tool("objdump", "-r", "-j", ".text", obj)
	for _, l := range strings.Split(rel, "\n") {
		f := strings.Fields(l)
		if len(f) != 3 {
			continue
		}
		sym := strings.SplitN(f[2], "-", 2)[0]
		sym = strings.SplitN(sym, "+", 2)[0]
		if sym != "calloc" && sym != "free" && sym != "malloc" && sym != "realloc" {
			continue
		}
		off, err := strconv.ParseUint(f[0], 16, 64)
		if err != nil {
			continue
		}
		i := sort.Search(len(funcs), func(i int) bool { return funcs[i].addr > off }) - 1
		stats["allocator-call-sites"]++
		if i < 0 || !strings.Contains(funcs[i].name, "__alloc") {
			where := "?"
			if i >= 0 {
				where = funcs[i].name
			}
			msgs = append(msgs, fmt.Sprintf("%s is called from %s (only the alloc convenience functions may allocate or free)", sym, where))
		}
	}
	return msgs, pkgs, stats
}

func TestStatic(t *testing.T) {
	msgs, pkgs, stats := checkStatic()
	for k, v := range stats {
		ev.ClassN("static-"+k, v)
	}
	for n, p := range pkgs {
		ev.Eval()
		if p.npub >= 1 && p.npri >= 1 && p.nconst >= 1 {
			ev.Nontrivial(ev.Hash("pkg", n), func() any {
				return map[string]any{"package": n, "pub_funcs": p.npub, "pri_funcs": p.npri, "consts": p.nconst, "expected_exports": len(p.expected)}
			})
		}
	}
	if len(msgs) > 0 {
		if len(msgs) > 12 {
			msgs = append(msgs[:12], fmt.Sprintf("… and %d more", len(msgs)-12))
		}
		m := strings.Join(msgs, "\n  ")
		ev.Fail("C10", "static", StaticCase{"snapshot"}, m)
		t.Fatalf("C10 violated (static inspection of the object compiled from the regenerated std):\n  %s", m)
	}
}

// ---------------------------------------------------------------- dynamic clause

// Case is one replayable run with pure-method probes around every call.
type Case struct {
	Kind    string      `json:"kind"`
	Payload []byte      `json:"payload"`
	Plan    stdgen.Plan `json:"plan"`
	Source  string      `json:"source"`
}

func genCase(t *rapid.T, env *stdrun.Env) Case {
	k := env.Kinds[rapid.IntRange(0, len(env.Kinds)-1).Draw(t, "kind")]
	c := Case{Kind: k.Name}
	if k.Iface >= stdh.H32 {
		c.Payload, c.Source = stdgen.Payload(t, "pl", 4000), "hash-payload"
	} else {
		files := stdgen.LoadCorpus(ev.RepoRoot()).Small(k.Pkg(), 12<<10)
		if len(files) > 0 {
			f := files[rapid.IntRange(0, len(files)-1).Draw(t, "file")]
			c.Payload, c.Source = f.Data, "corpus:"+f.Name
			if rapid.IntRange(0, 2).Draw(t, "mutate") == 0 {
				var name string
				c.Payload, name = stdgen.Mutate(t, "m", k.Pkg(), c.Payload)
				c.Source += "+" + name
			}
		} else {
			c.Payload, c.Source = rapid.SliceOfN(rapid.Byte(), 0, 100).Draw(t, "raw"), "raw-bytes"
		}
	}
	c.Plan = stdgen.DrawPlan(t, "plan", len(c.Payload))
	c.Plan.WorkMode = 0
	return c
}

func checkCase(env *stdrun.Env, c Case) (msg string, nontrivial bool, classes []string) {
	k, ok := env.Kind(c.Kind)
	if !ok {
		return "", false, []string{"unknown-kind"}
	}
	resp, err := env.Run("san", k, c.Payload, c.Plan, stdrun.Opts{Pure: true, Seed: 3})
	if err != nil {
		if ce, ok := stdh.IsCrash(err); ok && !ce.Timeout {
			return "", false, []string{"crashed(C03's business)"}
		}
		return "", false, []string{"harness-error"}
	}
	for _, v := range resp.Violations {
		if strings.Contains(v, "pure method") {
			return fmt.Sprintf("%s (%s): %s", c.Kind, c.Source, v), false, nil
		}
	}
	classes = append(classes, "iface-"+[]string{"io_transformer", "image_decoder", "token_decoder", "hasher_u32", "hasher_u64", "hasher_bitvec256"}[k.Iface])
	ev.ClassN("pure-calls", int(resp.NPure))
	mid := resp.NShortRead+resp.NShortWrite+resp.NOtherSusp > 0
	dis := resp.Final != "" && resp.Final[0] == '#'
	if mid {
		classes = append(classes, "probed-mid-suspension")
	}
	if dis {
		classes = append(classes, "probed-while-disabled")
	}
	return "", resp.NPure > 0 && (mid || dis), classes
}

func runCase(t interface{ Fatalf(string, ...any) }, env *stdrun.Env, c Case) {
	ev.Eval()
	msg, nt, classes := checkCase(env, c)
	if msg != "" {
		ev.Fail("C10", "pure", c, msg)
		t.Fatalf("C10 violated: %s", msg)
	}
	for _, cl := range classes {
		ev.Class(cl)
	}
	if nt {
		ev.Nontrivial(ev.Hash(c.Kind, c.Payload, fmt.Sprintf("%+v", c.Plan)), func() any {
			s := c
			if len(s.Payload) > 32 {
				s.Payload = s.Payload[:32]
			}
			return s
		})
	}
}

func TestPropPure(t *testing.T) {
	env, err := stdrun.Get()
	if err != nil {
		t.Fatal(err)
	}
	defer env.Close()
	rapid.Check(t, func(t *rapid.T) {
		runCase(t, env, genCase(t, env))
	})
}

func TestReplay(t *testing.T) {
	p := ev.ReplayPath()
	if p == "" {
		t.Skip("no VERIF_REPLAY")
	}
	r, err := ev.LoadReplay(p)
	if err != nil {
		t.Fatal(err)
	}
	if r.Kind == "static" {
		TestStatic(t)
		return
	}
	env, err := stdrun.Get()
	if err != nil {
		t.Fatal(err)
	}
	defer env.Close()
	var c Case
	if err := json.Unmarshal(bytes.TrimSpace(r.Case), &c); err != nil {
		t.Fatal(err)
	}
	runCase(t, env, c)
}
