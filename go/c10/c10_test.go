// Package c10 decides property C10 for the standard library: compiled Wuffs
// code is hermetic (static inspection of the object compiled from the C
// regenerated from the tree) and pure methods leave the receiver and all
// buffers bit-for-bit unchanged (dynamic probes in every receiver state).
package c10

import (
	"bytes"
	"encoding/json"
	"fmt"
	"os"
	"strings"
	"testing"

	"pgregory.net/rapid"

	"verif/hermetic"
	"verif/internal/ev"
	"verif/stdgen"
	"verif/stdh"
	"verif/stdrun"
)

func TestMain(m *testing.M) { ev.Main(m) }

// StaticCase names the object under inspection (for replay).
type StaticCase struct {
	Which string `json:"which"`
}

func checkStatic() (msgs []string, pkgs map[string]*hermetic.PkgInfo, stats map[string]int) {
	obj := os.Getenv("VERIF_SNAP_OBJ")
	root := os.Getenv("VERIF_GEN_ROOT")
	if obj == "" || root == "" {
		return []string{"INTERNAL: VERIF_SNAP_OBJ / VERIF_GEN_ROOT not set"}, nil, map[string]int{}
	}
	pkgs, err := hermetic.ScanSources(root)
	if err != nil {
		return []string{"INTERNAL: " + err.Error()}, nil, map[string]int{}
	}
	msgs, stats = hermetic.Inspect(obj, pkgs, false)
	return msgs, pkgs, stats
}

func TestStatic(t *testing.T) {
	msgs, pkgs, stats := checkStatic()
	for k, v := range stats {
		ev.ClassN("static-"+k, v)
	}
	for n, p := range pkgs {
		ev.Eval()
		if p.NPub >= 1 && p.NPri >= 1 && p.NConst >= 1 {
			ev.Nontrivial(ev.Hash("pkg", n), func() any {
				return map[string]any{"package": n, "pub_funcs": p.NPub, "pri_funcs": p.NPri, "consts": p.NConst, "expected_exports": len(p.Expected)}
			})
		}
	}
	if len(msgs) > 0 {
		if len(msgs) > 12 {
			msgs = append(msgs[:12], fmt.Sprintf("… and %d more", len(msgs)-12))
		}
		m := strings.Join(msgs, "\n  ")
		ev.Fail("C10", "static", StaticCase{"snapshot"}, m)
		t.Fatalf("C10 violated (static inspection of the object compiled from the regenerated std):\n  %s", m)
	}
}

// ---------------------------------------------------------------- dynamic clause

// Case is one replayable run with pure-method probes around every call.
type Case struct {
	Kind    string      `json:"kind"`
	Payload []byte      `json:"payload"`
	Plan    stdgen.Plan `json:"plan"`
	Source  string      `json:"source"`
}

func genCase(t *rapid.T, env *stdrun.Env) Case {
	k := env.Kinds[rapid.IntRange(0, len(env.Kinds)-1).Draw(t, "kind")]
	c := Case{Kind: k.Name}
	if k.Iface >= stdh.H32 {
		c.Payload, c.Source = stdgen.Payload(t, "pl", 4000), "hash-payload"
	} else {
		files := stdgen.LoadCorpus(ev.RepoRoot()).Small(k.Pkg(), 12<<10)
		if len(files) > 0 {
			f := files[rapid.IntRange(0, len(files)-1).Draw(t, "file")]
			c.Payload, c.Source = f.Data, "corpus:"+f.Name
			if rapid.IntRange(0, 2).Draw(t, "mutate") == 0 {
				var name string
				c.Payload, name = stdgen.Mutate(t, "m", k.Pkg(), c.Payload)
				c.Source += "+" + name
			}
		} else {
			c.Payload, c.Source = rapid.SliceOfN(rapid.Byte(), 0, 100).Draw(t, "raw"), "raw-bytes"
		}
	}
	c.Plan = stdgen.DrawPlan(t, "plan", len(c.Payload))
	c.Plan.WorkMode = 0
	return c
}

func checkCase(env *stdrun.Env, c Case) (msg string, nontrivial bool, classes []string) {
	k, ok := env.Kind(c.Kind)
	if !ok {
		return "", false, []string{"unknown-kind"}
	}
	resp, err := env.Run("san", k, c.Payload, c.Plan, stdrun.Opts{Pure: true, Seed: 3})
	if err != nil {
		if ce, ok := stdh.IsCrash(err); ok && !ce.Timeout {
			return "", false, []string{"crashed(C03's business)"}
		}
		return "", false, []string{"harness-error"}
	}
	for _, v := range resp.Violations {
		if strings.Contains(v, "pure method") {
			return fmt.Sprintf("%s (%s): %s", c.Kind, c.Source, v), false, nil
		}
	}
	classes = append(classes, "iface-"+[]string{"io_transformer", "image_decoder", "token_decoder", "hasher_u32", "hasher_u64", "hasher_bitvec256"}[k.Iface])
	ev.ClassN("pure-calls", int(resp.NPure))
	mid := resp.NShortRead+resp.NShortWrite+resp.NOtherSusp > 0
	dis := resp.Final != "" && resp.Final[0] == '#'
	if mid {
		classes = append(classes, "probed-mid-suspension")
	}
	if dis {
		classes = append(classes, "probed-while-disabled")
	}
	return "", resp.NPure > 0 && (mid || dis), classes
}

func runCase(t interface{ Fatalf(string, ...any) }, env *stdrun.Env, c Case) {
	ev.Eval()
	msg, nt, classes := checkCase(env, c)
	if msg != "" {
		ev.Fail("C10", "pure", c, msg)
		t.Fatalf("C10 violated: %s", msg)
	}
	for _, cl := range classes {
		ev.Class(cl)
	}
	if nt {
		ev.Nontrivial(ev.Hash(c.Kind, c.Payload, fmt.Sprintf("%+v", c.Plan)), func() any {
			s := c
			if len(s.Payload) > 32 {
				s.Payload = s.Payload[:32]
			}
			return s
		})
	}
}

func TestPropPure(t *testing.T) {
	env, err := stdrun.Get()
	if err != nil {
		t.Fatal(err)
	}
	defer env.Close()
	rapid.Check(t, func(t *rapid.T) {
		runCase(t, env, genCase(t, env))
	})
}

func TestReplay(t *testing.T) {
	p := ev.ReplayPath()
	if p == "" {
		t.Skip("no VERIF_REPLAY")
	}
	r, err := ev.LoadReplay(p)
	if err != nil {
		t.Fatal(err)
	}
	if r.Kind == "static" {
		TestStatic(t)
		return
	}
	env, err := stdrun.Get()
	if err != nil {
		t.Fatal(err)
	}
	defer env.Close()
	var c Case
	if err := json.Unmarshal(bytes.TrimSpace(r.Case), &c); err != nil {
		t.Fatal(err)
	}
	runCase(t, env, c)
}
