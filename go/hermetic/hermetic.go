// Package hermetic inspects compiled Wuffs code for property C10's static
// clause (no writable globals, no foreign symbols, only pub API exported),
// using size/nm/objdump as observers and an independent scan of the .wuffs
// sources for the expected export set.
package hermetic

import (
	"bufio"
	"fmt"
	"os"
	"os/exec"
	"path/filepath"
	"regexp"
	"sort"
	"strconv"
	"strings"
)

var (
	pubStructRE = regexp.MustCompile(`(?m)^pub struct ([a-z0-9_]+)`)
	pubFuncRE   = regexp.MustCompile(`(?m)^pub func ([a-z0-9_]+)\.([a-z0-9_]+)[!?]?\(`)
	priFuncRE   = regexp.MustCompile(`(?m)^pri func ([a-z0-9_]+)\.([a-z0-9_]+)[!?]?\(`)
	constRE     = regexp.MustCompile(`(?m)^(pub|pri) const `)
)

type PkgInfo struct {
	Name               string
	Expected           map[string]bool
	Private            map[string]bool
	NPub, NPri, NConst int
}

// ScanSources computes, independently of the compiler, the set of function
// symbols each std package may export.
func ScanSources(root string) (map[string]*PkgInfo, error) {
	dirs, err := os.ReadDir(filepath.Join(root, "std"))
	if err != nil {
		return nil, err
	}
	out := map[string]*PkgInfo{}
	for _, d := range dirs {
		if !d.IsDir() {
			continue
		}
		p := &PkgInfo{Name: d.Name(), Expected: map[string]bool{}, Private: map[string]bool{}}
		files, _ := filepath.Glob(filepath.Join(root, "std", d.Name(), "*.wuffs"))
		for _, f := range files {
			b, err := os.ReadFile(f)
			if err != nil {
				return nil, err
			}
			s := string(b)
			for _, m := range pubStructRE.FindAllStringSubmatch(s, -1) {
				p.Expected["wuffs_"+p.Name+"__"+m[1]+"__initialize"] = true
				p.Expected["wuffs_"+p.Name+"__"+m[1]+"__alloc"] = true
				p.Expected["sizeof__wuffs_"+p.Name+"__"+m[1]] = true
			}
			for _, m := range pubFuncRE.FindAllStringSubmatch(s, -1) {
				p.Expected["wuffs_"+p.Name+"__"+m[1]+"__"+m[2]] = true
				p.NPub++
			}
			for _, m := range priFuncRE.FindAllStringSubmatch(s, -1) {
				p.Private["wuffs_"+p.Name+"__"+m[1]+"__"+m[2]] = true
				p.NPri++
			}
			p.NConst += len(constRE.FindAllString(s, -1))
		}
		if len(files) > 0 {
			out[p.Name] = p
		}
	}
	return out, nil
}

func tool(name string, args ...string) (string, error) {
	out, err := exec.Command(name, args...).CombinedOutput()
	return string(out), err
}

var allowedUndefined = map[string]bool{"memcpy": true, "memmove": true, "memset": true, "memcmp": true, "calloc": true, "free": true}

// StaticCase names the object under inspection (for replay).
type StaticCase struct {
	Which string `json:"which"`
}

// Inspect checks one relocatable object against the hermeticity rules. pkgs are
// the packages whose export sets are judged exactly; allowBase lets undefined
// symbols with the base prefixes through (a package compiled without the base
// implementation).
func Inspect(obj string, pkgs map[string]*PkgInfo, allowBase bool) (msgs []string, stats map[string]int) {
	stats = map[string]int{}
	// sections
	sz, err := tool("size", "-A", obj)
	if err != nil {
		return []string{"INTERNAL: size: " + sz}, stats
	}
	for _, l := range strings.Split(sz, "\n") {
		f := strings.Fields(l)
		if len(f) < 2 {
			continue
		}
		n, _ := strconv.Atoi(f[1])
		switch {
		case f[0] == ".data" || f[0] == ".bss" || f[0] == ".tdata" || f[0] == ".tbss" || strings.HasPrefix(f[0], ".data.") && !strings.HasPrefix(f[0], ".data.rel.ro") || strings.HasPrefix(f[0], ".bss."):
			if n != 0 {
				msgs = append(msgs, fmt.Sprintf("writable section %s has %d bytes (the library must have no writable global or thread-local data)", f[0], n))
			}
			stats["writable-sections-inspected"]++
		}
	}
	// symbols
	nm, err := tool("nm", "-S", obj)
	if err != nil {
		return []string{"INTERNAL: nm: " + nm}, stats
	}
	type fn struct {
		addr, size uint64
		name       string
	}
	var funcs []fn
	globalT := map[string]bool{}
	sc := bufio.NewScanner(strings.NewReader(nm))
	for sc.Scan() {
		f := strings.Fields(sc.Text())
		switch len(f) {
		case 2: // undefined / common without size: "U name"
			if f[0] == "U" {
				stats["undefined-symbols"]++
				if !allowedUndefined[f[1]] && !(allowBase && (strings.HasPrefix(f[1], "wuffs_base__") || strings.HasPrefix(f[1], "wuffs_private_impl__"))) {
					msgs = append(msgs, fmt.Sprintf("undefined external symbol %s (only memcpy/memmove/memset/memcmp, and calloc/free from the alloc functions, are allowed)", f[1]))
				}
			}
		case 3: // "addr type name" (no size)
			if f[1] == "C" || f[1] == "B" || f[1] == "b" {
				msgs = append(msgs, fmt.Sprintf("writable global %s (%s)", f[2], f[1]))
			}
		case 4:
			addr, _ := strconv.ParseUint(f[0], 16, 64)
			size, _ := strconv.ParseUint(f[1], 16, 64)
			typ, name := f[2], f[3]
			switch typ {
			case "T", "t":
				funcs = append(funcs, fn{addr, size, name})
				if typ == "T" {
					globalT[name] = true
				}
			case "B", "b", "C", "S", "s", "G", "g":
				msgs = append(msgs, fmt.Sprintf("writable global %s (%s, %d bytes)", name, typ, size))
			case "D", "d":
				// allowed only when the symbol lives in a read-only-after-relocation section (checked through objdump -t below)
				stats["data-symbols"]++
			}
		}
	}
	ot, _ := tool("objdump", "-t", obj)
	for _, l := range strings.Split(ot, "\n") {
		f := strings.Fields(l)
		if len(f) >= 5 {
			sec := f[len(f)-3]
			if (sec == ".data" || sec == ".bss" || sec == "*COM*" || sec == ".tdata" || sec == ".tbss") && f[len(f)-1] != sec {
				msgs = append(msgs, fmt.Sprintf("symbol %s lives in writable section %s", f[len(f)-1], sec))
			}
		}
	}
	// exported functions per package == the set computed from the sources
	names := make([]string, 0, len(pkgs))
	for n := range pkgs {
		names = append(names, n)
	}
	sort.Strings(names)
	for _, n := range names {
		p := pkgs[n]
		pre1, pre2 := "wuffs_"+n+"__", "sizeof__wuffs_"+n+"__"
		for g := range globalT {
			if strings.HasPrefix(g, pre1) || strings.HasPrefix(g, pre2) {
				stats["exported-functions"]++
				if !p.Expected[g] {
					why := "is not a pub method, initialize, alloc or sizeof of that package"
					if p.Private[g] {
						why = "is declared pri in the Wuffs source"
					}
					msgs = append(msgs, fmt.Sprintf("package %s exports function %s, which %s", n, g, why))
				}
			}
		}
		for e := range p.Expected {
			if !globalT[e] {
				msgs = append(msgs, fmt.Sprintf("package %s: expected exported function %s is missing from the object", n, e))
			}
		}
	}
	// calloc/free only from the alloc convenience functions
	sort.Slice(funcs, func(i, j int) bool { return funcs[i].addr < funcs[j].addr })
	rel, _ := tool("objdump", "-r", "-j", ".text", obj)
	for _, l := range strings.Split(rel, "\n") {
		f := strings.Fields(l)
		if len(f) != 3 {
			continue
		}
		sym := strings.SplitN(f[2], "-", 2)[0]
		sym = strings.SplitN(sym, "+", 2)[0]
		if sym != "calloc" && sym != "free" && sym != "malloc" && sym != "realloc" {
			continue
		}
		off, err := strconv.ParseUint(f[0], 16, 64)
		if err != nil {
			continue
		}
		i := sort.Search(len(funcs), func(i int) bool { return funcs[i].addr > off }) - 1
		stats["allocator-call-sites"]++
		if i < 0 || !strings.Contains(funcs[i].name, "__alloc") {
			where := "?"
			if i >= 0 {
				where = funcs[i].name
			}
			msgs = append(msgs, fmt.Sprintf("%s is called from %s (only the alloc convenience functions may allocate or free)", sym, where))
		}
	}
	return msgs, stats
}

// ScanText computes the expected export set of a single-file package.
func ScanText(pkg string, src string) *PkgInfo {
	p := &PkgInfo{Name: pkg, Expected: map[string]bool{}, Private: map[string]bool{}}
	for _, m := range pubStructRE.FindAllStringSubmatch(src, -1) {
		p.Expected["wuffs_"+pkg+"__"+m[1]+"__initialize"] = true
		p.Expected["wuffs_"+pkg+"__"+m[1]+"__alloc"] = true
		p.Expected["sizeof__wuffs_"+pkg+"__"+m[1]] = true
	}
	for _, m := range pubFuncRE.FindAllStringSubmatch(src, -1) {
		p.Expected["wuffs_"+pkg+"__"+m[1]+"__"+m[2]] = true
		p.NPub++
	}
	for _, m := range priFuncRE.FindAllStringSubmatch(src, -1) {
		p.Private["wuffs_"+pkg+"__"+m[1]+"__"+m[2]] = true
		p.NPri++
	}
	p.NConst = len(constRE.FindAllString(src, -1))
	return p
}
