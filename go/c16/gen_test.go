package c16

import (
	"bytes"
	"compress/flate"
	"compress/zlib"
	"fmt"
	"hash/adler32"
	"io"
	"math"
	"sort"
	"strings"

	"pgregory.net/rapid"

	"verif/internal/ev"
)

// chooser abstracts "uniform integer in [0,k)". Structural choices and small
// data are direct rapid draws (so they shrink); bulk data (long payloads, big
// Huffman tables) is expanded deterministically from a drawn 64-bit seed. The
// resulting buffer is stored in the Case either way, so a Case is replayable
// without the generator.
type chooser interface{ n(k int) int }

type rapidCh struct{ t *rapid.T }

func (c rapidCh) n(k int) int {
	if k <= 1 {
		return 0
	}
	return rapid.IntRange(0, k-1).Draw(c.t, "c")
}

type prng struct{ s uint64 }

func (p *prng) next() uint64 {
	p.s += 0x9E3779B97F4A7C15
	z := p.s
	z = (z ^ (z >> 30)) * 0xBF58476D1CE4E5B9
	z = (z ^ (z >> 27)) * 0x94D049BB133111EB
	return z ^ (z >> 31)
}

func (p *prng) n(k int) int {
	if k <= 1 {
		return 0
	}
	return int(p.next() % uint64(k))
}

func pct(ch chooser, p int) bool { return ch.n(100) < p }

// ---- payloads

var words = strings.Fields("the of and to in is that it was for on are as with his they at be this from have or by one had not but what all were when we there can an your which their said if do will each about how up out them then she many some so these would other into has more her two like him see time could no make than first been its who now people my made over did down only way find use may water long little very after words called just where most know get through back much before go good new write our used me man too any day same right look think also around another came come work three word must because does part even place well such here take why things help put years different away again off went old number great tell men say small every found still between name should home big give air line set own under read last never us left end along while might next sound below saw something thought both few those always looked show large often together asked house world going want school important until form food keep children feet land side without boy once animals life enough took sometimes four head above kind began almost live page got earth need far hand high year mother light parts country father let night following picture being study second eyes soon times story boys since white days ever paper hard near sentence better best across during today others however sure means knew try told young miles sun ways thing whole hear example heard several change answer room sea against top turned learn point city play toward five using himself usually")

func expand(class string, n int, seed uint64) []byte {
	p := &prng{s: seed}
	out := make([]byte, 0, n)
	switch class {
	case "random":
		for len(out) < n {
			v := p.next()
			for i := 0; i < 8 && len(out) < n; i++ {
				out = append(out, byte(v>>(8*i)))
			}
		}
	case "text":
		for len(out) < n {
			out = append(out, words[p.n(len(words))]...)
			switch p.n(12) {
			case 0:
				out = append(out, ". "...)
			case 1:
				out = append(out, ",\n"...)
			default:
				out = append(out, ' ')
			}
		}
	case "rep":
		per := 1 + p.n(12)
		pat := make([]byte, per)
		for i := range pat {
			pat[i] = byte('a' + p.n(26))
		}
		for len(out) < n {
			out = append(out, pat...)
		}
	case "runs":
		for len(out) < n {
			b := byte(p.n(256))
			k := 1 + p.n(600)
			if p.n(4) == 0 {
				k = 1 + p.n(5)
			}
			for ; k > 0 && len(out) < n; k-- {
				out = append(out, b)
			}
		}
	case "far":
		// a random chunk, > 30 KiB of other material, the chunk again.
		a := expand("random", 200+p.n(3000), p.next())
		for len(out) < n {
			out = append(out, a...)
			gap := 28000 + p.n(5000)
			if p.n(2) == 0 {
				out = append(out, expand("text", gap, p.next())...)
			} else {
				out = append(out, expand("random", gap, p.next())...)
			}
		}
	case "mixed":
		cl := []string{"random", "text", "rep", "runs"}
		for len(out) < n {
			out = append(out, expand(cl[p.n(4)], 20+p.n(1500), p.next())...)
		}
	default:
		panic("class " + class)
	}
	return out[:n]
}

// rapid's integer draws favour small values (measured on 0..9: 16,16,10,10,8,8,8,8,7,9 %),
// so weighted choices are written as short tables indexed by a 0..9 draw.
var payloadClasses = []string{"text", "random", "mixed", "rep", "runs", "far", "tiny", "one", "empty"}

func pick10(t *rapid.T, label string, table [10]string) string {
	return table[rapid.IntRange(0, 9).Draw(t, label)]
}

// genPayload draws (class, size, seed). Sizes are chosen so that most streams
// stay <= 600 bytes (exhaustive limits).
func genPayload(t *rapid.T, small bool) (class string, p []byte) {
	class = rapid.SampledFrom(payloadClasses).Draw(t, "pclass")
	big := pick10(t, "psizeclass", [10]string{"S", "S", "M", "S", "S", "M", "S", "S", "XL", "L"})
	if small {
		big = "S"
		if class == "far" {
			class = "mixed"
		}
	}
	switch class {
	case "empty":
		return class, []byte{}
	case "one":
		return class, []byte{rapid.Byte().Draw(t, "b")}
	case "tiny":
		return class, rapid.SliceOfN(rapid.Byte(), 2, 24).Draw(t, "bytes")
	case "far":
		n := rapid.IntRange(33000, 70000).Draw(t, "psize")
		if ev.Thorough() && big != "S" {
			n = rapid.IntRange(70000, 200000).Draw(t, "psize2")
		}
		return class, expand(class, n, rapid.Uint64().Draw(t, "pseed"))
	}
	var n int
	switch {
	case big == "S":
		max := map[string]int{"random": 560, "text": 1100, "rep": 4000, "runs": 3000, "mixed": 700}[class]
		n = rapid.IntRange(2, max).Draw(t, "psize")
	case big == "M":
		n = rapid.IntRange(600, 6000).Draw(t, "psize")
	case big == "L":
		n = rapid.IntRange(6000, 40000).Draw(t, "psize")
	default:
		hi := 70000
		if ev.Thorough() {
			hi = 200000
		}
		n = rapid.IntRange(40000, hi).Draw(t, "psize")
	}
	return class, expand(class, n, rapid.Uint64().Draw(t, "pseed"))
}

// ---- Go encoders

func genDict(t *rapid.T, payload []byte) (kind string, dict []byte) {
	switch k := rapid.IntRange(0, 9).Draw(t, "dictkind"); {
	case k < 5:
		return "nodict", nil
	case k < 7: // unrelated to the payload: the stream rarely references it
		n := rapid.IntRange(1, 300).Draw(t, "dictlen")
		return "dict-unrelated", expand("random", n, rapid.Uint64().Draw(t, "dictseed"))
	case k < 9 && len(payload) >= 8: // shares material with the payload: references into the dictionary
		n := rapid.IntRange(4, min(len(payload), 400)).Draw(t, "dictlen")
		off := rapid.IntRange(0, len(payload)-n).Draw(t, "dictoff")
		return "dict-related", append([]byte{}, payload[off:off+n]...)
	default:
		return "dict-text", expand("text", rapid.IntRange(10, 2000).Draw(t, "dictlen"), 7)
	}
}

type goWriter interface {
	Write([]byte) (int, error)
	Flush() error
	Close() error
}

var (
	flateWriters = map[int]*flate.Writer{}
	zlibWriters  = map[int]*zlib.Writer{}
)

// genGo compresses a payload with compress/flate (raw), compress/zlib (no
// dictionary) or compress/flate with a preset dictionary wrapped into a zlib
// container by hand. Writers are reused through Reset.
//
// The payload returned for the preset-dictionary case is what the reference
// decoder yields: Go's encoder emits the dictionary bytes themselves when the
// first block ends up stored (an encoder quirk that has nothing to do with the
// code under test); the container's Adler-32 is computed over that.
func genGo(t *rapid.T, format string, small bool) (stream, payload, dict []byte, tags []string) {
	level := rapid.SampledFrom([]int{-2, 0, 1, 6, 9, -2, 0, 1, 6, 9, 2, 3, 4, 5, 7, 8, -1}).Draw(t, "level")
	class, payload := genPayload(t, small)
	tags = append(tags, "go", fmt.Sprintf("level%d", level), "payload-"+class)
	var buf bytes.Buffer
	var w goWriter
	var err error
	kind := "nodict"
	if format == "zlib" {
		kind, dict = genDict(t, payload)
		tags = append(tags, kind)
	}
	switch {
	case kind != "nodict":
		w, err = flate.NewWriterDict(&buf, level, dict)
	case format == "zlib":
		if zw := zlibWriters[level]; zw != nil {
			zw.Reset(&buf)
			w = zw
		} else {
			zw, err = zlib.NewWriterLevel(&buf, level)
			zlibWriters[level], w = zw, zw
		}
	default:
		if fw := flateWriters[level]; fw != nil {
			fw.Reset(&buf)
			w = fw
		} else {
			fw, err = flate.NewWriter(&buf, level)
			flateWriters[level], w = fw, fw
		}
	}
	if err != nil {
		t.Fatalf("generator: %v", err)
	}
	nflush := 0
	if rapid.IntRange(0, 9).Draw(t, "flushes?") >= 4 {
		nflush = rapid.IntRange(1, 5).Draw(t, "nflush")
	}
	pos := make([]int, nflush)
	for i := range pos {
		pos[i] = rapid.IntRange(0, len(payload)).Draw(t, "flushpos")
	}
	sort.Ints(pos)
	at := 0
	for _, p := range pos {
		w.Write(payload[at:p])
		at = p
		w.Flush()
		if rapid.IntRange(0, 3).Draw(t, "double") == 0 {
			w.Flush()
		}
	}
	w.Write(payload[at:])
	if err := w.Close(); err != nil {
		t.Fatalf("generator: %v", err)
	}
	if nflush > 0 {
		tags = append(tags, "flushed")
	}
	stream = append([]byte{}, buf.Bytes()...)
	if kind != "nodict" {
		r := flate.NewReaderDict(bytes.NewReader(stream), dict)
		got, err := io.ReadAll(r)
		if err != nil {
			t.Fatalf("generator: compress/flate cannot read back its own output: %v", err)
		}
		if !bytes.Equal(got, payload) {
			tags = append(tags, "go-dict-emitted-quirk")
			payload = got
		}
		hdr := []byte{0x78, byte(rapid.IntRange(0, 3).Draw(t, "flevel")<<6) | 0x20}
		fixFcheck(hdr)
		id, sum := adler32.Checksum(dict), adler32.Checksum(payload)
		hdr = append(hdr, byte(id>>24), byte(id>>16), byte(id>>8), byte(id))
		stream = append(append(hdr, stream...), byte(sum>>24), byte(sum>>16), byte(sum>>8), byte(sum))
	}
	return stream, payload, dict, tags
}

// ---- hand-written DEFLATE

type token struct {
	lit    byte
	length int // 0: literal
	dist   int
}

type hwState struct {
	small bool // keep the stream small (robustness bases)
	w     bitWriter
	out   []byte // decoded so far
	tags  map[string]bool
}

// randomDepths returns n code lengths (n >= 1) of a complete prefix code with
// no length above maxDepth, built by splitting leaves of a binary tree.
// mode 0: random leaf; 1: deepest leaf (skewed, reaches maxDepth); 2: shallowest (balanced).
func randomDepths(ch chooser, n, maxDepth, mode int) []int {
	if n == 1 {
		return []int{1}
	}
	leaves := []int{1, 1}
	for len(leaves) < n {
		idx := -1
		switch mode {
		case 1:
			for i, d := range leaves {
				if d < maxDepth && (idx < 0 || d > leaves[idx]) {
					idx = i
				}
			}
		case 2:
			for i, d := range leaves {
				if d < maxDepth && (idx < 0 || d < leaves[idx]) {
					idx = i
				}
			}
		default:
			for tries := 0; tries < 8 && idx < 0; tries++ {
				if i := ch.n(len(leaves)); leaves[i] < maxDepth {
					idx = i
				}
			}
			if idx < 0 {
				for i, d := range leaves {
					if d < maxDepth {
						idx = i
						break
					}
				}
			}
		}
		leaves[idx]++
		leaves = append(leaves, leaves[idx])
	}
	for i := len(leaves) - 1; i > 0; i-- {
		j := ch.n(i + 1)
		leaves[i], leaves[j] = leaves[j], leaves[i]
	}
	return leaves
}

func (h *hwState) stored(t *rapid.T, final bool) {
	var n int
	switch pick10(t, "slenclass", [10]string{"small", "zero", "small", "mid", "small", "zero", "max", "small", "mid", "near"}) {
	case "zero":
		n = 0
	case "small":
		n = rapid.IntRange(1, 40).Draw(t, "slen")
	case "mid":
		n = rapid.IntRange(41, 700).Draw(t, "slen")
	case "max":
		n = 65535
	default:
		n = rapid.IntRange(60000, 65534).Draw(t, "slen")
	}
	if (len(h.out)+n > 140000 || h.small) && n > 700 {
		n = 17
	}
	var data []byte
	if n <= 40 {
		data = rapid.SliceOfN(rapid.Byte(), n, n).Draw(t, "sdata")
	} else {
		data = expand(rapid.SampledFrom([]string{"random", "text", "runs"}).Draw(t, "sclass"), n, rapid.Uint64().Draw(t, "sseed"))
	}
	h.w.bits(b2u(final), 1)
	h.w.bits(0, 2)
	// the bits up to the byte boundary are ignored by decoders: any value.
	fill := uint32(0)
	if rapid.IntRange(0, 3).Draw(t, "padfill") == 0 {
		fill = uint32(rapid.IntRange(0, 31).Draw(t, "padbits"))
		h.tags["hw-nonzero-padding"] = true
	}
	h.w.pad(fill)
	h.w.raw([]byte{byte(n), byte(n >> 8), ^byte(n), ^byte(n >> 8)})
	h.w.raw(data)
	h.out = append(h.out, data...)
}

func b2u(b bool) uint32 {
	if b {
		return 1
	}
	return 0
}

// genTokens draws count tokens, executing them on h.out.
func (h *hwState) genTokens(ch chooser, count int, litPct int, alpha int, oneDistSym int) []token {
	toks := make([]token, 0, count)
	for i := 0; i < count; i++ {
		if len(h.out) == 0 || pct(ch, litPct) || len(h.out) > 150000 {
			var b byte
			switch alpha {
			case 0:
				b = byte('a' + ch.n(6))
			case 1:
				b = byte(ch.n(256))
			default:
				b = byte(144 + ch.n(112)) // 9-bit codes in the fixed table
			}
			toks = append(toks, token{lit: b})
			h.out = append(h.out, b)
			continue
		}
		var l, d int
		switch ch.n(8) {
		case 0:
			l = 3
		case 1:
			l = 258
		case 2:
			l = 10 + ch.n(248)
		case 3:
			l = []int{4, 10, 11, 12, 18, 19, 34, 35, 66, 67, 130, 131, 226, 227, 257}[ch.n(15)]
		default:
			l = 3 + ch.n(12)
		}
		maxd := min(len(h.out), 32768)
		if oneDistSym >= 0 {
			lo, hi := distBase[oneDistSym], distBase[oneDistSym]+(1<<distExtra[oneDistSym])-1
			if lo > maxd {
				// not reachable yet: emit a literal instead.
				toks = append(toks, token{lit: 'z'})
				h.out = append(h.out, 'z')
				continue
			}
			d = lo + ch.n(min(hi, maxd)-lo+1)
		} else {
			switch ch.n(6) {
			case 0:
				d = 1
			case 1:
				d = maxd
			case 2:
				d = 1 + ch.n(min(maxd, 4))
			default:
				d = 1 + ch.n(maxd)
			}
		}
		toks = append(toks, token{length: l, dist: d})
		for k := 0; k < l; k++ {
			h.out = append(h.out, h.out[len(h.out)-d])
		}
	}
	return toks
}

func (h *hwState) writeTokens(toks []token, litLen []int, litCode []uint32, distLen []int, distCode []uint32) {
	for _, tk := range toks {
		if tk.length == 0 {
			h.w.huff(litCode[tk.lit], litLen[tk.lit])
			continue
		}
		s, x, nx := lenSym(tk.length)
		h.w.huff(litCode[257+s], litLen[257+s])
		h.w.bits(x, nx)
		ds, dx, ndx := distSym(tk.dist)
		h.w.huff(distCode[ds], distLen[ds])
		h.w.bits(dx, ndx)
	}
	h.w.huff(litCode[256], litLen[256])
}

func (h *hwState) tokenParams(t *rapid.T) (ch chooser, count, litPct, alpha int) {
	switch pick10(t, "tokclass", [10]string{"small", "mid", "mid", "small", "large", "empty", "mid", "small", "huge", "large"}) {
	case "empty":
		count = 0
	case "small":
		count = rapid.IntRange(1, 8).Draw(t, "ntok")
	case "mid":
		count = rapid.IntRange(9, 60).Draw(t, "ntok")
	case "large":
		count = rapid.IntRange(61, 400).Draw(t, "ntok")
	default:
		count = rapid.IntRange(401, 3000).Draw(t, "ntok")
	}
	if h.small && count > 200 {
		count = 200
	}
	litPct = rapid.SampledFrom([]int{100, 85, 60, 30}).Draw(t, "litpct")
	alpha = rapid.IntRange(0, 2).Draw(t, "alpha")
	if count <= 40 {
		ch = rapidCh{t}
	} else {
		ch = &prng{s: rapid.Uint64().Draw(t, "tokseed")}
	}
	return
}

func (h *hwState) fixed(t *rapid.T, final bool) {
	ch, count, litPct, alpha := h.tokenParams(t)
	toks := h.genTokens(ch, count, litPct, alpha, -1)
	h.w.bits(b2u(final), 1)
	h.w.bits(1, 2)
	ll, dl := fixedLitLengths(), fixedDistLengths()
	h.writeTokens(toks, ll, canonCodes(ll), dl, canonCodes(dl))
}

func (h *hwState) dynamic(t *rapid.T, final bool) {
	ch, count, litPct, alpha := h.tokenParams(t)
	oneDist := -1
	if rapid.IntRange(0, 3).Draw(t, "onedist") == 0 {
		oneDist = rapid.IntRange(0, 29).Draw(t, "onedistsym")
	}
	toks := h.genTokens(ch, count, litPct, alpha, oneDist)
	bulk := &prng{s: rapid.Uint64().Draw(t, "treeseed")}

	// used symbols
	usedL := map[int]bool{256: true}
	usedD := map[int]bool{}
	for _, tk := range toks {
		if tk.length == 0 {
			usedL[int(tk.lit)] = true
		} else {
			s, _, _ := lenSym(tk.length)
			usedL[257+s] = true
			d, _, _ := distSym(tk.dist)
			usedD[d] = true
		}
	}
	// extra, unused symbols that still get a code
	for k := rapid.SampledFrom([]int{0, 0, 1, 3, 12, 40, 200}).Draw(t, "extralit"); k > 0; k-- {
		usedL[bulk.n(286)] = true
	}
	for k := rapid.SampledFrom([]int{0, 0, 0, 1, 2, 8, 29}).Draw(t, "extradist"); k > 0; k-- {
		usedD[bulk.n(30)] = true
	}
	treeMode := rapid.SampledFrom([]int{0, 0, 1, 1, 2}).Draw(t, "treemode")

	build := func(used map[int]bool, size int, maxDepth int, mode int) (lens []int, top int) {
		syms := make([]int, 0, len(used))
		for s := range used {
			syms = append(syms, s)
		}
		sort.Ints(syms)
		lens = make([]int, size)
		if len(syms) == 0 {
			return lens, -1
		}
		d := randomDepths(bulk, len(syms), maxDepth, mode)
		for i, s := range syms {
			lens[s] = d[i]
		}
		return lens, syms[len(syms)-1]
	}

	litLen, topL := build(usedL, 286, 15, treeMode)
	// steer the end-of-block code's length: swap it with a symbol of the wanted length.
	if want := rapid.SampledFrom([]int{0, 0, 0, 1, 2, 7, 8, 9, 9, 10, 12, 15}).Draw(t, "eoblen"); want > 0 {
		best := -1
		for s, l := range litLen {
			if l != 0 && (best < 0 || abs(l-want) < abs(litLen[best]-want)) {
				best = s
			}
		}
		litLen[256], litLen[best] = litLen[best], litLen[256]
	}
	var distLen []int
	topD := -1
	switch {
	case len(usedD) == 0:
		distLen = make([]int, 30)
		switch rapid.IntRange(0, 9).Draw(t, "nodist") {
		case 8: // HDIST=1 with a zero length: no distance codes at all (flatecut refuses these)
			h.tags["hw-no-dist-codes"] = true
		default: // a single, unused, one-bit distance code
			topD = bulk.n(30)
			distLen[topD] = 1
		}
	case len(usedD) == 1 && rapid.IntRange(0, 3).Draw(t, "singledist") != 0:
		distLen, topD = build(usedD, 30, 15, 0) // one code of length 1
		h.tags["hw-single-code-dist-tree"] = true
	default:
		if len(usedD) == 1 {
			usedD[(keys(usedD)[0]+1+bulk.n(29))%30] = true
		}
		distLen, topD = build(usedD, 30, 15, rapid.IntRange(0, 2).Draw(t, "dtreemode"))
	}
	numL := max(257, topL+1)
	numD := max(1, topD+1)
	if rapid.IntRange(0, 3).Draw(t, "padcounts") == 0 {
		numL += bulk.n(286 - numL + 1)
		numD += bulk.n(30 - numD + 1)
	}
	all := append(append([]int{}, litLen[:numL]...), distLen[:numD]...)

	// run-length encode the code lengths
	type clTok struct{ sym, extra int }
	var cls []clTok
	rle := rapid.IntRange(0, 3).Draw(t, "rle") // 0: never, 1..: use repeats when possible
	for i := 0; i < len(all); {
		run := 1
		for i+run < len(all) && all[i+run] == all[i] {
			run++
		}
		switch {
		case rle > 0 && all[i] == 0 && run >= 11 && bulk.n(4) != 0:
			r := min(run, 138)
			if bulk.n(3) == 0 {
				r = 11 + bulk.n(r-11+1)
			}
			cls = append(cls, clTok{18, r - 11})
			i += r
		case rle > 0 && all[i] == 0 && run >= 3 && bulk.n(4) != 0:
			r := min(run, 10)
			if bulk.n(3) == 0 {
				r = 3 + bulk.n(r-3+1)
			}
			cls = append(cls, clTok{17, r - 3})
			i += r
		case rle > 0 && i > 0 && all[i] == all[i-1] && run >= 3 && bulk.n(4) != 0:
			r := min(run, 6)
			if bulk.n(3) == 0 {
				r = 3 + bulk.n(r-3+1)
			}
			cls = append(cls, clTok{16, r - 3})
			i += r
		default:
			cls = append(cls, clTok{all[i], 0})
			i++
		}
	}
	usedC := map[int]bool{}
	for _, c := range cls {
		usedC[c.sym] = true
	}
	if len(usedC) == 1 && rapid.IntRange(0, 3).Draw(t, "singlecl") != 0 {
		usedC[(keys(usedC)[0]+1+bulk.n(18))%19] = true
	}
	for k := rapid.SampledFrom([]int{0, 0, 1, 4}).Draw(t, "extracl"); k > 0; k-- {
		usedC[bulk.n(19)] = true
	}
	clLen, _ := build(usedC, 19, 7, rapid.IntRange(0, 2).Draw(t, "cltreemode"))
	clCode := canonCodes(clLen)
	numC := 4
	for i := 0; i < 19; i++ {
		if clLen[clOrder[i]] != 0 {
			numC = max(numC, i+1)
		}
	}
	if rapid.IntRange(0, 3).Draw(t, "padhclen") == 0 {
		numC += bulk.n(19 - numC + 1)
	}

	h.w.bits(b2u(final), 1)
	h.w.bits(2, 2)
	h.w.bits(uint32(numL-257), 5)
	h.w.bits(uint32(numD-1), 5)
	h.w.bits(uint32(numC-4), 4)
	for i := 0; i < numC; i++ {
		h.w.bits(uint32(clLen[clOrder[i]]), 3)
	}
	for _, c := range cls {
		h.w.huff(clCode[c.sym], clLen[c.sym])
		switch c.sym {
		case 16:
			h.w.bits(uint32(c.extra), 2)
		case 17:
			h.w.bits(uint32(c.extra), 3)
		case 18:
			h.w.bits(uint32(c.extra), 7)
		}
	}
	h.writeTokens(toks, litLen, canonCodes(litLen), distLen, canonCodes(distLen))
}

func abs(x int) int {
	if x < 0 {
		return -x
	}
	return x
}

func keys(m map[int]bool) []int {
	k := make([]int, 0, len(m))
	for s := range m {
		k = append(k, s)
	}
	sort.Ints(k)
	return k
}

// genHW assembles a DEFLATE stream block by block.
func genHW(t *rapid.T, small bool) (stream, payload []byte, tags []string) {
	h := &hwState{tags: map[string]bool{}, small: small}
	nb := rapid.SampledFrom([]int{1, 1, 1, 2, 2, 2, 3, 3, 4, 6}).Draw(t, "nblocks")
	trailingEmpty := rapid.IntRange(0, 3).Draw(t, "finalempty") == 0
	for i := 0; i < nb; i++ {
		final := i == nb-1 && !trailingEmpty
		switch rapid.SampledFrom([]int{0, 1, 1, 2, 2, 2}).Draw(t, "btype") {
		case 0:
			h.stored(t, final)
		case 1:
			h.fixed(t, final)
		default:
			h.dynamic(t, final)
		}
	}
	if trailingEmpty {
		// a final block that adds nothing.
		switch rapid.IntRange(0, 2).Draw(t, "emptytype") {
		case 0:
			h.w.bits(1, 1)
			h.w.bits(0, 2)
			h.w.pad(0)
			h.w.raw([]byte{0, 0, 0xff, 0xff})
		case 1:
			h.w.bits(1, 1)
			h.w.bits(1, 2)
			h.w.huff(0, 7)
		default:
			// dynamic block with only the end-of-block code (one-bit code) and one distance code.
			h.w.bits(1, 1)
			h.w.bits(2, 2)
			h.w.bits(0, 5)  // HLIT = 257
			h.w.bits(0, 5)  // HDIST = 1
			h.w.bits(14, 4) // HCLEN = 18: up to code-length symbol 1
			cl := make([]int, 19)
			cl[18], cl[1], cl[0] = 2, 2, 1
			clc := canonCodes(cl)
			for i := 0; i < 18; i++ {
				h.w.bits(uint32(cl[clOrder[i]]), 3)
			}
			h.w.huff(clc[18], 2)
			h.w.bits(138-11, 7)
			h.w.huff(clc[18], 2)
			h.w.bits(118-11, 7) // 256 zeros
			h.w.huff(clc[1], 2) // symbol 256: length 1
			h.w.huff(clc[1], 2) // distance 0: length 1
			h.w.huff(0, 1)      // end of block
		}
		h.tags["hw-trailing-empty-block"] = true
	}
	// the unused high bits of the last byte may hold anything.
	fill := uint32(0)
	if rapid.IntRange(0, 3).Draw(t, "tailfill") == 0 {
		fill = uint32(rapid.IntRange(0, 127).Draw(t, "tailbits"))
	}
	h.w.pad(fill)
	tags = []string{"hw"}
	for k := range h.tags {
		tags = append(tags, k)
	}
	sort.Strings(tags)
	return h.w.out, h.out, tags
}

func zlibWrap(t *rapid.T, deflate, payload []byte) []byte {
	cmf := byte(0x08 | rapid.IntRange(0, 7).Draw(t, "cinfo")<<4)
	if len(payload) > 256 || rapid.IntRange(0, 1).Draw(t, "cinfo7") == 0 {
		cmf = 0x78 // window large enough for any distance the generator uses
	}
	out := []byte{cmf, byte(rapid.IntRange(0, 3).Draw(t, "flevel") << 6)}
	fixFcheck(out)
	out = append(out, deflate...)
	s := adler32.Checksum(payload)
	return append(out, byte(s>>24), byte(s>>16), byte(s>>8), byte(s))
}

// fixFcheck sets the FCHECK bits of a zlib header.
func fixFcheck(b []byte) {
	b[1] &^= 0x1f
	if rem := (uint(b[0])<<8 | uint(b[1])) % 31; rem != 0 {
		b[1] += byte(31 - rem)
	}
}

// ---- limits

// setLimits fills the limit set: every limit from the documented minimum to
// len+2 for buffers of at most 600 bytes, otherwise every limit within 40 of
// the positions of (up to 8) block starts / block data starts / block ends,
// the first and last 45 limits and random ones.
func setLimits(t *rapid.T, c *Case, pstart, tail int, blocks []blockInfo) {
	n := len(c.Stream)
	lo := c.minLimit()
	if n <= 600 {
		c.LimFrom, c.LimCount = lo, n+2-lo+1
		c.W = rapid.SampledFrom([]int{2, 2, 2, 0, 1}).Draw(t, "w")
		if rapid.IntRange(0, 7).Draw(t, "huge") == 0 {
			c.Limits = append(c.Limits, rapid.SampledFrom([]int{n + 1000, 1 << 30, 1<<30 + 1, math.MaxInt32, math.MaxInt64}).Draw(t, "hugelimit"))
		}
		return
	}
	c.W = rapid.IntRange(0, 1).Draw(t, "w")
	set := map[int]bool{}
	add := func(l int) {
		if l >= lo && l <= n+2 {
			set[l] = true
		}
	}
	for i := 0; i < 45; i++ {
		add(lo + i)
		add(n + 2 - i)
	}
	var bounds []int
	for _, b := range blocks {
		bounds = append(bounds, b.StartBit/8, (b.DataBit+7)/8, (b.EndBit+7)/8)
	}
	radius := 40
	keep := 8
	if n > 20000 {
		keep = 3
	}
	for len(bounds) > keep {
		i := rapid.IntRange(0, len(bounds)-1).Draw(t, "dropbound")
		bounds = append(bounds[:i], bounds[i+1:]...)
	}
	for _, p := range bounds {
		for d := -radius; d <= radius; d++ {
			add(pstart + p + tail + d)
		}
	}
	for i := 0; i < 24; i++ {
		add(rapid.IntRange(lo, n+2).Draw(t, "randlimit"))
	}
	for l := range set {
		c.Limits = append(c.Limits, l)
	}
	sort.Ints(c.Limits)
}

func genValid(t *rapid.T, hw, small bool) Case {
	c := Case{Format: rapid.SampledFrom([]string{"flate", "flate", "zlib"}).Draw(t, "format"), Expect: "valid"}
	var payload []byte
	var tags []string
	if hw {
		var d []byte
		d, payload, tags = genHW(t, small)
		if c.Format == "zlib" {
			c.Stream = zlibWrap(t, d, payload)
		} else {
			c.Stream = d
		}
	} else {
		c.Stream, payload, c.Dict, tags = genGo(t, c.Format, small)
	}
	// generator self-check: the stream decodes to the intended payload.
	out, consumed, err := refDecode(c.Format, c.Stream, c.Dict)
	if err != nil || consumed != len(c.Stream) || !bytes.Equal(out, payload) {
		t.Fatalf("GENERATOR SELF-CHECK FAILED (not a wuffs defect): %v: err=%v consumed=%d/%d decoded=%d want %d\n%x", tags, err, consumed, len(c.Stream), len(out), len(payload), clip(c.Stream, 300))
	}
	pstart, tail := 0, 0
	if c.Format == "zlib" {
		pstart, tail = 2, 4
		if len(c.Dict) > 0 {
			pstart = 6
		}
	}
	blocks, _, _, err := parseDeflate(c.Stream[pstart : len(c.Stream)-tail])
	if err != nil {
		t.Fatalf("ORACLE SELF-CHECK FAILED (not a wuffs defect): block walker rejects a stream compress/flate accepts: %v\n%x", tags, clip(c.Stream, 300))
	}
	setLimits(t, &c, pstart, tail, blocks)
	c.Origin = strings.Join(tags, ",")
	return c
}

// ---- robustness: arbitrary bytes

func genRobust(t *rapid.T) Case {
	var c Case
	var blocks []blockInfo
	pstart := 0
	if rapid.IntRange(0, 9).Draw(t, "raw?") < 3 {
		c = Case{Format: rapid.SampledFrom([]string{"flate", "zlib"}).Draw(t, "format"), Origin: "robust,raw"}
		c.Stream = rapid.SliceOfN(rapid.Byte(), 0, 80).Draw(t, "raw")
		if c.Format == "zlib" && len(c.Stream) >= 2 && rapid.IntRange(0, 3).Draw(t, "fixhdr") != 0 {
			c.Stream[0] = 0x78
			c.Stream[1] = rapid.SampledFrom([]byte{0x01, 0x5e, 0x9c, 0xda, 0x20, 0x7d, 0xbb, 0xf9}).Draw(t, "flg")
		}
	} else {
		// a small valid stream, then structure-aware damage.
		c = genValid(t, rapid.IntRange(0, 1).Draw(t, "hw?") == 0, true)
		c.Origin = "robust,mutated"
		if c.Format == "zlib" {
			pstart = 2
			if len(c.Dict) > 0 {
				pstart = 6
			}
			blocks, _, _, _ = parseDeflate(c.Stream[pstart : len(c.Stream)-4])
		} else {
			blocks, _, _, _ = parseDeflate(c.Stream)
		}
		c.Stream = append([]byte{}, c.Stream...)
		nm := rapid.IntRange(1, 3).Draw(t, "nmut")
		for i := 0; i < nm; i++ {
			c.Stream = mutate(t, c.Stream, c.Format, pstart, blocks)
		}
	}
	c.Expect = "any"
	c.LimFrom, c.LimCount, c.Limits = 0, 0, nil
	n := len(c.Stream)
	if n <= 120 {
		c.LimFrom, c.LimCount = -1, n+5
	} else {
		for i := 0; i < 16; i++ {
			c.Limits = append(c.Limits, rapid.IntRange(-1, n+3).Draw(t, "limit"))
		}
		c.Limits = append(c.Limits, n-1, n, n+1, c.minLimit())
	}
	if rapid.IntRange(0, 9).Draw(t, "huge") == 0 {
		c.Limits = append(c.Limits, rapid.SampledFrom([]int{1 << 30, 1<<30 + 1, math.MaxInt64, math.MinInt64, -1 << 31}).Draw(t, "hugelimit"))
	}
	c.W = rapid.IntRange(0, 2).Draw(t, "w")
	return c
}

func mutate(t *rapid.T, b []byte, format string, pstart int, blocks []blockInfo) []byte {
	n := len(b)
	if n == 0 {
		return append(b, rapid.Byte().Draw(t, "mb"))
	}
	pos := rapid.IntRange(0, n-1).Draw(t, "mpos")
	kind := rapid.IntRange(0, 11).Draw(t, "mkind")
	switch kind {
	case 0, 1: // flip one bit
		b[pos] ^= 1 << uint(rapid.IntRange(0, 7).Draw(t, "mbit"))
	case 2: // replace a byte
		b[pos] = rapid.SampledFrom([]byte{0, 0xff, 0x80, 1, 3, 5, 7}).Draw(t, "mval")
	case 3: // truncate
		return b[:pos]
	case 4: // append garbage
		return append(b, rapid.SliceOfN(rapid.Byte(), 1, 12).Draw(t, "mtail")...)
	case 5: // delete a span
		l := rapid.IntRange(1, min(8, n-pos)).Draw(t, "mlen")
		return append(b[:pos:pos], b[pos+l:]...)
	case 6: // duplicate a span
		l := rapid.IntRange(1, min(16, n-pos)).Draw(t, "mlen")
		out := append([]byte{}, b[:pos+l]...)
		return append(out, b[pos:]...)
	case 7, 8: // damage a block header: flip a bit in the first 3 bytes of a block
		if len(blocks) > 0 {
			bl := blocks[rapid.IntRange(0, len(blocks)-1).Draw(t, "mblock")]
			bit := bl.StartBit + rapid.IntRange(0, 23).Draw(t, "mhbit")
			if i := pstart + bit/8; i < n {
				b[i] ^= 1 << uint(bit%8)
			}
		}
	case 9: // rewrite a stored block's LEN/NLEN consistently with another length
		for _, bl := range blocks {
			if bl.Type == 0 {
				i := pstart + bl.DataBit/8 - 4
				if i >= 0 && i+4 <= n {
					l := rapid.SampledFrom([]int{0, 1, 0xffff, 0x7fff, 0x100}).Draw(t, "mslen")
					if rapid.IntRange(0, 1).Draw(t, "mslenrand") == 0 {
						l = rapid.IntRange(0, 0xffff).Draw(t, "mslen2")
					}
					b[i], b[i+1], b[i+2], b[i+3] = byte(l), byte(l>>8), ^byte(l), ^byte(l>>8)
				}
				if rapid.IntRange(0, 1).Draw(t, "mstop") == 0 {
					break
				}
			}
		}
	case 10: // zlib header / trailer damage keeping FCHECK valid
		if format == "zlib" && n >= 2 {
			switch rapid.IntRange(0, 2).Draw(t, "mz") {
			case 0:
				b[1] ^= 0x20 // FDICT
				fixFcheck(b)
			case 1:
				b[0] = byte(rapid.IntRange(0, 255).Draw(t, "mcmf"))
				fixFcheck(b)
			default:
				b[n-1-rapid.IntRange(0, min(3, n-1)).Draw(t, "madler")] ^= 0x55
			}
		} else {
			b[pos] ^= 0xff
		}
	default: // clear / set the BFINAL bit of a block
		if len(blocks) > 0 {
			bl := blocks[rapid.IntRange(0, len(blocks)-1).Draw(t, "mblock")]
			if i := pstart + bl.StartBit/8; i < n {
				b[i] ^= 1 << uint(bl.StartBit%8)
			}
		}
	}
	return b
}

func genCase(t *rapid.T) Case {
	switch pick10(t, "kind", [10]string{"hw", "go", "hw", "go", "hw", "hw", "go", "robust", "robust", "robust"}) {
	case "go":
		return genValid(t, false, false)
	case "hw":
		return genValid(t, true, false)
	default:
		return genRobust(t)
	}
}
