// Package c16 decides property C16: cutting DEFLATE/zlib data with
// lib/flatecut and lib/zlibcut yields a valid stream, within the limit, that
// decodes to a prefix of the original decompression; on arbitrary bytes Cut
// never panics and successful returns stay inside the limit and the buffer.
package c16

import (
	"bytes"
	"compress/flate"
	"compress/zlib"
	"encoding/json"
	"fmt"
	"io"
	"os"
	"path/filepath"
	"regexp"
	"runtime/debug"
	"strconv"
	"strings"
	"testing"

	"github.com/google/wuffs/lib/flatecut"
	"github.com/google/wuffs/lib/zlibcut"
	"pgregory.net/rapid"

	"verif/internal/ev"
)

func TestMain(m *testing.M) {
	debug.SetGCPercent(400) // many short-lived 32 KiB decoder windows
	ev.Main(m)
}

// Case is the replayable form of one generated case: one buffer and the set
// of (limit, w) pairs Cut is called with, each on a fresh copy of the buffer.
type Case struct {
	Format   string `json:"format"`              // "flate" or "zlib"
	Stream   []byte `json:"stream"`              // the buffer handed to Cut
	Dict     []byte `json:"dict,omitempty"`      // zlib preset dictionary the stream was made with
	Expect   string `json:"expect"`              // "valid": built as a valid stream (self-checked); "any": arbitrary bytes
	LimFrom  int    `json:"lim_from,omitempty"`  // every limit in [LimFrom, LimFrom+LimCount) ...
	LimCount int    `json:"lim_count,omitempty"` //
	Limits   []int  `json:"limits,omitempty"`    // ... plus these
	W        int    `json:"w"`                   // 0: w == nil; 1: w != nil; 2: both, for every limit
	Origin   string `json:"origin,omitempty"`    // informational: generator tags, comma separated
}

func (c Case) minLimit() int {
	if c.Format == "zlib" {
		return zlibcut.SmallestValidMaxEncodedLen
	}
	return flatecut.SmallestValidMaxEncodedLen
}

func (c Case) numEvals() int {
	n := len(c.Limits)
	if c.LimCount > 0 {
		n += c.LimCount
	}
	if c.W == 2 {
		n *= 2
	}
	return n
}

// refDecode is the reference decoder: compress/flate or compress/zlib reading
// from a bytes.Reader (an io.ByteReader, so that no byte beyond the end of the
// stream is consumed). It returns the output and the number of bytes consumed.
func refDecode(format string, b, dict []byte) (out []byte, consumed int, err error) {
	return refDecodeWith(format, b, dict, false)
}

var (
	pooledFlate io.ReadCloser
	pooledZlib  io.ReadCloser
)

// refDecodeWith optionally reuses one decoder per format (Reset re-initialises
// all of its state); every verdict against the code under test is confirmed
// with a fresh decoder before it is reported (see one).
func refDecodeWith(format string, b, dict []byte, pooled bool) (out []byte, consumed int, err error) {
	br := bytes.NewReader(b)
	var r io.ReadCloser
	switch {
	case format == "zlib" && pooled && pooledZlib != nil:
		r = pooledZlib
		err = r.(zlib.Resetter).Reset(br, dict)
	case format == "zlib":
		r, err = zlib.NewReaderDict(br, dict)
		if pooled && err == nil {
			pooledZlib = r
		}
	case pooled && pooledFlate != nil:
		r = pooledFlate
		err = r.(flate.Resetter).Reset(br, nil)
	default:
		r = flate.NewReader(br)
		if pooled {
			pooledFlate = r
		}
	}
	if err != nil {
		return nil, len(b) - br.Len(), err
	}
	out, err = io.ReadAll(r)
	if err == nil {
		err = r.Close()
	}
	return out, len(b) - br.Len(), err
}

var digits = regexp.MustCompile(`[0-9]+`)

func callCut(format string, w io.Writer, buf []byte, limit int) (encLen, decLen int, err error, pan any) {
	defer func() {
		if r := recover(); r != nil {
			pan = r
		}
	}()
	if format == "zlib" {
		encLen, decLen, err = zlibcut.Cut(w, buf, limit)
	} else {
		encLen, decLen, err = flatecut.Cut(w, buf, limit)
	}
	return
}

// sctx is what the oracle knows about the buffer before calling Cut.
type sctx struct {
	c      Case
	valid  bool        // the whole buffer is one valid stream per the reference decoder
	orig   []byte      // its decompression
	pstart int         // offset of the DEFLATE data inside the buffer (zlib header)
	tail   int         // bytes after the DEFLATE data (zlib checksum)
	blocks []blockInfo // structure of the DEFLATE data
}

type result struct {
	msg       string
	failLimit int
	failW     bool
	evals     int
	classes   map[string]int
	nt        []uint64 // hashes of the non-trivial (stream, limit, w) evaluations
}

func blockName(t int) string { return [...]string{"stored", "fixed", "dynamic"}[t] }

func prepare(c Case) (*sctx, string) {
	s := &sctx{c: c}
	if c.Format != "flate" && c.Format != "zlib" {
		return nil, "bad case: format " + c.Format
	}
	out, consumed, err := refDecode(c.Format, c.Stream, c.Dict)
	s.valid = err == nil && consumed == len(c.Stream)
	if !s.valid {
		if c.Expect == "valid" {
			return nil, fmt.Sprintf("GENERATOR SELF-CHECK FAILED (not a wuffs defect): the reference decoder rejects the generated stream: err=%v consumed=%d of %d", err, consumed, len(c.Stream))
		}
		return s, ""
	}
	s.orig = out
	if c.Format == "zlib" {
		s.pstart, s.tail = 2, 4
		if c.Stream[1]&0x20 != 0 {
			s.pstart = 6
		}
	}
	blocks, used, dec, perr := parseDeflate(c.Stream[s.pstart : len(c.Stream)-s.tail])
	if perr != nil || used != len(c.Stream)-s.pstart-s.tail || dec != len(out) {
		return nil, fmt.Sprintf("ORACLE SELF-CHECK FAILED (not a wuffs defect): the harness's block walker disagrees with compress/flate: err=%v used=%d want %d, decoded=%d want %d", perr, used, len(c.Stream)-s.pstart-s.tail, dec, len(out))
	}
	s.blocks = blocks
	return s, ""
}

// one calls Cut once on a fresh copy of the buffer and judges the outcome.
func (s *sctx) one(limit int, useW bool, res *result) string {
	msg := s.judge(limit, useW, res, true)
	if msg != "" {
		// confirm with fresh reference decoders before reporting.
		return s.judge(limit, useW, &result{classes: map[string]int{}}, false)
	}
	return ""
}

func (s *sctx) judge(limit int, useW bool, res *result, pooled bool) string {
	c := s.c
	n := len(c.Stream)
	buf := make([]byte, n)
	copy(buf, c.Stream)
	var wbuf *bytes.Buffer
	var w io.Writer
	if useW {
		wbuf = &bytes.Buffer{}
		w = wbuf
	}
	encLen, decLen, err, pan := callCut(c.Format, w, buf, limit)
	if pan != nil {
		return fmt.Sprintf("Cut panicked: %v", pan)
	}
	if err != nil {
		pre := "err-on-bytes:"
		if s.valid {
			pre = "err-on-valid:"
			if limit >= n {
				pre = "err-on-valid-at-full-limit:"
			}
		}
		res.classes[pre+digits.ReplaceAllString(err.Error(), "N")]++
		return ""
	}
	// Successful return: lengths stay inside the limit and the buffer. This is
	// all that is judged for arbitrary bytes.
	if encLen < 0 || encLen > limit || encLen > n || decLen < 0 {
		return fmt.Sprintf("Cut returned nil error with encodedLen=%d decodedLen=%d for maxEncodedLen=%d len(encoded)=%d", encLen, decLen, limit, n)
	}
	if !s.valid {
		res.classes["robust:nil-error"]++
		return ""
	}
	if limit < c.minLimit() {
		return fmt.Sprintf("Cut succeeded with maxEncodedLen=%d below the documented minimum %d", limit, c.minLimit())
	}

	if decLen > len(s.orig) {
		return fmt.Sprintf("decodedLen=%d exceeds the original's decoded length %d", decLen, len(s.orig))
	}
	out, consumed, derr := refDecodeWith(c.Format, buf[:encLen], c.Dict, pooled)
	if derr != nil {
		return fmt.Sprintf("encoded[:%d] is not a valid %s stream: %v (after %d output bytes, %d input bytes)", encLen, c.Format, derr, len(out), consumed)
	}
	if consumed != encLen {
		return fmt.Sprintf("encoded[:%d] has trailing garbage: the stream ends after %d bytes", encLen, consumed)
	}
	if len(out) != decLen {
		return fmt.Sprintf("encoded[:%d] decodes to %d bytes but decodedLen=%d", encLen, len(out), decLen)
	}
	if !bytes.Equal(out, s.orig[:decLen]) {
		return fmt.Sprintf("encoded[:%d] does not decode to a prefix of the original (first difference at %d of %d)", encLen, firstDiff(out, s.orig), decLen)
	}
	if useW && !bytes.Equal(wbuf.Bytes(), s.orig[:decLen]) {
		return fmt.Sprintf("w received %d bytes that differ from original[:%d] (first difference at %d)", wbuf.Len(), decLen, firstDiff(wbuf.Bytes(), s.orig[:decLen]))
	}
	if limit >= n && decLen != len(s.orig) {
		return fmt.Sprintf("maxEncodedLen=%d >= len(encoded)=%d but decodedLen=%d < %d", limit, n, decLen, len(s.orig))
	}

	// ---- classification (no judgement below).
	s.classify(limit, useW, buf[s.pstart:encLen-s.tail], decLen, res)
	return ""
}

func firstDiff(a, b []byte) int {
	for i := 0; i < len(a) && i < len(b); i++ {
		if a[i] != b[i] {
			return i
		}
	}
	if len(a) < len(b) {
		return len(a)
	}
	return len(b)
}

func (s *sctx) classify(limit int, useW bool, cutDeflate []byte, decLen int, res *result) {
	c := s.c
	dlen := len(c.Stream) - s.pstart - s.tail // DEFLATE bytes in the original
	budget := limit - s.pstart - s.tail       // DEFLATE bytes allowed
	full := decLen == len(s.orig)
	switch {
	case budget >= dlen:
		res.classes["limit:>=len"]++
	default:
		pos := 8 * budget
		for _, b := range s.blocks {
			if b.StartBit <= pos && pos < b.EndBit {
				res.classes["limit-in:"+blockName(b.Type)]++
				inside := b.Type != 0 && b.DataBit < pos && pos < b.EndBit
				if inside && decLen > 0 && !full {
					res.classes["nontrivial:inside-"+blockName(b.Type)]++
					res.nt = append(res.nt, ev.Hash(c.Format, c.Stream, limit, useW))
				}
				break
			}
		}
	}
	// which path produced the result (deduced from the output's structure).
	rb, _, _, err := parseDeflate(cutDeflate)
	if err != nil || len(rb) == 0 {
		res.classes["path:unparsed"]++
		return
	}
	last := rb[len(rb)-1]
	switch {
	case full:
		res.classes["path:whole"]++
	case decLen == 0 && len(cutDeflate) == 2 && cutDeflate[0] == 0x03 && cutDeflate[1] == 0x00 && len(rb) == 1:
		res.classes["path:fallback-empty-fixed"]++
	case len(rb) == 1 && last.Type == 0 && s.blocks[0].Type != 0:
		res.classes["path:fallback-single-stored"]++
	case len(rb) <= len(s.blocks) && last.Type == s.blocks[len(rb)-1].Type && last.StartBit == s.blocks[len(rb)-1].StartBit &&
		last.DecEnd < s.blocks[len(rb)-1].DecEnd:
		if last.Type == 0 {
			res.classes["path:stored-truncated"]++
		} else {
			res.classes["path:endcode-written-"+blockName(last.Type)]++
			res.classes[fmt.Sprintf("endcode-bits:%02d", last.EOBLen)]++
		}
	case len(rb) <= len(s.blocks) && last.EndBit == s.blocks[len(rb)-1].EndBit && last.DecEnd == s.blocks[len(rb)-1].DecEnd:
		res.classes["path:earlier-block-made-final"]++
	default:
		res.classes["path:other"]++
	}
	if decLen > 0 && !full {
		res.classes["partial-cut"]++
	}
}

func evalCase(c Case) *result {
	res := &result{classes: map[string]int{}}
	s, msg := prepare(c)
	if msg != "" {
		res.msg = msg
		return res
	}
	if s.valid {
		res.classes["input:valid-"+c.Format]++
		if c.Expect != "valid" {
			res.classes["robust:mutant-still-valid"]++
		}
		if len(c.Dict) > 0 {
			res.classes["input:zlib-fdict"]++
		}
		types := map[int]bool{}
		for i, b := range s.blocks {
			types[b.Type] = true
			res.classes["block:"+blockName(b.Type)]++
			if b.Type != 0 && b.Symbols == 0 {
				if b.Final {
					res.classes["shape:final-empty-huffman"]++
				} else {
					res.classes["shape:inner-empty-huffman"]++
				}
			}
			if b.Type == 0 && b.DecEnd == b.DecStart {
				if b.Final {
					res.classes["shape:final-empty-stored"]++
				} else {
					res.classes["shape:inner-empty-stored"]++
				}
			}
			if b.Type == 0 && b.DecEnd-b.DecStart == 65535 {
				res.classes["shape:stored-65535"]++
			}
			if b.Type == 2 && b.NDist == 1 {
				res.classes["shape:single-code-dist-tree"]++
			}
			if b.Type == 2 && b.NDist == 0 {
				res.classes["shape:no-dist-codes"]++
			}
			if b.Type == 2 && b.MaxLen == 15 {
				res.classes["shape:15-bit-codes"]++
			}
			if b.Type == 2 && b.EOBLen >= 9 {
				res.classes["shape:eob-code>=9-bits"]++
			}
			if i > 0 && b.Type == 2 && s.blocks[i-1].Type == 1 {
				res.classes["shape:fixed-then-dynamic"]++
			}
		}
		if len(s.blocks) > 1 {
			res.classes["input:multi-block"]++
		}
		if len(types) > 1 {
			res.classes["input:mixed-block-types"]++
		}
		if len(s.orig) > 32768 {
			res.classes["input:decoded>32KiB"]++
		}
	} else {
		res.classes["input:not-a-stream-"+c.Format]++
	}
	do := func(limit int) bool {
		for wi := 0; wi < 2; wi++ {
			useW := wi == 1
			if (c.W == 0 && useW) || (c.W == 1 && !useW) {
				continue
			}
			res.evals++
			if msg := s.one(limit, useW, res); msg != "" {
				res.msg = fmt.Sprintf("%s.Cut(w %s nil, encoded[%d bytes], maxEncodedLen=%d): %s", c.Format+"cut", map[bool]string{false: "==", true: "!="}[useW], len(c.Stream), limit, msg)
				res.failLimit, res.failW = limit, useW
				return false
			}
		}
		return true
	}
	for i := 0; i < c.LimCount; i++ {
		if !do(c.LimFrom + i) {
			return res
		}
	}
	for _, l := range c.Limits {
		if !do(l) {
			return res
		}
	}
	return res
}

// checkCase is the oracle in the framework's standard shape.
func checkCase(c Case) (msg string, nontrivial bool, classes []string) {
	r := evalCase(c)
	for k := range r.classes {
		classes = append(classes, k)
	}
	return r.msg, len(r.nt) > 0, classes
}

type fataler interface {
	Fatalf(string, ...any)
}

func runCase(t fataler, c Case) {
	r := evalCase(c)
	ev.EvalN(r.evals)
	if r.msg != "" {
		// save the narrowed case: the same buffer with the one failing (limit, w).
		fc := c
		if r.evals > 0 {
			fc.LimFrom, fc.LimCount, fc.Limits = 0, 0, []int{r.failLimit}
			fc.W = 0
			if r.failW {
				fc.W = 1
			}
		}
		ev.Fail("C16", "cut", fc, r.msg)
		t.Fatalf("C16 violated: %s\norigin: %s\nstream: %x", r.msg, c.Origin, clip(c.Stream, 200))
	}
	ev.Class("cases")
	for k, v := range r.classes {
		ev.ClassN(k, v)
	}
	for _, tag := range strings.Split(c.Origin, ",") {
		if tag != "" {
			ev.Class("gen:" + tag)
		}
	}
	for i, h := range r.nt {
		if i == 0 {
			ev.Nontrivial(h, func() any {
				return map[string]any{"format": c.Format, "stream_len": len(c.Stream), "origin": c.Origin}
			})
		} else {
			ev.Nontrivial(h, nil)
		}
	}
}

func clip(b []byte, n int) []byte {
	if len(b) > n {
		return b[:n]
	}
	return b
}

func TestProp(t *testing.T) {
	rapid.Check(t, func(t *rapid.T) {
		runCase(t, genCase(t))
	})
}

// caseFromFuzz decodes native-fuzz bytes into a Case: byte 0 selects format
// and w, bytes 1-2 the limit (biased to the buffer's length), the rest is the
// buffer. Whether the buffer is a stream is decided by the reference decoder.
func caseFromFuzz(data []byte) Case {
	if len(data) < 3 {
		return Case{Format: "flate", Expect: "any", Stream: []byte{}, Limits: []int{2}}
	}
	c := Case{Format: "flate", Expect: "any", W: int(data[0]>>1) % 3}
	if data[0]&1 == 1 {
		c.Format = "zlib"
	}
	c.Stream = append([]byte{}, data[3:]...)
	l := int(data[1]) | int(data[2])<<8
	n := len(c.Stream)
	c.Limits = []int{l % (n + 4), n - l%16, n, c.minLimit() + l%8}
	return c
}

func FuzzCut(f *testing.F) {
	f.Add([]byte{0, 2, 0, 0x03, 0x00})
	f.Add([]byte{1, 9, 0, 0x78, 0x9c, 0x03, 0x00, 0x00, 0x00, 0x00, 0x01})
	f.Add([]byte{2, 7, 0, 0x01, 0x03, 0x00, 0xfc, 0xff, 'a', 'b', 'c'})
	f.Add([]byte{4, 6, 0, 0x4b, 0x4c, 0x4a, 0x06, 0x00})
	f.Fuzz(func(t *testing.T, data []byte) {
		if len(data) > 1<<16 {
			return
		}
		runCase(t, caseFromFuzz(data))
	})
}

func TestReplay(t *testing.T) {
	p := ev.ReplayPath()
	if p == "" {
		t.Skip("no VERIF_REPLAY")
	}
	r, err := ev.LoadReplay(p)
	if err != nil {
		t.Fatalf("load: %v", err)
	}
	if strings.HasPrefix(r.Kind, "fuzz:") {
		var corpus string
		if err := json.Unmarshal(r.Case, &corpus); err != nil {
			t.Fatalf("decode fuzz corpus: %v", err)
		}
		data, err := parseCorpus(corpus)
		if err != nil {
			t.Fatalf("corpus: %v", err)
		}
		runCase(t, caseFromFuzz(data))
		return
	}
	var c Case
	if err := json.Unmarshal(r.Case, &c); err != nil {
		t.Fatalf("decode: %v", err)
	}
	runCase(t, c)
}

// parseCorpus reads a "go test fuzz v1" corpus file holding one []byte value.
func parseCorpus(s string) ([]byte, error) {
	lines := strings.Split(strings.TrimSpace(s), "\n")
	if len(lines) < 2 || !strings.HasPrefix(lines[0], "go test fuzz v1") {
		return nil, fmt.Errorf("not a go fuzz corpus file")
	}
	l := strings.TrimSpace(lines[1])
	if !strings.HasPrefix(l, "[]byte(") || !strings.HasSuffix(l, ")") {
		return nil, fmt.Errorf("unsupported corpus value %q", l)
	}
	out, err := strconv.Unquote(l[len("[]byte(") : len(l)-1])
	if err != nil {
		return nil, err
	}
	return []byte(out), nil
}

// TestMakeReplays is development tooling (skipped unless VERIF_C16_MAKE_REPLAYS
// names a directory): it writes the first small generated case of each
// interesting shape as a replay file.
func TestMakeReplays(t *testing.T) {
	dir := os.Getenv("VERIF_C16_MAKE_REPLAYS")
	if dir == "" {
		t.Skip("development tooling")
	}
	want := map[string]string{
		"shape:15-bit-codes":            "hard-15-bit-codes",
		"shape:single-code-dist-tree":   "hard-single-code-dist-tree",
		"shape:fixed-then-dynamic":      "hard-fixed-then-dynamic",
		"shape:inner-empty-huffman":     "hard-inner-empty-huffman-block",
		"shape:final-empty-huffman":     "hard-final-empty-huffman-block",
		"shape:eob-code>=9-bits":        "hard-long-end-of-block-code",
		"robust:mutant-still-valid":     "hard-mutant-still-valid",
		"gen:dict-unrelated":            "hard-zlib-fdict-unreferenced",
		"gen:dict-related":              "hard-zlib-fdict-referenced",
		"gen:flushed+mixed":             "hard-go-flushed-mixed-block-types",
		"gen:hw-nonzero-padding":        "hard-stored-after-nonzero-padding",
		"path:fallback-single-stored":   "hard-fallback-single-stored",
		"path:earlier-block-made-final": "hard-earlier-block-made-final",
	}
	rapid.Check(t, func(rt *rapid.T) {
		c := genCase(rt)
		if len(c.Stream) > 400 || len(c.Stream) < 12 {
			return
		}
		r := evalCase(c)
		if r.msg != "" {
			return
		}
		keys := map[string]bool{}
		for k := range r.classes {
			keys[k] = true
		}
		for _, tag := range strings.Split(c.Origin, ",") {
			keys["gen:"+tag] = true
		}
		if keys["gen:flushed"] && keys["input:mixed-block-types"] {
			keys["gen:flushed+mixed"] = true
		}
		for k := range keys {
			name, ok := want[k]
			if !ok || (strings.HasPrefix(k, "shape:") && len(r.nt) == 0) {
				continue
			}
			delete(want, k)
			raw, _ := json.Marshal(c)
			b, _ := json.MarshalIndent(ev.Replay{Property: "C16", Kind: "cut", Case: raw, Message: "hand-picked regression input: " + k}, "", " ")
			os.WriteFile(filepath.Join(dir, name+".json"), append(b, '\n'), 0o644)
		}
	})
	for k := range want {
		t.Logf("no case found for %s", k)
	}
}
