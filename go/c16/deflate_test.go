package c16

// Test-side DEFLATE tooling, written for the harness and independent of both
// lib/flatecut and compress/flate:
//
//   - bitWriter + canonical Huffman codes: hand-assembles streams in shapes
//     Go's encoder never emits;
//   - parseDeflate: a structure walker (puff.c style) that reports, for every
//     block, its type and the bit positions of its header, data and end. It is
//     used to place limits around block boundaries and to classify where a
//     limit falls. It is cross-checked against compress/flate on every case
//     (total decoded length and end position must agree).

import (
	"errors"
	"math/bits"
)

var (
	lenBase   = [29]int{3, 4, 5, 6, 7, 8, 9, 10, 11, 13, 15, 17, 19, 23, 27, 31, 35, 43, 51, 59, 67, 83, 99, 115, 131, 163, 195, 227, 258}
	lenExtra  = [29]uint{0, 0, 0, 0, 0, 0, 0, 0, 1, 1, 1, 1, 2, 2, 2, 2, 3, 3, 3, 3, 4, 4, 4, 4, 5, 5, 5, 5, 0}
	distBase  = [30]int{1, 2, 3, 4, 5, 7, 9, 13, 17, 25, 33, 49, 65, 97, 129, 193, 257, 385, 513, 769, 1025, 1537, 2049, 3073, 4097, 6145, 8193, 12289, 16385, 24577}
	distExtra = [30]uint{0, 0, 0, 0, 1, 1, 2, 2, 3, 3, 4, 4, 5, 5, 6, 6, 7, 7, 8, 8, 9, 9, 10, 10, 11, 11, 12, 12, 13, 13}
	clOrder   = [19]int{16, 17, 18, 0, 8, 7, 9, 6, 10, 5, 11, 4, 12, 3, 13, 2, 14, 1, 15}
)

// lenSym maps a match length 3..258 to (symbol index 0..28, extra value, extra bit count).
func lenSym(l int) (int, uint32, uint) {
	if l == 258 {
		return 28, 0, 0
	}
	i := 27
	for lenBase[i] > l {
		i--
	}
	return i, uint32(l - lenBase[i]), lenExtra[i]
}

// distSym maps a distance 1..32768 to (symbol 0..29, extra value, extra bit count).
func distSym(d int) (int, uint32, uint) {
	i := 29
	for distBase[i] > d {
		i--
	}
	return i, uint32(d - distBase[i]), distExtra[i]
}

func fixedLitLengths() []int {
	l := make([]int, 288)
	for i := range l {
		switch {
		case i < 144:
			l[i] = 8
		case i < 256:
			l[i] = 9
		case i < 280:
			l[i] = 7
		default:
			l[i] = 8
		}
	}
	return l
}

func fixedDistLengths() []int {
	l := make([]int, 32)
	for i := range l {
		l[i] = 5
	}
	return l
}

// canonCodes assigns the canonical Huffman codes of RFC 1951 section 3.2.2.
func canonCodes(lengths []int) []uint32 {
	var blCount [17]int
	for _, l := range lengths {
		blCount[l]++
	}
	blCount[0] = 0
	var next [17]uint32
	code := uint32(0)
	for b := 1; b <= 15; b++ {
		code = (code + uint32(blCount[b-1])) << 1
		next[b] = code
	}
	codes := make([]uint32, len(lengths))
	for i, l := range lengths {
		if l != 0 {
			codes[i] = next[l]
			next[l]++
		}
	}
	return codes
}

type bitWriter struct {
	out  []byte
	acc  uint64
	nacc uint
}

// bits appends the low n bits of v, least significant bit first.
func (w *bitWriter) bits(v uint32, n uint) {
	if n == 0 {
		return
	}
	w.acc |= uint64(v&(1<<n-1)) << w.nacc
	w.nacc += n
	for w.nacc >= 8 {
		w.out = append(w.out, byte(w.acc))
		w.acc >>= 8
		w.nacc -= 8
	}
}

// huff appends an n-bit Huffman code, most significant bit first.
func (w *bitWriter) huff(code uint32, n int) {
	w.bits(bits.Reverse32(code)>>(32-uint(n)), uint(n))
}

// pad fills up to the next byte boundary with the low bits of fill.
func (w *bitWriter) pad(fill uint32) {
	if w.nacc > 0 {
		w.bits(fill, 8-w.nacc)
	}
}

func (w *bitWriter) raw(b []byte) {
	if w.nacc != 0 {
		panic("raw on unaligned writer")
	}
	w.out = append(w.out, b...)
}

// ---- structure walker

type blockInfo struct {
	Type     int  // 0 stored, 1 fixed, 2 dynamic
	Final    bool //
	StartBit int  // position of the BFINAL bit
	DataBit  int  // first bit after the block header (stored: first data byte)
	EndBit   int  // one past the block's last bit (Huffman: past the end-of-block code)
	DecStart int  // decoded offset at block start
	DecEnd   int  // decoded offset at block end
	EOBLen   int  // length of the end-of-block code (Huffman blocks)
	MaxLen   int  // longest lit/len code length (Huffman blocks)
	NDist    int  // number of distance codes with non-zero length
	Symbols  int  // number of lit/len symbols before the end-of-block code
}

var errParse = errors.New("parseDeflate: malformed")

type bitReader struct {
	b   []byte
	pos int
}

func (r *bitReader) bits(n int) (int, bool) {
	v := 0
	for i := 0; i < n; i++ {
		if r.pos>>3 >= len(r.b) {
			return 0, false
		}
		v |= int(r.b[r.pos>>3]>>(uint(r.pos)&7)&1) << uint(i)
		r.pos++
	}
	return v, true
}

type canon struct {
	count [16]int
	syms  []int
}

func newCanon(lengths []int) *canon {
	c := &canon{}
	for _, l := range lengths {
		c.count[l]++
	}
	c.count[0] = 0
	var offs [17]int
	for i := 1; i <= 15; i++ {
		offs[i+1] = offs[i] + c.count[i]
	}
	c.syms = make([]int, offs[16])
	for s, l := range lengths {
		if l != 0 {
			c.syms[offs[l]] = s
			offs[l]++
		}
	}
	return c
}

func (c *canon) decode(r *bitReader) (sym, n int, ok bool) {
	code, first, index := 0, 0, 0
	for l := 1; l <= 15; l++ {
		b, ok := r.bits(1)
		if !ok {
			return 0, 0, false
		}
		code |= b
		cnt := c.count[l]
		if code-cnt < first {
			return c.syms[index+(code-first)], l, true
		}
		index += cnt
		first += cnt
		first <<= 1
		code <<= 1
	}
	return 0, 0, false
}

// parseDeflate walks a raw DEFLATE stream. It returns the blocks, the number
// of bytes the stream occupies and the decoded length.
func parseDeflate(b []byte) (blocks []blockInfo, usedBytes int, decoded int, err error) {
	r := &bitReader{b: b}
	for {
		bi := blockInfo{StartBit: r.pos, DecStart: decoded}
		fin, ok := r.bits(1)
		if !ok {
			return nil, 0, 0, errParse
		}
		typ, ok := r.bits(2)
		if !ok {
			return nil, 0, 0, errParse
		}
		bi.Final, bi.Type = fin == 1, typ
		switch typ {
		case 0:
			r.pos = (r.pos + 7) &^ 7
			l, ok1 := r.bits(16)
			nl, ok2 := r.bits(16)
			if !ok1 || !ok2 || l^nl != 0xFFFF {
				return nil, 0, 0, errParse
			}
			bi.DataBit = r.pos
			r.pos += 8 * l
			if r.pos > 8*len(b) {
				return nil, 0, 0, errParse
			}
			decoded += l
		case 1, 2:
			var lit, dist *canon
			var litLens []int
			if typ == 1 {
				litLens = fixedLitLengths()
				lit, dist = newCanon(litLens), newCanon(fixedDistLengths())
				bi.NDist = 30
			} else {
				nl, ok1 := r.bits(5)
				nd, ok2 := r.bits(5)
				nc, ok3 := r.bits(4)
				if !ok1 || !ok2 || !ok3 {
					return nil, 0, 0, errParse
				}
				nl, nd, nc = nl+257, nd+1, nc+4
				cl := make([]int, 19)
				for i := 0; i < nc; i++ {
					v, ok := r.bits(3)
					if !ok {
						return nil, 0, 0, errParse
					}
					cl[clOrder[i]] = v
				}
				clc := newCanon(cl)
				lens := make([]int, nl+nd)
				for i := 0; i < nl+nd; {
					s, _, ok := clc.decode(r)
					if !ok {
						return nil, 0, 0, errParse
					}
					rep, val := 0, 0
					switch s {
					case 16:
						if i == 0 {
							return nil, 0, 0, errParse
						}
						x, ok := r.bits(2)
						if !ok {
							return nil, 0, 0, errParse
						}
						rep, val = 3+x, lens[i-1]
					case 17:
						x, ok := r.bits(3)
						if !ok {
							return nil, 0, 0, errParse
						}
						rep = 3 + x
					case 18:
						x, ok := r.bits(7)
						if !ok {
							return nil, 0, 0, errParse
						}
						rep = 11 + x
					default:
						lens[i] = s
						i++
						continue
					}
					if i+rep > nl+nd {
						return nil, 0, 0, errParse
					}
					for ; rep > 0; rep-- {
						lens[i] = val
						i++
					}
				}
				litLens = lens[:nl]
				lit, dist = newCanon(litLens), newCanon(lens[nl:])
				for _, l := range lens[nl:] {
					if l != 0 {
						bi.NDist++
					}
				}
			}
			for _, l := range litLens {
				if l > bi.MaxLen {
					bi.MaxLen = l
				}
			}
			bi.DataBit = r.pos
			for {
				s, n, ok := lit.decode(r)
				if !ok {
					return nil, 0, 0, errParse
				}
				if s == 256 {
					bi.EOBLen = n
					break
				}
				bi.Symbols++
				if s < 256 {
					decoded++
					continue
				}
				s -= 257
				if s >= 29 {
					return nil, 0, 0, errParse
				}
				x, ok := r.bits(int(lenExtra[s]))
				if !ok {
					return nil, 0, 0, errParse
				}
				d, _, ok := dist.decode(r)
				if !ok || d >= 30 {
					return nil, 0, 0, errParse
				}
				if _, ok := r.bits(int(distExtra[d])); !ok {
					return nil, 0, 0, errParse
				}
				decoded += lenBase[s] + x
			}
		default:
			return nil, 0, 0, errParse
		}
		bi.EndBit, bi.DecEnd = r.pos, decoded
		blocks = append(blocks, bi)
		if bi.Final {
			return blocks, (r.pos + 7) / 8, decoded, nil
		}
	}
}
