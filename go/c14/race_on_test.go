//go:build race

package c14

const raceEnabled = true
