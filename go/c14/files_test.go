package c14

// RAC file construction for C14: deterministic payloads, rac.Writer /
// rac.ChunkWriter driven builders, an independent (spec-derived) index walker
// and zlib chunk decoder used to validate the built file without the reader
// under test, the fixed catalog and the per-process cache.

import (
	"bytes"
	"compress/zlib"
	"encoding/binary"
	"encoding/json"
	"errors"
	"fmt"
	"hash/crc32"
	"io"
	"os"
	"path/filepath"
	"sort"
	"sync"
	"time"

	"github.com/google/wuffs/lib/rac"
	"github.com/google/wuffs/lib/raclz4"
	"github.com/google/wuffs/lib/raczlib"
	"github.com/google/wuffs/lib/raczstd"

	"verif/internal/ev"
)

// Seg is one run of the payload. Its bytes are a pure function of (Kind, Len,
// Seed) and of the file's Vocab seed.
type Seg struct {
	Kind string `json:"k"` // zero | rand | lowent | text | ramp | sparse
	Len  int    `json:"n"`
	Seed uint64 `json:"s,omitempty"`
}

// FileSpec fully determines one RAC file.
type FileSpec struct {
	Name    string `json:"name"`
	Mode    string `json:"mode"`  // "writer" (rac.Writer, one Write call) | "chunks" (rac.ChunkWriter)
	Codec   string `json:"codec"` // zlib | lz4 | zstd | zeroes (chunks mode only)
	Segs    []Seg  `json:"segs"`
	DChunk  uint64 `json:"dchunk,omitempty"`
	CChunk  uint64 `json:"cchunk,omitempty"`
	AtStart bool   `json:"at_start,omitempty"`
	CPage   uint64 `json:"cpage,omitempty"`
	Dicts   int    `json:"dicts,omitempty"` // shared dictionaries offered to the writer
	Vocab   uint64 `json:"vocab,omitempty"`
	// ChunkSizes is the cyclic pattern of DRange sizes in "chunks" mode.
	ChunkSizes []int `json:"chunk_sizes,omitempty"`
}

type sm64 uint64

func (s *sm64) next() uint64 {
	*s += 0x9E3779B97F4A7C15
	z := uint64(*s)
	z = (z ^ (z >> 30)) * 0xBF58476D1CE4E5B9
	z = (z ^ (z >> 27)) * 0x94D049BB133111EB
	return z ^ (z >> 31)
}

func vocabulary(seed uint64) [][]byte {
	g := sm64(seed ^ 0xC14C14)
	words := make([][]byte, 200)
	for i := range words {
		n := 4 + int(g.next()%8)
		w := make([]byte, n)
		for j := range w {
			w[j] = 'a' + byte(g.next()%26)
		}
		words[i] = w
	}
	return words
}

func dictionary(vocab uint64, i int) []byte {
	words := vocabulary(vocab)
	var b []byte
	for _, w := range words[(i%2)*100 : (i%2)*100+100] {
		b = append(b, w...)
		b = append(b, ' ')
	}
	return b
}

func (f FileSpec) payload() []byte {
	total := 0
	for _, s := range f.Segs {
		total += s.Len
	}
	out := make([]byte, 0, total)
	var words [][]byte
	for _, s := range f.Segs {
		g := sm64(s.Seed)
		start := len(out)
		switch s.Kind {
		case "zero":
			out = append(out, make([]byte, s.Len)...)
		case "rand":
			for len(out)-start < s.Len {
				var b [8]byte
				binary.LittleEndian.PutUint64(b[:], g.next())
				out = append(out, b[:]...)
			}
		case "lowent":
			for len(out)-start < s.Len {
				v := g.next()
				out = append(out, byte((v%7)*((v>>8)%40)))
			}
		case "ramp":
			for i := 0; i < s.Len; i++ {
				out = append(out, byte(i+int(s.Seed)))
			}
		case "sparse":
			out = append(out, make([]byte, s.Len)...)
			for i := start; i < start+s.Len; i += 1 + int(g.next()%900) {
				out[i] = byte(1 + g.next()%255)
			}
		default: // text
			if words == nil {
				words = vocabulary(f.Vocab)
			}
			for len(out)-start < s.Len {
				out = append(out, words[g.next()%uint64(len(words))]...)
				out = append(out, ' ')
			}
		}
		out = out[:start+s.Len]
	}
	return out
}

type built struct {
	spec     FileSpec
	key      string
	hash     uint64
	enc      []byte
	want     []byte
	bounds   []int64 // chunk start offsets plus the decompressed size, ascending, distinct
	nChunks  int
	nDict    int // chunks decoded with a shared dictionary
	levels   int // index depth (1 = root only)
	excluded string
	skip     string
	viol     string // a reader defect seen while validating the file
	walkerOK bool   // the independent decoder reproduced the payload
}

func codecRW(codec string) (rac.CodecWriter, []rac.CodecReader) {
	switch codec {
	case "lz4":
		return &raclz4.CodecWriter{}, []rac.CodecReader{&raclz4.CodecReader{}}
	case "zstd":
		return &raczstd.CodecWriter{}, []rac.CodecReader{&raczstd.CodecReader{}}
	}
	return &raczlib.CodecWriter{}, []rac.CodecReader{&raczlib.CodecReader{}}
}

func stripZeroTail(b []byte) []byte {
	n := len(b)
	for n > 0 && b[n-1] == 0 {
		n--
	}
	return b[:n]
}

func encode(f FileSpec, payload []byte) ([]byte, error) {
	var buf bytes.Buffer
	loc, tmp := rac.IndexLocationAtEnd, io.ReadWriter(nil)
	if f.AtStart {
		loc, tmp = rac.IndexLocationAtStart, &bytes.Buffer{}
	}
	if f.Mode == "chunks" {
		cw := &rac.ChunkWriter{Writer: &buf, IndexLocation: loc, TempFile: tmp, CPageSize: f.CPage}
		var zbuf bytes.Buffer
		var zw *zlib.Writer
		for off, i := 0, 0; off < len(payload); i++ {
			sz := f.ChunkSizes[i%len(f.ChunkSizes)]
			if sz < 1 {
				sz = 1
			}
			if sz > len(payload)-off {
				sz = len(payload) - off
			}
			if f.Codec == "zeroes" {
				if err := cw.AddChunk(uint64(sz), rac.CodecZeroes, nil, 0, 0); err != nil {
					return nil, err
				}
			} else {
				zbuf.Reset()
				if zw == nil {
					zw, _ = zlib.NewWriterLevel(&zbuf, zlib.BestSpeed)
				} else {
					zw.Reset(&zbuf)
				}
				zw.Write(stripZeroTail(payload[off : off+sz]))
				zw.Close()
				if err := cw.AddChunk(uint64(sz), rac.CodecZlib, zbuf.Bytes(), 0, 0); err != nil {
					return nil, err
				}
			}
			off += sz
		}
		if err := cw.Close(); err != nil {
			return nil, err
		}
		return buf.Bytes(), nil
	}
	cwr, _ := codecRW(f.Codec)
	w := &rac.Writer{Writer: &buf, CodecWriter: cwr, IndexLocation: loc, TempFile: tmp,
		CPageSize: f.CPage, CChunkSize: f.CChunk, DChunkSize: f.DChunk}
	for i := 0; i < f.Dicts; i++ {
		w.ResourcesData = append(w.ResourcesData, dictionary(f.Vocab, i))
	}
	// One single Write call: the pinned rac.Writer mishandles zero runs that
	// straddle Write calls (known defect R1, property C13).
	if len(payload) > 0 {
		if _, err := w.Write(payload); err != nil {
			return nil, err
		}
	}
	if err := w.Close(); err != nil {
		return nil, err
	}
	return buf.Bytes(), nil
}

// ---- independent walker, written from doc/spec/rac-spec.md.

type wChunk struct {
	d0, d1    int64
	c0, c1    int64 // primary CRange
	s0, s1    int64 // secondary CRange
	codecByte byte
}

func u48(b []byte) int64 {
	return int64(b[0]) | int64(b[1])<<8 | int64(b[2])<<16 | int64(b[3])<<24 | int64(b[4])<<32 | int64(b[5])<<40
}

var errWalk = errors.New("walker: malformed file")

func walkNode(enc []byte, cOffset, cBias, dBias int64, depth int, out *[]wChunk, maxDepth *int) error {
	if depth > 8 || cOffset < 0 || cOffset+4 > int64(len(enc)) {
		return errWalk
	}
	a := int64(enc[cOffset+3])
	if a == 0 || cOffset+16*a+16 > int64(len(enc)) {
		return errWalk
	}
	n := enc[cOffset : cOffset+16*a+16]
	if n[0] != 0x72 || n[1] != 0xC3 || n[2] != 0x63 || int64(n[16*a+15]) != a {
		return errWalk
	}
	if depth > *maxDepth {
		*maxDepth = depth
	}
	dOff := func(i int64) int64 {
		if i == 0 {
			return dBias
		}
		return dBias + u48(n[8*i:])
	}
	cOffMax := cBias + u48(n[16*a+8:])
	cOff := func(i int64) int64 { return cBias + u48(n[8*a+8+8*i:]) }
	cRange := func(i int64) (int64, int64) {
		if i >= a {
			return cOffMax, cOffMax
		}
		lo, hi := cOff(i), cOffMax
		if l := int64(n[8*a+8+8*i+6]); l != 0 && lo+l*1024 < hi {
			hi = lo + l*1024
		}
		return lo, hi
	}
	codecByte := n[8*a+7]
	for i := int64(0); i < a; i++ {
		d0, d1 := dOff(i), dOff(i+1)
		if d1 < d0 {
			return errWalk
		}
		if d0 == d1 {
			continue
		}
		tTag, sTag := n[8*i+7], int64(n[8*a+8+8*i+7])
		if tTag == 0xFE {
			childCBias := cBias
			if sTag < a {
				childCBias = cOff(sTag)
			}
			if err := walkNode(enc, cOff(i), childCBias, d0, depth+1, out, maxDepth); err != nil {
				return err
			}
			continue
		}
		c := wChunk{d0: d0, d1: d1, codecByte: codecByte}
		c.c0, c.c1 = cRange(i)
		c.s0, c.s1 = cRange(sTag)
		if c.c0 > c.c1 || c.c1 > int64(len(enc)) || c.s0 > c.s1 || c.s1 > int64(len(enc)) {
			return errWalk
		}
		*out = append(*out, c)
	}
	return nil
}

// walk lists the non-empty leaf chunks in DSpace order.
func walk(enc []byte) (chunks []wChunk, dSize int64, levels int, err error) {
	if len(enc) < 32 {
		return nil, 0, 0, errWalk
	}
	rootAt := int64(-1)
	try := func(off, a int64) bool {
		if a == 0 || off < 0 || off+16*a+16 > int64(len(enc)) {
			return false
		}
		n := enc[off:]
		return n[0] == 0x72 && n[1] == 0xC3 && n[2] == 0x63 && int64(n[3]) == a && int64(n[16*a+15]) == a &&
			n[16*a+14] == 1 && u48(n[16*a+8:]) == int64(len(enc))
	}
	if a := int64(enc[3]); try(0, a) {
		rootAt = 0
	} else if a := int64(enc[len(enc)-1]); try(int64(len(enc))-16*a-16, a) {
		rootAt = int64(len(enc)) - 16*a - 16
	} else {
		return nil, 0, 0, errWalk
	}
	a := int64(enc[rootAt+3])
	dSize = u48(enc[rootAt+8*a:])
	if err := walkNode(enc, rootAt, 0, 0, 1, &chunks, &levels); err != nil {
		return nil, 0, 0, err
	}
	return chunks, dSize, levels, nil
}

// scratch buffers are reused across builds: under the race detector a fresh
// multi-megabyte allocation costs several milliseconds.
var scratchA, scratchB []byte

func scratch(p *[]byte, n int64) []byte {
	if int64(cap(*p)) < n {
		*p = make([]byte, n+n/4+1024)
	}
	b := (*p)[:n]
	for i := range b {
		b[i] = 0
	}
	return b
}

// walkDecode decompresses every chunk with compress/zlib (or memset for the
// Zeroes codec). ok is false when the file uses a codec this harness cannot
// decode independently.
func walkDecode(enc []byte, chunks []wChunk, dSize int64) (out []byte, nDict int, ok bool) {
	if dSize < 0 || dSize > 64<<20 {
		return nil, 0, false
	}
	out = scratch(&scratchA, dSize)
	pos := int64(0)
	var zr io.ReadCloser
	for _, c := range chunks {
		if c.d0 != pos || c.d1 > dSize {
			return nil, 0, false
		}
		pos = c.d1
		switch c.codecByte & 0xBF {
		case 0x00:
			continue
		case 0x01:
		default:
			return nil, 0, false
		}
		var dict []byte
		if c.s1 > c.s0 {
			s := enc[c.s0:c.s1]
			if len(s) < 8 {
				return nil, 0, false
			}
			n := int64(binary.LittleEndian.Uint32(s))
			if n+8 > int64(len(s)) {
				return nil, 0, false
			}
			dict = s[4 : 4+n]
			if crc32.ChecksumIEEE(dict) != binary.LittleEndian.Uint32(s[4+n:]) {
				return nil, 0, false
			}
			nDict++
		}
		var err error
		if zr == nil {
			zr, err = zlib.NewReaderDict(bytes.NewReader(enc[c.c0:c.c1]), dict)
		} else {
			err = zr.(zlib.Resetter).Reset(bytes.NewReader(enc[c.c0:c.c1]), dict)
		}
		if err != nil {
			return nil, 0, false
		}
		n, err := io.ReadFull(zr, out[c.d0:c.d1])
		if err != nil && err != io.ErrUnexpectedEOF && err != io.EOF {
			return nil, 0, false
		}
		if int64(n) == c.d1-c.d0 {
			// the stream must not hold more than the DRange.
			var one [1]byte
			if m, _ := zr.Read(one[:]); m != 0 {
				return nil, 0, false
			}
		}
	}
	return out, nDict, pos == dSize
}

// sequentialDecode is the plain full read with Concurrency 0 the task calls
// for. A panic of the reader is reported as such.
func sequentialDecode(f FileSpec, enc []byte, wantLen int) (out []byte, err error, panicked string) {
	defer func() {
		if r := recover(); r != nil {
			panicked = fmt.Sprint(r)
		}
	}()
	_, crs := codecRW(f.Codec)
	r := &rac.Reader{ReadSeeker: bytes.NewReader(enc), CompressedSize: int64(len(enc)), CodecReaders: crs}
	defer r.Close()
	buf := scratch(&scratchB, int64(wantLen)+64)
	n := 0
	for zero := 0; n < len(buf) && zero < 100; {
		m, e := r.Read(buf[n:])
		n += m
		if e == io.EOF {
			break
		}
		if e != nil {
			return buf[:n], e, ""
		}
		if m == 0 {
			zero++
		}
	}
	return buf[:n], nil, ""
}

func build(f FileSpec) *built {
	kb, _ := json.Marshal(f)
	b := &built{spec: f, key: string(kb), hash: ev.Hash(kb)}
	b.want = f.payload()
	enc, err := func() (enc []byte, err error) {
		defer func() {
			if r := recover(); r != nil {
				err = fmt.Errorf("writer panic: %v", r)
			}
		}()
		return encode(f, b.want)
	}()
	if err != nil {
		b.skip = "writer-error: " + err.Error()
		return b
	}
	b.enc = enc
	chunks, dSize, levels, werr := walk(enc)
	if werr == nil {
		b.levels = levels
		b.nChunks = len(chunks)
		seen := map[int64]bool{}
		for _, c := range chunks {
			if !seen[c.d0] {
				seen[c.d0] = true
				b.bounds = append(b.bounds, c.d0)
			}
		}
		if !seen[dSize] {
			b.bounds = append(b.bounds, dSize)
		}
		sort.Slice(b.bounds, func(i, j int) bool { return b.bounds[i] < b.bounds[j] })
		if dec, nd, ok := walkDecode(enc, chunks, dSize); ok && bytes.Equal(dec, b.want) {
			b.walkerOK = true
			b.nDict = nd
		}
	}
	if len(b.bounds) == 0 {
		b.bounds = []int64{0, int64(len(b.want))}
		if len(b.want) == 0 {
			b.bounds = b.bounds[:1]
		}
	}
	got, rerr, pan := sequentialDecode(f, enc, len(b.want))
	switch {
	case pan != "":
		b.viol = "the sequential full read of a freshly written file panicked: " + pan
	case rerr == nil && bytes.Equal(got, b.want):
		// fine
	case b.walkerOK:
		// An independent decoder (index walk per the spec + compress/zlib)
		// reproduces the payload from this file, so the file is valid and the
		// reader is wrong.
		b.viol = fmt.Sprintf("sequential full read (Concurrency 0) of a valid file differs from the fully decompressed data: err=%v, %d bytes, want %d bytes, first difference at %d",
			rerr, len(got), len(b.want), firstDiff(got, b.want))
	default:
		b.excluded = "writer-roundtrip-mismatch"
	}
	return b
}

func firstDiff(a, b []byte) int {
	n := len(a)
	if len(b) < n {
		n = len(b)
	}
	for i := 0; i < n; i++ {
		if a[i] != b[i] {
			return i
		}
	}
	return n
}

// ---- catalog and cache

func segs(kl ...any) []Seg {
	var out []Seg
	for i := 0; i+1 < len(kl); i += 2 {
		out = append(out, Seg{Kind: kl[i].(string), Len: kl[i+1].(int), Seed: uint64(i*7919 + 11)})
	}
	return out
}

// catalog is ordered from simple to complex: rapid shrinks towards index 0.
var catalog = []FileSpec{
	{Name: "tiny1", Mode: "writer", Codec: "zlib", Segs: segs("text", 300), DChunk: 4096},
	{Name: "five", Mode: "writer", Codec: "zlib", Segs: segs("ramp", 450), DChunk: 100},
	{Name: "probe200", Mode: "writer", Codec: "zlib", Segs: segs("lowent", 300000), DChunk: 1500},
	{Name: "zeroheavy", Mode: "writer", Codec: "zlib", DChunk: 1000,
		Segs: segs("text", 2500, "zero", 7000, "sparse", 9000, "zero", 3000, "rand", 1200, "zero", 12345, "text", 5000, "zero", 4000)},
	{Name: "multi400", Mode: "writer", Codec: "zlib", Segs: segs("text", 150000, "zero", 20000, "ramp", 130000), DChunk: 750},
	{Name: "atstart", Mode: "writer", Codec: "zlib", Segs: segs("lowent", 60000, "sparse", 30000, "text", 30000), DChunk: 2048, AtStart: true, CPage: 1024},
	{Name: "dict", Mode: "writer", Codec: "zlib", Segs: segs("text", 70000), DChunk: 5000, Dicts: 2, Vocab: 5},
	{Name: "bigchunks", Mode: "writer", Codec: "zlib", Segs: segs("text", 200000, "zero", 100000, "lowent", 200000), DChunk: 100000},
	{Name: "many2000", Mode: "writer", Codec: "zlib", Segs: segs("lowent", 60000, "zero", 8000, "text", 60000), DChunk: 64},
	{Name: "cchunk", Mode: "writer", Codec: "zlib", Segs: segs("text", 60000, "zero", 5000, "text", 30000), CChunk: 1000},
	{Name: "allzero", Mode: "writer", Codec: "zlib", Segs: segs("zero", 200000), DChunk: 4096},
	{Name: "empty", Mode: "writer", Codec: "zlib"},
	{Name: "zeroes-codec", Mode: "chunks", Codec: "zeroes", Segs: segs("zero", 400000),
		ChunkSizes: []int{1, 70000, 300, 65536, 5, 65537, 1000}},
	{Name: "irregular", Mode: "chunks", Codec: "zlib", Segs: segs("text", 90000, "zero", 70000, "lowent", 120000, "sparse", 40000), AtStart: true,
		ChunkSizes: []int{1, 2, 70001, 17, 65536, 4000, 1, 131073, 255, 256}},
	{Name: "lz4", Mode: "writer", Codec: "lz4", Segs: segs("text", 80000, "zero", 10000, "lowent", 30000), DChunk: 4000},
	{Name: "zstd", Mode: "writer", Codec: "zstd", Segs: segs("text", 14000, "zero", 5000, "lowent", 9000), DChunk: 7000, Dicts: 1, Vocab: 9},
	{Name: "default64k", Mode: "writer", Codec: "zlib", Segs: segs("text", 500000, "zero", 300000, "lowent", 500000)},
}

var (
	cacheMu    sync.Mutex
	cache      = map[string]*built{}
	cacheOrder []string // random (non-catalog) entries, oldest first
)

const maxRandomCached = 6

func getBuilt(f FileSpec) *built {
	kb, _ := json.Marshal(f)
	key := string(kb)
	cacheMu.Lock()
	defer cacheMu.Unlock()
	if b, ok := cache[key]; ok {
		return b
	}
	var b *built
	if f.Name != "random" {
		b = sharedBuild(f, kb)
	} else {
		b = build(f)
	}
	cache[key] = b
	if f.Name == "random" {
		cacheOrder = append(cacheOrder, key)
		if len(cacheOrder) > maxRandomCached {
			delete(cache, cacheOrder[0])
			cacheOrder = cacheOrder[1:]
		}
	}
	return b
}

// ---- cross-process cache of the catalog files.
//
// Writing and validating the catalog costs about a minute of CPU under the
// race detector (compress/flate is instrumented). The shards of one vcheck run
// execute the same binary on the same tree and share $VERIF_SCRATCH, so each
// catalog file is built and validated by whichever shard needs it first; the
// others load the result. The cache never outlives the run.

type diskMeta struct {
	Key      string  `json:"key"`
	Bounds   []int64 `json:"bounds"`
	NChunks  int     `json:"n_chunks"`
	NDict    int     `json:"n_dict"`
	Levels   int     `json:"levels"`
	Excluded string  `json:"excluded"`
	Skip     string  `json:"skip"`
	Viol     string  `json:"viol"`
	WalkerOK bool    `json:"walker_ok"`
	EncCRC   uint32  `json:"enc_crc"`
	EncLen   int     `json:"enc_len"`
}

func sharedBuild(f FileSpec, kb []byte) *built {
	dir := os.Getenv("VERIF_SCRATCH")
	if dir == "" || os.Getenv("C14_NO_DISK_CACHE") != "" {
		return build(f)
	}
	dir = filepath.Join(dir, "c14-files")
	os.MkdirAll(dir, 0o755)
	base := filepath.Join(dir, fmt.Sprintf("%s-%016x", f.Name, ev.Hash(kb)))
	load := func() *built {
		mb, err := os.ReadFile(base + ".json")
		if err != nil {
			return nil
		}
		var m diskMeta
		if json.Unmarshal(mb, &m) != nil || m.Key != string(kb) {
			return nil
		}
		enc, err := os.ReadFile(base + ".rac")
		if err != nil || len(enc) != m.EncLen || crc32.ChecksumIEEE(enc) != m.EncCRC {
			return nil
		}
		b := &built{spec: f, key: string(kb), hash: ev.Hash(kb), enc: enc, want: f.payload(), bounds: m.Bounds,
			nChunks: m.NChunks, nDict: m.NDict, levels: m.Levels, excluded: m.Excluded, skip: m.Skip, viol: m.Viol, walkerOK: m.WalkerOK}
		return b
	}
	if b := load(); b != nil {
		return b
	}
	lock, err := os.OpenFile(base+".lock", os.O_CREATE|os.O_EXCL|os.O_WRONLY, 0o644)
	if err != nil {
		// somebody else is building it: wait (bounded), then fall back.
		for i := 0; i < 1800; i++ {
			time.Sleep(100 * time.Millisecond)
			if b := load(); b != nil {
				return b
			}
		}
		return build(f)
	}
	lock.Close()
	b := build(f)
	m := diskMeta{Key: string(kb), Bounds: b.bounds, NChunks: b.nChunks, NDict: b.nDict, Levels: b.levels, Excluded: b.excluded,
		Skip: b.skip, Viol: b.viol, WalkerOK: b.walkerOK, EncCRC: crc32.ChecksumIEEE(b.enc), EncLen: len(b.enc)}
	mb, _ := json.Marshal(m)
	if os.WriteFile(base+".rac.tmp", b.enc, 0o644) == nil && os.Rename(base+".rac.tmp", base+".rac") == nil {
		if os.WriteFile(base+".json.tmp", mb, 0o644) == nil {
			os.Rename(base+".json.tmp", base+".json")
		}
	}
	return b
}
