// Package c14 decides property C14: RAC random access equals slicing the full
// decode, single-threaded or concurrent. A rac.Reader over a valid RAC file is
// driven through a random history of Read / Seek / SeekRange / Close calls and
// compared, call by call, with an in-memory reader over the fully decompressed
// data (positions, byte counts, bytes, io.EOF, error class). With worker
// goroutines enabled the same must hold under every scheduling the harness can
// provoke, no call may deadlock, no goroutine may survive Close and the race
// detector must stay silent.
package c14

import (
	"encoding/json"
	"fmt"
	"io"
	"os"
	"path/filepath"
	"runtime/debug"
	"strconv"
	"strings"
	"syscall"
	"testing"

	"pgregory.net/rapid"

	"verif/internal/ev"
)

// TestMain re-executes the (race-instrumented) test binary once with
// GORACE=log_path=… so that race reports land in a file this process can
// poll: a report is then attributed to the history that provoked it and saved
// as a replayable Case instead of merely failing the whole run at exit.
func TestMain(m *testing.M) {
	if raceEnabled && os.Getenv("C14_RACE_LOG") == "" {
		dir := os.Getenv("VERIF_OUT")
		if dir == "" {
			dir = os.Getenv("VERIF_SCRATCH")
		}
		if dir == "" {
			dir = os.TempDir()
		}
		path := filepath.Join(dir, "c14-race-"+strconv.Itoa(os.Getpid()))
		gr := strings.TrimSpace("log_path=" + path + " " + os.Getenv("GORACE"))
		env := append(os.Environ(), "GORACE="+gr, "C14_RACE_LOG="+path)
		if exe, err := os.Executable(); err == nil {
			syscall.Exec(exe, os.Args, env) // only returns on failure
		}
	}
	// Memory is plentiful and page faults are not: collect less often.
	debug.SetGCPercent(ev.EnvInt("C14_GCPERCENT", 300))
	code := m.Run()
	if p := raceLogPath(); p != "" {
		if b, err := os.ReadFile(p); err == nil && len(b) > 0 {
			// never drop a race report silently.
			os.Stderr.Write(b)
			if code == 0 {
				code = 66
			}
		}
		os.Remove(p)
	}
	ev.Flush()
	os.Exit(code)
}

// Step is one executed call: operation, arguments and (informational) the
// results observed when the history was generated.
type Step struct {
	Op     string `json:"op"` // read | seek | seekrange | close
	N      int    `json:"n,omitempty"`
	Off    int64  `json:"off,omitempty"`
	Whence int    `json:"whence,omitempty"`
	Lo     int64  `json:"lo,omitempty"`
	Hi     int64  `json:"hi,omitempty"`
	Res    string `json:"res,omitempty"`
}

// Case is the replayable form of one history.
type Case struct {
	File  FileSpec `json:"file"`
	Conc  int      `json:"conc"`
	Procs int      `json:"gomaxprocs"`
	Src   string   `json:"src"` // readerat | readseeker
	Sched []uint8  `json:"sched"`
	Steps []Step   `json:"steps"`
}

// MarshalJSON keeps Sched readable ([]uint8 would be base64).
func (c Case) MarshalJSON() ([]byte, error) {
	type alias Case
	s := make([]int, len(c.Sched))
	for i, v := range c.Sched {
		s[i] = int(v)
	}
	return json.Marshal(struct {
		alias
		Sched []int `json:"sched"`
	}{alias(c), s})
}

func (c *Case) UnmarshalJSON(b []byte) error {
	type alias Case
	var a struct {
		alias
		Sched []int `json:"sched"`
	}
	if err := json.Unmarshal(b, &a); err != nil {
		return err
	}
	*c = Case(a.alias)
	c.Sched = make([]uint8, len(a.Sched))
	for i, v := range a.Sched {
		c.Sched[i] = uint8(v)
	}
	return nil
}

func replayFile(c Case, msg string) []byte {
	raw, _ := json.Marshal(c)
	b, _ := json.MarshalIndent(ev.Replay{Property: "C14", Kind: "history", Case: raw, Message: msg}, "", " ")
	return b
}

const maxSteps = 60
const readBudget = 6 << 20

func (c Case) historyHash() uint64 {
	var sb strings.Builder
	for _, s := range c.Steps {
		fmt.Fprintf(&sb, "%s,%d,%d,%d,%d,%d;", s.Op, s.N, s.Off, s.Whence, s.Lo, s.Hi)
	}
	return ev.Hash(sb.String())
}

// checkCase is the oracle: it executes the recorded history once and compares
// every call with the model. classes of the form "name#N" add N to a counter,
// "excluded#name" counts an exclusion.
func checkCase(c Case) (msg string, nontrivial bool, classes []string) {
	b := getBuilt(c.File)
	switch {
	case b.viol != "":
		return b.viol, false, nil
	case b.excluded != "":
		return "", false, []string{"excluded#" + b.excluded}
	case b.skip != "":
		return "", false, []string{"skipped-" + strings.SplitN(b.skip, ":", 2)[0]}
	}
	e := newExec(&c, b)
	defer e.finish()
	for i := range c.Steps {
		if msg := e.step(&c.Steps[i]); msg != "" {
			return fmt.Sprintf("step %d (%s): %s", i, c.Steps[i].Op, msg), false, nil
		}
	}
	if msg := e.conclude(); msg != "" {
		return msg, false, nil
	}
	nontrivial, classes = e.verdict()
	return "", nontrivial, classes
}

// conclude closes the reader if the history did not, and polls the race log.
func (e *exec) conclude() string {
	if !e.abandoned && e.m.state != stClosed {
		st := Step{Op: "close"}
		if msg := e.step(&st); msg != "" {
			return "implicit final Close: " + msg
		}
	}
	e.clearInflight()
	if rep := newRaceReport(); rep != "" {
		return "DATA RACE reported by the race detector while this history ran:\n" + rep
	}
	return ""
}

type fataler interface {
	Fatalf(string, ...any)
}

func report(t fataler, c Case, msg string) {
	ev.Fail("C14", "history", c, msg)
	if p := os.Getenv("VERIF_OUT"); p != "" {
		os.Remove(filepath.Join(p, "fail-inflight-"+strconv.Itoa(os.Getpid())+".json"))
	}
	t.Fatalf("C14 violated: %s\nfile %s conc=%d gomaxprocs=%d src=%s, %d steps", msg, c.File.Name, c.Conc, c.Procs, c.Src, len(c.Steps))
}

func account(c Case, b *built, nt bool, classes []string) {
	for _, cl := range classes {
		if name, ok := strings.CutPrefix(cl, "excluded#"); ok {
			ev.Excluded(name)
		} else if i := strings.IndexByte(cl, '#'); i >= 0 {
			n, _ := strconv.Atoi(cl[i+1:])
			ev.ClassN(cl[:i], n)
		} else {
			ev.Class(cl)
		}
	}
	if nt {
		ev.Nontrivial(ev.Hash(b.hash, c.historyHash(), c.Conc), func() any { return c })
	}
}

// ---- generators

func genFileSpec(t *rapid.T) FileSpec {
	if uni(t, "file_random", 6) != 0 {
		return catalog[uni(t, "file_catalog", len(catalog))]
	}
	f := FileSpec{Name: "random", Mode: "writer", Codec: "zlib", Vocab: uint64(rapid.IntRange(0, 50).Draw(t, "vocab"))}
	// Random files are built inside the race-instrumented test binary, where
	// compress/flate manages well under 1 MB/s: half of them use LZ4 (cgo, not
	// instrumented; the reader logic under test is codec-independent) and the
	// zlib ones stay small. (No random zstd files: cgozstd needs ~10 ms per
	// chunk; that codec is covered by a catalog entry.)
	maxSeg := 12000
	switch uni(t, "codec", 20) {
	case 0, 1, 2, 3, 4, 5, 6, 7, 8:
		f.Codec = "lz4"
		maxSeg = 50000
	case 9, 10, 11:
		f.Mode = "chunks"
		if uni(t, "zeroes", 4) == 0 {
			f.Codec = "zeroes"
			maxSeg = 100000
		}
	}
	nseg := uniRange(t, "nseg", 1, 6)
	total := 0
	for i := 0; i < nseg; i++ {
		kind := []string{"zero", "zero", "text", "text", "lowent", "sparse", "ramp", "rand"}[uni(t, "seg_kind", 8)]
		if f.Codec == "zeroes" {
			kind = "zero"
		}
		n := 0
		switch uni(t, "seg_len_class", 6) {
		case 0:
			n = rapid.IntRange(0, 40).Draw(t, "seg_len")
		case 1, 2:
			n = rapid.IntRange(41, 3000).Draw(t, "seg_len")
		default:
			n = uniRange(t, "seg_len", 3001, maxSeg)
		}
		f.Segs = append(f.Segs, Seg{Kind: kind, Len: n, Seed: uint64(rapid.IntRange(0, 1<<20).Draw(t, "seg_seed"))})
		total += n
	}
	f.AtStart = uni(t, "at_start", 3) == 0
	f.CPage = []uint64{0, 0, 0, 256, 4096}[uni(t, "cpage", 5)]
	if f.Mode == "chunks" {
		n := uniRange(t, "n_chunk_sizes", 1, 8)
		for i := 0; i < n; i++ {
			sz := []int{1, 2, 17, 255, 256, 1000, 4096, 30000, 65535, 65536, 65537, 70001, 140000}[uni(t, "chunk_size", 13)]
			f.ChunkSizes = append(f.ChunkSizes, sz)
		}
		// at most 2000 chunks: pad the pattern with a large size if needed.
		sum := 0
		for _, s := range f.ChunkSizes {
			sum += s
		}
		if total/sum*len(f.ChunkSizes) > 1900 {
			f.ChunkSizes = append(f.ChunkSizes, total/100+1)
		}
		return f
	}
	if f.Codec == "zlib" && uni(t, "cchunk_mode", 6) == 0 {
		f.CChunk = []uint64{600, 1000, 4096, 20000}[uni(t, "cchunk", 4)]
	} else {
		f.DChunk = []uint64{17, 64, 100, 255, 256, 1000, 1500, 4096, 20000, 65535, 65536, 65537, 100000}[uni(t, "dchunk", 13)]
	}
	f.Dicts = []int{0, 0, 0, 0, 0, 1, 2}[uni(t, "dicts", 7)]
	if f.CChunk > 0 {
		// rac.Writer cannot combine CChunkSize with shared dictionaries:
		// zlibcut.Cut is given the dictionary-compressed chunk without the
		// dictionary and fails with "flate: corrupt input" (a writer
		// limitation outside C14; measured on 7 of 7 failing random specs).
		f.Dicts = 0
	}
	// Keep random files cheap to build: at most 600 chunks (the 2000-chunk
	// file is in the catalog), at most 48 when dictionaries are offered
	// (compress/flate allocates a fresh ~1 MiB compressor per dictionary try).
	maxChunks := uint64(600)
	if f.Dicts > 0 {
		maxChunks = 48
	}
	for f.DChunk > 0 && uint64(total)/f.DChunk > maxChunks {
		f.DChunk *= 4
	}
	return f
}

func genHeader(t *rapid.T) Case {
	c := Case{File: genFileSpec(t)}
	// half the histories use worker goroutines.
	if rapid.Bool().Draw(t, "concurrent") {
		c.Conc = []int{2, 3, 8}[uni(t, "conc_level", 3)]
	} else {
		c.Conc = uni(t, "conc_seq", 2)
	}
	if v := ev.EnvInt("C14_CONC", -1); v >= 0 {
		c.Conc = v // development aid only
	}
	c.Procs = []int{1, 2, 16}[uni(t, "gomaxprocs", 3)]
	c.Src = "readerat"
	if c.Conc == 0 && uni(t, "src_seeker", 5) < 2 {
		c.Src = "readseeker"
	}
	for _, v := range rapid.SliceOfN(rapid.IntRange(0, 3), 1, 12).Draw(t, "sched") {
		c.Sched = append(c.Sched, uint8(v))
	}
	return c
}

// uni draws a uniformly distributed integer in [0, n). rapid.IntRange and
// SampledFrom are deliberately biased towards small values and the maximum;
// for choosing among alternatives that bias would make the first alternative
// dominate (measured: 43% instead of 25%).
func uni(t *rapid.T, label string, n int) int {
	if n <= 1 {
		return 0
	}
	nb := 1
	for (1 << nb) < n*16 {
		nb++
	}
	v := 0
	for _, b := range rapid.SliceOfN(rapid.Bool(), nb, nb).Draw(t, label) {
		v <<= 1
		if b {
			v |= 1
		}
	}
	return v % n
}

// uniRange is uni over [lo, hi].
func uniRange(t *rapid.T, label string, lo, hi int) int {
	return lo + uni(t, label, hi-lo+1)
}

func uni64(t *rapid.T, label string, n int64) int64 {
	if n <= 1 {
		return 0
	}
	v := uint64(0)
	for _, b := range rapid.SliceOfN(rapid.Bool(), 40, 40).Draw(t, label) {
		v <<= 1
		if b {
			v |= 1
		}
	}
	return int64(v % uint64(n))
}

func small(t *rapid.T, label string) int64 {
	return int64(rapid.IntRange(0, 3000).Draw(t, label))
}

// drawPos draws a position of interest in DSpace (never negative).
func drawPos(t *rapid.T, e *exec, label string) int64 {
	m := &e.m
	bs := e.b.bounds
	var p int64
	switch uni(t, label+"_kind", 12) {
	case 0:
		p = 0
	case 1, 2:
		p = bs[uni(t, label+"_b", len(bs))]
	case 3, 4, 5:
		p = bs[uni(t, label+"_b", len(bs))] + int64(uniRange(t, label+"_d", -3, 700))
	case 6, 7:
		p = uni64(t, label+"_u", m.size+1)
	case 8:
		p = m.size + int64(uniRange(t, label+"_e", -2, 1))
	case 9, 10:
		p = m.pos + int64(rapid.IntRange(-300, 3000).Draw(t, label+"_rel"))
	default:
		p = m.size + int64(rapid.IntRange(2, 100000).Draw(t, label+"_past"))
		if uni(t, label+"_huge", 6) == 0 {
			p = 1<<40 + p
		}
	}
	if p < 0 {
		p = 0
	}
	return p
}

func nextBound(e *exec, pos int64) int64 {
	i := searchGT(e.b.bounds, pos)
	if i < len(e.b.bounds) {
		return e.b.bounds[i]
	}
	return e.m.size
}

func genStep(t *rapid.T, e *exec) Step {
	m := &e.m
	op := ""
	k := uni(t, "op", 100)
	if m.state == stAlive {
		switch {
		case k < 50:
			op = "read"
		case k < 83:
			op = "seek"
		case k < 98:
			op = "seekrange"
		default:
			op = "close"
		}
	} else {
		op = []string{"read", "seek", "seekrange", "close"}[k%4]
	}
	switch op {
	case "read":
		n := 0
		rk := uni(t, "read_kind", 100)
		if e.bytesRead > readBudget && rk >= 45 {
			rk = 10
		}
		switch {
		case rk < 3:
			n = 0
		case rk < 10:
			n = 1
		case rk < 35:
			n = uniRange(t, "read_small", 2, 700)
		case rk < 60:
			n = int(nextBound(e, m.pos)-m.pos) + uniRange(t, "read_to_bound", -1, 40)
		case rk < 70:
			n = 65536 + uniRange(t, "read_64k", -1, 1)
		case rk < 85:
			n = uniRange(t, "read_medium", 701, 20000)
		case rk < 90:
			n = int(m.size) + rapid.IntRange(1, 100).Draw(t, "read_beyond")
		default:
			n = int(m.limit-m.pos) + uniRange(t, "read_to_limit", -1, 1)
		}
		if n < 0 {
			n = 0
		}
		if n > 3<<20 {
			n = 3 << 20
		}
		return Step{Op: "read", N: n}
	case "seek":
		st := Step{Op: "seek"}
		sk := uni(t, "seek_kind", 100)
		st.Whence = []int{io.SeekStart, io.SeekStart, io.SeekStart, io.SeekCurrent, io.SeekCurrent, io.SeekEnd}[uni(t, "whence", 6)]
		var target int64
		switch {
		case sk < 2:
			target = -1 - small(t, "seek_neg")
		case sk < 3:
			st.Whence = rapid.SampledFrom([]int{3, -1, 7}).Draw(t, "bad_whence")
			st.Off = small(t, "seek_off")
			return st
		case sk < 12:
			target = m.pos
		default:
			target = drawPos(t, e, "seek")
		}
		switch st.Whence {
		case io.SeekStart:
			st.Off = target
		case io.SeekCurrent:
			st.Off = target - m.pos
		default:
			st.Off = target - m.size
		}
		return st
	case "seekrange":
		st := Step{Op: "seekrange"}
		st.Lo = drawPos(t, e, "lo")
		if uni(t, "lo_is_pos", 7) == 0 {
			st.Lo = m.pos
		}
		rk := uni(t, "range_kind", 100)
		switch {
		case rk < 2:
			st.Hi = st.Lo - 1 - small(t, "range_inv")
		case rk < 3:
			st.Lo = -1 - small(t, "range_neg")
			st.Hi = st.Lo + small(t, "range_neg_len")
		case rk < 12:
			st.Hi = st.Lo
		case rk < 20:
			st.Hi = st.Lo + 1
		case rk < 45:
			st.Hi = st.Lo + 2 + 2*small(t, "range_small")
		case rk < 60:
			st.Hi = nextBound(e, st.Lo) + int64(rapid.IntRange(-1, 300).Draw(t, "range_bound"))
			if st.Hi < st.Lo {
				st.Hi = st.Lo
			}
		case rk < 75:
			st.Hi = m.size
			if st.Hi < st.Lo {
				st.Hi = st.Lo
			}
		case rk < 85:
			st.Hi = m.size + 1 + small(t, "range_past")
			if st.Hi < st.Lo {
				st.Hi = st.Lo
			}
		case rk < 90:
			st.Hi = 1 << 50
		default:
			st.Hi = st.Lo + uni64(t, "range_len", m.size+1)
		}
		return st
	}
	return Step{Op: "close"}
}

func TestProp(t *testing.T) {
	rapid.Check(t, func(t *rapid.T) {
		ev.Eval()
		c := genHeader(t)
		b := getBuilt(c.File)
		switch {
		case b.viol != "":
			report(t, c, b.viol)
		case b.excluded != "":
			ev.Excluded(b.excluded)
			return
		case b.skip != "":
			ev.Class("skipped-" + strings.SplitN(b.skip, ":", 2)[0])
			spec, _ := json.Marshal(c.File)
			ev.Note(b.skip + " for " + string(spec))
			return
		}
		e := newExec(&c, b)
		defer e.finish()
		after := 0 // calls after Close / after a sticky error
		t.Repeat(map[string]func(*rapid.T){
			"step": func(t *rapid.T) {
				if len(c.Steps) >= maxSteps-1 || after >= 3 || e.abandoned {
					return
				}
				if e.m.state != stAlive {
					after++
				}
				c.Steps = append(c.Steps, genStep(t, e))
				i := len(c.Steps) - 1
				if msg := e.step(&c.Steps[i]); msg != "" {
					report(t, c, fmt.Sprintf("step %d (%s): %s", i, c.Steps[i].Op, msg))
				}
			},
		})
		if e.m.state != stClosed {
			c.Steps = append(c.Steps, Step{Op: "close"})
			i := len(c.Steps) - 1
			if msg := e.step(&c.Steps[i]); msg != "" {
				report(t, c, fmt.Sprintf("step %d (final close): %s", i, msg))
			}
		}
		if msg := e.conclude(); msg != "" {
			report(t, c, msg)
		}
		nt, classes := e.verdict()
		account(c, b, nt, classes)
	})
}

func TestReplay(t *testing.T) {
	p := ev.ReplayPath()
	if p == "" {
		t.Skip("no VERIF_REPLAY")
	}
	r, err := ev.LoadReplay(p)
	if err != nil {
		t.Fatalf("load: %v", err)
	}
	if r.Kind != "history" {
		t.Fatalf("unknown replay kind %q", r.Kind)
	}
	var c Case
	if err := json.Unmarshal(r.Case, &c); err != nil {
		t.Fatalf("decode: %v", err)
	}
	// Goroutine schedules are not reproducible: run concurrent histories
	// several times.
	reps := 3
	if c.Conc >= 2 {
		reps = ev.EnvInt("C14_REPLAY_REPS", 20)
	}
	for i := 0; i < reps; i++ {
		ev.Eval()
		cc := c
		cc.Steps = append([]Step(nil), c.Steps...)
		msg, nt, classes := checkCase(cc)
		if msg != "" {
			report(t, cc, fmt.Sprintf("(replay repetition %d of %d) %s", i+1, reps, msg))
		}
		account(cc, getBuilt(cc.File), nt, classes)
	}
}
