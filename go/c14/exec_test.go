package c14

// Execution of one history against a rac.Reader and the in-memory model, with
// the watchdog (deadlock proof from goroutine dumps), the goroutine-leak check
// after Close and the race-detector log check.

import (
	"bytes"
	"errors"
	"fmt"
	"io"
	"os"
	"path/filepath"
	"runtime"
	"strconv"
	"strings"
	"sync"
	"sync/atomic"
	"time"

	"github.com/google/wuffs/lib/rac"
)

// ---- the harness-owned source

type source struct {
	data   []byte
	sched  []uint8
	calls  atomic.Int64
	sleeps atomic.Int64
	closed atomic.Bool // set after Reader.Close returned
	late   atomic.Int64
	off    int64 // Read/Seek cursor; only the sequential reader uses it
}

const maxSleepsPerHistory = 48

func (s *source) perturb() {
	if s.closed.Load() {
		s.late.Add(1)
	}
	k := s.calls.Add(1)
	if len(s.sched) == 0 {
		return
	}
	switch s.sched[int(k)%len(s.sched)] {
	case 1:
		runtime.Gosched()
	case 2:
		if s.sleeps.Add(1) <= maxSleepsPerHistory {
			time.Sleep(time.Microsecond)
		} else {
			runtime.Gosched()
		}
	case 3:
		if s.sleeps.Add(1) <= maxSleepsPerHistory {
			time.Sleep(200 * time.Microsecond)
		} else {
			runtime.Gosched()
		}
	}
}

func (s *source) ReadAt(p []byte, off int64) (int, error) {
	s.perturb()
	if off < 0 {
		return 0, errors.New("source: negative offset")
	}
	if off >= int64(len(s.data)) {
		return 0, io.EOF
	}
	n := copy(p, s.data[off:])
	if n < len(p) {
		return n, io.EOF
	}
	return n, nil
}

func (s *source) Read(p []byte) (int, error) {
	s.perturb()
	if s.off >= int64(len(s.data)) {
		return 0, io.EOF
	}
	n := copy(p, s.data[s.off:])
	s.off += int64(n)
	return n, nil
}

func (s *source) Seek(offset int64, whence int) (int64, error) {
	s.perturb()
	switch whence {
	case io.SeekStart:
	case io.SeekCurrent:
		offset += s.off
	case io.SeekEnd:
		offset += int64(len(s.data))
	default:
		return 0, errors.New("source: invalid whence")
	}
	if offset < 0 {
		return 0, errors.New("source: negative position")
	}
	s.off = offset
	return offset, nil
}

// seekerOnly hides ReadAt, so that the rac.Reader has to use Read and Seek.
type seekerOnly struct{ s *source }

func (o seekerOnly) Read(p []byte) (int, error)         { return o.s.Read(p) }
func (o seekerOnly) Seek(a int64, w int) (int64, error) { return o.s.Seek(a, w) }

// ---- goroutine dumps

type gor struct {
	id     int
	state  string // without the ", N minutes" / ", locked to thread" decorations
	frames string // file:line list
	text   string
	isRac  bool
}

var dumpBuf = make([]byte, 1<<17)

func dumpAll() []gor {
	var buf []byte
	for {
		n := runtime.Stack(dumpBuf, true)
		if n < len(dumpBuf) {
			buf = dumpBuf[:n]
			break
		}
		dumpBuf = make([]byte, 2*len(dumpBuf))
	}
	var out []gor
	for _, blk := range strings.Split(string(buf), "\n\n") {
		blk = strings.TrimSpace(blk)
		if !strings.HasPrefix(blk, "goroutine ") {
			continue
		}
		lines := strings.Split(blk, "\n")
		h := lines[0]
		sp := strings.IndexByte(h[10:], ' ')
		if sp < 0 {
			continue
		}
		id, _ := strconv.Atoi(h[10 : 10+sp])
		st := ""
		if i, j := strings.IndexByte(h, '['), strings.LastIndexByte(h, ']'); i >= 0 && j > i {
			st = h[i+1 : j]
			if k := strings.IndexByte(st, ','); k >= 0 {
				st = st[:k]
			}
		}
		g := gor{id: id, state: st, text: blk}
		var fr []string
		for _, l := range lines[1:] {
			if strings.HasPrefix(l, "\t") {
				l = strings.TrimSpace(l)
				if k := strings.Index(l, " +0x"); k >= 0 {
					l = l[:k]
				}
				fr = append(fr, l)
			} else if strings.HasPrefix(l, "created by ") {
				break
			} else if strings.Contains(l, "wuffs/lib/rac.") {
				g.isRac = true
			}
		}
		g.frames = strings.Join(fr, "|")
		out = append(out, g)
	}
	return out
}

func chanParked(state string) bool {
	switch state {
	case "chan receive", "chan send", "select", "chan receive (nil chan)", "chan send (nil chan)", "select (no cases)":
		return true
	}
	return false
}

// goroutines of earlier, provably deadlocked readers of this process: they
// can never finish and are not the current reader's.
var (
	lostMu sync.Mutex
	lost   = map[int]bool{}
	// after the first proven deadlock the process is shrinking a failing
	// case: look at the goroutines sooner (the proof itself is time-free).
	deadlockSeen atomic.Bool
)

func racGoroutines(all []gor) []gor {
	lostMu.Lock()
	defer lostMu.Unlock()
	var out []gor
	for _, g := range all {
		if g.isRac && !lost[g.id] {
			out = append(out, g)
		}
	}
	return out
}

func sameParked(a, b []gor) bool {
	if len(a) == 0 || len(a) != len(b) {
		return false
	}
	m := map[int]gor{}
	for _, g := range a {
		if !chanParked(g.state) {
			return false
		}
		m[g.id] = g
	}
	for _, g := range b {
		o, ok := m[g.id]
		if !ok || o.state != g.state || o.frames != g.frames {
			return false
		}
	}
	return true
}

func describe(gs []gor) string {
	var sb strings.Builder
	for _, g := range gs {
		fr := strings.Split(g.frames, "|")
		for i := range fr {
			fr[i] = filepath.Base(fr[i])
		}
		if len(fr) > 4 {
			fr = fr[:4]
		}
		fmt.Fprintf(&sb, "  g%d [%s] %s\n", g.id, g.state, strings.Join(fr, " < "))
	}
	return sb.String()
}

// ---- race log

var raceLogSeen int64

func raceLogPath() string {
	p := os.Getenv("C14_RACE_LOG")
	if p == "" {
		return ""
	}
	return p + "." + strconv.Itoa(os.Getpid())
}

// newRaceReport returns the text the race detector wrote since the last call.
func newRaceReport() string {
	p := raceLogPath()
	if p == "" {
		return ""
	}
	fi, err := os.Stat(p)
	if err != nil || fi.Size() <= raceLogSeen {
		return ""
	}
	b, _ := os.ReadFile(p)
	if int64(len(b)) <= raceLogSeen {
		return ""
	}
	txt := string(b[raceLogSeen:])
	raceLogSeen = int64(len(b))
	if len(txt) > 3000 {
		txt = txt[:3000] + "…"
	}
	return txt
}

// ---- the model

const (
	stAlive  = iota
	stMaybe  // a call returned a non-EOF error: the reader may be dead (sticky) or not
	stDead   // a sticky error was observed: every later call must fail
	stClosed // Close was called
)

type model struct {
	data  []byte
	size  int64
	pos   int64
	limit int64
	state int
}

// ---- exec

type exec struct {
	c      *Case
	b      *built
	m      model
	r      *rac.Reader
	src    *source
	req    chan func()
	done   chan struct{}
	pan    string
	runner int // goroutine id of the runner
	timer  *time.Timer

	abandoned bool // the runner is stuck inside the reader for good
	finished  bool
	prevProcs int

	// statistics
	sinceSeekRead    bool // a Read submitted work since the last position change
	pendingCancel    bool // a position-changing seek was issued while work was outstanding
	nonAlignedSeek   bool // the last seek went to a non-chunk-aligned offset below the limit
	crossedAfterSeek bool // ... and a later read crossed a chunk boundary
	seeksInflight    int  // seeks issued while earlier work was outstanding
	cancels          int  // ... followed by a read, i.e. an actual cancel
	eofReads         int
	postClose        int
	shortReads       int
	slow             int
	zeroReads        int
	bytesRead        int64
	inflight         []byte // replay file prefix for the crash reproducer
	inflightPath     string
}

// readBuf is the Read destination, reused across histories (one history runs
// at a time).
var readBuf []byte

var errNoProgress = errors.New("no progress")

const hangLimit = 120 * time.Second

func goid() int {
	var b [64]byte
	n := runtime.Stack(b[:], false)
	f := strings.Fields(string(b[:n]))
	if len(f) >= 2 {
		id, _ := strconv.Atoi(f[1])
		return id
	}
	return -1
}

func newExec(c *Case, b *built) *exec {
	e := &exec{c: c, b: b, req: make(chan func()), done: make(chan struct{})}
	e.m = model{data: b.want, size: int64(len(b.want)), limit: int64(len(b.want))}
	if c.Procs > 0 {
		e.prevProcs = runtime.GOMAXPROCS(c.Procs)
	}
	e.src = &source{data: b.enc, sched: c.Sched}
	if c.Conc < 2 {
		// no other goroutine to interleave with: yields only.
		e.src.sleeps.Store(maxSleepsPerHistory)
	}
	_, crs := codecRW(b.spec.Codec)
	e.r = &rac.Reader{CompressedSize: int64(len(b.enc)), CodecReaders: crs, Concurrency: c.Conc}
	if c.Src == "readseeker" && c.Conc <= 0 {
		e.r.ReadSeeker = seekerOnly{e.src}
	} else {
		e.r.ReadSeeker = e.src
	}
	e.timer = time.NewTimer(time.Hour)
	e.timer.Stop()
	ready := make(chan int)
	go func() {
		ready <- goid()
		for fn := range e.req {
			func() {
				defer func() {
					if r := recover(); r != nil {
						buf := make([]byte, 4096)
						buf = buf[:runtime.Stack(buf, false)]
						e.pan = fmt.Sprintf("%v\n%s", r, buf)
					}
				}()
				fn()
			}()
			e.done <- struct{}{}
		}
	}()
	e.runner = <-ready
	if c.Conc >= 2 {
		if dir := os.Getenv("VERIF_OUT"); dir != "" {
			e.inflightPath = filepath.Join(dir, "fail-inflight-"+strconv.Itoa(os.Getpid())+".json")
		}
	}
	return e
}

// call runs fn (one call into the reader) under the watchdog.
func (e *exec) call(fn func()) string {
	if e.abandoned {
		return "internal: call after the runner was abandoned"
	}
	e.pan = ""
	e.req <- fn
	first, gap := 10*time.Second, time.Second
	if deadlockSeen.Load() {
		first, gap = 1500*time.Millisecond, 400*time.Millisecond
	}
	e.timer.Reset(first)
	start := time.Now()
	for {
		select {
		case <-e.done:
			e.timer.Stop()
			if e.pan != "" {
				return "PANIC inside the reader: " + e.pan
			}
			return ""
		case <-e.timer.C:
		}
		d1 := racGoroutines(dumpAll())
		select {
		case <-e.done:
			if e.pan != "" {
				return "PANIC inside the reader: " + e.pan
			}
			e.slow++
			return ""
		case <-time.After(gap):
		}
		d2 := racGoroutines(dumpAll())
		hasRunner := false
		for _, g := range d1 {
			if g.id == e.runner {
				hasRunner = true
			}
		}
		if hasRunner && sameParked(d1, d2) {
			// Every goroutine that can touch the reader's channels is parked
			// in a channel operation, in two stop-the-world snapshots: nobody
			// is left to wake anybody.
			e.abandon(d2)
			deadlockSeen.Store(true)
			return fmt.Sprintf("DEADLOCK: the call did not return after %v and all %d goroutines of the reader are parked in the same channel operations in two dumps %v apart:\n%s",
				time.Since(start).Round(time.Millisecond), len(d2), gap, describe(d2))
		}
		e.slow++
		if time.Since(start) > hangLimit {
			e.abandon(d2)
			return fmt.Sprintf("HANG: the call did not return within %v (goroutines are not provably deadlocked):\n%s", hangLimit, describe(d2))
		}
		e.timer.Reset(2 * time.Second)
	}
}

func (e *exec) abandon(gs []gor) {
	e.abandoned = true
	readBuf = nil // the stuck call may still own it
	lostMu.Lock()
	for _, g := range gs {
		lost[g.id] = true
	}
	lost[e.runner] = true
	lostMu.Unlock()
}

// leakCheck runs after Close returned.
func (e *exec) leakCheck() string {
	start := time.Now()
	sleep := 20 * time.Microsecond
	for {
		gs := racGoroutines(dumpAll())
		if len(gs) == 0 {
			return ""
		}
		el := time.Since(start)
		if el > 2*time.Second {
			time.Sleep(time.Second)
			gs2 := racGoroutines(dumpAll())
			if len(gs2) == 0 {
				e.slow++
				return ""
			}
			if sameParked(gs, gs2) {
				lostMu.Lock()
				for _, g := range gs2 {
					lost[g.id] = true
				}
				lostMu.Unlock()
				return fmt.Sprintf("GOROUTINE LEAK: %v after Close returned, %d goroutines of the reader are still parked in channel operations:\n%s",
					time.Since(start).Round(time.Millisecond), len(gs2), describe(gs2))
			}
			if el > 40*time.Second {
				lostMu.Lock()
				for _, g := range gs2 {
					lost[g.id] = true
				}
				lostMu.Unlock()
				return fmt.Sprintf("HANG: %d goroutines of the reader are still running %v after Close returned:\n%s", len(gs2), el.Round(time.Second), describe(gs2))
			}
			e.slow++
		}
		if sleep < 5*time.Millisecond {
			sleep *= 2
		}
		time.Sleep(sleep)
	}
}

func errClass(err error) string {
	switch err {
	case nil:
		return "nil"
	case io.EOF:
		return "EOF"
	}
	return "err(" + err.Error() + ")"
}

func (e *exec) writeInflight(st *Step) {
	if e.inflightPath == "" {
		return
	}
	rp := replayFile(*e.c, "the test process died (crash of a reader goroutine, fatal error or race-detector halt) while executing the last step of this history")
	os.WriteFile(e.inflightPath, rp, 0o644)
}

func (e *exec) clearInflight() {
	if e.inflightPath != "" {
		os.Remove(e.inflightPath)
	}
}

// step executes one step and compares it with the model. "" = agrees.
func (e *exec) step(st *Step) string {
	if e.abandoned {
		return ""
	}
	if e.c.Conc >= 2 {
		e.writeInflight(st)
	}
	m := &e.m
	if m.state == stClosed {
		e.postClose++
	}
	switch st.Op {
	case "read":
		if st.N < 0 {
			st.N = 0
		}
		if cap(readBuf) < st.N {
			readBuf = make([]byte, st.N+st.N/4)
		}
		p := readBuf[:st.N]
		for {
			var n int
			var err error
			if v := e.call(func() { n, err = e.r.Read(p) }); v != "" {
				return v
			}
			st.Res = fmt.Sprintf("n=%d %s @%d", n, errClass(err), m.pos)
			v := e.checkRead(st, p, n, err)
			if v == errNoProgress.Error() {
				// (0, nil) for a non-empty buffer: allowed but discouraged by
				// io.Reader; like bufio, give up after 100 in a row.
				e.zeroReads++
				if e.zeroReads >= 100 {
					return fmt.Sprintf("Read(len %d) at %d (limit %d) returned (0, nil) 100 times in a row: no progress", st.N, m.pos, m.limit)
				}
				continue
			}
			e.zeroReads = 0
			return v
		}
	case "seek":
		var got int64
		var err error
		if v := e.call(func() { got, err = e.r.Seek(st.Off, st.Whence) }); v != "" {
			return v
		}
		st.Res = fmt.Sprintf("pos=%d %s", got, errClass(err))
		return e.checkSeek(st, got, err)
	case "seekrange":
		var err error
		if v := e.call(func() { err = e.r.SeekRange(st.Lo, st.Hi) }); v != "" {
			return v
		}
		st.Res = errClass(err)
		return e.checkSeekRange(st, err)
	case "close":
		var err error
		if v := e.call(func() { err = e.r.Close() }); v != "" {
			return v
		}
		e.src.closed.Store(true)
		st.Res = errClass(err)
		prev := m.state
		m.state = stClosed
		switch prev {
		case stAlive:
			if err != nil {
				return fmt.Sprintf("Close of a healthy reader returned an error: %v", err)
			}
		case stDead:
			if err == nil {
				return "Close returned nil although an earlier call left a sticky error"
			}
		}
		if v := e.leakCheck(); v != "" {
			return v
		}
		if n := e.src.late.Load(); n > 0 {
			return fmt.Sprintf("the source was accessed %d times after Close returned (Close documents that r.ReadSeeker will not be accessed after it returns)", n)
		}
		return ""
	}
	return "internal: unknown op " + st.Op
}

// deadOrClosed handles the states in which every call must fail. handled
// reports whether the verdict is final.
func (e *exec) deadOrClosed(what string, err error, modelErr bool) (msg string, handled bool) {
	m := &e.m
	switch m.state {
	case stClosed, stDead:
		if err == nil {
			if m.state == stClosed {
				return what + " after Close succeeded; every call after Close must return an error", true
			}
			return what + " succeeded although an earlier call left a sticky error (rac.Reader: once a non-nil error occurs, all public methods return it)", true
		}
		return "", true
	case stMaybe:
		if err != nil && err != io.EOF && !modelErr {
			m.state = stDead
			return "", true
		}
		if err == nil {
			m.state = stAlive
		}
	}
	return "", false
}

func (e *exec) checkRead(st *Step, p []byte, n int, err error) string {
	m := &e.m
	if n < 0 || n > len(p) {
		return fmt.Sprintf("Read(len %d) returned n=%d outside [0, len]", len(p), n)
	}
	switch m.state {
	case stClosed, stDead:
		if err == nil {
			if m.state == stClosed {
				return "Read after Close succeeded; every call after Close must return an error"
			}
			return "Read succeeded although an earlier call left a sticky error (rac.Reader: once a non-nil error occurs, all public methods return it)"
		}
		if n != 0 {
			return fmt.Sprintf("Read on a closed/failed reader returned n=%d with %v", n, err)
		}
		return ""
	case stMaybe:
		if err != nil && err != io.EOF {
			// the earlier error was sticky.
			if n != 0 {
				return fmt.Sprintf("Read on a failed reader returned n=%d with %v", n, err)
			}
			m.state = stDead
			return ""
		}
		m.state = stAlive
	}
	at := fmt.Sprintf("Read(len %d) at pos %d (limit %d, size %d)", len(p), m.pos, m.limit, m.size)
	if err != nil && err != io.EOF {
		return fmt.Sprintf("%s failed on a valid file: n=%d err=%v", at, n, err)
	}
	if m.pos >= m.limit {
		if n != 0 {
			return fmt.Sprintf("%s returned %d bytes at or past the end", at, n)
		}
		if err == nil && len(p) > 0 {
			return errNoProgress.Error()
		}
		if err == io.EOF {
			e.eofReads++
		}
		return ""
	}
	maxn := m.limit - m.pos
	if int64(len(p)) < maxn {
		maxn = int64(len(p))
	}
	if int64(n) > maxn {
		return fmt.Sprintf("%s returned %d bytes, more than the %d available below the limit", at, n, maxn)
	}
	if !bytes.Equal(p[:n], m.data[m.pos:m.pos+int64(n)]) {
		d := firstDiff(p[:n], m.data[m.pos:m.pos+int64(n)])
		return fmt.Sprintf("%s returned wrong bytes: first difference at +%d (absolute %d): got 0x%02x want 0x%02x", at, d, m.pos+int64(d), p[d], m.data[m.pos+int64(d)])
	}
	if err == io.EOF && m.pos+int64(n) < m.limit {
		return fmt.Sprintf("%s returned io.EOF after %d bytes, %d bytes before the end", at, n, m.limit-m.pos-int64(n))
	}
	if n == 0 && err == nil && len(p) > 0 {
		return errNoProgress.Error()
	}
	if len(p) > 0 {
		e.sinceSeekRead = true
		if e.pendingCancel {
			e.pendingCancel = false
			e.cancels++
		}
	}
	// chunk boundary strictly inside (pos, pos+n)?
	if n > 1 && e.nonAlignedSeek {
		lo, hi := m.pos, m.pos+int64(n)
		bs := e.b.bounds
		i := searchGT(bs, lo)
		if i < len(bs) && bs[i] < hi {
			e.crossedAfterSeek = true
		}
	}
	if int64(n) < maxn {
		e.shortReads++
	}
	if err == io.EOF {
		e.eofReads++
	}
	m.pos += int64(n)
	e.bytesRead += int64(n)
	return ""
}

// searchGT returns the index of the first element > x.
func searchGT(s []int64, x int64) int {
	lo, hi := 0, len(s)
	for lo < hi {
		mid := (lo + hi) / 2
		if s[mid] <= x {
			lo = mid + 1
		} else {
			hi = mid
		}
	}
	return lo
}

func (e *exec) aligned(pos int64) bool {
	i := searchGT(e.b.bounds, pos-1)
	return i < len(e.b.bounds) && e.b.bounds[i] == pos
}

// moved does the bookkeeping for a successful Seek/SeekRange.
func (e *exec) moved(oldPos, oldLimit int64) {
	m := &e.m
	if e.c.Conc >= 2 && e.sinceSeekRead && oldPos < oldLimit {
		e.seeksInflight++
		if m.pos != oldPos || m.limit != oldLimit {
			e.pendingCancel = true
		}
	}
	if m.pos != oldPos {
		e.sinceSeekRead = false
		e.nonAlignedSeek = m.pos < m.limit && !e.aligned(m.pos)
	}
}

func (e *exec) checkSeek(st *Step, got int64, err error) string {
	m := &e.m
	target, modelErr := int64(0), false
	switch st.Whence {
	case io.SeekStart:
		target = st.Off
	case io.SeekCurrent:
		target = m.pos + st.Off
	case io.SeekEnd:
		target = m.size + st.Off
	default:
		modelErr = true
	}
	if target < 0 {
		modelErr = true
	}
	what := fmt.Sprintf("Seek(%d, %d) from pos %d (size %d)", st.Off, st.Whence, m.pos, m.size)
	if msg, handled := e.deadOrClosed(what, err, modelErr); handled {
		return msg
	}
	if modelErr {
		if err == nil {
			return fmt.Sprintf("%s succeeded (returned %d); seeking before the start or with an invalid whence must fail", what, got)
		}
		m.state = stMaybe
		return ""
	}
	if err != nil {
		return fmt.Sprintf("%s failed: %v; the in-memory reader seeks to %d", what, err, target)
	}
	if got != target {
		return fmt.Sprintf("%s returned position %d, want %d", what, got, target)
	}
	oldPos, oldLimit := m.pos, m.limit
	m.pos, m.limit = target, m.size
	e.moved(oldPos, oldLimit)
	return ""
}

func (e *exec) checkSeekRange(st *Step, err error) string {
	m := &e.m
	modelErr := st.Lo > st.Hi || st.Lo < 0
	what := fmt.Sprintf("SeekRange(%d, %d) from pos %d (size %d)", st.Lo, st.Hi, m.pos, m.size)
	if msg, handled := e.deadOrClosed(what, err, modelErr); handled {
		return msg
	}
	if modelErr {
		if err == nil {
			return what + " succeeded; low > high or a negative low must fail"
		}
		m.state = stMaybe
		return ""
	}
	if err != nil {
		return fmt.Sprintf("%s failed: %v", what, err)
	}
	oldPos, oldLimit := m.pos, m.limit
	m.pos, m.limit = st.Lo, st.Hi
	if m.limit > m.size {
		m.limit = m.size
	}
	e.moved(oldPos, oldLimit)
	return ""
}

// finish releases everything. It closes the reader when the history did not.
func (e *exec) finish() {
	if e.finished {
		return
	}
	e.finished = true
	if !e.abandoned && e.m.state != stClosed {
		e.call(func() { e.r.Close() })
		e.m.state = stClosed
		if !e.abandoned {
			e.leakCheck()
		}
	}
	if !e.abandoned {
		close(e.req)
	}
	if e.prevProcs > 0 {
		runtime.GOMAXPROCS(e.prevProcs)
	}
}

// verdict computes the classes and the non-trivial flag of a finished history.
func (e *exec) verdict() (nontrivial bool, classes []string) {
	c := e.c
	classes = append(classes, fmt.Sprintf("conc-%d", c.Conc), fmt.Sprintf("gomaxprocs-%d", c.Procs),
		"file-"+e.b.spec.Name, "codec-"+e.b.spec.Codec, "src-"+c.Src)
	if e.b.levels > 1 {
		classes = append(classes, "file-multilevel-index")
	}
	if e.b.nDict > 0 {
		classes = append(classes, "file-uses-dictionary")
	}
	if e.b.spec.AtStart {
		classes = append(classes, "file-index-at-start")
	}
	if e.seeksInflight > 0 {
		classes = append(classes, "hist-with-seek-inflight")
	}
	if e.cancels > 0 && c.Conc >= 2 {
		classes = append(classes, "hist-with-cancel")
	}
	if e.crossedAfterSeek {
		classes = append(classes, "hist-nonaligned-seek-then-crossing-read")
	}
	if e.eofReads > 0 {
		classes = append(classes, "hist-with-eof-read")
	}
	if e.postClose > 0 {
		classes = append(classes, "hist-with-post-close-call")
	}
	if e.shortReads > 0 {
		classes = append(classes, "hist-with-short-read")
	}
	if e.slow > 0 {
		classes = append(classes, "watchdog-slow-not-deadlocked")
	}
	if e.m.state == stDead || e.m.state == stMaybe {
		classes = append(classes, "hist-with-sticky-error")
	}
	classes = append(classes, fmt.Sprintf("n-steps#%d", len(c.Steps)), fmt.Sprintf("n-seeks-inflight#%d", e.seeksInflight),
		fmt.Sprintf("n-eof-reads#%d", e.eofReads), fmt.Sprintf("n-post-close-calls#%d", e.postClose))
	if c.Conc >= 2 {
		classes = append(classes, fmt.Sprintf("n-cancels#%d", e.cancels))
	}
	nontrivial = e.crossedAfterSeek && (c.Conc < 2 || e.cancels > 0)
	return nontrivial, classes
}
