// Package wdrv is the C side of engine E2: it turns (program, histories) into
// a C driver around the C that the tree's wuffs-c generates for the program,
// compiles batches of programs into one executable (the 24k-line base header
// is parsed once per batch), runs the histories and returns the canonical
// traces; the same histories are executed by the reference interpreter
// (winterp) through Interpret, and the two trace texts must be equal (C04).
package wdrv

import (
	"bytes"
	"fmt"
	"math/big"
	"os"
	"os/exec"
	"path/filepath"
	"strings"
	"sync"
	"time"

	a "github.com/google/wuffs/lang/ast"

	"verif/winterp"
)

// Step is one step of a history.
type Step struct {
	Op   string   `json:"op"` // "init" | "call" | "run"
	Func string   `json:"func,omitempty"`
	Args []uint64 `json:"args,omitempty"`
	// run (coroutine) steps:
	Src      []byte `json:"src,omitempty"`
	SrcPlan  []int  `json:"src_plan,omitempty"` // piece sizes, cyclic; empty = everything at once
	Close    bool   `json:"close,omitempty"`
	DstCap   int    `json:"dst_cap,omitempty"`
	DstPlan  []int  `json:"dst_plan,omitempty"` // window growth steps, cyclic; empty = whole capacity at once
	MaxCalls int    `json:"max_calls,omitempty"`
}

// History is a sequence of steps on one object.
type History struct {
	Steps []Step `json:"steps"`
}

// Sig describes a public function for the driver emitter.
type Sig struct {
	Name      string // "foo.step_0"
	CName     string
	ArgTypes  []string // C types of numeric args ("uint32_t"), or "io" entries for coroutines
	Ret       string   // "u" numeric, "b" bool, "s" status, "" none
	Coroutine bool
	Pure      bool
	NArgs     int
}

func cType(p *winterp.Program, typ *a.TypeExpr) string {
	switch p.TM.ByID(typ.QID()[1]) {
	case "u8":
		return "uint8_t"
	case "u16":
		return "uint16_t"
	case "u32":
		return "uint32_t"
	case "u64":
		return "uint64_t"
	case "bool":
		return "bool"
	}
	return "?"
}

// Sigs lists the public functions of a program.
func Sigs(p *winterp.Program) map[string]Sig {
	out := map[string]Sig{}
	for _, f := range p.PublicFuncs() {
		name := p.FuncName(f)
		parts := strings.SplitN(name, ".", 2)
		s := Sig{Name: name, CName: fmt.Sprintf("wuffs_%s__%s__%s", p.Pkg, parts[0], parts[1]), Coroutine: f.Effect().Coroutine(), Pure: f.Effect().Pure()}
		for _, o := range f.In().Fields() {
			ft := o.AsField().XType()
			if ft.IsIOType() {
				s.ArgTypes = append(s.ArgTypes, "io")
			} else {
				s.ArgTypes = append(s.ArgTypes, cType(p, ft))
			}
		}
		s.NArgs = len(s.ArgTypes)
		switch {
		case f.Effect().Coroutine():
			s.Ret = "s"
		case f.Out() == nil:
			s.Ret = ""
		case f.Out().IsStatus():
			s.Ret = "s"
		case f.Out().IsBool():
			s.Ret = "b"
		case f.Out().IsNumType():
			s.Ret = "u"
		default:
			s.Ret = "?"
		}
		out[name] = s
	}
	return out
}

// ---------------------------------------------------------------- the shared drive loop

// nextPiece returns the next piece size of a cyclic plan; an empty plan means
// "everything". Two empty pieces in a row are turned into a 1-byte piece.
type planCursor struct {
	plan  []int
	pos   int
	zeros int
}

func (c *planCursor) next(left int) int {
	if len(c.plan) == 0 {
		return left
	}
	n := c.plan[c.pos%len(c.plan)]
	c.pos++
	if n == 0 && left > 0 {
		c.zeros++
		if c.zeros >= 2 {
			n, c.zeros = 1, 0
		}
	} else {
		c.zeros = 0
	}
	if n > left {
		n = left
	}
	return n
}

const defaultMaxCalls = 300

// Interpret runs the histories on the reference interpreter and returns one
// trace per history plus the monitor violations of each.
func Interpret(p *winterp.Program, hs []History, monitors bool, judge ...string) (traces []string, viols [][]winterp.Violation, stats []winterp.Stats, err error) {
	sigs := Sigs(p)
	getters := p.Getters()
	for _, h := range hs {
		var tr bytes.Buffer
		in := winterp.New(p)
		in.Monitors = monitors
		if len(judge) > 0 {
			in.Judge = judge[0]
		}
		src, dst := &winterp.IOBuf{}, &winterp.IOBuf{Writer: true}
		aborted := false
		getterLine := func() {
			if aborted || len(getters) == 0 {
				return
			}
			tr.WriteString("G")
			for _, g := range getters {
				r, e := in.Call(g, map[string]winterp.Value{})
				if e != nil {
					err = e
					return
				}
				if r.Aborted != "" {
					aborted = true
					fmt.Fprintf(&tr, " X %s", r.Aborted)
					break
				}
				fmt.Fprintf(&tr, " %s=%s", g, r.Value)
			}
			tr.WriteString("\n")
		}
		for _, s := range h.Steps {
			if aborted || err != nil {
				break
			}
			switch s.Op {
			case "init":
				in.Initialize()
				tr.WriteString("I \n")
			case "call":
				sg, ok := sigs[s.Func]
				if !ok {
					continue
				}
				fu := p.Funcs[s.Func]
				args := map[string]winterp.Value{}
				for i, o := range fu.In().Fields() {
					if i < len(s.Args) {
						args[p.TM.ByID(o.AsField().Name())] = winterp.Num(s.Args[i])
					}
				}
				r, e := in.Call(s.Func, args)
				if e != nil {
					err = e
					break
				}
				fmt.Fprintf(&tr, "C %s", s.Func)
				for i := range sg.ArgTypes {
					if i < len(s.Args) {
						fmt.Fprintf(&tr, " %d", s.Args[i])
					}
				}
				if r.Aborted != "" {
					aborted = true
					fmt.Fprintf(&tr, " -> X %s\n", r.Aborted)
					break
				}
				switch sg.Ret {
				case "s":
					fmt.Fprintf(&tr, " -> %q\n", r.Status)
				case "u", "b":
					fmt.Fprintf(&tr, " -> %s\n", r.Value)
				default:
					tr.WriteString(" -> -\n")
				}
				getterLine()
			case "run":
				if _, ok := sigs[s.Func]; !ok {
					continue
				}
				// A suspended coroutine sees whatever buffers the NEXT call passes (the
				// generated C reloads its I/O pointers from the arguments on resume), so
				// the two buffer objects persist over the history and are refilled in place.
				*src = winterp.IOBuf{Data: append([]byte(nil), s.Src...)}
				*dst = winterp.IOBuf{Data: make([]byte, s.DstCap), Writer: true}
				full := dst.Data
				sc, dc := &planCursor{plan: s.SrcPlan}, &planCursor{plan: s.DstPlan}
				fed := sc.next(len(s.Src))
				src.Wi = fed
				src.Closed = s.Close && fed == len(s.Src)
				lim := dc.next(s.DstCap)
				dst.Data = full[:lim]
				maxCalls := s.MaxCalls
				if maxCalls <= 0 {
					maxCalls = defaultMaxCalls
				}
				other := 0
				for k := 0; k < maxCalls; k++ {
					r, e := in.Call(s.Func, map[string]winterp.Value{"dst": winterp.IOArg(dst), "src": winterp.IOArg(src)})
					if e != nil {
						err = e
						break
					}
					if r.Aborted != "" {
						aborted = true
						fmt.Fprintf(&tr, "R %s %d: X %s\n", s.Func, k, r.Aborted)
						break
					}
					fmt.Fprintf(&tr, "R %s %d: %q ri=%d wi=%d\n", s.Func, k, r.Status, src.Ri, dst.Wi)
					if r.Status == "$base: short read" {
						if fed < len(s.Src) {
							n := sc.next(len(s.Src) - fed)
							fed += n
							src.Wi = fed
							src.Closed = s.Close && fed == len(s.Src)
							continue
						}
						break
					}
					if r.Status == "$base: short write" {
						if lim < s.DstCap {
							lim += max(1, dc.next(s.DstCap-lim))
							if lim > s.DstCap {
								lim = s.DstCap
							}
							dst.Data = full[:lim]
							continue
						}
						break
					}
					if len(r.Status) > 0 && r.Status[0] == '$' {
						other++
						if other > 8 {
							break
						}
						continue
					}
					break
				}
				if err == nil && !aborted {
					fmt.Fprintf(&tr, "O %x\n", full[:dst.Wi])
					getterLine()
				}
			}
		}
		in.Drop()
		traces = append(traces, tr.String())
		viols = append(viols, append(in.Viol, in.Other...))
		stats = append(stats, in.Stats)
		if err != nil {
			return traces, viols, stats, err
		}
	}
	return traces, viols, stats, nil
}

// ---------------------------------------------------------------- C emission

func cBytes(b []byte) string {
	if len(b) == 0 {
		return "{0}"
	}
	var sb strings.Builder
	sb.WriteString("{")
	for i, x := range b {
		if i > 0 {
			sb.WriteString(",")
		}
		fmt.Fprintf(&sb, "%d", x)
	}
	sb.WriteString("}")
	return sb.String()
}

func cInts(p []int) string {
	if len(p) == 0 {
		return "{0}"
	}
	var sb strings.Builder
	sb.WriteString("{")
	for i, x := range p {
		if i > 0 {
			sb.WriteString(",")
		}
		fmt.Fprintf(&sb, "%d", x)
	}
	sb.WriteString("}")
	return sb.String()
}

const cPrelude = `
#include <stdio.h>
#include <stdlib.h>
#include <string.h>
typedef struct { const int* plan; int n; int pos; int zeros; } plan_cursor;
static int plan_next(plan_cursor* c, int left) {
  if (c->n == 0) return left;
  int v = c->plan[c->pos % c->n];
  c->pos++;
  if (v == 0 && left > 0) { c->zeros++; if (c->zeros >= 2) { v = 1; c->zeros = 0; } } else { c->zeros = 0; }
  if (v > left) v = left;
  return v;
}
static void print_status(wuffs_base__status st) {
  putchar('"');
  for (const char* p = st.repr ? st.repr : ""; *p; p++) { if (*p == '"' || *p == '\\') putchar('\\'); putchar(*p); }
  putchar('"');
}
typedef wuffs_base__status (*coro_fn)(void* self, wuffs_base__io_buffer* dst, wuffs_base__io_buffer* src);
static void drive(const char* name, coro_fn fn, void* self, const uint8_t* srcbytes, int srclen, const int* splan, int nsplan, int do_close,
                  int dstcap, const int* dplan, int ndplan, int maxcalls, uint8_t* dstmem, int* out_wi) {
  plan_cursor sc = {splan, nsplan, 0, 0}, dc = {dplan, ndplan, 0, 0};
  // exact-size source copies would hide nothing here: the buffer is the whole
  // input with wi advanced; bytes beyond wi are poisoned.
  uint8_t* srcmem = (uint8_t*)malloc(srclen ? srclen : 1);
  memset(srcmem, 0xEE, srclen);
  wuffs_base__io_buffer src, dst;
  memset(&src, 0, sizeof src); memset(&dst, 0, sizeof dst);
  int fed = plan_next(&sc, srclen);
  memcpy(srcmem, srcbytes, fed);
  src.data.ptr = srcmem; src.data.len = srclen; src.meta.wi = fed; src.meta.closed = do_close && fed == srclen;
  int lim = plan_next(&dc, dstcap);
  dst.data.ptr = dstmem; dst.data.len = lim;
  int other = 0;
  for (int k = 0; k < maxcalls; k++) {
    wuffs_base__status st = fn(self, &dst, &src);
    printf("R %s %d: ", name, k); print_status(st); printf(" ri=%d wi=%d\n", (int)src.meta.ri, (int)dst.meta.wi);
    if (st.repr == wuffs_base__suspension__short_read) {
      if (fed < srclen) {
        int n = plan_next(&sc, srclen - fed);
        memcpy(srcmem + fed, srcbytes + fed, n);
        fed += n; src.meta.wi = fed; src.meta.closed = do_close && fed == srclen;
        continue;
      }
      break;
    }
    if (st.repr == wuffs_base__suspension__short_write) {
      if (lim < dstcap) {
        int g = plan_next(&dc, dstcap - lim); if (g < 1) g = 1;
        lim += g; if (lim > dstcap) lim = dstcap;
        dst.data.len = lim;
        continue;
      }
      break;
    }
    if (st.repr && st.repr[0] == '$') { if (++other > 8) break; continue; }
    break;
  }
  *out_wi = (int)dst.meta.wi;
  free(srcmem);
}
`

// Unit is one program of a batch.
type Unit struct {
	Prog      *winterp.Program
	CSource   []byte // output of wuffs-c gen for the program
	Histories []History
}

// EmitBatch writes the single translation unit of a batch.
func EmitBatch(dir string, units []Unit) (string, error) {
	var sb strings.Builder
	sb.WriteString("#define WUFFS_IMPLEMENTATION\n#define WUFFS_CONFIG__MODULES\n")
	for _, u := range units {
		fmt.Fprintf(&sb, "#define WUFFS_CONFIG__MODULE__%s\n", strings.ToUpper(u.Prog.Pkg))
	}
	for i, u := range units {
		fn := fmt.Sprintf("unit%d.c", i)
		if err := os.WriteFile(filepath.Join(dir, fn), u.CSource, 0o644); err != nil {
			return "", err
		}
		fmt.Fprintf(&sb, "#include \"%s\"\n", fn)
	}
	sb.WriteString(cPrelude)
	for i, u := range units {
		p := u.Prog
		sigs := Sigs(p)
		st := p.TM.ByID(p.Structs[0].QID()[1])
		ctype := fmt.Sprintf("wuffs_%s__%s", p.Pkg, st)
		getters := p.Getters()
		fmt.Fprintf(&sb, "static void getters_%d(%s* o) {\n", i, ctype)
		if len(getters) > 0 {
			sb.WriteString("  printf(\"G\");\n")
			for _, g := range getters {
				fmt.Fprintf(&sb, "  printf(\" %s=%%llu\", (unsigned long long)%s(o));\n", g, sigs[g].CName)
			}
			sb.WriteString("  printf(\"\\n\");\n")
		}
		sb.WriteString("}\n")
		for hi, h := range u.Histories {
			fmt.Fprintf(&sb, "static void hist_%d_%d(void) {\n  %s* o = (%s*)malloc(sizeof__%s());\n  memset(o, 0xA5, sizeof__%s());\n  wuffs_base__status st; (void)st;\n", i, hi, ctype, ctype, ctype, ctype)
			for si, s := range h.Steps {
				switch s.Op {
				case "init":
					fmt.Fprintf(&sb, "  st = %s__initialize(o, sizeof__%s(), WUFFS_VERSION, 0);\n  printf(\"I %%s\\n\", st.repr ? st.repr : \"\");\n", ctype, ctype)
				case "call":
					sg, ok := sigs[s.Func]
					if !ok {
						continue
					}
					var args []string
					for k, at := range sg.ArgTypes {
						v := uint64(0)
						if k < len(s.Args) {
							v = s.Args[k]
						}
						args = append(args, fmt.Sprintf("(%s)%dull", at, v))
					}
					call := fmt.Sprintf("%s(o%s)", sg.CName, joinPrefix(args))
					fmt.Fprintf(&sb, "  printf(\"C %s", s.Func)
					for k := range sg.ArgTypes {
						if k < len(s.Args) {
							fmt.Fprintf(&sb, " %d", s.Args[k])
						}
					}
					sb.WriteString(" -> \");\n")
					switch sg.Ret {
					case "s":
						fmt.Fprintf(&sb, "  st = %s; print_status(st); printf(\"\\n\");\n", call)
					case "u", "b":
						fmt.Fprintf(&sb, "  printf(\"%%llu\\n\", (unsigned long long)%s);\n", call)
					default:
						fmt.Fprintf(&sb, "  %s; printf(\"-\\n\");\n", call)
					}
					fmt.Fprintf(&sb, "  getters_%d(o);\n", i)
				case "run":
					sg, ok := sigs[s.Func]
					if !ok {
						continue
					}
					maxCalls := s.MaxCalls
					if maxCalls <= 0 {
						maxCalls = defaultMaxCalls
					}
					fmt.Fprintf(&sb, "  {\n    static const uint8_t srcb_%d[] = %s;\n    static const int sp_%d[] = %s;\n    static const int dp_%d[] = %s;\n", si, cBytes(s.Src), si, cInts(s.SrcPlan), si, cInts(s.DstPlan))
					fmt.Fprintf(&sb, "    uint8_t* dm = (uint8_t*)malloc(%d ? %d : 1); memset(dm, 0xDD, %d); int wi = 0;\n", s.DstCap, s.DstCap, s.DstCap)
					fmt.Fprintf(&sb, "    drive(\"%s\", (coro_fn)%s, o, srcb_%d, %d, sp_%d, %d, %d, %d, dp_%d, %d, %d, dm, &wi);\n",
						s.Func, sg.CName, si, len(s.Src), si, len(s.SrcPlan), b2i(s.Close), s.DstCap, si, len(s.DstPlan), maxCalls)
					fmt.Fprintf(&sb, "    printf(\"O \"); for (int q = 0; q < wi; q++) printf(\"%%02x\", dm[q]); printf(\"\\n\"); free(dm);\n    getters_%d(o);\n  }\n", i)
				}
			}
			sb.WriteString("  free(o);\n}\n")
		}
	}
	sb.WriteString("int main(int argc, char** argv) {\n  int u = argc > 1 ? atoi(argv[1]) : -1;\n  setvbuf(stdout, NULL, _IOFBF, 1 << 16);\n")
	for i, u := range units {
		fmt.Fprintf(&sb, "  if (u == %d) {\n", i)
		for hi := range u.Histories {
			fmt.Fprintf(&sb, "    printf(\"=== H%d\\n\"); fflush(stdout); hist_%d_%d(); fflush(stdout);\n", hi, i, hi)
		}
		sb.WriteString("  }\n")
	}
	sb.WriteString("  return 0;\n}\n")
	path := filepath.Join(dir, "batch.c")
	return path, os.WriteFile(path, []byte(sb.String()), 0o644)
}

func joinPrefix(args []string) string {
	if len(args) == 0 {
		return ""
	}
	return ", " + strings.Join(args, ", ")
}

func b2i(b bool) int {
	if b {
		return 1
	}
	return 0
}

// ---------------------------------------------------------------- toolchain

// Tool locates the tree's freshly built tools and the shared base object.
type Tool struct {
	Bin     string // directory with wuffs-c
	Work    string // scratch directory
	mu      sync.Mutex
	baseC   string
	baseObj map[string]string // by flags
}

// NewTool needs VERIF_BIN (set by vcheck's prepTools) and a scratch dir.
func NewTool() (*Tool, error) {
	bin := os.Getenv("VERIF_BIN")
	if bin == "" {
		return nil, fmt.Errorf("VERIF_BIN is not set (run through check.sh)")
	}
	work := os.Getenv("VERIF_E2_WORK")
	if work == "" {
		var err error
		work, err = os.MkdirTemp(os.Getenv("VERIF_SCRATCH"), "e2-")
		if err != nil {
			return nil, err
		}
	}
	return &Tool{Bin: bin, Work: work, baseObj: map[string]string{}}, nil
}

func run(dir string, timeout time.Duration, name string, args ...string) ([]byte, error) {
	cmd := exec.Command(name, args...)
	cmd.Dir = dir
	cmd.Env = append(os.Environ(), "ASAN_OPTIONS=detect_leaks=0:abort_on_error=0:exitcode=99", "UBSAN_OPTIONS=print_stacktrace=1:halt_on_error=1:exitcode=99")
	var out bytes.Buffer
	cmd.Stdout, cmd.Stderr = &out, &out
	if err := cmd.Start(); err != nil {
		return nil, err
	}
	done := make(chan error, 1)
	go func() { done <- cmd.Wait() }()
	select {
	case err := <-done:
		return out.Bytes(), err
	case <-time.After(timeout):
		cmd.Process.Kill()
		<-done
		return out.Bytes(), fmt.Errorf("timeout after %v", timeout)
	}
}

// GenC runs the tree's wuffs-c on one program.
func (tl *Tool) GenC(pkg string, src []byte) ([]byte, error) {
	dir, err := os.MkdirTemp(tl.Work, "gen-")
	if err != nil {
		return nil, err
	}
	defer os.RemoveAll(dir)
	fn := filepath.Join(dir, pkg+".wuffs")
	if err := os.WriteFile(fn, src, 0o644); err != nil {
		return nil, err
	}
	cmd := exec.Command(filepath.Join(tl.Bin, "wuffs-c"), "gen", "-package_name", pkg, fn)
	var so, se bytes.Buffer
	cmd.Stdout, cmd.Stderr = &so, &se
	if err := cmd.Run(); err != nil {
		return nil, fmt.Errorf("wuffs-c gen: %v: %s", err, se.String())
	}
	return so.Bytes(), nil
}

// SanFlags are the compiler flags of the sanitizer build.
const SanFlags = "-g -O1 -fsanitize=address,undefined,bounds-strict -fno-sanitize=nonnull-attribute -fno-sanitize-recover=all -fno-omit-frame-pointer"

// base returns the path of wuffs-base.c and of base.o compiled with flags.
func (tl *Tool) base(flags string) (string, string, error) {
	tl.mu.Lock()
	defer tl.mu.Unlock()
	if tl.baseC == "" {
		out, err := exec.Command(filepath.Join(tl.Bin, "wuffs-c"), "gen", "-package_name", "base").Output()
		if err != nil {
			return "", "", fmt.Errorf("wuffs-c gen -package_name base: %v", err)
		}
		tl.baseC = filepath.Join(tl.Work, "wuffs-base.c")
		if err := os.WriteFile(tl.baseC, out, 0o644); err != nil {
			return "", "", err
		}
	}
	if o, ok := tl.baseObj[flags]; ok {
		return tl.baseC, o, nil
	}
	if pre := os.Getenv("VERIF_E2_BASE_" + flagKey(flags)); pre != "" {
		tl.baseObj[flags] = pre
		return tl.baseC, pre, nil
	}
	obj := filepath.Join(tl.Work, "base-"+flagKey(flags)+".o")
	args := append(strings.Fields(flags), "-c", "-DWUFFS_IMPLEMENTATION", "-DWUFFS_CONFIG__MODULES", "-DWUFFS_CONFIG__MODULE__BASE", "-x", "c", tl.baseC, "-o", obj)
	if out, err := run(tl.Work, 10*time.Minute, "gcc", args...); err != nil {
		return "", "", fmt.Errorf("compiling base: %v\n%s", err, out)
	}
	tl.baseObj[flags] = obj
	return tl.baseC, obj, nil
}

func flagKey(flags string) string {
	if strings.Contains(flags, "sanitize") {
		return "SAN"
	}
	if strings.Contains(flags, "-O2") {
		return "O2"
	}
	return "O0"
}

// RunBatch compiles the batch with flags and runs every unit; out[i] holds the
// traces of unit i (one per history), crash[i] the sanitizer/compiler output
// when unit i did not complete.
func (tl *Tool) RunBatch(units []Unit, flags string) (out [][]string, crash []string, err error) {
	baseC, baseObj, err := tl.base(flags)
	if err != nil {
		return nil, nil, err
	}
	dir, err := os.MkdirTemp(tl.Work, "batch-")
	if err != nil {
		return nil, nil, err
	}
	defer os.RemoveAll(dir)
	os.Symlink(baseC, filepath.Join(dir, "wuffs-base.c"))
	src, err := EmitBatch(dir, units)
	if err != nil {
		return nil, nil, err
	}
	exe := filepath.Join(dir, "batch")
	args := append(strings.Fields(flags), "-w", src, baseObj, "-o", exe)
	if o, e := run(dir, 10*time.Minute, "gcc", args...); e != nil {
		return nil, nil, &CompileError{Output: string(o)}
	}
	out = make([][]string, len(units))
	crash = make([]string, len(units))
	for i := range units {
		o, e := run(dir, 60*time.Second, exe, fmt.Sprint(i))
		parts := strings.Split(string(o), "=== H")
		for _, p := range parts[1:] {
			if nl := strings.IndexByte(p, '\n'); nl >= 0 {
				out[i] = append(out[i], p[nl+1:])
			}
		}
		if e != nil {
			crash[i] = fmt.Sprintf("%v\n%s", e, tailStr(string(o), 3000))
		}
	}
	return out, crash, nil
}

// CompileError is returned when gcc rejects a batch.
type CompileError struct{ Output string }

func (e *CompileError) Error() string { return "the generated C does not compile:\n" + tailStr(e.Output, 4000) }

func tailStr(s string, n int) string {
	if len(s) > n {
		return "…" + s[len(s)-n:]
	}
	return s
}

var _ = big.NewInt

// CompileAlone compiles one program's C on its own (no sanitizer, base
// implementation excluded) to a relocatable object for static inspection.
func (tl *Tool) CompileAlone(pkg string, csrc []byte) (obj string, cleanup func(), err error) {
	baseC, _, err := tl.baseCOnly()
	if err != nil {
		return "", nil, err
	}
	dir, err := os.MkdirTemp(tl.Work, "alone-")
	if err != nil {
		return "", nil, err
	}
	cleanup = func() { os.RemoveAll(dir) }
	os.Symlink(baseC, filepath.Join(dir, "wuffs-base.c"))
	src := filepath.Join(dir, "unit.c")
	if err := os.WriteFile(src, csrc, 0o644); err != nil {
		cleanup()
		return "", nil, err
	}
	obj = filepath.Join(dir, "unit.o")
	args := []string{"-c", "-O1", "-fno-stack-protector", "-w", "-DWUFFS_IMPLEMENTATION", "-DWUFFS_CONFIG__MODULES", "-DWUFFS_CONFIG__MODULE__" + strings.ToUpper(pkg), src, "-o", obj}
	if o, e := run(dir, 5*time.Minute, "gcc", args...); e != nil {
		cleanup()
		return "", nil, &CompileError{Output: string(o)}
	}
	return obj, cleanup, nil
}

// baseCOnly returns the path of wuffs-base.c (generated once per process).
func (tl *Tool) baseCOnly() (string, string, error) {
	tl.mu.Lock()
	defer tl.mu.Unlock()
	if tl.baseC == "" {
		out, err := exec.Command(filepath.Join(tl.Bin, "wuffs-c"), "gen", "-package_name", "base").Output()
		if err != nil {
			return "", "", fmt.Errorf("wuffs-c gen -package_name base: %v", err)
		}
		tl.baseC = filepath.Join(tl.Work, "wuffs-base.c")
		if err := os.WriteFile(tl.baseC, out, 0o644); err != nil {
			return "", "", err
		}
	}
	return tl.baseC, "", nil
}
