package wdrv

import (
	"fmt"
	"os"
	"testing"

	"verif/winterp"
)

func TestProbe(t *testing.T) {
	if os.Getenv("VERIF_BIN") == "" {
		t.Skip("VERIF_BIN not set")
	}
	src, err := os.ReadFile("/verif/notes/probes/g1_accepted_idioms.wuffs")
	if err != nil {
		t.Skip("probe missing")
	}
	p, err := winterp.Load("foo", src)
	if err != nil {
		t.Fatal(err)
	}
	hs := []History{
		{Steps: []Step{{Op: "init"}, {Op: "call", Func: "foo.step", Args: []uint64{12345, 7}}, {Op: "call", Func: "foo.step", Args: []uint64{0xFFFFFFFF, 255}},
			{Op: "run", Func: "foo.run", Src: []byte{1, 1, 2, 3, 4, 2, 9, 8, 7, 3, 1, 1, 1, 4, 5, 6, 0}, Close: true, DstCap: 64}}},
		{Steps: []Step{{Op: "init"}, {Op: "run", Func: "foo.run", Src: []byte{1, 1, 2, 3, 4, 2, 9, 8, 7, 3, 1, 1, 1, 4, 5, 6, 0}, SrcPlan: []int{1}, Close: true, DstCap: 64, DstPlan: []int{1}},
			{Op: "call", Func: "foo.step", Args: []uint64{3, 3}}}},
		{Steps: []Step{{Op: "call", Func: "foo.step", Args: []uint64{3, 3}}, {Op: "init"}, {Op: "run", Func: "foo.run", Src: []byte{5, 0xFF, 0}, SrcPlan: []int{2, 0, 0, 1}, Close: true, DstCap: 2, DstPlan: []int{0, 1}},
			{Op: "call", Func: "foo.step", Args: []uint64{3, 3}}, {Op: "run", Func: "foo.run", Src: []byte{0}, DstCap: 2}}},
	}
	tr, viol, stats, err := Interpret(p, hs, false)
	if err != nil {
		t.Fatal(err)
	}
	for i := range tr {
		fmt.Printf("--- interp H%d viol=%v stats=%+v\n%s", i, viol[i], stats[i], tr[i])
	}
	tl, err := NewTool()
	if err != nil {
		t.Fatal(err)
	}
	c, err := tl.GenC("foo", src)
	if err != nil {
		t.Fatal(err)
	}
	out, crash, err := tl.RunBatch([]Unit{{Prog: p, CSource: c, Histories: hs}}, SanFlags)
	if err != nil {
		t.Fatal(err)
	}
	for i := range out[0] {
		if out[0][i] != tr[i] {
			t.Errorf("H%d differs:\n--- C\n%s", i, out[0][i])
		}
	}
	if crash[0] != "" {
		t.Errorf("crash: %s", crash[0])
	}
}
