// Package c13 decides property C13: RAC writing then reading returns the
// original bytes, the file is spec-valid, and failures of the underlying
// writer / temp file are reported and stay reported.
package c13

import (
	"bytes"
	"compress/zlib"
	"encoding/json"
	"errors"
	"fmt"
	"io"
	"os"
	"sort"
	"testing"
	"time"

	"github.com/google/wuffs/lib/rac"
	"github.com/google/wuffs/lib/raclz4"
	"github.com/google/wuffs/lib/raczlib"
	"github.com/google/wuffs/lib/raczstd"
	"pgregory.net/rapid"

	"verif/internal/ev"
	"verif/racspec"
)

func TestMain(m *testing.M) { ev.Main(m) }

// ---------------------------------------------------------------- the Case

// Seg is one segment of a payload or resource (see racspec.Seg).
type Seg = racspec.Seg

// Res is one shared resource (dictionary): either a slice of the payload or
// its own segments.
type Res struct {
	From int   `json:"from,omitempty"`
	Len  int   `json:"len,omitempty"` // >0: payload[From:From+Len] (clamped)
	Segs []Seg `json:"segs,omitempty"`
}

// Case fully determines one check.
type Case struct {
	Payload []Seg `json:"payload"`
	Writes  []int `json:"writes"` // sizes of the Write calls; sum == len(payload)

	Codec       string `json:"codec"` // zlib | lz4 | zstd
	DChunkSize  uint64 `json:"dchunk,omitempty"`
	CChunkSize  uint64 `json:"cchunk,omitempty"`
	CPageSize   uint64 `json:"cpage,omitempty"`
	IndexStart  bool   `json:"index_start,omitempty"`
	TempKind    string `json:"temp,omitempty"`         // buffer | bytes.Buffer | seeker | seeker-offset
	TempOffset  int    `json:"temp_offset,omitempty"`  // seeker-offset: bytes already in the file
	TempReadMax int    `json:"temp_readmax,omitempty"` // temp file returns at most this many bytes per Read (0: no limit)
	WriterKind  string `json:"writer,omitempty"`       // plain | bytes.Buffer
	Resources   []Res  `json:"resources,omitempty"`
	// NoResAs: the CodecWriter is wrapped so that "no resource used" is
	// reported as this out-of-range index instead of -1 (the CodecWriter
	// contract allows any value outside [0, len(resourcesData))).
	NoResAs string `json:"nores_as,omitempty"` // "" | len | len+1 | maxint | minint | -2

	// Fault injection. FaultMode "" means none. Every fault point k is a
	// global call number (Write/Read/Seek calls on the underlying writer and
	// on the temp file, counted together in call order). All points of the
	// fault-free dry run are enumerated when there are at most enumMax() (40; 10 for zstd / with resources) of
	// them, otherwise FaultPicks[i] % count are used.
	FaultMode    string   `json:"fault,omitempty"` // err | short | eof
	FaultFrac    int      `json:"fault_frac,omitempty"`
	FaultPersist bool     `json:"fault_persist,omitempty"`
	FaultPicks   []uint32 `json:"fault_picks,omitempty"`
}

// enumMax is the largest number of fault points that is enumerated exhaustively.
func (c Case) enumMax() int {
	if c.Codec == "zstd" || len(c.Resources) > 0 {
		return 10
	}
	return 40
}

func materialize(segs []Seg) []byte { return racspec.Materialize(segs) }

func (c Case) resources(payload []byte) [][]byte {
	var out [][]byte
	for _, r := range c.Resources {
		if r.Len > 0 {
			from := r.From
			if from < 0 {
				from = 0
			}
			if from > len(payload) {
				from = len(payload)
			}
			to := from + r.Len
			if to > len(payload) {
				to = len(payload)
			}
			out = append(out, append([]byte(nil), payload[from:to]...))
		} else {
			out = append(out, materialize(r.Segs))
		}
	}
	return out
}

// ---------------------------------------------------------------- I/O harness

var errInjected = errors.New("c13: injected I/O failure")

type event struct {
	target string // writer | temp
	op     string // write | read | seek
	n      int    // bytes transferred in the fault-free run
}

// hub is shared by the instrumented writer and temp file of one run.
type hub struct {
	events  []event
	faultAt int // global call number to fail; -1: none
	mode    string
	frac    int
	persist bool
	fired   bool
	firedEv event
	okWrite bool // some underlying write succeeded before the fault
}

// step registers a call; it returns how the call must behave: "" normal,
// otherwise the fault mode.
func (h *hub) step(target, op string) (idx int, mode string) {
	idx = len(h.events)
	h.events = append(h.events, event{target: target, op: op})
	if h.faultAt < 0 {
		return idx, ""
	}
	if idx == h.faultAt || (h.persist && h.fired && h.firedEv.target == target) {
		if !h.fired {
			h.fired = true
			h.firedEv = event{target: target, op: op}
		}
		m := h.mode
		if m == "eof" && op != "read" {
			m = "err"
		}
		return idx, m
	}
	return idx, ""
}

type sinkWriter struct {
	h   *hub
	buf []byte
}

func (s *sinkWriter) Write(p []byte) (int, error) {
	idx, mode := s.h.step("writer", "write")
	switch mode {
	case "err":
		return 0, errInjected
	case "short", "eof":
		n := len(p) * s.h.frac / 256
		s.buf = append(s.buf, p[:n]...)
		s.h.events[idx].n = n
		return n, errInjected
	}
	s.buf = append(s.buf, p...)
	s.h.events[idx].n = len(p)
	if !s.h.fired {
		s.h.okWrite = true
	}
	return len(p), nil
}

// tempFIFO is a bytes.Buffer-like temp file: separate read and write
// positions, no Seek method.
type tempFIFO struct {
	h       *hub
	buf     []byte
	rpos    int
	readMax int
	eofed   bool
	// cleanReadN is consulted in eof mode: the size this Read had in the dry run.
}

func (t *tempFIFO) Write(p []byte) (int, error) {
	idx, mode := t.h.step("temp", "write")
	switch mode {
	case "err":
		return 0, errInjected
	case "short":
		n := len(p) * t.h.frac / 256
		t.buf = append(t.buf, p[:n]...)
		t.h.events[idx].n = n
		return n, errInjected
	}
	t.buf = append(t.buf, p...)
	t.h.events[idx].n = len(p)
	if !t.h.fired {
		t.h.okWrite = true
	}
	return len(p), nil
}

func readFrom(h *hub, src []byte, rpos *int, readMax int, eofed *bool, p []byte) (int, error) {
	idx, mode := h.step("temp", "read")
	if *eofed {
		return 0, io.EOF
	}
	n := len(src) - *rpos
	if n > len(p) {
		n = len(p)
	}
	if readMax > 0 && n > readMax {
		n = readMax
	}
	switch mode {
	case "err":
		return 0, errInjected
	case "short":
		n = n * h.frac / 256
		copy(p, src[*rpos:*rpos+n])
		*rpos += n
		h.events[idx].n = n
		return n, errInjected
	case "eof":
		*eofed = true
		return 0, io.EOF
	}
	if n == 0 && len(p) > 0 {
		return 0, io.EOF
	}
	copy(p, src[*rpos:*rpos+n])
	*rpos += n
	h.events[idx].n = n
	return n, nil
}

func (t *tempFIFO) Read(p []byte) (int, error) {
	return readFrom(t.h, t.buf, &t.rpos, t.readMax, &t.eofed, p)
}

// tempFile is an os.File-like temp file: one position, Read/Write/Seek.
type tempFile struct {
	h       *hub
	buf     []byte
	pos     int
	readMax int
	eofed   bool
}

func (t *tempFile) put(p []byte) {
	for len(t.buf) < t.pos {
		t.buf = append(t.buf, 0xEE)
	}
	k := copy(t.buf[t.pos:], p)
	t.buf = append(t.buf, p[k:]...)
	t.pos += len(p)
}

func (t *tempFile) Write(p []byte) (int, error) {
	idx, mode := t.h.step("temp", "write")
	switch mode {
	case "err":
		return 0, errInjected
	case "short":
		n := len(p) * t.h.frac / 256
		t.put(p[:n])
		t.h.events[idx].n = n
		return n, errInjected
	}
	t.put(p)
	t.h.events[idx].n = len(p)
	if !t.h.fired {
		t.h.okWrite = true
	}
	return len(p), nil
}

func (t *tempFile) Read(p []byte) (int, error) {
	if t.pos > len(t.buf) {
		t.h.step("temp", "read")
		return 0, io.EOF
	}
	return readFrom(t.h, t.buf, &t.pos, t.readMax, &t.eofed, p)
}

func (t *tempFile) Seek(offset int64, whence int) (int64, error) {
	_, mode := t.h.step("temp", "seek")
	if mode != "" {
		return 0, errInjected
	}
	var abs int64
	switch whence {
	case io.SeekStart:
		abs = offset
	case io.SeekCurrent:
		abs = int64(t.pos) + offset
	case io.SeekEnd:
		abs = int64(len(t.buf)) + offset
	default:
		return 0, errors.New("c13: bad whence")
	}
	if abs < 0 {
		return 0, errors.New("c13: negative position")
	}
	t.pos = int(abs)
	return abs, nil
}

// oorCodecWriter reports "no resource used" with another out-of-range value.
type oorCodecWriter struct {
	rac.CodecWriter
	as string
}

func (w *oorCodecWriter) val(n int) int {
	switch w.as {
	case "len":
		return n
	case "len+1":
		return n + 1
	case "maxint":
		return int(^uint(0) >> 1)
	case "minint":
		return -int(^uint(0)>>1) - 1
	case "-2":
		return -2
	}
	return rac.NoResourceUsed
}

func (w *oorCodecWriter) Clone() rac.CodecWriter {
	return &oorCodecWriter{w.CodecWriter.Clone(), w.as}
}

func (w *oorCodecWriter) Compress(p, q []byte, res [][]byte) (rac.Codec, []byte, int, int, error) {
	codec, b, s, t, err := w.CodecWriter.Compress(p, q, res)
	if s < 0 || s >= len(res) {
		s = w.val(len(res))
	}
	if t < 0 || t >= len(res) {
		t = w.val(len(res))
	}
	return codec, b, s, t, err
}

// keepOpen hides Close from the wrapped CodecWriter (see codecWriter).
type keepOpen struct{ rac.CodecWriter }

func (k keepOpen) Close() error { return nil }

var sharedZstd = &raczstd.CodecWriter{}

func (c Case) codecWriter() rac.CodecWriter {
	var cw rac.CodecWriter
	switch c.Codec {
	case "lz4":
		cw = &raclz4.CodecWriter{}
	case "zstd":
		// Creating a zstd compression context costs > 1 s (level "small" uses
		// the largest window), so one raczstd.CodecWriter serves the whole
		// process: rac.Writer's Close is not forwarded to it.
		cw = keepOpen{sharedZstd}
	default:
		cw = &raczlib.CodecWriter{}
	}
	if c.NoResAs != "" {
		cw = &oorCodecWriter{cw, c.NoResAs}
	}
	return cw
}

// runResult is what one execution of the Write/Close sequence produced.
type runResult struct {
	writeErrs []error // per Write call
	writeNs   []int
	writeLens []int
	closeErr  error
	close2Err error
	lateErr   error // Write after Close (fault runs only)
	out       []byte
	panicked  string
	hub       *hub
}

// run executes the case. real=true uses the real bytes.Buffer kinds where the
// case asks for them (no instrumentation on those objects).
func (c Case) run(payload []byte, resources [][]byte, h *hub, real bool, afterClose bool) (rr runResult) {
	rr.hub = h
	var wr io.Writer
	var sink *sinkWriter
	var realBuf *bytes.Buffer
	if real && c.WriterKind == "bytes.Buffer" {
		realBuf = &bytes.Buffer{}
		wr = realBuf
	} else {
		sink = &sinkWriter{h: h}
		wr = sink
	}
	w := &rac.Writer{
		Writer:        wr,
		CodecWriter:   c.codecWriter(),
		DChunkSize:    c.DChunkSize,
		CChunkSize:    c.CChunkSize,
		CPageSize:     c.CPageSize,
		ResourcesData: resources,
	}
	if c.IndexStart {
		w.IndexLocation = rac.IndexLocationAtStart
		switch {
		case real && c.TempKind == "bytes.Buffer":
			w.TempFile = &bytes.Buffer{}
		case c.TempKind == "seeker":
			w.TempFile = &tempFile{h: h, readMax: c.TempReadMax}
		case c.TempKind == "seeker-offset":
			junk := bytes.Repeat([]byte{0xA5}, c.TempOffset)
			w.TempFile = &tempFile{h: h, buf: junk, pos: len(junk), readMax: c.TempReadMax}
		default:
			w.TempFile = &tempFIFO{h: h, readMax: c.TempReadMax}
		}
	}
	defer func() {
		if r := recover(); r != nil {
			rr.panicked = fmt.Sprint(r)
		}
		if sink != nil {
			rr.out = sink.buf
		} else {
			rr.out = realBuf.Bytes()
		}
	}()
	pos := 0
	for _, n := range c.Writes {
		if n < 0 {
			n = 0
		}
		if pos+n > len(payload) {
			n = len(payload) - pos
		}
		k, err := w.Write(payload[pos : pos+n])
		rr.writeNs = append(rr.writeNs, k)
		rr.writeLens = append(rr.writeLens, n)
		rr.writeErrs = append(rr.writeErrs, err)
		pos += n
	}
	if pos < len(payload) { // defensive: a replay file with a short partition
		k, err := w.Write(payload[pos:])
		rr.writeNs = append(rr.writeNs, k)
		rr.writeLens = append(rr.writeLens, len(payload)-pos)
		rr.writeErrs = append(rr.writeErrs, err)
	}
	rr.closeErr = w.Close()
	if afterClose {
		rr.close2Err = w.Close()
		_, rr.lateErr = w.Write([]byte{1})
	}
	return rr
}

// ---------------------------------------------------------------- oracles

func codecConst(name string) uint64 {
	switch name {
	case "lz4":
		return uint64(rac.CodecLZ4)
	case "zstd":
		return uint64(rac.CodecZstandard)
	}
	return uint64(rac.CodecZlib)
}

func firstDiff(a, b []byte) int {
	n := len(a)
	if len(b) < n {
		n = len(b)
	}
	for i := 0; i < n; i++ {
		if a[i] != b[i] {
			return i
		}
	}
	if len(a) != len(b) {
		return n
	}
	return -1
}

// verifyFile applies oracles (i) and (ii) to a file produced with Close()==nil.
func verifyFile(c Case, file, payload []byte) (msg string, res *racspec.Result) {
	res = racspec.Walk(file, int64(len(file)), racspec.Options{MaxVisits: 1 << 20})
	if !res.Valid() {
		return fmt.Sprintf("Close returned nil but the file is not a valid RAC file per rac-spec.md: %v (file %d bytes, truncated walk=%v)", res.Violations, len(file), res.Truncated), res
	}
	if res.DFileSize != int64(len(payload)) {
		return fmt.Sprintf("DFileSize %d != payload length %d", res.DFileSize, len(payload)), res
	}
	// leaves cover [0,len) contiguously (the walker verified contiguity and the end).
	// (ii) the library's own reader returns the payload.
	r := &rac.Reader{ReadSeeker: bytes.NewReader(file), CompressedSize: int64(len(file)),
		CodecReaders: []rac.CodecReader{&raczlib.CodecReader{}, &raclz4.CodecReader{}, &raczstd.CodecReader{}}}
	got, err := io.ReadAll(r)
	r.Close()
	if err != nil {
		return fmt.Sprintf("rac.Reader fails on the file written by rac.Writer: %v (after %d of %d bytes)", err, len(got), len(payload)), res
	}
	if d := firstDiff(got, payload); d >= 0 {
		return fmt.Sprintf("rac.Reader returns different bytes: first difference at offset %d (got %d bytes, want %d)%s", d, len(got), len(payload), around(got, payload, d)), res
	}
	// (ii') zlib: independent walker + compress/zlib decode every leaf.
	if c.Codec == "zlib" || c.Codec == "" {
		for i, l := range res.Leaves {
			want := payload[l.DRange[0]:l.DRange[1]]
			var dec []byte
			switch l.Codec {
			case uint64(rac.CodecZeroes):
			case uint64(rac.CodecZlib):
				dict, err := racspec.UnwrapDict(file, l)
				if err != nil {
					return fmt.Sprintf("leaf %d: shared dictionary does not follow the Common Dictionary Format: %v", i, err), res
				}
				zr, err := zlib.NewReaderDict(bytes.NewReader(file[l.CPrimary[0]:l.CPrimary[1]]), dict)
				if err != nil {
					return fmt.Sprintf("leaf %d %v: compress/zlib rejects the Primary CRange %v: %v", i, l.DRange, l.CPrimary, err), res
				}
				dec, err = io.ReadAll(zr)
				if err != nil {
					return fmt.Sprintf("leaf %d %v: compress/zlib fails on the Primary CRange %v: %v", i, l.DRange, l.CPrimary, err), res
				}
			default:
				return fmt.Sprintf("leaf %d has codec %#x in a file written with the zlib CodecWriter", i, l.Codec), res
			}
			if len(dec) > len(want) {
				return fmt.Sprintf("leaf %d %v decodes to %d bytes, more than its DRange", i, l.DRange, len(dec)), res
			}
			full := append(dec, make([]byte, len(want)-len(dec))...)
			if d := firstDiff(full, want); d >= 0 {
				return fmt.Sprintf("leaf %d %v: independent zlib decode differs from the payload at DOffset %d%s", i, l.DRange, l.DRange[0]+int64(d), around(full, want, d)), res
			}
		}
	}
	return "", res
}

func around(got, want []byte, d int) string {
	f := func(b []byte) string {
		lo, hi := d-4, d+8
		if lo < 0 {
			lo = 0
		}
		if hi > len(b) {
			hi = len(b)
		}
		if lo > hi {
			lo = hi
		}
		return fmt.Sprintf("% x", b[lo:hi])
	}
	return fmt.Sprintf(" [got …%s… want …%s…]", f(got), f(want))
}

// zeroRunCrossesWrite reports whether a zero run of length >= 2 spans a Write
// boundary.
func zeroRunCrossesWrite(payload []byte, writes []int) bool {
	pos := 0
	for _, n := range writes[:max(0, len(writes)-1)] {
		pos += n
		if pos > 0 && pos < len(payload) && payload[pos-1] == 0 && payload[pos] == 0 {
			return true
		}
	}
	return false
}

// checkCase is the oracle: "" when the property holds on c.
func checkCase(c Case) (msg string, nontrivial bool, classes []string) {
	payload := materialize(c.Payload)
	resources := c.resources(payload)
	cl := func(s string) { classes = append(classes, s) }

	// ---- fault-free run with the kinds the case asks for.
	rr := c.run(payload, resources, &hub{faultAt: -1}, true, false)
	if rr.panicked != "" {
		return "panic in a fault-free Write/Close sequence: " + rr.panicked, false, nil
	}
	cMode := c.DChunkSize == 0 && c.CChunkSize > 0
	var firstErr error
	for i, e := range rr.writeErrs {
		if e != nil && firstErr == nil {
			firstErr = e
		}
		if e == nil && firstErr != nil {
			return fmt.Sprintf("fault-free run: Write #%d returned nil after an earlier call returned %q", i, firstErr), false, nil
		}
		if e == nil && rr.writeNs[i] != rr.writeLens[i] {
			// n must equal len(p) on success (io.Writer contract)
			return fmt.Sprintf("fault-free run: Write #%d returned n=%d, nil for %d bytes", i, rr.writeNs[i], rr.writeLens[i]), false, nil
		}
	}
	if firstErr != nil && rr.closeErr == nil {
		return fmt.Sprintf("fault-free run: Close returned nil after a Write returned %q", firstErr), false, nil
	}
	if firstErr == nil {
		firstErr = rr.closeErr
	}
	multiLevel, chunks := false, 0
	switch {
	case cMode && c.Codec != "zlib":
		if firstErr != rac.ErrCodecWriterDoesNotSupportCChunkSize {
			return fmt.Sprintf("CChunkSize with a codec that cannot cut: want ErrCodecWriterDoesNotSupportCChunkSize, got %v", firstErr), false, nil
		}
		cl("cchunk-unsupported-error")
		return "", false, classes
	case firstErr != nil && cMode:
		// The cut path may legitimately fail ("CChunkSize is too small").
		cl("cchunk-error")
		return "", false, classes
	case firstErr != nil:
		return fmt.Sprintf("fault-free run with valid parameters failed: %v", firstErr), false, nil
	}
	m, res := verifyFile(c, rr.out, payload)
	if m != "" {
		return m, false, nil
	}
	chunks = len(res.Leaves)
	multiLevel = res.MaxDepth >= 1
	// statistics (writer conventions, not judged)
	if res.RootAtEnd {
		cl("root-at-end")
	} else {
		cl("root-at-start")
	}
	if multiLevel {
		cl("multi-level")
	}
	usedRes := map[racspec.Range]bool{}
	for _, l := range res.Leaves {
		if !l.CSecondary.Empty() {
			usedRes[l.CSecondary] = true
		}
	}
	cl(fmt.Sprintf("resources-used-%d", len(usedRes)))
	switch {
	case chunks == 0:
		cl("chunks-0")
	case chunks == 1:
		cl("chunks-1")
	case chunks <= 255:
		cl("chunks-2..255")
	default:
		cl("chunks-256+")
	}
	if cMode {
		cl("mode-cchunk")
		if chunks >= 2 {
			cl("cchunk-cut")
		}
	} else {
		cl("mode-dchunk")
	}
	zeroCross := len(c.Writes) >= 2 && chunks >= 2 && zeroRunCrossesWrite(payload, c.Writes)
	if zeroCross {
		cl("zero-run-crosses-write")
	}
	nontrivial = zeroCross || (cMode && chunks >= 2) || multiLevel

	// ---- fault injection.
	if c.FaultMode == "" {
		return "", nontrivial, classes
	}
	dry := c.run(payload, resources, &hub{faultAt: -1}, false, false)
	if dry.panicked != "" || dry.closeErr != nil {
		return fmt.Sprintf("instrumented fault-free run failed: panic=%q close=%v", dry.panicked, dry.closeErr), false, nil
	}
	if !bytes.Equal(dry.out, rr.out) {
		// Different writer / temp-file kinds must not change the output.
		if m, _ := verifyFile(c, dry.out, payload); m != "" {
			return "with plain writer/temp-file kinds: " + m, false, nil
		}
	}
	evs := dry.hub.events
	var points []int
	if len(evs) <= c.enumMax() {
		for k := range evs {
			points = append(points, k)
		}
		cl("faults-enumerated")
	} else {
		seen := map[int]bool{}
		for _, p := range c.FaultPicks {
			k := int(p % uint32(len(evs)))
			if !seen[k] {
				seen[k] = true
				points = append(points, k)
			}
		}
		sort.Ints(points)
		cl("faults-sampled")
	}
	for _, k := range points {
		mode := c.FaultMode
		if mode == "eof" && (evs[k].op != "read" || evs[k].n == 0) {
			mode = "err" // an EOF where the clean run had EOF (or on a non-read) is no fault
		}
		h := &hub{faultAt: k, mode: mode, frac: c.FaultFrac, persist: c.FaultPersist}
		fr := c.run(payload, resources, h, false, true)
		where := fmt.Sprintf("fault %q at call #%d (%s.%s, %d bytes in the dry run)", mode, k, evs[k].target, evs[k].op, evs[k].n)
		if fr.panicked != "" {
			return where + ": panic: " + fr.panicked, false, nil
		}
		if !h.fired {
			return where + ": harness error: the fault point was not reached (non-deterministic call sequence?)", false, nil
		}
		var seen error
		seenAt := ""
		for i, e := range fr.writeErrs {
			if e == nil && seen != nil {
				return fmt.Sprintf("%s: Write #%d returned nil although %s had already returned %q", where, i, seenAt, seen), false, nil
			}
			if e != nil && seen == nil {
				seen, seenAt = e, fmt.Sprintf("Write #%d", i)
			}
		}
		if fr.closeErr == nil {
			return fmt.Sprintf("%s: Close reported success (earlier error: %v)", where, seen), false, nil
		}
		if fr.close2Err == nil {
			return fmt.Sprintf("%s: a second Close returned nil after Close returned %q", where, fr.closeErr), false, nil
		}
		if fr.lateErr == nil {
			return fmt.Sprintf("%s: Write after the failed Close returned nil", where), false, nil
		}
		cl("fault-" + evs[k].target + "-" + evs[k].op + "-" + mode)
		if h.okWrite {
			nontrivial = true
			cl("fault-after-successful-write")
		}
	}
	return "", nontrivial, classes
}

// ---------------------------------------------------------------- generator

// uniform draws a fair value in [0,n): rapid's own integer and SampledFrom
// generators favour small values/indices, which would skew class weights.
func uniform(t *rapid.T, label string, n int) int {
	bits := rapid.SliceOfN(rapid.Bool(), 12, 12).Draw(t, label)
	v := 0
	for _, b := range bits {
		v <<= 1
		if b {
			v |= 1
		}
	}
	return v % n
}

func pick[T any](t *rapid.T, label string, xs []T) T { return xs[uniform(t, label, len(xs))] }

func genSegs(t *rapid.T, label string, total int, zeroHeavy bool) []Seg {
	if total == 0 {
		return nil
	}
	nseg := rapid.IntRange(1, 5).Draw(t, label+"_nseg")
	var out []Seg
	left := total
	for i := 0; i < nseg && left > 0; i++ {
		n := left
		if i < nseg-1 {
			n = rapid.IntRange(1, left).Draw(t, label+"_len")
		}
		left -= n
		var k string
		if zeroHeavy {
			k = pick(t, label+"_kind", []string{"z", "s", "s", "s", "z", "r", "t"})
		} else {
			k = pick(t, label+"_kind", []string{"z", "s", "r", "t", "t", "p", "p", "r"})
		}
		s := Seg{K: k, N: n}
		if k != "z" {
			s.S = rapid.Uint32().Draw(t, label+"_seed")
		}
		out = append(out, s)
	}
	return out
}

func genLen(t *rapid.T, cap int) int {
	n := 0
	switch cls := uniform(t, "len_class", 100); {
	case cls < 2:
		n = 0
	case cls < 14:
		n = rapid.IntRange(1, 64).Draw(t, "len")
	case cls < 55:
		n = rapid.IntRange(65, 2500).Draw(t, "len")
	case cls < 92:
		n = rapid.IntRange(2000, 9000).Draw(t, "len")
	case cls < 98:
		n = rapid.IntRange(9000, 70000).Draw(t, "len")
	default:
		if ev.Thorough() {
			n = rapid.IntRange(70000, 300*1024).Draw(t, "len")
		} else {
			n = rapid.IntRange(70000, 160*1024).Draw(t, "len")
		}
	}
	if n > cap {
		n = cap/2 + n%(cap/2+1)
	}
	return n
}

func genWrites(t *rapid.T, payload []byte) (writes []int, mode string) {
	n := len(payload)
	mode = pick(t, "wmode", []string{"one", "fixed", "random", "random", "random-small", "huge-tiny", "zero-aligned", "zero-aligned"})
	if n == 0 {
		k := rapid.IntRange(0, 3).Draw(t, "empty_writes")
		return make([]int, k), "empty"
	}
	const maxWrites = 1500
	switch mode {
	case "one":
		return []int{n}, mode
	case "fixed":
		k := pick(t, "wsize", []int{1, 2, 3, 7, 16, 64, 100, 255, 256, 1000, 4096, 65536})
		if n/k > maxWrites {
			k = n/maxWrites + 1
		}
		for p := 0; p < n; p += k {
			writes = append(writes, min(k, n-p))
		}
	case "random", "random-small":
		hi := 6000
		if mode == "random-small" {
			hi = 200
		}
		if n/hi > maxWrites/2 {
			hi = 2 * n / (maxWrites / 2)
		}
		sizes := rapid.SliceOfN(rapid.OneOf(
			rapid.Just(0), rapid.Just(1), rapid.IntRange(2, 16), rapid.IntRange(1, hi), rapid.IntRange(1, hi),
		), 1, maxWrites).Draw(t, "wsizes")
		p := 0
		for _, s := range sizes {
			if p >= n {
				break
			}
			s = min(s, n-p)
			writes = append(writes, s)
			p += s
		}
		if p < n {
			// the remaining bytes continue with the last drawn sizes cyclically
			for i := 0; p < n; i++ {
				s := sizes[i%len(sizes)]
				if s == 0 {
					s = hi
				}
				s = min(s, n-p)
				writes = append(writes, s)
				p += s
				if len(writes) > 2*maxWrites {
					writes = append(writes, n-p)
					p = n
				}
			}
		}
	case "huge-tiny":
		tail := min(n, rapid.IntRange(1, 40).Draw(t, "tail"))
		if n-tail > 0 {
			writes = append(writes, n-tail)
		}
		for i := 0; i < tail; i++ {
			writes = append(writes, 1)
		}
	case "zero-aligned":
		// cut inside zero runs of length >= 2
		type run struct{ lo, hi int }
		var runs []run
		for i := 0; i < n; {
			if payload[i] != 0 {
				i++
				continue
			}
			j := i
			for j < n && payload[j] == 0 {
				j++
			}
			if j-i >= 2 {
				runs = append(runs, run{i, j})
			}
			i = j
		}
		if len(runs) == 0 {
			return []int{n}, "one"
		}
		stride := 1 + rapid.IntRange(0, max(0, len(runs)/4)).Draw(t, "run_stride")
		if len(runs)/stride > maxWrites {
			stride = len(runs)/maxWrites + 1
		}
		where := uniform(t, "cut_where", 3) // 0: after first zero, 1: before last zero, 2: middle
		prev := 0
		for i := rapid.IntRange(0, stride-1).Draw(t, "run_first"); i < len(runs); i += stride {
			r := runs[i]
			cut := r.lo + 1
			switch where {
			case 1:
				cut = r.hi - 1
			case 2:
				cut = (r.lo + r.hi) / 2
			}
			if cut > prev {
				writes = append(writes, cut-prev)
				prev = cut
			}
		}
		writes = append(writes, n-prev)
	}
	return writes, mode
}

func genCase(t *rapid.T) (Case, []string) {
	var c Case
	var gcl []string
	// The profile fixes the cost envelope: zstd costs ~10 ms per chunk, zlib
	// with shared dictionaries ~1 ms per chunk and dictionary, the rest ~0.1 ms.
	profile := pick(t, "profile", []string{
		"zlib", "zlib", "zlib", "zlib", "zlib", "zlib", "zlib", "zlib",
		"zlib-cut", "zlib-cut", "zlib-cut", "zlib-cut",
		"zlib-res", "zlib-res", "zlib-res",
		"multi-level", "multi-level",
		"lz4", "lz4", "zstd", "zstd",
	})
	if uniform(t, "rare", 100) >= 97 {
		profile = "multi-level-res"
	}
	gcl = append(gcl, "profile-"+profile)
	lenCap, maxChunks, nresChoices := 300*1024, 1200, []int{0}
	c.Codec = "zlib"
	switch profile {
	case "zlib-res":
		lenCap, maxChunks, nresChoices = 40000, 60, []int{1, 1, 2, 3}
		if uniform(t, "res_zstd", 4) == 0 {
			c.Codec, lenCap, maxChunks = "zstd", 4000, 6
		}
	case "multi-level-res":
		lenCap, maxChunks, nresChoices = 200*1024, 400, []int{2, 3}
	case "lz4":
		c.Codec = "lz4"
		nresChoices = []int{0, 0, 1}
	case "zstd":
		c.Codec, lenCap, maxChunks = "zstd", 3000, 8
	}
	n := genLen(t, lenCap)
	if profile == "multi-level" {
		n = max(n, rapid.IntRange(256, 2500).Draw(t, "ml_len"))
	}
	if profile == "multi-level-res" {
		n = rapid.IntRange(120000, 200*1024).Draw(t, "mlr_len")
	}
	pclass := pick(t, "pclass", []string{"zero-heavy", "zero-heavy", "zero-heavy", "mixed", "mixed", "all-zero", "zero-head-tail"})
	blockLen, blockSeeds := 0, []uint32(nil)
	if profile == "zlib-res" || profile == "multi-level-res" {
		pclass = pick(t, "res_pclass", []string{"text", "blocks", "blocks"})
		if profile == "multi-level-res" {
			pclass = "blocks"
		}
	}
	switch pclass {
	case "all-zero":
		if n > 0 {
			c.Payload = []Seg{{K: "z", N: n}}
		}
	case "zero-head-tail":
		h := rapid.IntRange(0, n/2).Draw(t, "zhead")
		tl := rapid.IntRange(0, n/2).Draw(t, "ztail")
		if h > 0 {
			c.Payload = append(c.Payload, Seg{K: "z", N: h})
		}
		c.Payload = append(c.Payload, genSegs(t, "p", n-h-tl, false)...)
		if tl > 0 {
			c.Payload = append(c.Payload, Seg{K: "z", N: tl})
		}
	case "zero-heavy":
		c.Payload = genSegs(t, "p", n, true)
	case "blocks":
		// copies of 1-3 random blocks, one block per chunk: a dictionary equal
		// to a block is what makes the zlib/zstd writers pick a shared resource.
		bl := rapid.IntRange(300, 1500).Draw(t, "block_len")
		if profile == "multi-level-res" {
			bl = rapid.IntRange(300, 500).Draw(t, "block_len_ml")
		}
		nb := rapid.IntRange(1, 3).Draw(t, "nblocks")
		copies := max(2, n/bl)
		if profile == "zlib-res" {
			copies = min(copies, maxChunks)
		}
		seeds := rapid.SliceOfN(rapid.Uint32(), nb, nb).Draw(t, "block_seeds")
		// multi-level files: half of them in phases, so that a dictionary stops being used right around the places
		// where the index splits into branch nodes (every 255 chunks): phase lengths near 255 / 510, each phase using
		// one block or none
		var phase []int // per chunk: block index, or nb for "no dictionary helps"
		if profile == "multi-level-res" && uniform(t, "phased", 2) == 0 {
			for len(phase) < copies {
				k := pick(t, "phase_len", []int{255, 254, 256, 253, 257, 509, 510, 1, 2, 30, 100})
				w := uniform(t, "phase_block", nb+1)
				for j := 0; j < k && len(phase) < copies; j++ {
					phase = append(phase, w)
				}
			}
			gcl = append(gcl, "phased-dictionary-use")
		}
		for i := 0; i < copies; i++ {
			which := 0
			if phase != nil {
				which = phase[i]
			} else {
				which = uniform(t, "which_block", nb+1)
			}
			if which == nb { // a chunk no dictionary helps
				c.Payload = append(c.Payload, Seg{K: "r", N: bl, S: rapid.Uint32().Draw(t, "other_seed")})
			} else {
				c.Payload = append(c.Payload, Seg{K: "r", N: bl, S: seeds[which]})
			}
		}
		blockLen, blockSeeds = bl, seeds
	case "text":
		// text / random alternation, so that dictionaries help some chunks only
		left := n
		for i := 0; left > 0 && i < 6; i++ {
			k := left
			if i < 5 {
				k = rapid.IntRange(1, left).Draw(t, "tlen")
			}
			left -= k
			c.Payload = append(c.Payload, Seg{K: pick(t, "tkind", []string{"t", "t", "t", "r", "z", "p"}), N: k, S: rapid.Uint32().Draw(t, "tseed")})
		}
	default:
		c.Payload = genSegs(t, "p", n, false)
	}
	gcl = append(gcl, "payload-"+pclass)
	payload := materialize(c.Payload)
	n = len(payload)

	var wmode string
	c.Writes, wmode = genWrites(t, payload)
	gcl = append(gcl, "writes-"+wmode)
	gcl = append(gcl, "codec-"+c.Codec)

	lo := uint64(n/maxChunks + 1)
	sizing := uniform(t, "sizing", 20)
	switch {
	case profile == "zlib-cut":
		sizing = 1
	case profile == "multi-level" || profile == "multi-level-res" || blockLen > 0:
		sizing = 19
	}
	switch {
	case sizing == 0:
		// both zero: the default DChunkSize
	case sizing < 8 && (c.Codec == "zlib" || sizing == 1):
		if maxChunks < 100 {
			lo = uint64(n/4 + 1) // dictionaries: CChunkSize counts compressed bytes
		}
		c.CChunkSize = rapid.OneOf(
			rapid.Uint64Range(max(lo, 8), max(lo, 40)),
			rapid.Uint64Range(max(lo, 40), max(lo, 400)),
			rapid.Uint64Range(max(lo, 200), max(lo, 5000)),
			rapid.Uint64Range(uint64(max(1, n/60)), uint64(max(12, n/60))),
		).Draw(t, "cchunk")
	case profile == "multi-level":
		// > 255 chunks
		hi := uint64(max(1, n/256))
		c.DChunkSize = rapid.Uint64Range(lo, max(lo, hi)).Draw(t, "dchunk")
	case blockLen > 0:
		c.DChunkSize = uint64(blockLen)
		if uniform(t, "block_misalign", 4) == 0 {
			c.DChunkSize += uint64(rapid.IntRange(1, 40).Draw(t, "block_shift"))
		}
	default:
		c.DChunkSize = rapid.OneOf(
			rapid.Uint64Range(lo, max(lo, 16)),
			rapid.Uint64Range(lo, max(lo, 300)),
			rapid.Uint64Range(max(lo, 100), max(lo, 5000)),
			rapid.Uint64Range(max(lo, 1000), 70000),
		).Draw(t, "dchunk")
	}
	costly := profile == "multi-level-res"
	if uniform(t, "paged", 2) == 1 {
		// CPageSize 1 is legal (2^0) but costs 2^32 loop iterations in
		// ChunkWriter.checkParameters (~2 s per Writer): kept rare.
		k := rapid.IntRange(1, 12).Draw(t, "log2page")
		if uniform(t, "page1", 200) == 150 {
			k, costly = 0, true
		}
		c.CPageSize = uint64(1) << k
	}
	c.IndexStart = rapid.Bool().Draw(t, "index_start")
	if c.IndexStart {
		c.TempKind = pick(t, "temp", []string{"buffer", "bytes.Buffer", "seeker", "seeker-offset"})
		if c.TempKind == "seeker-offset" {
			c.TempOffset = rapid.IntRange(1, 5000).Draw(t, "temp_offset")
		}
		if uniform(t, "temp_chunked", 3) == 0 {
			c.TempReadMax = rapid.IntRange(1, 3000).Draw(t, "temp_readmax")
		}
		gcl = append(gcl, "temp-"+c.TempKind)
	} else {
		gcl = append(gcl, "index-at-end")
	}
	c.WriterKind = pick(t, "writer", []string{"plain", "plain", "bytes.Buffer"})

	if nres := pick(t, "nres", nresChoices); nres > 0 {
		for i := 0; i < nres; i++ {
			var r Res
			if blockLen > 0 && i < len(blockSeeds) && uniform(t, "res_block", 5) != 0 {
				c.Resources = append(c.Resources, Res{Segs: []Seg{{K: "r", N: blockLen, S: blockSeeds[i]}}})
				continue
			}
			if n > 0 && uniform(t, "res_kind", 4) > 0 {
				r.From = rapid.IntRange(0, n-1).Draw(t, "res_from")
				r.Len = rapid.IntRange(1, min(n, 40000)).Draw(t, "res_len")
			} else {
				r.Segs = []Seg{{K: pick(t, "res_seg", []string{"t", "p", "z"}), N: rapid.IntRange(0, 3000).Draw(t, "res_n"), S: rapid.Uint32().Draw(t, "res_seed")}}
			}
			c.Resources = append(c.Resources, r)
		}
		gcl = append(gcl, fmt.Sprintf("resources-%d", nres))
	}
	if uniform(t, "oor", 8) == 0 {
		c.NoResAs = pick(t, "nores_as", []string{"len", "len+1", "maxint", "minint", "-2"})
		gcl = append(gcl, "codecwriter-oor-index")
	}

	if !costly && uniform(t, "faulty", 10) < 6 {
		c.FaultMode = pick(t, "fault_mode", []string{"err", "err", "short", "short", "eof"})
		c.FaultFrac = rapid.IntRange(0, 255).Draw(t, "fault_frac")
		c.FaultPersist = uniform(t, "fault_persist", 4) == 0
		np := 6
		if n > 20000 || c.Codec == "zstd" || len(c.Resources) > 0 {
			np = 2
		}
		c.FaultPicks = rapid.SliceOfN(rapid.Uint32(), np, np).Draw(t, "fault_picks")
	}
	return c, gcl
}

// ---------------------------------------------------------------- driver

type fataler interface{ Fatalf(string, ...any) }

// slowLog (development aid only; never influences a verdict).
var slowLog = os.Getenv("VERIF_SLOW") != ""

func runCase(t fataler, c Case, gcl []string) {
	ev.Eval()
	start := time.Now()
	defer func() {
		if d := time.Since(start); slowLog && d > 300*time.Millisecond {
			b, _ := json.Marshal(c)
			fmt.Fprintf(os.Stderr, "SLOW %v %v %.300s\n", d, gcl, b)
		}
	}()
	msg, nt, classes := func() (msg string, nt bool, cl []string) {
		defer func() {
			if r := recover(); r != nil {
				msg = fmt.Sprintf("panic outside the guarded calls: %v", r)
			}
		}()
		return checkCase(c)
	}()
	if msg != "" {
		ev.Fail("C13", "roundtrip", c, msg)
		b, _ := json.Marshal(c)
		if len(b) > 2000 {
			b = append(b[:2000], "…"...)
		}
		t.Fatalf("C13 violated: %s\ncase: %s", msg, b)
	}
	for _, k := range gcl {
		ev.Class(k)
	}
	for _, k := range classes {
		ev.Class(k)
	}
	if nt {
		b, _ := json.Marshal(c)
		ev.Nontrivial(ev.Hash(b), func() any {
			s := c
			if len(s.Writes) > 20 {
				s.Writes = s.Writes[:20]
			}
			return s
		})
	}
}

func TestProp(t *testing.T) {
	rapid.Check(t, func(t *rapid.T) {
		c, gcl := genCase(t)
		runCase(t, c, gcl)
	})
}

func TestReplay(t *testing.T) {
	p := ev.ReplayPath()
	if p == "" {
		t.Skip("no VERIF_REPLAY")
	}
	r, err := ev.LoadReplay(p)
	if err != nil {
		t.Fatalf("load: %v", err)
	}
	var c Case
	if err := json.Unmarshal(r.Case, &c); err != nil {
		t.Fatalf("decode: %v", err)
	}
	runCase(t, c, nil)
}
