package racspec

import "fmt"

// Mutation is one index-aware edit of a RAC file. All indices are reduced
// modulo the respective count when applied, so every Mutation is applicable
// to every file that has at least one Branch Node.
type Mutation struct {
	Kind string `json:"k"`
	Node int    `json:"n"`           // index into the walker's node list
	Elem int    `json:"e,omitempty"` // element index
	Val  uint64 `json:"v,omitempty"` // value / selector
	Aux  int    `json:"a,omitempty"` // second node / element
	Aux2 int    `json:"b,omitempty"` // third node
	Raw  bool   `json:"raw,omitempty"`
}

// MutationKinds lists the supported kinds.
var MutationKinds = []string{
	"arity-both", "arity-first", "arity-last",
	"dptr-swap", "dptr-set", "dptrmax",
	"cptr-over-max", "cptr-set", "cptrmax",
	"clen", "stag", "ttag", "ttag-reserved", "stag-bias",
	"codec", "codec-mix", "codec-long", "codec-elem-huge",
	"version", "reserved", "magic", "checksum",
	"ptr-self", "ptr-parent", "ptr-sibling", "ptr-mid-node", "ptr-last3", "ptr-node",
	"cycle",
	"dict-len", "dict-crc",
	"flip",
}

func mod(i, n int) int {
	if n <= 0 {
		return 0
	}
	i %= n
	if i < 0 {
		i += n
	}
	return i
}

// Apply performs m on a copy of file. nodes and leaves come from Walk of the
// unmutated file. The checksum of every touched node is recomputed unless the
// mutation is about the checksum/magic/arity itself (or m.Raw is set). desc
// describes what was done ("noop: ..." when nothing could be done).
func Apply(file []byte, nodes []Node, leaves []Leaf, m Mutation) (out []byte, desc string) {
	out = append([]byte(nil), file...)
	if m.Kind == "flip" {
		if len(out) == 0 {
			return out, "noop: empty file"
		}
		p := int(m.Val>>8) % len(out)
		x := byte(m.Val)
		if x == 0 {
			x = 1
		}
		out[p] ^= x
		return out, fmt.Sprintf("flip byte %d ^= %02x", p, x)
	}
	if m.Kind == "dict-len" || m.Kind == "dict-crc" {
		var ds []Leaf
		for _, l := range leaves {
			if !l.CSecondary.Empty() && l.CSecondary[0] >= 0 && l.CSecondary[1] <= int64(len(out)) && l.CSecondary.Size() >= 8 {
				ds = append(ds, l)
			}
		}
		if len(ds) == 0 {
			return out, "noop: no dictionary"
		}
		l := ds[mod(m.Node, len(ds))]
		p := l.CSecondary[0]
		n := int64(out[p]) | int64(out[p+1])<<8 | int64(out[p+2])<<16 | int64(out[p+3])<<24
		if m.Kind == "dict-crc" {
			q := p + 4 + n
			if n < 0 || q+4 > int64(len(out)) {
				q = p + 4
			}
			out[q+int64(m.Val%4)] ^= byte(m.Val>>8) | 1
			return out, fmt.Sprintf("dictionary at %d: checksum/byte %d corrupted", p, q)
		}
		var v uint32
		switch m.Val % 6 {
		case 0:
			v = uint32(n) + 1
		case 1:
			v = uint32(n) - 1
		case 2:
			v = uint32(l.CSecondary.Size()) - 7
		case 3:
			v = 0x3FFFFFFF
		case 4:
			v = 0xC0000000 | uint32(n)
		default:
			v = uint32(m.Val >> 8)
		}
		out[p], out[p+1], out[p+2], out[p+3] = byte(v), byte(v>>8), byte(v>>16), byte(v>>24)
		return out, fmt.Sprintf("dictionary at %d: length %d -> %d", p, n, v)
	}
	if len(nodes) == 0 {
		return out, "noop: no nodes"
	}
	ni := mod(m.Node, len(nodes))
	n := nodes[ni]
	a := n.Arity
	off := n.COffset
	raw := out[off : off+NodeSize(a)]
	e := mod(m.Elem, a)
	fix := !m.Raw
	setCPtr := func(i int, abs int64) {
		putU48(raw[OffCPtr(a, i):], uint64(abs-n.CBias))
	}
	// makeSpanningBranch rewrites node x (bytes rx, arity ax) so that element
	// ex is a CNeutral Branch child covering the whole DRange [0, d) and
	// pointing at absolute offset target.
	makeSpanningBranch := func(x Node, ex int, d int64, target int64) {
		rx := out[x.COffset : x.COffset+NodeSize(x.Arity)]
		ax := x.Arity
		for i := 1; i <= ax; i++ {
			v := uint64(0)
			if i > ex {
				v = uint64(d)
			}
			putU48(rx[OffDPtr(ax, i):], v)
		}
		rx[OffTTag(ax, ex)] = TagBranch
		rx[OffSTag(ax, ex)] = 0xFF
		putU48(rx[OffCPtr(ax, ex):], uint64(target-x.CBias))
		FixChecksum(out, x.COffset)
	}
	switch m.Kind {
	case "arity-both":
		v := byte(m.Val)
		raw[3] = v
		raw[OffArity2(a)] = v
		fix = false
		if v != 0 && !m.Raw {
			FixChecksum(out, off)
		}
		desc = fmt.Sprintf("both arity bytes -> %d", v)
	case "arity-first":
		raw[3] = byte(m.Val)
		fix = false
		desc = fmt.Sprintf("first arity byte -> %d", byte(m.Val))
	case "arity-last":
		raw[OffArity2(a)] = byte(m.Val)
		desc = fmt.Sprintf("last arity byte -> %d", byte(m.Val))
	case "dptr-swap":
		if a < 2 {
			return out, "noop: arity 1"
		}
		i := 1 + mod(m.Elem, a-1) // rows i and i+1 (i+1 <= a)
		x, y := u48(raw[OffDPtr(a, i):]), u48(raw[OffDPtr(a, i+1):])
		if x == y {
			y = x + 1 + int64(m.Val%7)
		}
		putU48(raw[OffDPtr(a, i):], uint64(y))
		putU48(raw[OffDPtr(a, i+1):], uint64(x))
		desc = fmt.Sprintf("DPtr[%d],DPtr[%d] swapped (%d,%d)", i, i+1, y, x)
	case "dptr-set":
		i := 1 + mod(m.Elem, a)
		old := u48(raw[OffDPtr(a, i):])
		var v int64
		switch m.Val % 5 {
		case 0:
			v = old + 1
		case 1:
			v = old - 1
		case 2:
			v = 0
		case 3:
			v = MaxSize
		default:
			v = int64(m.Val>>8) & MaxSize
		}
		putU48(raw[OffDPtr(a, i):], uint64(v))
		desc = fmt.Sprintf("DPtr[%d] %d -> %d", i, old, v&MaxSize)
	case "dptrmax":
		old := u48(raw[OffDPtr(a, a):])
		v := old + int64(m.Val%9) - 4
		if m.Val%9 == 4 {
			v = MaxSize
		}
		putU48(raw[OffDPtr(a, a):], uint64(v))
		desc = fmt.Sprintf("DPtrMax %d -> %d", old, v&MaxSize)
	case "cptr-over-max":
		v := n.CPtrMax() + 1 + int64(m.Val%4096)
		putU48(raw[OffCPtr(a, e):], uint64(v))
		desc = fmt.Sprintf("CPtr[%d] -> CPtrMax+%d", e, v-n.CPtrMax())
	case "cptr-set":
		var v int64
		switch m.Val % 5 {
		case 0:
			v = 0
		case 1:
			v = n.CPtrMax()
		case 2:
			v = n.CPtrMax() - 1 - int64((m.Val>>8)%40)
		case 3:
			v = MaxSize
		default:
			v = int64(m.Val>>8) % (int64(len(out)) + 1)
		}
		putU48(raw[OffCPtr(a, e):], uint64(v))
		desc = fmt.Sprintf("CPtr[%d] -> %d", e, v&MaxSize)
	case "cptrmax":
		old := n.CPtrMax()
		var v int64
		switch m.Val % 5 {
		case 0:
			v = old + 1
		case 1:
			v = old - 1
		case 2:
			v = MaxSize
		case 3:
			v = old + 1 + int64((m.Val>>8)%100000)
		default:
			v = old / 2
		}
		putU48(raw[OffCPtr(a, a):], uint64(v))
		desc = fmt.Sprintf("CPtrMax %d -> %d", old, v&MaxSize)
	case "clen":
		raw[OffCLen(a, e)] = byte(m.Val)
		desc = fmt.Sprintf("CLen[%d] -> %d", e, byte(m.Val))
	case "stag":
		raw[OffSTag(a, e)] = byte(m.Val)
		desc = fmt.Sprintf("STag[%d] -> 0x%02x", e, byte(m.Val))
	case "stag-bias":
		// make element e (whatever it is) CBiasing on element Aux
		k := mod(m.Aux, a)
		raw[OffSTag(a, e)] = byte(k)
		desc = fmt.Sprintf("STag[%d] -> %d (CBiasing)", e, k)
	case "ttag":
		raw[OffTTag(a, e)] = byte(m.Val)
		desc = fmt.Sprintf("TTag[%d] -> 0x%02x", e, byte(m.Val))
	case "ttag-reserved":
		v := 0xC0 + byte(m.Val%(0xFD-0xC0))
		raw[OffTTag(a, e)] = v
		desc = fmt.Sprintf("TTag[%d] -> 0x%02x (reserved)", e, v)
	case "codec":
		raw[OffCodecByte(a)] = byte(m.Val)
		desc = fmt.Sprintf("CodecByte -> 0x%02x", byte(m.Val))
	case "codec-mix":
		raw[OffCodecByte(a)] ^= 0x40
		desc = "Mix Bit toggled"
	case "codec-long":
		raw[OffCodecByte(a)] = 0x80 | byte(m.Val&0x7F)
		desc = fmt.Sprintf("CodecByte -> 0x%02x (long)", raw[OffCodecByte(a)])
	case "codec-elem-huge":
		// turn element e into a Codec Element whose CPtr field is huge, and make
		// element Aux use it as its CBias.
		raw[OffTTag(a, e)] = TagCodec
		putU48(raw[OffCPtr(a, e):], uint64(MaxSize-int64(m.Val%70000)))
		k := mod(m.Aux, a)
		raw[OffSTag(a, k)] = byte(e)
		desc = fmt.Sprintf("elem %d -> Codec Element with CPtr near 2^48, STag[%d] -> %d", e, k, e)
	case "version":
		v := []byte{0, 2, 0xFF, byte(m.Val >> 8)}[m.Val%4]
		raw[OffVersion(a)] = v
		desc = fmt.Sprintf("Version -> %d", v)
	case "reserved":
		i := mod(m.Elem, a+1)
		raw[OffReserved(a, i)] = byte(m.Val) | 1
		desc = fmt.Sprintf("Reserved[%d] -> 0x%02x", i, raw[OffReserved(a, i)])
	case "magic":
		raw[m.Val%3] ^= byte(m.Val>>8) | 1
		desc = "magic corrupted"
	case "checksum":
		raw[4+m.Val%2] ^= byte(m.Val>>8) | 1
		fix = false
		desc = "checksum corrupted"
	case "ptr-self":
		raw[OffTTag(a, e)] = TagBranch
		setCPtr(e, off)
		desc = fmt.Sprintf("elem %d -> branch pointing at its own node (%d)", e, off)
	case "ptr-parent":
		if n.Parent < 0 {
			raw[OffTTag(a, e)] = TagBranch
			setCPtr(e, off)
			desc = fmt.Sprintf("elem %d -> branch pointing at own (root) node", e)
		} else {
			raw[OffTTag(a, e)] = TagBranch
			setCPtr(e, nodes[n.Parent].COffset)
			desc = fmt.Sprintf("elem %d -> branch pointing at the parent node (%d)", e, nodes[n.Parent].COffset)
		}
	case "ptr-sibling":
		k := mod(m.Aux, a)
		copy(raw[OffCPtr(a, e):OffCPtr(a, e)+6], raw[OffCPtr(a, k):OffCPtr(a, k)+6])
		if m.Val%2 == 0 {
			raw[OffTTag(a, e)] = raw[OffTTag(a, k)]
		}
		desc = fmt.Sprintf("CPtr[%d] <- CPtr[%d]", e, k)
	case "ptr-node":
		t := nodes[mod(m.Aux, len(nodes))]
		raw[OffTTag(a, e)] = TagBranch
		setCPtr(e, t.COffset)
		desc = fmt.Sprintf("elem %d -> branch pointing at node %d", e, t.COffset)
	case "ptr-mid-node":
		t := nodes[mod(m.Aux, len(nodes))]
		d := 1 + int64(m.Val)%(t.Size()-1)
		if m.Val%2 == 0 {
			raw[OffTTag(a, e)] = TagBranch
		}
		setCPtr(e, t.COffset+d)
		desc = fmt.Sprintf("elem %d -> pointer into the middle of node %d (+%d)", e, t.COffset, d)
	case "ptr-last3":
		d := int64(m.Val % 5) // 0..4 bytes before the end
		if (m.Val>>8)%2 == 0 {
			raw[OffTTag(a, e)] = TagBranch
		}
		setCPtr(e, int64(len(out))-d)
		desc = fmt.Sprintf("elem %d -> pointer to the last %d bytes", e, d)
	case "cycle":
		// cycle of length 1..3 through nodes X0 (=n), X1, X2
		k := 1 + int(m.Val%3)
		xs := []Node{n}
		for _, ai := range []int{m.Aux, m.Aux2}[:k-1] {
			c := nodes[mod(ai, len(nodes))]
			dup := false
			for _, x := range xs {
				if x.COffset == c.COffset {
					dup = true
				}
			}
			if !dup {
				xs = append(xs, c)
			}
		}
		d := n.DPtrMax()
		for j, x := range xs {
			next := xs[(j+1)%len(xs)]
			makeSpanningBranch(x, mod(m.Elem+j, x.Arity), d, next.COffset)
			if j > 0 {
				// keep COffMax chain consistent: same CPtrMax as X0 (relative to own bias)
				rx := out[x.COffset : x.COffset+NodeSize(x.Arity)]
				putU48(rx[OffCPtr(x.Arity, x.Arity):], uint64(n.COffMax()-x.CBias))
				FixChecksum(out, x.COffset)
			}
		}
		fix = false
		desc = fmt.Sprintf("cycle of length %d starting at node %d", len(xs), off)
	default:
		return out, "noop: unknown kind " + m.Kind
	}
	if fix {
		FixChecksum(out, off)
	}
	return out, fmt.Sprintf("node %d@%d: %s", ni, off, desc)
}

// TruncPoints lists interesting truncation lengths: node boundaries +-1.
func TruncPoints(nodes []Node, size int64) []int64 {
	var out []int64
	seen := map[int64]bool{}
	add := func(v int64) {
		if v >= 0 && v < size && !seen[v] {
			seen[v] = true
			out = append(out, v)
		}
	}
	for _, n := range nodes {
		for _, d := range []int64{-1, 0, 1, 3, 4} {
			add(n.COffset + d)
			add(n.COffset + n.Size() + d - 1)
		}
	}
	for _, v := range []int64{0, 3, 4, 31, 32, 33, size - 1, size - 16} {
		add(v)
	}
	return out
}
