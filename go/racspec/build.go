package racspec

import (
	"encoding/binary"
	"errors"
	"fmt"
	"hash/crc32"
	"sort"
)

// ---- Common Dictionary Format (spec section of the same name)

// WrapDict wraps a dictionary: 4-byte length, bytes, 4-byte CRC-32.
func WrapDict(dict []byte) []byte {
	out := make([]byte, 0, len(dict)+8)
	out = binary.LittleEndian.AppendUint32(out, uint32(len(dict)))
	out = append(out, dict...)
	out = binary.LittleEndian.AppendUint32(out, crc32.ChecksumIEEE(dict))
	return out
}

// UnwrapDict parses the Secondary CRange of a leaf according to the Common
// Dictionary Format. An empty range means "no dictionary" (nil, nil).
func UnwrapDict(file []byte, l Leaf) ([]byte, error) {
	r := l.CSecondary
	if r.Empty() {
		return nil, nil
	}
	if l.TTag != 0xFF {
		return nil, fmt.Errorf("leaf TTag 0x%02x with a dictionary (must be 0xFF)", l.TTag)
	}
	if r[0] < 0 || r[1] > int64(len(file)) || r[0] > r[1] {
		return nil, errors.New("secondary range outside the file")
	}
	b := file[r[0]:r[1]]
	if len(b) < 8 {
		return nil, errors.New("secondary range shorter than 8 bytes")
	}
	n := binary.LittleEndian.Uint32(b)
	if n>>30 != 0 {
		return nil, errors.New("dictionary length has reserved bits set")
	}
	if int64(n)+8 > int64(len(b)) {
		return nil, errors.New("dictionary longer than the secondary range")
	}
	d := b[4 : 4+n]
	if binary.LittleEndian.Uint32(b[4+n:]) != crc32.ChecksumIEEE(d) {
		return nil, errors.New("dictionary checksum mismatch")
	}
	return d, nil
}

// ---- Builder: assembles RAC files by hand from a tree description.

// Element kinds.
const (
	ELeaf     = iota // Leaf Node child
	EBranch          // Branch Node child
	EResource        // empty-DRange leaf element whose CRange holds a shared resource
	ECodec           // Codec Element attribute (TTag 0xFD)
	eMeta            // (internal) empty element carrying the CBias of a region
)

// BElem describes one element of a Branch Node to build.
type BElem struct {
	Kind     int
	DSize    int64  // ELeaf: size of the DRange (may be 0: an empty chunk)
	Data     []byte // ELeaf: Primary bytes (may be empty); EResource: the wrapped resource
	Child    *BNode // EBranch
	Res      int    // ELeaf: index in the same node of the EResource used as Secondary; <0: none
	TTag     uint8  // ELeaf: 0 means 0xFF
	CLenZero bool   // use CLen 0 (range extends to COffMax)
	ShareOf  int    // ELeaf: when >0, point at the Data of element ShareOf-1 of the same node
	Long     [7]byte

	item   *bitem
	target *BNode // eMeta
}

// BNode describes a Branch Node to build.
type BNode struct {
	Elems     []BElem
	CodecByte uint8
	Version   uint8 // 0 means 1

	// Region makes this (non-root) node a CBiasing Branch Node: its whole
	// sub-tree is laid out contiguously and all its pointers are relative to
	// the start of that area (like an embedded, concatenated RAC file).
	Region bool
	// NodeAtEnd places the node after the rest of its region (for the root:
	// index at the end of the file). Only meaningful for the root and regions.
	NodeAtEnd bool
	// TightMax sets a region's COffMax to the end of its area rather than to
	// the parent's COffMax.
	TightMax bool
	// Order gives sort keys for the items (blobs, non-region descendant nodes,
	// nested regions) of this region, in creation order. Missing keys keep the
	// natural order (after the keyed ones... ties keep creation order).
	Order []uint32
	// Gaps are unused bytes inserted before the k-th item.
	Gaps []uint8

	off, base, end int64
	size           int64 // region size (valid for root/regions)
	items          []*bitem
	fileRoot       bool
}

type bitem struct {
	size   int64
	off    int64
	data   []byte
	node   *BNode // non-region descendant node
	region *BNode
	key    uint64
	gap    int64
}

// DTotal is the decompressed size covered by n.
func (n *BNode) DTotal() int64 {
	t := int64(0)
	for i := range n.Elems {
		e := &n.Elems[i]
		switch e.Kind {
		case ELeaf:
			t += e.DSize
		case EBranch:
			t += e.Child.DTotal()
		}
	}
	return t
}

// normalize adds the meta elements needed by regions whose node is at the end.
func normalize(n *BNode) error {
	if len(n.Elems) == 0 {
		return errors.New("racspec: node without elements")
	}
	var metas []BElem
	for i := range n.Elems {
		e := &n.Elems[i]
		if e.Kind == EBranch {
			if e.Child == nil {
				return errors.New("racspec: branch element without child")
			}
			if err := normalize(e.Child); err != nil {
				return err
			}
			if e.Child.Region && e.Child.NodeAtEnd {
				metas = append(metas, BElem{Kind: eMeta, target: e.Child})
			}
		}
	}
	n.Elems = append(n.Elems, metas...)
	if len(n.Elems) > 255 {
		return fmt.Errorf("racspec: arity %d > 255", len(n.Elems))
	}
	return nil
}

// collect gathers the items of the region rooted at r.
func collect(r *BNode, n *BNode) {
	for i := range n.Elems {
		e := &n.Elems[i]
		switch e.Kind {
		case ELeaf:
			if len(e.Data) > 0 && e.ShareOf == 0 {
				e.item = &bitem{size: int64(len(e.Data)), data: e.Data}
				r.items = append(r.items, e.item)
			}
		case EResource:
			e.item = &bitem{size: int64(len(e.Data)), data: e.Data}
			r.items = append(r.items, e.item)
		case EBranch:
			if e.Child.Region {
				measure(e.Child)
				e.item = &bitem{size: e.Child.size, region: e.Child}
				r.items = append(r.items, e.item)
			} else {
				e.item = &bitem{size: NodeSize(len(e.Child.Elems)), node: e.Child}
				r.items = append(r.items, e.item)
				collect(r, e.Child)
			}
		}
	}
}

func measure(r *BNode) {
	r.items = nil
	collect(r, r)
	for k, it := range r.items {
		it.key = uint64(1)<<40 + uint64(k)
		if k < len(r.Order) {
			it.key = uint64(r.Order[k])<<8 | uint64(k&0xFF)
		}
		if k < len(r.Gaps) {
			it.gap = int64(r.Gaps[k])
		}
	}
	sort.SliceStable(r.items, func(i, j int) bool { return r.items[i].key < r.items[j].key })
	size := NodeSize(len(r.Elems))
	if r.fileRoot && r.NodeAtEnd {
		size += 4
	}
	for _, it := range r.items {
		size += it.size + it.gap
	}
	r.size = size
}

func place(r *BNode, base int64) {
	r.base = base
	off := base
	if r.fileRoot && r.NodeAtEnd {
		off += 4
	}
	if !r.NodeAtEnd {
		r.off = off
		off += NodeSize(len(r.Elems))
	}
	for _, it := range r.items {
		off += it.gap
		it.off = off
		off += it.size
		if it.region != nil {
			place(it.region, it.off)
		} else if it.node != nil {
			it.node.off = it.off
		}
	}
	if r.NodeAtEnd {
		r.off = off
		off += NodeSize(len(r.Elems))
	}
	r.end = off
}

func calcCLen(n int64) uint8 {
	if n <= 0 {
		return 1
	}
	k := (n + 1023) / 1024
	if k > 255 {
		return 0
	}
	return uint8(k)
}

func encode(file []byte, n *BNode, cbias, coffmax int64) error {
	a := len(n.Elems)
	raw := file[n.off : n.off+NodeSize(a)]
	for i := range raw {
		raw[i] = 0
	}
	ver := n.Version
	if ver == 0 {
		ver = 1
	}
	metaIdx := map[*BNode]int{}
	for i := range n.Elems {
		if n.Elems[i].Kind == eMeta {
			metaIdx[n.Elems[i].target] = i
		}
	}
	rel := func(abs int64) (uint64, error) {
		if abs < cbias {
			return 0, fmt.Errorf("racspec: pointer %d below CBias %d", abs, cbias)
		}
		return uint64(abs - cbias), nil
	}
	dptr := int64(0)
	cptrmax, err := rel(coffmax)
	if err != nil {
		return err
	}
	for i := range n.Elems {
		e := &n.Elems[i]
		if i > 0 {
			putU48(raw[OffDPtr(a, i):], uint64(dptr))
		}
		ttag, stag, clen := uint8(0xFF), uint8(0xFF), uint8(1)
		cptr := cptrmax
		switch e.Kind {
		case ELeaf:
			dptr += e.DSize
			if e.TTag != 0 {
				ttag = e.TTag
			}
			if e.Res >= 0 && e.Res < a && n.Elems[e.Res].Kind == EResource {
				stag = uint8(e.Res)
			}
			src := e
			if e.ShareOf > 0 && e.ShareOf-1 < a && n.Elems[e.ShareOf-1].item != nil && n.Elems[e.ShareOf-1].Kind == ELeaf {
				src = &n.Elems[e.ShareOf-1]
			}
			if src.item != nil {
				if cptr, err = rel(src.item.off); err != nil {
					return err
				}
				clen = calcCLen(src.item.size)
			}
			if e.CLenZero {
				clen = 0
			}
		case EResource:
			if cptr, err = rel(e.item.off); err != nil {
				return err
			}
			clen = calcCLen(e.item.size)
			if e.CLenZero {
				clen = 0
			}
		case ECodec:
			ttag = TagCodec
			copy(raw[OffCPtr(a, i):], e.Long[:])
			raw[OffSTag(a, i)] = 0xFF
			raw[OffTTag(a, i)] = ttag
			continue
		case eMeta:
			if cptr, err = rel(e.target.base); err != nil {
				return err
			}
		case EBranch:
			c := e.Child
			dptr += c.DTotal()
			ttag = TagBranch
			if cptr, err = rel(c.off); err != nil {
				return err
			}
			clen = calcCLen(NodeSize(len(c.Elems)))
			ccbias, cmax := cbias, coffmax
			if c.Region {
				ccbias = c.base
				if c.TightMax {
					cmax = c.end
				}
				if c.NodeAtEnd {
					stag = uint8(metaIdx[c])
				} else {
					stag = uint8(i) // COff[i] is the region base itself
				}
			}
			if err := encode(file, c, ccbias, cmax); err != nil {
				return err
			}
		}
		putU48(raw[OffCPtr(a, i):], cptr)
		raw[OffCLen(a, i)] = clen
		raw[OffSTag(a, i)] = stag
		raw[OffTTag(a, i)] = ttag
	}
	putU48(raw[OffDPtr(a, a):], uint64(dptr))
	raw[OffCodecByte(a)] = n.CodecByte
	putU48(raw[OffCPtr(a, a):], cptrmax)
	raw[OffVersion(a)] = ver
	raw[OffArity2(a)] = uint8(a)
	raw[0], raw[1], raw[2], raw[3] = Magic[0], Magic[1], Magic[2], uint8(a)
	c := Checksum(raw)
	raw[4], raw[5] = byte(c), byte(c>>8)
	return nil
}

// Build lays out and encodes the tree rooted at root. The description is
// modified (meta elements are appended where needed); build a fresh tree for
// every call.
func Build(root *BNode) ([]byte, error) {
	if root == nil {
		return nil, errors.New("racspec: nil root")
	}
	if err := normalize(root); err != nil {
		return nil, err
	}
	root.fileRoot = true
	root.Region = true
	measure(root)
	if root.size > 1<<26 {
		return nil, errors.New("racspec: file too large")
	}
	place(root, 0)
	file := make([]byte, root.end)
	var fill func(r *BNode)
	fill = func(r *BNode) {
		for _, it := range r.items {
			if it.data != nil {
				copy(file[it.off:], it.data)
			}
			if it.region != nil {
				fill(it.region)
			}
		}
	}
	fill(root)
	if root.NodeAtEnd {
		copy(file, []byte{Magic[0], Magic[1], Magic[2], 0})
	}
	if err := encode(file, root, 0, root.end); err != nil {
		return nil, err
	}
	return file, nil
}
