// Package racspec is an independent implementation of the structural rules of
// doc/spec/rac-spec.md (Random Access Compression): a walker/validator, a file
// builder and index-aware mutations.
//
// It is written from the specification text only and deliberately shares no
// code with github.com/google/wuffs/lib/rac, so that it can serve as the
// oracle of properties C13, C14 and C15. Writer conventions that the spec does
// not demand (resources before children, page padding, ...) are reported as
// statistics, never judged.
package racspec

import (
	"fmt"
	"hash/crc32"
)

const (
	// MaxSize is the maximum CFileSize / DFileSize: (1<<48)-1.
	MaxSize = (1 << 48) - 1
	// TagBranch marks a Branch Node child.
	TagBranch = 0xFE
	// TagCodec marks a Codec Element attribute.
	TagCodec = 0xFD
)

// Magic is the three-byte magic of every Branch Node.
var Magic = [3]byte{0x72, 0xC3, 0x63}

// Range is a half-open byte range.
type Range [2]int64

// Size returns j-i.
func (r Range) Size() int64 { return r[1] - r[0] }

// Empty reports i == j.
func (r Range) Empty() bool { return r[0] == r[1] }

// NodeSize returns the encoded size of a Branch Node of the given arity.
func NodeSize(arity int) int64 { return int64(arity)*16 + 16 }

func u48(b []byte) int64 {
	return int64(b[0]) | int64(b[1])<<8 | int64(b[2])<<16 | int64(b[3])<<24 | int64(b[4])<<32 | int64(b[5])<<40
}

func putU48(b []byte, v uint64) {
	b[0], b[1], b[2], b[3], b[4], b[5] = byte(v), byte(v>>8), byte(v>>16), byte(v>>24), byte(v>>32), byte(v>>40)
}

// Byte offsets of the fields of a Branch Node of arity a, relative to its
// Branch COffset. The node is 2a+2 rows of 8 bytes:
//
//	row 0        Magic(3) Arity(1) Checksum(2) Reserved(1) TTag[0]
//	row i        DPtr[i](6) Reserved(1) TTag[i]            1 <= i < a
//	row a        DPtrMax(6) Reserved(1) CodecByte
//	row a+1+i    CPtr[i](6) CLen[i] STag[i]                0 <= i < a
//	row 2a+1     CPtrMax(6) Version Arity

// OffDPtr is the offset of DPtr[i], 1 <= i <= a.
func OffDPtr(a, i int) int { return 8 * i }

// OffReserved is the offset of the i-th Reserved byte, 0 <= i <= a.
func OffReserved(a, i int) int { return 8*i + 6 }

// OffTTag is the offset of TTag[i], 0 <= i < a.
func OffTTag(a, i int) int { return 8*i + 7 }

// OffCodecByte is the offset of the CodecByte.
func OffCodecByte(a int) int { return 8*a + 7 }

// OffCPtr is the offset of CPtr[i], 0 <= i <= a.
func OffCPtr(a, i int) int { return 8 * (a + 1 + i) }

// OffCLen is the offset of CLen[i], 0 <= i < a.
func OffCLen(a, i int) int { return 8*(a+1+i) + 6 }

// OffSTag is the offset of STag[i], 0 <= i < a.
func OffSTag(a, i int) int { return 8*(a+1+i) + 7 }

// OffVersion is the offset of the Version byte.
func OffVersion(a int) int { return 16*a + 14 }

// OffArity2 is the offset of the second Arity byte.
func OffArity2(a int) int { return 16*a + 15 }

// Checksum computes the 16-bit checksum of a node whose bytes are raw (length
// NodeSize(arity)).
func Checksum(raw []byte) uint16 {
	c := crc32.ChecksumIEEE(raw[6:])
	return uint16(c) ^ uint16(c>>16)
}

// FixChecksum recomputes the checksum of the node at off, taking the arity
// from its first Arity byte. It reports false when the node does not fit.
func FixChecksum(file []byte, off int64) bool {
	if off < 0 || off+4 > int64(len(file)) {
		return false
	}
	a := int(file[off+3])
	if a == 0 || off+NodeSize(a) > int64(len(file)) {
		return false
	}
	raw := file[off : off+NodeSize(a)]
	c := Checksum(raw)
	raw[4], raw[5] = byte(c), byte(c>>8)
	return true
}

// Node is a parsed Branch Node together with its position in the tree.
type Node struct {
	COffset int64 // Branch COffset
	CBias   int64
	DBias   int64
	Depth   int // 0 for the Root Node
	Parent  int // index into Result.Nodes, -1 for the root
	Arity   int
	Raw     []byte // NodeSize(Arity) bytes (aliases the file)
}

// DPtr returns DPtr[i], 0 <= i <= Arity.
func (n *Node) DPtr(i int) int64 {
	if i == 0 {
		return 0
	}
	return u48(n.Raw[OffDPtr(n.Arity, i):])
}

// DPtrMax is DPtr[Arity].
func (n *Node) DPtrMax() int64 { return n.DPtr(n.Arity) }

// CPtr returns CPtr[i], 0 <= i <= Arity.
func (n *Node) CPtr(i int) int64 { return u48(n.Raw[OffCPtr(n.Arity, i):]) }

// CPtrMax is CPtr[Arity].
func (n *Node) CPtrMax() int64 { return n.CPtr(n.Arity) }

// COff is CBias + CPtr[i].
func (n *Node) COff(i int) int64 { return n.CBias + n.CPtr(i) }

// COffMax is CBias + CPtrMax.
func (n *Node) COffMax() int64 { return n.CBias + n.CPtrMax() }

// DOff is DBias + DPtr[i].
func (n *Node) DOff(i int) int64 { return n.DBias + n.DPtr(i) }

// TTag returns TTag[i].
func (n *Node) TTag(i int) uint8 { return n.Raw[OffTTag(n.Arity, i)] }

// STag returns STag[i].
func (n *Node) STag(i int) uint8 { return n.Raw[OffSTag(n.Arity, i)] }

// CLen returns CLen[i].
func (n *Node) CLen(i int) uint8 { return n.Raw[OffCLen(n.Arity, i)] }

// CodecByte returns the Codec Byte.
func (n *Node) CodecByte() uint8 { return n.Raw[OffCodecByte(n.Arity)] }

// Version returns the Version byte.
func (n *Node) Version() uint8 { return n.Raw[OffVersion(n.Arity)] }

// Size is the encoded size.
func (n *Node) Size() int64 { return NodeSize(n.Arity) }

// MakeCRange implements the spec's MakeCRange(i).
func (n *Node) MakeCRange(i int) Range {
	max := n.COffMax()
	if i >= n.Arity {
		return Range{max, max}
	}
	lo := n.COff(i)
	hi := max
	if l := n.CLen(i); l != 0 {
		if x := lo + int64(l)*1024; x < hi {
			hi = x
		}
	}
	return Range{lo, hi}
}

// Codec returns the node's codec in the representation used by rac.Codec
// (short: byte<<56 without the Mix Bit; long: 0x80<<56 | 56 little-endian
// bits), and ok=false when a Long Codec has no Codec Element.
func (n *Node) Codec() (codec uint64, ok bool) {
	cb := n.CodecByte()
	if cb&0x80 == 0 {
		return uint64(cb&0x3F) << 56, true
	}
	c64 := int(cb & 0x3F)
	for k := 0; k < 4; k++ {
		i := c64 + 64*k
		if i < n.Arity && n.TTag(i) == TagCodec {
			row := n.Raw[OffCPtr(n.Arity, i):]
			v := uint64(0)
			for j := 6; j >= 0; j-- {
				v = v<<8 | uint64(row[j])
			}
			return v | 0x80<<56, true
		}
	}
	return 0, false
}

// HasMixBit reports the Mix Bit of the Codec Byte.
func (n *Node) HasMixBit() bool { return n.CodecByte()&0x40 != 0 }

// Violation is one broken spec rule.
type Violation struct {
	Rule    string
	COffset int64 // node concerned (-1: file level)
	Elem    int   // element concerned (-1: none)
	Detail  string
}

func (v Violation) String() string {
	return fmt.Sprintf("%s@%d[%d] %s", v.Rule, v.COffset, v.Elem, v.Detail)
}

// Leaf is a Leaf Node with a non-empty DRange.
type Leaf struct {
	DRange     Range
	CPrimary   Range
	CSecondary Range
	CTertiary  Range
	STag, TTag uint8
	Codec      uint64
	CodecOK    bool
	Node       int // index into Result.Nodes
	Elem       int
}

// Result is the outcome of walking a file.
type Result struct {
	CFileSize  int64
	RootFound  bool
	RootAtEnd  bool
	DFileSize  int64
	Nodes      []Node // Branch Nodes in visiting order (a node reached twice appears twice)
	Leaves     []Leaf // non-empty leaves in DSpace order
	Violations []Violation
	Stats      map[string]int64
	MaxDepth   int
	Truncated  bool // the visit cap was reached; Leaves/Nodes are incomplete
	Visits     int  // nodes + leaves visited
}

// Valid reports that no spec rule was found broken and the walk was complete.
func (r *Result) Valid() bool { return r.RootFound && len(r.Violations) == 0 && !r.Truncated }

// Has reports whether a rule was violated.
func (r *Result) Has(rule string) bool {
	for _, v := range r.Violations {
		if v.Rule == rule {
			return true
		}
	}
	return false
}

// Rules lists the distinct violated rules.
func (r *Result) Rules() []string {
	var out []string
	seen := map[string]bool{}
	for _, v := range r.Violations {
		if !seen[v.Rule] {
			seen[v.Rule] = true
			out = append(out, v.Rule)
		}
	}
	return out
}

// Options bound the walk.
type Options struct {
	MaxVisits int // 0: 1<<20
}

type walker struct {
	file     []byte
	csize    int64
	res      *Result
	max      int
	deferred []Violation // violations of the accepted root candidate
}

const maxViolations = 256

func (w *walker) viol(rule string, off int64, elem int, format string, a ...any) {
	if len(w.res.Violations) < maxViolations {
		w.res.Violations = append(w.res.Violations, Violation{rule, off, elem, fmt.Sprintf(format, a...)})
	}
}

// localRules checks the rules of "Branch Node Validation" that need no
// context. Pre-condition: raw has NodeSize(raw[3]) bytes and raw[3] != 0.
// The returned rules make the node structurally unusable when fatal is true.
func localRules(n *Node, details bool) (rules []Violation, fatal bool) {
	a := n.Arity
	raw := n.Raw
	add := func(rule string, elem int, format string, x ...any) {
		if !details {
			if len(rules) < 8 {
				rules = append(rules, Violation{Rule: rule, COffset: n.COffset, Elem: elem})
			}
			return
		}
		rules = append(rules, Violation{rule, n.COffset, elem, fmt.Sprintf(format, x...)})
	}
	if raw[0] != Magic[0] || raw[1] != Magic[1] || raw[2] != Magic[2] {
		add("node-magic", -1, "% x", raw[:3])
		fatal = true
	}
	if raw[OffArity2(a)] != raw[3] {
		add("node-arity-mismatch", -1, "%d vs %d", raw[3], raw[OffArity2(a)])
		fatal = true
	}
	if got, want := uint16(raw[4])|uint16(raw[5])<<8, Checksum(raw); got != want {
		add("node-checksum", -1, "listed %04x computed %04x", got, want)
	}
	if v := n.Version(); v != 1 {
		add("node-version", -1, "version %d", v)
	}
	children := 0
	for i := 0; i <= a; i++ {
		if raw[OffReserved(a, i)] != 0 {
			add("node-reserved-nonzero", i, "0x%02x", raw[OffReserved(a, i)])
		}
	}
	for i := 0; i < a; i++ {
		t := n.TTag(i)
		if t != TagCodec {
			children++
		}
		if t >= 0xC0 && t < TagCodec {
			add("node-ttag-reserved", i, "0x%02x", t)
		}
		if n.DPtr(i) > n.DPtr(i+1) {
			add("node-dptr-unsorted", i, "%d > %d", n.DPtr(i), n.DPtr(i+1))
		} else if t == TagCodec && n.DPtr(i) != n.DPtr(i+1) {
			add("node-codec-elem-nonempty", i, "[%d,%d)", n.DPtr(i), n.DPtr(i+1))
		}
		if t != TagCodec && n.CPtr(i) > n.CPtrMax() {
			add("node-cptr-exceeds-max", i, "%d > %d", n.CPtr(i), n.CPtrMax())
		}
	}
	if children == 0 {
		add("node-no-children", -1, "")
	}
	cb := n.CodecByte()
	if cb&0x80 != 0 {
		if _, ok := n.Codec(); !ok {
			add("node-long-codec-missing", -1, "c64=%d", cb&0x3F)
		}
	} else if cb&0x3F > 3 {
		add("node-short-codec-reserved", -1, "0x%02x", cb)
	}
	return rules, fatal
}

// parseAt returns the node at off when its arity byte and body lie inside
// both the claimed file size and the buffer.
func (w *walker) parseAt(off int64) (n *Node, why string) {
	if off < 0 || off+4 > w.csize {
		return nil, "arity byte outside the file"
	}
	if off+4 > int64(len(w.file)) {
		return nil, "arity byte outside the buffer"
	}
	a := int(w.file[off+3])
	if a == 0 {
		return nil, "arity zero"
	}
	if off+NodeSize(a) > w.csize {
		return nil, "node extends past the file"
	}
	if off+NodeSize(a) > int64(len(w.file)) {
		return nil, "node extends past the buffer"
	}
	return &Node{COffset: off, Arity: a, Raw: w.file[off : off+NodeSize(a)]}, ""
}

// tryRoot validates a candidate root node (without recording violations).
func (w *walker) tryRoot(off int64) (*Node, []Violation) {
	n, why := w.parseAt(off)
	if n == nil {
		return nil, []Violation{{"root-unparseable", off, -1, why}}
	}
	n.Parent = -1
	all, _ := localRules(n, true)
	var vs []Violation
	for _, v := range all {
		// "Branch Node Validation" (which decides whether a root candidate is
		// valid) does not mention reserved Short Codec values: such a node is
		// still the root, and the file is reported invalid for that reason.
		if v.Rule == "node-short-codec-reserved" {
			w.deferred = append(w.deferred, v)
			continue
		}
		vs = append(vs, v)
	}
	if n.COffMax() != w.csize {
		vs = append(vs, Violation{"root-coffmax", off, -1, fmt.Sprintf("%d != CFileSize %d", n.COffMax(), w.csize)})
	}
	if len(vs) != 0 {
		w.deferred = nil
	}
	return n, vs
}

// Walk validates file, presented with the claimed size cfileSize (normally
// len(file)), against the structural rules of the RAC specification and
// collects its leaves. It never panics and does bounded work.
func Walk(file []byte, cfileSize int64, opt Options) *Result {
	res := &Result{CFileSize: cfileSize, Stats: map[string]int64{}}
	w := &walker{file: file, csize: cfileSize, res: res, max: opt.MaxVisits}
	if w.max <= 0 {
		w.max = 1 << 20
	}
	if cfileSize > MaxSize {
		w.viol("size-exceeds-max", -1, -1, "%d", cfileSize)
		return res
	}
	if cfileSize < 32 || len(file) < 4 {
		w.viol("file-too-short", -1, -1, "%d", cfileSize)
		return res
	}
	if file[0] != Magic[0] || file[1] != Magic[1] || file[2] != Magic[2] {
		w.viol("file-magic", -1, -1, "% x", file[:3])
		return res
	}
	// Root Node at the CFile start, then at the end.
	var root *Node
	var startWhy, endWhy []Violation
	if file[3] != 0 {
		n, vs := w.tryRoot(0)
		if len(vs) == 0 {
			root = n
		} else {
			startWhy = vs
		}
	}
	if root == nil {
		var lastByte byte
		ok := false
		if cfileSize <= int64(len(file)) {
			lastByte, ok = file[cfileSize-1], true
		}
		switch {
		case !ok:
			endWhy = []Violation{{"root-unparseable", cfileSize - 1, -1, "last byte outside the buffer"}}
		case lastByte == 0:
			endWhy = []Violation{{"root-unparseable", cfileSize - 1, -1, "arity zero"}}
		case NodeSize(int(lastByte)) > cfileSize:
			endWhy = []Violation{{"root-unparseable", cfileSize - 1, -1, "node larger than the file"}}
		default:
			off := cfileSize - NodeSize(int(lastByte))
			// the first arity byte must agree for parseAt to see the same size;
			// a mismatch is an invalid root anyway.
			if file[off+3] != lastByte {
				endWhy = []Violation{{"node-arity-mismatch", off, -1, ""}}
			} else {
				n, vs := w.tryRoot(off)
				if len(vs) == 0 {
					root = n
					res.RootAtEnd = true
				} else {
					endWhy = vs
				}
			}
		}
	}
	if root == nil {
		w.viol("root-not-found", -1, -1, "start: %v; end: %v", startWhy, endWhy)
		// Keep the detailed reasons too (useful for diagnostics).
		for _, v := range append(startWhy, endWhy...) {
			w.viol("root:"+v.Rule, v.COffset, v.Elem, "%s", v.Detail)
		}
		return res
	}
	res.RootFound = true
	res.DFileSize = root.DPtrMax()
	for _, v := range w.deferred {
		w.viol(v.Rule, v.COffset, v.Elem, "%s", v.Detail)
	}
	w.visit(root)
	// coverage: leaves contiguous from 0 to DFileSize (follows from the
	// parent/child DOffMax rule, checked here independently).
	if !res.Truncated && len(res.Violations) == 0 {
		pos := int64(0)
		for i, l := range res.Leaves {
			if l.DRange[0] != pos || l.DRange[1] <= l.DRange[0] {
				w.viol("leaves-not-contiguous", -1, i, "leaf %d is [%d,%d), expected start %d", i, l.DRange[0], l.DRange[1], pos)
				break
			}
			pos = l.DRange[1]
		}
		if pos != res.DFileSize && len(res.Violations) == 0 {
			w.viol("leaves-do-not-cover", -1, -1, "end %d != DFileSize %d", pos, res.DFileSize)
		}
	}
	return res
}

func (w *walker) visit(n *Node) {
	res := w.res
	if res.Visits >= w.max {
		res.Truncated = true
		return
	}
	res.Visits++
	idx := len(res.Nodes)
	res.Nodes = append(res.Nodes, *n)
	if n.Depth > res.MaxDepth {
		res.MaxDepth = n.Depth
	}
	a := n.Arity
	seenChild := false
	for i := 0; i < a; i++ {
		t := n.TTag(i)
		dr := Range{n.DOff(i), n.DOff(i + 1)}
		switch {
		case t == TagCodec:
			res.Stats["codec-elem"]++
			continue
		case t >= 0xC0 && t < TagCodec:
			continue // already reported; cannot be interpreted
		}
		if dr[0] > dr[1] {
			continue // unsorted; already reported
		}
		if dr.Empty() {
			if t == TagBranch {
				res.Stats["empty-branch"]++
			} else {
				res.Stats["empty-leaf"]++
				if seenChild {
					res.Stats["empty-leaf-after-child"]++
				}
			}
			continue
		}
		seenChild = true
		if t != TagBranch {
			if res.Visits >= w.max {
				res.Truncated = true
				return
			}
			res.Visits++
			l := Leaf{DRange: dr, CPrimary: n.MakeCRange(i), CSecondary: n.MakeCRange(int(n.STag(i))),
				CTertiary: n.MakeCRange(int(t)), STag: n.STag(i), TTag: t, Node: idx, Elem: i}
			l.Codec, l.CodecOK = n.Codec()
			for k, r := range []Range{l.CPrimary, l.CSecondary, l.CTertiary} {
				if r[0] > r[1] || r[0] < 0 || r[1] > w.csize {
					w.viol("leaf-crange", n.COffset, i, "range %d = [%d,%d) file %d", k, r[0], r[1], w.csize)
				}
			}
			if n.CLen(i) == 0 {
				res.Stats["clen-zero"]++
			}
			res.Leaves = append(res.Leaves, l)
			continue
		}
		// Branch Node child.
		sub := n.COff(i)
		cRemaining := n.COffMax() - sub
		if cRemaining < 4 {
			w.viol("child-cremaining", n.COffset, i, "CRemaining %d < 4", cRemaining)
			continue
		}
		c, why := w.parseAt(sub)
		if c == nil {
			w.viol("child-unparseable", n.COffset, i, "at %d: %s", sub, why)
			continue
		}
		if cRemaining < c.Size() {
			w.viol("child-cremaining", n.COffset, i, "CRemaining %d < child size %d", cRemaining, c.Size())
			continue
		}
		c.Parent = idx
		c.Depth = n.Depth + 1
		c.DBias = dr[0]
		c.CBias = n.CBias
		if s := int(n.STag(i)); s < a {
			c.CBias = n.COff(s)
			res.Stats["cbiasing-child"]++
		}
		vs, fatal := localRules(c, len(w.res.Violations) < maxViolations)
		for _, v := range vs {
			w.viol(v.Rule, v.COffset, v.Elem, "%s", v.Detail)
		}
		if fatal {
			continue
		}
		if !n.HasMixBit() {
			pc, pok := n.Codec()
			cc, cok := c.Codec()
			if pok && cok && pc != cc {
				w.viol("child-codec", c.COffset, -1, "parent %x child %x without Mix Bit", pc, cc)
			}
		}
		if c.Version() > n.Version() {
			w.viol("child-version", c.COffset, -1, "%d > %d", c.Version(), n.Version())
		}
		if c.COffMax() > n.COffMax() {
			w.viol("child-coffmax", c.COffset, -1, "%d > %d", c.COffMax(), n.COffMax())
		}
		if c.DPtrMax() != dr.Size() {
			w.viol("child-doffmax", c.COffset, -1, "child DPtrMax %d, parent says %d", c.DPtrMax(), dr.Size())
		}
		// "In order to rule out infinite loops, at least one of these two
		// conditions must hold": child COffset < parent COffset, or child
		// DPtrMax < parent DPtrMax.
		if !(c.COffset < n.COffset || c.DPtrMax() < n.DPtrMax()) {
			w.viol("child-loop", c.COffset, -1, "child at %d (DPtrMax %d) under parent at %d (DPtrMax %d)", c.COffset, c.DPtrMax(), n.COffset, n.DPtrMax())
			continue
		}
		if sub < n.COffset {
			res.Stats["child-before-parent"]++
		}
		w.visit(c)
		if res.Truncated {
			return
		}
	}
}
