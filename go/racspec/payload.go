package racspec

import "strings"

// Seg is one segment of a deterministic test payload (shared by the RAC
// property packages; it has nothing to do with the RAC format itself).
//
//	z: N zero bytes            r: N random bytes (seed S)
//	s: N sparse bytes: zero with probability (S&3 -> 50/75/90/97 %), else random non-zero
//	t: N bytes of text (seed S)     p: N bytes of a repeated pattern (period 1+S%64)
//	l: the literal bytes B
type Seg struct {
	K string `json:"k"`
	N int    `json:"n,omitempty"`
	S uint32 `json:"s,omitempty"`
	B []byte `json:"b,omitempty"`
}

type splitmix struct{ s uint64 }

func (r *splitmix) next() uint64 {
	r.s += 0x9E3779B97F4A7C15
	z := r.s
	z = (z ^ (z >> 30)) * 0xBF58476D1CE4E5B9
	z = (z ^ (z >> 27)) * 0x94D049BB133111EB
	return z ^ (z >> 31)
}

var words = strings.Fields("the of and random access compression chunk index node branch leaf codec zlib offset pointer range file size sheep more one two three error writer reader seek page dictionary shared resource value")

// Materialize expands segments into bytes (a pure function of segs).
func Materialize(segs []Seg) []byte {
	var out []byte
	for _, s := range segs {
		r := &splitmix{uint64(s.S)*0x1234567 + 1}
		n := s.N
		if n < 0 {
			n = 0
		}
		switch s.K {
		case "z":
			out = append(out, make([]byte, n)...)
		case "r":
			for i := 0; i < n; i++ {
				out = append(out, byte(r.next()>>33))
			}
		case "s":
			thr := []uint64{128, 192, 230, 248}[s.S&3]
			for i := 0; i < n; i++ {
				v := r.next()
				if (v>>8)&0xFF < thr {
					out = append(out, 0)
				} else {
					out = append(out, byte(v>>40)|1)
				}
			}
		case "t":
			start := len(out)
			for len(out)-start < n {
				out = append(out, words[r.next()%uint64(len(words))]...)
				out = append(out, ' ')
			}
			out = out[:start+n]
		case "p":
			period := 1 + int(s.S%64)
			pat := make([]byte, period)
			for i := range pat {
				pat[i] = byte(r.next() >> 17)
			}
			for i := 0; i < n; i++ {
				out = append(out, pat[i%period])
			}
		case "l":
			out = append(out, s.B...)
		}
	}
	return out
}
