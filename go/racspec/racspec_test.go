package racspec

import (
	"bytes"
	"compress/zlib"
	"encoding/hex"
	"io"
	"os"
	"path/filepath"
	"regexp"
	"strings"
	"testing"

	"github.com/google/wuffs/lib/rac"
	"github.com/google/wuffs/lib/raczlib"

	"verif/internal/ev"
)

// specExamples extracts the three hexdump examples from rac-spec.md.
func specExamples(t *testing.T) [][]byte {
	b, err := os.ReadFile(filepath.Join(ev.RepoRoot(), "doc/spec/rac-spec.md"))
	if err != nil {
		t.Skipf("spec not found: %v", err)
	}
	re := regexp.MustCompile(`^    [0-9a-f]{8}  (.{49}) \|`)
	var out [][]byte
	var cur []byte
	inExample, done := false, false
	for _, line := range strings.Split(string(b), "\n") {
		if strings.HasPrefix(line, "## Zlib Example") {
			inExample, done = true, false
			continue
		}
		m := re.FindStringSubmatch(line)
		if inExample && !done && m != nil {
			h, err := hex.DecodeString(strings.ReplaceAll(m[1], " ", ""))
			if err != nil {
				t.Fatal(err)
			}
			cur = append(cur, h...)
			continue
		}
		if cur != nil && m == nil {
			out = append(out, cur)
			cur, done = nil, true
		}
	}
	return out
}

func decodeAll(t *testing.T, file []byte, res *Result) []byte {
	var out []byte
	for _, l := range res.Leaves {
		switch l.Codec {
		case 0, 0x80 << 56:
			out = append(out, make([]byte, l.DRange.Size())...)
			continue
		case 1 << 56:
		default:
			t.Fatalf("codec %x", l.Codec)
		}
		dict, err := UnwrapDict(file, l)
		if err != nil {
			t.Fatal(err)
		}
		zr, err := zlib.NewReaderDict(bytes.NewReader(file[l.CPrimary[0]:l.CPrimary[1]]), dict)
		if err != nil {
			t.Fatal(err)
		}
		d, err := io.ReadAll(zr)
		if err != nil {
			t.Fatal(err)
		}
		if int64(len(d)) > l.DRange.Size() {
			t.Fatalf("too long")
		}
		out = append(out, d...)
		out = append(out, make([]byte, l.DRange.Size()-int64(len(d)))...)
	}
	return out
}

func TestSpecExamples(t *testing.T) {
	ex := specExamples(t)
	if len(ex) != 3 {
		t.Fatalf("found %d examples", len(ex))
	}
	want := []string{"More!\n", "One sheep.\nTwo sheep.\nThree sheep.\n", "One sheep.\nTwo sheep.\nThree sheep.\nMore!\n"}
	for i, f := range ex {
		res := Walk(f, int64(len(f)), Options{})
		if !res.Valid() {
			t.Fatalf("example %d invalid: %v", i, res.Violations)
		}
		if got := string(decodeAll(t, f, res)); got != want[i] {
			t.Fatalf("example %d decodes to %q", i, got)
		}
	}
	if r := Walk(ex[0], int64(len(ex[0])), Options{}); !r.RootAtEnd {
		t.Fatal("example 0: root should be at the end")
	}
	if r := Walk(ex[2], int64(len(ex[2])), Options{}); r.Stats["cbiasing-child"] != 2 || r.MaxDepth != 1 {
		t.Fatalf("example 2: stats %v depth %d", r.Stats, r.MaxDepth)
	}
	// any single bit flip inside an index node must be detected.
	for i, f := range ex {
		res := Walk(f, int64(len(f)), Options{})
		for _, n := range res.Nodes {
			for p := n.COffset; p < n.COffset+n.Size(); p++ {
				g := append([]byte(nil), f...)
				g[p] ^= 0x10
				if Walk(g, int64(len(g)), Options{}).Valid() {
					t.Fatalf("example %d: flip at %d undetected", i, p)
				}
			}
		}
	}
}

func zl(s []byte, dict []byte) []byte {
	var b bytes.Buffer
	w, _ := zlib.NewWriterLevelDict(&b, 6, dict)
	w.Write(s)
	w.Close()
	return b.Bytes()
}

func TestBuilder(t *testing.T) {
	dict := []byte(" sheep.\n")
	leaf := func(s string, res int) BElem {
		var d []byte
		if res >= 0 {
			d = dict
		}
		return BElem{Kind: ELeaf, DSize: int64(len(s)), Data: zl([]byte(s), d), Res: res}
	}
	mk := func(variant int) (*BNode, string) {
		inner := &BNode{CodecByte: 1, Elems: []BElem{
			{Kind: EResource, Data: WrapDict(dict), Res: -1},
			leaf("One sheep.\n", 0), leaf("Two sheep.\n", 0), {Kind: ELeaf, DSize: 0, Res: -1}, leaf("Three sheep.\n", 0),
		}}
		more := &BNode{CodecByte: 1, Elems: []BElem{leaf("More!\n", -1), {Kind: ELeaf, DSize: 5, Res: -1, Data: zl(nil, nil)}}}
		zeros := &BNode{CodecByte: 0, Elems: []BElem{{Kind: ELeaf, DSize: 7, Res: -1}}}
		longz := &BNode{CodecByte: 0x80, Elems: []BElem{{Kind: ECodec}, {Kind: ELeaf, DSize: 3, Res: -1}}}
		root := &BNode{CodecByte: 0x41, Elems: []BElem{
			{Kind: EBranch, Child: inner}, {Kind: EBranch, Child: more}, {Kind: EBranch, Child: zeros}, {Kind: EBranch, Child: longz},
		}}
		switch variant {
		case 1:
			root.NodeAtEnd = true
			inner.Region, inner.NodeAtEnd, inner.TightMax = true, true, true
			more.Region = true
			root.Order = []uint32{5, 4, 3, 2, 1, 0, 9, 8, 7}
			inner.Order = []uint32{3, 2, 1, 0}
		case 2:
			inner.Region = true
			more.Region, more.NodeAtEnd = true, true
			root.Gaps = []uint8{3, 0, 7}
			root.Order = []uint32{1, 0}
		}
		return root, "One sheep.\nTwo sheep.\nThree sheep.\nMore!\n\x00\x00\x00\x00\x00" + strings.Repeat("\x00", 10)
	}
	for v := 0; v < 3; v++ {
		root, want := mk(v)
		f, err := Build(root)
		if err != nil {
			t.Fatal(err)
		}
		res := Walk(f, int64(len(f)), Options{})
		if !res.Valid() {
			t.Fatalf("variant %d: invalid: %v", v, res.Violations)
		}
		if got := string(decodeAll(t, f, res)); got != want {
			t.Fatalf("variant %d: decodes to %q", v, got)
		}
		// the library under test agrees (sanity of the builder, not an oracle).
		r := &rac.Reader{ReadSeeker: bytes.NewReader(f), CompressedSize: int64(len(f)), CodecReaders: []rac.CodecReader{&raczlib.CodecReader{}}}
		got, err := io.ReadAll(r)
		if err != nil || string(got) != want {
			t.Fatalf("variant %d: rac.Reader: %q %v", v, got, err)
		}
		if v > 0 && res.Stats["cbiasing-child"] == 0 {
			t.Fatalf("variant %d: no CBiasing child", v)
		}
	}
}

func TestMutationsNeverPanic(t *testing.T) {
	ex := specExamples(t)
	for _, f := range ex {
		res := Walk(f, int64(len(f)), Options{})
		for _, k := range MutationKinds {
			for v := uint64(0); v < 40; v++ {
				m := Mutation{Kind: k, Node: int(v), Elem: int(v * 7), Val: v * 2654435761, Aux: int(v * 3), Aux2: int(v * 5)}
				g, _ := Apply(f, res.Nodes, res.Leaves, m)
				Walk(g, int64(len(g)), Options{})
				Walk(g, int64(len(g))+int64(v), Options{})
				if len(g) > 5 {
					Walk(g[:len(g)-int(v)%5], int64(len(g)), Options{})
				}
			}
		}
	}
}
