package e2

import (
	"fmt"
	"strings"
	"sync"
	"testing"

	"pgregory.net/rapid"

	"verif/internal/ev"
	"verif/wdrv"
	"verif/wgen"
	"verif/winterp"
)

var (
	toolOnce sync.Once
	tool     *wdrv.Tool
	toolErr  error
)

func getTool() (*wdrv.Tool, error) {
	toolOnce.Do(func() { tool, toolErr = wdrv.NewTool() })
	return tool, toolErr
}

// checkC04Units compiles a batch and compares every history's trace with the
// reference interpreter's (monitors off: the trace is what is compared).
func checkC04Units(t interface{ Fatalf(string, ...any) }, cs []Case, ps []*winterp.Program) {
	checkUnits(t, "C04", cs, ps)
}

// protocolStatuses are the statuses the generated prologue answers a deviating call with.
var protocolStatuses = []string{"#base: initialize not called", "#base: disabled by previous error", "#base: interleaved coroutine calls", "#base: bad argument", "#base: bad receiver"}

func checkUnits(t interface{ Fatalf(string, ...any) }, prop string, cs []Case, ps []*winterp.Program) {
	tl, err := getTool()
	if err != nil {
		t.Fatalf("INTERNAL: %v", err)
	}
	var units []wdrv.Unit
	var want [][]string
	var keep []int
	for i, c := range cs {
		// programs whose interpretation trips a C01/C02 monitor have no defined meaning: skipped here
		tr, viols, _, err := wdrv.Interpret(ps[i], c.Histories, true)
		if err != nil {
			ev.Class("interpreter-unsupported")
			continue
		}
		bad := false
		for _, v := range viols {
			if len(v) > 0 {
				bad = true
			}
		}
		if bad {
			ev.Class("skipped-monitor-violation(judged-by-C01/C02)")
			continue
		}
		for _, x := range tr {
			if strings.Contains(x, "X fuel") {
				bad = true // the interpreter ran out of fuel (e.g. a mutant's endless loop): no reference result
			}
		}
		if bad {
			ev.Class("skipped-fuel-exhausted")
			continue
		}
		csrc, err := tl.GenC(c.Pkg, []byte(c.Src))
		if err != nil {
			ev.Fail(prop, "program", c, "the checker accepts the program but wuffs-c gen fails: "+err.Error())
			t.Fatalf(prop+" violated: wuffs-c gen fails on an accepted program: %v\n%s", err, numbered(c.Src))
		}
		units = append(units, wdrv.Unit{Prog: ps[i], CSource: csrc, Histories: c.Histories})
		want = append(want, tr)
		keep = append(keep, i)
	}
	if len(units) == 0 {
		return
	}
	out, crash, err := tl.RunBatch(units, wdrv.SanFlags)
	if err != nil {
		if ce, ok := err.(*wdrv.CompileError); ok {
			// find the unit whose C does not compile
			for k := range units {
				if _, _, e1 := tl.RunBatch(units[k:k+1], wdrv.SanFlags); e1 != nil {
					c := cs[keep[k]]
					ev.Fail(prop, "program", c, "the emitted C is rejected by gcc: "+e1.Error())
					t.Fatalf(prop+" violated: the C emitted for an accepted program does not compile:\n%s\n%s", e1, numbered(c.Src))
				}
			}
			t.Fatalf("INTERNAL: batch does not compile but every unit does: %v", ce)
		}
		t.Fatalf("INTERNAL: %v", err)
	}
	for k := range units {
		c := cs[keep[k]]
		ev.Class("programs-compiled-and-run")
		if crash[k] != "" {
			msg := fmt.Sprintf("the compiled program crashed under ASan/UBSan (the interpreter saw nothing wrong): %s", crash[k])
			ev.Fail(prop, "program", c, msg)
			t.Fatalf(prop+" violated: %s\n%s", msg, numbered(c.Src))
		}
		for hi := range c.Histories {
			got := ""
			if hi < len(out[k]) {
				got = out[k][hi]
			}
			ev.Class("histories-compared")
			if got != want[k][hi] {
				msg := fmt.Sprintf("history %d: the generated C and the reference semantics disagree.\n--- reference interpreter\n%s--- generated C\n%s--- first difference: %s", hi, want[k][hi], got, firstDiff(want[k][hi], got))
				ev.Fail(prop, "program", c, msg)
				t.Fatalf(prop+" violated: %s\n%s", msg, numbered(c.Src))
			}
		}
		steps := 0
		for _, h := range c.Histories {
			steps += len(h.Steps)
		}
		nontrivial := steps >= 3
		if prop == "C08" {
			// non-trivial for C08: the reference predicts at least one protocol status in some history
			nontrivial = false
			for _, tr := range want[k] {
				for _, pst := range protocolStatuses {
					if n := strings.Count(tr, pst); n > 0 {
						ev.ClassN("predicted:"+pst, n)
						nontrivial = true
					}
				}
			}
		}
		if nontrivial {
			ev.Nontrivial(srcHash(c), func() any {
				return map[string]any{"src": c.Src, "mutation": c.Mutation, "first_history": c.Histories[0], "first_trace": want[k][0]}
			})
		}
	}
}

func firstDiff(a, b string) string {
	la, lb := strings.Split(a, "\n"), strings.Split(b, "\n")
	for i := 0; i < len(la) || i < len(lb); i++ {
		x, y := "", ""
		if i < len(la) {
			x = la[i]
		}
		if i < len(lb) {
			y = lb[i]
		}
		if x != y {
			return fmt.Sprintf("line %d: reference %q, C %q", i+1, x, y)
		}
	}
	return "none"
}

func TestPropC04(t *testing.T) {
	opt := &wgen.Options{Exclude: knownExcluders()}
	batch := ev.EnvInt("VERIF_E2_BATCH", 16)
	rapid.Check(t, func(t *rapid.T) {
		var cs []Case
		var ps []*winterp.Program
		for i := 0; i < batch; i++ {
			ev.Eval()
			c, p, ok := genCase(t, opt, 5)
			if !ok {
				continue
			}
			c.Pkg = fmt.Sprintf("p%d", i)
			p2, err := winterp.Load(c.Pkg, []byte(c.Src))
			if err != nil {
				continue
			}
			_ = p
			cs, ps = append(cs, c), append(ps, p2)
		}
		checkC04Units(t, cs, ps)
	})
	for k, v := range opt.Excluded {
		for i := 0; i < v; i++ {
			ev.Excluded(k)
		}
	}
}
