package e2

import (
	"fmt"
	"strings"
	"testing"

	"pgregory.net/rapid"

	"verif/internal/ev"
	"verif/wdrv"
	"verif/wgen"
	"verif/winterp"
)

// finalState extracts what C05 compares from one history trace whose last
// step is a coroutine run: final status, consumed source bytes, output bytes
// and the getters line.
func finalState(tr string) (status, ri, out, getters string, suspensions int) {
	for _, l := range strings.Split(tr, "\n") {
		switch {
		case strings.HasPrefix(l, "R "):
			// R foo.run k: "status" ri=N wi=M
			q1 := strings.Index(l, "\"")
			q2 := strings.LastIndex(l, "\"")
			if q1 >= 0 && q2 > q1 {
				status = l[q1+1 : q2]
				rest := strings.Fields(l[q2+1:])
				if len(rest) > 0 {
					ri = rest[0]
				}
				if strings.HasPrefix(status, "$") {
					suspensions++
				}
			}
		case strings.HasPrefix(l, "O "):
			out = l
		case strings.HasPrefix(l, "G"):
			getters = l
		}
	}
	return
}

// TestPropC05Gen is the generated-program half of C05: coroutines from the
// availability-oblivious subset of wgen, compiled by the tree's wuffs-c, are
// run once with everything available and again under drawn partitions of the
// source and of the destination capacity (same compiled code); output bytes,
// final status, observable state and - unless the final status is an error -
// consumed bytes must agree.
func TestPropC05Gen(t *testing.T) {
	opt := &wgen.Options{Exclude: knownExcluders(), ChunkOblivious: true}
	batch := ev.EnvInt("VERIF_E2_BATCH", 16)
	tl, err := getTool()
	if err != nil {
		t.Fatalf("INTERNAL: %v", err)
	}
	plans := [][2][]int{{{1}, nil}, {nil, {1}}, {{1}, {1}}, {{2}, {3, 1}}, {{3, 1}, {2}}, {{1, 0, 2}, {0, 1}}, {{7}, {5}}}
	rapid.Check(t, func(t *rapid.T) {
		var units []wdrv.Unit
		var cases []Case
		for i := 0; i < batch; i++ {
			ev.Class("programs-drawn")
			pr := wgen.Gen(t, fmt.Sprintf("q%d", i), opt)
			p, err := winterp.Load(pr.Pkg, []byte(pr.Src))
			if err != nil {
				ev.Class("rejected-by-checker")
				continue
			}
			// one source per program, every partition of it is a history
			hs := genHistories(t, p, 3)
			var run *wdrv.Step
			for _, h := range hs {
				for k := range h.Steps {
					if h.Steps[k].Op == "run" && len(h.Steps[k].Src) > 0 {
						run = &h.Steps[k]
					}
				}
			}
			if run == nil {
				ev.Class("no-coroutine-run-drawn")
				continue
			}
			base := *run
			base.SrcPlan, base.DstPlan, base.MaxCalls, base.Close = nil, nil, 0, true
			if base.DstCap < 8 {
				base.DstCap = 40
			}
			var all []wdrv.History
			all = append(all, wdrv.History{Steps: []wdrv.Step{{Op: "init"}, base}})
			for _, pl := range plans {
				v := base
				v.SrcPlan, v.DstPlan = pl[0], pl[1]
				all = append(all, wdrv.History{Steps: []wdrv.Step{{Op: "init"}, v}})
			}
			// every single split point of the source
			for s := 1; s < len(base.Src) && s <= 24; s++ {
				v := base
				v.SrcPlan = []int{s, len(base.Src)}
				all = append(all, wdrv.History{Steps: []wdrv.Step{{Op: "init"}, v}})
			}
			csrc, err := tl.GenC(pr.Pkg, []byte(pr.Src))
			if err != nil {
				continue
			}
			units = append(units, wdrv.Unit{Prog: p, CSource: csrc, Histories: all})
			cases = append(cases, Case{Pkg: pr.Pkg, Src: pr.Src, Histories: all})
		}
		checkC05Units(t, tl, units, cases)
	})
}

func checkC05Units(t interface{ Fatalf(string, ...any) }, tl *wdrv.Tool, units []wdrv.Unit, cases []Case) {
	if len(units) == 0 {
		return
	}
	out, crash, err := tl.RunBatch(units, wdrv.SanFlags)
	if err != nil {
		ev.Class("batch-not-compiled(C04/C11's business)")
		return
	}
	for k := range units {
		c := cases[k]
		if crash[k] != "" || len(out[k]) != len(c.Histories) {
			ev.Class("crashed(C04's business)")
			continue
		}
		s0, ri0, o0, g0, _ := finalState(out[k][0])
		for hi := 1; hi < len(out[k]); hi++ {
			ev.Class("partitions-compared")
			ev.Eval() // one evaluation = one partition of the streams compared with the one-shot run
			s, ri, o, g, nsusp := finalState(out[k][hi])
			diff := ""
			switch {
			case s != s0:
				diff = fmt.Sprintf("final status %q vs one-shot %q", s, s0)
			case o != o0:
				diff = fmt.Sprintf("output %q vs one-shot %q", o, o0)
			case g != g0:
				diff = fmt.Sprintf("observable state %q vs one-shot %q", g, g0)
			case !strings.HasPrefix(s0, "#") && ri != ri0:
				diff = fmt.Sprintf("consumed %s vs one-shot %s", ri, ri0)
			}
			if diff != "" {
				one := Case{Pkg: c.Pkg, Src: c.Src, Histories: []wdrv.History{c.Histories[0], c.Histories[hi]}}
				msg := fmt.Sprintf("the result of a generated coroutine depends on how its streams are split (%+v / %+v): %s\n--- one-shot\n%s--- split\n%s",
					c.Histories[hi].Steps[1].SrcPlan, c.Histories[hi].Steps[1].DstPlan, diff, out[k][0], out[k][hi])
				ev.Fail("C05", "gen-program", one, msg)
				t.Fatalf("C05 violated: %s\n%s", msg, numbered(c.Src))
			}
			if nsusp > 0 {
				ev.Nontrivial(ev.Hash(c.Src, fmt.Sprint(c.Histories[hi].Steps[1].SrcPlan, c.Histories[hi].Steps[1].DstPlan)), func() any {
					return map[string]any{"src": c.Src, "split": c.Histories[hi].Steps[1], "suspensions": nsusp}
				})
			}
		}
	}
}
