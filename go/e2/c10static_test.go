package e2

import (
	"fmt"
	"strings"
	"testing"

	"pgregory.net/rapid"

	"verif/hermetic"
	"verif/internal/ev"
	"verif/wgen"
)

// TestPropC10Static is the generated-program half of C10's static clause: every
// accepted generated package is translated by the tree's wuffs-c, compiled
// alone, and its object inspected: no writable data, no foreign undefined
// symbols (mem*, calloc/free from alloc only, the base package's symbols),
// exported functions = exactly the pub methods and their helpers.
func TestPropC10Static(t *testing.T) {
	opt := &wgen.Options{Exclude: knownExcluders()}
	tl, err := getTool()
	if err != nil {
		t.Fatalf("INTERNAL: %v", err)
	}
	rapid.Check(t, func(t *rapid.T) {
		ev.Eval()
		c, _, ok := genCase(t, opt, 0)
		if !ok {
			return
		}
		csrc, err := tl.GenC(c.Pkg, []byte(c.Src))
		if err != nil {
			ev.Class("wuffs-c-failed(C04/C11's business)")
			return
		}
		obj, cleanup, err := tl.CompileAlone(c.Pkg, csrc)
		if err != nil {
			ev.Class("gcc-rejected(C04/C11's business)")
			return
		}
		defer cleanup()
		info := hermetic.ScanText(c.Pkg, c.Src)
		msgs, stats := hermetic.Inspect(obj, map[string]*hermetic.PkgInfo{c.Pkg: info}, true)
		for k, v := range stats {
			ev.ClassN("static-"+k, v)
		}
		if len(msgs) > 0 {
			m := strings.Join(msgs, "\n  ")
			ev.Fail("C10", "gen-static", c, m)
			t.Fatalf("C10 violated (object compiled from a generated package):\n  %s\n%s", m, numbered(c.Src))
		}
		if info.NPub >= 1 && info.NPri >= 1 {
			ev.Nontrivial(srcHash(c), func() any {
				return map[string]any{"pub_funcs": info.NPub, "pri_funcs": info.NPri, "consts": info.NConst, "expected_exports": len(info.Expected), "src": c.Src}
			})
		}
	})
}

var _ = fmt.Sprint
