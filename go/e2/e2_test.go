// Package e2 holds the generated-program campaigns of engine E2:
//
//	C01  accepted programs never go out of bounds / overflow  (interpreter monitors + sanitizers)
//	C02  every compile-time fact, assert and invariant is true at run time (hook + monitors; axioms)
//	C04  generated C computes what the Wuffs source means (trace differential)
//
// One generator feeds all three; each property has its own Test function so
// that its own monitor decides the exit code.
package e2

import (
	"encoding/json"
	"fmt"
	"os"
	"regexp"
	"strconv"
	"strings"
	"sync"
	"testing"

	"pgregory.net/rapid"

	"verif/internal/ev"
	"verif/wdrv"
	"verif/wgen"
	"verif/winterp"
)

func TestMain(m *testing.M) { ev.Main(m) }

// Case is a replayable (program, histories) pair.
type Case struct {
	Pkg       string         `json:"pkg"`
	Src       string         `json:"src"`
	Histories []wdrv.History `json:"histories"`
	Mutation  string         `json:"mutation,omitempty"`
}

// knownExcluders are the generator restrictions in force while the
// corresponding KNOWN_FINDINGS entry has status "known".
func knownExcluders() map[string]bool {
	m := map[string]bool{}
	for _, k := range strings.Split(os.Getenv("VERIF_E2_EXCLUDE"), ",") {
		if k != "" {
			m[k] = true
		}
	}
	return m
}

var argPool = []uint64{0, 1, 2, 3, 7, 8, 15, 16, 31, 32, 63, 64, 127, 128, 255, 256, 257, 1000, 4095, 4096, 65535, 65536, 0x7FFFFFFF, 0x80000000, 0xFFFFFFFE, 0xFFFFFFFF}

func genArg(t *rapid.T, label string, ctype string) uint64 {
	var max uint64
	switch ctype {
	case "uint8_t":
		max = 0xFF
	case "uint16_t":
		max = 0xFFFF
	case "uint32_t":
		max = 0xFFFFFFFF
	default:
		max = ^uint64(0)
	}
	var v uint64
	if rapid.IntRange(0, 2).Draw(t, label+"_pool") > 0 {
		v = argPool[rapid.IntRange(0, len(argPool)-1).Draw(t, label+"_pi")]
	} else {
		v = rapid.Uint64().Draw(t, label+"_v")
	}
	if v > max {
		v &= max
	}
	return v
}

func genHistories(t *rapid.T, p *winterp.Program, n int) []wdrv.History {
	sigs := wdrv.Sigs(p)
	var calls, coros []wdrv.Sig
	for _, f := range p.PublicFuncs() {
		s := sigs[p.FuncName(f)]
		switch {
		case s.Coroutine:
			coros = append(coros, s)
		case !s.Pure:
			calls = append(calls, s)
		}
	}
	var hs []wdrv.History
	for hi := 0; hi < n; hi++ {
		var h wdrv.History
		lab := fmt.Sprintf("h%d", hi)
		if rapid.IntRange(0, 11).Draw(t, lab+"_init") > 0 {
			h.Steps = append(h.Steps, wdrv.Step{Op: "init"})
		}
		ns := rapid.IntRange(1, 5).Draw(t, lab+"_n")
		for si := 0; si < ns; si++ {
			l := fmt.Sprintf("%s_s%d", lab, si)
			k := rapid.IntRange(0, 9).Draw(t, l+"_kind")
			switch {
			case k == 0:
				h.Steps = append(h.Steps, wdrv.Step{Op: "init"})
			case k <= 4 && len(calls) > 0:
				s := calls[rapid.IntRange(0, len(calls)-1).Draw(t, l+"_f")]
				st := wdrv.Step{Op: "call", Func: s.Name}
				for ai, at := range s.ArgTypes {
					st.Args = append(st.Args, genArg(t, fmt.Sprintf("%s_a%d", l, ai), at))
				}
				h.Steps = append(h.Steps, st)
			case len(coros) > 0:
				s := coros[rapid.IntRange(0, len(coros)-1).Draw(t, l+"_c")]
				st := wdrv.Step{Op: "run", Func: s.Name, Close: rapid.IntRange(0, 4).Draw(t, l+"_close") > 0}
				nb := rapid.IntRange(0, 10).Draw(t, l+"_nops")
				for i := 0; i < nb; i++ {
					op := rapid.SampledFrom([]byte{0, 1, 1, 2, 2, 3, 3, 4, 5, 6, 7, 0xFF, 9}).Draw(t, fmt.Sprintf("%s_op%d", l, i))
					st.Src = append(st.Src, op)
					st.Src = append(st.Src, rapid.SliceOfN(rapid.Byte(), 0, 9).Draw(t, fmt.Sprintf("%s_ob%d", l, i))...)
				}
				if rapid.IntRange(0, 2).Draw(t, l+"_term") > 0 {
					st.Src = append(st.Src, 0)
				}
				if len(st.Src) > 48 {
					st.Src = st.Src[:48]
				}
				st.SrcPlan = rapid.SampledFrom([][]int{nil, {1}, {2}, {3, 1}, {1, 0, 2}, {7}, {0, 1}}).Draw(t, l+"_sp")
				st.DstCap = rapid.SampledFrom([]int{0, 1, 2, 8, 40, 64}).Draw(t, l+"_dc")
				st.DstPlan = rapid.SampledFrom([][]int{nil, {1}, {2, 1}, {0, 3}}).Draw(t, l+"_dp")
				if rapid.IntRange(0, 7).Draw(t, l+"_leave") == 0 {
					st.MaxCalls = rapid.IntRange(1, 3).Draw(t, l+"_mc")
				}
				h.Steps = append(h.Steps, st)
			}
		}
		hs = append(hs, h)
	}
	return hs
}

// genCase draws a program the tree's checker accepts (possibly a near-miss
// mutant of one) together with histories. ok is false when the checker
// rejected the draw (counted, not judged).
func genCase(t *rapid.T, opt *wgen.Options, nhist int) (c Case, p *winterp.Program, ok bool) {
	pr := wgen.Gen(t, "foo", opt)
	c = Case{Pkg: pr.Pkg, Src: pr.Src}
	if rapid.IntRange(0, 2).Draw(t, "mutate") == 0 {
		n := rapid.IntRange(1, 2).Draw(t, "nmut")
		for i := 0; i < n; i++ {
			var name string
			c.Src, name = wgen.Mutate(t, c.Src, fmt.Sprintf("mut%d", i))
			c.Mutation += name + " "
		}
	}
	p, err := winterp.Load(c.Pkg, []byte(c.Src))
	if err != nil {
		cls := "rejected-by-checker"
		if strings.HasPrefix(err.Error(), "parse") || strings.HasPrefix(err.Error(), "tokenize") {
			cls = "rejected-by-parser"
		} else if strings.HasPrefix(err.Error(), "panic") {
			cls = "toolchain-panic(C11)"
		}
		if c.Mutation != "" {
			cls += "-mutant"
		} else {
			// an unmutated draw that the tree rejects is the generator's inaccuracy: keep the reasons visible
			msg := err.Error()
			if i := strings.Index(msg, " at "); i > 0 {
				msg = msg[:i]
			}
			if len(msg) > 160 {
				msg = msg[:160]
			}
			ev.Note("unmutated draw rejected: " + rejectShape(msg))
			if os.Getenv("VERIF_E2_DEBUG") != "" {
				line := ""
				if m := regexp.MustCompile(`wuffs:([0-9]+)`).FindStringSubmatch(err.Error()); m != nil {
					n, _ := strconv.Atoi(m[1])
					if ls := strings.Split(c.Src, "\n"); n >= 1 && n <= len(ls) {
						for k := max(0, n-3); k < n; k++ {
							line += strings.TrimSpace(ls[k]) + " ## "
						}
					}
				}
				fmt.Fprintf(os.Stderr, "REJECT %.120v | %s\n", err, line)
			}
		}
		ev.Class(cls)
		return c, nil, false
	}
	if c.Mutation != "" {
		ev.Class("accepted-mutant")
	} else {
		ev.Class("accepted-program")
	}
	for _, sh := range [][2]string{{"iterate (", "iterate"}, {"} else (length:", "iterate-else"}, {"io_bind (", "io_bind"}, {"foo.drain?", "two-public-coroutines"},
		{"inv ", "loop-invariant"}, {"_fast!(", "fast-io"}, {"w: base.u32", "coroutine-with-argument"}, {"pub func foo.set_f", "refined-setter"},
		{"while.lab", "labelled-loop-deep-break"}, {"}}.lab", "double-curly-block"}, {"pri const K", "named-scalar-const"}, {"<< (", "variable-shift"}, {"io_limit (", "io_limit"}, {"foo.hio!", "two-stream-helper"}, {" .. ", "slice-window"}, {"continue\n", "continue"}} {
		if strings.Contains(c.Src, sh[0]) {
			ev.Class("shape:" + sh[1])
		}
	}
	c.Histories = genHistories(t, p, nhist)
	return c, p, true
}

var rejectDigits = regexp.MustCompile(`[0-9]+`)

// rejectShape abstracts numbers so that the same kind of rejection is noted once.
func rejectShape(msg string) string { return rejectDigits.ReplaceAllString(msg, "N") }

func srcHash(c Case) uint64 { return ev.Hash(c.Src) }

// monitorCheck runs the histories under the monitors and reports the first
// violation of the given property.
func monitorCheck(prop string, c Case, p *winterp.Program) (msg string, nontrivial bool, classes []string) {
	_, viols, stats, err := wdrv.Interpret(p, c.Histories, true, prop)
	if err != nil {
		return "", false, []string{"interpreter-unsupported:" + firstWords(err.Error(), 4)}
	}
	var total winterp.Stats
	for _, s := range stats {
		total.Index += s.Index
		total.Slice += s.Slice
		total.Arith += s.Arith
		total.Assign += s.Assign
		total.MBounds += s.MBounds
		total.Facts += s.Facts
		total.FactsNonConst += s.FactsNonConst
		total.Asserts += s.Asserts
		total.Invs += s.Invs
		total.Suspensions += s.Suspensions
	}
	ev.ClassN("obligation-index", total.Index+total.Slice)
	ev.ClassN("obligation-arith", total.Arith)
	ev.ClassN("obligation-store", total.Assign)
	ev.ClassN("obligation-compiler-bounds", total.MBounds)
	ev.ClassN("facts-evaluated", total.Facts)
	ev.ClassN("suspensions", total.Suspensions)
	other := ""
	for hi, vs := range viols {
		for _, v := range vs {
			if v.Prop == prop {
				return fmt.Sprintf("history %d: %s", hi, v), false, nil
			}
			other = v.Prop
		}
	}
	if other != "" {
		classes = append(classes, "violation-of-"+other+"-seen(judged-by-its-own-check)")
	}
	if prop == "C01" {
		nontrivial = total.Index+total.Slice+total.Arith+total.Assign > 0
	} else if prop == "C10" {
		nontrivial = len(p.Getters()) > 0 && total.Assign > 0
	} else {
		nontrivial = total.FactsNonConst > 0
	}
	return "", nontrivial, classes
}

func firstWords(s string, n int) string {
	f := strings.Fields(s)
	if len(f) > n {
		f = f[:n]
	}
	return strings.Join(f, " ")
}

func runMonitorProp(t *testing.T, prop, kind string) {
	opt := &wgen.Options{Exclude: knownExcluders()}
	var mu sync.Mutex
	rapid.Check(t, func(t *rapid.T) {
		mu.Lock()
		defer mu.Unlock()
		ev.Eval()
		c, p, ok := genCase(t, opt, 6)
		if !ok {
			return
		}
		checkMonitorCase(t, prop, kind, c, p)
	})
	for k, v := range opt.Excluded {
		for i := 0; i < v; i++ {
			ev.Excluded(k)
		}
	}
}

func checkMonitorCase(t interface{ Fatalf(string, ...any) }, prop, kind string, c Case, p *winterp.Program) {
	msg, nt, classes := monitorCheck(prop, c, p)
	if msg != "" {
		full := fmt.Sprintf("the checker accepts this program%s, but %s", mutNote(c), msg)
		ev.Fail(prop, kind, c, full)
		t.Fatalf("%s violated: %s\n%s", prop, full, numbered(c.Src))
	}
	for _, cl := range classes {
		ev.Class(cl)
	}
	if nt {
		ev.Nontrivial(srcHash(c), func() any {
			return map[string]any{"src": c.Src, "mutation": c.Mutation, "histories": len(c.Histories)}
		})
	}
}

func mutNote(c Case) string {
	if c.Mutation != "" {
		return " (a near-miss mutant: " + strings.TrimSpace(c.Mutation) + ")"
	}
	return ""
}

func numbered(src string) string {
	var sb strings.Builder
	for i, l := range strings.Split(src, "\n") {
		fmt.Fprintf(&sb, "%4d  %s\n", i+1, l)
	}
	return sb.String()
}

func TestPropC01(t *testing.T) { runMonitorProp(t, "C01", "program") }
func TestPropC02(t *testing.T) { runMonitorProp(t, "C02", "program") }

// TestPropC10 is the generated-program half of C10's dynamic clause: calling a
// method declared pure (every public getter is called after every step of
// every history) leaves the receiver unchanged.
func TestPropC10(t *testing.T) { runMonitorProp(t, "C10", "program") }

func TestReplay(t *testing.T) {
	path := ev.ReplayPath()
	if path == "" {
		t.Skip("no VERIF_REPLAY")
	}
	r, err := ev.LoadReplay(path)
	if err != nil {
		t.Fatal(err)
	}
	if r.Kind == "axioms" {
		var ac AxiomCase
		json.Unmarshal(r.Case, &ac)
		if ac.Axiom == "<listing>" {
			TestAxioms(t)
		} else {
			checkAxiom(t, ac.Axiom, false)
		}
		return
	}
	var c Case
	if err := json.Unmarshal(r.Case, &c); err != nil {
		t.Fatal(err)
	}
	p, err := winterp.Load(c.Pkg, []byte(c.Src))
	if err != nil {
		// the tree's checker now rejects the program: the property holds for it
		t.Logf("rejected at compile time: %v", err)
		return
	}
	switch r.Property {
	case "C01", "C02", "C10":
		checkMonitorCase(t, r.Property, r.Kind, c, p)
	case "C04":
		checkC04Units(t, []Case{c}, []*winterp.Program{p})
	case "C08":
		checkUnits(t, "C08", []Case{c}, []*winterp.Program{p})
	case "C05":
		tl, err := getTool()
		if err != nil {
			t.Fatalf("INTERNAL: %v", err)
		}
		csrc, err := tl.GenC(c.Pkg, []byte(c.Src))
		if err != nil {
			t.Fatalf("wuffs-c gen: %v", err)
		}
		checkC05Units(t, tl, []wdrv.Unit{{Prog: p, CSource: csrc, Histories: c.Histories}}, []Case{c})
	}
}
