package e2

import (
	"fmt"
	"math/big"
	"os"
	"path/filepath"
	"regexp"
	"sort"
	"strings"
	"testing"

	"verif/internal/ev"
	"verif/wdrv"
	"verif/winterp"
)

// AxiomCase is the replayable form of an axiom check.
type AxiomCase struct {
	Axiom string `json:"axiom"`
}

var (
	mdAxiomRE   = regexp.MustCompile("(?m)^- `\"([^\"]+)\"`")
	dataAxiomRE = regexp.MustCompile("(?m)^\\t\\{`\"([^\"]+)\"`,")
)

// ---- a 40-line parser/evaluator for the axiom grammar:
//   axiom := cmp ':' cmp (';' cmp)*     cmp := sum OP sum     sum := atom (('+'|'-') atom)*     atom := ident | number | '(' sum ')'

type axNode struct {
	op   string // "", "+", "-" for sums; identifier or number in name
	name string
	l, r *axNode
}

type axParser struct {
	toks []string
	pos  int
}

func axTokens(s string) []string {
	return regexp.MustCompile(`[a-z][a-z0-9]*|[0-9]+|<=|>=|==|<>|[<>+\-():;]`).FindAllString(s, -1)
}

func (p *axParser) peek() string {
	if p.pos < len(p.toks) {
		return p.toks[p.pos]
	}
	return ""
}

func (p *axParser) atom() *axNode {
	tk := p.peek()
	p.pos++
	if tk == "(" {
		n := p.sum()
		p.pos++ // ")"
		return n
	}
	return &axNode{name: tk}
}

func (p *axParser) sum() *axNode {
	n := p.atom()
	for p.peek() == "+" || p.peek() == "-" {
		op := p.peek()
		p.pos++
		n = &axNode{op: op, l: n, r: p.atom()}
	}
	return n
}

type axCmp struct {
	op   string
	l, r *axNode
}

func (p *axParser) cmp() axCmp {
	l := p.sum()
	op := p.peek()
	p.pos++
	return axCmp{op, l, p.sum()}
}

func parseAxiom(s string) (concl axCmp, prem []axCmp) {
	p := &axParser{toks: axTokens(s)}
	concl = p.cmp()
	p.pos++ // ":"
	for p.pos < len(p.toks) {
		prem = append(prem, p.cmp())
		if p.peek() == ";" {
			p.pos++
		}
	}
	return
}

func (n *axNode) eval(env map[string]*big.Int) *big.Int {
	if n.op == "" {
		if v, ok := env[n.name]; ok {
			return v
		}
		v, _ := new(big.Int).SetString(n.name, 10)
		return v
	}
	if n.op == "+" {
		return new(big.Int).Add(n.l.eval(env), n.r.eval(env))
	}
	return new(big.Int).Sub(n.l.eval(env), n.r.eval(env))
}

func (c axCmp) holds(env map[string]*big.Int) bool {
	k := c.l.eval(env).Cmp(c.r.eval(env))
	switch c.op {
	case "<":
		return k < 0
	case "<=":
		return k <= 0
	case ">":
		return k > 0
	case ">=":
		return k >= 0
	case "==":
		return k == 0
	case "<>":
		return k != 0
	}
	panic("bad op " + c.op)
}

func (n *axNode) vars(m map[string]bool) {
	if n.op == "" {
		if n.name[0] >= 'a' && n.name[0] <= 'z' {
			m[n.name] = true
		}
		return
	}
	n.l.vars(m)
	n.r.vars(m)
}

func (n *axNode) text(sub map[string]string) string {
	if n.op == "" {
		if s, ok := sub[n.name]; ok {
			return s
		}
		return n.name
	}
	return "(" + n.l.text(sub) + " " + n.op + " " + n.r.text(sub) + ")"
}

func (c axCmp) text(sub map[string]string) string {
	return c.l.text(sub) + " " + c.op + " " + c.r.text(sub)
}

func hasSub(n *axNode, out *[]*axNode) {
	if n.op == "" {
		return
	}
	if n.op == "-" {
		*out = append(*out, n)
	}
	hasSub(n.l, out)
	hasSub(n.r, out)
}

// TestAxioms checks (1) that axioms.md and the generated table in data.go
// list the same axioms, (2) that every axiom is a theorem over the integers,
// (3) that the checker's implementation of each axiom only proves true things:
// a generated program applies the axiom to run-time values and the
// interpreter's monitor evaluates the asserted conclusion on thousands of
// argument values.
func TestAxioms(t *testing.T) {
	repo := ev.RepoRoot()
	md, err := os.ReadFile(filepath.Join(repo, "lang", "check", "axioms.md"))
	if err != nil {
		t.Fatal(err)
	}
	data, err := os.ReadFile(filepath.Join(repo, "lang", "check", "data.go"))
	if err != nil {
		t.Fatal(err)
	}
	var mdList, dataList []string
	for _, m := range mdAxiomRE.FindAllStringSubmatch(string(md), -1) {
		mdList = append(mdList, m[1])
	}
	for _, m := range dataAxiomRE.FindAllStringSubmatch(string(data), -1) {
		dataList = append(dataList, m[1])
	}
	a, b := append([]string{}, mdList...), append([]string{}, dataList...)
	sort.Strings(a)
	sort.Strings(b)
	if strings.Join(a, "|") != strings.Join(b, "|") || len(a) == 0 {
		msg := fmt.Sprintf("the axiom listing (axioms.md, %d axioms) and the checker's table (data.go, %d axioms) differ", len(a), len(b))
		ev.Fail("C02", "axioms", AxiomCase{"<listing>"}, msg)
		t.Fatalf("C02 violated: %s", msg)
	}
	deep := os.Getenv("VERIF_AXIOM_DEEP") != ""
	for _, ax := range dataList {
		checkAxiom(t, ax, deep)
	}
}

func checkAxiom(t interface{ Fatalf(string, ...any) }, ax string, deep bool) {
	ev.Eval()
	concl, prem := parseAxiom(ax)
	vs := map[string]bool{}
	concl.l.vars(vs)
	concl.r.vars(vs)
	for _, p := range prem {
		p.l.vars(vs)
		p.r.vars(vs)
	}
	var names []string
	for v := range vs {
		names = append(names, v)
	}
	sort.Strings(names)
	// (2a) exhaustive over [-6, 6]^k
	env := map[string]*big.Int{}
	idx := make([]int, len(names))
	total := 0
	for {
		for i, n := range names {
			env[n] = big.NewInt(int64(idx[i] - 6))
		}
		total++
		ok := true
		for _, p := range prem {
			if !p.holds(env) {
				ok = false
				break
			}
		}
		if ok && !concl.holds(env) {
			msg := fmt.Sprintf("axiom %q is not a theorem over the integers: counterexample %v", ax, env)
			ev.Fail("C02", "axioms", AxiomCase{ax}, msg)
			t.Fatalf("C02 violated: %s", msg)
		}
		k := 0
		for k < len(idx) {
			idx[k]++
			if idx[k] <= 12 {
				break
			}
			idx[k] = 0
			k++
		}
		if k == len(idx) {
			break
		}
	}
	ev.ClassN("axiom-assignments-exhaustive", total)
	// (2b) large values: a deterministic LCG over 200-bit integers near each other
	x := uint64(0x9E3779B97F4A7C15)
	nrand := 4000
	if deep {
		nrand = 200000
	}
	for i := 0; i < nrand; i++ {
		base := new(big.Int)
		for w := 0; w < 4; w++ {
			x = x*6364136223846793005 + 1442695040888963407
			base.Lsh(base, 50).Add(base, new(big.Int).SetUint64(x>>14))
		}
		for _, n := range names {
			x = x*6364136223846793005 + 1442695040888963407
			d := int64(x>>40)%9 - 4
			env[n] = new(big.Int).Add(base, big.NewInt(d))
			if (x>>33)&7 == 0 {
				env[n].Neg(env[n])
			}
			if (x>>36)&7 == 0 {
				env[n] = big.NewInt(d)
			}
		}
		ok := true
		for _, p := range prem {
			if !p.holds(env) {
				ok = false
				break
			}
		}
		if ok {
			ev.Class("axiom-large-premises-hold")
			if !concl.holds(env) {
				msg := fmt.Sprintf("axiom %q is not a theorem over the integers: counterexample %v", ax, env)
				ev.Fail("C02", "axioms", AxiomCase{ax}, msg)
				t.Fatalf("C02 violated: %s", msg)
			}
		}
	}
	// (3) the checker's implementation, exercised on run-time values
	sub := map[string]string{"a": "x", "b": "y", "c": "z", "b0": "u", "c0": "w"}
	inConcl := map[string]bool{}
	concl.l.vars(inConcl)
	concl.r.vars(inConcl)
	var viaArgs []string
	for _, n := range names {
		if !inConcl[n] {
			viaArgs = append(viaArgs, fmt.Sprintf("%s: %s", n, sub[n]))
		}
	}
	var guards []string
	var subs []*axNode
	for _, c := range append([]axCmp{concl}, prem...) {
		hasSub(c.l, &subs)
		hasSub(c.r, &subs)
	}
	for _, s := range subs {
		guards = append(guards, fmt.Sprintf("%s >= %s", s.l.text(sub), s.r.text(sub)))
	}
	for _, p := range prem {
		guards = append(guards, p.text(sub))
	}
	var sb strings.Builder
	sb.WriteString("pub struct foo?(\n    f0 : base.u32,\n)\n\npub func foo.get_f0() base.u32 {\n    return this.f0\n}\n\n")
	sb.WriteString("pub func foo.step_0!(a: base.u32, b: base.u8) base.u32 {\n    var x : base.u32\n    var y : base.u32\n    var z : base.u32\n    var u : base.u32\n    var w : base.u32\n    var r : base.u32\n")
	sb.WriteString("    x = args.a & 0x3F\n    y = (args.a >> 6) & 0x3F\n    z = (args.a >> 12) & 0x3F\n    u = (args.a >> 18) & 0x3F\n    w = (args.b & 0x3F) as base.u32\n")
	ind := "    "
	for _, g := range guards {
		sb.WriteString(ind + "if " + g + " {\n")
		ind += "    "
	}
	sb.WriteString(fmt.Sprintf("%sassert %s via \"%s\"(%s)\n%sr = 1\n", ind, concl.text(sub), ax, strings.Join(viaArgs, ", "), ind))
	for range guards {
		ind = ind[4:]
		sb.WriteString(ind + "}\n")
	}
	sb.WriteString("    this.f0 = r\n    return r\n}\n")
	src := sb.String()
	p, err := winterp.Load("foo", []byte(src))
	if err != nil {
		ev.Class("axiom-program-rejected")
		ev.Note(fmt.Sprintf("axiom %q: the probe program was rejected (%v); the checker's implementation of this axiom is not exercised at run time", ax, firstWords(err.Error(), 12)))
		return
	}
	var hs []wdrv.History
	y := uint64(12345)
	nh := 400
	if deep {
		nh = 4000
	}
	for i := 0; i < nh; i++ {
		h := wdrv.History{Steps: []wdrv.Step{{Op: "init"}}}
		for k := 0; k < 8; k++ {
			y = y*6364136223846793005 + 1442695040888963407
			h.Steps = append(h.Steps, wdrv.Step{Op: "call", Func: "foo.step_0", Args: []uint64{(y >> 20) & 0xFFFFFFFF, (y >> 8) & 0xFF}})
		}
		hs = append(hs, h)
	}
	tr, viols, stats, err := wdrv.Interpret(p, hs, true)
	if err != nil {
		ev.Class("axiom-program-unsupported")
		return
	}
	reached := 0
	for i, vs := range viols {
		reached += stats[i].Asserts
		for _, v := range vs {
			if v.Prop == "C02" {
				msg := fmt.Sprintf("the checker's implementation of axiom %q proved a false assertion: %s\n%s", ax, v, numbered(src))
				ev.Fail("C02", "axioms", AxiomCase{ax}, msg)
				t.Fatalf("C02 violated: %s", msg)
			}
		}
	}
	_ = tr
	ev.ClassN("axiom-asserts-evaluated-at-run-time", reached)
	if reached > 0 {
		ev.Nontrivial(ev.Hash("axiom", ax), func() any { return map[string]any{"axiom": ax, "asserts_evaluated": reached, "probe": src} })
	}
}
