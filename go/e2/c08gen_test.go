package e2

import (
	"fmt"
	"testing"

	"pgregory.net/rapid"

	"verif/internal/ev"
	"verif/wdrv"
	"verif/wgen"
	"verif/winterp"
)

// genProtocolHistories draws call histories that deviate from the documented
// calling protocol on purpose: calls before initialize, re-initialisation in
// the middle, coroutines left suspended and followed by a different (or the
// same) coroutine or by a plain method, calls after an error status, and
// out-of-range arguments of refined parameters.
func genProtocolHistories(t *rapid.T, p *winterp.Program, n int) []wdrv.History {
	sigs := wdrv.Sigs(p)
	var calls, coros []wdrv.Sig
	for _, f := range p.PublicFuncs() {
		s := sigs[p.FuncName(f)]
		switch {
		case s.Coroutine:
			coros = append(coros, s)
		case !s.Pure:
			calls = append(calls, s)
		}
	}
	var hs []wdrv.History
	for hi := 0; hi < n; hi++ {
		var h wdrv.History
		lab := fmt.Sprintf("h%d", hi)
		if rapid.IntRange(0, 3).Draw(t, lab+"_init") > 0 {
			h.Steps = append(h.Steps, wdrv.Step{Op: "init"})
		}
		ns := rapid.IntRange(2, 7).Draw(t, lab+"_n")
		for si := 0; si < ns; si++ {
			l := fmt.Sprintf("%s_s%d", lab, si)
			k := rapid.IntRange(0, 9).Draw(t, l+"_kind")
			switch {
			case k == 0:
				h.Steps = append(h.Steps, wdrv.Step{Op: "init"})
			case k <= 3 && len(calls) > 0:
				s := calls[rapid.IntRange(0, len(calls)-1).Draw(t, l+"_f")]
				st := wdrv.Step{Op: "call", Func: s.Name}
				for ai, at := range s.ArgTypes {
					st.Args = append(st.Args, genArg(t, fmt.Sprintf("%s_a%d", l, ai), at))
				}
				h.Steps = append(h.Steps, st)
			case len(coros) > 0:
				s := coros[rapid.IntRange(0, len(coros)-1).Draw(t, l+"_c")]
				st := wdrv.Step{Op: "run", Func: s.Name, Close: rapid.IntRange(0, 2).Draw(t, l+"_close") > 0}
				shape := rapid.IntRange(0, 5).Draw(t, l+"_shape")
				switch shape {
				case 0: // ends with an error status
					st.Src = append(rapid.SliceOfN(rapid.SampledFrom([]byte{1, 2, 3, 9}), 0, 3).Draw(t, l+"_pre"), 0xFF, 0xFE)
				case 1: // completes
					st.Src = append(rapid.SliceOfN(rapid.SampledFrom([]byte{1, 2, 3, 9}), 0, 3).Draw(t, l+"_pre"), 0)
				default: // runs out of input or room: stays suspended
					nb := rapid.IntRange(0, 6).Draw(t, l+"_nops")
					for i := 0; i < nb; i++ {
						st.Src = append(st.Src, rapid.SampledFrom([]byte{1, 1, 2, 2, 3, 4, 5, 6, 9}).Draw(t, fmt.Sprintf("%s_op%d", l, i)))
						st.Src = append(st.Src, rapid.SliceOfN(rapid.Byte(), 0, 5).Draw(t, fmt.Sprintf("%s_ob%d", l, i))...)
					}
					st.Close = false
				}
				st.SrcPlan = rapid.SampledFrom([][]int{nil, {1}, {2}, {3, 1}}).Draw(t, l+"_sp")
				st.DstCap = rapid.SampledFrom([]int{0, 1, 8, 64}).Draw(t, l+"_dc")
				if rapid.IntRange(0, 1).Draw(t, l+"_leave") == 0 {
					st.MaxCalls = rapid.IntRange(1, 2).Draw(t, l+"_mc")
				}
				h.Steps = append(h.Steps, st)
			}
		}
		hs = append(hs, h)
	}
	return hs
}

// TestPropC08Gen: on generated packages, the statuses the generated prologue
// answers protocol deviations with (and everything after them) are the ones
// the reference model of the calling protocol in winterp.Call predicts.
func TestPropC08Gen(t *testing.T) {
	opt := &wgen.Options{Exclude: knownExcluders()}
	batch := ev.EnvInt("VERIF_E2_BATCH", 16)
	rapid.Check(t, func(t *rapid.T) {
		var cs []Case
		var ps []*winterp.Program
		for i := 0; i < batch; i++ {
			ev.Eval()
			c, p, ok := genCase(t, opt, 1)
			if !ok {
				continue
			}
			c.Histories = genProtocolHistories(t, p, 5)
			c.Pkg = fmt.Sprintf("p%d", i)
			p2, err := winterp.Load(c.Pkg, []byte(c.Src))
			if err != nil {
				continue
			}
			cs, ps = append(cs, c), append(ps, p2)
		}
		checkUnits(t, "C08", cs, ps)
	})
	for k, v := range opt.Excluded {
		for i := 0; i < v; i++ {
			ev.Excluded(k)
		}
	}
}
