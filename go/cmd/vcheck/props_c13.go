package main

import "time"

var _ = time.Second

func init() {
	reg(&prop{
		id: "C13", pkg: "c13",
		rule: "rapid-generated (payload, Write partition, writer configuration, fault plan). Payload = 0..300 KiB (mostly < 9 KiB) of segments zero / sparse (50-97 % zeros) / random / text / repeated pattern, classes all-zero, zero head+tail, zero-heavy, mixed, text; partition = one call, fixed size, random sizes incl. 0 and 1, huge-then-1-byte tail, or cuts placed inside zero runs; codec zlib/lz4/zstd; DChunkSize 1..70000 or CChunkSize 1..5000 (lz4/zstd must answer ErrCodecWriterDoesNotSupportCChunkSize) or both 0; CPageSize 0 or 2^k <= 4096; index at end, or at start with a temp file of kind FIFO buffer / real bytes.Buffer / seekable file / seekable file at a non-zero offset, optionally returning short reads; underlying writer plain or bytes.Buffer (ReadFrom path); 0-3 shared dictionaries (payload slices or unrelated); optional CodecWriter wrapper reporting 'no resource' by another out-of-range index; > 255 chunks for multi-level indexes. Oracles on the fault-free run: every Write returns (len, nil), Close nil (DChunkSize mode), the independent spec walker (verif/racspec) accepts the file and its leaves cover [0,len) contiguously, rac.Reader returns the payload, and for zlib every leaf is decoded independently with compress/zlib + the unwrapped dictionary. Fault runs: the k-th Write/Read/Seek call on the underlying writer / temp file (all k of a dry run when <= 40 (10 for zstd or with dictionaries), else 2-6 sampled) fails with an error, an error after partial progress, or a premature EOF of the temp file, once or persistently: Close (twice) and a later Write must return non-nil, no Write may return nil after an earlier error, no panic. Non-trivial = (>= 2 Write calls, >= 2 chunks and a zero run of length >= 2 crossing a Write boundary) or CChunkSize mode producing >= 2 chunks or a multi-level index or a fault fired after >= 1 successful underlying write; distinct by the whole case.",
		assumptions: []string{
			"compress/zlib, hash/crc32 are correct; lz4/zstd payload bytes are only checked through the library's own cgo readers",
			"one raczstd.CodecWriter is shared by all cases of a process (context creation costs > 1 s); rac.Writer's Close is not forwarded to it",
			"short writes that return a nil error (io.Writer contract violations) are not injected",
			"CPageSize 1 is generated rarely: ChunkWriter.checkParameters needs 2^32 loop iterations for it (slow, not wrong)",
			"errors of the fault-free run in CChunkSize mode with zlib (CChunkSize too small) are accepted, not judged",
		},
		minNontrivial: 1500,
		quick:         tier{jobs: []job{{name: "roundtrip", run: "^TestProp$", shards: 16, checks: 350, timeout: 30 * time.Minute}}},
		thorough:      tier{jobs: []job{{name: "roundtrip", run: "^TestProp$", shards: 16, checks: 8000, timeout: 90 * time.Minute}}},
	})
}
