package main

import "time"

var _ = time.Second

func init() {
	reg(&prop{
		id: "C19", pkg: "c19",
		rule:          "rapid-generated histories of 1-5 Encode calls on ONE uncompng.Encoder. Each call: one of the six depth/colour combinations; (w,h) from the 1..40 x 1..40 grid (also walked exhaustively once per run by TestGrid, 9600 images), or SOLVED FOR with the test's own model of the encoder buffer (eiFirst 0x30, eiLater 0x0D, ejMax 0xFFF8, 64 KiB => 65480 raw bytes in the first IDAT, 65515 in later ones, IEND shares the last Write iff final ej <= 0xFFEC) so that (bpp*w+1)*h lies within +-9 bytes (+-2 pixels/rows) of the k-th cumulative block capacity, of the point where Adler-32+CRC+IEND stop fitting, or of k*65528, k=1..4, as Nx1, 1xN, few long rows, narrow-tall or arbitrary aspect; widths/heights found by the model to flush exactly in front of a filter byte; rows longer than the buffer; 1xN / Nx1 up to 200000; stride = row bytes + {0,1,7,4096}; pix slice ending at the last pixel or padded; contents random / 0x00 / 0xFF / explicit bytes / Adler-32 worst case (a==65520 when a 5552-byte run of 0xFF starts); 10% of calls with a writer failing at Write k (persistently, or only that once); 8% of calls with documented-invalid arguments (negative or >0xFFFFFF sizes, bad depth/colour type => must return an error without panicking) or arguments the docs are silent about (zero sizes, short buffer, small/negative stride: outcome recorded, not judged). Oracle per valid call: independent chunk walker (signature, IHDR fields, every length and CRC-32 via hash/crc32, order IHDR IDAT+ IEND, nothing after IEND, zlib header, stored blocks with LEN==~NLEN, BFINAL on the last block only, Adler-32 via hash/adler32, raw size (bpp*w+1)*h, filter bytes 0, scanlines byte-equal to the input with the X channel dropped) AND image/png.Decode (bounds, concrete image type, every pixel byte, alpha 0xFF/0xFFFF for RGBX); a failed Write must surface as a non-nil error; no panic. Non-trivial = a valid call whose encoding needs >= 2 IDAT chunks (every flush is caused by a filter byte or pixel that would cross ejMax) or whose trailer does not fit (separate IEND Write); distinct by (w,h,stride,depth,type,content class).",
		assumptions:   []string{"image/png, hash/crc32 and hash/adler32 of the Go standard library are correct", "the buffer model in the test is used only for aiming the generator and labelling classes, never as an oracle", "zero width/height, stride < row bytes and pix shorter than (h-1)*stride+row bytes are outside the property (Encode's behaviour there is recorded as a class only)", "allocation counts are a statistic (runtime.MemStats delta), not judged"},
		minNontrivial: 8000,
		quick: tier{jobs: []job{
			{name: "encode", run: "^TestProp$", shards: 16, checks: 3000, timeout: 15 * time.Minute},
			{name: "grid", run: "^TestGrid$", shards: 4, checks: 1, timeout: 10 * time.Minute},
		}},
		thorough: tier{jobs: []job{
			{name: "encode", run: "^TestProp$", shards: 16, checks: 180000, timeout: 120 * time.Minute},
			{name: "grid", run: "^TestGrid$", shards: 4, checks: 1, timeout: 10 * time.Minute},
		}},
	})
}
