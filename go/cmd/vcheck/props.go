package main

import "time"

var props = map[string]*prop{}

func reg(p *prop) { props[p.id] = p }

func init() {
	reg(&prop{
		id: "C06", pkg: "c06",
		rule: "rapid-generated (op, X, Y) over 10 operations; X, Y from finite/half-infinite/infinite/empty/singleton/small-window-at-huge-offset classes with bounds of 0..4000 bits in shapes 0, ±2^k, ±2^k±1, 1..10..0, random. Oracles: containment of sampled members (corners, 0, ±1, maximal elements, power-of-two neighbours, random), exhaustive containment + exact hull when |X|·|Y| <= 4096, exact hull on wide finite boxes from an independent reference (corner analysis; Hacker's-Delight min/max AND/OR per sign quadrant, itself cross-checked against brute force on every small case), ok==false iff both operands non-empty and some pair undefined, no aliasing. Non-trivial = both operands non-empty and (a bound exceeds 2^32 in magnitude, or the op is and/or/shift/quo on a range straddling zero or a power of two); distinct by (op, X, Y).",
		assumptions:   []string{"math/big is correct", "shift counts above 2^17 are not evaluated concretely; the big.Exp fallback of lib/interval for shift counts above 2^32 is not executed by any tier (one such case computes 2^(2^32): 0.5 GiB and more than 20 minutes; TestGiantShifts runs three of them only when VERIF_C06_GIANT=1)"},
		minNontrivial: 1000,
		quick:         tier{jobs: []job{{name: "interval", run: "^TestProp$", shards: 16, checks: 60000, timeout: 15 * time.Minute}}},
		thorough: tier{jobs: []job{
			{name: "interval", run: "^TestProp$", shards: 16, checks: 300000, timeout: 60 * time.Minute},
		}},
	})

	reg(&prop{
		id: "C03", pkg: "c03", prep: func(c *ctx) error {
			if c.tier == "thorough" {
				return prepStdh("san", "fuzz")(c)
			}
			return prepStdh("san")(c)
		},
		rule: "rapid-generated (decoder kind, input, buffer configuration) runs of every std decoder/hasher reached through the six base interfaces in the C regenerated from the tree, built with ASan+UBSan(bounds-strict) and aborting allocator stubs. Inputs: real files of the format from test/data, files produced on the fly by independent Go encoders, 0-3 structure-aware corruptions (truncation, header-biased bit flips, field extremes, splices, insert/delete; checksums repaired with probability 1/2 for png/gzip/zlib), cross-format confusion, raw bytes. Configuration: source chunking (one-shot, fixed 1..4096, single split, random multi-splits; every source piece, destination window, work buffer and pixel buffer has exactly the announced size and ends at an inaccessible page, inside an ASan-poisoned arena, so that an access past the end faults even from SIMD intrinsics the sanitizer does not instrument, and under-runs are reported by ASan), destination (ample / growing window / fresh exact-size windows honouring dst_history_retain_length), work buffer (min / max / one byte short), init flags and garbage pre-fill, destination pixel formats, quirks. Oracle after every call: sanitizer silence, no allocator call, 0<=ri<=wi<=len, indexes monotone, source bytes and already-written destination bytes unchanged, pos/closed/ptr/len untouched, status well-formed and never 'internal error', no $short read on a closed source, no $short write into an empty >=64KiB destination, calls bounded by 8*(bytes supplied + windows) + 4096, alarm re-confirmed with 3x budget. Non-trivial = run got past the format's first header (output byte, image config, token or hash) with a non-one-shot configuration and at least one resumed suspension (hashers: >= 1 update); distinct by (kind, input, plan). Thorough tier only: a 15-minute libFuzzer campaign (16 forked workers, clang ASan+UBSan, edge coverage) over the same harness, seeded with every corpus file of at most 8 KiB under four buffer plans; artifacts are converted back to ordinary cases and judged by the same oracle; executed inputs count as evaluations, inputs kept for new coverage as distinct cases.",
		assumptions:   []string{"gcc 12 ASan/UBSan report every violation they instrument; UBSan's nonnull-attribute check is off (memset/memcpy of length 0 with a null pointer is not a dereference; see DESIGN 6)", "overflows that stay inside one struct field array and unsigned wrap-around in std/ are invisible (no checked build)"},
		minNontrivial: 300,
		quick:         tier{jobs: []job{{name: "std-safety", run: "^TestProp$", shards: 16, checks: 250, timeout: 25 * time.Minute}}},
		thorough: tier{jobs: []job{
			{name: "std-safety", run: "^TestProp$", shards: 16, checks: 20000, timeout: 120 * time.Minute},
			{name: "libfuzzer", run: "^TestLibFuzzer$", shards: 1, checks: 1, timeout: 30 * time.Minute, env: []string{"VERIF_FUZZ_SECONDS=900", "VERIF_FUZZ_WORKERS=16"}},
		}},
	})
}
