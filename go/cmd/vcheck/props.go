package main

import "time"

var props = map[string]*prop{}

func reg(p *prop) { props[p.id] = p }

func init() {
	reg(&prop{
		id: "C06", pkg: "c06",
		rule: "rapid-generated (op, X, Y) over 10 operations; X, Y from finite/half-infinite/infinite/empty/singleton/small-window-at-huge-offset classes with bounds of 0..4000 bits in shapes 0, ±2^k, ±2^k±1, 1..10..0, random. Oracles: containment of sampled members (corners, 0, ±1, maximal elements, power-of-two neighbours, random), exhaustive containment + exact hull when |X|·|Y| <= 4096, exact hull on wide finite boxes from an independent reference (corner analysis; Hacker's-Delight min/max AND/OR per sign quadrant, itself cross-checked against brute force on every small case), ok==false iff both operands non-empty and some pair undefined, no aliasing. Non-trivial = both operands non-empty and (a bound exceeds 2^32 in magnitude, or the op is and/or/shift/quo on a range straddling zero or a power of two); distinct by (op, X, Y).",
		assumptions:   []string{"math/big is correct", "shift counts above 2^17 are not evaluated concretely except for three fixed giant cases in the thorough tier"},
		minNontrivial: 1000,
		quick:         tier{jobs: []job{{name: "interval", run: "^TestProp$", shards: 16, checks: 60000, timeout: 15 * time.Minute}}},
		thorough: tier{jobs: []job{
			{name: "interval", run: "^TestProp$", shards: 16, checks: 300000, timeout: 60 * time.Minute},
			{name: "giant", run: "^TestGiantShifts$", shards: 1, checks: 1, timeout: 20 * time.Minute},
		}},
	})
}
