package main

import "time"

const e2Universe = "Programs come from the proof-aware generator wgen (one struct with refined and unrefined scalar fields and arrays in both struct parts, const tables, pure/impure private helpers, private coroutines, public impure methods, setters with refined parameters, a public opcode-dispatch coroutine; expressions over all binary/associative/modular/saturating operators, shifts, conversions, min/max/low_bits/high_bits, masked/guarded indexes, counted loops, I/O reads of 1..8 bytes le/be, write_u8?, length-guarded fast paths) and, for a third of the cases, 1-2 near-miss mutations of such a program (a literal +-1/x2, < vs <=, a dropped mask, ~mod/~sat turned into the plain operator, an index retargeted to another array): whatever the tree's checker still accepts is executed. Histories: initialize, 1-5 steps of public calls with arguments biased to type extremes and coroutine runs over opcode streams with drawn source/destination partitions, re-initialisation, runs left suspended. "

func init() {
	reg(&prop{
		id: "C01", pkg: "e2", prep: prepTools,
		rule: e2Universe + "Oracle: the reference interpreter winterp executes the checked AST of the tree's own parser in ideal integers and checks, at every evaluation, 0<=i<len for indexes, i<=j<=len for slices, that every non-modular + - * << / % conversion and compound assignment stays inside its (refined) type, shift counts < width, divisors > 0, stored/returned values inside the destination's refined range, pre-conditions of unchecked I/O built-ins, no re-entry, and that every statement-position expression's value lies in the bounds the checker recorded for it (MBounds). Non-trivial = accepted program whose executions evaluated >= 1 index/arith/store obligation; distinct by source hash.",
		assumptions:   []string{"the interpreter implements the documented semantics (it is cross-checked against the generated C by C04 on every accepted program of that campaign)", "only the generated universe is covered: no pixel types, SIMD, tables, use; std/ is covered by C03 under sanitizers", "known finding K1 (container assignment across element refinements) and K3 (loop condition checked under entry facts) are outside the generated shapes until added; see DESIGN 5"},
		minNontrivial: 2000,
		quick:         tier{jobs: []job{{name: "programs", run: "^TestPropC01$", shards: 16, checks: 700, timeout: 20 * time.Minute}}},
		thorough:      tier{jobs: []job{{name: "programs", run: "^TestPropC01$", shards: 16, checks: 40000, timeout: 180 * time.Minute}}},
	})
	reg(&prop{
		id: "C02", pkg: "e2", prep: prepTools,
		rule: e2Universe + "Oracle: through the verif hook the checker hands over the list of facts it holds before every statement; the reference interpreter evaluates each of them (and every assert and loop pre/inv/post at loop entry, iteration and exit) in ideal integers over the concrete state each time execution reaches that statement, across suspensions and resumptions with different buffers; a fact that is false or cannot be evaluated is a violation. Axioms: each of the listed axioms is checked as a theorem over the integers (exhaustive small cubes + large random draws) by TestAxioms. Non-trivial = accepted program whose executions evaluated >= 1 non-constant fact; distinct by source hash.",
		assumptions:   []string{"facts are visible at statement granularity (the hook fires before each statement)", "the interpreter implements the documented semantics (cross-checked against the generated C by C04)"},
		minNontrivial: 2000,
		quick: tier{jobs: []job{
			{name: "programs", run: "^TestPropC02$", shards: 16, checks: 700, timeout: 20 * time.Minute},
			{name: "axioms", run: "^TestAxioms$", shards: 1, checks: 1, timeout: 10 * time.Minute},
		}},
		thorough: tier{jobs: []job{
			{name: "programs", run: "^TestPropC02$", shards: 16, checks: 40000, timeout: 180 * time.Minute},
			{name: "axioms", run: "^TestAxioms$", shards: 1, checks: 1, timeout: 10 * time.Minute, env: []string{"VERIF_AXIOM_DEEP=1"}},
		}},
	})
	reg(&prop{
		id: "C04", pkg: "e2", prep: prepE2,
		rule: e2Universe + "Oracle: differential. Batches of 16 accepted programs (whose interpretation trips no C01/C02 monitor and does not exhaust the fuel) are translated by the tree's wuffs-c, compiled with gcc -O1 ASan+UBSan into one driver and run; per history the canonical trace (initialize status, each call's returned value or status, per coroutine call status/ri/wi, output bytes, all public pure getters after every step) printed by the C driver must equal the reference interpreter's text; a sanitizer report, a gcc rejection of the emitted C or a wuffs-c failure on an accepted program is a violation too. Non-trivial = compared program whose histories have >= 3 steps; distinct by source hash.",
		assumptions:   []string{"the reference semantics is the interpreter's reading of doc/note/*.md; a disagreement is triaged as 'is the doc ambiguous?' before it is called a defect", "multi-byte coroutine writers (known finding T3) are not generated"},
		minNontrivial: 300,
		quick:         tier{jobs: []job{{name: "differential", run: "^TestPropC04$", shards: 16, checks: 5, timeout: 30 * time.Minute}}},
		thorough:      tier{jobs: []job{{name: "differential", run: "^TestPropC04$", shards: 16, checks: 80, timeout: 240 * time.Minute}}},
	})
}
