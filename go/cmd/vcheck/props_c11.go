package main

import "time"

func init() {
	reg(&prop{
		id: "C11", pkg: "c11", prep: prepTools,
		rule: "byte strings presented as Wuffs source to the tree's own pipeline: in-process token.Tokenize -> parse.Parse (wuffs-c options and wuffsfmt options) -> render.Render -> check.Check (use-resolution against gen/wuffs/std/*.wuffs derived from the tree's std exactly as `wuffs gen` does), each stage under recover(); the C generator, depth/size bombs and a sample of everything else through the freshly built $VERIF_BIN/wuffs-c gen and $VERIF_BIN/wuffsfmt (exit 2 / Go traceback / CPU over budget = violation); every emitted C through gcc -fsyntax-only -std=c99 -Werror=implicit-function-declaration next to the tree's own wuffs-base.c and the C of the used std packages. Generators (uniform choice): random bytes 3%; token soups over the real vocabulary (keywords, all operators, literals incl. malformed '..'be, numbers with underscores / legacy octal / 0x, {{ }}) 12%; token-level mutations of a std/*/*.wuffs file (whole package checked, the other files unchanged; small packages preferred) or of one of 13 small accepted programs: delete, duplicate, swap, replace by a token of the same class, replace/insert any token, drop a closing/opening bracket, drop the LHS of an assignment, drop an operand, tweak a number, flip/drop/add an effect mark, 1-4 per case 40%; line-level delete/duplicate/swap/move/delete-range 15%; tree-level: sub-expression or type replaced by one from the corpus or from a pool of odd types, statement/block grafted into another function, statement wrapped in if/while/{{ }}/io_limit, declaration duplicated or grafted from another file 20%; synthesized programs: rings of struct fields, rings of mutually recursive funcs, choose of incompatible/missing/non-choosy funcs, arities (args, fields, const lists, vars, statements, associative chains, else-if chains, funcs, consts+statuses, implements, iterate variables with and without initial value, array dimensions, method chains) 6%; one well-typed call of every built-in method of lang/builtin (funcsOther, slice, slice-u8, table) 4%. TestPropCC: the same mutators restricted to the ones that often survive the checker, every accepted mutant through wuffs-c + gcc. TestPropSub: 38 bomb shapes (nesting of ( [ not - if while {{ array[..] ptr slice list call . as io_limit else-if, unclosed variants, size bombs within the token limits) at depths 10..200000, text <= 256 KiB (1 in 12: <= 2 MiB, crash detection only). TestCorpus: every unmutated corpus program and std package through everything. Non-trivial = every file tokenized (the parser was reached: parse error, check error or accepted); distinct by (package, file, text). Histogram: deepest stage, perr:/cerr:/gerr: = first words of the parser/checker/generator error (distinct checker error sites reached = number of cerr: classes).",
		assumptions: []string{
			"the budget is CPU time of the tool process (in-process: of the test process): 10 s per input of at most 256 KiB; a run over budget is repeated with 60 s before it is reported, the in-process pipeline (inputs <= 64 KiB) gets 20 s (60 s on replay); inputs above 256 KiB are watched for crashes only",
			"wuffsfmt writing more than 1 GiB for an input of at most 256 KiB is judged like a time-out (work counted, not only time)",
			"internal/cgen cannot be imported from outside its module: the C generator is always exercised as the subprocess `wuffs-c gen` (cgen.Do)",
			"gcc 12 -fsyntax-only -std=c99 with -Werror=implicit-function-declaration decides 'accepted by the C compiler' (a call of an undeclared function is invalid C99); a precompiled header of the tree's wuffs-base.c is used to save time and every rejection is re-confirmed without it",
			"known findings T10 (no upper limit on array lengths: a numeric literal above 2^24 inside array[..] is replaced) and T11 (checker time quadratic in the length of an if / else-if chain: chains are capped at 3000 branches) are excluded by construction and replayed separately",
			"known finding T7 (cgen supports structs declared without the ? mark only partially: public methods, coroutines or fields of such a type make it emit C that does not compile) is excluded by construction: every generated struct keeps its ?",
			"known finding T3 (built-in methods declared in lang/builtin without any C lowering: io_writer.write_u16be? .. write_u64le?, range_*.get_min_incl/get_max_incl/get_max_excl, frame_config.blend) is excluded by construction and replayed separately",
			"depth bombs whose cost on the unchanged tools approaches the budget are capped (if: 12000 levels, lists/selectors: 40000, parentheses/unary: 60000); see notes/C11-report.md",
		},
		minNontrivial: 30000,
		quick: tier{jobs: []job{
			{name: "corpus", run: "^TestCorpus$", shards: 16, checks: 1, timeout: 20 * time.Minute, env: []string{"GOMAXPROCS=2"}},
			{name: "sub", run: "^TestPropSub$", shards: 16, checks: 16, timeout: 30 * time.Minute, env: []string{"GOMAXPROCS=2"}},
			{name: "cc", run: "^TestPropCC$", shards: 16, checks: 40, timeout: 30 * time.Minute, env: []string{"GOMAXPROCS=2"}},
			{name: "inproc", run: "^TestProp$", shards: 16, checks: 6000, timeout: 30 * time.Minute, env: []string{"GOMAXPROCS=2"}},
		}},
		thorough: tier{jobs: []job{
			{name: "corpus", run: "^TestCorpus$", shards: 16, checks: 1, timeout: 20 * time.Minute, env: []string{"GOMAXPROCS=2"}},
			{name: "sub", run: "^TestPropSub$", shards: 16, checks: 100, timeout: 120 * time.Minute, env: []string{"GOMAXPROCS=2"}},
			{name: "cc", run: "^TestPropCC$", shards: 16, checks: 500, timeout: 120 * time.Minute, env: []string{"GOMAXPROCS=2"}},
			{name: "inproc", run: "^TestProp$", shards: 16, checks: 60000, timeout: 120 * time.Minute, env: []string{"GOMAXPROCS=2"}},
			{name: "fuzz-tokenize", fuzz: "FuzzTokenize", fuzzFor: 8 * time.Minute},
			{name: "fuzz-parse", fuzz: "FuzzParse", fuzzFor: 8 * time.Minute},
			{name: "fuzz-check", fuzz: "FuzzCheck", fuzzFor: 8 * time.Minute},
			{name: "fuzz-render", fuzz: "FuzzRender", fuzzFor: 8 * time.Minute},
		}},
	})
}
