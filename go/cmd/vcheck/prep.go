package main

import (
	"crypto/sha256"
	"encoding/hex"
	"fmt"
	"os"
	"path/filepath"
	"regexp"
	"sort"
	"strings"
	"sync"
	"time"
)

// prepTools builds wuffs, wuffs-c and wuffsfmt from /repo's working tree (with
// the verif build tag) into $scratch/bin. It is run from the verif module so
// that /repo's go.mod/go.sum are never rewritten.
func prepTools(c *ctx) error {
	bin := filepath.Join(c.scratch, "bin")
	os.MkdirAll(bin, 0o755)
	out, err := runCmd(filepath.Join(verifRoot, "go"), c.env, 10*time.Minute, "go", "build", "-tags", "verif", "-o", bin+"/",
		"github.com/google/wuffs/cmd/wuffs", "github.com/google/wuffs/cmd/wuffs-c", "github.com/google/wuffs/cmd/wuffsfmt")
	if err != nil {
		return fmt.Errorf("building the wuffs tools from the tree: %v\n%s", err, out)
	}
	c.env = append(c.env, "VERIF_BIN="+bin)
	return nil
}

// prepGen regenerates the whole standard library from /repo/std with the
// tree's own compiler into $scratch/root (gen/c/*.c and
// release/c/wuffs-unsupported-snapshot.c).
func prepGen(c *ctx) error {
	if err := prepTools(c); err != nil {
		return err
	}
	root := filepath.Join(c.scratch, "root")
	os.MkdirAll(root, 0o755)
	if out, err := runCmd("/", c.env, time.Minute, "cp", "-r", filepath.Join(repoRoot, "std"), filepath.Join(repoRoot, "wuffs-root-directory.txt"), root+"/"); err != nil {
		return fmt.Errorf("copying std: %v\n%s", err, out)
	}
	env := append([]string{}, c.env...)
	for i, e := range env {
		if strings.HasPrefix(e, "PATH=") {
			env[i] = "PATH=" + filepath.Join(c.scratch, "bin") + ":" + e[5:]
		}
	}
	out, err := runCmd(root, env, 5*time.Minute, filepath.Join(c.scratch, "bin", "wuffs"), "gen")
	if err != nil {
		return fmt.Errorf("wuffs gen on the tree's std/ failed (the tree's compiler rejects or cannot compile its own standard library): %v\n%s", err, tail(string(out), 30))
	}
	c.env = append(c.env, "VERIF_GEN_ROOT="+root)
	return nil
}

var allocRE = regexp.MustCompile(`wuffs_([a-z0-9]+)__([a-z0-9_]+)__alloc_as__wuffs_base__([a-z0-9_]+)`)

// prepStdh compiles the E3 harness against the freshly generated snapshot in
// the requested variants. Compilation results are content-addressed by the
// hash of (generated snapshot, harness sources, flags) under /verif/.work/cc,
// exactly like a compiler cache: the snapshot is always regenerated from the
// tree, only an identical compile is not repeated.
func prepStdh(variants ...string) func(c *ctx) error {
	return func(c *ctx) error {
		if err := prepGen(c); err != nil {
			return err
		}
		root := filepath.Join(c.scratch, "root")
		snap := filepath.Join(root, "release", "c", "wuffs-unsupported-snapshot.c")
		sb, err := os.ReadFile(snap)
		if err != nil {
			return err
		}
		// kinds table from the generated code itself.
		ifmap := map[string]string{"io_transformer": "IOT", "image_decoder": "IMG", "token_decoder": "TOK", "hasher_u32": "H32", "hasher_u64": "H64", "hasher_bitvec256": "H256"}
		seen := map[string]bool{}
		var kinds []string
		for _, m := range allocRE.FindAllStringSubmatch(string(sb), -1) {
			tag := ifmap[m[3]]
			if tag == "" {
				continue
			}
			l := fmt.Sprintf("KIND_%s(%s, %s)", tag, m[1], m[2])
			if !seen[l] {
				seen[l] = true
				kinds = append(kinds, l)
			}
		}
		sort.Strings(kinds)
		kindsPath := filepath.Join(c.scratch, "stdh_kinds.inc")
		os.WriteFile(kindsPath, []byte(strings.Join(kinds, "\n")+"\n"), 0o644)

		mainSrc, _ := os.ReadFile(filepath.Join(verifRoot, "c", "stdh.c"))
		libSrc, _ := os.ReadFile(filepath.Join(verifRoot, "c", "stdh_lib.c"))
		fuzzSrc, _ := os.ReadFile(filepath.Join(verifRoot, "c", "stdh_fuzz.c"))
		type variant struct{ name, cc, flags, ldflags string }
		all := map[string]variant{
			// libFuzzer build (clang): the same harness behind LLVMFuzzerTestOneInput (c/stdh_fuzz.c), edge counters only.
			// clang's pointer-overflow check also reports "applying zero offset to null pointer" (an empty slice with a
			// NULL pointer, the zero-length analogue of memset(NULL, 0, 0)); gcc's, which the replay path uses, does not:
			// it is off here so that both builds judge the same classes of errors.
			"fuzz": {"fuzz", "clang", "-g -O1 -fsanitize=address,undefined -fno-sanitize=nonnull-attribute,pointer-overflow -fno-sanitize-recover=all -fno-omit-frame-pointer -fsanitize-coverage=inline-8bit-counters,pc-table", "-fsanitize=fuzzer,address,undefined"},
			"san":    {"san", "gcc", "-g -O1 -fsanitize=address,undefined,bounds-strict -fno-sanitize=nonnull-attribute -fno-sanitize-recover=all -fno-omit-frame-pointer", "-fsanitize=address,undefined"},
			"noarch": {"noarch", "gcc", "-g -O1 -DWUFFS_CONFIG__AVOID_CPU_ARCH -fsanitize=address,undefined,bounds-strict -fno-sanitize=nonnull-attribute -fno-sanitize-recover=all -fno-omit-frame-pointer", "-fsanitize=address,undefined"},
			"o2":     {"o2", "gcc", "-O2", ""},
		}
		var wg sync.WaitGroup
		errs := make([]error, len(variants))
		paths := make([]string, len(variants))
		for i, vn := range variants {
			v, ok := all[vn]
			if !ok {
				return fmt.Errorf("unknown stdh variant %s", vn)
			}
			wg.Add(1)
			go func(i int, v variant) {
				defer wg.Done()
				h := sha256.New()
				h.Write(sb)
				h.Write(mainSrc)
				h.Write(libSrc)
				mainFile := "stdh.c"
				if v.name == "fuzz" {
					mainFile = "stdh_fuzz.c"
					h.Write(fuzzSrc)
				}
				h.Write([]byte(strings.Join(kinds, ";") + "|" + v.cc + "|" + v.flags))
				key := hex.EncodeToString(h.Sum(nil))[:24]
				cacheDir := filepath.Join(verifRoot, ".work", "cc")
				os.MkdirAll(cacheDir, 0o755)
				cached := filepath.Join(cacheDir, "stdh-"+v.name+"-"+key)
				dst := filepath.Join(c.scratch, "stdh-"+v.name)
				paths[i] = dst
				if _, err := os.Stat(cached); err == nil {
					if out, err := runCmd("/", c.env, time.Minute, "cp", cached, dst); err == nil {
						return
					} else {
						_ = out
					}
				}
				defs := []string{"-DSTDH_SNAPSHOT=\"" + snap + "\"", "-DSTDH_KINDS=\"" + kindsPath + "\"", "-Wno-unused-function"}
				objs := []string{}
				var iwg sync.WaitGroup
				var ierr [2]error
				for k, src := range []string{"stdh_lib.c", mainFile} {
					obj := filepath.Join(c.scratch, fmt.Sprintf("%s-%s.o", strings.TrimSuffix(src, ".c"), v.name))
					objs = append(objs, obj)
					iwg.Add(1)
					go func(k int, src, obj string) {
						defer iwg.Done()
						args := append(strings.Fields(v.flags), defs...)
						args = append(args, "-c", filepath.Join(verifRoot, "c", src), "-o", obj)
						if out, err := runCmd(c.scratch, c.env, 15*time.Minute, v.cc, args...); err != nil {
							ierr[k] = fmt.Errorf("compiling %s (%s) against the generated library failed: %v\n%s", src, v.name, err, tail(string(out), 40))
						}
					}(k, src, obj)
				}
				iwg.Wait()
				for _, e := range ierr {
					if e != nil {
						errs[i] = e
						return
					}
				}
				args := append(strings.Fields(v.ldflags), objs...)
				args = append(args, "-o", dst)
				if out, err := runCmd(c.scratch, c.env, 5*time.Minute, v.cc, args...); err != nil {
					errs[i] = fmt.Errorf("linking stdh-%s: %v\n%s", v.name, err, tail(string(out), 40))
					return
				}
				for _, o := range objs {
					os.Remove(o)
				}
				// publish to the cache atomically; keep the cache small.
				tmp := cached + fmt.Sprintf(".tmp%d", os.Getpid())
				if out, err := runCmd("/", c.env, time.Minute, "cp", dst, tmp); err == nil {
					os.Rename(tmp, cached)
				} else {
					_ = out
				}
				pruneCache(cacheDir, 12)
			}(i, v)
		}
		wg.Wait()
		for _, e := range errs {
			if e != nil {
				return e
			}
		}
		for i, vn := range variants {
			c.env = append(c.env, "STDH_"+strings.ToUpper(vn)+"="+paths[i])
		}
		return nil
	}
}

func pruneCache(dir string, keep int) {
	ents, err := os.ReadDir(dir)
	if err != nil {
		return
	}
	type fi struct {
		name string
		mod  time.Time
	}
	var fs []fi
	for _, e := range ents {
		if info, err := e.Info(); err == nil && !e.IsDir() {
			fs = append(fs, fi{e.Name(), info.ModTime()})
		}
	}
	sort.Slice(fs, func(i, j int) bool { return fs[i].mod.After(fs[j].mod) })
	for i := keep; i < len(fs); i++ {
		os.Remove(filepath.Join(dir, fs[i].name))
	}
}

// prepSnapObj compiles the freshly generated snapshot alone (no harness, no
// sanitizer) to one relocatable object for the static hermeticity inspection
// of C10; cached by content like the harness builds. Requires prepGen's root.
func prepSnapObj(c *ctx) error {
	root := filepath.Join(c.scratch, "root")
	snap := filepath.Join(root, "release", "c", "wuffs-unsupported-snapshot.c")
	sb, err := os.ReadFile(snap)
	if err != nil {
		return err
	}
	flags := "-c -O1 -fno-stack-protector -DWUFFS_IMPLEMENTATION -x c"
	h := sha256.New()
	h.Write(sb)
	h.Write([]byte(flags))
	key := hex.EncodeToString(h.Sum(nil))[:24]
	cacheDir := filepath.Join(verifRoot, ".work", "cc")
	os.MkdirAll(cacheDir, 0o755)
	cached := filepath.Join(cacheDir, "snapobj-"+key+".o")
	dst := filepath.Join(c.scratch, "snapshot.o")
	if _, err := os.Stat(cached); err == nil {
		if _, err := runCmd("/", c.env, time.Minute, "cp", cached, dst); err == nil {
			c.env = append(c.env, "VERIF_SNAP_OBJ="+dst)
			return nil
		}
	}
	args := append(strings.Fields(flags), snap, "-o", dst)
	if out, err := runCmd(c.scratch, c.env, 15*time.Minute, "gcc", args...); err != nil {
		return fmt.Errorf("compiling the generated snapshot alone failed: %v\n%s", err, tail(string(out), 40))
	}
	tmp := cached + fmt.Sprintf(".tmp%d", os.Getpid())
	if _, err := runCmd("/", c.env, time.Minute, "cp", dst, tmp); err == nil {
		os.Rename(tmp, cached)
	}
	pruneCache(cacheDir, 12)
	c.env = append(c.env, "VERIF_SNAP_OBJ="+dst)
	return nil
}

// chain runs several prep steps in order.
func chain(steps ...func(*ctx) error) func(*ctx) error {
	return func(c *ctx) error {
		for _, s := range steps {
			if err := s(c); err != nil {
				return err
			}
		}
		return nil
	}
}

// e2SanFlags must equal wdrv.SanFlags.
const e2SanFlags = "-g -O1 -fsanitize=address,undefined,bounds-strict -fno-sanitize=nonnull-attribute -fno-sanitize-recover=all -fno-omit-frame-pointer"

// prepE2 builds the tools and compiles the base package (generated by the
// tree's wuffs-c) once for all shards of an E2 campaign; cached by content.
func prepE2(c *ctx) error {
	if err := prepTools(c); err != nil {
		return err
	}
	bin := filepath.Join(c.scratch, "bin")
	out, err := runCmd(c.scratch, c.env, 5*time.Minute, filepath.Join(bin, "wuffs-c"), "gen", "-package_name", "base")
	if err != nil {
		return fmt.Errorf("wuffs-c gen -package_name base: %v\n%s", err, tail(string(out), 20))
	}
	baseC := filepath.Join(c.scratch, "wuffs-base.c")
	if err := os.WriteFile(baseC, out, 0o644); err != nil {
		return err
	}
	h := sha256.New()
	h.Write(out)
	h.Write([]byte(e2SanFlags))
	key := hex.EncodeToString(h.Sum(nil))[:24]
	cacheDir := filepath.Join(verifRoot, ".work", "cc")
	os.MkdirAll(cacheDir, 0o755)
	cached := filepath.Join(cacheDir, "e2base-"+key+".o")
	dst := filepath.Join(c.scratch, "e2base-san.o")
	if _, err := os.Stat(cached); err == nil {
		if _, err := runCmd("/", c.env, time.Minute, "cp", cached, dst); err == nil {
			c.env = append(c.env, "VERIF_E2_BASE_SAN="+dst)
			return nil
		}
	}
	args := append(strings.Fields(e2SanFlags), "-c", "-DWUFFS_IMPLEMENTATION", "-DWUFFS_CONFIG__MODULES", "-DWUFFS_CONFIG__MODULE__BASE", "-x", "c", baseC, "-o", dst)
	if o, err := runCmd(c.scratch, c.env, 15*time.Minute, "gcc", args...); err != nil {
		return fmt.Errorf("compiling the generated base package failed: %v\n%s", err, tail(string(o), 30))
	}
	tmp := cached + fmt.Sprintf(".tmp%d", os.Getpid())
	if _, err := runCmd("/", c.env, time.Minute, "cp", dst, tmp); err == nil {
		os.Rename(tmp, cached)
	}
	pruneCache(cacheDir, 12)
	c.env = append(c.env, "VERIF_E2_BASE_SAN="+dst)
	return nil
}
