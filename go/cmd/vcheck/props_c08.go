package main

import "time"

func init() {
	reg(&prop{
		id: "C08", pkg: "c08", prep: chain(prepStdh("san"), prepE2),
		rule: "model-based: rapid-generated histories (3..40 steps) on one object of every std kind - initialize (good; sizeof +-1/+-8; other major / newer minor version; ALREADY_ZEROED over used, garbage or zero memory; LEAVE_INTERNAL_BUFFERS_UNINITIALIZED; re-initialisation), feed 0..n source bytes with or without closing, offer 0..70000 destination bytes (exact-size heap windows), and calls of every status-returning public method (transform_io / decode_image_config / decode_frame_config / decode_frame / restart_frame / tell_me_more / decode_tokens / set_quirk) with valid, NULL-destination, NULL-source, short-work-buffer or NULL-receiver arguments, over real files (corpus, optionally corrupted) or raw bytes. Oracle: a 3-variable reference model (magic in {raw, ok, disabled}, suspended coroutine, image call-sequence facts) predicts for each step either the exact protocol status ('#base: initialize not called', 'bad sizeof receiver', 'bad wuffs version', 'initialize falsely claimed already zeroed', 'bad receiver', 'bad argument', 'interleaved coroutine calls', 'disabled by previous error', 'bad call sequence' for a repeated decode_image_config or an early restart_frame) or 'decoder-defined', in which case the protocol statuses must NOT appear and the model follows the category (error of a coroutine => disabled, suspension => active); plus the harness checks after EVERY call, failing ones included: 0<=ri<=wi<=len, ri/wi monotone, source bytes and already-written destination bytes unchanged, pos/closed/ptr/len untouched; pure methods probed around every call. Non-trivial = history with a call after a protocol error, an interleaved-coroutine step or an out-of-order image step; distinct by (kind, step sequence). Generated packages (engine E2, job generated-protocol): wgen programs (often with two public coroutines, refined setter parameters) accepted by the tree's checker are compiled with the tree's wuffs-c and driven through protocol-deviating histories (no initialize, re-initialise mid-way, a coroutine left suspended and then another coroutine / the same one / a plain method, calls after an error status, out-of-range arguments); the complete C trace (every status, return value, ri/wi and the final outputs) must equal the trace of the reference interpreter, whose Call() is an independent model of the documented prologue. Non-trivial there = the reference predicts >= 1 protocol status.",
		assumptions:   []string{"image decoders' call_sequence is modelled only for the two rules that do not depend on implicit calls; everything else is 'decoder-defined'", "a failed initialize is modelled as leaving the object unchanged (that is what the generated code does: it returns before touching memory)"},
		minNontrivial: 2000,
		quick: tier{jobs: []job{
			{name: "protocol", run: "^TestProp$", shards: 16, checks: 1500, timeout: 15 * time.Minute},
			{name: "generated-protocol", pkg: "e2", run: "^TestPropC08Gen$", shards: 16, checks: 4, timeout: 20 * time.Minute},
		}},
		thorough: tier{jobs: []job{
			{name: "protocol", run: "^TestProp$", shards: 16, checks: 60000, timeout: 120 * time.Minute},
			{name: "generated-protocol", pkg: "e2", run: "^TestPropC08Gen$", shards: 16, checks: 120, timeout: 120 * time.Minute},
		}},
	})
	reg(&prop{
		id: "C10", pkg: "c10", prep: chain(prepStdh("san"), prepSnapObj),
		rule: "static clause: the snapshot regenerated from the tree is compiled alone (gcc -c -O1, no sanitizer) and inspected with size/nm/objdump: .data/.bss/.tdata/.tbss/COMMON empty and no symbol in a writable section; undefined symbols within {memcpy, memmove, memset, memcmp, calloc, free}; every relocation against calloc/free/malloc/realloc lies inside a function named *__alloc*; for each of the std packages the set of exported (global) functions with that package's prefix equals the set computed by an independent scan of the .wuffs sources (pub struct => initialize/alloc/sizeof, pub func => method); nothing declared pri is exported. Dynamic clause: rapid-generated decodes (all kinds, corpus/corrupted inputs, drawn chunking plans) with every pure method of the interface called before and after every call and the whole object (sizeof bytes) and buffer metadata memcmp'ed. Non-trivial = std package with >= 1 pub func, >= 1 pri func and >= 1 const (static); run whose probes hit an object that is mid-suspension or disabled (dynamic). Generated programs (engine E2: wgen programs and near-miss mutants accepted by the tree's checker, incl. nested arrays read through local slices in pure methods): every public pure getter is called after every step of every history by the reference interpreter, which compares the whole receiver state before and after; and every accepted generated package is compiled alone and its object inspected with the same static rules (undefined symbols may additionally be the base package's).",
		assumptions:   []string{"std packages use each other and cannot be compiled alone: the whole snapshot is one object and symbols are attributed to packages by prefix", "base (hand-written C) symbols are inspected for sections/undefined symbols/allocator calls but not for the exact export set"},
		minNontrivial: 200,
		quick: tier{jobs: []job{
			{name: "static", run: "^TestStatic$", shards: 1, checks: 1, timeout: 10 * time.Minute},
			{name: "pure", run: "^TestPropPure$", shards: 16, checks: 150, timeout: 25 * time.Minute},
			{name: "generated-pure", pkg: "e2", run: "^TestPropC10$", shards: 8, checks: 500, timeout: 20 * time.Minute},
			{name: "generated-static", pkg: "e2", run: "^TestPropC10Static$", shards: 16, checks: 4, timeout: 20 * time.Minute},
		}},
		thorough: tier{jobs: []job{
			{name: "static", run: "^TestStatic$", shards: 1, checks: 1, timeout: 10 * time.Minute},
			{name: "pure", run: "^TestPropPure$", shards: 16, checks: 3000, timeout: 120 * time.Minute},
			{name: "generated-pure", pkg: "e2", run: "^TestPropC10$", shards: 16, checks: 8000, timeout: 120 * time.Minute},
			{name: "generated-static", pkg: "e2", run: "^TestPropC10Static$", shards: 16, checks: 60, timeout: 120 * time.Minute},
		}},
	})
}
