package main

import "time"

func init() {
	reg(&prop{
		id: "C07", pkg: "c07", prep: prepStdh("san"),
		rule: "round trip: a rapid-drawn payload (empty, 1 byte, random, text, repetitive, long runs, > 32 KiB with far matches, > 64 KiB) or image (gray8/16, RGB(A)8/16, paletted 2..256 colours with transparency, 1..70 px) is encoded by an independent encoder - compress/flate|zlib|gzip at levels {-2,0,1,6,9} with Flush points and gzip header variants, compress/lzw LSB with literal widths 2..8 (decoder quirk), the system bzip2 -1..-9 and xz -0..-9[e] --format=xz|lzma --check=none|crc32|crc64|sha256, image/png at four compression levels, image/gif with 1-4 frames/local palettes/transparency, x/image/bmp - and decoded by the Wuffs decoder regenerated from the tree (ASan+UBSan), one-shot or under a drawn chunking plan; decoded bytes / BGRA_NONPREMUL (8 or 4x16LE) pixels must equal the original exactly, status OK (images: '@base: end of data' after the last frame), all input consumed. Hashers (CRC-32/IEEE, CRC-64/ECMA, Adler-32, SHA-256) vs Go's standard library under update partitions of 1, 15..17, 31..33, 63..65, 5551..5553-byte pieces, empty updates, misaligned exact-size buffers, update vs update_uNN. Non-trivial = original of >= 64 bytes (hashers: additionally >= 2 updates); distinct by (codec, encoded bytes, plan).",
		assumptions:   []string{"the reference encoders (Go standard library, x/image/bmp, system bzip2 and xz) emit valid files", "formats without an independent local encoder (lzip, webp, qoi, jpeg exactness...) are outside this property as stated"},
		minNontrivial: 500,
		quick:         tier{jobs: []job{{name: "roundtrip", run: "^TestProp$", shards: 16, checks: 120, timeout: 25 * time.Minute}}},
		thorough:      tier{jobs: []job{{name: "roundtrip", run: "^TestProp$", shards: 16, checks: 8000, timeout: 120 * time.Minute}}},
	})
}
