package main

import "time"

var _ = time.Second

func init() {
	reg(&prop{
		id: "C12", pkg: "c12",
		rule: "(a) wuffsfmt pipeline (token.Tokenize + parse.Parse{AllowDoubleUnderscoreNames} + render.Render, as cmd/wuffsfmt does): every std/*/*.wuffs file as it is (once per shard), then rapid cases = 1-3 consecutive top-level declarations of a std file (60%), a hand-written snippet (20%: status/const/struct/func, {{ }} loops, hanging lines, io_bind, iterate, choose, comments in every position) or a generated const/struct/var block with drawn name lengths (20%), passed through a de-formatter driven by one rapid uint64 per token gap and a per-case style (levels 0/6/30/100/255 per knob): blanks/tabs/FF/VT between tokens or none where lexically safe, joined and split lines where no implicit semicolon changes, line breaks after semicolon-capable tokens (changes the token stream; kept only if the parser still accepts, rejections counted), explicit ';' instead of newlines incl. statements joined on one line, blank-line runs, inserted // comments (trailing, own line, before '}', at EOF, glued to a token, with trailing blanks), CRLF, missing final newline, numeric literals respelled (0X/0B, hex case, underscores moved incl. after the prefix). Oracle per accepted source: Render succeeds; Tokenize(output) has the same token sequence INCLUDING every (implicit or explicit) semicolon, numeric literals compared after stripping '_' and lower-casing; same comments (text modulo trailing white space) at the same position counted in non-semicolon tokens; Parse(output) succeeds; Render(output) == output. Non-trivial = output differs from input and the input has >= 1 comment and >= 1 construct spanning several lines; distinct by source text. (b) dumbindent.FormatBytes run in a worker subprocess (livelocks cannot be stopped in-process): texts from a token grammar (words, punctuation, { } ( ), \"..\" and '..' with escapes, `raw` strings and /* */ comments with embedded newlines/quotes/braces/delimiters of the other kinds, // comments, # lines with backslash continuations, extern \"C\" { / namespace x {, hanging = and \\ lines, blank runs up to 40, CR/FF/VT/NUL at line edges; every delimiter terminated by construction), 70%; lexically closed line ranges of every *.c/*.h/*.cc file in the repository (incl. release/c), 20%; such a range with generated lines spliced in, 10%; x Options{Spaces 0..8, Tabs} x blanks before line 1; <= 64 KiB. Oracle: the call returns (violation: panic, more than 2 MiB + 8 x the largest possible output allocated, or no result in 20 s (60 s on replay)); norm(output) == norm(input) with norm = lines stripped of leading/trailing space and tab, leading and trailing blank lines dropped; FormatBytes(output) == output. Non-trivial = a multi-line comment or raw string and a brace inside a string/comment; distinct by (text, options).",
		assumptions: []string{
			"a source on which parse.Parse returns an error or panics (C11's T1) is not accepted by the formatter and is only counted",
			"dumbindent's domain is decided by a line-based scanner written from its package documentation; texts where C's translation phases and that model disagree about closedness (backslash-newline inside a // comment or string, /* left open on a # line, blank line after a backslash-continued # line) are never generated and skipped if met in a real file",
			"dumbindent drops leading blank lines on purpose (DESIGN 6.1): texts never start with one",
		},
		minNontrivial: 20000,
		quick: tier{jobs: []job{
			{name: "wuffsfmt", run: "^TestPropWuffsfmt$", shards: 16, checks: 4000, timeout: 15 * time.Minute, env: []string{"GOMAXPROCS=2"}},
			{name: "dumbindent", run: "^TestPropDumbindent$", shards: 16, checks: 10000, timeout: 15 * time.Minute, env: []string{"GOMAXPROCS=2"}},
		}},
		thorough: tier{jobs: []job{
			{name: "wuffsfmt", run: "^TestPropWuffsfmt$", shards: 16, checks: 240000, timeout: 90 * time.Minute, env: []string{"GOMAXPROCS=2"}},
			{name: "dumbindent", run: "^TestPropDumbindent$", shards: 16, checks: 480000, timeout: 90 * time.Minute, env: []string{"GOMAXPROCS=2"}},
		}},
	})
}
