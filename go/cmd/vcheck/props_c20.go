package main

import "time"

func init() {
	reg(&prop{
		id: "C20", pkg: "c20", prep: prepGen,
		rule: "(i) every std package, base and the release assembly are compiled by the tree's wuffs-c in 20 (thorough 324) fresh processes under varied GOMAXPROCS (1/4/16), working directory (root, package dir, std/, root through a symlink, outside), absolute vs relative file arguments, TZ/LANG/HOME values, two-at-a-time vs serial invocation; exit status and sha256 must equal the reference that `wuffs gen` wrote during preparation (every fresh process is a fresh sample of Go's randomised map iteration); rapid-generated multi-file packages (1-6 files with names whose lexical, numeric and creation order disagree, 0-8 statuses, 0-6 consts, 1-5 structs embedding each other so that topological order contradicts source order, pub/pri pure/!/? methods) get 6 (thorough 12) runs each, with a sorted or permuted explicit file list; three cases in ten are instead a single-file program of the E2 generator go/wgen (coroutines, helpers over several I/O streams with explicit returns, iterate, io_bind/io_limit, labelled loops, named constants), accepted or rejected, so that statement-level output paths of the code generator are sampled as well; (ii) `wuffs gen` on a scratch root whose files were created in a drawn order (raw readdir order verified to differ from sorted order, vacuous cases counted separately) must produce the bytes of `wuffs-c gen` on the explicit SORTED list; (iii) the snapshot regenerated from the tree's std/ with the tree's tools equals release/c/wuffs-unsupported-snapshot.c byte for byte; (iv) lang/check/gen.go run on a copy of axioms.md (GOMAXPROCS 1/4/16) reproduces lang/check/data.go byte for byte. Non-trivial = accepted package with >= 3 statuses/consts/structs/funcs that has >= 2 source files or is a wgen program; distinct by package hash.",
		assumptions:   []string{"sha256 and os.ReadDir are trusted", "'always' is sampled with a fresh process as the unit; GODEBUG/GOGC and other filesystems are not varied"},
		minNontrivial: 20,
		quick: tier{jobs: []job{
			{name: "std-sweep", run: "^TestStdSweep$", shards: 4, checks: 1, timeout: 25 * time.Minute, env: []string{"VERIF_C20_REPS=5"}},
			{name: "packages", run: "^TestPropPkg$", shards: 4, checks: 20, timeout: 25 * time.Minute, env: []string{"VERIF_C20_GRUNS=6"}},
			{name: "snapshot", run: "^TestSnapshot$", shards: 1, checks: 1, timeout: 10 * time.Minute},
			{name: "axioms", run: "^TestAxioms$", shards: 1, checks: 1, timeout: 10 * time.Minute},
		}},
		thorough: tier{jobs: []job{
			{name: "std-sweep", run: "^TestStdSweep$", shards: 6, checks: 1, timeout: 120 * time.Minute, env: []string{"VERIF_C20_REPS=54"}},
			{name: "packages", run: "^TestPropPkg$", shards: 10, checks: 150, timeout: 120 * time.Minute, env: []string{"VERIF_C20_GRUNS=12"}},
			{name: "snapshot", run: "^TestSnapshot$", shards: 1, checks: 1, timeout: 10 * time.Minute},
			{name: "axioms", run: "^TestAxioms$", shards: 1, checks: 1, timeout: 10 * time.Minute},
		}},
	})
}
