package main

import "time"

var _ = time.Second

func init() {
	reg(&prop{
		id: "C16", pkg: "c16",
		rule: "rapid-generated buffers x limits for lib/flatecut.Cut and lib/zlibcut.Cut. Valid streams: (a) compress/flate at levels {-2,-1,0..9} (weighted to -2,0,1,6,9) over payload classes {empty, 1 byte, tiny, random, text, periodic, long runs, mixed, >32 KiB with far matches} with Flush (also doubled) after random prefixes, compress/zlib without dictionary, and compress/flate with a preset dictionary (unrelated / overlapping the payload / text) wrapped into a zlib FDICT container; (b) a hand-written DEFLATE bit writer emitting 1-6 blocks of stored (length 0, 1-700, 60000-65535, arbitrary padding bits) / fixed / dynamic type from generated literal+match tokens (lengths 3..258, distances 1..32768), dynamic blocks with random complete code-length sets up to 15 bits (balanced, random and skewed trees, steered end-of-block code length 1..15, unused coded symbols, padded HLIT/HDIST/HCLEN, random use of repeat codes 16/17/18, single-code and absent distance trees, degenerate code-length trees), empty Huffman blocks in inner and final position, a trailing empty final block of each type, arbitrary bits after the final end-of-block code; optionally wrapped as zlib (CINFO 0-7, any FLEVEL). Every generated stream is first decoded with the reference decoder and by the harness's own block walker (self-checks). Limits: every value from SmallestValidMaxEncodedLen to len+2 (plus occasionally len+1000, 2^30, 2^30+1, MaxInt32, MaxInt64) for buffers <= 600 bytes; otherwise all limits within 40 of up to 8 block start / data start / block end positions, the first and last 45 limits and 24 random ones; w nil, non-nil or both. Each (buffer, limit, w) Cut call on a fresh copy of the buffer is one evaluation. Oracle on nil error: 0 <= encodedLen <= min(limit, len); compress/flate or compress/zlib (with the dictionary) reading encoded[:encodedLen] from an io.ByteReader returns no error, consumes exactly encodedLen bytes and yields exactly original[:decodedLen]; bytes written to w equal that; limit >= len => decodedLen == len(original). Errors are accepted. Robustness: raw bytes and structure-aware mutations of valid streams (bit flips, truncation, garbage tails, span deletion/duplication, block-header bits, consistent LEN/NLEN rewrites, BFINAL flips, zlib header/trailer damage with valid FCHECK), limits -1..len+3 and extreme values: no panic, and on nil error 0 <= encodedLen <= min(limit, len), decodedLen >= 0; a mutant that the reference decoder still accepts in full is judged as a valid stream. Non-trivial = successful cut with 0 < decodedLen < len(original) whose limit falls strictly inside the data of a Huffman block (after its header, before the end of its end-of-block code) of the original; distinct by (format, buffer, limit, w). Histograms: block type containing the limit, path taken (whole / end-of-block code written into fixed or dynamic block / stored block truncated / earlier block made final / fallback single stored block / fallback empty fixed block), length of the written end-of-block code, stream shapes, error kinds.",
		assumptions: []string{
			"compress/flate and compress/zlib decoders are correct references for DEFLATE/zlib validity and content (a buffer is a 'valid stream' iff they decode it without error consuming all of it)",
			"bytes of the buffer beyond encodedLen, and anything returned together with a non-nil error, are unspecified and not judged",
			"decoded size <= 200 KiB (int32 overflow guards of flatecut are out of reach)",
			"zlib streams whose DEFLATE data references the preset dictionary can only be cut with an error (flatecut has no dictionary input); such errors are accepted like any other",
		},
		minNontrivial: 20000,
		quick:         tier{jobs: []job{{name: "cut", run: "^TestProp$", shards: 16, checks: 1500, timeout: 20 * time.Minute}}},
		thorough: tier{jobs: []job{
			{name: "cut", run: "^TestProp$", shards: 16, checks: 30000, timeout: 90 * time.Minute},
			{name: "fuzz", fuzz: "FuzzCut", fuzzFor: 8 * time.Minute},
		}},
	})
}
