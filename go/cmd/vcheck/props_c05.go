package main

import "time"

func init() {
	reg(&prop{
		id: "C05", pkg: "c05", prep: chain(prepStdh("san"), prepE2),
		rule: "metamorphic, same compiled code (C regenerated from the tree, ASan+UBSan): every std io_transformer, image_decoder and token_decoder decodes an input one-shot (everything available, closed source, ample destination) and again under a drawn partition of source and destination; output bytes / decoded pixels and frame configs / canonical token stream (filler dropped, same-value chain neighbours merged), final status and - unless the final status is an error - consumed bytes must be equal. Inputs: real files from test/data, files from independent Go encoders, 0-2 structure-aware corruptions. Partitions: 1-byte pieces, fixed pieces, EVERY single split point of every corpus file <= 200 bytes (6000 thorough) and every destination window size 1..40 (TestAllSplits), random multi-splits incl. empty pieces, exact-size heap source buffers, growing and fresh exact-size destination windows (history dropped to dst_history_retain_length), token buffers of 1..256. Driver: on $short read supply the next piece, on $short write the next window (doubling it when a window produced no progress, up to 128 KiB), on other suspensions call again. Generated programs (job generated-programs): coroutines from the availability-oblivious subset of the wgen generator (length() only guards a fast path whose else branch is the equal checked slow path; =? only in the retry idiom; multi-byte reads, nested private coroutines with arguments, locals live across suspensions), compiled by the tree's wuffs-c with ASan+UBSan, run one-shot and under 7 fixed partitions plus every single source split point (<= 24) of a drawn opcode stream; output, final status, all public getters and consumed bytes compared. Non-trivial = chunked run that resumed after >= 1 suspension and got past the first header; distinct by (kind, input, partition).",
		assumptions:   []string{"a decoder may demand a minimum of contiguous destination space (std/lzma: 274 bytes); windows that produce no progress are doubled rather than judged", "token streams are compared after canonicalisation because the partition of bytes into tokens is documented as buffer dependent", "known finding S1 (lzma family, partial retention of reported output across $short read) is excluded by construction and replayed separately"},
		minNontrivial: 300,
		quick: tier{jobs: []job{
			{name: "std-chunking", run: "^TestProp$", shards: 16, checks: 100, timeout: 25 * time.Minute},
			{name: "all-splits", run: "^TestAllSplits$", shards: 16, checks: 1, timeout: 25 * time.Minute},
			{name: "history-ring", run: "^TestPropRing$", shards: 16, checks: 12, timeout: 25 * time.Minute},
			{name: "generated-programs", pkg: "e2", run: "^TestPropC05Gen$", shards: 8, checks: 2, timeout: 30 * time.Minute},
		}},
		thorough: tier{jobs: []job{
			{name: "std-chunking", run: "^TestProp$", shards: 16, checks: 6000, timeout: 120 * time.Minute},
			{name: "all-splits", run: "^TestAllSplits$", shards: 16, checks: 1, timeout: 120 * time.Minute},
			{name: "history-ring", run: "^TestPropRing$", shards: 16, checks: 600, timeout: 120 * time.Minute},
			{name: "generated-programs", pkg: "e2", run: "^TestPropC05Gen$", shards: 16, checks: 30, timeout: 180 * time.Minute},
		}},
	})
}
