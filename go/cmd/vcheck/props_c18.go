package main

import "time"

var _ = time.Second

func init() {
	reg(&prop{
		id: "C18", pkg: "c18",
		rule: "enc: rapid-generated histories of Reset / Add1 / Add3 / Add6 on ONE lowleveljpeg.Encoder (1-3 images per case, Reset re-use): colour type gray/4:4:4/4:2:0; complete files of 1..4096 MCUs with dimensions solved for the MCU grid (edge offsets 1, m-1, m), and too-few / wrong-N / invalid-block / nil-argument / failing-writer (in Reset or AddN, 0 or half of the bytes) / invalid-Reset-argument / zero-quantisation-factor / never-Reset / too-many histories over the full [1,65535]^2 range (edge-biased), each followed by 1-3 more calls; options nil / nil factors / explicit tables (all-1, standard tables at qualities 1..100, all-255, random, small, even-only, constant); blocks from a per-case pool: uniformly random in the valid range, all +-1023 with DC -1024/1023, adjusted-diff-all-ones values (0xFF stuffing), sparse with zero runs from {0,1,2,5,14,15,16,17,30..33,47,48,61,62}, image-like decaying, exact ties/multiples of a table of the case, all-zero, DC-only, last-coefficient-only, and invalid blocks (DC 1024/-1025/.., AC 1024/-1024/..). Oracle: an independent baseline-JPEG parser + Huffman decoder written for the harness (computed zig-zag, the file's own DQT/DHT, DC prediction, MCU order, 1-bit padding, EOI directly after the last MCU) recovers every block and requires 2*|v*q - coef| <= q; header dimensions, sampling factors and tables must be the requested ones; image/jpeg.DecodeConfig and Decode must agree; unfinished files are decoded as far as the output reaches; errors must be the documented sentinel(s) applicable to the call and sticky until Reset; testing.AllocsPerRun == 0 for Reset + up to 3 AddN on a non-allocating writer; panics are violations. dct: one 8x8 pixel block per case (random, constant, checkerboards, 0/255 masks, two-level masks, saturated basis-function sign patterns, gradients, level+noise): ForwardDCT(b).IsValid() and |InverseDCT(ForwardDCT(b)) - b| <= 1. Non-trivial = a complete file with >= 2 MCUs in which the reference decoder saw a ZRL (zero run >= 16) or a category >= 10; distinct by hash of the whole case.",
		assumptions: []string{"image/jpeg (standard library) is a correct baseline decoder", "known finding C18-DCT-1: blocks whose exact-arithmetic inverse DCT of the (correctly rounded) integer coefficients is already more than 1.4 away from a pixel are excluded from the within-one check and counted (about 0.15 % of the generated blocks)",
			"complete files are limited to 4096 MCUs; AllocsPerRun is measured on a sample (about 8% of the cases)"},
		minNontrivial: 20000,
		quick: tier{jobs: []job{
			{name: "enc", run: "^TestPropEnc$", shards: 16, checks: 10000, timeout: 15 * time.Minute, env: []string{"GOGC=400", "GOMAXPROCS=2"}},
			{name: "dct", run: "^TestPropDCT$", shards: 16, checks: 20000, timeout: 15 * time.Minute, env: []string{"GOMAXPROCS=2"}},
		}},
		thorough: tier{jobs: []job{
			{name: "enc", run: "^TestPropEnc$", shards: 16, checks: 500000, timeout: 90 * time.Minute, env: []string{"GOGC=400", "GOMAXPROCS=2"}},
			{name: "dct", run: "^TestPropDCT$", shards: 16, checks: 1500000, timeout: 90 * time.Minute, env: []string{"GOMAXPROCS=2"}},
		}},
	})
}
