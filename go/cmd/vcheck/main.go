// vcheck is the driver behind every MANIFEST command:
//
//	vcheck <ID> <quick|thorough> [--replay FILE]
//
// It rebuilds what the property needs from /repo's working tree into a private
// scratch directory, runs the property's jobs (rapid shards, replay tier,
// native fuzzing in the thorough tier), merges the statistics into
// /verif/evidence/<ID>.json, and exits 0 / 1 (+ VIOLATION line) / 2
// (inconclusive: build failure, time-out, starved generator).
package main

import (
	"bytes"
	"context"
	"encoding/json"
	"fmt"
	"os"
	"os/exec"
	"os/signal"
	"path/filepath"
	"sort"
	"strconv"
	"strings"
	"sync"
	"syscall"
	"time"

	"verif/internal/ev"
)

// verifRoot and repoRoot are fixed for registered commands; the environment
// overrides exist only so that development copies (sub-agents working in a
// scratch worktree) can run the same driver without touching /repo or /verif.
var verifRoot = envOr("VERIF_ROOT", "/verif")
var repoRoot = envOr("VERIF_REPO", "/repo")

func envOr(k, d string) string {
	if v := os.Getenv(k); v != "" {
		return v
	}
	return d
}

type job struct {
	name    string
	run     string // -test.run pattern
	shards  int
	checks  int // -rapid.checks per shard
	timeout time.Duration
	env     []string
	pkg     string        // test package of this job when it differs from the property's (e.g. "e2")
	race    bool          // build this job's package with -race
	fuzz    string        // native fuzz target (thorough only); run is ignored
	fuzzFor time.Duration // fuzz time
	steps   int           // -rapid.steps (0 = default)
}

type tier struct {
	jobs []job
}

type prop struct {
	id            string
	pkg           string // package dir relative to /verif/go
	race          bool
	rule          string
	assumptions   []string
	minNontrivial int
	prep          func(c *ctx) error // builds tools, sets c.env
	quick         tier
	thorough      tier
	noReplayTier  bool
}

type ctx struct {
	p       *prop
	tier    string
	seed    int64
	scratch string
	env     []string
	bin     string
	bins    map[string]string
	start   time.Time
	out     string // /verif/out/<ID>
}

func die(code int, format string, a ...any) {
	fmt.Fprintf(os.Stderr, format+"\n", a...)
	cleanup()
	os.Exit(code)
}

var scratchDir string
var cleanupOnce sync.Once

func cleanup() {
	cleanupOnce.Do(func() {
		if scratchDir != "" && os.Getenv("VERIF_KEEP") == "" {
			os.RemoveAll(scratchDir)
		}
	})
}

func baseEnv() []string {
	env := []string{}
	for _, e := range os.Environ() {
		if strings.HasPrefix(e, "GOFLAGS=") || strings.HasPrefix(e, "GOPROXY=") ||
			strings.HasPrefix(e, "GOSUMDB=") || strings.HasPrefix(e, "GOTOOLCHAIN=") {
			continue
		}
		env = append(env, e)
	}
	return append(env, "GOFLAGS=-mod=mod", "GOPROXY=off", "GOSUMDB=off", "GOTOOLCHAIN=local")
}

func runCmd(dir string, env []string, timeout time.Duration, name string, args ...string) ([]byte, error) {
	cctx, cancel := context.WithTimeout(context.Background(), timeout)
	defer cancel()
	cmd := exec.CommandContext(cctx, name, args...)
	cmd.Dir = dir
	cmd.Env = env
	cmd.SysProcAttr = &syscall.SysProcAttr{Setpgid: true}
	cmd.Cancel = func() error { return syscall.Kill(-cmd.Process.Pid, syscall.SIGKILL) }
	out, err := cmd.CombinedOutput()
	if cctx.Err() == context.DeadlineExceeded {
		return out, fmt.Errorf("timeout after %v", timeout)
	}
	return out, err
}

func main() {
	if len(os.Args) < 3 {
		die(2, "usage: vcheck <ID> <quick|thorough> [--replay FILE]")
	}
	id, tierName := os.Args[1], os.Args[2]
	replay := ""
	for i := 3; i < len(os.Args); i++ {
		if os.Args[i] == "--replay" && i+1 < len(os.Args) {
			replay = os.Args[i+1]
			i++
		}
	}
	p := props[id]
	if p == nil {
		die(2, "unknown property %q", id)
	}
	if tierName != "quick" && tierName != "thorough" {
		die(2, "unknown tier %q", tierName)
	}
	seed := int64(1)
	if v, err := strconv.ParseInt(os.Getenv("VERIF_SEED"), 10, 64); err == nil {
		seed = v
	}
	tmp := os.Getenv("TMPDIR")
	if tmp == "" || strings.HasPrefix(tmp, "/tmp") {
		tmp = "/var/tmp"
	}
	os.MkdirAll(tmp, 0o755)
	var err error
	scratchDir, err = os.MkdirTemp(tmp, "vcheck-"+id+"-")
	if err != nil {
		die(2, "mktemp: %v", err)
	}
	sig := make(chan os.Signal, 1)
	signal.Notify(sig, os.Interrupt, syscall.SIGTERM)
	go func() { <-sig; cleanup(); os.Exit(2) }()
	defer cleanup()

	c := &ctx{p: p, tier: tierName, seed: seed, scratch: scratchDir, start: time.Now(),
		out: filepath.Join(verifRoot, "out", id)}
	os.RemoveAll(c.out)
	os.MkdirAll(c.out, 0o755)
	c.env = append(baseEnv(), "VERIF_TIER="+tierName, "VERIF_SEED="+strconv.FormatInt(seed, 10),
		"VERIF_SCRATCH="+scratchDir, "TMPDIR="+scratchDir, "VERIF_ROOT="+verifRoot, "VERIF_REPO="+repoRoot)

	// Build the property's test binary from the current tree.
	c.bin = filepath.Join(scratchDir, id+".test")
	args := []string{"test", "-c", "-tags", "verif", "-o", c.bin}
	if p.race {
		args = append(args, "-race")
	}
	args = append(args, "./"+p.pkg)
	if out, err := runCmd(filepath.Join(verifRoot, "go"), c.env, 10*time.Minute, "go", args...); err != nil {
		fmt.Printf("%s", out)
		die(2, "INCONCLUSIVE property=%s: building the check against /repo failed: %v", id, err)
	}
	// jobs may live in another test package (shared engines): build those binaries too.
	c.bins = map[string]string{p.pkg: c.bin}
	for _, tr := range []tier{p.quick, p.thorough} {
		for _, j := range tr.jobs {
			if j.pkg == "" || c.bins[j.pkg] != "" {
				continue
			}
			bin := filepath.Join(scratchDir, id+"-"+j.pkg+".test")
			a2 := []string{"test", "-c", "-tags", "verif", "-o", bin}
			if j.race {
				a2 = append(a2, "-race")
			}
			a2 = append(a2, "./"+j.pkg)
			if out, err := runCmd(filepath.Join(verifRoot, "go"), c.env, 10*time.Minute, "go", a2...); err != nil {
				fmt.Printf("%s", out)
				die(2, "INCONCLUSIVE property=%s: building the check against /repo failed: %v", id, err)
			}
			c.bins[j.pkg] = bin
		}
	}
	if p.prep != nil {
		if err := p.prep(c); err != nil {
			die(2, "INCONCLUSIVE property=%s: preparation failed: %v", id, err)
		}
	}

	if replay != "" {
		ok, msg := c.replayOne(replay, 10*time.Minute)
		if ok {
			fmt.Printf("replay %s: property holds\n", replay)
			cleanup()
			os.Exit(0)
		}
		fmt.Printf("%s\nVIOLATION property=%s replay=%s\n", msg, id, replay)
		cleanup()
		os.Exit(1)
	}
	code := c.runAll()
	cleanup()
	os.Exit(code)
}

type finding struct {
	Property string `json:"property"`
	ID       string `json:"id"`
	Status   string `json:"status"`
	Commit   string `json:"commit,omitempty"`
	What     string `json:"what"`
	Replay   string `json:"replay"`
	Excluder string `json:"excluder,omitempty"`
}

func loadFindings() []finding {
	b, err := os.ReadFile(filepath.Join(verifRoot, "KNOWN_FINDINGS.json"))
	if err != nil {
		return nil
	}
	var f struct {
		Findings []finding `json:"findings"`
	}
	if json.Unmarshal(b, &f) != nil {
		return nil
	}
	return f.Findings
}

// replayOne runs one replay file in a fresh process. ok = property holds.
func (c *ctx) replayOne(path string, timeout time.Duration) (bool, string) {
	env := append(append([]string{}, c.env...), "VERIF_REPLAY="+path, "VERIF_OUT=", "VERIF_STATS=")
	bin := c.bin
	if rp, err := ev.LoadReplay(path); err == nil && rp.Pkg != "" && c.bins[rp.Pkg] != "" {
		bin = c.bins[rp.Pkg]
	}
	out, err := runCmd(c.scratch, env, timeout, bin, "-test.run", "^TestReplay$", "-test.count=1", "-test.timeout=0")
	if err == nil {
		return true, ""
	}
	return false, tail(string(out), 60)
}

func tail(s string, n int) string {
	lines := strings.Split(strings.TrimRight(s, "\n"), "\n")
	if len(lines) > n {
		lines = lines[len(lines)-n:]
	}
	return strings.Join(lines, "\n")
}

type shardResult struct {
	job     job
	shard   int
	err     error
	out     []byte
	stats   *ev.Stats
	outDir  string
	timeout bool
}

func (c *ctx) runAll() int {
	t := c.p.quick
	if c.tier == "thorough" {
		t = c.p.thorough
	}
	violations := []string{}
	inconclusive := []string{}
	knownLines := 0

	// 1. replay tier: committed regression inputs and known-finding reproducers.
	replayed := 0
	if !c.p.noReplayTier {
		files, _ := filepath.Glob(filepath.Join(verifRoot, "replay", c.p.id, "*.json"))
		sort.Strings(files)
		findings := loadFindings()
		type rr struct {
			ok  bool
			msg string
		}
		res := make([]rr, len(files))
		var wg sync.WaitGroup
		sem := make(chan struct{}, 8)
		for i, f := range files {
			wg.Add(1)
			go func(i int, f string) {
				defer wg.Done()
				sem <- struct{}{}
				defer func() { <-sem }()
				ok, msg := c.replayOne(f, 5*time.Minute)
				res[i] = rr{ok, msg}
			}(i, f)
		}
		wg.Wait()
		for i, f := range files {
			replayed++
			rel, _ := filepath.Rel(verifRoot, f)
			var fd *finding
			for k := range findings {
				if findings[k].Replay == rel && findings[k].Property == c.p.id {
					fd = &findings[k]
				}
			}
			switch {
			case res[i].ok && fd != nil && fd.Status == "known":
				fmt.Printf("note: known finding %s (%s) no longer reproduces\n", fd.ID, rel)
			case res[i].ok:
			case fd != nil && fd.Status == "known":
				fmt.Printf("KNOWN-FINDING: property=%s %s: %s (replay %s)\n", c.p.id, fd.ID, fd.What, rel)
				knownLines++
			default:
				fmt.Printf("%s\n", res[i].msg)
				violations = append(violations, f)
			}
		}
	}

	// 2. the generated campaign.
	var tasks []shardResult
	for _, j := range t.jobs {
		n := j.shards
		if n <= 0 {
			n = 1
		}
		for s := 0; s < n; s++ {
			tasks = append(tasks, shardResult{job: j, shard: s})
		}
	}
	results := make([]shardResult, len(tasks))
	var wg sync.WaitGroup
	par := 16
	if v, err := strconv.Atoi(os.Getenv("VERIF_PAR")); err == nil && v > 0 {
		par = v
	}
	sem := make(chan struct{}, par)
	for i := range tasks {
		wg.Add(1)
		go func(i int) {
			defer wg.Done()
			sem <- struct{}{}
			defer func() { <-sem }()
			results[i] = c.runShard(tasks[i], i)
		}(i)
	}
	wg.Wait()

	seenViol := map[string]bool{}
	merged := ev.Stats{Classes: map[string]int64{}, Excluded: map[string]int64{}}
	hashSet := map[uint64]struct{}{}
	for _, r := range results {
		if r.stats != nil {
			merged.Evaluations += r.stats.Evaluations
			for _, h := range r.stats.Hashes {
				hashSet[h] = struct{}{}
			}
			for k, v := range r.stats.Classes {
				merged.Classes[k] += v
			}
			for k, v := range r.stats.Excluded {
				merged.Excluded[k] += v
			}
			if len(merged.Samples) < 8 {
				for _, s := range r.stats.Samples {
					if len(merged.Samples) < 8 {
						merged.Samples = append(merged.Samples, s)
					}
				}
			}
			for _, n := range r.stats.Notes {
				if len(merged.Notes) < 30 {
					merged.Notes = append(merged.Notes, n)
				}
			}
			merged.HashesCap = merged.HashesCap || r.stats.HashesCap
		}
		if r.err == nil {
			continue
		}
		// A failing shard: look for shrunk failure files.
		fails, _ := filepath.Glob(filepath.Join(r.outDir, "fail-*.json"))
		if len(fails) == 0 {
			fails, _ = filepath.Glob(filepath.Join(r.outDir, "testdata", "fuzz", "*", "*"))
		}
		if len(fails) == 0 {
			why := "failed without a reproducer"
			if r.timeout {
				why = "hit the safety time-out"
			}
			fmt.Printf("---- job %s shard %d %s:\n%s\n", r.job.name, r.shard, why, tail(string(r.out), 40))
			inconclusive = append(inconclusive, fmt.Sprintf("%s/%d %s", r.job.name, r.shard, why))
			continue
		}
		for _, f := range fails {
			b, _ := os.ReadFile(f)
			kind := "case"
			var rp0 ev.Replay
			if json.Unmarshal(b, &rp0) == nil && rp0.Kind != "" {
				kind = strings.ReplaceAll(rp0.Kind, "/", "_")
			}
			dst := filepath.Join(c.out, fmt.Sprintf("%s-%016x.json", kind, ev.Hash([]byte(rp0.Case))))
			if strings.Contains(f, "/testdata/fuzz/") {
				// native fuzz crasher: wrap into a replay file
				rp := ev.Replay{Property: c.p.id, Kind: "fuzz:" + filepath.Base(filepath.Dir(f))}
				raw, _ := json.Marshal(string(b))
				rp.Case = raw
				b, _ = json.MarshalIndent(rp, "", " ")
				dst = filepath.Join(c.out, fmt.Sprintf("fuzz-%s-%016x.json", filepath.Base(filepath.Dir(f)), ev.Hash(b)))
			}
			if seenViol[dst] || len(violations) >= 5 {
				continue
			}
			seenViol[dst] = true
			os.WriteFile(dst, b, 0o644)
			ok, msg := c.replayOne(dst, 10*time.Minute)
			if ok {
				fmt.Printf("---- job %s shard %d: failure did not reproduce from %s (flaky; inconclusive)\n%s\n", r.job.name, r.shard, dst, tail(string(r.out), 30))
				inconclusive = append(inconclusive, "non-reproducible failure "+dst)
				continue
			}
			fmt.Printf("---- job %s shard %d: confirmed on replay:\n%s\n", r.job.name, r.shard, msg)
			violations = append(violations, dst)
		}
	}
	merged.Hashes = nil
	distinct := len(hashSet)

	// 3. evidence.
	wall := time.Since(c.start).Seconds()
	cov := map[string]any{
		"evaluations":         merged.Evaluations,
		"distinct_nontrivial": distinct,
		"rule":                c.p.rule,
		"samples":             merged.Samples,
		"classes":             merged.Classes,
		"replay_files_run":    replayed,
		"known_findings":      knownLines,
	}
	if len(merged.Excluded) > 0 {
		cov["excluded_by_known_finding"] = merged.Excluded
	}
	if len(merged.Notes) > 0 {
		cov["notes"] = merged.Notes
	}
	if len(inconclusive) > 0 {
		cov["inconclusive"] = inconclusive
	}
	if merged.Samples == nil {
		cov["samples"] = []any{}
	}
	evd := map[string]any{
		"property_id": c.p.id,
		"tier":        c.tier,
		"seed":        c.seed,
		"level":       "exploration",
		"coverage":    cov,
		"assumptions": c.p.assumptions,
		"wall_s":      wall,
		"violations":  len(violations),
	}
	b, _ := json.MarshalIndent(evd, "", " ")
	os.MkdirAll(filepath.Join(verifRoot, "evidence"), 0o755)
	if err := os.WriteFile(filepath.Join(verifRoot, "evidence", c.p.id+".json"), append(b, '\n'), 0o644); err != nil {
		fmt.Printf("cannot write evidence: %v\n", err)
		return 2
	}
	fmt.Printf("property=%s tier=%s seed=%d evaluations=%d distinct_nontrivial=%d replayed=%d wall=%.1fs\n",
		c.p.id, c.tier, c.seed, merged.Evaluations, distinct, replayed, wall)
	keys := make([]string, 0, len(merged.Classes))
	for k := range merged.Classes {
		keys = append(keys, k)
	}
	sort.Strings(keys)
	var hb bytes.Buffer
	for _, k := range keys {
		fmt.Fprintf(&hb, " %s=%d", k, merged.Classes[k])
	}
	fmt.Printf("classes:%s\n", hb.String())

	if len(violations) > 0 {
		for _, v := range violations {
			fmt.Printf("VIOLATION property=%s replay=%s\n", c.p.id, v)
		}
		return 1
	}
	if len(inconclusive) > 0 {
		fmt.Printf("INCONCLUSIVE property=%s: %s\n", c.p.id, strings.Join(inconclusive, "; "))
		return 2
	}
	if distinct < c.p.minNontrivial {
		fmt.Printf("INCONCLUSIVE property=%s: generator degenerate: %d distinct non-trivial cases < %d required\n", c.p.id, distinct, c.p.minNontrivial)
		return 2
	}
	return 0
}

func (c *ctx) runShard(t shardResult, idx int) shardResult {
	j := t.job
	dir := filepath.Join(c.scratch, fmt.Sprintf("shard-%d", idx))
	os.MkdirAll(dir, 0o755)
	t.outDir = dir
	stats := filepath.Join(dir, "stats.json")
	seed := c.seed*1_000_003 + int64(t.shard)*7919 + int64(len(j.name))*104_729 + 1
	if seed <= 0 {
		seed = -seed + 1
	}
	env := append(append([]string{}, c.env...), "VERIF_OUT="+dir, "VERIF_STATS="+stats,
		"VERIF_SHARD="+strconv.Itoa(t.shard), "VERIF_NSHARDS="+strconv.Itoa(max(1, j.shards)),
		"VERIF_SHARD_SEED="+strconv.FormatInt(seed, 10), "VERIF_JOB_PKG="+j.pkg)
	env = append(env, j.env...)
	timeout := j.timeout
	if timeout == 0 {
		timeout = 20 * time.Minute
	}
	var args []string
	if j.fuzz != "" {
		args = []string{"-test.run", "^$", "-test.fuzz", "^" + j.fuzz + "$", "-test.fuzztime", j.fuzzFor.String(),
			"-test.fuzzcachedir", filepath.Join(dir, "fuzzcache"), "-test.timeout=0", "-test.parallel", "16"}
		timeout = j.fuzzFor + 5*time.Minute
	} else {
		args = []string{"-test.run", j.run, "-test.count=1", "-test.timeout=0",
			"-rapid.seed=" + strconv.FormatInt(seed, 10), "-rapid.checks=" + strconv.Itoa(max(1, j.checks)),
			"-rapid.nofailfile", "-rapid.shrinktime=20s"}
		if j.steps > 0 {
			args = append(args, "-rapid.steps="+strconv.Itoa(j.steps))
		}
	}
	bin := c.bin
	if j.pkg != "" {
		bin = c.bins[j.pkg]
	}
	out, err := runCmd(dir, env, timeout, bin, args...)
	t.out, t.err = out, err
	if err != nil && strings.HasPrefix(err.Error(), "timeout") {
		t.timeout = true
	}
	if b, e := os.ReadFile(stats); e == nil {
		s := &ev.Stats{}
		if json.Unmarshal(b, s) == nil {
			t.stats = s
		}
	}
	if os.Getenv("VERIF_VERBOSE") != "" {
		fmt.Printf("== %s/%d: %v\n%s\n", j.name, t.shard, err, tail(string(out), 20))
	}
	return t
}
