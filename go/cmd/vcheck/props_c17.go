package main

import (
	"path/filepath"
	"time"
)

var _ = time.Second

func init() {
	reg(&prop{
		id: "C17", pkg: "c17", prep: chain(prepStdh("san"), func(c *ctx) error {
			c.env = append(c.env, "VERIF_STDH_DECODE="+filepath.Join(c.scratch, "stdh-san"))
			return nil
		}),
		rule:          "Round trips: rapid-generated payload recipes (segments: literal bytes biased to 0xFF/0x00/0x7F/0x80, byte runs, PRNG-incompressible, English-like text, small-alphabet mixes, 'adv' = bytes chosen greedily on a local simulation of the range encoder to keep `low` in 0xFF00_0000..0xFFFF_FFFF (long pending-0xFF chains, optionally resolved by a forced carry / forced non-carry) or to maximise carries, 'edge' = a chunk whose raw LZMA stream length is within a drawn delta (-6..+8) of its own length, found by bisection on the simulator) x {LZMA, XZ} x dst prefixes for Encode and Decode (nil, empty-with-capacity, 1..40 bytes, with spare capacity) x optional trailing bytes after the file; sizes 0, 1, 2..255, 256..4096 (bulk), 127/128/129/16383/16384/16385 (index varint edges), 65535/65536/65537/131071/131072/131073/196608/196609 (chunk framing), runs up to 200000, up to 1 MiB (few). Oracles: Encode err==nil and prefix preserved; Decode(Encode(x)) == prefix+x, err==nil, remaining source == exactly the trailer; src arguments unmodified; on a sample `/usr/bin/xz -dc --format=lzma|xz` (one subprocess per case) exits 0 and yields x; Wuffs std decoders via $VERIF_STDH_DECODE when set. Non-trivial = payload >= 256 bytes; distinct by (format, payload). Robustness: a valid file (or raw bytes, or a valid 13/24-byte header + arbitrary/all-zero body) with 0..4 mutations (byte set/xor/insert/delete/truncate/duplicate/append; LZMA header size field set to 0, 2^16..2^63-1, -1, -2, actual+-k; LZMA2 chunk control/size/props bytes; end marker, block padding, block CRC; index indicator/count/varints incl. overlong; index padding/CRC; footer CRC/backward size/flags/magic; CRC fix-ups so deeper fields are reached); Decode must not panic, must append <= 64*len(src)+64 bytes, keep the dst prefix, leave src unmodified and return a remaining source that is a suffix of src; a per-case watchdog on live heap (768 MiB) / 120 s catches unbounded work. Non-trivial = mutated/raw input whose 13-byte LZMA header (props, dict, size >= 0) or 24-byte XZ header still parses; distinct by (format, bytes).",
		assumptions:   []string{"/usr/bin/xz (XZ Utils, liblzma) is a correct full LZMA/XZ decoder", "the Wuffs std/lzma and std/xz decoders are only consulted when $VERIF_STDH_DECODE names the C harness (otherwise counted as wuffs-decoder-skipped)", "payloads above 1 MiB are not generated"},
		minNontrivial: 20000,
		quick: tier{jobs: []job{
			{name: "roundtrip", run: "^TestPropRoundTrip$", shards: 16, checks: 1200, timeout: 20 * time.Minute},
			{name: "robust", run: "^TestPropRobust$", shards: 16, checks: 6000, timeout: 20 * time.Minute},
		}},
		thorough: tier{jobs: []job{
			{name: "roundtrip", run: "^TestPropRoundTrip$", shards: 16, checks: 20000, timeout: 90 * time.Minute},
			{name: "robust", run: "^TestPropRobust$", shards: 16, checks: 150000, timeout: 90 * time.Minute},
			{name: "fuzz-decode", fuzz: "FuzzDecode", fuzzFor: 8 * time.Minute},
		}},
	})
}
