package main

import "time"

var _ = time.Second

func init() {
	reg(&prop{
		id: "C14", pkg: "c14", race: true,
		rule: "stateful, model-based: a rapid t.Repeat state machine (<= 60 steps) drives one rac.Reader through Read(len in {0, 1, small, to-next-chunk-boundary+-, 64KiB+-1, medium, > file, to-limit+-1}), Seek(offset, whence) incl. negative, past-EOF, huge, no-op and invalid-whence seeks, SeekRange(lo, hi) incl. lo>hi, empty, beyond EOF, same-position limit changes, Close and calls after Close, and compares every call with an in-memory model (bytes.Reader plus a SeekRange limit): positions, counts, bytes, io.EOF, error class, sticky errors. Files: 17 catalog files written by rac.Writer/raczlib (1..2000 chunks, zero-heavy payloads with all-zero chunks and implicit-zero tails, shared dictionaries, two-level index, both index locations, CPageSize, DChunkSize 64..100000 and default, CChunkSize), rac.ChunkWriter (irregular chunk sizes 1..131073, Zeroes codec), raclz4, raczstd, plus 1/6 freshly drawn random files; each payload is written with a single Write call and the file is validated by an independent spec-derived index walker + compress/zlib decoder and by a sequential full read. Concurrency in {0,1 (50%), 2,3,8 (50%)}, GOMAXPROCS in {1,2,16} set per history, source = harness-owned io.ReaderAt (or pure io.ReadSeeker for Concurrency 0) injecting Gosched/sleeps from a drawn schedule. The test binary is built with -race; every call runs under a watchdog (deadlock = all goroutines of the reader parked in the same channel operations in two stop-the-world dumps); after Close no goroutine with a lib/rac frame may remain and the source must not be touched again. Non-trivial = history with >= 1 seek to a non-chunk-aligned offset followed by a read crossing >= 1 chunk boundary and, for Concurrency >= 2, >= 1 Seek/SeekRange issued while earlier work was outstanding that was followed by a read (a cancel); distinct by (file hash, history hash, concurrency).",
		assumptions: []string{
			"goroutine interleavings are sampled (GOMAXPROCS, injected yields/sleeps, -race scheduling noise), not enumerated",
			"the source never fails: I/O error paths are C15's domain",
			"a call that neither returns nor is provably deadlocked within 120 s is reported as a hang and must reproduce on replay",
			"payloads are written with one Write call (known writer defect R1); files whose sequential decode differs from the payload while the independent decoder cannot vouch for them are excluded and counted",
		},
		minNontrivial: 300,
		quick:         tier{jobs: []job{{name: "histories", run: "^TestProp$", shards: 16, checks: 400, steps: 60, timeout: 40 * time.Minute}}},
		thorough: tier{jobs: []job{
			{name: "histories", run: "^TestProp$", shards: 16, checks: 6000, steps: 60, timeout: 90 * time.Minute},
			{name: "short-histories", run: "^TestProp$", shards: 16, checks: 4000, steps: 12, timeout: 90 * time.Minute},
		}},
	})
}
