package main

import "time"

func init() {
	reg(&prop{
		id: "C09", pkg: "c09", prep: prepStdh("san", "noarch", "o2"),
		rule: "differential against a baseline run (zero-filled memory, default initialize flags, fresh object, zero-filled destination/work memory, ASan build with the CPU-specific paths) of the same input under the same chunking plan. Variants: ALREADY_ZEROED over zeroed memory; LEAVE_INTERNAL_BUFFERS_UNINITIALIZED over 0xFF and over pseudo-random garbage; default flags over garbage; re-initialisation of the same memory after a complete or aborted decode of a DIFFERENT input (either flag set); destination bytes beyond wi and the work buffer pre-filled with 0xFF/garbage; the same run on the WUFFS_CONFIG__AVOID_CPU_ARCH build (portable fallbacks) and on an -O2 build without sanitizers. Compared: output bytes / pixel-buffer hash per frame and at the end / canonical token stream / hash value, every frame config and dirty rect, final status, consumed bytes, number of calls and suspensions and the first 24 per-call (status, ri, wi) records. Inputs: all 30 std kinds; EVERY single-bit corruption of every corpus file <= 160 bytes (1200 thorough) decoded over garbage memory with LEAVE_INTERNAL_BUFFERS_UNINITIALIZED (TestBitFlips); every corpus file up to 24 KiB (64 KiB thorough) cut at 32 spread positions (every position up to 64 bytes) decoded over garbage object memory, a garbage work buffer of exactly the requested length and garbage destination slack (TestTruncations); half of all drawn variants additionally get garbage work buffer and destination slack; a cpu-paths job compares the default build with the AVOID_CPU_ARCH build on hashers and deflate-based decoders over payloads of up to 200000 bytes, half of them long runs of the largest byte values (worst case of accumulators that defer a modulo); corpus files, files from Go encoders (incl. image/jpeg at qualities 1-100), 0-2 corruptions; JPEG on the portable build only for unmodified encoder/corpus files (the property's documented IDCT exception). Non-trivial = baseline produced >= 64 output bytes / a decoded frame / >= 8 tokens / a hash; distinct by (kind, input, variant, build).",
		assumptions:   []string{"destination bytes beyond wi are not compared (undefined per doc/note/io-input-output.md); the canvas under decoded pixels is zero in both runs", "this sandbox's CPUs report sse4.2, avx2 and bmi2, so every x86 choose-alternative is reachable; the harness prints the detected features and the class arch-clause-not-exercisable-on-this-cpu appears otherwise"},
		minNontrivial: 300,
		quick: tier{jobs: []job{
			{name: "determinism", run: "^TestProp$", shards: 16, checks: 100, timeout: 25 * time.Minute},
			{name: "bit-flips", run: "^TestBitFlips$", shards: 16, checks: 1, timeout: 25 * time.Minute},
			{name: "truncations", run: "^TestTruncations$", shards: 16, checks: 1, timeout: 25 * time.Minute},
			{name: "cpu-paths", run: "^TestPropArch$", shards: 16, checks: 25, timeout: 25 * time.Minute},
		}},
		thorough: tier{jobs: []job{
			{name: "determinism", run: "^TestProp$", shards: 16, checks: 5000, timeout: 120 * time.Minute},
			{name: "bit-flips", run: "^TestBitFlips$", shards: 16, checks: 1, timeout: 120 * time.Minute, env: []string{"VERIF_C09_FLIPMAX=1200"}},
			{name: "truncations", run: "^TestTruncations$", shards: 16, checks: 1, timeout: 120 * time.Minute},
			{name: "cpu-paths", run: "^TestPropArch$", shards: 16, checks: 1500, timeout: 120 * time.Minute},
		}},
	})
}
