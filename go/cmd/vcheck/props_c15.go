package main

import "time"

var _ = time.Second

func init() {
	reg(&prop{
		id: "C15", pkg: "c15",
		rule: "rapid-generated base file + 8 hostile variants each. Base = (a) rac.Writer+raczlib output (1..4000 payload bytes, DChunkSize/CChunkSize, 1..700 chunks incl. multi-level, CPageSize, index at start/end, optional shared dictionary), (b) a spec-valid file assembled by hand with verif/racspec.Build (depth <= 4, arity 1..240, nodes mixing leaf and branch children, CBiasing regions at start/end, out-of-order and shared CPtrs, gaps, empty chunks, implicit-zero tails, resources, codecs zlib / zeroes / long zeroes / unknown long codec with Mix Bit), (c) raw bytes with or without magic. Variant = unmodified, or 1-3 index-aware mutations of a branch node found by the independent walker with the checksum recomputed (arity both/first/last, DPtr swap/set, DPtrMax, CPtr > CPtrMax, CPtr set, CPtrMax, CLen, STag, TTag incl. reserved range / 0xFD / 0xFE, CBiasing STag, codec byte / Mix Bit / long codec / Codec Element with a 2^48 pointer used as CBias, version, reserved bytes, magic, checksum, pointer to itself / parent / sibling / any node / middle of a node / last 0-4 bytes, cycles of length 1-3 made reachable, dictionary length / checksum lies, raw byte flips), or truncation at node boundaries +-1 (claiming the new or the old size), or a claimed CompressedSize differing by -100000..+2^20; source with or without io.ReaderAt; 0-4 seeks. Oracle: rac.ChunkReader (DecompressedSize, NextChunk loop, NextChunk after an error, SeekToChunkContaining) and rac.Reader+raczlib (capped sequential read, second Reader, Concurrency=2, Seek+Read) under recover(); the io.ReadSeeker counts calls and the loops count iterations: more than 64*(max(size/16, index entries the spec obliges a reader to visit)+256) operations is a violation; every returned chunk has 0 <= CPrimary[0] <= CPrimary[1] <= CompressedSize and a non-empty DRange contiguous from 0, io.EOF only at DecompressedSize; SeekToChunkContaining(p) yields a chunk containing p; a file whose sequential read succeeds gives identical bytes on a second Reader, with Concurrency=2 and through Seek+Read. Non-trivial = the root node of the hostile file still validates and an index byte (or the size) differs from the base; distinct by (file bytes, claimed size).",
		assumptions: []string{
			"error texts are never compared; any error return is acceptable",
			"at most 1 MiB of decompressed data is read per Reader, and seeks on files that do not decode completely stay below 1 MiB (a hostile DRange can be 2^48 bytes of implicit zeroes)",
			"files whose index shares sub-trees so heavily that a spec walker needs more than 8*(size/16)+4096 visits (index bombs: the format allows chunk counts exponential in the file size) are exercised but their work is not judged",
			"only the pure-Go zlib codec reader is attached; lz4/zstd chunks are reported as 'no matching CodecReader'",
			"trees deeper than 4 are not generated: the reader re-resolves from the root for every leaf node, O(leaf nodes * depth)",
		},
		minNontrivial: 3000,
		quick:         tier{jobs: []job{{name: "hostile", run: "^TestProp$", shards: 16, checks: 800, timeout: 20 * time.Minute}}},
		thorough: tier{jobs: []job{
			{name: "hostile", run: "^TestProp$", shards: 16, checks: 15000, timeout: 90 * time.Minute},
			{name: "fuzz", fuzz: "FuzzChunkReader", fuzzFor: 15 * time.Minute, shards: 1},
		}},
	})
}
