// Package stdgen holds the shared input generators for the std properties
// (C03, C05, C07, C08, C09, C10): the corpus of real files from
// /repo/test/data, on-the-fly reference encoders, payload classes, chunking
// plans and structure-aware mutators. Every random choice is a rapid draw.
package stdgen

import (
	"bytes"
	"compress/flate"
	"compress/gzip"
	"compress/lzw"
	"compress/zlib"
	"encoding/binary"
	"fmt"
	"hash/adler32"
	"hash/crc32"
	"image"
	"image/color"
	"image/gif"
	"image/jpeg"
	"image/png"
	"os"
	"os/exec"
	"path/filepath"
	"sort"
	"strings"
	"sync"

	"golang.org/x/image/bmp"
	"pgregory.net/rapid"
)

var extKind = map[string]string{
	".bmp": "bmp", ".gif": "gif", ".jpeg": "jpeg", ".jpg": "jpeg", ".png": "png", ".apng": "png", ".webp": "webp",
	".pkm": "etc2", ".nie": "nie", ".nii": "nie", ".ppm": "netpbm", ".pgm": "netpbm", ".pbm": "netpbm", ".qoi": "qoi",
	".tga": "targa", ".wbmp": "wbmp", ".th": "thumbhash", ".handsum": "handsum",
	".bz2": "bzip2", ".deflate": "deflate", ".gz": "gzip", ".lz": "lzip", ".lzma": "lzma", ".giflzw": "lzw",
	".xz": "xz", ".zlib": "zlib", ".cbor": "cbor", ".json": "json",
}

// File is one corpus file.
type File struct {
	Name string
	Data []byte
}

// Corpus maps package name (e.g. "png") to real files of that format.
type Corpus struct {
	ByPkg map[string][]File
}

var (
	corpusOnce sync.Once
	corpus     *Corpus
)

// LoadCorpus walks <repo>/test/data once per process.
func LoadCorpus(repo string) *Corpus {
	corpusOnce.Do(func() {
		c := &Corpus{ByPkg: map[string][]File{}}
		filepath.Walk(filepath.Join(repo, "test", "data"), func(p string, info os.FileInfo, err error) error {
			if err != nil || info.IsDir() {
				return nil
			}
			pkg := extKind[strings.ToLower(filepath.Ext(p))]
			if pkg == "" || info.Size() > 400<<10 {
				return nil
			}
			b, err := os.ReadFile(p)
			if err != nil {
				return nil
			}
			rel, _ := filepath.Rel(repo, p)
			c.ByPkg[pkg] = append(c.ByPkg[pkg], File{rel, b})
			if pkg == "webp" {
				// the raw VP8 frame inside a lossy WebP is a valid input of the vp8 decoder
				if i := bytes.Index(b, []byte("VP8 ")); i >= 0 && i+8 <= len(b) {
					n := int(binary.LittleEndian.Uint32(b[i+4:]))
					if i+8+n <= len(b) {
						c.ByPkg["vp8"] = append(c.ByPkg["vp8"], File{rel + "#VP8", b[i+8 : i+8+n]})
					}
				}
			}
			return nil
		})
		for k := range c.ByPkg {
			fs := c.ByPkg[k]
			sort.Slice(fs, func(i, j int) bool { return fs[i].Name < fs[j].Name })
		}
		corpus = c
	})
	return corpus
}

// Small returns the corpus files of pkg not larger than max bytes.
func (c *Corpus) Small(pkg string, max int) []File {
	var out []File
	for _, f := range c.ByPkg[pkg] {
		if len(f.Data) <= max {
			out = append(out, f)
		}
	}
	return out
}

// ---------------------------------------------------------------- payloads

var words = strings.Fields("the of and a to in is you that it he was for on are as with his they I at be this have from or one had by word but not what all were we when your can said there use an each which she do how their if will up other about out many then them these so some her would make like him into time has look two more write go see number no way could people my than first water been call who oil its now find long down day did get come made may part")

// Payload draws a byte string from the classes the properties call out.
func Payload(t *rapid.T, label string, max int) []byte {
	if max < 16 {
		max = 16
	}
	class := rapid.IntRange(0, 17).Draw(t, label+"_class")
	size := func(lo, hi int) int {
		if hi > max {
			hi = max
		}
		if lo > hi {
			lo = hi
		}
		return rapid.IntRange(lo, hi).Draw(t, label+"_n")
	}
	switch class {
	case 0:
		return []byte{}
	case 1:
		return []byte{rapid.Byte().Draw(t, label+"_b")}
	case 2, 3: // random
		n := size(2, 600)
		return rapid.SliceOfN(rapid.Byte(), n, n).Draw(t, label+"_rand")
	case 4, 5: // text-like
		n := size(10, 4000)
		var sb bytes.Buffer
		seed := rapid.Uint32().Draw(t, label+"_seed")
		x := uint64(seed)*2862933555777941757 + 3037000493
		for sb.Len() < n {
			x = x*6364136223846793005 + 1442695040888963407
			sb.WriteString(words[(x>>33)%uint64(len(words))])
			if (x>>20)%11 == 0 {
				sb.WriteString(".\n")
			} else {
				sb.WriteByte(' ')
			}
		}
		return sb.Bytes()[:n]
	case 6: // highly repetitive
		unit := rapid.SliceOfN(rapid.Byte(), 1, 12).Draw(t, label+"_unit")
		n := size(20, 20000)
		return bytes.Repeat(unit, n/len(unit)+1)[:n]
	case 7: // long runs of few symbols
		n := size(20, 8000)
		out := make([]byte, 0, n)
		for len(out) < n {
			b := rapid.SampledFrom([]byte{0, 0, 0xFF, 'a', 'b', 7}).Draw(t, label+"_sym")
			l := rapid.IntRange(1, 700).Draw(t, label+"_run")
			for i := 0; i < l && len(out) < n; i++ {
				out = append(out, b)
			}
		}
		return out
	case 8: // > 32 KiB window with far matches
		if max < 70000 {
			n := size(100, max)
			return pseudo(rapid.Uint32().Draw(t, label+"_seed"), n, 97)
		}
		head := pseudo(rapid.Uint32().Draw(t, label+"_seed"), 3000, 251)
		mid := pseudo(7, rapid.IntRange(30000, 40000).Draw(t, label+"_mid"), 13)
		return append(append(append([]byte{}, head...), mid...), head...)
	case 9: // > 64 KiB
		if max < 70000 {
			n := size(100, max)
			return pseudo(rapid.Uint32().Draw(t, label+"_seed"), n, 5)
		}
		return pseudo(rapid.Uint32().Draw(t, label+"_seed"), rapid.IntRange(65537, 90000).Draw(t, label+"_n"), 31)
	case 12, 13: // "book": lines drawn from a small pool, so that long matches occur at every distance of the
		// 32 KiB window and (when the caller allows > 32 KiB) across every lap of a ring buffer of history
		if max >= 70000 && rapid.IntRange(0, 2).Draw(t, label+"_big") > 0 {
			if rapid.Bool().Draw(t, label+"_straddle") {
				return Straddle(t, label, max)
			}
			return Book(t, label, 33000, max)
		}
		return Book(t, label, 200, min(6000, max))
	case 16, 17: // long runs of the largest byte values after a short prefix: the worst case for checksum accumulators
		// that defer their modulo (Adler-32's 5552-byte blocks) and for run-length paths
		n := max - rapid.IntRange(0, max-1).Draw(t, label+"_hshort") // (long is the common case)
		out := make([]byte, 0, n+300)
		np := rapid.IntRange(0, 300).Draw(t, label+"_hprefix")
		for i := 0; i < np; i++ {
			out = append(out, byte(0xFF-rapid.IntRange(0, 16).Draw(t, fmt.Sprintf("%s_hp%d", label, i))))
		}
		hi := byte(0xFF - rapid.IntRange(0, 2).Draw(t, label+"_hbyte"))
		for len(out) < n {
			out = append(out, hi)
		}
		return out[:n]
	case 14, 15: // segments of different compressibility (an encoder switches block / chunk types between them)
		k := rapid.IntRange(2, 4).Draw(t, label+"_nseg")
		var out []byte
		for i := 0; i < k; i++ {
			lim := max / k
			n := lim - rapid.IntRange(0, lim-1).Draw(t, fmt.Sprintf("%s_seglen%d", label, i)) // (rapid favours small values: long segments are the common case)
			switch rapid.IntRange(0, 3).Draw(t, fmt.Sprintf("%s_segkind%d", label, i)) {
			case 0:
				out = append(out, pseudo(rapid.Uint32().Draw(t, fmt.Sprintf("%s_segseed%d", label, i)), n, 256)...)
			case 1:
				out = append(out, Book(t, fmt.Sprintf("%s_segbook%d", label, i), n, n)...)
			case 2:
				out = append(out, bytes.Repeat([]byte{byte(rapid.SampledFrom([]int{0, 0xFF, 'a'}).Draw(t, fmt.Sprintf("%s_segfill%d", label, i)))}, n)...)
			default:
				out = append(out, pseudo(rapid.Uint32().Draw(t, fmt.Sprintf("%s_segseed%d", label, i)), n, 4)...)
			}
		}
		return out
	default: // small structured
		n := size(1, 300)
		out := make([]byte, n)
		m := rapid.IntRange(1, 8).Draw(t, label+"_alpha")
		seed := rapid.Uint32().Draw(t, label+"_seed")
		x := uint64(seed) + 1
		for i := range out {
			x = x*6364136223846793005 + 1442695040888963407
			out[i] = byte('a' + (x>>40)%uint64(m))
		}
		return out
	}
}

// Straddle returns 40000..hi bytes of noise with planted repeats whose SOURCE
// straddles every multiple of 32768 (the lap boundary of a 32 KiB history ring
// buffer) at several distances, so that an LZ77 encoder emits back-references
// that a streaming decoder must serve from the two ends of its history.
func Straddle(t *rapid.T, label string, hi int) []byte {
	n := hi - rapid.IntRange(0, max(hi-40000, 0)).Draw(t, label+"_short") // (rapid favours small values: long payloads are the common case)
	var out []byte
	if rapid.IntRange(0, 3).Draw(t, label+"_bg") == 3 {
		out = pseudo(rapid.Uint32().Draw(t, label+"_seed"), n, 256) // noise: only encoders that search exhaustively find the repeats
	} else {
		out = Book(t, label+"_bgbook", n, n) // compressible background keeps every encoder matching
	}
	noise := pseudo(rapid.Uint32().Draw(t, label+"_useed"), 4096, 256)
	ni := 0
	for k := 1; k*32768 < n; k++ {
		for _, d := range []int{300, 1000, 4100, 8200, 16400, 30000} {
			if rapid.IntRange(0, 2).Draw(t, fmt.Sprintf("%s_use%d_%d", label, k, d)) == 2 { // (planting is the common case)
				continue
			}
			l := 258 - rapid.IntRange(0, 238).Draw(t, fmt.Sprintf("%s_len%d_%d", label, k, d))
			src := k*32768 - 1 - rapid.IntRange(0, l-2).Draw(t, fmt.Sprintf("%s_off%d_%d", label, k, d))
			pos := k*32768 + d + rapid.IntRange(0, 40).Draw(t, fmt.Sprintf("%s_jit%d_%d", label, k, d))
			if src < 0 || pos+l > n || pos < src+l {
				continue
			}
			if d == 300 && ni+l <= len(noise) {
				copy(out[src:src+l], noise[ni:ni+l]) // a unique segment across the boundary
				ni += l
			}
			copy(out[pos:pos+l], out[src:src+l])
		}
	}
	return out
}

// Book returns lo..hi bytes made of lines drawn from a small pool of random lines.
func Book(t *rapid.T, label string, lo, hi int) []byte {
	if lo > hi {
		lo = hi
	}
	n := rapid.IntRange(lo, hi).Draw(t, label+"_bookn")
	seed := rapid.Uint32().Draw(t, label+"_seed")
	npool := rapid.SampledFrom([]int{40, 200, 1000}).Draw(t, label+"_pool")
	x := uint64(seed)*2862933555777941757 + 3037000493
	next := func() uint64 {
		x = x*6364136223846793005 + 1442695040888963407
		return x >> 33
	}
	pool := make([][]byte, npool)
	for i := range pool {
		l := 8 + int(next()%300)
		ln := make([]byte, l)
		for k := range ln {
			ln[k] = byte(next())
		}
		pool[i] = ln
	}
	out := make([]byte, 0, n+400)
	for len(out) < n {
		out = append(out, pool[next()%uint64(npool)]...)
		if next()%4 == 0 {
			out = append(out, byte(next())) // shifts alignment
		}
	}
	return out[:n]
}

// pseudo returns n bytes of an LCG restricted to an alphabet of the given size.
func pseudo(seed uint32, n int, alphabet int) []byte {
	out := make([]byte, n)
	x := uint64(seed)*0x9E3779B97F4A7C15 + 1
	for i := range out {
		x = x*6364136223846793005 + 1442695040888963407
		out[i] = byte((x >> 35) % uint64(alphabet))
	}
	return out
}

// ---------------------------------------------------------------- reference encoders

// Encoded is a valid file produced by an independent encoder.
type Encoded struct {
	Pkg      string // decoder package that must accept it
	Data     []byte
	Original []byte // expected decoded bytes (compression formats)
	Img      image.Image
	Features []string
	Quirks   [][2]uint64
}

// Deflate encodes with compress/flate at a drawn level with drawn Flush points.
func Deflate(t *rapid.T, payload []byte, label string) ([]byte, []string) {
	level := rapid.SampledFrom([]int{6, 1, 9, -2, 0}).Draw(t, label+"_level")
	var buf bytes.Buffer
	w, _ := flate.NewWriter(&buf, level)
	feats := []string{"level" + itoa(level)}
	nflush := rapid.IntRange(0, 3).Draw(t, label+"_nflush")
	rest := payload
	for i := 0; i < nflush; i++ {
		k := rapid.IntRange(0, len(rest)).Draw(t, label+"_cut")
		w.Write(rest[:k])
		w.Flush()
		rest = rest[k:]
	}
	if nflush > 0 {
		feats = append(feats, "multi-block")
	}
	w.Write(rest)
	w.Close()
	return buf.Bytes(), feats
}

func itoa(i int) string {
	if i < 0 {
		return "m" + itoa(-i)
	}
	if i < 10 {
		return string(rune('0' + i))
	}
	return itoa(i/10) + string(rune('0'+i%10))
}

// Compressed draws a compression format among those with an in-process Go
// encoder (deflate, zlib, gzip, lzw) and encodes payload.
func Compressed(t *rapid.T, payload []byte, label string) Encoded {
	switch rapid.IntRange(0, 4).Draw(t, label+"_fmt") {
	case 0:
		d, f := Deflate(t, payload, label)
		return Encoded{Pkg: "deflate", Data: d, Original: payload, Features: f}
	case 1:
		level := rapid.SampledFrom([]int{6, 1, 9, -2, 0}).Draw(t, label+"_level")
		var buf bytes.Buffer
		w, _ := zlib.NewWriterLevel(&buf, level)
		feats := []string{"level" + itoa(level)}
		if rapid.Bool().Draw(t, label+"_flush") && len(payload) > 0 {
			k := rapid.IntRange(0, len(payload)).Draw(t, label+"_cut")
			w.Write(payload[:k])
			w.Flush()
			w.Write(payload[k:])
			feats = append(feats, "multi-block")
		} else {
			w.Write(payload)
		}
		w.Close()
		return Encoded{Pkg: "zlib", Data: buf.Bytes(), Original: payload, Features: feats}
	case 2, 3:
		level := rapid.SampledFrom([]int{6, 1, 9, -2, 0}).Draw(t, label+"_level")
		var buf bytes.Buffer
		w, _ := gzip.NewWriterLevel(&buf, level)
		feats := []string{"level" + itoa(level)}
		hv := rapid.IntRange(0, 3).Draw(t, label+"_hdr")
		if hv&1 != 0 {
			w.Name = "file-name.txt"
			w.Comment = "a comment"
			feats = append(feats, "gzip-name-comment")
		}
		if hv&2 != 0 {
			w.Extra = []byte{1, 2, 3, 4, 5}
			feats = append(feats, "gzip-extra")
		}
		w.Write(payload)
		w.Close()
		return Encoded{Pkg: "gzip", Data: buf.Bytes(), Original: payload, Features: feats}
	default:
		// LZW as used by GIF: LSB order; literal width 2..8 (the decoder's
		// quirk holds the width; 8 is its default). Payload bytes must fit.
		lw := rapid.SampledFrom([]int{8, 8, 8, 2, 3, 4, 5, 6, 7}).Draw(t, label+"_litwidth")
		p := payload
		if lw < 8 {
			p = make([]byte, len(payload))
			for i, b := range payload {
				p[i] = b & byte((1<<lw)-1)
			}
		}
		var buf bytes.Buffer
		w := lzw.NewWriter(&buf, lzw.LSB, lw)
		w.Write(p)
		w.Close()
		e := Encoded{Pkg: "lzw", Data: buf.Bytes(), Original: p, Features: []string{"litwidth" + itoa(lw)}}
		if lw != 8 {
			// wuffs_lzw__quirk_literal_width_plus_one = 1290672128 (0x4CEE2400 | 0)
			e.Quirks = [][2]uint64{{QuirkLZWLiteralWidthPlusOne, uint64(lw + 1)}}
		}
		return e
	}
}

// QuirkLZWLiteralWidthPlusOne is std/lzw's quirk key (checked against the generated C by c07's self-test).
const QuirkLZWLiteralWidthPlusOne = 1290672128

var (
	toolMu    sync.Mutex
	toolCache = map[string][]byte{}
)

// ToolCompress runs a system compressor (bzip2 or xz) on payload; results are cached per process.
func ToolCompress(args []string, payload []byte) ([]byte, error) {
	key := strings.Join(args, " ") + "|" + string(payload)
	toolMu.Lock()
	if v, ok := toolCache[key]; ok {
		toolMu.Unlock()
		return v, nil
	}
	toolMu.Unlock()
	cmd := exec.Command(args[0], args[1:]...)
	cmd.Stdin = bytes.NewReader(payload)
	out, err := cmd.Output()
	if err != nil {
		return nil, err
	}
	toolMu.Lock()
	if len(toolCache) < 2000 {
		toolCache[key] = out
	}
	toolMu.Unlock()
	return out, nil
}

// ---------------------------------------------------------------- images

// Image draws a small image of a drawn colour model.
func Image(t *rapid.T, label string, maxDim int) (image.Image, string) {
	w := rapid.IntRange(1, maxDim).Draw(t, label+"_w")
	h := rapid.IntRange(1, maxDim).Draw(t, label+"_h")
	seed := rapid.Uint32().Draw(t, label+"_seed")
	style := rapid.IntRange(0, 3).Draw(t, label+"_style") // 0 noise, 1 gradient, 2 flat blocks, 3 few colours
	x := uint64(seed)*0x9E3779B97F4A7C15 + 7
	next := func() uint64 { x = x*6364136223846793005 + 1442695040888963407; return x >> 24 }
	val := func(px, py, ch int) uint16 {
		switch style {
		case 0:
			return uint16(next())
		case 1:
			return uint16((px*65535/(w+1) + py*977*(ch+1)) & 0xFFFF)
		case 2:
			return uint16(((px/4 + py/3 + ch) * 12345) & 0xFFFF)
		default:
			return uint16((next() % 3) * 32767)
		}
	}
	r := image.Rect(0, 0, w, h)
	model := rapid.SampledFrom([]string{"gray", "gray16", "rgba", "nrgba", "nrgba64", "paletted", "paletted-small", "rgba64"}).Draw(t, label+"_model")
	switch model {
	case "gray":
		m := image.NewGray(r)
		for i := range m.Pix {
			m.Pix[i] = uint8(val(i%w, i/w, 0) >> 8)
		}
		return m, model
	case "gray16":
		m := image.NewGray16(r)
		for py := 0; py < h; py++ {
			for px := 0; px < w; px++ {
				m.SetGray16(px, py, color.Gray16{val(px, py, 0)})
			}
		}
		return m, model
	case "rgba": // opaque
		m := image.NewRGBA(r)
		for py := 0; py < h; py++ {
			for px := 0; px < w; px++ {
				m.SetRGBA(px, py, color.RGBA{uint8(val(px, py, 0) >> 8), uint8(val(px, py, 1) >> 8), uint8(val(px, py, 2) >> 8), 0xFF})
			}
		}
		return m, model
	case "nrgba":
		m := image.NewNRGBA(r)
		for py := 0; py < h; py++ {
			for px := 0; px < w; px++ {
				m.SetNRGBA(px, py, color.NRGBA{uint8(val(px, py, 0) >> 8), uint8(val(px, py, 1) >> 8), uint8(val(px, py, 2) >> 8), uint8(val(px, py, 3) >> 8)})
			}
		}
		return m, model
	case "nrgba64":
		m := image.NewNRGBA64(r)
		for py := 0; py < h; py++ {
			for px := 0; px < w; px++ {
				m.SetNRGBA64(px, py, color.NRGBA64{val(px, py, 0), val(px, py, 1), val(px, py, 2), val(px, py, 3)})
			}
		}
		return m, model
	case "rgba64":
		m := image.NewRGBA64(r)
		for py := 0; py < h; py++ {
			for px := 0; px < w; px++ {
				m.SetRGBA64(px, py, color.RGBA64{val(px, py, 0), val(px, py, 1), val(px, py, 2), 0xFFFF})
			}
		}
		return m, model
	default:
		n := 256
		if model == "paletted-small" {
			n = rapid.SampledFrom([]int{2, 3, 4, 15, 16, 17}).Draw(t, label+"_npal")
		} else {
			n = rapid.IntRange(17, 256).Draw(t, label+"_npal")
		}
		pal := make(color.Palette, n)
		for i := range pal {
			v := next()
			a := uint8(0xFF)
			if i == 0 && v&1 == 0 {
				a = 0
			}
			pal[i] = color.NRGBA{uint8(v), uint8(v >> 8), uint8(v >> 16), a}
		}
		m := image.NewPaletted(r, pal)
		for i := range m.Pix {
			m.Pix[i] = uint8(uint64(val(i%w, i/w, 0)) % uint64(n))
		}
		return m, model
	}
}

// PNG encodes with image/png at a drawn compression level.
func PNG(t *rapid.T, m image.Image, label string) []byte {
	lvl := rapid.SampledFrom([]png.CompressionLevel{png.DefaultCompression, png.NoCompression, png.BestSpeed, png.BestCompression}).Draw(t, label+"_lvl")
	var buf bytes.Buffer
	(&png.Encoder{CompressionLevel: lvl}).Encode(&buf, m)
	return buf.Bytes()
}

// GIF encodes one or more frames with image/gif.
func GIF(t *rapid.T, label string, maxDim int) ([]byte, *gif.GIF) {
	nf := rapid.IntRange(1, 4).Draw(t, label+"_frames")
	g := &gif.GIF{}
	var w0, h0 int
	for i := 0; i < nf; i++ {
		var m image.Image
		for {
			var model string
			m, model = Image(t, label+"_f"+itoa(i), maxDim)
			_ = model
			break
		}
		pm, ok := m.(*image.Paletted)
		if !ok {
			// quantise with a fixed palette
			pal := color.Palette{}
			for r := 0; r < 6; r++ {
				for gg := 0; gg < 6; gg++ {
					for b := 0; b < 6; b++ {
						pal = append(pal, color.RGBA{uint8(r * 51), uint8(gg * 51), uint8(b * 51), 0xFF})
					}
				}
			}
			pm = image.NewPaletted(m.Bounds(), pal)
			for y := 0; y < m.Bounds().Dy(); y++ {
				for x := 0; x < m.Bounds().Dx(); x++ {
					pm.Set(x, y, m.At(x, y))
				}
			}
		}
		if i == 0 {
			w0, h0 = pm.Bounds().Dx(), pm.Bounds().Dy()
		} else {
			// later frames must lie inside the first frame's bounds
			b := pm.Bounds()
			if b.Dx() > w0 || b.Dy() > h0 {
				sub := image.Rect(0, 0, min(b.Dx(), w0), min(b.Dy(), h0))
				npm := image.NewPaletted(sub, pm.Palette)
				for y := 0; y < sub.Dy(); y++ {
					for x := 0; x < sub.Dx(); x++ {
						npm.SetColorIndex(x, y, pm.ColorIndexAt(x, y))
					}
				}
				pm = npm
			}
		}
		g.Image = append(g.Image, pm)
		g.Delay = append(g.Delay, rapid.IntRange(0, 20).Draw(t, label+"_delay"))
		g.Disposal = append(g.Disposal, byte(rapid.IntRange(0, 3).Draw(t, label+"_disp")))
	}
	g.Config = image.Config{Width: w0, Height: h0}
	var buf bytes.Buffer
	if err := gif.EncodeAll(&buf, g); err != nil {
		return nil, nil
	}
	return buf.Bytes(), g
}

// JPEG encodes with image/jpeg (baseline, 4:2:0 for colour) at a drawn quality.
func JPEG(t *rapid.T, m image.Image, label string) []byte {
	q := rapid.IntRange(1, 100).Draw(t, label+"_q")
	var buf bytes.Buffer
	jpeg.Encode(&buf, m, &jpeg.Options{Quality: q})
	return buf.Bytes()
}

// BMP encodes with golang.org/x/image/bmp.
func BMP(m image.Image) []byte {
	var buf bytes.Buffer
	bmp.Encode(&buf, m)
	return buf.Bytes()
}

// ---------------------------------------------------------------- chunk plans

// Plan is a source/destination partition.
type Plan struct {
	SrcMode  uint8    `json:"src_mode"` // 0 one-shot, 1 fixed, 2 list
	SrcChunk uint32   `json:"src_chunk,omitempty"`
	SrcList  []uint32 `json:"src_list,omitempty"`
	SrcExact bool     `json:"src_exact"`
	Closed   bool     `json:"closed"` // source gets closed once everything is supplied
	// LateClose: the end of the stream is reported by a separate empty supply
	// after the last byte (as a file or a socket does), not together with it.
	LateClose bool   `json:"late_close,omitempty"`
	DstMode   uint8  `json:"dst_mode"` // 0 ample, 1 growing, 2 fresh windows
	DstStep   uint32 `json:"dst_step,omitempty"`
	DstFill   uint8  `json:"dst_fill,omitempty"`
	WorkMode  uint8  `json:"work_mode,omitempty"`
	WorkFill  uint8  `json:"work_fill,omitempty"`
	TokCap    uint32 `json:"tok_cap,omitempty"`
}

// OneShot is the reference plan: everything available, closed, ample destination.
var OneShot = Plan{SrcExact: true, Closed: true}

// Trivial reports whether p is the one-shot plan shape.
func (p Plan) Trivial() bool { return p.SrcMode == 0 && p.DstMode == 0 && !p.LateClose }

// DrawPlan draws a chunking plan. n is the payload length.
func DrawPlan(t *rapid.T, label string, n int) Plan {
	p := Plan{SrcExact: true, Closed: true}
	switch rapid.IntRange(0, 9).Draw(t, label+"_src") {
	case 0:
		p.SrcMode = 0
	case 1, 2:
		p.SrcMode = 1
		p.SrcChunk = 1
	case 3, 4:
		p.SrcMode = 1
		p.SrcChunk = uint32(rapid.SampledFrom([]int{2, 3, 7, 64, 255, 977, 4096}).Draw(t, label+"_chunk"))
	case 5, 6: // a single split point
		p.SrcMode = 2
		k := rapid.IntRange(0, max(n, 1)).Draw(t, label+"_split")
		p.SrcList = []uint32{uint32(k), 1 << 30}
	default: // random multi-splits
		p.SrcMode = 2
		m := rapid.IntRange(2, 12).Draw(t, label+"_nsplit")
		for i := 0; i < m; i++ {
			p.SrcList = append(p.SrcList, uint32(rapid.SampledFrom([]int{0, 1, 1, 2, 3, 7, 19, 100, 1000}).Draw(t, label+"_piece")))
		}
	}
	if rapid.IntRange(0, 5).Draw(t, label+"_exact") == 0 {
		p.SrcExact = false
	}
	// keep the number of calls per run bounded: tiny pieces only on small inputs
	if n > 3000 {
		floor := uint32(n / 1500)
		if p.SrcMode == 1 && p.SrcChunk < floor {
			p.SrcChunk = floor
		}
		if p.SrcMode == 2 && len(p.SrcList) > 2 {
			for i := range p.SrcList {
				if p.SrcList[i] < floor {
					p.SrcList[i] += floor
				}
			}
		}
	}
	switch rapid.IntRange(0, 5).Draw(t, label+"_dst") {
	case 0, 1:
		p.DstMode = 0
	case 2:
		p.DstMode = 1
		p.DstStep = uint32(rapid.SampledFrom([]int{1, 2, 3, 7, 100, 4096}).Draw(t, label+"_dstep"))
	default:
		p.DstMode = 2
		p.DstStep = uint32(rapid.SampledFrom([]int{1, 1, 2, 3, 7, 100, 258, 512, 1024, 4096, 4096, 8192, 16384, 32768, 40000}).Draw(t, label+"_dstep"))
	}
	if n > 3000 && p.DstMode != 0 && p.DstStep < 64 {
		p.DstStep += 64
	}
	p.DstFill = rapid.SampledFrom([]uint8{0, 0xFF, 0xFE}).Draw(t, label+"_dfill")
	p.WorkFill = rapid.SampledFrom([]uint8{0, 0xFE}).Draw(t, label+"_wfill")
	p.WorkMode = uint8(rapid.SampledFrom([]int{0, 0, 0, 1}).Draw(t, label+"_wmode"))
	p.TokCap = uint32(rapid.SampledFrom([]int{0, 1, 2, 3, 16, 256}).Draw(t, label+"_tokcap"))
	p.LateClose = rapid.IntRange(0, 3).Draw(t, label+"_lateclose") == 0
	return p
}

// ---------------------------------------------------------------- mutation

// Mutate applies a structure-aware corruption to a valid file of format pkg.
func Mutate(t *rapid.T, label, pkg string, b []byte) ([]byte, string) {
	out := append([]byte(nil), b...)
	if len(out) == 0 {
		return []byte{rapid.Byte().Draw(t, label+"_b")}, "from-empty"
	}
	kind := rapid.IntRange(0, 9).Draw(t, label+"_mut")
	head := func() int { // a position biased towards headers
		if rapid.IntRange(0, 2).Draw(t, label+"_where") == 0 {
			return rapid.IntRange(0, len(out)-1).Draw(t, label+"_pos")
		}
		return rapid.IntRange(0, min(len(out)-1, 96)).Draw(t, label+"_pos")
	}
	name := ""
	switch kind {
	case 0:
		k := rapid.IntRange(0, len(out)).Draw(t, label+"_trunc")
		out = out[:k]
		name = "truncate"
	case 1, 2:
		n := rapid.IntRange(1, 4).Draw(t, label+"_nflip")
		for i := 0; i < n; i++ {
			p := head()
			out[p] ^= 1 << rapid.IntRange(0, 7).Draw(t, label+"_bit")
		}
		name = "bitflip"
	case 3:
		p := head()
		out[p] = rapid.SampledFrom([]byte{0, 1, 0x7F, 0x80, 0xFE, 0xFF}).Draw(t, label+"_val")
		name = "byte-extreme"
	case 4: // overwrite a 16/32-bit field with an extreme
		p := head()
		v := rapid.SampledFrom([]uint32{0, 1, 0x7FFF, 0x8000, 0xFFFF, 0x7FFFFFFF, 0x80000000, 0xFFFFFFFF, 0x00010000}).Draw(t, label+"_u32")
		var tmp [4]byte
		if rapid.Bool().Draw(t, label+"_be") {
			binary.BigEndian.PutUint32(tmp[:], v)
		} else {
			binary.LittleEndian.PutUint32(tmp[:], v)
		}
		copy(out[p:], tmp[:])
		name = "field-extreme"
	case 5: // splice: copy a region over another
		if len(out) >= 8 {
			l := rapid.IntRange(1, min(64, len(out)/2)).Draw(t, label+"_len")
			from := rapid.IntRange(0, len(out)-l).Draw(t, label+"_from")
			to := rapid.IntRange(0, len(out)-l).Draw(t, label+"_to")
			copy(out[to:to+l], append([]byte(nil), out[from:from+l]...))
		}
		name = "splice"
	case 6: // delete a region
		if len(out) >= 4 {
			l := rapid.IntRange(1, min(32, len(out)-1)).Draw(t, label+"_len")
			p := rapid.IntRange(0, len(out)-l).Draw(t, label+"_pos")
			out = append(out[:p], out[p+l:]...)
		}
		name = "delete"
	case 7: // insert bytes
		p := rapid.IntRange(0, len(out)).Draw(t, label+"_pos")
		ins := rapid.SliceOfN(rapid.Byte(), 1, 16).Draw(t, label+"_ins")
		out = append(out[:p], append(ins, out[p:]...)...)
		name = "insert"
	case 8: // append garbage / duplicate tail
		out = append(out, out[len(out)/2:]...)
		name = "dup-tail"
	default: // random bytes over a window
		p := head()
		l := rapid.IntRange(1, min(16, len(out)-p)).Draw(t, label+"_len")
		rb := rapid.SliceOfN(rapid.Byte(), l, l).Draw(t, label+"_rand")
		copy(out[p:], rb)
		name = "random-window"
	}
	if rapid.Bool().Draw(t, label+"_repair") {
		if r, ok := Repair(pkg, out); ok {
			return r, name + "+checksum-repaired"
		}
	}
	return out, name
}

// Repair recomputes the checksums of formats whose layout it knows, so that a
// corrupted file gets past integrity checks and exercises deeper decoder code.
func Repair(pkg string, b []byte) ([]byte, bool) {
	out := append([]byte(nil), b...)
	switch pkg {
	case "png":
		if len(out) < 8 {
			return nil, false
		}
		p := 8
		n := 0
		for p+12 <= len(out) {
			l := int(binary.BigEndian.Uint32(out[p:]))
			if l < 0 || p+12+l > len(out) {
				break
			}
			c := crc32.ChecksumIEEE(out[p+4 : p+8+l])
			binary.BigEndian.PutUint32(out[p+8+l:], c)
			p += 12 + l
			n++
		}
		return out, n > 0
	case "gzip":
		if len(out) < 18 {
			return nil, false
		}
		fr := flate.NewReader(bytes.NewReader(skipGzipHeader(out)))
		var dec bytes.Buffer
		dec.ReadFrom(fr)
		binary.LittleEndian.PutUint32(out[len(out)-8:], crc32.ChecksumIEEE(dec.Bytes()))
		binary.LittleEndian.PutUint32(out[len(out)-4:], uint32(dec.Len()))
		return out, true
	case "zlib":
		if len(out) < 6 {
			return nil, false
		}
		fr := flate.NewReader(bytes.NewReader(out[2:]))
		var dec bytes.Buffer
		dec.ReadFrom(fr)
		binary.BigEndian.PutUint32(out[len(out)-4:], adler32.Checksum(dec.Bytes()))
		return out, true
	}
	return nil, false
}

func skipGzipHeader(b []byte) []byte {
	if len(b) < 10 {
		return nil
	}
	flg := b[3]
	p := 10
	if flg&4 != 0 && p+2 <= len(b) {
		p += 2 + int(binary.LittleEndian.Uint16(b[p:]))
	}
	for _, bit := range []byte{8, 16} {
		if flg&bit != 0 {
			for p < len(b) && b[p] != 0 {
				p++
			}
			p++
		}
	}
	if flg&2 != 0 {
		p += 2
	}
	if p > len(b) {
		return nil
	}
	return b[p:]
}
