// Package c03 decides property C03: the generated standard library is
// memory-safe and well-behaved on any input (sanitizers, allocator stubs,
// I/O-contract invariants, justified suspensions, bounded work).
package c03

import (
	"encoding/json"
	"fmt"
	"testing"

	"pgregory.net/rapid"

	"verif/internal/ev"
	"verif/stdgen"
	"verif/stdh"
	"verif/stdrun"
)

func TestMain(m *testing.M) { ev.Main(m) }

// Case is one replayable run.
type Case struct {
	Kind    string      `json:"kind"`
	Payload []byte      `json:"payload"`
	Plan    stdgen.Plan `json:"plan"`
	Opts    stdrun.Opts `json:"opts"`
	Source  string      `json:"source"`
	Variant string      `json:"variant,omitempty"`
}

func maxFile() int {
	if ev.Thorough() {
		return 64 << 10
	}
	return 24 << 10
}

// genInput draws (payload, description) for a decoder of package pkg.
func genInput(t *rapid.T, env *stdrun.Env, k stdh.Kind) ([]byte, string) {
	pkg := k.Pkg()
	c := stdgen.LoadCorpus(ev.RepoRoot())
	if k.Iface >= stdh.H32 {
		return stdgen.Payload(t, "pl", 200000), "hash-payload"
	}
	files := c.Small(pkg, maxFile())
	src := rapid.IntRange(0, 9).Draw(t, "source")
	var base []byte
	desc := ""
	switch {
	case src <= 4 && len(files) > 0:
		f := files[rapid.IntRange(0, len(files)-1).Draw(t, "file")]
		base, desc = f.Data, "corpus:"+f.Name
	case src <= 7:
		switch pkg {
		case "deflate", "zlib", "gzip", "lzw":
			for i := 0; i < 8; i++ {
				e := stdgen.Compressed(t, stdgen.Payload(t, "pl", 6000), "enc")
				if e.Pkg == pkg || i == 7 {
					base, desc = e.Data, "encoded:"+e.Pkg
					break
				}
			}
		case "png":
			m, model := stdgen.Image(t, "img", 40)
			base, desc = stdgen.PNG(t, m, "png"), "image/png:"+model
		case "gif":
			b, _ := stdgen.GIF(t, "gif", 24)
			base, desc = b, "image/gif"
		case "jpeg":
			m, model := stdgen.Image(t, "img", 40)
			base, desc = stdgen.JPEG(t, m, "jpg"), "image/jpeg:"+model
		case "bmp":
			m, model := stdgen.Image(t, "img", 40)
			base, desc = stdgen.BMP(m), "x/image/bmp:"+model
		}
		if base == nil && len(files) > 0 {
			f := files[rapid.IntRange(0, len(files)-1).Draw(t, "file")]
			base, desc = f.Data, "corpus:"+f.Name
		}
	case src == 8: // cross-format confusion
		all := []string{"png", "gif", "jpeg", "bmp", "gzip", "zlib", "bzip2", "xz", "json", "webp", "nie", "targa"}
		other := all[rapid.IntRange(0, len(all)-1).Draw(t, "other")]
		of := c.Small(other, maxFile())
		if len(of) > 0 {
			f := of[rapid.IntRange(0, len(of)-1).Draw(t, "ofile")]
			base, desc = f.Data, "cross:"+f.Name
		}
	}
	if base == nil {
		return rapid.SliceOfN(rapid.Byte(), 0, 300).Draw(t, "raw"), "raw-bytes"
	}
	nmut := rapid.SampledFrom([]int{0, 0, 1, 1, 1, 2, 3}).Draw(t, "nmut")
	for i := 0; i < nmut; i++ {
		var name string
		base, name = stdgen.Mutate(t, fmt.Sprintf("m%d", i), pkg, base)
		desc += "+" + name
	}
	return base, desc
}

func genCase(t *rapid.T, env *stdrun.Env) Case {
	k := env.Kinds[rapid.IntRange(0, len(env.Kinds)-1).Draw(t, "kind")]
	payload, desc := genInput(t, env, k)
	c := Case{Kind: k.Name, Payload: payload, Source: desc}
	c.Plan = stdgen.DrawPlan(t, "plan", len(payload))
	if rapid.IntRange(0, 9).Draw(t, "unclosed") == 0 {
		c.Plan.Closed = false
	}
	if rapid.IntRange(0, 11).Draw(t, "workshort") == 0 {
		c.Plan.WorkMode = 2 // one byte less than the minimum: must be a clean error
	}
	c.Opts.Flags = uint32(rapid.SampledFrom([]int{0, 0, 0, 2}).Draw(t, "flags"))
	c.Opts.Prefill = rapid.SampledFrom([]uint8{0, 0xFF, stdh.PrefillRandom}).Draw(t, "prefill")
	c.Opts.PixFmt = uint32(rapid.SampledFrom([]int{0, 0, 1, 0x80000565, 0x81008888, 0x82008888, 0x20000008, 0x8100BBBB, 0xA0008888}).Draw(t, "pixfmt"))
	c.Opts.Blend = uint8(rapid.IntRange(0, 1).Draw(t, "blend"))
	c.Opts.PixFill = rapid.SampledFrom([]uint8{0, 0xFF, 0xFE}).Draw(t, "pixfill")
	c.Opts.Pure = rapid.IntRange(0, 3).Draw(t, "pure") == 0
	if k.Iface == stdh.IMG {
		// a pixel buffer smaller than the image is legal: the decoder must clip (first value = the image's own size)
		c.Opts.Clip = rapid.SampledFrom([]uint8{0, 0, 0, 1, 2, 3, 4, 5}).Draw(t, "clip")
	}
	c.Opts.Seed = uint64(rapid.Uint32().Draw(t, "seed"))
	if rapid.IntRange(0, 7).Draw(t, "quirk") == 0 {
		// "ignore checksum" style quirk of the base package: key 1, any value
		c.Opts.Quirks = [][2]uint64{{1, 1}}
	}
	return c
}

func checkCase(env *stdrun.Env, c Case) (msg string, nontrivial bool, classes []string) {
	k, ok := env.Kind(c.Kind)
	if !ok {
		return "", false, []string{"unknown-kind"}
	}
	variant := c.Variant
	if variant == "" {
		variant = "san"
	}
	resp, err := env.Run(variant, k, c.Payload, c.Plan, c.Opts)
	if err != nil {
		if ce, ok := stdh.IsCrash(err); ok {
			return fmt.Sprintf("%s on %s (%d bytes, %s): %v", c.Kind, variant, len(c.Payload), c.Source, ce), false, nil
		}
		return "", false, []string{"harness-error:" + err.Error()}
	}
	if len(resp.Violations) > 0 {
		return fmt.Sprintf("%s (%d bytes, %s, final status %q after %d calls): %v", c.Kind, len(c.Payload), c.Source, resp.Final, resp.NCalls, resp.Violations), false, nil
	}
	for _, s := range resp.Inits {
		if s != "" {
			return fmt.Sprintf("%s: initialize with default arguments failed: %s", c.Kind, s), false, nil
		}
	}
	classes = append(classes, "iface-"+[]string{"io_transformer", "image_decoder", "token_decoder", "hasher_u32", "hasher_u64", "hasher_bitvec256"}[k.Iface])
	switch {
	case resp.Final == "" || resp.Final[0] == '@':
		classes = append(classes, "final-ok-or-note")
	case resp.Final[0] == '#':
		classes = append(classes, "final-error")
	case resp.Final[0] == '$':
		classes = append(classes, "final-suspension")
	}
	if resp.GaveUp {
		classes = append(classes, "gave-up")
	}
	if resp.NShortRead > 0 {
		classes = append(classes, "resumed-after-short-read")
	}
	if resp.NShortWrite > 0 {
		classes = append(classes, "resumed-after-short-write")
	}
	if c.Opts.Pure && resp.NPure > 0 {
		classes = append(classes, "pure-probed")
	}
	if c.Opts.Clip != 0 && resp.HaveImage {
		classes = append(classes, "pixel-buffer-smaller-than-image")
	}
	if c.Plan.WorkMode == 2 && resp.WorkMin > 0 {
		classes = append(classes, "workbuf-too-short")
	}
	prog := stdrun.Progressed(resp)
	if prog {
		classes = append(classes, "past-header")
	}
	nontrivial = prog && !c.Plan.Trivial() && (resp.NShortRead+resp.NShortWrite > 0 || k.Iface >= stdh.H32)
	return "", nontrivial, classes
}

func runCase(t interface{ Fatalf(string, ...any) }, env *stdrun.Env, c Case) {
	ev.Eval()
	msg, nt, classes := checkCase(env, c)
	if msg != "" {
		ev.Fail("C03", "std-safety", c, msg)
		t.Fatalf("C03 violated: %s", msg)
	}
	for _, cl := range classes {
		ev.Class(cl)
	}
	if nt {
		ev.Nontrivial(ev.Hash(c.Kind, c.Payload, fmt.Sprintf("%+v", c.Plan)), func() any {
			s := c
			if len(s.Payload) > 64 {
				s.Payload = s.Payload[:64]
				s.Source += fmt.Sprintf(" (payload truncated in this sample; %d bytes)", len(c.Payload))
			}
			return s
		})
	}
}

func TestProp(t *testing.T) {
	env, err := stdrun.Get()
	if err != nil {
		t.Fatal(err)
	}
	defer env.Close()
	rapid.Check(t, func(t *rapid.T) {
		runCase(t, env, genCase(t, env))
	})
}

func TestReplay(t *testing.T) {
	p := ev.ReplayPath()
	if p == "" {
		t.Skip("no VERIF_REPLAY")
	}
	env, err := stdrun.Get()
	if err != nil {
		t.Fatal(err)
	}
	defer env.Close()
	r, err := ev.LoadReplay(p)
	if err != nil {
		t.Fatal(err)
	}
	var c Case
	if err := json.Unmarshal(r.Case, &c); err != nil {
		t.Fatal(err)
	}
	runCase(t, env, c)
}
