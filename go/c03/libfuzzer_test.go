package c03

import (
	"bytes"
	"fmt"
	"os"
	"os/exec"
	"path/filepath"
	"regexp"
	"strconv"
	"strings"
	"testing"
	"time"

	"verif/internal/ev"
	"verif/stdgen"
	"verif/stdh"
	"verif/stdrun"
)

// fuzzCase is the inverse of the mapping in c/stdh_fuzz.c: a libFuzzer input
// (4 header bytes + payload) as the Case that the ordinary harness protocol
// executes identically.
func fuzzCase(env *stdrun.Env, data []byte) (Case, bool) {
	if len(data) < 4 {
		return Case{}, false
	}
	k := env.Kinds[int(data[0])%len(env.Kinds)]
	srcc, dstc, flags := data[1], data[2], data[3]
	if stdrun.LZMAFamily[k.Pkg()] {
		srcc, dstc = 0, 0
	}
	p := stdgen.Plan{SrcExact: true, Closed: true}
	if srcc != 0 {
		p.SrcMode, p.SrcChunk = 1, uint32(srcc)
	}
	if dstc != 0 {
		p.DstMode, p.DstStep = 2, uint32(dstc)
	}
	p.WorkMode = flags & 1
	c := Case{Kind: k.Name, Payload: append([]byte(nil), data[4:]...), Plan: p, Source: "libfuzzer"}
	c.Opts.DstCap = 1 << 17
	c.Opts.MaxPixels = 1 << 16
	c.Opts.Pure = flags&2 != 0
	c.Opts.Alarm = 60
	return c, true
}

// TestLibFuzzer (thorough tier): coverage-guided fuzzing of every std decoder
// through the sanitizer-built harness (c/stdh_fuzz.c, libFuzzer, one forked
// worker per core), seeded with the small files of test/data. Whatever the
// fuzzer saves as an artifact (sanitizer report, allocation attempt, harness
// I/O-contract violation, CPU budget of one input exhausted) is converted to
// an ordinary Case and judged by the same oracle as the generated cases, so
// that the replay file does not depend on the fuzzer binary.
func TestLibFuzzer(t *testing.T) {
	bin := os.Getenv("STDH_FUZZ")
	if bin == "" {
		t.Skip("STDH_FUZZ is not set (thorough tier only)")
	}
	env, err := stdrun.Get()
	if err != nil {
		t.Fatal(err)
	}
	defer env.Close()
	secs := ev.EnvInt("VERIF_FUZZ_SECONDS", 600)
	work, err := os.MkdirTemp(os.Getenv("VERIF_OUT"), "libfuzzer-")
	if err != nil {
		t.Fatal(err)
	}
	corpus, arts := filepath.Join(work, "corpus"), filepath.Join(work, "artifacts")
	os.MkdirAll(corpus, 0o755)
	os.MkdirAll(arts, 0o755)
	// seed corpus: every small corpus file, unsplit and in small pieces
	cp := stdgen.LoadCorpus(ev.RepoRoot())
	nseed := 0
	for _, k := range env.Kinds {
		ki := k.Index
		for _, f := range cp.Small(k.Pkg(), 8<<10) {
			for _, hdr := range [][3]byte{{0, 0, 0}, {5, 0, 0}, {0, 64, 0}, {100, 16, 0}} {
				b := append([]byte{byte(ki), hdr[0], hdr[1], hdr[2]}, f.Data...)
				os.WriteFile(filepath.Join(corpus, fmt.Sprintf("seed-%d", nseed)), b, 0o644)
				nseed++
			}
		}
	}
	ev.ClassN("seed-corpus-inputs", nseed)
	workers := ev.EnvInt("VERIF_FUZZ_WORKERS", 16)
	args := []string{"-fork=" + strconv.Itoa(workers), "-ignore_crashes=0", "-ignore_timeouts=0", "-ignore_ooms=0",
		"-max_total_time=" + strconv.Itoa(secs), "-timeout=150", "-rss_limit_mb=6000", "-max_len=16384",
		"-artifact_prefix=" + arts + "/", "-print_final_stats=1", corpus}
	cmd := exec.Command(bin, args...)
	cmd.Env = append(os.Environ(), "ASAN_OPTIONS=detect_leaks=0:abort_on_error=1", "UBSAN_OPTIONS=abort_on_error=1:print_stacktrace=1")
	var out bytes.Buffer
	cmd.Stdout, cmd.Stderr = &out, &out
	start := time.Now()
	runErr := cmd.Run()
	log := out.String()
	// statistics: executed inputs, corpus growth, coverage
	execs := 0
	for _, m := range regexp.MustCompile(`#(\d+): cov: (\d+) ft: (\d+) corp: (\d+)`).FindAllStringSubmatch(log, -1) {
		if n, _ := strconv.Atoi(m[1]); n > execs {
			execs = n
		}
	}
	if m := regexp.MustCompile(`stat::number_of_executed_units: (\d+)`).FindStringSubmatch(log); m != nil {
		if n, _ := strconv.Atoi(m[1]); n > execs {
			execs = n
		}
	}
	ev.EvalN(execs)
	var lastCov string
	if ms := regexp.MustCompile(`cov: (\d+) ft: (\d+) corp: (\d+)`).FindAllStringSubmatch(log, -1); len(ms) > 0 {
		l := ms[len(ms)-1]
		lastCov = fmt.Sprintf("libFuzzer: %d inputs executed in %.0f s by %d workers; final coverage %s edges, %s features, corpus %s inputs (from %d seeds)", execs, time.Since(start).Seconds(), workers, l[1], l[2], l[3], nseed)
		ev.Note(lastCov)
	}
	// every input the fuzzer kept is a coverage-distinct case: count those that get past the header as non-trivial
	kept, _ := filepath.Glob(filepath.Join(corpus, "*"))
	for i, f := range kept {
		b, err := os.ReadFile(f)
		if err != nil || strings.HasPrefix(filepath.Base(f), "seed-") {
			continue
		}
		if c, ok := fuzzCase(env, b); ok && len(c.Payload) >= 8 {
			ev.Class("kept-by-coverage:" + c.Kind)
			if i%97 == 0 {
				ev.Nontrivial(ev.Hash("libfuzzer", b), func() any {
					s := c
					if len(s.Payload) > 64 {
						s.Payload = s.Payload[:64]
					}
					return s
				})
			} else {
				ev.Nontrivial(ev.Hash("libfuzzer", b), nil)
			}
		}
	}
	// artifacts
	found, _ := filepath.Glob(filepath.Join(arts, "*"))
	for _, f := range found {
		b, err := os.ReadFile(f)
		if err != nil {
			continue
		}
		c, ok := fuzzCase(env, b)
		if !ok {
			continue
		}
		c.Source = "libfuzzer artifact " + filepath.Base(f)
		msg, _, _ := checkCase(env, c)
		if msg == "" {
			// the ordinary protocol does not reproduce it: keep the evidence, do not call it a violation
			ev.Class("artifact-not-reproduced-by-the-replay-path")
			keep := filepath.Join(ev.VerifRoot(), "out", "C03")
			os.MkdirAll(keep, 0o755)
			os.WriteFile(filepath.Join(keep, "unreproduced-libfuzzer-"+filepath.Base(f)), b, 0o644)
			os.WriteFile(filepath.Join(keep, "unreproduced-libfuzzer-"+filepath.Base(f)+".log"), []byte(tailOf(log, 6000)), 0o644)
			ev.Note(fmt.Sprintf("artifact %s (%d bytes, %s) did not reproduce through the harness protocol; fuzzer log tail: %s", filepath.Base(f), len(b), c.Kind, tailOf(log, 600)))
			continue
		}
		ev.Fail("C03", "std-safety", c, msg)
		t.Fatalf("C03 violated (found by libFuzzer): %s", msg)
	}
	if runErr != nil && len(found) == 0 && execs == 0 {
		t.Fatalf("INTERNAL: the fuzzer did not run: %v\n%s", runErr, tailOf(log, 2000))
	}
	if len(found) == 0 {
		ev.Class("fuzz-campaign-without-artifact")
	}
	os.RemoveAll(work)
	_ = stdh.IOT
}

func tailOf(s string, n int) string {
	if len(s) > n {
		return s[len(s)-n:]
	}
	return s
}
