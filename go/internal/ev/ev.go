// Package ev is the evidence / statistics / failure-recording layer shared by
// every property package.
//
// A property package calls ev.Eval once per generated case, ev.Nontrivial
// for cases satisfying the property's stated non-trivial rule, ev.Class for
// histogram classes and ev.Fail when the oracle disagrees. TestMain calls
// ev.Main(m) which flushes the statistics to $VERIF_STATS (one file per
// shard); cmd/vcheck merges the shards into /verif/evidence/<id>.json.
package ev

import (
	"crypto/sha256"
	"encoding/binary"
	"encoding/json"
	"fmt"
	"os"
	"path/filepath"
	"sort"
	"strconv"
	"sync"
	"testing"
	"time"
)

// Stats is what one shard reports.
type Stats struct {
	Evaluations int64            `json:"evaluations"`
	Hashes      []uint64         `json:"hashes"` // distinct non-trivial case hashes (capped)
	HashesCap   bool             `json:"hashes_capped"`
	Classes     map[string]int64 `json:"classes"`
	Excluded    map[string]int64 `json:"excluded"`
	Samples     []any            `json:"samples"`
	Notes       []string         `json:"notes"`
	WallS       float64          `json:"wall_s"`
}

const maxHashes = 4_000_000
const maxSamples = 6

var (
	mu       sync.Mutex
	evals    int64
	hashes   = map[uint64]struct{}{}
	capped   bool
	classes  = map[string]int64{}
	excluded = map[string]int64{}
	samples  []any
	notes    []string
	start    = time.Now()
)

// Eval counts one generated case / execution.
func Eval() { mu.Lock(); evals++; mu.Unlock() }

// EvalN counts n executions.
func EvalN(n int) { mu.Lock(); evals += int64(n); mu.Unlock() }

// Class increments a histogram class.
func Class(name string) { mu.Lock(); classes[name]++; mu.Unlock() }

// ClassN adds n to a histogram class.
func ClassN(name string, n int) { mu.Lock(); classes[name] += int64(n); mu.Unlock() }

// Excluded counts a candidate removed by a known-finding excluder.
func Excluded(name string) { mu.Lock(); excluded[name]++; mu.Unlock() }

// Note records a free-text note (deduplicated, capped).
func Note(s string) {
	mu.Lock()
	defer mu.Unlock()
	if len(notes) >= 20 {
		return
	}
	for _, n := range notes {
		if n == s {
			return
		}
	}
	notes = append(notes, s)
}

// Hash hashes arbitrary parts into a 64-bit case identity.
func Hash(parts ...any) uint64 {
	h := sha256.New()
	for _, p := range parts {
		switch v := p.(type) {
		case []byte:
			var l [8]byte
			binary.LittleEndian.PutUint64(l[:], uint64(len(v)))
			h.Write(l[:])
			h.Write(v)
		case string:
			var l [8]byte
			binary.LittleEndian.PutUint64(l[:], uint64(len(v)))
			h.Write(l[:])
			h.Write([]byte(v))
		default:
			fmt.Fprintf(h, "%T:%v|", p, p)
		}
	}
	return binary.LittleEndian.Uint64(h.Sum(nil))
}

// Nontrivial records a distinct non-trivial case. sample is only called for
// the first few cases, and must return something JSON-encodable.
func Nontrivial(hash uint64, sample func() any) {
	mu.Lock()
	defer mu.Unlock()
	if _, ok := hashes[hash]; ok {
		return
	}
	if len(hashes) >= maxHashes {
		capped = true
		return
	}
	hashes[hash] = struct{}{}
	if len(samples) < maxSamples && sample != nil {
		samples = append(samples, sample())
	}
}

// Replay is the on-disk form of a failing (or regression) case.
type Replay struct {
	Property string          `json:"property"`
	Kind     string          `json:"kind"`
	Case     json.RawMessage `json:"case"`
	Message  string          `json:"message,omitempty"`
	// Pkg names the test package that replays this file when it is not the
	// property's own package (jobs of shared engines, e.g. "e2").
	Pkg string `json:"pkg,omitempty"`
}

// Fail records a failing case: it is written to $VERIF_OUT/fail-<kind>.json,
// overwriting earlier (less shrunk) versions: rapid re-runs the minimal case
// last, so what remains on disk is the shrunk reproduction.
func Fail(property, kind string, c any, msg string) {
	dir := os.Getenv("VERIF_OUT")
	if dir == "" {
		return
	}
	raw, err := json.Marshal(c)
	if err != nil {
		raw, _ = json.Marshal(fmt.Sprintf("unencodable case: %v", err))
	}
	if len(msg) > 4000 {
		msg = msg[:4000] + "…"
	}
	b, _ := json.MarshalIndent(Replay{Property: property, Kind: kind, Case: raw, Message: msg, Pkg: os.Getenv("VERIF_JOB_PKG")}, "", " ")
	mu.Lock()
	defer mu.Unlock()
	name := filepath.Join(dir, "fail-"+kind+"-"+strconv.Itoa(os.Getpid())+".json")
	os.WriteFile(name, b, 0o644)
}

// LoadReplay reads a replay file.
func LoadReplay(path string) (*Replay, error) {
	b, err := os.ReadFile(path)
	if err != nil {
		return nil, err
	}
	r := &Replay{}
	if err := json.Unmarshal(b, r); err != nil {
		return nil, err
	}
	return r, nil
}

// Flush writes this shard's statistics to $VERIF_STATS.
func Flush() {
	path := os.Getenv("VERIF_STATS")
	if path == "" {
		return
	}
	mu.Lock()
	defer mu.Unlock()
	s := Stats{Evaluations: evals, Classes: classes, Excluded: excluded, Samples: samples,
		Notes: notes, HashesCap: capped, WallS: time.Since(start).Seconds()}
	for h := range hashes {
		s.Hashes = append(s.Hashes, h)
	}
	sort.Slice(s.Hashes, func(i, j int) bool { return s.Hashes[i] < s.Hashes[j] })
	b, _ := json.Marshal(s)
	os.WriteFile(path, b, 0o644)
}

// Main is the TestMain body of every property package.
func Main(m *testing.M) {
	code := m.Run()
	Flush()
	os.Exit(code)
}

// Seed returns VERIF_SEED (default 1).
func Seed() int64 {
	if v, err := strconv.ParseInt(os.Getenv("VERIF_SEED"), 10, 64); err == nil {
		return v
	}
	return 1
}

// Tier returns "quick" or "thorough".
func Tier() string {
	if os.Getenv("VERIF_TIER") == "thorough" {
		return "thorough"
	}
	return "quick"
}

// Thorough reports whether the thorough tier is running.
func Thorough() bool { return Tier() == "thorough" }

// EnvInt reads an integer environment variable with a default.
func EnvInt(name string, def int) int {
	if v, err := strconv.Atoi(os.Getenv(name)); err == nil {
		return v
	}
	return def
}

// ReplayPath is the file the TestReplay entry point must execute ("" if none).
func ReplayPath() string { return os.Getenv("VERIF_REPLAY") }

// RepoRoot is the google/wuffs tree under test (/repo for registered commands).
func RepoRoot() string {
	if v := os.Getenv("VERIF_REPO"); v != "" {
		return v
	}
	return "/repo"
}

// VerifRoot is /verif (overridable for development copies only).
func VerifRoot() string {
	if v := os.Getenv("VERIF_ROOT"); v != "" {
		return v
	}
	return "/verif"
}
