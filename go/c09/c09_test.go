// Package c09 decides property C09: results depend only on the input, not on
// memory garbage, initialize flags, earlier use of the object, destination
// memory beyond the write index, or the CPU-specific code paths.
package c09

import (
	"bytes"
	"encoding/json"
	"fmt"
	"strings"
	"testing"

	"pgregory.net/rapid"

	"verif/internal/ev"
	"verif/stdgen"
	"verif/stdh"
	"verif/stdrun"
)

func TestMain(m *testing.M) { ev.Main(m) }

// Variant is one way of departing from the baseline configuration.
type Variant struct {
	Name     string `json:"name"`
	Build    string `json:"build"` // san | noarch | o2
	Flags    uint32 `json:"flags,omitempty"`
	Prefill  uint8  `json:"prefill,omitempty"`
	DstFill  uint8  `json:"dst_fill,omitempty"`
	PixFill  uint8  `json:"pix_fill,omitempty"`
	WorkFill uint8  `json:"work_fill,omitempty"`
	Seed     uint64 `json:"seed,omitempty"`
	// Reinit: first decode Prior completely (or abort it after PriorBytes),
	// then re-initialise the same memory with Flags and decode the input.
	Reinit     bool   `json:"reinit,omitempty"`
	Prior      []byte `json:"prior,omitempty"`
	PriorFlags uint32 `json:"prior_flags,omitempty"`
}

// Case compares the baseline decode of Payload with one Variant.
type Case struct {
	Kind     string      `json:"kind"`
	Payload  []byte      `json:"payload"`
	Source   string      `json:"source"`
	Plan     stdgen.Plan `json:"plan"`
	Variant  Variant     `json:"variant"`
	Quirks   [][2]uint64 `json:"quirks,omitempty"`
	PixFmt   uint32      `json:"pixfmt,omitempty"`
	Pristine bool        `json:"pristine"` // input came from an encoder / the corpus unmodified
}

func maxFile() int {
	if ev.Thorough() {
		return 64 << 10
	}
	return 24 << 10
}

func genInput(t *rapid.T, k stdh.Kind, label string) (data []byte, desc string, quirks [][2]uint64, pristine bool) {
	pkg := k.Pkg()
	if k.Iface >= stdh.H32 {
		return stdgen.Payload(t, label+"pl", 200000), "hash-payload", nil, true
	}
	c := stdgen.LoadCorpus(ev.RepoRoot())
	files := c.Small(pkg, maxFile())
	var base []byte
	if rapid.IntRange(0, 9).Draw(t, label+"source") >= 5 {
		switch pkg {
		case "deflate", "zlib", "gzip", "lzw":
			for i := 0; i < 8; i++ {
				e := stdgen.Compressed(t, stdgen.Payload(t, label+"pl", 8000), label+"enc")
				if e.Pkg == pkg {
					base, desc, quirks = e.Data, "encoded:"+e.Pkg, e.Quirks
					break
				}
			}
		case "png":
			m, model := stdgen.Image(t, label+"img", 48)
			base, desc = stdgen.PNG(t, m, label+"png"), "image/png:"+model
		case "gif":
			b, _ := stdgen.GIF(t, label+"gif", 24)
			base, desc = b, "image/gif"
		case "jpeg":
			m, model := stdgen.Image(t, label+"img", 64)
			base, desc = stdgen.JPEG(t, m, label+"jpg"), "image/jpeg:"+model
		case "bmp":
			m, model := stdgen.Image(t, label+"img", 48)
			base, desc = stdgen.BMP(m), "x/image/bmp:"+model
		}
	}
	if base == nil && len(files) > 0 {
		f := files[rapid.IntRange(0, len(files)-1).Draw(t, label+"file")]
		base, desc = f.Data, "corpus:"+f.Name
	}
	if base == nil {
		return rapid.SliceOfN(rapid.Byte(), 0, 200).Draw(t, label+"raw"), "raw-bytes", nil, false
	}
	pristine = true
	nmut := rapid.SampledFrom([]int{0, 0, 0, 1, 1, 2}).Draw(t, label+"nmut")
	for i := 0; i < nmut; i++ {
		var name string
		base, name = stdgen.Mutate(t, fmt.Sprintf("%sm%d", label, i), pkg, base)
		desc += "+" + name
		pristine = false
	}
	return base, desc, quirks, pristine
}

func genCase(t *rapid.T, env *stdrun.Env) Case {
	k := env.Kinds[rapid.IntRange(0, len(env.Kinds)-1).Draw(t, "kind")]
	payload, desc, quirks, pristine := genInput(t, k, "")
	c := Case{Kind: k.Name, Payload: payload, Source: desc, Quirks: quirks, Pristine: pristine}
	c.Plan = stdgen.OneShot
	if rapid.IntRange(0, 3).Draw(t, "chunked") == 0 {
		c.Plan = stdgen.DrawPlan(t, "plan", len(payload))
		c.Plan.Closed = true
		c.Plan.WorkMode = 0
		c.Plan.DstFill, c.Plan.WorkFill = 0, 0
	}
	c.PixFmt = uint32(rapid.SampledFrom([]int{0, 0, 1, 0x80000565, 0x81008888}).Draw(t, "pixfmt"))
	v := Variant{Build: "san", Seed: uint64(rapid.Uint32().Draw(t, "vseed"))}
	builds := []string{"san"}
	if stdrun.HasVariant("noarch") {
		builds = append(builds, "noarch")
	}
	if stdrun.HasVariant("o2") {
		builds = append(builds, "o2")
	}
	switch rapid.IntRange(0, 8).Draw(t, "variant") {
	case 0:
		v.Name, v.Flags, v.Prefill = "already-zeroed", stdh.FlagAlreadyZeroed, 0
	case 1:
		v.Name, v.Flags, v.Prefill = "leave-uninit-over-0xFF", stdh.FlagLeaveInternalBuffersUninit, 0xFF
	case 2:
		v.Name, v.Flags, v.Prefill = "leave-uninit-over-random", stdh.FlagLeaveInternalBuffersUninit, stdh.PrefillRandom
	case 3:
		v.Name, v.Prefill = "default-init-over-garbage", rapid.SampledFrom([]uint8{0xFF, stdh.PrefillRandom, 0xA5}).Draw(t, "prefill")
	case 4, 5:
		v.Name, v.Reinit = "reinit-after-other-decode", true
		prior, _, _, _ := genInput(t, k, "prior_")
		if rapid.Bool().Draw(t, "abort") && len(prior) > 2 {
			prior = prior[:rapid.IntRange(1, len(prior)-1).Draw(t, "abortat")]
			v.Name = "reinit-after-aborted-decode"
		}
		v.Prior = prior
		v.PriorFlags = uint32(rapid.SampledFrom([]int{0, 2}).Draw(t, "priorflags"))
		v.Flags = uint32(rapid.SampledFrom([]int{0, 2}).Draw(t, "flags"))
	case 6:
		v.Name = "garbage-beyond-wi"
		v.DstFill = rapid.SampledFrom([]uint8{0xFF, stdh.PrefillRandom}).Draw(t, "dstfill")
		v.PixFill = 0 // pixels inside the frame are compared, so the canvas stays zero
		v.WorkFill = stdh.PrefillRandom
	default:
		v.Name = "build"
		v.Build = builds[rapid.IntRange(0, len(builds)-1).Draw(t, "build")]
		if v.Build == "san" {
			v.Name, v.Flags, v.Prefill = "leave-uninit-over-random", stdh.FlagLeaveInternalBuffersUninit, stdh.PrefillRandom
		}
	}
	if v.Build == "san" && len(builds) > 1 && rapid.IntRange(0, 3).Draw(t, "alsobuild") == 0 {
		v.Build = builds[rapid.IntRange(1, len(builds)-1).Draw(t, "build2")]
		v.Name += "+" + v.Build
	}
	// the buffers' prior contents are an independent dimension: half of all variants also hand the decoder a work
	// buffer (of exactly the requested length in chunked plans) and destination slack full of garbage
	if v.WorkFill == 0 && rapid.Bool().Draw(t, "bufgarbage") {
		v.WorkFill = stdh.PrefillRandom
		if v.DstFill == 0 {
			v.DstFill = rapid.SampledFrom([]uint8{0xFF, stdh.PrefillRandom}).Draw(t, "dstfill2")
		}
		v.Name += "+buffer-garbage"
	}
	c.Variant = v
	return c
}

func request(k stdh.Kind, c Case, v *Variant) []byte {
	plan := c.Plan
	o := stdrun.Opts{Quirks: c.Quirks, PixFmt: c.PixFmt, Dump: 0, Seed: 1}
	if v == nil {
		return stdrun.Request(k, c.Payload, plan, o)
	}
	plan.DstFill, plan.WorkFill = v.DstFill, v.WorkFill
	o.Flags, o.Prefill, o.PixFill, o.Seed = v.Flags, v.Prefill, v.PixFill, v.Seed
	if !v.Reinit {
		return stdrun.Request(k, c.Payload, plan, o)
	}
	// decode Prior first on the same memory, then re-initialise over what it left
	r := stdh.NewReq(k.Index, v.Prior, 40, v.Seed)
	r.Init(v.PriorFlags, 0, 0, 0)
	for _, q := range c.Quirks {
		r.Quirk(uint32(q[0]), q[1])
	}
	p2, disc := stdrun.Discipline(k, stdgen.OneShot, o)
	_ = disc
	r.Src(p2.SrcMode, p2.SrcChunk, true, true, nil).Dst(0, 1<<22, 0, 0, false).Work(4, 0)
	if k.Iface == stdh.IMG {
		r.Pix(c.PixFmt, 0, 0, 0, 0)
	}
	r.Drive(1 << 20)
	r.NewPayload(c.Payload)
	r.Init(v.Flags, stdh.PrefillKeep, 0, 0)
	for _, q := range c.Quirks {
		r.Quirk(uint32(q[0]), q[1])
	}
	stdrun.AppendPlan(r, k, c.Payload, plan, o)
	r.Drive(4 << 20)
	return r.Bytes()
}

func summarize(k stdh.Kind, r *stdh.Resp) string {
	var sb strings.Builder
	fmt.Fprintf(&sb, "final=%q consumed=%d calls=%d sr=%d sw=%d", r.Final, r.Consumed, r.NCalls, r.NShortRead, r.NShortWrite)
	switch k.Iface {
	case stdh.IOT:
		fmt.Fprintf(&sb, " out=%d/%x", len(r.Out), r.OutHash)
	case stdh.IMG:
		fmt.Fprintf(&sb, " img=%v %dx%d fmt=%x frames=%d pix=%x", r.HaveImage, r.W, r.H, r.NativeFmt, len(r.Frames), r.PixHash)
		for _, f := range r.Frames {
			fmt.Fprintf(&sb, " [%d %v %q dirty=%v pix=%x]", f.Index, f.Bounds, f.Status, f.Dirty, f.PixHash)
		}
	case stdh.TOK:
		fmt.Fprintf(&sb, " tokens=%d covered=%d", len(r.Tokens), r.Covered)
		h := uint64(14695981039346656037)
		for _, tk := range r.Tokens {
			for _, v := range []uint64{tk.Value, tk.Length, tk.Pos} {
				h = (h ^ v) * 1099511628211
			}
		}
		fmt.Fprintf(&sb, " tokhash=%x", h)
	default:
		fmt.Fprintf(&sb, " hash=%x", r.Hash)
	}
	for i, c := range r.Calls {
		if i < 24 {
			fmt.Fprintf(&sb, " {%s %q %d>%d %d>%d}", c.Method, c.Status, c.SrcRi0, c.SrcRi1, c.DstWi0, c.DstWi1)
		}
	}
	return sb.String()
}

func checkCase(env *stdrun.Env, c Case) (msg string, nontrivial bool, classes []string) {
	k, ok := env.Kind(c.Kind)
	if !ok {
		return "", false, []string{"unknown-kind"}
	}
	v := c.Variant
	if v.Build != "san" && !stdrun.HasVariant(v.Build) {
		return "", false, []string{"variant-build-missing"}
	}
	// the property's documented exception: the two JPEG IDCT variants need only agree on encoder-produced blocks
	if k.Pkg() == "jpeg" && v.Build == "noarch" && !c.Pristine {
		return "", false, []string{"jpeg-arch-exception-not-compared"}
	}
	base, err := env.Exec("san", request(k, c, nil))
	if err != nil {
		return "", false, []string{"baseline-crashed"}
	}
	if base.GaveUp {
		return "", false, []string{"baseline-gave-up"}
	}
	got, err := env.Exec(v.Build, request(k, c, &v))
	if err != nil {
		if ce, ok := stdh.IsCrash(err); ok {
			if ce.Timeout {
				return "", false, []string{"variant-timeout"}
			}
			return fmt.Sprintf("%s (%s): baseline run fine, variant %s (%s build) crashed: %v", c.Kind, c.Source, v.Name, v.Build, ce), false, nil
		}
		return "", false, []string{"harness-error"}
	}
	for i, s := range got.Inits {
		if s != "" {
			return "", false, []string{fmt.Sprintf("init-%d-refused", i)}
		}
	}
	a, b := summarize(k, base), summarize(k, got)
	if a != b || !bytes.Equal(base.Out, got.Out) {
		return fmt.Sprintf("%s (%d bytes, %s) gives different results under variant %s (%s build):\n baseline %s\n variant  %s", c.Kind, len(c.Payload), c.Source, v.Name, v.Build, a, b), false, nil
	}
	if v.WorkFill != 0 {
		classes = append(classes, "work-buffer-and-dst-slack-garbage")
	}
	classes = append(classes, "variant-"+strings.SplitN(v.Name, "+", 2)[0], "build-"+v.Build, "iface-"+[]string{"io_transformer", "image_decoder", "token_decoder", "hasher_u32", "hasher_u64", "hasher_bitvec256"}[k.Iface])
	produced := len(base.Out) >= 64 || (base.HaveImage && len(base.Frames) > 0) || len(base.Tokens) >= 8 || len(base.Hash) > 0
	nontrivial = produced
	if v.Build == "noarch" && !(env.CPU.SSE42 && env.CPU.AVX2) {
		classes = append(classes, "arch-clause-not-exercisable-on-this-cpu")
	}
	return "", nontrivial, classes
}

func runCase(t interface{ Fatalf(string, ...any) }, env *stdrun.Env, c Case) {
	ev.Eval()
	msg, nt, classes := checkCase(env, c)
	if msg != "" {
		ev.Fail("C09", "determinism", c, msg)
		t.Fatalf("C09 violated: %s", msg)
	}
	for _, cl := range classes {
		ev.Class(cl)
	}
	if nt {
		ev.Nontrivial(ev.Hash(c.Kind, c.Payload, fmt.Sprintf("%+v", c.Variant.Name), c.Variant.Build), func() any {
			s := c
			if len(s.Payload) > 48 {
				s.Payload = s.Payload[:48]
			}
			if len(s.Variant.Prior) > 16 {
				s.Variant.Prior = s.Variant.Prior[:16]
			}
			s.Source += fmt.Sprintf(" (sample truncated; %d bytes)", len(c.Payload))
			return s
		})
	}
}

// TestPropArch is the CPU-path clause on its own, for the kinds whose SIMD and
// portable code differ most in structure (hashers, deflate-based decoders): the
// same input and chunking on the default build (SSE4.2 / AVX2 paths taken) and
// on the WUFFS_CONFIG__AVOID_CPU_ARCH build must give identical results. Half of
// the payloads are worst cases for accumulators that defer a modulo (long runs of
// the largest byte values after a short prefix), up to 200000 bytes.
func TestPropArch(t *testing.T) {
	env, err := stdrun.Get()
	if err != nil {
		t.Fatal(err)
	}
	defer env.Close()
	if !stdrun.HasVariant("noarch") {
		t.Skip("no portable build")
	}
	var kinds []stdh.Kind
	for _, k := range env.Kinds {
		switch k.Pkg() {
		case "adler32", "crc32", "crc64", "xxhash32", "xxhash64", "sha256", "zlib", "gzip", "deflate":
			kinds = append(kinds, k)
		}
	}
	rapid.Check(t, func(t *rapid.T) {
		k := kinds[rapid.IntRange(0, len(kinds)-1).Draw(t, "kind")]
		var payload []byte
		desc := "hash-payload"
		if k.Iface >= stdh.H32 {
			payload = stdgen.Payload(t, "pl", 200000)
			if rapid.Bool().Draw(t, "high") {
				n := 200000 - rapid.IntRange(0, 190000).Draw(t, "hshort")
				np := rapid.IntRange(0, 300).Draw(t, "hprefix")
				payload = make([]byte, 0, n)
				for i := 0; i < np && i < n; i++ {
					payload = append(payload, byte(0xFF-rapid.IntRange(0, 16).Draw(t, fmt.Sprintf("hp%d", i))))
				}
				for len(payload) < n {
					payload = append(payload, 0xFF)
				}
				desc = "high-byte-run"
			}
		} else {
			e := stdgen.Compressed(t, stdgen.Payload(t, "pl", 90000), "enc")
			if kk, ok := env.Kind(e.Pkg + ".decoder"); ok {
				k, payload, desc = kk, e.Data, "encoded:"+e.Pkg
			} else {
				t.Skip("no kind")
			}
		}
		c := Case{Kind: k.Name, Payload: payload, Source: desc, Pristine: true}
		c.Plan = stdgen.OneShot
		if rapid.Bool().Draw(t, "chunked") {
			c.Plan = stdgen.DrawPlan(t, "plan", len(payload))
			c.Plan.Closed = true
			c.Plan.WorkMode = 0
			c.Plan.DstFill, c.Plan.WorkFill = 0, 0
		}
		c.Variant = Variant{Name: "build", Build: "noarch", Seed: 1}
		runCase(t, env, c)
	})
}

func TestProp(t *testing.T) {
	env, err := stdrun.Get()
	if err != nil {
		t.Fatal(err)
	}
	defer env.Close()
	rapid.Check(t, func(t *rapid.T) {
		runCase(t, env, genCase(t, env))
	})
}

// TestBitFlips enumerates EVERY single-bit corruption of every small corpus
// file (<= VERIF_C09_FLIPMAX bytes, default 160) of every kind and compares
// the zero-memory baseline with a decode over garbage memory that initialize
// was told to leave alone: a code path that reads a slot it never wrote is
// reached by some near-valid input rather than by a valid one.
func TestBitFlips(t *testing.T) {
	env, err := stdrun.Get()
	if err != nil {
		t.Fatal(err)
	}
	defer env.Close()
	c := stdgen.LoadCorpus(ev.RepoRoot())
	limit := ev.EnvInt("VERIF_C09_FLIPMAX", 160)
	shard, nshards := ev.EnvInt("VERIF_SHARD", 0), ev.EnvInt("VERIF_NSHARDS", 1)
	idx := 0
	for _, k := range env.Kinds {
		if k.Iface >= stdh.H32 {
			continue
		}
		for _, f := range c.Small(k.Pkg(), limit) {
			if shard == 0 {
				ev.Class("bit-flip-file")
			}
			for bit := 0; bit < 8*len(f.Data); bit++ {
				idx++
				if idx%nshards != shard {
					continue
				}
				p := append([]byte(nil), f.Data...)
				p[bit/8] ^= 1 << (bit % 8)
				prefill := uint8(stdh.PrefillRandom)
				if bit%3 == 1 {
					prefill = []uint8{0x40, 0x08, 0x11, 0xFF, 0x80, 0x01}[(bit/3)%6]
				}
				cs := Case{Kind: k.Name, Payload: p, Source: fmt.Sprintf("corpus:%s+flip-bit-%d", f.Name, bit), Plan: stdgen.OneShot,
					Variant: Variant{Name: "leave-uninit-over-garbage", Build: "san", Flags: stdh.FlagLeaveInternalBuffersUninit, Prefill: prefill, Seed: uint64(bit)*2654435761 + 1,
						WorkFill: stdh.PrefillRandom, DstFill: 0xFF}}
				runCase(t, env, cs)
			}
		}
	}
}

// TestTruncations cuts every corpus file (up to the tier's size limit) at 32
// evenly spread positions (every position for files of up to 64 bytes) and
// compares the zero-memory, zero-buffer baseline with a decode whose object
// memory, work buffer (of exactly the requested length) and destination slack
// are garbage: whatever a decoder reports about the part of the input it never
// saw must not come from memory it was handed.
func TestTruncations(t *testing.T) {
	env, err := stdrun.Get()
	if err != nil {
		t.Fatal(err)
	}
	defer env.Close()
	c := stdgen.LoadCorpus(ev.RepoRoot())
	shard, nshards := ev.EnvInt("VERIF_SHARD", 0), ev.EnvInt("VERIF_NSHARDS", 1)
	seed := uint64(ev.Seed())
	idx := 0
	for _, k := range env.Kinds {
		if k.Iface >= stdh.H32 {
			continue
		}
		for _, f := range c.Small(k.Pkg(), maxFile()) {
			if shard == 0 {
				ev.Class("truncation-file")
			}
			n := len(f.Data)
			var cuts []int
			if n <= 64 {
				for i := 0; i < n; i++ {
					cuts = append(cuts, i)
				}
			} else {
				for i := 0; i < 32; i++ {
					j := (seed*2654435761 + uint64(i)*40503 + uint64(n)) % uint64(n/32)
					cuts = append(cuts, i*(n/32)+int(j))
				}
			}
			for _, cut := range cuts {
				idx++
				if idx%nshards != shard {
					continue
				}
				prefill := uint8(stdh.PrefillRandom)
				if idx%3 == 1 {
					prefill = []uint8{0x40, 0x08, 0x11, 0xFF, 0x80, 0x01}[(idx/3)%6]
				}
				cs := Case{Kind: k.Name, Payload: f.Data[:cut], Source: fmt.Sprintf("corpus:%s+truncated-at-%d", f.Name, cut), Plan: stdgen.OneShot,
					Variant: Variant{Name: "leave-uninit-over-garbage", Build: "san", Flags: stdh.FlagLeaveInternalBuffersUninit, Prefill: prefill, Seed: uint64(cut)*2654435761 + 7,
						WorkFill: stdh.PrefillRandom, DstFill: 0xFF}}
				runCase(t, env, cs)
			}
		}
	}
}

func TestReplay(t *testing.T) {
	p := ev.ReplayPath()
	if p == "" {
		t.Skip("no VERIF_REPLAY")
	}
	env, err := stdrun.Get()
	if err != nil {
		t.Fatal(err)
	}
	defer env.Close()
	r, err := ev.LoadReplay(p)
	if err != nil {
		t.Fatal(err)
	}
	var c Case
	if err := json.Unmarshal(r.Case, &c); err != nil {
		t.Fatal(err)
	}
	runCase(t, env, c)
}
