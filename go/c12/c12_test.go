// Package c12 decides property C12: both formatters change only white space
// and are idempotent.
//
//	(a) wuffsfmt's pipeline (token.Tokenize + parse.Parse + render.Render), see
//	    wuffs_test.go, replay kind "wuffsfmt";
//	(b) lib/dumbindent.FormatBytes, see dumb_test.go, replay kind "dumbindent".
package c12

import (
	"encoding/json"
	"testing"

	"verif/internal/ev"
)

func TestMain(m *testing.M) { ev.Main(m) }

type fataler interface {
	Fatalf(string, ...any)
}

// TestReplay re-executes one saved case without rapid.
func TestReplay(t *testing.T) {
	p := ev.ReplayPath()
	if p == "" {
		t.Skip("no VERIF_REPLAY")
	}
	r, err := ev.LoadReplay(p)
	if err != nil {
		t.Fatalf("load: %v", err)
	}
	switch r.Kind {
	case "wuffsfmt":
		var c WuffsCase
		if err := json.Unmarshal(r.Case, &c); err != nil {
			t.Fatalf("decode: %v", err)
		}
		runWuffsCase(t, c)
	case "dumbindent":
		var c DumbCase
		if err := json.Unmarshal(r.Case, &c); err != nil {
			t.Fatalf("decode: %v", err)
		}
		replayMode = true
		runDumbCase(t, c)
	default:
		t.Fatalf("unknown replay kind %q", r.Kind)
	}
}
